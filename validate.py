#!/usr/bin/env python3
import json, sys, glob
try:
    import jsonschema
except ImportError:
    sys.exit("run with python3-vt")
jsonschema.validate(json.load(open('/verif/MANIFEST.json')), json.load(open('/root/.vp/MANIFEST.schema.json')))
es = json.load(open('/root/.vp/EVIDENCE.schema.json'))
for f in sorted(glob.glob('/verif/evidence/*.json')):
    jsonschema.validate(json.load(open(f)), es); print('ok', f)
m = json.load(open('/verif/MANIFEST.json'))
ids = {c['property_id'] for c in m['checks']} | {n['property_id'] for n in m.get('not_applicable', [])}
allp = {json.loads(l)['id'] for l in open('/verif/properties.jsonl')}
print('manifest ok; unclaimed and not listed n/a:', sorted(allp - ids))
