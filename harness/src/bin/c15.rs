//! C15 — custom-width integer sample types: correspondence stream `ty` (real `dasp_sample::types`
//! vs the regenerated `new_sample_type!` bodies executed by the Lean driver) + native oracle in
//! i128 written from the property text (MIN/MAX/2^bits from the type's *name*, not from types.rs).
#[path = "../util.rs"]
mod util;
use dasp_sample::types::{I11, I20, I24, I48, U11, U20, U24, U48};
use std::cmp::Ordering;
use util::*;

type Un = fn(i128) -> Option<i128>;
type Bin = fn(i128, i128) -> Option<i128>;

struct TyOps {
    name: &'static str,
    bits: u32,
    signed: bool,
    rep_bits: u32,
    new: Un,                 // Some(inner) / None as returned (never panics)
    from: Un,                // None = panic
    add: Bin,
    sub: Bin,
    mul: Bin,
    neg: Option<Un>,
    cmp: fn(i128, i128) -> (Ordering, Option<Ordering>, bool, bool, bool),
    /// the remaining comparison entry points: `>`, `>=`, `!=`, `Ord::max`, `Ord::min` (each may be overridden separately)
    cmp2: fn(i128, i128) -> (bool, bool, bool, i128, i128),
    consts: fn() -> (i128, i128, i128), // MIN, MAX, EQUILIBRIUM as exported
}

macro_rules! neg_of {
    ($T:ident, $Rep:ty, yes) => { Some((|a: i128| guarded(|| (-$T::new_unchecked(a as $Rep)).inner() as i128)) as Un) };
    ($T:ident, $Rep:ty, no) => { None };
}

macro_rules! ty_ops {
    ($T:ident, $m:ident, $Rep:ty, $bits:expr, $signed:expr, $neg:tt) => {
        TyOps {
            name: stringify!($T), bits: $bits, signed: $signed, rep_bits: <$Rep>::BITS,
            new: |v| $T::new(v as $Rep).map(|x| x.inner() as i128),
            from: |v| guarded(|| $T::from(v as $Rep).inner() as i128),
            add: |a, b| guarded(|| ($T::new_unchecked(a as $Rep) + $T::new_unchecked(b as $Rep)).inner() as i128),
            sub: |a, b| guarded(|| ($T::new_unchecked(a as $Rep) - $T::new_unchecked(b as $Rep)).inner() as i128),
            mul: |a, b| guarded(|| ($T::new_unchecked(a as $Rep) * $T::new_unchecked(b as $Rep)).inner() as i128),
            neg: neg_of!($T, $Rep, $neg),
            cmp: |a, b| {
                let (x, y) = ($T::new_unchecked(a as $Rep), $T::new_unchecked(b as $Rep));
                (x.cmp(&y), x.partial_cmp(&y), x == y, x < y, x <= y)
            },
            cmp2: |a, b| {
                let (x, y) = ($T::new_unchecked(a as $Rep), $T::new_unchecked(b as $Rep));
                (x > y, x >= y, x != y, Ord::max(x, y).inner() as i128, Ord::min(x, y).inner() as i128)
            },
            consts: || (dasp_sample::types::$m::MIN.inner() as i128, dasp_sample::types::$m::MAX.inner() as i128,
                        dasp_sample::types::$m::EQUILIBRIUM.inner() as i128),
        }
    };
}

fn types() -> Vec<TyOps> {
    vec![
        ty_ops!(I11, i11, i16, 11, true, yes), ty_ops!(I20, i20, i32, 20, true, no),
        ty_ops!(I24, i24, i32, 24, true, yes), ty_ops!(I48, i48, i64, 48, true, yes),
        ty_ops!(U11, u11, i16, 11, false, yes), ty_ops!(U20, u20, i32, 20, false, no),
        ty_ops!(U24, u24, i32, 24, false, no), ty_ops!(U48, u48, i64, 48, false, no),
    ]
}

// ---- widening From impls (types.rs `from:` lists): (dst, src, lo, hi of the source, call)
macro_rules! wp { ($D:ident, $S:ty) => { (stringify!($D), stringify!($S), <$S>::MIN as i128, <$S>::MAX as i128,
    (|v: i128| guarded(|| $D::from(v as $S).inner() as i128)) as Un) }; }
macro_rules! wc { ($D:ident, $S:ident, $SRep:ty, $lo:expr, $hi:expr) => { (stringify!($D), stringify!($S), $lo as i128, $hi as i128,
    (|v: i128| guarded(|| $D::from($S::new_unchecked(v as $SRep)).inner() as i128)) as Un) }; }

fn widenings() -> Vec<(&'static str, &'static str, i128, i128, Un)> {
    let (i11, u11) = ((-1024, 1023), (0, 2047));
    let (i20, u20) = ((-524_288, 524_287), (0, 1_048_575));
    let (i24, u24) = ((-8_388_608, 8_388_607), (0, 16_777_215));
    vec![
        wp!(I11, i8), wp!(I11, u8),
        wp!(I20, i8), wc!(I20, I11, i16, i11.0, i11.1), wp!(I20, i16), wp!(I20, u8), wc!(I20, U11, i16, u11.0, u11.1), wp!(I20, u16),
        wp!(I24, i8), wp!(I24, i16), wc!(I24, I20, i32, i20.0, i20.1), wp!(I24, u8), wp!(I24, u16), wc!(I24, U20, i32, u20.0, u20.1),
        wp!(I48, i8), wp!(I48, i16), wc!(I48, I20, i32, i20.0, i20.1), wc!(I48, I24, i32, i24.0, i24.1), wp!(I48, i32),
        wp!(I48, u8), wp!(I48, u16), wc!(I48, U20, i32, u20.0, u20.1), wc!(I48, U24, i32, u24.0, u24.1), wp!(I48, u32),
        wp!(U11, u8),
        wp!(U20, u8), wp!(U20, u16),
        wp!(U24, u8), wp!(U24, u16), wc!(U24, U20, i32, u20.0, u20.1),
        wp!(U48, u8), wp!(U48, u16), wc!(U48, U20, i32, u20.0, u20.1), wc!(U48, U24, i32, u24.0, u24.1), wp!(U48, u32),
    ]
}

// ---- the property, in the plainest terms -------------------------------------------------
fn lo(t: &TyOps) -> i128 { if t.signed { -(1i128 << (t.bits - 1)) } else { 0 } }
fn hi(t: &TyOps) -> i128 { if t.signed { (1i128 << (t.bits - 1)) - 1 } else { (1i128 << t.bits) - 1 } }
fn in_range(t: &TyOps, v: i128) -> bool { lo(t) <= v && v <= hi(t) }
/// "wrapped modulo 2^bits into range"
fn wrap(t: &TyOps, v: i128) -> i128 { (v - lo(t)).rem_euclid(1i128 << t.bits) + lo(t) }
fn rep_lo(t: &TyOps) -> i128 { -(1i128 << (t.rep_bits - 1)) }
fn rep_hi(t: &TyOps) -> i128 { (1i128 << (t.rep_bits - 1)) - 1 }

fn show(r: Option<i128>) -> String { match r { Some(x) => x.to_string(), None => "panic".into() } }
fn ord_str(o: Ordering) -> &'static str { match o { Ordering::Less => "lt", Ordering::Equal => "eq", Ordering::Greater => "gt" } }

/// built inside /verif/harness_nostd (dasp_sample without its `std` feature)?
const NOSTD: bool = cfg!(feature = "nostd");

fn main() {
    let a = Args::parse();
    if a.stream.ends_with("_nostd") != NOSTD {
        if NOSTD { eprintln!("stream {} needs the std build", a.stream); std::process::exit(2); }
        delegate_nostd("c15_nostd");
    }
    match a.stream.as_str() {
        "ty" | "ty_nostd" => run(&a),
        s => { eprintln!("unknown stream {}", s); std::process::exit(2); }
    }
}

/// in-range boundary-structured operand values
fn boundary(t: &TyOps, radius: i128, all_pows: bool) -> Vec<i128> {
    let (l, h) = (lo(t), hi(t));
    let eq = if t.signed { 0 } else { 1i128 << (t.bits - 1) };
    let mut v = vec![];
    let mut push = |x: i128| { if x >= l && x <= h { v.push(x); } };
    for d in -radius..=radius { push(l + d); push(h + d); push(eq + d); push(d); push(h / 2 + d); push(l / 2 + d); }
    for k in 0..t.bits {
        let r = if all_pows { 1 } else { 0 };
        for d in -r..=r {
            push((1i128 << k) + d); push(-(1i128 << k) + d); push(eq + (1i128 << k) + d); push(eq - (1i128 << k) + d); push(h - (1i128 << k) + d);
        }
    }
    // square-root neighbourhood: products land next to the range boundaries
    let s = ((h as f64).sqrt()) as i128;
    for d in -2..=2 { push(s + d); push(-s + d); }
    v.sort(); v.dedup(); v
}

fn grid256(t: &TyOps, rng: &mut Rng) -> Vec<i128> {
    let mut g = boundary(t, 4, false);
    let (l, h) = (lo(t), hi(t));
    // keep the boundary values, fill up to 256 distinct points with seeded random ones
    g.truncate(200);
    while g.len() < 256 { let x = rng.range_i128(l, h); if !g.contains(&x) { g.push(x); } }
    g.sort(); g
}

struct Ctx<'a> { st: &'a mut Stream, mode: &'static str, dbg: bool, thorough: bool }

/// number of iterations the `wrap_overflow` loops make on the backing-type value `v`
fn loop_iters(t: &TyOps, v: i128) -> i128 {
    let total = 1i128 << t.bits;
    if v > hi(t) { (v - hi(t) + total - 1) / total } else if v < lo(t) { (lo(t) - v + total - 1) / total } else { 0 }
}
fn rep_wrap(t: &TyOps, v: i128) -> i128 { (v - rep_lo(t)).rem_euclid(1i128 << t.rep_bits) + rep_lo(t) }

impl<'a> Ctx<'a> {
    /// oracle for add/sub/mul/(signed) neg on in-range operands
    fn check_arith(&mut self, t: &TyOps, op: &str, exact: i128, got: Option<i128>, case: &dyn Fn() -> String, property_covers: bool) {
        // in neither build is a value outside [MIN, MAX] returned
        if let Some(r) = got {
            if !in_range(t, r) {
                self.st.oracle_fail(&format!("{} {} returned a value outside [MIN, MAX]", t.name, op), &case(), &format!("within [{}, {}]", lo(t), hi(t)), &r.to_string());
                return;
            }
        }
        if !property_covers { self.st.oracle_ok(1); return; }
        let want = if self.dbg { if in_range(t, exact) { Some(exact) } else { None } } else { Some(wrap(t, exact)) };
        if got != want {
            let what = if self.dbg { format!("{} {}: debug-assertions build must return the exact result if in range and panic otherwise", t.name, op) }
                       else { format!("{} {}: release build must return the exact result wrapped modulo 2^{} into range", t.name, op, t.bits) };
            self.st.oracle_fail(&what, &case(), &show(want), &show(got));
        } else { self.st.oracle_ok(1); }
    }

    fn bin_cases(&mut self, t: &TyOps, op: &'static str, f: Bin, pairs: &[(i128, i128)]) {
        // The release `Mul` runs the `wrap_overflow` loops on the wrapped backing-type product: up to
        // 2^(rep_bits-bits) iterations (32768 for 48-bit), each of which the Lean model replays in
        // unbounded-Int arithmetic.  Pairs needing many iterations go through the model only while an
        // iteration budget lasts; all the others are still checked natively against the oracle.
        let mut budget: i128 = if self.thorough { 20_000_000 } else { 2_000_000 };
        let mut model_pairs: Vec<(i128, i128)> = Vec::with_capacity(pairs.len());
        for &(a, b) in pairs {
            let it = if op == "mul" && !self.dbg { loop_iters(t, rep_wrap(t, a * b)) } else { 0 };
            if it <= 64 || budget >= it { if it > 64 { budget -= it; self.st.count("mul_far_product_through_model"); } model_pairs.push((a, b)); continue; }
            let r = f(a, b);
            let mode = self.mode;
            self.check_arith(t, op, a * b, r, &|| format!("ty {} {} {} {} {}", t.name, mode, op, a, b), true);
            self.st.count("mul_far_product_native_oracle_only");
        }
        for chunk in model_pairs.chunks(256) {
            let mut line = format!("ty {} {} {}", t.name, self.mode, op);
            let mut obs = String::new();
            let mut nontrivial = false;
            for (i, &(a, b)) in chunk.iter().enumerate() {
                line.push_str(&format!(" {} {}", a, b));
                let r = f(a, b);
                if i > 0 { obs.push(' '); }
                obs.push_str(&show(r));
                let exact = match op { "add" => a + b, "sub" => a - b, _ => a * b };
                if !in_range(t, exact) { nontrivial = true; self.st.count(&format!("{}_out_of_range_exact", op)); }
                if r.is_none() { self.st.count("panics"); }
                let mode = self.mode;
                self.check_arith(t, op, exact, r, &|| format!("ty {} {} {} {} {}", t.name, mode, op, a, b), true);
            }
            self.st.case(&line, &obs, nontrivial, chunk.len() as u64);
            self.st.count(&format!("op_{}", op));
        }
    }
}

fn run(a: &Args) {
    let mut st = Stream::new(&a.out, if NOSTD { "ty_nostd" } else { "ty" });
    let mut rng = Rng::new(a.seed, "ty");
    let dbg = cfg!(debug_assertions);
    let mode = if dbg { "dbg" } else { "rel" };
    let thorough = a.thorough();
    let tys = types();
    let mut cx = Ctx { st: &mut st, mode, dbg, thorough };

    for t in tys.iter() {
        let (l, h) = (lo(t), hi(t));
        let total = 1i128 << t.bits;
        let (rl, rh) = (rep_lo(t), rep_hi(t));
        // exported constants are the ones the property names
        let (cmin, cmax, ceq) = (t.consts)();
        let weq = if t.signed { 0 } else { 1i128 << (t.bits - 1) };
        if (cmin, cmax, ceq) != (l, h, weq) {
            cx.st.oracle_fail(&format!("{}: MIN/MAX/EQUILIBRIUM constants", t.name), t.name, &format!("{} {} {}", l, h, weq), &format!("{} {} {}", cmin, cmax, ceq));
        } else { cx.st.oracle_ok(1); }

        // ---------------- new: checked construction succeeds exactly for in-range values
        let mut vals: Vec<i128> = vec![];
        if t.bits == 11 { vals.extend(rl..=rh); cx.st.count("new_exhaustive_over_rep"); }
        else {
            for d in -6..=6 { for c in [l, h, 0, weq, rl, rh, l - total, h + total] { let x = c + d; if x >= rl && x <= rh { vals.push(x); } } }
            for k in 0..t.rep_bits - 1 { for d in -1..=1 { for s in [1i128, -1] { let x = s * (1i128 << k) + d; if x >= rl && x <= rh { vals.push(x); } } } }
            for _ in 0..(if thorough { 20000 } else { 2000 }) {
                vals.push(if rng.chance(1, 2) { rng.range_i128(rl, rh) } else { rng.range_i128((l - total).max(rl), (h + total).min(rh)) });
            }
        }
        for chunk in vals.chunks(512) {
            let mut line = format!("ty {} {} new", t.name, mode);
            let mut obs = String::new();
            let mut nontrivial = false;
            for (i, &v) in chunk.iter().enumerate() {
                line.push_str(&format!(" {}", v));
                let r = (t.new)(v);
                if i > 0 { obs.push(' '); }
                obs.push_str(&match r { Some(x) => x.to_string(), None => "none".into() });
                let want = if in_range(t, v) { Some(v) } else { None };
                if r != want {
                    cx.st.oracle_fail(&format!("{}::new must succeed exactly for in-range values", t.name), &format!("ty {} {} new {}", t.name, mode, v),
                        &format!("{:?}", want), &format!("{:?}", r));
                } else { cx.st.oracle_ok(1); }
                if v != 0 && v != l && v != h { nontrivial = true; }
            }
            cx.st.case(&line, &obs, nontrivial, chunk.len() as u64);
            cx.st.count("op_new");
        }

        // ---------------- From<Rep>: wraps modulo 2^bits into range (never panics, terminates)
        let mut vals: Vec<i128> = vec![];
        if t.bits == 11 { vals.extend(rl..=rh); cx.st.count("from_exhaustive_over_rep"); }
        else {
            for d in -4..=4 {
                for c in [l, h, 0, weq, rl, rh, l - total, h + total, l - 2 * total, h + 2 * total, l - 37 * total, h + 37 * total] {
                    let x = c + d; if x >= rl && x <= rh { vals.push(x); }
                }
            }
            for k in 0..t.rep_bits - 1 { for d in -1..=1 { for s in [1i128, -1] { let x = s * (1i128 << k) + d; if x >= rl && x <= rh { vals.push(x); } } } }
            // far-out values cost up to 2^(rep_bits-bits) loop iterations in code and model: fewer of them for 48-bit
            let far = if thorough { 30000 } else { 3000 };
            for _ in 0..far { vals.push(rng.range_i128(rl, rh)); }
            for _ in 0..(if thorough { 30000 } else { 3000 }) { vals.push(rng.range_i128((l - 3 * total).max(rl), (h + 3 * total).min(rh))); }
        }
        // same iteration budget for the values that go through the model (see `bin_cases`)
        let mut budget: i128 = if thorough { 20_000_000 } else { 2_000_000 };
        let mut model_vals: Vec<i128> = Vec::with_capacity(vals.len());
        for &v in vals.iter() {
            let it = loop_iters(t, v);
            if it <= 64 || budget >= it { if it > 64 { budget -= it; cx.st.count("from_far_value_through_model"); } model_vals.push(v); continue; }
            let r = (t.from)(v);
            if r != Some(wrap(t, v)) {
                cx.st.oracle_fail(&format!("{}::from must wrap modulo 2^{} into range", t.name, t.bits), &format!("ty {} {} from {}", t.name, mode, v), &show(Some(wrap(t, v))), &show(r));
            } else { cx.st.oracle_ok(1); }
            cx.st.count("from_far_value_native_oracle_only");
        }
        let vals = model_vals;
        for chunk in vals.chunks(256) {
            let mut line = format!("ty {} {} from", t.name, mode);
            let mut obs = String::new();
            let mut nontrivial = false;
            for (i, &v) in chunk.iter().enumerate() {
                line.push_str(&format!(" {}", v));
                let r = (t.from)(v);
                if i > 0 { obs.push(' '); }
                obs.push_str(&show(r));
                let want = Some(wrap(t, v));
                if r != want {
                    cx.st.oracle_fail(&format!("{}::from({}) must wrap modulo 2^{} into range", t.name, if t.rep_bits == 16 { "i16" } else if t.rep_bits == 32 { "i32" } else { "i64" }, t.bits),
                        &format!("ty {} {} from {}", t.name, mode, v), &show(want), &show(r));
                } else { cx.st.oracle_ok(1); }
                if !in_range(t, v) { nontrivial = true; cx.st.count("from_out_of_range_input"); }
            }
            cx.st.case(&line, &obs, nontrivial, chunk.len() as u64);
            cx.st.count("op_from");
        }

        // ---------------- From<Rep>, structured far values (native oracle only, no model needed):
        // {MIN, MAX, 0, EQ} + j + k*2^bits for k across the WHOLE backing range — every |k| <= 64, every
        // power of two +-2 (thresholds of any "skip whole periods" shortcut), the extreme k of the backing
        // type, and seeded random k — so that exact ties (v == MAX or MIN modulo 2^bits, far out) are hit
        {
            let (kmin, kmax) = ((rl - l).div_euclid(total), (rh - h).div_euclid(total));
            let mut ks: Vec<i128> = (-64..=64).collect();
            for m in 0..63u32 { for d in -2..=2 { ks.push((1i128 << m) + d); ks.push(-(1i128 << m) + d); } }
            for d in 0..4 { ks.push(kmin + d); ks.push(kmax - d); ks.push(kmin / 2 + d); ks.push(kmax / 2 - d); }
            for _ in 0..(if thorough { 5000 } else { 200 }) { ks.push(rng.range_i128(kmin - 1, kmax + 1)); }
            ks.sort(); ks.dedup();
            let mut n = 0u64;
            for &k in ks.iter() { for c in [l, h, 0, weq] { for j in -2..=2 {
                let v = c + j + k * total;
                if v < rl || v > rh { continue; }
                let r = (t.from)(v);
                let want = Some(wrap(t, v));
                if r != want {
                    cx.st.oracle_fail(&format!("{}::from must wrap modulo 2^{} into range", t.name, t.bits), &format!("ty {} {} from {}", t.name, mode, v), &show(want), &show(r));
                } else { cx.st.oracle_ok(1); }
                n += 1;
            } } }
            cx.st.count_n("from_structured_k_times_total_native_oracle", n);
        }

        // ---------------- mul, operand pairs constructed so that the exact product is == MIN, MAX, MIN+-1,
        // MAX+-1, 0, EQ, +-1 (mod 2^bits) with a large quotient: a random odd, b = target * a^-1 (mod 2^bits)
        // (native oracle only; such products are out of reach of boundary x random operand pairs)
        {
            let mask: u128 = (1u128 << t.bits) - 1;
            let inv = |a: i128| -> u128 { // inverse of odd a modulo 2^bits (Newton iteration)
                let a = (a as u128) & mask; let mut x = a;
                for _ in 0..7 { x = x.wrapping_mul(2u128.wrapping_sub(a.wrapping_mul(x))) & mask; }
                x };
            let targets = [l, h, l + 1, h - 1, l - 1, h + 1, 0, weq, 1, -1, weq - 1, weq + 1];
            let mut n = 0u64;
            for &tg in targets.iter() { for _ in 0..(if thorough { 4000 } else { 250 }) {
                let mut a = if rng.chance(1, 2) { rng.range_i128(l, h) } else {
                    let k = 1 + rng.below(t.bits as u64 - 1) as u32; (weq + rng.range_i128(-(1i128 << k), 1i128 << k)).clamp(l, h) };
                if a & 1 == 0 { a = if a < h { a + 1 } else { a - 1 }; }
                let b0 = (((tg as u128) & mask).wrapping_mul(inv(a)) & mask) as i128;   // in [0, 2^bits)
                let b = wrap(t, b0);
                debug_assert!(((a * b - tg) % total) == 0);
                let (x, y) = if rng.chance(1, 2) { (a, b) } else { (b, a) };
                let r = (t.mul)(x, y);
                cx.check_arith(t, "mul", x * y, r, &|| format!("ty {} {} mul {} {}", t.name, mode, x, y), true);
                n += 1;
            } }
            cx.st.count_n("mul_product_congruent_to_boundary_native_oracle", n);
        }

        // ---------------- add / sub / mul on in-range operand pairs
        let ops: [(&'static str, Bin); 3] = [("add", t.add), ("sub", t.sub), ("mul", t.mul)];
        if t.bits == 11 && thorough {
            // every one of the 2048^2 operand pairs, one row per request line
            for (op, f) in ops.iter() {
                for x in l..=h {
                    let line = format!("ty {} {} row {} {} {} {}", t.name, mode, op, x, l, h);
                    let mut obs = String::with_capacity(6 * 2048);
                    for y in l..=h {
                        let r = f(x, y);
                        if y > l { obs.push(' '); }
                        obs.push_str(&show(r));
                        let exact = match *op { "add" => x + y, "sub" => x - y, _ => x * y };
                        if r.is_none() { cx.st.count("panics"); }
                        cx.check_arith(t, op, exact, r, &|| format!("ty {} {} {} {} {}", t.name, mode, op, x, y), true);
                    }
                    cx.st.case(&line, &obs, true, 2048);
                }
                cx.st.count(&format!("pairs_exhaustive_{}_{}", t.name, op));
            }
        } else {
            let mut pairs: Vec<(i128, i128)> = vec![];
            if t.bits == 11 {
                let g = grid256(t, &mut rng);
                for &x in g.iter() { for &y in g.iter() { pairs.push((x, y)); } }
                cx.st.count("pairs_grid256");
            } else {
                let core = boundary(t, 2, false);
                for &x in core.iter() { for &y in core.iter() { pairs.push((x, y)); } }
                let wide = boundary(t, 3, true);
                let s = ((h as f64).sqrt()) as i128;
                for _ in 0..(if thorough { 200_000 } else { 12_000 }) {
                    let p = match rng.below(6) {
                        0 => (rng.range_i128(l, h), rng.range_i128(l, h)),
                        1 => (*rng.pick(&wide), rng.range_i128(l, h)),
                        2 => (rng.range_i128(l, h), *rng.pick(&wide)),
                        // products around the range boundary / small multiples of it
                        3 => { let x = rng.range_i128(1, 4 * s).min(h); let q = rng.range_i128(1, 5) * (h + 1) / x + rng.range_i128(-2, 2); (x, q.clamp(l, h)) }
                        4 => { let x = rng.range_i128(l, h); let y = (h - x + rng.range_i128(-3, 3)).clamp(l, h); (x, y) }   // sums next to MAX
                        _ => { let k = rng.below(t.bits as u64) as u32; let m = (1i128 << k) - 1 + (1i128 << k);
                               ((weq + rng.range_i128(-m, m)).clamp(l, h), (weq + rng.range_i128(-m, m)).clamp(l, h)) }
                    };
                    pairs.push(p);
                }
            }
            for (op, f) in ops.iter() { cx.bin_cases(t, op, *f, &pairs); }
        }

        // ---------------- neg
        if let Some(f) = t.neg {
            let mut vals: Vec<i128> = if t.bits == 11 { (l..=h).collect() } else {
                let mut v = boundary(t, 4, true);
                for _ in 0..(if thorough { 50_000 } else { 4000 }) { v.push(rng.range_i128(l, h)); }
                v
            };
            vals.dedup();
            for chunk in vals.chunks(256) {
                let mut line = format!("ty {} {} neg", t.name, mode);
                let mut obs = String::new();
                let mut nontrivial = false;
                for (i, &v) in chunk.iter().enumerate() {
                    line.push_str(&format!(" {}", v));
                    let r = f(v);
                    if i > 0 { obs.push(' '); }
                    obs.push_str(&show(r));
                    if r.is_none() { cx.st.count("panics"); }
                    if v == l || !t.signed { nontrivial = true; }
                    // the property's wrap/panic clause speaks of negation of *signed* types; for U11 (which
                    // also has Neg) only "never outside [MIN, MAX]" is demanded, the rest is model-checked
                    cx.check_arith(t, "neg", -v, r, &|| format!("ty {} {} neg {}", t.name, mode, v), t.signed);
                }
                cx.st.case(&line, &obs, nontrivial, chunk.len() as u64);
                cx.st.count("op_neg");
            }
        }

        // ---------------- ordering / equality coincide with numeric order
        let mut pairs: Vec<(i128, i128)> = vec![];
        let b = boundary(t, 1, false);
        for _ in 0..(if thorough { 40_000 } else { 4000 }) {
            let x = if rng.chance(1, 2) { *rng.pick(&b) } else { rng.range_i128(l, h) };
            let y = match rng.below(4) { 0 => x, 1 => (x + rng.range_i128(-2, 2)).clamp(l, h), 2 => *rng.pick(&b), _ => rng.range_i128(l, h) };
            pairs.push((x, y));
        }
        for chunk in pairs.chunks(256) {
            let mut line = format!("ty {} {} cmp", t.name, mode);
            let mut obs = String::new();
            for (i, &(x, y)) in chunk.iter().enumerate() {
                line.push_str(&format!(" {} {}", x, y));
                let (o, po, e, lt, le) = (t.cmp)(x, y);
                if i > 0 { obs.push(' '); }
                obs.push_str(&format!("{}{}", ord_str(o), if e { 1 } else { 0 }));
                if o != x.cmp(&y) || po != Some(x.cmp(&y)) || e != (x == y) || lt != (x < y) || le != (x <= y) {
                    cx.st.oracle_fail(&format!("{}: ordering/equality must coincide with numeric order", t.name), &format!("ty {} {} cmp {} {}", t.name, mode, x, y),
                        &format!("{:?} eq={}", x.cmp(&y), x == y), &format!("{:?} {:?} eq={} lt={} le={}", o, po, e, lt, le));
                } else { cx.st.oracle_ok(1); }
                let (gt, ge, ne, mx, mn) = (t.cmp2)(x, y);
                if gt != (x > y) || ge != (x >= y) || ne != (x != y) || mx != x.max(y) || mn != x.min(y) {
                    cx.st.oracle_fail(&format!("{}: ordering/equality must coincide with numeric order (operators >, >=, !=, Ord::max, Ord::min)", t.name), &format!("ty {} {} cmp {} {}", t.name, mode, x, y),
                        &format!("gt={} ge={} ne={} max={} min={}", x > y, x >= y, x != y, x.max(y), x.min(y)), &format!("gt={} ge={} ne={} max={} min={}", gt, ge, ne, mx, mn));
                } else { cx.st.oracle_ok(1); }
            }
            cx.st.case(&line, &obs, true, chunk.len() as u64);
            cx.st.count("op_cmp");
        }
        cx.st.count(&format!("type_{}", t.name));
    }

    // ---------------- widening From impls preserve the numeric value
    for (dst, src, sl, sh, f) in widenings() {
        let t = tys.iter().find(|t| t.name == dst).unwrap();
        let mut vals: Vec<i128> = vec![];
        if sh - sl < 70_000 { vals.extend(sl..=sh); cx.st.count("widening_exhaustive_source"); }
        else {
            for d in 0..=6 { vals.push(sl + d); vals.push(sh - d); }
            for d in -6..=6 { if d >= sl && d <= sh { vals.push(d); } let m = (sl + sh + 1) / 2 + d; vals.push(m); }
            for k in 0..40 { for s in [1i128, -1] { let x = s * (1i128 << k); if x >= sl && x <= sh { vals.push(x); vals.push((x - 1).max(sl)); } } }
            for _ in 0..(if thorough { 40_000 } else { 4000 }) { vals.push(rng.range_i128(sl, sh)); }
        }
        for chunk in vals.chunks(512) {
            let mut line = format!("ty {} {} wfrom {}", dst, mode, src);
            let mut obs = String::new();
            for (i, &v) in chunk.iter().enumerate() {
                line.push_str(&format!(" {}", v));
                let r = f(v);
                if i > 0 { obs.push(' '); }
                obs.push_str(&show(r));
                if r != Some(v) || !in_range(t, v) {
                    cx.st.oracle_fail(&format!("{}::from({}) must preserve the numeric value (and stay in range)", dst, src), &format!("ty {} {} wfrom {} {}", dst, mode, src, v), &v.to_string(), &show(r));
                } else { cx.st.oracle_ok(1); }
            }
            cx.st.case(&line, &obs, true, chunk.len() as u64);
            cx.st.count("op_wfrom");
        }
    }

    st.exhaustive = false;
    st.note(if thorough { "11-bit types: all 2048^2 operand pairs for add/sub/mul, all operands for neg, all i16 values for new/from; wider types boundary-structured + seeded random" }
            else { "11-bit types: all pairs of a 256-point boundary grid for add/sub/mul, all operands for neg, all i16 values for new/from; wider types boundary-structured + seeded random" });
    st.finish();
}
