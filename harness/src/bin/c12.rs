//! C12 — Fork: both branches see the identical stream under every pull interleaving.
//! Stream `fork`: the real `Signal::fork` / `by_ref` / `by_rc` / branch `next` / `pending_frames`
//! on an instrumented source, vs the Lean model (`Dasp.Fork.trace`), plus an oracle written
//! from the property text with plain `Vec`s (two per-branch logs; no model involved).
#[path = "../util.rs"]
mod util;
use dasp_ring_buffer as ring_buffer;
use dasp_signal::{self as signal, Signal};
use std::cell::Cell;
use std::rc::Rc;
use util::*;

fn main() {
    let a = Args::parse();
    match a.stream.as_str() {
        "fork" => run(&a),
        s => { eprintln!("unknown stream {}", s); std::process::exit(2); }
    }
}

/// the instrumented source: the real `signal::from_iter` with every `next()` counted
struct Counted<S> { inner: S, pulls: Rc<Cell<u64>> }
impl<S: Signal> Signal for Counted<S> {
    type Frame = S::Frame;
    fn next(&mut self) -> S::Frame { self.pulls.set(self.pulls.get() + 1); self.inner.next() }
    fn is_exhausted(&self) -> bool { self.inner.is_exhausted() }
}

#[derive(Clone, Debug, PartialEq)]
struct Ob { frame: Option<i32>, pa: Option<usize>, pb: Option<usize>, pulls: u64 }

/// ops: bytes over `A`,`B` (branch next), `r` (drop handles, by_ref again), `c` (drop handles, by_rc; at most
/// once, last split), `a`/`b` (drop the handle of branch A / B only: the other one lives on)
fn run_fork<D>(rb: ring_buffer::Bounded<D>, src: &[i32], ops: &[u8], probe: bool) -> Vec<Ob>
where
    D: ring_buffer::Slice<Element = i32> + ring_buffer::SliceMut,
{
    let pulls = Rc::new(Cell::new(0u64));
    let sig = Counted { inner: signal::from_iter(src.to_vec()), pulls: pulls.clone() };
    let mut fork = sig.fork(rb);
    let mut out: Vec<Ob> = Vec::with_capacity(ops.len());
    let mut i = 0usize;
    macro_rules! segment {
        ($a:ident, $b:ident) => {{
            let (mut $a, mut $b) = (Some($a), Some($b));
            out.push(Ob { frame: None, pa: if probe { $a.as_ref().map(|x| x.pending_frames()) } else { None }, pb: if probe { $b.as_ref().map(|x| x.pending_frames()) } else { None }, pulls: pulls.get() });
            i += 1;
            while i < ops.len() && matches!(ops[i], b'A' | b'B' | b'a' | b'b') {
                let f = match ops[i] {
                    b'A' => Some($a.as_mut().expect("harness: pull on a dropped handle").next()),
                    b'B' => Some($b.as_mut().expect("harness: pull on a dropped handle").next()),
                    b'a' => { assert!($a.is_some()); $a = None; None }   // the handle is dropped here
                    _ => { assert!($b.is_some()); $b = None; None }
                };
                out.push(Ob { frame: f, pa: if probe { $a.as_ref().map(|x| x.pending_frames()) } else { None }, pb: if probe { $b.as_ref().map(|x| x.pending_frames()) } else { None }, pulls: pulls.get() });
                i += 1;
            }
        }};
    }
    loop {
        if i >= ops.len() { break; }
        match ops[i] {
            b'r' => { let (a, b) = fork.by_ref(); segment!(a, b); }
            b'c' => {
                let (a, b) = fork.by_rc();
                segment!(a, b);
                assert!(i == ops.len(), "harness: nothing can follow the by_rc segment but A/B");
                break;
            }
            _ => panic!("harness: schedule must start with a split"),
        }
    }
    out
}

/// storage of the ring buffer and the start offset of the (empty) queue handed to `fork`, functions of the request
/// line only.  `fork` asserts only that the buffer is EMPTY: an empty `Bounded` may sit at any start slot
/// (`from_raw_parts(start, 0, data)`, or a buffer that was pushed to and popped before) — the branches' behaviour
/// must not depend on it (`LinkFork.forkB_trace_sim` proves that of the model for every valid raw state)
fn run_case(cap: usize, src: &[i32], ops: &[u8]) -> Option<Vec<Ob>> { run_case_p(cap, src, ops, true) }
/// `probe = false`: `pending_frames()` is never called during the run (an accessor must not be what keeps the state right)
fn run_case_p(cap: usize, src: &[i32], ops: &[u8], probe: bool) -> Option<Vec<Ob>> {
    let start = if cap == 0 { 0 } else { (src.len() * 7 + ops.len() * 3 + ops.iter().map(|&b| b as usize).sum::<usize>()) % cap };
    match (cap + src.len()) % 4 {
        0 => guarded(|| run_fork(ring_buffer::Bounded::from(vec![7i32; cap]), src, ops, probe)),
        1 => guarded(|| run_fork(ring_buffer::Bounded::from_raw_parts(start, 0, vec![-3i32; cap].into_boxed_slice()), src, ops, probe)),
        2 => guarded(|| { let mut store = vec![11i32; cap]; run_fork(ring_buffer::Bounded::from_raw_parts(start, 0, &mut store[..]), src, ops, probe) }),
        _ => guarded(|| {
            // a buffer that has been used: pushed and popped `start` times, now empty again
            let mut rb = ring_buffer::Bounded::from(vec![5i32; cap]);
            for k in 0..start { rb.push(-900 - k as i32); rb.pop(); }
            run_fork(rb, src, ops, probe)
        }),
    }
}

fn show(obs: &Option<Vec<Ob>>) -> String {
    match obs {
        None => "panic".into(),
        Some(v) => {
            let opt = |x: Option<usize>| match x { Some(n) => n.to_string(), None => "-".into() };
            v.iter().map(|o| format!("{}:{}:{}:{}", match o.frame { Some(f) => f.to_string(), None => "-".into() }, opt(o.pa), opt(o.pb), o.pulls)).collect::<Vec<_>>().join(" ")
        }
    }
}

fn line(cap: usize, src: &[i32], ops: &[u8]) -> String {
    let mut s = format!("fork {} {}", cap, src.len());
    for v in src { s.push(' '); s.push_str(&v.to_string()); }
    s.push(' '); s.push_str(std::str::from_utf8(ops).unwrap());
    s
}

/// length of the longest prefix of the schedule inside the property's domain (neither branch ahead of the
/// other by more than cap; a dropped branch's cursor stays where it was)
fn domain_prefix(cap: usize, ops: &[u8]) -> usize {
    let (mut a, mut b) = (0i64, 0i64);
    for (k, &o) in ops.iter().enumerate() {
        if o == b'A' { a += 1 } else if o == b'B' { b += 1 }
        if (a - b).abs() > cap as i64 { return k; }
    }
    ops.len()
}
fn in_domain(cap: usize, ops: &[u8]) -> bool { domain_prefix(cap, ops) == ops.len() }

/// The property, read literally, on the implementation's observations:
/// each branch's log is the source's frames in order (none lost / duplicated / reordered),
/// the source was pulled once per distinct frame handed out so far, and each branch's pending
/// count is the number of frames it lags behind (asked of the handles that exist).  Only the first `upto`
/// ops (the part of the schedule inside the property's domain) are judged.  This holds just the same while
/// one reference-counted branch has been dropped: the survivor must still get every frame in order.
/// Returns the number of checks or the failure.
fn oracle(src: &[i32], ops: &[u8], obs: &[Ob], upto: usize) -> Result<u64, (String, String, String)> {
    let mut log_a: Vec<i32> = Vec::new();
    let mut log_b: Vec<i32> = Vec::new();
    let mut n = 0u64;
    if obs.len() != ops.len() { return Err(("number of observations".into(), ops.len().to_string(), obs.len().to_string())); }
    for (k, (&op, ob)) in ops.iter().zip(obs).enumerate().take(upto) {
        match op {
            b'A' => log_a.push(ob.frame.unwrap()),
            b'B' => log_b.push(ob.frame.unwrap()),
            _ => {}
        }
        for (nm, log) in [("A", &log_a), ("B", &log_b)] {
            // the branch has seen exactly the first log.len() frames of the source stream
            let want: Vec<i32> = (0..log.len()).map(|i| src.get(i).copied().unwrap_or(0)).collect();
            if *log != want {
                return Err((format!("branch {} did not observe the source's frames in order (after op {})", nm, k), format!("{:?}", want), format!("{:?}", log)));
            }
            n += 1;
        }
        let distinct = log_a.len().max(log_b.len()) as u64;
        if ob.pulls != distinct {
            return Err((format!("source pulls != number of distinct frames handed out (after op {})", k), distinct.to_string(), ob.pulls.to_string()));
        }
        let lag_a = log_b.len().saturating_sub(log_a.len());
        let lag_b = log_a.len().saturating_sub(log_b.len());
        if ob.pa.map_or(false, |p| p != lag_a) || ob.pb.map_or(false, |p| p != lag_b) {
            return Err((format!("pending_frames != lag (after op {})", k), format!("A:{} B:{}", lag_a, lag_b), format!("A:{:?} B:{:?}", ob.pa, ob.pb)));
        }
        n += 3;
    }
    Ok(n)
}

struct Gen { ops: Vec<u8>, a: i64, b: i64, cap: i64, rc: bool, bounded: bool, live_a: bool, live_b: bool }
impl Gen {
    fn can(&self, x: u8) -> bool {
        if (x == b'A' && !self.live_a) || (x == b'B' && !self.live_b) { return false; }
        if !self.bounded { return true; }
        let (a, b) = if x == b'A' { (self.a + 1, self.b) } else { (self.a, self.b + 1) };
        (a - b).abs() <= self.cap
    }
    fn push(&mut self, x: u8) -> bool {
        if !self.can(x) { return false; }
        if x == b'A' { self.a += 1 } else { self.b += 1 }
        self.ops.push(x); true
    }
    fn split(&mut self, rng: &mut Rng) {
        if self.rc { return; }
        if rng.chance(1, 5) { self.ops.push(b'c'); self.rc = true; } else { self.ops.push(b'r'); }
        self.live_a = true; self.live_b = true;   // a new split hands out both handles again
    }
    /// drop one handle while the other lives on: the leader, the laggard, or either
    fn drop_one(&mut self, rng: &mut Rng) {
        if !(self.live_a && self.live_b) { return; }
        let leader_is_a = self.a >= self.b;
        let drop_a = match rng.below(3) { 0 => leader_is_a, 1 => !leader_is_a, _ => rng.chance(1, 2) };
        if drop_a { self.ops.push(b'a'); self.live_a = false; } else { self.ops.push(b'b'); self.live_b = false; }
    }
}

/// structured random schedule: run-ahead to lead == cap exactly, catch-up, overtake (sign flip),
/// random walk, strict alternation, re-splits
fn random_schedule(rng: &mut Rng, cap: usize, len: usize, bounded: bool) -> Vec<u8> {
    let mut g = Gen { ops: vec![], a: 0, b: 0, cap: cap as i64, rc: false, bounded, live_a: true, live_b: true };
    if rng.chance(1, 3) { g.ops.push(b'c'); g.rc = true; } else { g.ops.push(b'r'); }
    let mut rounds = 0;
    while g.ops.len() < len && rounds < 8 * len + 50 {
        rounds += 1;
        let room = len - g.ops.len();
        match rng.below(8) {
            0 => { // one branch runs ahead until it leads by exactly cap (or a few past it when unbounded)
                let x = if rng.chance(1, 2) { b'A' } else { b'B' };
                let extra = if bounded { 0 } else { rng.below(4) as usize };
                let mut k = 0;
                while k < room && g.can(x) {
                    let lead = if x == b'A' { g.a - g.b } else { g.b - g.a };
                    if !bounded && lead >= g.cap + extra as i64 { break; }
                    g.push(x); k += 1;
                }
            }
            1 => { // the lagging branch catches up and overtakes by up to cap
                let x = if g.a < g.b { b'A' } else { b'B' };
                let lag = (g.a - g.b).abs() as usize;
                let over = rng.below(cap as u64 + 1) as usize;
                for _ in 0..(lag + over).min(room) { if !g.push(x) { break; } }
            }
            2 => { for _ in 0..rng.below(12).min(room as u64) { let x = if rng.chance(1, 2) { b'A' } else { b'B' }; if !g.push(x) { g.push(if x == b'A' { b'B' } else { b'A' }); } } }
            3 => { // strict alternation
                let first = if rng.chance(1, 2) { b'A' } else { b'B' };
                for j in 0..rng.below(10).min(room as u64) { let x = if j % 2 == 0 { first } else if first == b'A' { b'B' } else { b'A' }; g.push(x); }
            }
            4 => { // the lagging branch drains the queue exactly (hand-over point), then either may go
                let x = if g.a < g.b { b'A' } else { b'B' };
                for _ in 0..((g.a - g.b).abs() as usize).min(room) { g.push(x); }
            }
            5 => g.split(rng),
            6 => g.drop_one(rng),
            _ => { // the survivor (or, with both alive, either branch) keeps going as far as the domain allows
                let x = if g.live_a && !g.live_b { b'A' } else if g.live_b && !g.live_a { b'B' } else if rng.chance(1, 2) { b'A' } else { b'B' };
                for _ in 0..rng.below(2 * cap as u64 + 4).min(room as u64) { if !g.push(x) { break; } }
            }
        }
    }
    g.ops.truncate(len.max(1));
    g.ops
}

fn case(st: &mut Stream, cap: usize, src: &[i32], ops: &[u8], kind: &str) {
    let l = line(cap, src, ops);
    mark(0, &l);
    let obs = run_case(cap, src, ops);
    // the same schedule WITHOUT ever asking pending_frames(): frames and source pulls must be the same
    {
        let quiet = run_case_p(cap, src, ops, false);
        let same = match (&obs, &quiet) { (Some(a), Some(b)) => a.len() == b.len() && a.iter().zip(b.iter()).all(|(x, y)| x.frame == y.frame && x.pulls == y.pulls), (None, None) => true, _ => false };
        if same { st.oracle_ok(1); } else {
            st.oracle_fail("the schedule gives different frames / source pulls when pending_frames() is never called in between (an accessor must not be what keeps the state right)", &l,
                &format!("{:?}", obs.as_ref().map(|v| v.iter().map(|o| (o.frame, o.pulls)).collect::<Vec<_>>())), &format!("{:?}", quiet.as_ref().map(|v| v.iter().map(|o| (o.frame, o.pulls)).collect::<Vec<_>>())));
        }
    }
    let dom = in_domain(cap, ops);
    let upto = domain_prefix(cap, ops);
    // non-trivial: the lead changes sign, or a re-split happens while the branches are apart
    let (mut a, mut b, mut apos, mut bpos, mut split_apart, mut at_cap) = (0i64, 0i64, false, false, false, false);
    for (k, &o) in ops.iter().enumerate() {
        match o { b'A' => a += 1, b'B' => b += 1, _ => { if k > 0 && a != b { split_apart = true; } } }
        if a > b { apos = true } else if b > a { bpos = true }
        if (a - b).abs() == cap as i64 { at_cap = true; }
    }
    // a handle dropped while the branches are apart, and the survivor pulled afterwards
    let (mut da, mut db, mut dropped_apart_then_pulled, mut pending_drop) = (0i64, 0i64, false, false);
    for &o in ops.iter() {
        match o {
            b'A' => { da += 1; if pending_drop { dropped_apart_then_pulled = true; } }
            b'B' => { db += 1; if pending_drop { dropped_apart_then_pulled = true; } }
            b'a' => { if da != db { pending_drop = true; } if da > db { st.count("drop_leader") } else if da < db { st.count("drop_laggard") } else { st.count("drop_level") } }
            b'b' => { if da != db { pending_drop = true; } if db > da { st.count("drop_leader") } else if db < da { st.count("drop_laggard") } else { st.count("drop_level") } }
            _ => { pending_drop = false; }
        }
    }
    if dropped_apart_then_pulled { st.count("survivor_pulled_after_drop_while_apart"); }
    let nontrivial = (apos && bpos) || split_apart || dropped_apart_then_pulled;
    st.count(kind);
    st.count(&format!("cap_{}", if cap <= 4 { cap.to_string() } else if cap <= 16 { "5-16".into() } else if cap <= 64 { "17-64".into() } else { format!("{}", cap) }));
    if apos && bpos { st.count("lead_changes_sign"); }
    if at_cap { st.count("lead_reaches_cap_exactly"); }
    if split_apart { st.count("resplit_while_apart"); }
    if ops.contains(&b'c') { st.count("uses_by_rc"); }
    if ops.iter().filter(|&&o| o == b'r').count() > 0 { st.count("uses_by_ref"); }
    if !dom { st.count("outside_domain_model_only"); }
    if obs.is_none() { st.count("panic"); }
    st.count_n("ops", ops.len() as u64);
    st.case(&l, &show(&obs), nontrivial, ops.len() as u64);
    {
        match &obs {
            None => if dom { st.oracle_fail("fork panicked inside the property's domain", &l, "no panic", "panic") },
            Some(v) => match oracle(src, ops, v, upto) {
                Ok(n) => st.oracle_ok(n),
                Err((what, want, got)) => st.oracle_fail(&what, &l, &want, &got),
            },
        }
    }
}

fn rand_src(rng: &mut Rng, n: usize) -> Vec<i32> {
    // distinct non-zero values (so loss, duplication and reordering are all visible); 0 is equilibrium
    let mut v: Vec<i32> = Vec::with_capacity(n);
    let base = rng.range(-1_000_000, 1_000_000) as i32;
    for i in 0..n {
        let x = if rng.chance(1, 8) { rng.range(i32::MIN as i64, i32::MAX as i64) as i32 } else { base.wrapping_add((i as i32 + 1) * 7919) };
        v.push(if x == 0 { 1 } else { x });
    }
    v
}

pub fn run(a: &Args) {
    let mut st = Stream::new(&a.out, "fork");
    let mut rng = Rng::new(a.seed, "fork");
    // ---- 1. every admissible schedule over {A,B} of length L (all shorter ones are its prefixes,
    //         observed after every step) for cap 1..3; by_ref, by_rc, and with re-splits inserted
    let l_max = if a.thorough() { 14 } else { 10 };
    let mut n_exh = 0u64;
    for cap in 1..=3usize {
        for bits in 0u32..(1u32 << l_max) {
            let sched: Vec<u8> = (0..l_max).map(|i| if bits >> i & 1 == 1 { b'A' } else { b'B' }).collect();
            if !in_domain(cap, &sched) { continue; }
            n_exh += 1;
            // source shorter than, equal to and longer than what the schedule consumes
            let n = (bits as usize % (l_max + 3)).min(l_max + 2);
            let src = rand_src(&mut rng, n);
            let mut by_ref = vec![b'r']; by_ref.extend(&sched);
            case(&mut st, cap, &src, &by_ref, "exhaustive_by_ref");
            let mut by_rc = vec![b'c']; by_rc.extend(&sched);
            case(&mut st, cap, &src, &by_rc, "exhaustive_by_rc");
            // re-split: by_ref again after every k-th pull, finally by_rc at position j
            let k = 1 + (bits as usize % 4);
            let j = (bits as usize / 4) % (l_max + 1);
            let mut re = vec![b'r'];
            let mut rc = false;
            for (i, &o) in sched.iter().enumerate() {
                if i == j && i > 0 { re.push(b'c'); rc = true; }
                else if !rc && i > 0 && i % k == 0 { re.push(b'r'); }
                re.push(o);
            }
            case(&mut st, cap, &src, &re, "exhaustive_resplit");
            // lifetime events: at every position j drop branch X's handle; the rest of the schedule keeps only the
            // survivor's pulls.  By `Rc` the drop is final; by reference the fork is split again two survivor
            // pulls later and the whole rest of the schedule runs with both handles.
            for j in 0..=l_max {
                for &x in &[b'A', b'B'] {
                    let other = if x == b'A' { b'B' } else { b'A' };
                    let dropc = if x == b'A' { b'a' } else { b'b' };
                    let mut rc_drop = vec![b'c']; rc_drop.extend(&sched[..j]); rc_drop.push(dropc);
                    rc_drop.extend(sched[j..].iter().filter(|&&o| o == other));
                    case(&mut st, cap, &src, &rc_drop, "exhaustive_rc_drop_one");
                    if (bits as usize + j) % 4 == 0 {
                        let mut ref_drop = vec![b'r']; ref_drop.extend(&sched[..j]); ref_drop.push(dropc);
                        let mut solo = 0; let mut k = j;
                        while k < sched.len() && solo < 2 { if sched[k] == other { ref_drop.push(other); solo += 1; } k += 1; }
                        ref_drop.push(b'r'); ref_drop.extend(&sched[k..]);
                        case(&mut st, cap, &src, &ref_drop, "exhaustive_ref_drop_one_then_resplit");
                    }
                }
            }
        }
    }
    st.note(&format!("all {} lead-bounded schedules over {{A,B}} of length {} for cap 1..3 enumerated (each by_ref, by_rc, re-split)", n_exh, l_max));
    // ---- 2. random structured schedules, lead <= cap
    let n_rand = if a.thorough() { 300_000 } else { 60_000 };
    for i in 0..n_rand {
        let cap = match rng.below(10) { 0..=3 => 1 + rng.usize_below(4), 4..=6 => 1 + rng.usize_below(16), 7 | 8 => 1 + rng.usize_below(64), _ => 64 };
        let long = a.thorough() && i % 20 == 0;
        let len = if long { 80 + rng.usize_below(140) } else { 2 + rng.usize_below(59) };
        let ops = random_schedule(&mut rng, cap, len, true);
        let consumed = ops.iter().filter(|&&o| o == b'A').count().max(ops.iter().filter(|&&o| o == b'B').count());
        let n = match rng.below(4) { 0 => rng.usize_below(consumed + 1), 1 => consumed, _ => consumed + 1 + rng.usize_below(4) };
        let src = rand_src(&mut rng, n);
        case(&mut st, cap, &src, &ops, if long { "random_long" } else { "random" });
    }
    // ---- 2b. large capacities, leads up to the capacity (long cases: few of them)
    let big_caps: &[usize] = if a.thorough() { &[100, 512, 513, 1000, 4096] } else { &[100, 513, 1000] };
    let big_reps = if a.thorough() { 6 } else { 1 };
    for &cap in big_caps {
        for rep in 0..big_reps {
            let blk = |x: u8, n: usize| std::iter::repeat(x).take(n);
            let k = if rep == 0 { cap } else { 1 + rng.usize_below(cap) };
            let mut scheds: Vec<(Vec<u8>, &str)> = Vec::new();
            // lead = cap exactly on both sides, through the hand-over, by_ref then by_rc
            let mut s1 = vec![b'r']; s1.extend(blk(b'A', cap)); s1.extend(blk(b'B', cap)); s1.extend(blk(b'B', k));
            s1.push(b'c'); s1.extend(blk(b'A', k)); s1.extend(blk(b'A', cap)); s1.extend(blk(b'B', cap / 2));
            scheds.push((s1, "large_cap_full_lead_both_sides"));
            // the leader is dropped with the queue holding k frames; the survivor drains them and goes on to lead = cap
            for (lead, lag, dl, dg) in [(b'A', b'B', b'a', b'b'), (b'B', b'A', b'b', b'a')] {
                let mut s2 = vec![b'c']; s2.extend(blk(lead, k)); s2.push(dl); s2.extend(blk(lag, k)); s2.extend(blk(lag, cap));
                scheds.push((s2, "large_cap_rc_drop_leader"));
                let mut s3 = vec![b'c']; s3.extend(blk(lead, k / 2)); s3.push(dg); s3.extend(blk(lead, cap - k / 2));
                scheds.push((s3, "large_cap_rc_drop_laggard"));
            }
            // random blocks within the lead bound
            let mut g = Gen { ops: vec![b'r'], a: 0, b: 0, cap: cap as i64, rc: false, bounded: true, live_a: true, live_b: true };
            for _ in 0..8 {
                let x = if rng.chance(1, 2) { b'A' } else { b'B' };
                let n = 1 + rng.usize_below(2 * cap);
                for _ in 0..n { if !g.push(x) { break; } }
                if rng.chance(1, 4) { g.split(&mut rng); }
            }
            scheds.push((g.ops, "large_cap_random_blocks"));
            for (ops, kind) in scheds {
                let consumed = ops.iter().filter(|&&o| o == b'A').count().max(ops.iter().filter(|&&o| o == b'B').count());
                let n = if rep % 2 == 0 { consumed + 3 } else { consumed.saturating_sub(cap / 3) };
                let src = rand_src(&mut rng, n);
                case(&mut st, cap, &src, &ops, kind);
            }
        }
    }
    // ---- 3. outside the property's domain (lead > cap: frames are overwritten): model correspondence only
    let n_over = if a.thorough() { 40_000 } else { 8_000 };
    for _ in 0..n_over {
        let cap = 1 + rng.usize_below(5);
        let len = 2 + rng.usize_below(40);
        let ops = random_schedule(&mut rng, cap, len, false);
        let src = rand_src(&mut rng, len);
        case(&mut st, cap, &src, &ops, "random_unbounded_lead");
    }
    st.exhaustive = false;
    st.finish();
}
