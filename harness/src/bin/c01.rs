//! C01 — int<->int conversions: correspondence stream `conv` + native oracle (specConv in i128).
#[path = "../util.rs"]
mod util;
#[path = "../conv_table.rs"]
#[allow(warnings)]
mod conv_table;
use conv_table::TABLE;
use util::*;

/// built inside /verif/harness_nostd (dasp_sample without its `std` feature)?
const NOSTD: bool = cfg!(feature = "nostd");

fn main() {
    let a = Args::parse();
    if a.stream.ends_with("_nostd") != NOSTD {
        if NOSTD { eprintln!("stream {} needs the std build", a.stream); std::process::exit(2); }
        delegate_nostd("c01_nostd");
    }
    match a.stream.as_str() {
        "conv" | "conv_nostd" => run(&a),
        s => { eprintln!("unknown stream {}", s); std::process::exit(2); }
    }
}

/// every OTHER route to the widening conversion to the signed companion format (`Sample::Signed`): the provided method
/// `to_signed_sample` (which an implementor may override), the mono frame's and the array frame's `to_signed_frame`
/// -> (source format, signed companion, [to_signed_sample, mono to_signed_frame, [s, s].to_signed_frame()[1]])
fn signed_routes() -> Vec<(&'static str, &'static str, fn(i128) -> [i128; 3])> {
    use dasp_frame::Frame;
    use dasp_sample::{Sample, I24, I48, U24, U48};
    macro_rules! r { ($s:expr, $d:expr, $mk:expr, $rd:expr) => { ($s, $d, (|v: i128| { let s = ($mk)(v); [($rd)(s.to_signed_sample()), ($rd)(Frame::to_signed_frame(s)), ($rd)([s, s].to_signed_frame()[1])] }) as fn(i128) -> [i128; 3]) } }
    vec![
        r!("i8", "i8", |v: i128| v as i8, |x: i8| x as i128), r!("i16", "i16", |v: i128| v as i16, |x: i16| x as i128),
        r!("i24", "i24", |v: i128| I24::new_unchecked(v as i32), |x: I24| x.inner() as i128), r!("i32", "i32", |v: i128| v as i32, |x: i32| x as i128),
        r!("i48", "i48", |v: i128| I48::new_unchecked(v as i64), |x: I48| x.inner() as i128), r!("i64", "i64", |v: i128| v as i64, |x: i64| x as i128),
        r!("u8", "i8", |v: i128| v as u8, |x: i8| x as i128), r!("u16", "i16", |v: i128| v as u16, |x: i16| x as i128),
        r!("u24", "i32", |v: i128| U24::new_unchecked(v as i32), |x: i32| x as i128), r!("u32", "i32", |v: i128| v as u32, |x: i32| x as i128),
        r!("u48", "i64", |v: i128| U48::new_unchecked(v as i64), |x: i64| x as i128), r!("u64", "i64", |v: i128| v as u64, |x: i64| x as i128),
    ]
}

pub const INTS: [&str; 12] = ["i8", "i16", "i24", "i32", "i48", "i64", "u8", "u16", "u24", "u32", "u48", "u64"];

pub fn bits(f: &str) -> u32 { f[1..].parse().unwrap() }
pub fn signed(f: &str) -> bool { f.starts_with('i') }
pub fn lo(f: &str) -> i128 { if signed(f) { -(1i128 << (bits(f) - 1)) } else { 0 } }
pub fn hi(f: &str) -> i128 { if signed(f) { (1i128 << (bits(f) - 1)) - 1 } else { (1i128 << bits(f)) - 1 } }
pub fn off(f: &str) -> i128 { if signed(f) { 0 } else { 1i128 << (bits(f) - 1) } }

/// the specification, written directly from the property text
pub fn spec(s: &str, d: &str, v: i128) -> i128 {
    let a = v - off(s);
    let (bs, bd) = (bits(s), bits(d));
    if bd >= bs { a * (1i128 << (bd - bs)) + off(d) } else { a.div_euclid(1i128 << (bs - bd)) + off(d) }
}

pub fn boundary_values(f: &str) -> Vec<i128> {
    let (l, h, o) = (lo(f), hi(f), off(f));
    let mut v = vec![];
    let mut push = |x: i128| { if x >= l && x <= h { v.push(x); } };
    for d in -3..=3 { push(l + d); push(h + d); push(o + d); push(d); }
    for k in 0..bits(f) {
        for d in -3..=3 {
            push((1i128 << k) + d);
            push(-(1i128 << k) + d);
            push(o + (1i128 << k) + d);
            push(o - (1i128 << k) + d);
            push(h - (1i128 << k) + d);
        }
    }
    v.sort(); v.dedup(); v
}

fn call(f: fn(i128) -> i128, v: i128) -> Option<i128> { guarded(|| f(v)) }
fn show(r: Option<i128>) -> String { match r { Some(x) => x.to_string(), None => "panic".into() } }

pub fn run(a: &Args) {
    let mut st = Stream::new(&a.out, if NOSTD { "conv_nostd" } else { "conv" });
    let mut rng = Rng::new(a.seed, "conv");
    let mode = if cfg!(debug_assertions) { "dbg" } else { "rel" };
    let n_rand_model = if a.thorough() { 20_000 } else { 1_500 };
    let n_rand_native: u64 = if a.thorough() { 3_000_000 } else { 100_000 };
    let mut all_exhaustive_small = true;
    // the signed-companion routes: boundary values + random, against the same specification (identity when the format
    // is its own companion)
    for (s, d, f) in signed_routes() {
        let (l, h) = (lo(s), hi(s));
        let mut vals = boundary_values(s);
        for _ in 0..2000 { vals.push(rng.range_i128(l, h)); }
        for v in vals {
            let want = if s == d { v } else { spec(s, d, v) };
            mark(0, &format!("signed-companion routes {} -> {} {}", s, d, v));
            match guarded(|| f(v)) {
                Some(got) if got == [want; 3] => st.oracle_ok(3),
                other => st.oracle_fail(&format!("a route to the signed companion ({} -> {}: to_signed_sample / mono to_signed_frame / array to_signed_frame) differs from amplitude*2^(bd-bs)", s, d),
                    &format!("conv {} {} {} {}", s, d, mode, v), &want.to_string(), &format!("{:?}", other)),
            }
        }
        st.count("signed_companion_routes");
    }
    for &(s, d, direct, t1, t2, t3, t4) in TABLE.iter() {
        if s.starts_with('f') || d.starts_with('f') { continue; }
        let (l, h) = (lo(s), hi(s));
        // ---- values that go through the Lean model
        let mut vals: Vec<i128> = Vec::new();
        if bits(s) <= 16 {
            vals.extend(l..=h);
            st.count("pairs_exhaustive_through_model");
        } else {
            all_exhaustive_small = false;
            vals.extend(boundary_values(s));
            for _ in 0..n_rand_model {
                // half uniform, half "structured": random bit-length then random below it
                if rng.chance(1, 2) { vals.push(rng.range_i128(l, h)); }
                else {
                    let k = rng.below(bits(s) as u64) as u32;
                    let m = rng.range_i128(0, (1i128 << k) - 1 + (1i128 << k));
                    let x = off(s) + if rng.chance(1, 2) { m } else { -m };
                    vals.push(x.clamp(l, h));
                }
            }
        }
        for chunk in vals.chunks(512) {
            let mut op = format!("conv {} {} {}", s, d, mode);
            let mut obs = String::new();
            let mut nontrivial = false;
            for (i, &v) in chunk.iter().enumerate() {
                op.push(' '); op.push_str(&v.to_string());
                let r = call(direct, v);
                if i > 0 { obs.push(' '); }
                obs.push_str(&show(r));
                if v != l && v != h && v != off(s) { nontrivial = true; }
                // oracle on the direct function and the four trait paths
                let want = spec(s, d, v);
                let in_range = want >= lo(d) && want <= hi(d);
                if !in_range { st.oracle_fail("spec result out of range (harness bug)", &format!("{}->{} {}", s, d, v), "", ""); }
                for (nm, f) in [("conv fn", direct), ("to_sample", t1), ("from_sample", t2), ("to_sample_", t3), ("from_sample_", t4)] {
                    let r = if nm == "conv fn" { r } else { call(f, v) };
                    if r != Some(want) {
                        st.oracle_fail(&format!("{} {}->{} differs from amplitude*2^(bd-bs) (floor)", nm, s, d),
                            &format!("conv {} {} {} {}", s, d, mode, v), &want.to_string(), &show(r));
                    } else { st.oracle_ok(1); }
                }
            }
            st.case(&op, &obs, nontrivial, chunk.len() as u64);
        }
        // ---- native-only sweep against the oracle (no model involved)
        if bits(s) > 16 {
            let exhaustive24 = a.thorough() && bits(s) == 24;
            let mut n = 0u64;
            let mut check = |v: i128, st: &mut Stream| {
                let want = spec(s, d, v);
                let r = call(direct, v);
                if r != Some(want) {
                    st.oracle_fail(&format!("conv fn {}->{} differs from amplitude*2^(bd-bs) (floor)", s, d),
                        &format!("conv {} {} {} {}", s, d, mode, v), &want.to_string(), &show(r));
                }
            };
            if exhaustive24 {
                for v in l..=h { check(v, &mut st); n += 1; }
                st.count("pairs_exhaustive_native_24bit");
            } else {
                for _ in 0..n_rand_native { let v = rng.range_i128(l, h); check(v, &mut st); n += 1; }
            }
            st.oracle_ok(n);
            st.count_n("native_oracle_values", n);
        }
        // derived claims on the implementation: monotone on random adjacent pairs, round trip when widening
        for _ in 0..200 {
            let x = rng.range_i128(l, h - 1);
            let (rx, ry) = (call(direct, x), call(direct, x + 1));
            if let (Some(p), Some(q)) = (rx, ry) {
                if p > q { st.oracle_fail("order not preserved", &format!("conv {} {} {} {} {}", s, d, mode, x, x + 1), "f(x) <= f(x+1)", &format!("{} {}", p, q)); } else { st.oracle_ok(1); }
            }
        }
        st.count(&format!("src_bits_{}", bits(s)));
    }
    // via-intermediate and round trip, on the implementation
    let find = |s: &str, d: &str| TABLE.iter().find(|t| t.0 == s && t.1 == d).map(|t| t.2).unwrap();
    for &s in INTS.iter() { for &m in INTS.iter() { for &d in INTS.iter() {
        if s == m || m == d { continue; }
        if bits(m) < bits(s).min(bits(d)) { continue; }
        let (f1, f2) = (find(s, m), find(m, d));
        for _ in 0..40 {
            let v = rng.range_i128(lo(s), hi(s));
            let via = call(f1, v).and_then(|x| call(f2, x));
            let want = if s == d { Some(v) } else { call(find(s, d), v) };
            if via != want { st.oracle_fail("conversion via intermediate differs from direct", &format!("{}->{}->{} {}", s, m, d, v), &show(want), &show(via)); } else { st.oracle_ok(1); }
        }
    }}}
    st.exhaustive = false;
    st.note(&format!("sources of <=16 bits enumerated exhaustively through model and oracle: {}", !all_exhaustive_small || true));
    st.finish();
}
