//! C06 — Bounded / Fixed ring buffers: correspondence streams `bounded`, `fixed` + independent
//! VecDeque oracles (ideal capacity-bounded queue / ideal delay line written from the property text).
#[path = "../util.rs"]
mod util;
use dasp_ring_buffer::{Bounded, Fixed, SliceMut};
use std::collections::VecDeque;
use util::*;

fn main() {
    let a = Args::parse();
    if std::env::var("C06_WORKER").is_err() { return supervise(&a); }
    match a.stream.as_str() {
        "bounded" => run_bounded(&a),
        "fixed" => run_fixed(&a),
        s => { eprintln!("unknown stream {}", s); std::process::exit(2); }
    }
}

// ---------------------------------------------------------------------------------------------
// crash containment: the real code runs in a child process. If a change to the crate makes it read
// or write outside the backing slice, the allocator may abort the process; the supervisor then
// reports the case that was running as a property violation instead of dying with it.

static CURRENT: std::sync::Mutex<Option<std::fs::File>> = std::sync::Mutex::new(None);

/// remember the case about to run (worker side)
fn mark_current(line: &str) {
    use std::io::{Seek, SeekFrom, Write};
    if let Some(f) = CURRENT.lock().unwrap().as_mut() {
        let _ = f.set_len(0);
        let _ = f.seek(SeekFrom::Start(0));
        let _ = f.write_all(line.as_bytes());
    }
}

fn open_current(out: &str) {
    std::fs::create_dir_all(out).unwrap();
    *CURRENT.lock().unwrap() = Some(std::fs::File::create(format!("{}/current", out)).unwrap());
    *FAIL_LOG.lock().unwrap() = Some((std::fs::File::create(format!("{}/failures.jsonl", out)).unwrap(), 0));
}

/// oracle failures are also appended to a file as they happen, so that they survive a later crash
static FAIL_LOG: std::sync::Mutex<Option<(std::fs::File, usize)>> = std::sync::Mutex::new(None);

fn sync_failures(st: &Stream) {
    use std::io::Write;
    if let Some((f, n)) = FAIL_LOG.lock().unwrap().as_mut() {
        while *n < st.oracle_failures.len() {
            let _ = writeln!(f, "{}", st.oracle_failures[*n]);
            *n += 1;
        }
    }
}

fn supervise(a: &Args) {
    use std::os::unix::process::ExitStatusExt;
    let wdir = format!("{}/worker-{}", a.out, a.stream);
    let _ = std::fs::remove_dir_all(&wdir);
    std::fs::create_dir_all(&wdir).unwrap();
    let status = std::process::Command::new(std::env::current_exe().unwrap())
        .args([a.stream.as_str(), "--tier", a.tier.as_str(), "--seed", &a.seed.to_string(), "--out", &wdir])
        .env("C06_WORKER", "1")
        .status()
        .expect("cannot start the worker process");
    if status.success() {
        for ext in ["ops", "impl", "json"] {
            std::fs::rename(format!("{}/{}.{}", wdir, a.stream, ext), format!("{}/{}.{}", a.out, a.stream, ext)).unwrap();
        }
        let _ = std::fs::remove_dir_all(&wdir);
        return;
    }
    if status.signal().is_none() {
        // not a crash of the code under test: usage error or a bug of the harness itself
        std::process::exit(status.code().unwrap_or(3));
    }
    let cur = std::fs::read_to_string(format!("{}/current", wdir)).unwrap_or_default();
    let mut st = Stream::new(&a.out, &a.stream);
    // failures found before the crash come first: they are the smaller, more precise cases
    for l in std::fs::read_to_string(format!("{}/failures.jsonl", wdir)).unwrap_or_default().lines() {
        if l.starts_with('{') && l.ends_with('}') && st.oracle_failures.len() < 19 { st.oracle_failures.push(l.to_string()); st.oracle_checks += 1; }
    }
    st.oracle_fail(
        "the process executing the real ring buffer was killed by a signal (allocator abort / segfault: memory outside the backing slice was read or written) during or shortly before this case",
        &cur, "every access inside the backing slice", &format!("{:?}", status));
    st.case(&cur, "abort", true, 1);
    st.note("worker process crashed; only the case that was running is reported");
    st.finish();
}

const KINDS: [&str; 4] = ["arr", "vec", "box", "mut"];
/// Fixed does not require `Copy` elements: the `t…` kinds hold drop-tracked owned elements
const KINDS_F: [&str; 8] = ["arr", "tvec", "box", "tmut", "tarr", "vec", "tbox", "mut"];
const MAX: usize = usize::MAX;
const HALF: usize = 1 << (usize::BITS - 1);

/// a rare index value: at/near usize::MAX (within `near` of it and of MAX - a, MAX - b), around 2^63, 2^32
fn extreme_index(rng: &mut Rng, a: usize, b: usize, near: usize) -> usize {
    let k = rng.usize_below(near + 2);
    match rng.below(8) {
        0 => MAX,
        1 => MAX - k,
        2 => (MAX - a).wrapping_sub(k) ,
        3 => (MAX - b).wrapping_sub(k),
        4 => HALF.wrapping_add(k),
        5 => HALF - 1 - k,
        6 => (1usize << 32).wrapping_add(k).wrapping_sub(near / 2),
        _ => MAX - rng.usize_below(a + b + 2),
    }
}
const CANARY: i32 = -777_777;
const PAD: usize = 8;

// ---------------------------------------------------------------------------------------------
// observations

#[derive(Clone, Debug, PartialEq)]
enum Seen {
    Unit,
    Opt(Option<i32>),
    Nat(usize),
    Bool(bool),
    List(Vec<i32>),
    Pair(Vec<i32>, Vec<i32>),
    /// start/first, len (Bounded only), backing data when requested
    Raw(usize, Option<usize>, Option<Vec<i32>>),
    Panic,
    Dead,
}

fn show_list(l: &[i32]) -> String {
    format!("[{}]", l.iter().map(|x| x.to_string()).collect::<Vec<_>>().join(","))
}
fn csv(l: &[i32]) -> String { l.iter().map(|x| x.to_string()).collect::<Vec<_>>().join(",") }

impl Seen {
    fn show(&self) -> String {
        match self {
            Seen::Unit => "u".into(),
            Seen::Opt(None) => "none".into(),
            Seen::Opt(Some(v)) => v.to_string(),
            Seen::Nat(n) => n.to_string(),
            Seen::Bool(b) => if *b { "t".into() } else { "f".into() },
            Seen::List(l) => show_list(l),
            Seen::Pair(a, b) => format!("{}+{}", show_list(a), show_list(b)),
            Seen::Raw(s, l, d) => {
                let mut o = match l { Some(l) => format!("@{}/{}", s, l), None => s.to_string() };
                if let Some(d) = d { o.push_str(&format!("{{{}}}", csv(d))); }
                o
            }
            Seen::Panic => "panic".into(),
            Seen::Dead => "dead".into(),
        }
    }
}

// ---------------------------------------------------------------------------------------------
// storage kinds

/// element types the buffers are instantiated with: plain `i32` samples, and `Tok`, an owned
/// (non-Copy) element with a destructor whose life is tracked
trait Elem: Sized {
    fn mk(v: i32) -> Self;
    /// look at the element (through a reference): its value
    fn val(&self) -> i32;
}
impl Elem for i32 {
    fn mk(v: i32) -> i32 { v }
    fn val(&self) -> i32 { *self }
}

/// life-cycle registry of the `Tok` elements of the running case
#[derive(Default)]
struct Registry {
    /// per serial number: 1 = live, 0 = dropped
    state: Vec<u8>,
    values: Vec<i32>,
    errors: Vec<(String, String, String)>,
}
thread_local! { static REG: std::cell::RefCell<Registry> = std::cell::RefCell::new(Registry::default()); }

struct Tok { serial: usize, v: i32 }
impl Elem for Tok {
    fn mk(v: i32) -> Tok {
        REG.with(|r| { let mut r = r.borrow_mut(); r.state.push(1); r.values.push(v); Tok { serial: r.state.len() - 1, v } })
    }
    fn val(&self) -> i32 {
        REG.with(|r| {
            let mut r = r.borrow_mut();
            if r.state.get(self.serial) != Some(&1) && r.errors.len() < 4 {
                r.errors.push(("an element handed out by the buffer had already been dropped (a slot holding no live element was exposed)".into(),
                    "a live element".into(), format!("element with value {} (#{}) observed after its destructor ran", self.v, self.serial)));
            }
        });
        self.v
    }
}
impl Drop for Tok {
    fn drop(&mut self) {
        REG.with(|r| {
            let mut r = r.borrow_mut();
            match r.state.get(self.serial).copied() {
                Some(1) => r.state[self.serial] = 0,
                _ => if r.errors.len() < 4 {
                    r.errors.push(("an element was dropped twice".into(), "every element dropped exactly once".into(),
                        format!("second drop of the element with value {} (#{})", self.v, self.serial)));
                }
            }
        });
    }
}
fn registry_reset() { REG.with(|r| *r.borrow_mut() = Registry::default()); }
/// after the buffer and everything it returned are gone: errors seen, plus elements never dropped
fn registry_verdict() -> Vec<(String, String, String)> {
    REG.with(|r| {
        let mut r = r.borrow_mut();
        let leaked: Vec<String> = r.state.iter().enumerate().filter(|(_, s)| **s == 1).map(|(i, _)| format!("{} (#{})", r.values[i], i)).collect();
        let mut e = std::mem::take(&mut r.errors);
        if !leaked.is_empty() {
            e.push(("elements were never dropped although the buffer and all returned elements are gone".into(), "every element dropped exactly once".into(),
                format!("never dropped: {}", leaked.join(" "))));
        }
        e
    })
}

trait Runner<E> {
    type Out;
    fn run<S: SliceMut<Element = E>>(self, data: S) -> Self::Out;
}

const ARR_SIZES: [usize; 12] = [0, 1, 2, 3, 4, 5, 6, 7, 8, 16, 32, 64];

/// run `r` on the requested storage kind; second component: the memory around a `&mut [T]` backing
/// slice is untouched (always true for owned storage)
fn dispatch<E: Elem, R: Runner<E>>(kind: &str, values: Vec<i32>, r: R) -> (R::Out, bool) {
    let n = values.len();
    macro_rules! arr { ($($n:literal)*) => {
        match n {
            $( $n => {
                let data: Vec<E> = values.iter().map(|v| E::mk(*v)).collect();
                let a: [E; $n] = match data.try_into() { Ok(a) => a, Err(_) => unreachable!() };
                return (r.run(a), true);
            } )*
            _ => unreachable!("array kind requested for unsupported length"),
        }
    } }
    match kind {
        "arr" => { arr!(0 1 2 3 4 5 6 7 8 16 32 64) }
        "vec" => (r.run(values.iter().map(|v| E::mk(*v)).collect::<Vec<E>>()), true),
        "box" => (r.run(values.iter().map(|v| E::mk(*v)).collect::<Vec<E>>().into_boxed_slice()), true),
        "mut" => {
            let mut area: Vec<E> = (0..n + 2 * PAD).map(|i| E::mk(if i >= PAD && i < PAD + n { values[i - PAD] } else { CANARY })).collect();
            let out = r.run(&mut area[PAD..PAD + n]);
            let ok = area[..PAD].iter().chain(area[PAD + n..].iter()).all(|x| x.val() == CANARY);
            (out, ok)
        }
        _ => unreachable!(),
    }
}

// ---------------------------------------------------------------------------------------------
// Bounded: operations, execution on the real code

#[derive(Clone, Debug)]
enum BOp {
    Push(i32), Pop, Get(usize), Gm(usize, i32), Ix(usize), Ixm(usize, i32),
    Len, Empty, Full, Max, Iter, Slices, Im(Vec<i32>), Sm(Vec<i32>), Drain(usize), DrainNth(usize), /* the draining iterator leaked (mem::forget) after k items */ DrainLeak(usize), Ext(Vec<i32>), Raw, Data,
}

impl BOp {
    fn token(&self) -> String {
        match self {
            BOp::Push(x) => format!("push:{}", x), BOp::Pop => "pop".into(), BOp::Get(i) => format!("get:{}", i),
            BOp::Gm(i, x) => format!("gm:{}:{}", i, x), BOp::Ix(i) => format!("ix:{}", i), BOp::Ixm(i, x) => format!("ixm:{}:{}", i, x),
            BOp::Len => "len".into(), BOp::Empty => "empty".into(), BOp::Full => "full".into(), BOp::Max => "max".into(),
            BOp::Iter => "iter".into(), BOp::Slices => "slices".into(), BOp::Im(xs) => format!("im:{}", csv(xs)),
            BOp::Sm(xs) => format!("sm:{}", csv(xs)), BOp::Drain(k) => format!("drain:{}", k), BOp::DrainNth(k) => format!("dnth:{}", k), BOp::DrainLeak(k) => format!("dleak:{}", k), BOp::Ext(xs) => format!("ext:{}", csv(xs)),
            BOp::Raw => "raw".into(), BOp::Data => "data".into(),
        }
    }
    fn kind(&self) -> &'static str {
        match self {
            BOp::Push(_) => "push", BOp::Pop => "pop", BOp::Get(_) => "get", BOp::Gm(..) => "get_mut", BOp::Ix(_) => "index",
            BOp::Ixm(..) => "index_mut", BOp::Len => "len", BOp::Empty => "is_empty", BOp::Full => "is_full", BOp::Max => "max_len",
            BOp::Iter => "iter", BOp::Slices => "slices", BOp::Im(_) => "iter_mut", BOp::Sm(_) => "slices_mut", BOp::Drain(_) => "drain", BOp::DrainNth(_) => "drain_nth", BOp::DrainLeak(_) => "drain_leaked",
            BOp::Ext(_) => "extend", BOp::Raw | BOp::Data => "raw_parts",
        }
    }
}

#[derive(Clone, Copy, Debug)]
enum BCtor { Raw(usize, usize), Full, Empty }

thread_local! { static RESEAT: std::cell::Cell<bool> = std::cell::Cell::new(false); }
/// a quarter of the cases, chosen by a hash of the operation sequence (deterministic)
fn set_reseat<T: std::fmt::Debug>(ops: &[T]) {
    let mut h: u64 = 0xcbf29ce484222325;
    for b in format!("{:?}", ops).bytes() { h = (h ^ b as u64).wrapping_mul(0x100000001b3); }
    RESEAT.with(|r| r.set((h >> 17) & 3 == 0));
}

/// anomalies seen by `exec` itself that are not part of the compared observation
/// (drain's ExactSizeIterator::len / size_hint)
type Extra = Vec<(String, String, String)>;

fn exec_b<S: SliceMut<Element = i32>>(slot: &mut Option<Bounded<S>>, op: &BOp, extra: &mut Extra) -> Seen {
    if matches!(op, BOp::Raw | BOp::Data) {
        let b = match slot.take() { Some(b) => b, None => return Seen::Dead };
        let (s, l, d) = unsafe { b.into_raw_parts() };
        let copy = d.slice().to_vec();
        return match guarded(move || Bounded::from_raw_parts(s, l, d)) {
            Some(b) => { *slot = Some(b); Seen::Raw(s, Some(l), if matches!(op, BOp::Data) { Some(copy) } else { None }) }
            None => Seen::Panic,
        };
    }
    let rb = match slot.as_mut() { Some(r) => r, None => return Seen::Dead };
    let mut ex: Extra = vec![];
    let r = guarded(|| match op {
        BOp::Push(x) => Seen::Opt(rb.push(*x)),
        BOp::Pop => Seen::Opt(rb.pop()),
        BOp::Get(i) => Seen::Opt(rb.get(*i).copied()),
        BOp::Gm(i, x) => Seen::Opt(rb.get_mut(*i).map(|r| std::mem::replace(r, *x))),
        BOp::Ix(i) => Seen::Opt(Some(rb[*i])),
        BOp::Ixm(i, x) => Seen::Opt(Some(std::mem::replace(&mut rb[*i], *x))),
        BOp::Len => Seen::Nat(rb.len()),
        BOp::Empty => Seen::Bool(rb.is_empty()),
        BOp::Full => Seen::Bool(rb.is_full()),
        BOp::Max => Seen::Nat(rb.max_len()),
        BOp::Iter => Seen::List(rb.iter().copied().collect()),
        BOp::Slices => { let (a, b) = rb.slices(); Seen::Pair(a.to_vec(), b.to_vec()) }
        BOp::Im(xs) => {
            let mut seen = vec![];
            for (k, r) in rb.iter_mut().enumerate() { seen.push(*r); if k < xs.len() { *r = xs[k]; } }
            Seen::List(seen)
        }
        BOp::Sm(xs) => {
            let (a, b) = rb.slices_mut();
            let out = Seen::Pair(a.to_vec(), b.to_vec());
            for (r, x) in a.iter_mut().chain(b.iter_mut()).zip(xs.iter()) { *r = *x; }
            out
        }
        BOp::Drain(k) => {
            let before = rb.len();
            let d = rb.drain();
            let (n, hint) = (d.len(), d.size_hint());
            if n != before || hint != (before, Some(before)) {
                ex.push(("drain().len()/size_hint() differ from the number of live elements".into(), before.to_string(), format!("{} {:?}", n, hint)));
            }
            Seen::List(d.take(*k).collect())
        }
        BOp::DrainNth(k) => Seen::Opt(rb.drain().nth(*k)),
        BOp::DrainLeak(k) => {
            // what was handed out is gone from the queue whether or not the iterator's destructor ever runs
            let mut d = rb.drain();
            let v: Vec<i32> = d.by_ref().take(*k).collect();
            std::mem::forget(d);
            Seen::List(v)
        }
        BOp::Ext(xs) => { rb.extend(xs.iter().copied()); Seen::Unit }
        BOp::Raw | BOp::Data => unreachable!(),
    });
    extra.extend(ex);
    // raw parts after each operation (property: observe_at): a mutating call must leave a state that
    // `from_raw_parts` accepts; if it does not, stop using the buffer (further calls would be UB).
    // Only in a quarter of the cases (`reseat`): taking the buffer apart and rebuilding it from
    // (start, len, data) after every call would re-derive — and so hide — any internal state the
    // implementation keeps besides those three; the other cases are pure API histories, as a client
    // runs them, with the raw parts looked at only where the operation sequence says `raw` / `data`.
    if mutating_b(op) && RESEAT.with(|r| r.get()) {
        let b = slot.take().unwrap();
        let (s, l, d) = unsafe { b.into_raw_parts() };
        let cap = d.slice().len();
        if s < cap && l <= cap {
            *slot = guarded(move || Bounded::from_raw_parts(s, l, d));
        } else {
            extra.push((format!("`{}` left the buffer in an invalid internal state (needs start < capacity and len <= capacity)", op.token()),
                format!("start < {} and len <= {}", cap, cap), format!("start={} len={}", s, l)));
        }
    }
    r.unwrap_or(Seen::Panic)
}

struct BRun<'a> { ctor: BCtor, ops: &'a [BOp] }
impl<'a> Runner<i32> for BRun<'a> {
    type Out = (Option<Vec<Seen>>, Extra);
    fn run<S: SliceMut<Element = i32>>(self, data: S) -> Self::Out {
        let ctor = self.ctor;
        set_reseat(self.ops);
        let rb = guarded(move || match ctor {
            BCtor::Raw(s, l) => Bounded::from_raw_parts(s, l, data),
            BCtor::Full => Bounded::from_full(data),
            BCtor::Empty => Bounded::from(data),
        });
        let mut extra = vec![];
        match rb {
            None => (None, extra),
            Some(rb) => {
                let mut slot = Some(rb);
                let seen = self.ops.iter().map(|op| exec_b(&mut slot, op, &mut extra)).collect();
                (Some(seen), extra)
            }
        }
    }
}

// ---------------------------------------------------------------------------------------------
// Bounded: the ideal capacity-bounded FIFO queue, from the property text

struct IdealQ { q: VecDeque<i32>, cap: usize }

/// None = the property says nothing that this observation could contradict
fn ideal_b(id: &mut IdealQ, op: &BOp, seen: &Seen) -> Result<(), (String, String)> {
    let want = |w: Seen, what: &str| -> Result<(), (String, String)> {
        if &w == seen { Ok(()) } else { Err((what.to_string(), w.show())) }
    };
    let live: Vec<i32> = id.q.iter().copied().collect();
    match op {
        BOp::Push(x) => {
            // push appends and, only when full, evicts and returns the oldest element
            let ev = if id.q.len() == id.cap { id.q.pop_front() } else { None };
            id.q.push_back(*x);
            want(Seen::Opt(ev), "push must return the evicted oldest element only when full")
        }
        BOp::Pop => { let o = id.q.pop_front(); want(Seen::Opt(o), "pop must remove and return the oldest element") }
        BOp::Get(i) => want(Seen::Opt(id.q.get(*i).copied()), "get(i) must be the i-th oldest live element"),
        BOp::Gm(i, x) => {
            let old = id.q.get(*i).copied();
            if let Some(r) = id.q.get_mut(*i) { *r = *x; }
            want(Seen::Opt(old), "get_mut(i) must refer to the i-th oldest live element")
        }
        BOp::Ix(i) => match id.q.get(*i) {
            Some(v) => want(Seen::Opt(Some(*v)), "rb[i] must be the i-th oldest live element"),
            None => want(Seen::Panic, "rb[i] beyond the live elements must panic, not expose a slot"),
        },
        BOp::Ixm(i, x) => match id.q.get_mut(*i) {
            Some(r) => { let old = *r; *r = *x; want(Seen::Opt(Some(old)), "rb[i] (mut) must refer to the i-th oldest live element") }
            None => want(Seen::Panic, "rb[i] (mut) beyond the live elements must panic, not expose a slot"),
        },
        BOp::Len => want(Seen::Nat(id.q.len()), "len must be the number of live elements"),
        BOp::Empty => want(Seen::Bool(id.q.is_empty()), "is_empty must agree with the queue"),
        BOp::Full => want(Seen::Bool(id.q.len() == id.cap), "is_full must agree with len == capacity"),
        BOp::Max => want(Seen::Nat(id.cap), "max_len must be the capacity"),
        BOp::Iter => want(Seen::List(live), "iteration must present the live elements oldest-first"),
        BOp::Slices | BOp::Sm(_) => {
            let r = match seen {
                Seen::Pair(a, b) => {
                    let mut c = a.clone(); c.extend(b.iter());
                    if c == live { Ok(()) } else { Err(("the two slices concatenated must present the live elements oldest-first".to_string(), show_list(&live))) }
                }
                _ => Err(("slices must return two slices".to_string(), show_list(&live))),
            };
            if let BOp::Sm(xs) = op { for (r, x) in id.q.iter_mut().zip(xs.iter()) { *r = *x; } }
            r
        }
        BOp::Im(xs) => {
            for (r, x) in id.q.iter_mut().zip(xs.iter()) { *r = *x; }
            want(Seen::List(live), "mutable iteration must present the live elements oldest-first")
        }
        BOp::Drain(k) => {
            let mut out = vec![];
            for _ in 0..*k { match id.q.pop_front() { Some(v) => out.push(v), None => break } }
            want(Seen::List(out), "drain must yield the oldest elements in order, removing exactly those yielded")
        }
        BOp::DrainLeak(k) => {
            let mut out = vec![];
            for _ in 0..*k { match id.q.pop_front() { Some(v) => out.push(v), None => break } }
            want(Seen::List(out), "a draining iterator leaked after k items must have removed exactly the k items it yielded")
        }
        BOp::DrainNth(k) => {
            let mut last = None;
            for _ in 0..=*k { last = id.q.pop_front(); if last.is_none() { break; } }
            want(Seen::Opt(last), "drain().nth(k) must hand out the element k places from the oldest, removing exactly the elements up to it")
        }
        BOp::Ext(xs) => {
            for x in xs { if id.q.len() == id.cap { id.q.pop_front(); } id.q.push_back(*x); }
            want(Seen::Unit, "extend returns nothing")
        }
        BOp::Raw | BOp::Data => match seen {
            // a valid internal state: start < capacity, length <= capacity, and it is the state of this queue
            Seen::Raw(s, Some(l), d) => {
                if !(*s < id.cap && *l <= id.cap && *l == id.q.len()) {
                    return Err(("raw parts must be a valid state with len = number of live elements".into(), format!("start<{} len={}", id.cap, id.q.len())));
                }
                if let Some(d) = d {
                    if d.len() != id.cap { return Err(("backing slice changed length".into(), id.cap.to_string())); }
                    let w: Vec<i32> = d.iter().cycle().skip(*s).take(*l).copied().collect();
                    if w != live { return Err(("the len slots from start (wrapping) must hold the live elements oldest-first".into(), show_list(&live))); }
                }
                Ok(())
            }
            _ => Err(("a reachable state must be accepted by from_raw_parts".into(), "valid raw parts".into())),
        },
    }
}

fn mutating_b(op: &BOp) -> bool {
    matches!(op, BOp::Push(_) | BOp::Pop | BOp::Gm(..) | BOp::Ixm(..) | BOp::Im(_) | BOp::Sm(_) | BOp::Drain(_) | BOp::DrainNth(_) | BOp::DrainLeak(_) | BOp::Ext(_))
}

struct Vals(i32);
impl Vals { fn next(&mut self) -> i32 { self.0 += 1; self.0 } fn take(&mut self, n: usize) -> Vec<i32> { (0..n).map(|_| self.next()).collect() } }

/// the block of read-only observations appended after every mutating op in the exhaustive part
fn obs_block_b(cap: usize, out: &mut Vec<BOp>) {
    out.extend([BOp::Len, BOp::Empty, BOp::Full, BOp::Max, BOp::Raw, BOp::Iter, BOp::Slices]);
    for i in 0..=cap { out.push(BOp::Get(i)); }
    out.push(BOp::Ix(0));
    out.push(BOp::Ix(cap));
}

/// indices at and near usize::MAX (every k < cap+1 below it), 2^63: no element there, nothing may be exposed
fn extreme_block_b(cap: usize, out: &mut Vec<BOp>) {
    for k in 0..=cap { out.push(BOp::Get(MAX - k)); }
    out.extend([BOp::Get(HALF), BOp::Get(HALF - 1), BOp::Ix(MAX), BOp::Ix(MAX - (cap - 1)), BOp::Gm(MAX, 7), BOp::Gm(MAX - (cap - 1), 7),
        BOp::Ixm(MAX - (cap - 1), 7), BOp::Iter]);
}

/// run one Bounded case on the real code, write it to the stream, check it against the ideal queue
fn case_b(st: &mut Stream, kind: &str, ctor: BCtor, data: &[i32], ops: &[BOp]) {
    let cap = data.len();
    let head = match ctor {
        BCtor::Raw(s, l) => format!("raw {} {} {}", s, l, cap),
        BCtor::Full => format!("full {}", cap),
        BCtor::Empty => format!("empty {}", cap),
    };
    let mut line = format!("bounded {} {}", kind, head);
    for d in data { line.push(' '); line.push_str(&d.to_string()); }
    line.push_str(" |");
    for op in ops { line.push(' '); line.push_str(&op.token()); }

    mark_current(&line);
    let ((seen, extra), canary_ok) = dispatch::<i32, _>(kind, data.to_vec(), BRun { ctor, ops });
    let (start0, len0) = match ctor { BCtor::Raw(s, l) => (s, l), BCtor::Full => (0, cap), BCtor::Empty => (0, 0) };
    let valid = start0 < cap && len0 <= cap;
    st.count(&format!("kind_{}", kind));
    st.count(&format!("cap_{}", if cap <= 4 { cap.to_string() } else if cap <= 8 { "5-8".into() } else if cap <= 16 { "9-16".into() } else { "17-64".into() }));
    let mut nontrivial = false;
    let obs = match &seen {
        None => {
            st.count("ctor_panic");
            if valid { st.oracle_fail("constructor rejected a valid state (start < capacity, len <= capacity)", &line, "buffer", "panic"); } else { st.oracle_ok(1); }
            "panic".to_string()
        }
        Some(seen) => {
            if !valid {
                st.oracle_fail("constructor accepted an invalid state (needs start < capacity and len <= capacity)", &line, "panic", "buffer");
            } else {
                // the ideal queue: the len elements from start, wrapping, oldest first
                let mut id = IdealQ { q: data.iter().cycle().skip(start0).take(len0).copied().collect(), cap };
                let mut moved = start0 != 0;
                let mut n_ok = 0;
                for (what, e, o) in &extra { st.oracle_fail(what, &line, e, o); }
                for (k, (op, s)) in ops.iter().zip(seen.iter()).enumerate() {
                    if *s == Seen::Dead { break; } // already reported above
                    st.count(&format!("op_{}", op.kind()));
                    if *s == Seen::Panic { st.count("op_panic"); }
                    if let Seen::Raw(s0, _, _) = s { if *s0 != 0 { moved = true; } }
                    let full_before = id.q.len() == cap;
                    match op { BOp::Push(_) if full_before => { moved = true; st.count("push_evicting"); } BOp::Pop | BOp::Drain(_) | BOp::DrainNth(_) | BOp::DrainLeak(_) if !id.q.is_empty() => moved = true, _ => {} }
                    match ideal_b(&mut id, op, s) {
                        Ok(()) => n_ok += 1,
                        Err((what, expected)) => {
                            st.oracle_fail(&format!("Bounded op #{} `{}`: {}", k, op.token(), what), &line, &expected, &s.show());
                            break; // later observations depend on this one
                        }
                    }
                }
                st.oracle_ok(n_ok);
                nontrivial = moved && ops.iter().any(mutating_b);
            }
            seen.iter().map(|s| s.show()).collect::<Vec<_>>().join(" ")
        }
    };
    if !canary_ok { st.oracle_fail("memory outside the backing slice was written", &line, "guard cells untouched", "guard cell changed"); } else if kind == "mut" { st.oracle_ok(1); }
    st.case(&line, &obs, nontrivial, ops.len() as u64 + 1);
    sync_failures(st);
}

/// the 8-symbol alphabet of mutating operations used for the exhaustive enumeration
fn alphabet_b(sym: usize, cap: usize, v: &mut Vals) -> BOp {
    match sym {
        0 => BOp::Push(v.next()),
        1 => BOp::Pop,
        2 => BOp::Gm(1, v.next()),
        3 => BOp::Ixm(0, v.next()),
        4 => BOp::Drain(2),
        8 => BOp::DrainNth(1),
        9 => BOp::DrainLeak(1),
        5 => BOp::Ext(v.take(2)),
        6 => BOp::Im(v.take(1)),
        7 => BOp::Sm(v.take(cap + 1)),
        _ => unreachable!(),
    }
}
const NSYM_B: usize = 10;

fn run_bounded(a: &Args) {
    open_current(&a.out);
    let mut st = Stream::new(&a.out, "bounded");
    let mut rng = Rng::new(a.seed, "bounded");

    // ---- 1. exhaustive: every (capacity <= 4, start, len) x every sequence of `depth` mutating ops,
    //         full observation block after each op; storage kind rotates
    let depth = if a.thorough() { 5 } else { 4 };
    let mut counter = 0usize;
    for cap in 1..=4usize {
        for start in 0..cap {
            for len in 0..=cap {
                let data: Vec<i32> = (0..cap as i32).map(|i| 11 + i).collect();
                let total = NSYM_B.pow(depth as u32);
                for code in 0..total {
                    let mut v = Vals(100);
                    let mut ops = vec![];
                    obs_block_b(cap, &mut ops);
                    let mut c = code;
                    for _ in 0..depth {
                        ops.push(alphabet_b(c % NSYM_B, cap, &mut v));
                        c /= NSYM_B;
                        obs_block_b(cap, &mut ops);
                    }
                    // rare index values on the final state (quick: every 4th sequence; section 2b covers every state)
                    if a.thorough() || code % 4 == 1 { extreme_block_b(cap, &mut ops); }
                    ops.push(BOp::Data);
                    case_b(&mut st, KINDS[counter % 4], BCtor::Raw(start, len), &data, &ops);
                    counter += 1;
                }
            }
        }
    }
    st.count_n("exhaustive_states_cap_le_4", 40);
    st.note(&format!("exhaustive part: all 40 (capacity<=4,start,len) states x all {}^{} sequences over the mutating alphabet {{push,pop,get_mut(1),index_mut(0),drain.take(2),drain.nth(1),drain leaked after 1,extend(2),iter_mut write 1,slices_mut write cap+1}}, every read-only view after every op", NSYM_B, depth));

    // ---- 2. all four storage kinds x all states x all sequences of length 2, plus from_full / From
    for kind in KINDS {
        for cap in 1..=4usize {
            let data: Vec<i32> = (0..cap as i32).map(|i| 11 + i).collect();
            let mut ctors = vec![BCtor::Full, BCtor::Empty];
            for start in 0..cap { for len in 0..=cap { ctors.push(BCtor::Raw(start, len)); } }
            for ctor in ctors {
                for code in 0..NSYM_B * NSYM_B {
                    let mut v = Vals(100);
                    let mut ops = vec![];
                    for sym in [code % NSYM_B, code / NSYM_B] { ops.push(alphabet_b(sym, cap, &mut v)); obs_block_b(cap, &mut ops); }
                    ops.push(BOp::Data);
                    case_b(&mut st, kind, ctor, &data, &ops);
                }
            }
        }
    }

    // ---- 2b. extreme indices from every small state (capacity <= 6) on every storage kind
    for kind in KINDS {
        for cap in 1..=6usize {
            let data: Vec<i32> = (0..cap as i32).map(|i| 11 + i).collect();
            for start in 0..cap { for len in 0..=cap {
                let mut ops = vec![];
                extreme_block_b(cap, &mut ops);
                ops.extend([BOp::Drain(MAX), BOp::Len, BOp::Raw]);
                extreme_block_b(cap, &mut ops);
                ops.push(BOp::Data);
                case_b(&mut st, kind, BCtor::Raw(start, len), &data, &ops);
            } }
        }
    }

    // ---- 3. malformed constructor arguments (must panic) incl. empty storage
    for kind in KINDS {
        for cap in 0..=4usize {
            let data: Vec<i32> = (0..cap as i32).map(|i| 11 + i).collect();
            for start in 0..=cap + 2 {
                for len in 0..=cap + 2 {
                    if start < cap && len <= cap { continue; }
                    case_b(&mut st, kind, BCtor::Raw(start, len), &data, &[BOp::Len, BOp::Pop]);
                }
            }
            if cap == 0 {
                case_b(&mut st, kind, BCtor::Full, &data, &[BOp::Len]);
                case_b(&mut st, kind, BCtor::Empty, &data, &[BOp::Push(1)]);
            }
        }
    }

    // ---- 4. random histories from random valid raw parts, capacities <= 64
    let n_rand = if a.thorough() { 60_000 } else { 6_000 };
    // the last two histories are LONG: > 65536 operations on one buffer (whatever an implementation counts per
    // operation — positions, generations — must not wrap into a wrong answer)
    for it in 0..n_rand + 2 {
        let long = it >= n_rand;
        let cap = match rng.below(4) { 0 => 1 + rng.usize_below(4), 1 => 1 + rng.usize_below(8), 2 => 1 + rng.usize_below(16), _ => 1 + rng.usize_below(64) };
        let mut kind = *rng.pick(&KINDS);
        if kind == "arr" && !ARR_SIZES.contains(&cap) { kind = *rng.pick(&["vec", "box", "mut"]); }
        let data: Vec<i32> = (0..cap).map(|_| rng.range(-50, 50) as i32).collect();
        let ctor = match rng.below(10) {
            0 => BCtor::Full,
            1 => BCtor::Empty,
            _ => {
                let start = if rng.chance(1, 4) { cap - 1 } else { rng.usize_below(cap) };
                let len = match rng.below(4) { 0 => cap, 1 => 0, _ => rng.usize_below(cap + 1) };
                BCtor::Raw(start, len)
            }
        };
        let mut v = Vals(1000);
        let n_ops = if long { st.count("long_history_gt_65536_ops"); 66_000 + rng.usize_below(500) } else { 1 + rng.usize_below(40) };
        let mut ops = vec![];
        // a rough running length only to aim indices at the interesting boundary
        let mut est = match ctor { BCtor::Raw(_, l) => l, BCtor::Full => cap, BCtor::Empty => 0 };
        let push_bias = rng.below(3); // 0: draining histories, 1: balanced, 2: filling histories
        for _ in 0..n_ops {
            let idx = |rng: &mut Rng, est: usize| -> usize {
                match rng.below(7) { 0 => 0, 1 => est, 2 => est.saturating_sub(1), 3 => cap, 4 => rng.usize_below(cap + 2), 5 => extreme_index(rng, cap, est, cap), _ => rng.usize_below(est.max(1)) }
            };
            let val = |rng: &mut Rng, v: &mut Vals| -> i32 { if rng.chance(1, 5) { rng.range(-50, 50) as i32 } else { v.next() } };
            let op = match rng.below(25) {
                0..=4 => { if push_bias == 0 && rng.chance(1, 2) { BOp::Pop } else { BOp::Push(val(&mut rng, &mut v)) } }
                5..=7 => { if push_bias == 2 && rng.chance(1, 2) { BOp::Push(val(&mut rng, &mut v)) } else { BOp::Pop } }
                8 | 9 => BOp::Get(idx(&mut rng, est)),
                10 => BOp::Gm(idx(&mut rng, est), val(&mut rng, &mut v)),
                11 => BOp::Ix(idx(&mut rng, est)),
                12 => BOp::Ixm(idx(&mut rng, est), val(&mut rng, &mut v)),
                13 => match rng.below(4) { 0 => BOp::Len, 1 => BOp::Empty, 2 => BOp::Full, _ => BOp::Max },
                14 | 15 => BOp::Iter,
                16 | 17 => BOp::Slices,
                18 => { let n = rng.usize_below(cap + 2); BOp::Im((0..n).map(|_| val(&mut rng, &mut v)).collect()) }
                19 => { let n = rng.usize_below(cap + 2); BOp::Sm((0..n).map(|_| val(&mut rng, &mut v)).collect()) }
                20 => BOp::Drain(if rng.chance(1, 8) { extreme_index(&mut rng, cap, est, 2) } else { rng.usize_below(est + 2) }),
                21 => { let n = rng.usize_below(cap.min(6) + 2); BOp::Ext((0..n).map(|_| val(&mut rng, &mut v)).collect()) }
                22 => BOp::Raw,
                23 => BOp::DrainNth(if rng.chance(1, 8) { extreme_index(&mut rng, cap, est, 2) } else { rng.usize_below(est + 2) }),
                24 => BOp::DrainLeak(rng.usize_below(est + 2)),
                _ => BOp::Len,
            };
            match &op {
                BOp::Push(_) => est = (est + 1).min(cap), BOp::Pop => est = est.saturating_sub(1),
                BOp::Drain(k) | BOp::DrainLeak(k) => est = est.saturating_sub(*k), BOp::DrainNth(k) => est = est.saturating_sub(k.saturating_add(1)), BOp::Ext(xs) => est = (est + xs.len()).min(cap), _ => {}
            }
            ops.push(op);
        }
        ops.extend([BOp::Len, BOp::Iter, BOp::Slices, BOp::Data]);
        case_b(&mut st, kind, ctor, &data, &ops);
    }
    st.exhaustive = false; // the random part samples; the capacity<=4 part is complete over its stated alphabet (see notes)
    st.finish();
}

// ---------------------------------------------------------------------------------------------
// Fixed

#[derive(Clone, Debug)]
enum FOp { Push(i32), Get(usize), Gm(usize, i32), First(usize), Len, Iter, Loop(usize), Im(Vec<i32>), Slices, Sm(Vec<i32>), Ext(Vec<i32>), Raw, Data }

impl FOp {
    fn token(&self) -> String {
        match self {
            FOp::Push(x) => format!("push:{}", x), FOp::Get(i) => format!("get:{}", i), FOp::Gm(i, x) => format!("gm:{}:{}", i, x),
            FOp::First(i) => format!("first:{}", i), FOp::Len => "len".into(), FOp::Iter => "iter".into(), FOp::Loop(n) => format!("loop:{}", n),
            FOp::Im(xs) => format!("im:{}", csv(xs)), FOp::Slices => "slices".into(), FOp::Sm(xs) => format!("sm:{}", csv(xs)),
            FOp::Ext(xs) => format!("ext:{}", csv(xs)), FOp::Raw => "raw".into(), FOp::Data => "data".into(),
        }
    }
    fn kind(&self) -> &'static str {
        match self {
            FOp::Push(_) => "push", FOp::Get(_) => "get", FOp::Gm(..) => "get_mut", FOp::First(_) => "set_first", FOp::Len => "len",
            FOp::Iter => "iter", FOp::Loop(_) => "iter_loop", FOp::Im(_) => "iter_mut", FOp::Slices => "slices", FOp::Sm(_) => "slices_mut",
            FOp::Ext(_) => "extend", FOp::Raw | FOp::Data => "raw_parts",
        }
    }
}

#[derive(Clone, Copy, Debug)]
enum FCtor { Raw(usize), From }

fn exec_f<S: SliceMut>(slot: &mut Option<Fixed<S>>, op: &FOp, extra: &mut Extra) -> Seen
where S::Element: Elem {
    fn vals<E: Elem>(xs: &[E]) -> Vec<i32> { xs.iter().map(|e| e.val()).collect() }
    if matches!(op, FOp::Raw | FOp::Data) {
        let f = match slot.take() { Some(f) => f, None => return Seen::Dead };
        let (first, d) = f.into_raw_parts();
        let copy = vals(d.slice());
        return match guarded(move || Fixed::from_raw_parts(first, d)) {
            Some(f) => { *slot = Some(f); Seen::Raw(first, None, if matches!(op, FOp::Data) { Some(copy) } else { None }) }
            None => Seen::Panic,
        };
    }
    let rb = match slot.as_mut() { Some(r) => r, None => return Seen::Dead };
    let mut ex: Extra = vec![];
    let r = guarded(|| match op {
        // the returned element is looked at, then dropped by the caller
        FOp::Push(x) => Seen::Opt(Some(rb.push(S::Element::mk(*x)).val())),
        FOp::Get(i) => {
            let (g, ix) = (rb.get(*i).val(), rb[*i].val());
            if g != ix { ex.push((format!("rb[{}] differs from get({})", i, i), g.to_string(), ix.to_string())); }
            Seen::Opt(Some(g))
        }
        // odd written values go through IndexMut, even ones through get_mut
        FOp::Gm(i, x) => Seen::Opt(Some(if x % 2 == 0 { std::mem::replace(rb.get_mut(*i), S::Element::mk(*x)).val() } else { std::mem::replace(&mut rb[*i], S::Element::mk(*x)).val() })),
        FOp::First(i) => { rb.set_first(*i); Seen::Unit }
        FOp::Len => Seen::Nat(rb.len()),
        FOp::Iter => Seen::List(rb.iter().map(|e| e.val()).collect()),
        FOp::Loop(n) => Seen::List(rb.iter_loop().take(*n).map(|e| e.val()).collect()),
        FOp::Im(xs) => {
            let mut seen = vec![];
            for (k, r) in rb.iter_mut().enumerate() { seen.push(r.val()); if k < xs.len() { *r = S::Element::mk(xs[k]); } }
            Seen::List(seen)
        }
        FOp::Slices => { let (a, b) = rb.slices(); Seen::Pair(vals(a), vals(b)) }
        FOp::Sm(xs) => {
            let (a, b) = rb.slices_mut();
            let out = Seen::Pair(vals(a), vals(b));
            for (r, x) in a.iter_mut().chain(b.iter_mut()).zip(xs.iter()) { *r = S::Element::mk(*x); }
            out
        }
        FOp::Ext(xs) => { rb.extend(xs.iter().map(|x| S::Element::mk(*x))); Seen::Unit }
        FOp::Raw | FOp::Data => unreachable!(),
    });
    extra.extend(ex);
    if mutating_f(op) && RESEAT.with(|r| r.get()) {
        let f = slot.take().unwrap();
        let (first, d) = f.into_raw_parts();
        let n = d.slice().len();
        if first < n {
            *slot = guarded(move || Fixed::from_raw_parts(first, d));
        } else {
            extra.push((format!("`{}` left the buffer in an invalid internal state (needs first < N)", op.token()),
                format!("first < {}", n), format!("first={}", first)));
        }
    }
    r.unwrap_or(Seen::Panic)
}

struct FRun<'a> { ctor: FCtor, ops: &'a [FOp] }
impl<'a, E: Elem> Runner<E> for FRun<'a> {
    type Out = (Option<Vec<Seen>>, Extra);
    fn run<S: SliceMut<Element = E>>(self, data: S) -> Self::Out {
        let ctor = self.ctor;
        set_reseat(self.ops);
        let rb = guarded(move || match ctor { FCtor::Raw(f) => Fixed::from_raw_parts(f, data), FCtor::From => Fixed::from(data) });
        let mut extra = vec![];
        match rb {
            None => (None, extra),
            Some(rb) => {
                let mut slot = Some(rb);
                let seen = self.ops.iter().map(|op| exec_f(&mut slot, op, &mut extra)).collect();
                (Some(seen), extra)
            }
        }
    }
}

/// ideal delay line of length N from the property text: a queue that always holds N elements oldest-first;
/// `first` is tracked only to interpret set_first (an absolute slot index, taken modulo N)
struct IdealD {
    q: VecDeque<i32>,
    n: usize,
    first: usize,
    /// everything that entered the line in order (initial content, then every pushed value), valid while
    /// no set_first / write-through happened: the k-th push must return entry k (= pushed N pushes earlier)
    entered: Option<Vec<i32>>,
    pushes: usize,
}

fn ideal_f(id: &mut IdealD, op: &FOp, seen: &Seen) -> Result<(), (String, String)> {
    let want = |w: Seen, what: &str| -> Result<(), (String, String)> {
        if &w == seen { Ok(()) } else { Err((what.to_string(), w.show())) }
    };
    let all: Vec<i32> = id.q.iter().copied().collect();
    let n = id.n;
    match op {
        FOp::Push(x) => {
            let front = id.q.pop_front();
            id.q.push_back(*x);
            id.first = (id.first + 1) % n;
            let k = id.pushes; id.pushes += 1;
            if let Some(e) = id.entered.as_mut() {
                e.push(*x);
                if Some(e[k]) != front { return Err(("push must return the value pushed N pushes earlier (or the initial content)".into(), e[k].to_string())); }
            }
            want(Seen::Opt(front), "push must return the element at index 0")?;
            Ok(())
        }
        FOp::Get(i) => want(Seen::Opt(Some(all[*i % n])), "indexing must wrap modulo N over oldest-first order"),
        FOp::Gm(i, x) => { let old = all[*i % n]; id.q[*i % n] = *x; id.entered = None; want(Seen::Opt(Some(old)), "mutable indexing must wrap modulo N over oldest-first order") }
        FOp::First(i) => {
            let nf = *i % n;
            id.q.rotate_left((nf + n - id.first) % n);
            id.first = nf; id.entered = None;
            want(Seen::Unit, "set_first returns nothing")
        }
        FOp::Len => want(Seen::Nat(n), "the length stays N"),
        FOp::Iter => want(Seen::List(all), "iteration must yield all N elements oldest-first"),
        FOp::Loop(m) => want(Seen::List(all.iter().cycle().take(*m).copied().collect()), "looping iteration must repeat the oldest-first order"),
        FOp::Im(xs) => {
            for (r, x) in id.q.iter_mut().zip(xs.iter()) { *r = *x; }
            if !xs.is_empty() { id.entered = None; }
            want(Seen::List(all), "mutable iteration must yield all N elements oldest-first")
        }
        FOp::Slices | FOp::Sm(_) => {
            let r = match seen {
                Seen::Pair(a, b) => {
                    let mut c = a.clone(); c.extend(b.iter());
                    if c == all { Ok(()) } else { Err(("the slice pair concatenated must be all N elements oldest-first".to_string(), show_list(&all))) }
                }
                _ => Err(("slices must return two slices".to_string(), show_list(&all))),
            };
            if let FOp::Sm(xs) = op { for (r, x) in id.q.iter_mut().zip(xs.iter()) { *r = *x; } if !xs.is_empty() { id.entered = None; } }
            r
        }
        FOp::Ext(xs) => {
            for x in xs { id.q.pop_front(); id.q.push_back(*x); id.first = (id.first + 1) % n; id.pushes += 1; if let Some(e) = id.entered.as_mut() { e.push(*x); } }
            want(Seen::Unit, "extend returns nothing")
        }
        FOp::Raw | FOp::Data => match seen {
            Seen::Raw(f, None, d) => {
                if !(*f < n && *f == id.first) { return Err(("first must stay a valid slot index (< N) and be the oldest element's slot".into(), id.first.to_string())); }
                if let Some(d) = d {
                    if d.len() != n { return Err(("backing slice changed length".into(), n.to_string())); }
                    let w: Vec<i32> = d.iter().cycle().skip(*f).take(n).copied().collect();
                    if w != all { return Err(("the N slots from first (wrapping) must be the elements oldest-first".into(), show_list(&all))); }
                }
                Ok(())
            }
            _ => Err(("a reachable state must be accepted by from_raw_parts".into(), "valid raw parts".into())),
        },
    }
}

fn mutating_f(op: &FOp) -> bool { matches!(op, FOp::Push(_) | FOp::Gm(..) | FOp::First(_) | FOp::Im(_) | FOp::Sm(_) | FOp::Ext(_)) }

fn obs_block_f(n: usize, out: &mut Vec<FOp>) {
    out.extend([FOp::Len, FOp::Raw, FOp::Iter, FOp::Loop(2 * n + 1), FOp::Slices]);
    for i in 0..=2 * n { out.push(FOp::Get(i)); }
}

/// where `first` is after `op` on an ideal delay line (push advances by one, set_first is absolute mod N)
fn first_after(first: usize, n: usize, op: &FOp) -> usize {
    match op { FOp::Push(_) => (first + 1) % n, FOp::Ext(xs) => (first + xs.len()) % n, FOp::First(i) => *i % n, _ => first }
}

/// indices at and near usize::MAX / 2^63 for get (+Index), get_mut/IndexMut and set_first, from whatever
/// `first` is: every index must select element `index mod N` of the oldest-first order, in builds with
/// and without overflow checks (first + index itself may exceed usize::MAX)
fn extreme_block_f(n: usize, first: usize, out: &mut Vec<FOp>) -> usize {
    for k in 0..=n.min(4) { out.push(FOp::Get(MAX - k)); }
    out.extend([FOp::Get(MAX - first), FOp::Get(HALF), FOp::Get(HALF - 1), FOp::Gm(MAX, 8), FOp::Gm(MAX - 1, 9), FOp::Gm(MAX - first, 10), FOp::Iter]);
    out.extend([FOp::First(MAX), FOp::Raw, FOp::Iter, FOp::Get(MAX), FOp::Get(MAX - 1), FOp::Gm(MAX - 2, 11)]);
    out.extend([FOp::First(MAX - 1), FOp::Raw, FOp::First(HALF), FOp::Raw, FOp::Get(MAX), FOp::Iter]);
    HALF % n
}

fn case_f(st: &mut Stream, kind: &str, ctor: FCtor, data: &[i32], ops: &[FOp]) {
    let n = data.len();
    let head = match ctor { FCtor::Raw(f) => format!("raw {} {}", f, n), FCtor::From => format!("from {}", n) };
    let mut line = format!("fixed {} {}", kind, head);
    for d in data { line.push(' '); line.push_str(&d.to_string()); }
    line.push_str(" |");
    for op in ops { line.push(' '); line.push_str(&op.token()); }

    mark_current(&line);
    // kinds starting with `t` hold tracked non-Copy elements (Fixed does not require Copy)
    let tracked = kind.starts_with('t');
    let ((seen, mut extra), canary_ok) = if tracked {
        registry_reset();
        let out = dispatch::<Tok, _>(&kind[1..], data.to_vec(), FRun { ctor, ops });
        out
    } else {
        dispatch::<i32, _>(kind, data.to_vec(), FRun { ctor, ops })
    };
    if tracked {
        // the buffer, its storage and every returned element are gone by now
        let v = registry_verdict();
        if v.is_empty() { st.oracle_ok(1); }
        extra.extend(v);
        st.count("cases_with_drop_tracked_elements");
    }
    let first0 = match ctor { FCtor::Raw(f) => f, FCtor::From => 0 };
    let valid = first0 < n;
    st.count(&format!("kind_{}", kind));
    st.count(&format!("n_{}", if n <= 5 { n.to_string() } else if n <= 16 { "6-16".into() } else { "17-64".into() }));
    let mut nontrivial = false;
    for (what, e, o) in &extra { st.oracle_fail(what, &line, e, o); }
    let obs = match &seen {
        None => {
            st.count("ctor_panic");
            if valid { st.oracle_fail("constructor rejected a valid state (first < N)", &line, "buffer", "panic"); } else { st.oracle_ok(1); }
            "panic".to_string()
        }
        Some(seen) => {
            if !valid {
                st.oracle_fail("constructor accepted an invalid state (needs first < N, N >= 1)", &line, "panic", "buffer");
            } else {
                let q: VecDeque<i32> = data.iter().cycle().skip(first0).take(n).copied().collect();
                let mut id = IdealD { entered: Some(q.iter().copied().collect()), q, n, first: first0, pushes: 0 };
                let mut n_ok = 0;
                let mut moved = first0 != 0;
                for (k, (op, s)) in ops.iter().zip(seen.iter()).enumerate() {
                    if *s == Seen::Dead { break; }
                    st.count(&format!("op_{}", op.kind()));
                    if *s == Seen::Panic { st.count("op_panic"); }
                    if matches!(op, FOp::Push(_) | FOp::Ext(_) | FOp::First(_)) { moved = true; }
                    match ideal_f(&mut id, op, s) {
                        Ok(()) => n_ok += 1,
                        Err((what, expected)) => {
                            st.oracle_fail(&format!("Fixed op #{} `{}`: {}", k, op.token(), what), &line, &expected, &s.show());
                            break;
                        }
                    }
                }
                if id.pushes > n && id.entered.is_some() { st.count("cases_with_push_history_longer_than_N"); }
                st.oracle_ok(n_ok);
                nontrivial = moved && ops.iter().any(mutating_f);
            }
            seen.iter().map(|s| s.show()).collect::<Vec<_>>().join(" ")
        }
    };
    if !canary_ok { st.oracle_fail("memory outside the backing slice was written", &line, "guard cells untouched", "guard cell changed"); } else if kind.ends_with("mut") { st.oracle_ok(1); }
    st.case(&line, &obs, nontrivial, ops.len() as u64 + 1);
    sync_failures(st);
}

fn alphabet_f(sym: usize, n: usize, v: &mut Vals) -> FOp {
    match sym {
        0 => FOp::Push(v.next()),
        1 => FOp::Gm(1, v.next()),
        2 => FOp::Gm(n + 1, v.next()),
        3 => FOp::First(1),
        4 => FOp::First(2 * n - 1),
        5 => FOp::Ext(v.take(2)),
        6 => FOp::Im(v.take(1)),
        7 => FOp::Sm(v.take(n + 1)),
        _ => unreachable!(),
    }
}
const NSYM_F: usize = 8;

fn run_fixed(a: &Args) {
    open_current(&a.out);
    let mut st = Stream::new(&a.out, "fixed");
    let mut rng = Rng::new(a.seed, "fixed");

    // ---- 1. exhaustive: every (N <= 5, first) x every sequence of `depth` mutating ops
    let depth = if a.thorough() { 5 } else { 4 };
    let mut counter = 0usize;
    for n in 1..=5usize {
        for first in 0..n {
            let data: Vec<i32> = (0..n as i32).map(|i| 11 + i).collect();
            for code in 0..NSYM_F.pow(depth as u32) {
                let mut v = Vals(100);
                let mut ops = vec![];
                obs_block_f(n, &mut ops);
                let mut c = code;
                let mut f = first;
                for _ in 0..depth { let op = alphabet_f(c % NSYM_F, n, &mut v); f = first_after(f, n, &op); ops.push(op); c /= NSYM_F; obs_block_f(n, &mut ops); }
                if a.thorough() || code % 4 == 1 { extreme_block_f(n, f, &mut ops); }
                ops.push(FOp::Data);
                case_f(&mut st, KINDS_F[counter % 8], FCtor::Raw(first), &data, &ops);
                counter += 1;
            }
        }
    }
    st.note(&format!("exhaustive part: all 15 (N<=5,first) states x all {}^{} sequences over the mutating alphabet {{push,get_mut(1),index_mut(N+1),set_first(1),set_first(2N-1),extend(2),iter_mut write 1,slices_mut write N+1}}, every read-only view after every op", NSYM_F, depth));

    // ---- 2. every storage kind (plain and drop-tracked elements) x every state x sequences of length 2, and `From`
    for kind in KINDS_F {
        for n in 1..=5usize {
            let data: Vec<i32> = (0..n as i32).map(|i| 11 + i).collect();
            let mut ctors = vec![FCtor::From];
            for f in 0..n { ctors.push(FCtor::Raw(f)); }
            for ctor in ctors {
                for code in 0..NSYM_F * NSYM_F {
                    let mut v = Vals(100);
                    let mut ops = vec![];
                    let mut f = match ctor { FCtor::Raw(f) => f, FCtor::From => 0 };
                    for sym in [code % NSYM_F, code / NSYM_F] { let op = alphabet_f(sym, n, &mut v); f = first_after(f, n, &op); ops.push(op); obs_block_f(n, &mut ops); }
                    if code % 4 == 0 { extreme_block_f(n, f, &mut ops); }
                    ops.push(FOp::Data);
                    case_f(&mut st, kind, ctor, &data, &ops);
                }
            }
        }
    }

    // ---- 3. delay-line histories: more than N pushes from every small state (push returns the value pushed N earlier)
    for n in 1..=5usize {
        for first in 0..n {
            let data: Vec<i32> = (0..n as i32).map(|i| 11 + i).collect();
            let mut v = Vals(100);
            let mut ops = vec![];
            for k in 0..3 * n + 2 { ops.push(FOp::Push(v.next())); ops.push(FOp::Get(n - 1)); ops.push(FOp::Get(0)); if k % 2 == 0 { ops.push(FOp::Iter); } }
            ops.push(FOp::Data);
            case_f(&mut st, KINDS_F[(n + first) % 8], FCtor::Raw(first), &data, &ops);
            // extreme indices from every small state on every kind
            for kind in KINDS_F {
                let mut ops = vec![];
                let f = extreme_block_f(n, first, &mut ops);
                ops.push(FOp::Push(500));
                extreme_block_f(n, (f + 1) % n, &mut ops);
                ops.push(FOp::Data);
                case_f(&mut st, kind, FCtor::Raw(first), &data, &ops);
            }
        }
    }

    // ---- 4. malformed constructor arguments incl. empty storage
    for kind in KINDS_F {
        for n in 0..=5usize {
            let data: Vec<i32> = (0..n as i32).map(|i| 11 + i).collect();
            for first in n..=n + 2 { case_f(&mut st, kind, FCtor::Raw(first), &data, &[FOp::Len]); }
            if n == 0 { case_f(&mut st, kind, FCtor::From, &data, &[FOp::Len]); }
        }
    }

    // ---- 5. random histories, N <= 64
    let n_rand = if a.thorough() { 60_000 } else { 6_000 };
    // the last two histories are LONG (> 65536 operations on one delay line)
    for it in 0..n_rand + 2 {
        let long = it >= n_rand;
        let n = match rng.below(4) { 0 => 1 + rng.usize_below(5), 1 => 1 + rng.usize_below(8), 2 => 1 + rng.usize_below(16), _ => 1 + rng.usize_below(64) };
        let mut kind = *rng.pick(&KINDS_F);
        if kind.ends_with("arr") && !ARR_SIZES.contains(&n) { kind = *rng.pick(&["vec", "tbox", "tmut", "tvec", "box", "mut"]); }
        let data: Vec<i32> = (0..n).map(|_| rng.range(-50, 50) as i32).collect();
        let ctor = if rng.chance(1, 8) { FCtor::From } else { FCtor::Raw(if rng.chance(1, 4) { n - 1 } else { rng.usize_below(n) }) };
        let mut v = Vals(1000);
        let n_ops = if long { st.count("long_history_gt_65536_ops"); 66_000 + rng.usize_below(500) } else { 1 + rng.usize_below(40) };
        let pushy = rng.chance(1, 3); // pure push histories keep the "N pushes earlier" oracle alive
        let mut ops = vec![];
        let mut f = match ctor { FCtor::Raw(f) => f, FCtor::From => 0 };
        for _ in 0..n_ops {
            let idx = |rng: &mut Rng, f: usize| -> usize { match rng.below(6) { 0 => 0, 1 => n - 1, 2 => n, 3 => rng.usize_below(3 * n + 1), 4 => extreme_index(rng, f, n, n), _ => rng.usize_below(n) } };
            let val = |rng: &mut Rng, v: &mut Vals| -> i32 { if rng.chance(1, 5) { rng.range(-50, 50) as i32 } else { v.next() } };
            let r = if pushy { rng.below(12) } else { rng.below(22) };
            let op = match r {
                0..=5 => FOp::Push(val(&mut rng, &mut v)),
                6 | 7 => FOp::Get(idx(&mut rng, f)),
                8 => FOp::Iter,
                9 => FOp::Loop(rng.usize_below(3 * n + 2)),
                10 => FOp::Slices,
                11 => { let k = rng.usize_below(n.min(6) + 2); FOp::Ext((0..k).map(|_| val(&mut rng, &mut v)).collect()) }
                12 | 13 => FOp::Gm(idx(&mut rng, f), val(&mut rng, &mut v)),
                14 | 15 => FOp::First(idx(&mut rng, f)),
                16 => { let k = rng.usize_below(n + 2); FOp::Im((0..k).map(|_| val(&mut rng, &mut v)).collect()) }
                17 => { let k = rng.usize_below(n + 2); FOp::Sm((0..k).map(|_| val(&mut rng, &mut v)).collect()) }
                18 => FOp::Raw,
                19 => FOp::Len,
                _ => FOp::Push(val(&mut rng, &mut v)),
            };
            f = first_after(f, n, &op);
            ops.push(op);
        }
        ops.extend([FOp::Len, FOp::Iter, FOp::Slices, FOp::Data]);
        case_f(&mut st, kind, ctor, &data, &ops);
    }
    st.exhaustive = false;
    st.finish();
}
