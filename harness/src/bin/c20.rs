//! C20 — window shapes (Hann / Rectangle), the phases a `Window` samples, the `Windower` chunk schedule,
//! its `size_hint`, and `Windowed` = source frame × window frame.
//! Streams: `fn` (window functions on phase grids), `win` (`Window` iterators), `wdr` (windower runs).
//! Every observation is compared with the Lean model (through the .ops/.impl files) and, independently,
//! with oracles written from the property text in plain Vec/f64 arithmetic.
#[path = "../util.rs"]
mod util;
#[path = "../iterproto.rs"]
mod iterproto;
use dasp_frame::Frame;
use dasp_sample::Sample;
use dasp_signal::window::{Window, Windower};
use dasp_window::{Hann, Rectangle, Window as WindowFn};
use std::f64::consts::PI;
use util::*;

fn main() {
    let a = Args::parse();
    match a.stream.as_str() {
        "fn" => run_fn(&a),
        "win" => run_win(&a),
        "wdr" => run_wdr(&a),
        s => { eprintln!("unknown stream {}", s); std::process::exit(2); }
    }
}

/// the property's formula, evaluated in plain f64
fn hann_formula(p: f64) -> f64 { 0.5 * (1.0 - (2.0 * PI * p).cos()) }

// ------------------------------------------------------------------------------------------------ fn
fn run_fn(a: &Args) {
    let mut st = Stream::new(&a.out, "fn");
    let mut rng = Rng::new(a.seed, "fn");
    let grid_n: usize = if a.thorough() { 20_000 } else { 2_000 };
    let mut max_sym = 0.0f64; let mut max_dev = 0.0f64;
    let (mut vmin, mut vmax) = (f64::INFINITY, f64::NEG_INFINITY);
    // f64 phases: uniform grids on [0,1] (several resolutions), random phases, neighbours of 0, 1/2, 1
    let mut phases: Vec<f64> = Vec::new();
    for &n in &[8usize, 10, 1000, grid_n] { for i in 0..=n { phases.push(i as f64 / n as f64); } }
    for _ in 0..grid_n { phases.push(rng.f64_unit()); }
    for c in [0.0f64, 0.25, 0.5, 0.75, 1.0] { for d in -3i64..=3 { let b = c.to_bits() as i64 + d; if c > 0.0 || d >= 0 { phases.push(f64::from_bits(b as u64)); } } }
    for kind in ["hann", "rect"] {
        for chunk in phases.chunks(50) {
            let mut op = format!("fn {} f64", kind);
            let mut obs: Vec<String> = Vec::new();
            let mut nontrivial = false;
            for &p in chunk {
                op.push_str(&format!(" {:016x}", p.to_bits()));
                let v = guarded(|| if kind == "hann" { <Hann as WindowFn<f64>>::window(p) } else { <Rectangle as WindowFn<f64>>::window(p) });
                obs.push(match v { Some(v) => format!("{:016x}", v.to_bits()), None => "panic".into() });
                if (p * 8.0).fract() != 0.0 { nontrivial = true; }
                let Some(v) = v else { st.oracle_fail("window() panicked", &format!("fn {} f64 {:016x}", kind, p.to_bits()), "", "panic"); continue };
                let case = format!("fn {} f64 {:016x}", kind, p.to_bits());
                if kind == "rect" {
                    // "the rectangle window is 1 everywhere"
                    if v != 1.0 { st.oracle_fail("rectangle window is not 1", &case, "1", &v.to_string()); } else { st.oracle_ok(1); }
                } else {
                    // "equals 0.5*(1 - cos(2*pi*p))" (within a few ulp of the f64 evaluation of that formula)
                    let w = hann_formula(p);
                    let dev = (v - w).abs(); if dev > max_dev { max_dev = dev; }
                    if !(dev <= 1e-15) { st.oracle_fail("hann(p) differs from 0.5*(1-cos(2*pi*p)) by more than 1e-15", &case, &format!("{:e}", w), &format!("{:e}", v)); } else { st.oracle_ok(1); }
                    // "lying in [0, 1]"
                    if !(v >= 0.0 && v <= 1.0) { st.oracle_fail("hann(p) outside [0,1]", &case, "[0,1]", &format!("{:e}", v)); } else { st.oracle_ok(1); }
                    if v < vmin { vmin = v; } if v > vmax { vmax = v; }
                    // "symmetric about p = 0.5" (measured natively; the libm/rounding deviation is bounded by 1e-14 here)
                    if p >= 0.0 && p <= 1.0 {
                        let m = <Hann as WindowFn<f64>>::window(1.0 - p);
                        let d = (v - m).abs(); if d > max_sym { max_sym = d; }
                        if !(d <= 1e-14) { st.oracle_fail("hann(p) and hann(1-p) differ by more than 1e-14", &case, &format!("{:e}", m), &format!("{:e}", v)); } else { st.oracle_ok(1); }
                    }
                    // "where it is 1 and 0 at both ends"
                    if p == 0.5 && v != 1.0 { st.oracle_fail("hann(0.5) is not 1", &case, "1", &format!("{:e}", v)); }
                    if (p == 0.0 || p == 1.0) && v != 0.0 { st.oracle_fail("hann at an end is not 0", &case, "0", &format!("{:e}", v)); }
                }
            }
            st.count(&format!("{}_f64_phases", kind));
            st.case(&op, &obs.join(" "), nontrivial, chunk.len() as u64);
        }
    }
    // f32 phases (S = f32: phase widened to f64, result rounded to f32)
    let mut p32: Vec<f32> = Vec::new();
    for i in 0..=1000 { p32.push(i as f32 / 1000.0); }
    for _ in 0..grid_n { p32.push(rng.f64_unit() as f32); }
    for kind in ["hann", "rect"] {
        for chunk in p32.chunks(50) {
            let mut op = format!("fn {} f32", kind);
            let mut obs: Vec<String> = Vec::new();
            for &p in chunk {
                op.push_str(&format!(" {:08x}", p.to_bits()));
                let v = guarded(|| if kind == "hann" { <Hann as WindowFn<f32>>::window(p) } else { <Rectangle as WindowFn<f32>>::window(p) });
                obs.push(match v { Some(v) => format!("{:08x}", v.to_bits()), None => "panic".into() });
                if let Some(v) = v {
                    let want = if kind == "hann" { hann_formula(p as f64) } else { 1.0 };
                    if !((v as f64 - want).abs() <= 1e-7) || !(v >= 0.0 && v <= 1.0) {
                        st.oracle_fail("f32 window value off the formula / outside [0,1]", &format!("fn {} f32 {:08x}", kind, p.to_bits()), &format!("{:e}", want), &format!("{:e}", v));
                    } else { st.oracle_ok(1); }
                }
            }
            st.count(&format!("{}_f32_phases", kind));
            st.case(&op, &obs.join(" "), true, chunk.len() as u64);
        }
    }
    st.note(&format!("measured natively on the f64 phase grid: max |hann(p) - 0.5*(1-cos(2*pi*p))| = {:e}; max |hann(p) - hann(1-p)| over p in [0,1] = {:e}; min/max hann = {:e} / {:e}", max_dev, max_sym, vmin, vmax));
    st.exhaustive = false;
    st.finish();
}

// ------------------------------------------------------------------------------------------------ win
/// VERY LONG windows (lazy: only the first frames are pulled): n beyond 2^16, 2^31, 2^32, 2^40 — the phase step is
/// 1/(n-1) whatever integer width n passes through on the way (oracle only)
fn huge_windows(st: &mut Stream) {
    for &n in &[(1usize << 16) + 1, (1usize << 31) + 1, (1usize << 32) + 9, (1usize << 33) + 1025, (1usize << 40) + 3] {
        let case = format!("Window::<[f64; 1], Hann>::new({}): the first 16 frames", n);
        mark(0, &case);
        let r = guarded(|| { let w: Window<[f64; 1], Hann> = Window::new(n); let mut ph = w.phase.clone(); let vals: Vec<f64> = w.take(16).map(|f| f[0]).collect(); let phs: Vec<f64> = (0..16).map(|_| ph.next_phase()).collect(); (phs, vals) });
        st.count("window_longer_than_2^16");
        match r {
            None => st.oracle_fail("Window panicked", &case, "frames", "panic"),
            Some((phs, vals)) => {
                let mut bad = None;
                for i in 0..16 {
                    let ideal = i as f64 / (n as f64 - 1.0);
                    if (phs[i] - ideal).abs() > 64.0 * f64::EPSILON * ideal.max(f64::MIN_POSITIVE) + 1e-300 { bad = Some(format!("phase {}: {:e}, expected {}/({}-1) = {:e}", i, phs[i], i, n, ideal)); break; }
                    let want = hann_formula(ideal);
                    if (vals[i] - want).abs() > 1e-15 { bad = Some(format!("value {}: {:e}, expected {:e}", i, vals[i], want)); break; }
                }
                match bad { None => st.oracle_ok(32), Some(b) => st.oracle_fail("a very long window does not sample the phases i/(n-1)", &case, "", &b) }
            }
        }
    }
}

fn run_win(a: &Args) {
    let mut st = Stream::new(&a.out, "win");
    huge_windows(&mut st);
    let max_n = if a.thorough() { 2048 } else { 300 };
    let mut max_phase_dev = 0.0f64; let mut max_val_dev = 0.0f64; let mut max_last = 0.0f64;
    for kind in ["hann", "rect"] {
        for n in 2..=max_n {
            if n > 300 && n % 7 != 0 && !(n as u32).is_power_of_two() { continue; }
            let count = n + 2; // two items beyond the window: the phase keeps wrapping
            let r = guarded(|| {
                if kind == "hann" {
                    let w: Window<[f64; 1], Hann> = Window::new(n);
                    let mut ph = w.phase.clone();
                    let vals: Vec<f64> = w.take(count).map(|f| f[0]).collect();
                    let phs: Vec<f64> = (0..count).map(|_| ph.next_phase()).collect();
                    (phs, vals)
                } else {
                    let w: Window<[f64; 1], Rectangle> = Window::new(n);
                    let mut ph = w.phase.clone();
                    let vals: Vec<f64> = w.take(count).map(|f| f[0]).collect();
                    let phs: Vec<f64> = (0..count).map(|_| ph.next_phase()).collect();
                    (phs, vals)
                }
            });
            let op = format!("win {} {} {}", kind, n, count);
            let Some((phs, vals)) = r else { st.oracle_fail("Window panicked", &op, "", "panic"); st.case(&op, "panic", true, 1); continue };
            let obs: Vec<String> = phs.iter().zip(&vals).map(|(p, v)| format!("{:016x}:{:016x}", p.to_bits(), v.to_bits())).collect();
            // "a window of n >= 2 frames samples the phases i/(n-1) for i = 0..n-1" — the code accumulates
            // 1/(n-1) in f64 and wraps modulo 1, so the comparison carries an accumulation tolerance of n ulp
            // and the end point 1 may appear as its representative 0 (mod 1).
            let tol = n as f64 * f64::EPSILON;
            for i in 0..n {
                let ideal = i as f64 / (n as f64 - 1.0);
                let d = if i == n - 1 { phs[i].min((1.0 - phs[i]).abs()) } else { (phs[i] - ideal).abs() };
                if i == n - 1 { if d > max_last { max_last = d; } } else if d > max_phase_dev { max_phase_dev = d; }
                if !(d <= tol) { st.oracle_fail(&format!("phase {} of a window of {} frames is not {}/({}-1) (mod 1)", i, n, i, n), &op, &format!("{:e}", ideal), &format!("{:e}", phs[i])); } else { st.oracle_ok(1); }
                let want = if kind == "hann" { hann_formula(ideal) } else { 1.0 };
                let dv = (vals[i] - want).abs(); if dv > max_val_dev { max_val_dev = dv; }
                if !(dv <= 4.0 * tol + 1e-15) { st.oracle_fail(&format!("window value {} of {} is not the window function at {}/({}-1)", i, n, i, n), &op, &format!("{:e}", want), &format!("{:e}", vals[i])); } else { st.oracle_ok(1); }
                if !(vals[i] >= 0.0 && vals[i] <= 1.0) { st.oracle_fail("window value outside [0,1]", &op, "[0,1]", &format!("{:e}", vals[i])); }
            }
            // the `Window` iterator consumed through nth / skip / step_by / take must hand out the same values
            // as repeated next() (it never ends: no terminal consumers, size_hint must not promise an end)
            if n <= 40 || n % 50 == 0 {
                let long = 8 * (count + 4);
                let mut prng = Rng::new(a.seed ^ n as u64, "win-proto");
                let script = iterproto::gen_script(&mut prng, count, iterproto::Caps { double_ended: false, exact: false, finite: false });
                let got = guarded(|| if kind == "hann" {
                    let reference: Vec<u64> = Window::<[f64; 1], Hann>::new(n).take(long).map(|f| f[0].to_bits()).collect();
                    (reference, iterproto::run_fwd_map(Window::<[f64; 1], Hann>::new(n), &script, |f| f[0].to_bits()))
                } else {
                    let reference: Vec<u64> = Window::<[f64; 1], Rectangle>::new(n).take(long).map(|f| f[0].to_bits()).collect();
                    (reference, iterproto::run_fwd_map(Window::<[f64; 1], Rectangle>::new(n), &script, |f| f[0].to_bits()))
                });
                match got {
                    None => st.oracle_fail(&format!("Window panicked when consumed by {:?}", script), &op, "", "panic"),
                    Some((reference, got)) => match iterproto::check(&reference, &script, &got, false, false).0 {
                        Some((what, e, o)) => st.oracle_fail(&format!("Window: {}", what), &op, &e, &o),
                        None => { st.oracle_ok(script.len() as u64); st.count("iterator_protocol_scripts"); }
                    },
                }
            }
            st.count(&format!("{}_windows", kind));
            st.case(&op, &obs.join(" "), n >= 3, count as u64);
        }
    }
    st.note(&format!("measured: max |phase_i - i/(n-1)| (i < n-1) = {:e}; max distance of the last phase from {{0,1}} = {:e}; max |window value - formula at i/(n-1)| = {:e}", max_phase_dev, max_last, max_val_dev));
    st.exhaustive = false;
    st.finish();
}

// ------------------------------------------------------------------------------------------------ wdr
trait Smp: std::fmt::Debug + Sample + Copy + PartialEq {
    const NAME: &'static str;
    fn show(self) -> String;
    fn random(rng: &mut Rng) -> Self;
    fn as_f64(self) -> f64;
}
impl Smp for i16 {
    const NAME: &'static str = "i16";
    fn show(self) -> String { self.to_string() }
    fn random(rng: &mut Rng) -> Self { if rng.chance(1, 8) { *rng.pick(&[i16::MIN, i16::MAX, 0, 1, -1]) } else { rng.range(-32768, 32767) as i16 } }
    fn as_f64(self) -> f64 { self as f64 }
}
impl Smp for f32 {
    const NAME: &'static str = "f32";
    fn show(self) -> String { format!("{:08x}", self.to_bits()) }
    fn random(rng: &mut Rng) -> Self { let x = (rng.f64_unit() * 2.0 - 1.0) as f32; match rng.below(8) { 0 => x * 8.0, 1 => x * 1000.0, _ => x } }
    fn as_f64(self) -> f64 { self as f64 }
}
impl Smp for f64 {
    const NAME: &'static str = "f64";
    fn show(self) -> String { format!("{:016x}", self.to_bits()) }
    // mostly inside the nominal range, one frame in four well outside it (float frames are not confined to [-1, 1])
    fn random(rng: &mut Rng) -> Self { let x = rng.f64_unit() * 2.0 - 1.0; match rng.below(8) { 0 => x * 8.0, 1 => x * 1000.0, _ => x } }
    fn as_f64(self) -> f64 { self }
}

type Hint = (usize, Option<usize>);
fn show_hint(h: Hint) -> String { match h.1 { Some(u) => format!("H{}:{}", h.0, u), None => format!("H{}:inf", h.0) } }

/// iterate the real windower: size_hint before every next, first `bin` frames of every chunk
fn real_run<S: Smp, const N: usize, W: WindowFn<f64, Output = f64>>(frames: &[[S; N]], bin: usize, hop: usize, cap: usize) -> (Vec<(Hint, Option<Vec<[S; N]>>)>, Vec<usize>) {
    let mut w: Windower<[S; N], W> = Windower::new(frames, bin, hop);
    let mut out = Vec::new();
    let mut left = Vec::new();     // `windower.frames.len()` (a public field) after every chunk: what is left behind
    for _ in 0..cap {
        let h = w.size_hint();
        match w.next() {
            Some(chunk) => { out.push((h, Some(chunk.take(bin).collect()))); left.push(w.frames.len()); }
            None => { out.push((h, None)); break; }
        }
    }
    (out, left)
}

fn one_case<S: Smp, const N: usize, W: WindowFn<f64, Output = f64>>(st: &mut Stream, rng: &mut Rng, kind: &str, l: usize, bin: usize, hop: usize, cap: usize, in_domain: bool) {
    let frames: Vec<[S; N]> = (0..l).map(|_| { let mut f = [S::EQUILIBRIUM; N]; for c in 0..N { f[c] = S::random(rng); } f }).collect();
    let mut op = format!("wdr {} {} {} {} {} {} {}", S::NAME, kind, N, bin, hop, cap, l);
    for f in &frames { for c in 0..N { op.push(' '); op.push_str(&f[c].show()); } }
    mark(0, &op);
    let Some((run, left)) = guarded(|| real_run::<S, N, W>(&frames, bin, hop, cap)) else {
        if in_domain { st.oracle_fail("windower panicked", &op, "", "panic"); }
        st.case(&op, "panic", true, 1); return;
    };
    let obs: Vec<String> = run.iter().enumerate().map(|(i, (h, c))| match c {
        None => format!("{} N", show_hint(*h)),
        Some(fr) => format!("{} C{} R{}", show_hint(*h), fr.iter().flat_map(|f| f.iter().map(|s| s.show())).collect::<Vec<_>>().join(","), left[i]),
    }).collect();
    let n_chunks = run.iter().filter(|r| r.1.is_some()).count();
    let ended = run.last().map(|r| r.1.is_none()).unwrap_or(false);
    if in_domain {
        // ---- oracle, from the property text: bin >= 2, hop >= 1
        let short = if op.len() > 400 { format!("{}…", &op[..400]) } else { op.clone() };
        // "yields exactly floor((L-b)/h)+1 chunks when L >= b and none otherwise"
        let want_chunks = if l >= bin { (l - bin) / hop + 1 } else { 0 }; // (l - bin) / hop <= l: no overflow for any hop >= 1
        if !ended || n_chunks != want_chunks { st.oracle_fail("number of chunks", &short, &want_chunks.to_string(), &format!("{}{}", n_chunks, if ended { "" } else { " (not ended)" })); } else { st.oracle_ok(1); }
        // "the first b frames of chunk k being frames k*h .. k*h+b-1 each scaled by the window value for its position"
        // (a window is only needed when a chunk exists, i.e. bin <= L; bin may be astronomically large otherwise)
        let win: Vec<<[S; N] as Frame>::Float> = if n_chunks > 0 && bin <= l { Window::<<[S; N] as Frame>::Float, W>::new(bin).take(bin).collect() } else { Vec::new() };
        for (k, (_, c)) in run.iter().enumerate() {
            let Some(c) = c else { continue };
            if c.len() != bin { st.oracle_fail(&format!("chunk {} does not have bin frames", k), &short, &bin.to_string(), &c.len().to_string()); continue; }
            for j in 0..bin {
                let idx = (k as u128) * (hop as u128) + j as u128; // frame k*h + j, computed without overflow
                if idx >= l as u128 { st.oracle_fail("chunk reaches beyond the input", &short, "", ""); continue; }
                let src = frames[idx as usize];
                let want: [S; N] = src.mul_amp(win[j]);
                if want != c[j] && !(want.iter().zip(c[j].iter()).all(|(x, y)| x.as_f64().to_bits() == y.as_f64().to_bits())) {
                    st.oracle_fail(&format!("chunk {} frame {} is not frame {} scaled by the window value for position {}", k, j, idx, j), &short,
                        &format!("{:?}", want.iter().map(|s| s.show()).collect::<Vec<_>>()), &format!("{:?}", c[j].iter().map(|s| s.show()).collect::<Vec<_>>()));
                } else { st.oracle_ok(1); }
                // against the closed form, in plain f64 (tolerance: one unit of the format + accumulation of the phase)
                let ideal_w = if kind == "hann" { hann_formula(j as f64 / (bin as f64 - 1.0)) } else { 1.0 };
                for ch in 0..N {
                    let ideal = src[ch].as_f64() * ideal_w;
                    // one unit of the format, plus the accumulated rounding of the f64 phase (bin steps of 1/(bin-1),
                    // each within an ulp; |d hann/dp| <= pi) scaled by the sample's magnitude
                    let acc = 8.0 * bin as f64 * f64::EPSILON * src[ch].as_f64().abs().max(1.0);
                    let mag = src[ch].as_f64().abs().max(1.0);      // float formats: "one unit of the format" is relative to the magnitude
                    let tol = acc + if S::NAME == "i16" { 1.01 } else if S::NAME == "f32" { 3e-7 * mag } else { 1e-14 * mag };
                    if !((c[j][ch].as_f64() - ideal).abs() <= tol) {
                        st.oracle_fail(&format!("chunk {} frame {} channel {} is not source*window(j/(b-1)) within {:e}", k, j, ch, tol), &short, &format!("{:e}", ideal), &format!("{:e}", c[j][ch].as_f64()));
                    } else { st.oracle_ok(1); }
                }
            }
        }
        // "The windower's size hint is consistent with the number of chunks it actually yields"
        for (i, (h, _)) in run.iter().enumerate() {
            let remaining = n_chunks - i.min(n_chunks);
            let ok = h.0 <= remaining && h.1.map(|u| remaining <= u).unwrap_or(true);
            if !ok { st.oracle_fail(&format!("size_hint before next #{} does not bracket the {} chunks still to come", i, remaining), &short, &remaining.to_string(), &show_hint(*h)); } else { st.oracle_ok(1); }
        }
        // every other way of consuming the windower (`nth`, `skip`, `step_by`, `count`, `last`, `fold`,
        // `size_hint` in between) must yield the same chunks: "yields exactly floor((L-b)/h)+1 chunks …
        // the first b frames of chunk k being frames k*h .. k*h+b-1 each scaled by the window value"
        if bin <= l && want_chunks * bin <= 4096 && win.len() == bin {
            let reference: Vec<Vec<[S; N]>> = (0..want_chunks).map(|k| (0..bin).map(|j| frames[k * hop + j].mul_amp(win[j])).collect()).collect();
            for _ in 0..2 {
                let script = iterproto::gen_script(rng, want_chunks, iterproto::Caps { double_ended: false, exact: false, finite: true });
                let got = guarded(|| {
                    let w: Windower<[S; N], W> = Windower::new(&frames, bin, hop);
                    iterproto::run_fwd_map(w, &script, |c| c.take(bin).collect::<Vec<[S; N]>>())
                });
                match got {
                    None => st.oracle_fail(&format!("windower panicked when consumed by {:?}", script), &short, "", "panic"),
                    Some(got) => match iterproto::check(&reference, &script, &got, false, true).0 {
                        Some((what, e, o)) => st.oracle_fail(&format!("windower: {}", what), &short, &e, &o),
                        None => { st.oracle_ok(script.len() as u64); st.count("iterator_protocol_scripts"); }
                    },
                }
            }
        }
        // a chunk (`Windowed`) advanced with nth: frame j of chunk k however it is reached
        if bin <= l && want_chunks >= 1 && win.len() == bin && bin <= 4096 {
            let k = rng.usize_below(want_chunks.min(1 << 20));
            let j = rng.usize_below(bin);
            let got = guarded(|| {
                let mut w: Windower<[S; N], W> = Windower::new(&frames, bin, hop);
                let mut chunk = w.nth(k).expect("chunk exists");
                let a = chunk.nth(j);
                let b = chunk.next();
                (a, b)
            });
            match got {
                None => st.oracle_fail("windower/chunk panicked when advanced with nth", &short, "", "panic"),
                Some((a, b)) => {
                    let wa = Some(frames[k * hop + j].mul_amp(win[j]));
                    let ok_b = j + 1 >= bin || b == Some(frames[k * hop + j + 1].mul_amp(win[j + 1]));
                    if a != wa || !ok_b { st.oracle_fail(&format!("chunk {} advanced with nth({}) then next(): not frames {}.. scaled by the window values for their positions", k, j, k * hop + j), &short, &format!("{:?}", wa), &format!("{:?} then {:?}", a, b)); } else { st.oracle_ok(2); }
                }
            }
        }
        st.count(if l < bin { "L<b" } else if l == bin { "L==b" } else if (l - bin) % hop != 0 { "last_partial_hop" } else { "exact_fit" });
        if hop > l { st.count("h>L"); }
        if hop > usize::MAX - l.max(bin.min(l + 1)) - 1 { st.count("hop_within_L_or_bin_of_usize_MAX"); }
        if bin > l + 1 { st.count("bin_far_above_L"); }
        if hop > bin { st.count("hop>bin(gaps)"); } else if hop < bin { st.count("hop<bin(overlap)"); }
    } else {
        st.count(&format!("out_of_domain_bin{}_hop{}", bin.min(2), hop.min(1)));
    }
    st.count(&format!("{}x{}_{}", S::NAME, N, kind));
    let evals: u64 = run.iter().map(|r| 1 + r.1.as_ref().map(|c| c.len() as u64).unwrap_or(0)).sum();
    st.case(&op, &obs.join(" "), in_domain && l >= bin, evals);
}

/// the windower's public fields `bin` / `hop` reassigned between two `next()` calls (after `k` chunks): from then on the
/// chunk schedule and the window follow the NEW values over the frames that remain — "a windower over L frames with bin
/// size b and hop h …, the first b frames of chunk k … each scaled by the window value for its position"
fn rebin_case<S: Smp, const N: usize, W: WindowFn<f64, Output = f64>>(st: &mut Stream, rng: &mut Rng, kind: &str, l: usize, bin: usize, hop: usize, k: usize, b2: usize, h2: usize) {
    let frames: Vec<[S; N]> = (0..l).map(|_| { let mut f = [S::EQUILIBRIUM; N]; for c in 0..N { f[c] = S::random(rng); } f }).collect();
    let cap = l + 3;
    let mut op = format!("wdr {} {} {} {}@{}:{}:{} {} {} {}", S::NAME, kind, N, bin, k, b2, h2, hop, cap, l);
    for f in &frames { for c in 0..N { op.push(' '); op.push_str(&f[c].show()); } }
    let run = guarded(|| {
        let mut w: Windower<[S; N], W> = Windower::new(&frames, bin, hop);
        let mut out: Vec<(Hint, Option<Vec<[S; N]>>)> = Vec::new();
        let mut left: Vec<usize> = Vec::new();
        for i in 0..cap {
            if i == k { w.bin = b2; w.hop = h2; }
            let h = w.size_hint();
            let b_now = w.bin;
            match w.next() {
                Some(chunk) => { out.push((h, Some(chunk.take(b_now).collect()))); left.push(w.frames.len()); }
                None => { out.push((h, None)); break; }
            }
        }
        (out, left)
    });
    let Some((run, left)) = run else { st.oracle_fail("windower panicked", &op, "", "panic"); st.case(&op, "panic", true, 1); return; };
    let obs: Vec<String> = run.iter().enumerate().map(|(i, (h, c))| match c {
        None => format!("{} N", show_hint(*h)),
        Some(fr) => format!("{} C{} R{}", show_hint(*h), fr.iter().flat_map(|f| f.iter().map(|s| s.show())).collect::<Vec<_>>().join(","), left[i]),
    }).collect();
    // reference: a plain cursor over the frames
    let short = if op.len() > 400 { format!("{}…", &op[..400]) } else { op.clone() };
    let (mut pos, mut b, mut h) = (0usize, bin, hop);
    let mut want: Vec<Option<Vec<[S; N]>>> = Vec::new();
    for i in 0..cap {
        if i == k { b = b2; h = h2; }
        if pos > l || l - pos < b { want.push(None); break; }
        let win: Vec<<[S; N] as Frame>::Float> = Window::<<[S; N] as Frame>::Float, W>::new(b).take(b).collect();
        want.push(Some((0..b).map(|j| frames[pos + j].mul_amp(win[j])).collect()));
        pos = if h < l - pos { pos + h } else { l + 1 };
    }
    let got: Vec<Option<Vec<[S; N]>>> = run.iter().map(|r| r.1.clone()).collect();
    if got != want { st.oracle_fail("chunks after the public fields bin/hop were reassigned do not follow the new bin size, hop and window", &short, &format!("{} chunks", want.iter().filter(|c| c.is_some()).count()), &format!("{} chunks (or different contents)", got.iter().filter(|c| c.is_some()).count())); } else { st.oracle_ok(want.len() as u64); }
    st.count("bin_or_hop_reassigned_mid_iteration");
    let evals: u64 = run.iter().map(|r| 1 + r.1.as_ref().map(|c| c.len() as u64).unwrap_or(0)).sum();
    st.case(&op, &obs.join(" "), true, evals);
}

fn all_formats(st: &mut Stream, rng: &mut Rng, l: usize, bin: usize, hop: usize, cap: usize, in_domain: bool, two: bool) {
    macro_rules! go { ($S:ty, $N:expr) => {{
        one_case::<$S, $N, Hann>(st, rng, "hann", l, bin, hop, cap, in_domain);
        one_case::<$S, $N, Rectangle>(st, rng, "rect", l, bin, hop, cap, in_domain);
    }}; }
    if two { go!(f64, 2); go!(f32, 2); go!(i16, 2); } else { go!(f64, 1); go!(f32, 1); go!(i16, 1); }
}

fn run_wdr(a: &Args) {
    let mut st = Stream::new(&a.out, "wdr");
    let mut rng = Rng::new(a.seed, "wdr");
    // exhaustive over the stated grid: L 0..40 x b 2..9 x h 1..12, three formats, both windows
    for l in 0..=40usize { for bin in 2..=9usize { for hop in 1..=12usize {
        all_formats(&mut st, &mut rng, l, bin, hop, l + 2, true, (l + bin + hop) % 2 == 1);
    }}}
    st.note("exhaustive part: every (L, b, h) in 0..=40 x 2..=9 x 1..=12 for f64/f32/i16 frames (1 or 2 channels by parity of L+b+h) and both windows, random sample values");
    // the public fields reassigned mid-iteration
    for _ in 0..(if a.thorough() { 4000 } else { 400 }) {
        let l = rng.usize_below(48); let bin = 2 + rng.usize_below(8); let hop = 1 + rng.usize_below(9);
        let k = rng.usize_below(4); let b2 = 2 + rng.usize_below(9); let h2 = 1 + rng.usize_below(9);
        match rng.below(4) {
            0 => rebin_case::<f64, 1, Hann>(&mut st, &mut rng, "hann", l, bin, hop, k, b2, h2),
            1 => rebin_case::<f32, 2, Hann>(&mut st, &mut rng, "hann", l, bin, hop, k, b2, h2),
            2 => rebin_case::<i16, 1, Hann>(&mut st, &mut rng, "hann", l, bin, hop, k, b2, h2),
            _ => rebin_case::<f64, 2, Rectangle>(&mut st, &mut rng, "rect", l, bin, hop, k, b2, h2),
        }
    }
    // larger random shapes
    let n_rand = if a.thorough() { 6000 } else { 300 };
    for _ in 0..n_rand {
        let bin = 2 + rng.usize_below(30); let hop = 1 + rng.usize_below(40); let l = rng.usize_below(120);
        st.count("random_larger_shape");
        let two = rng.chance(1, 2);
        all_formats(&mut st, &mut rng, l, bin, hop, l + 2, true, two);
    }
    // EXTREME parameters inside the stated domain (b >= 2, h >= 1): hops at the top of usize, around L and L-b,
    // bins around and far above L; size_hint is taken before the first next() and between all calls.
    let m = usize::MAX;
    let ls: Vec<usize> = if a.thorough() { (0..=24).collect() } else { vec![0, 1, 2, 3, 4, 7, 16] };
    for &l in &ls {
        let mut bins: Vec<usize> = vec![2, 3, l.saturating_sub(1), l, l + 1, l + 2, 2 * l + 3, m, m - 1, m - l, m / 2 + 1, 1usize << 32];
        bins.retain(|&b| b >= 2); bins.sort(); bins.dedup();
        for &bin in &bins {
            let mut hops: Vec<usize> = vec![1, 2, l.saturating_sub(bin.min(l)), l.saturating_sub(bin.min(l)) + 1, l.saturating_sub(1), l, l + 1, l + 2,
                m, m - 1, m - 2, m - bin.min(m - 1), m - bin.min(m - 1) + 1, (m - bin.min(m - 1)).saturating_sub(1), m - l, (m - l).saturating_sub(1), m - l.saturating_sub(bin.min(l)),
                m / 2, m / 2 + 1, m / 2 + 2, 1usize << 32, (1usize << 32) - 1, 1usize << 63];
            hops.retain(|&h| h >= 1); hops.sort(); hops.dedup();
            for &hop in &hops {
                st.count("extreme_parameter_shape");
                all_formats(&mut st, &mut rng, l, bin, hop, l + 2, true, (l + bin % 7 + hop % 5) % 2 == 1);
            }
        }
    }
    // LARGE shapes (thousands of frames / a bin of thousands), a few
    let large: Vec<(usize, usize, usize)> = if a.thorough() { vec![(5000, 2048, 512), (4096, 4096, 1), (6000, 1000, 999), (3000, 3001, 7), (8192, 1024, 1024), (2500, 2, 1)] } else { vec![(5000, 2048, 512), (2100, 2100, 3)] };
    for (l, bin, hop) in large {
        st.count("large_shape");
        one_case::<f64, 1, Hann>(&mut st, &mut rng, "hann", l, bin, hop, l + 2, true);
        one_case::<i16, 2, Hann>(&mut st, &mut rng, "hann", l, bin, hop, l + 2, true);
        one_case::<f32, 1, Rectangle>(&mut st, &mut rng, "rect", l, bin, hop, l + 2, true);
    }
    // outside the property's domain (bin 0/1, hop 0): model comparison only, bounded number of nexts
    for l in 0..=5usize { for bin in 0..=3usize { for hop in 0..=2usize {
        if bin >= 2 && hop >= 1 { continue; }
        all_formats(&mut st, &mut rng, l, bin, hop, 7, false, false);
    }}}
    st.exhaustive = false; // sample values are random
    st.finish();
}
