//! C18 — sinc interpolation: transparent on the sample grid, linear, finite, reset.
//! Streams: `sinc` (direct `Interpolator` calls on `dasp_interpolate::sinc::Sinc` over a `Fixed<Vec<F>>`
//! ring: histories of next_source_frame / interpolate / reset, priming included) and `sconv` (the same
//! interpolator inside `dasp_signal::interpolate::Converter` at ratio 1 and fractional ratios).
//! Every output is compared bit for bit with the Lean model (`Dasp.Sinc.*` at the native-Float instance);
//! the property's own claims are checked by oracles written from its text (tolerances as stated there).
#[path = "../util.rs"]
mod util;
use dasp_frame::Frame;
use dasp_interpolate::sinc::Sinc;
use dasp_interpolate::Interpolator;
use dasp_ring_buffer as ring_buffer;
use dasp_signal::interpolate::Converter;
use dasp_signal::{self as signal, Signal};
use std::cell::Cell;
use std::rc::Rc;
use util::*;

fn main() {
    let a = Args::parse();
    match a.stream.as_str() {
        "sinc" => run_sinc(&a),
        "sconv" => run_sconv(&a),
        s => { eprintln!("unknown stream {}", s); std::process::exit(2); }
    }
}

trait Fr: Frame<Sample = f64> + Copy + PartialEq + 'static {
    fn from_ch(v: &[f64]) -> Self;
    fn chans(&self) -> Vec<f64>;
    fn show(&self) -> String { self.chans().iter().map(|x| format!("{:016x}", x.to_bits())).collect::<Vec<_>>().join(",") }
}
impl Fr for f64 {
    fn from_ch(v: &[f64]) -> Self { v[0] }
    fn chans(&self) -> Vec<f64> { vec![*self] }
}
impl Fr for [f64; 2] {
    fn from_ch(v: &[f64]) -> Self { [v[0], v[1]] }
    fn chans(&self) -> Vec<f64> { self.to_vec() }
}
fn hx(x: f64) -> String { format!("{:016x}", x.to_bits()) }

#[derive(Clone, PartialEq, Debug)]
enum Op { Push(Vec<f64>), Interp(f64), Reset }
fn show_op(o: &Op) -> String {
    match o {
        Op::Push(f) => format!("p{}", f.iter().map(|x| hx(*x)).collect::<Vec<_>>().join(",")),
        Op::Interp(x) => format!("i{}", hx(*x)),
        Op::Reset => "r".into(),
    }
}

fn new_sinc<F: Fr>(ring: &[Vec<f64>]) -> Option<Sinc<Vec<F>>> {
    let data: Vec<F> = ring.iter().map(|f| F::from_ch(f)).collect();
    // the ring may be handed over at any rotation: `first` = a function of the content's length and first value's bits
    let first = if data.is_empty() { 0 } else { (ring.len() * 3 + ring[0].len()) % data.len() };
    guarded(move || { let mut d = data; d.rotate_right(first); Sinc::new(ring_buffer::Fixed::from_raw_parts(first, d)) })
}

/// outputs of the `Interp` operations (None = the constructor panicked)
struct Hist { outs: Vec<Vec<f64>>, op_line: String, obs_line: String }

fn sinc_line(ch: usize, ring: &[Vec<f64>], ops: &[Op]) -> String {
    let mut s = format!("sinc {} {}", ch, ring.len());
    for f in ring { for x in f { s.push(' '); s.push_str(&hx(*x)); } }
    for o in ops { s.push(' '); s.push_str(&show_op(o)); }
    s
}

/// run one history on the real interpolator; `shadow_after_reset`: also check the reset oracle
fn run_hist<F: Fr>(ring: &[Vec<f64>], ops: &[Op], st: &mut Stream) -> Hist {
    let ch = F::CHANNELS;
    let op_line = sinc_line(ch, ring, ops);
    mark(0, &op_line);
    let mut sinc = match new_sinc::<F>(ring) {
        Some(s) => s,
        None => {
            st.count("new_panic");
            if ring.len() % 2 == 0 && !ring.is_empty() { st.oracle_fail("Sinc::new panicked on an even-length ring", &op_line, "an interpolator", "panic"); }
            return Hist { outs: vec![], op_line, obs_line: "panic".into() };
        }
    };
    let n = ring.len();
    let depth = n / 2;
    let zero_pad = ring.iter().all(|f| f.iter().all(|x| *x == 0.0));
    let mut shadow: Option<Sinc<Vec<F>>> = None;           // a fresh zero-padded interpolator, started at the last reset
    let mut outs = Vec::new();
    let mut obs: Vec<String> = Vec::new();
    let mut const_run: usize = 0; let mut const_val: Vec<f64> = vec![];   // pushes of one constant frame since start/reset
    let mut peak = ring.iter().flat_map(|f| f.iter()).fold(0.0f64, |m, x| m.max(x.abs()));
    let mut just_reset = false;
    for o in ops {
        match o {
            Op::Push(f) => {
                sinc.next_source_frame(F::from_ch(f));
                if let Some(sh) = shadow.as_mut() { sh.next_source_frame(F::from_ch(f)); }
                if const_run > 0 && *f == const_val { const_run += 1; } else { const_run = 1; const_val = f.clone(); }
                peak = f.iter().fold(peak, |m, x| m.max(x.abs()));
                just_reset = false;
                obs.push("-".into()); st.count("op_push");
            }
            Op::Reset => {
                sinc.reset();
                shadow = new_sinc::<F>(&vec![vec![0.0; ch]; n]);
                const_run = 0; just_reset = true;
                obs.push("-".into()); st.count("op_reset");
            }
            Op::Interp(x) => {
                let out = sinc.interpolate(*x);
                let oc = out.chans();
                obs.push(out.show()); st.count("op_interp");
                // finite for finite input
                if oc.iter().all(|v| v.is_finite()) { st.oracle_ok(1); } else { st.oracle_fail("non-finite output for finite input", &op_line, "finite", &format!("{:?}", oc)); }
                // reset returns the interpolator to its initial silent state
                if let Some(sh) = shadow.as_ref() {
                    let so = sh.interpolate(*x);
                    if so == out { st.oracle_ok(1); } else { st.oracle_fail("after reset the interpolator differs from a fresh zero-padded one", &op_line, &so.show(), &out.show()); }
                    if just_reset {
                        if oc.iter().all(|v| *v == 0.0) { st.oracle_ok(1); } else { st.oracle_fail("not silent right after reset", &op_line, "0", &format!("{:?}", oc)); }
                    }
                }
                // a constant input is reproduced within 1 % once the whole buffer holds it, depth >= 4
                if depth >= 4 && const_run >= n {
                    let ok = (0..ch).all(|k| (oc[k] - const_val[k]).abs() <= 0.01 * const_val[k].abs());
                    if ok { st.oracle_ok(1); } else { st.oracle_fail("constant input not reproduced within 1% (buffer primed, depth >= 4)", &op_line, &format!("{:?}", const_val), &format!("{:?}", oc)); }
                    st.count("constant_checks");
                }
                // on the sample grid (x = 0) with the buffer primed, the output is the frame `depth` pushes back... that is
                // what ratio-1 conversion observes; checked in stream sconv. Here: x = 0 from zero padding while priming is silent
                let _ = zero_pad;
                outs.push(oc);
            }
        }
    }
    let _ = peak;
    Hist { outs, op_line, obs_line: obs.join(" ") }
}

fn gen_x(rng: &mut Rng) -> f64 {
    match rng.below(4) {
        0 => 0.0,
        1 => rng.below(64) as f64 / 64.0,
        2 => rng.f64_unit(),
        // the band an ulp or a few above the sample grid (what a Converter at ratio 0.8, 0.4, 1.1 ... reaches after a few
        // steps), down to the smallest positive doubles: there sin(PI x) / (PI x) is a quotient of two tiny numbers
        _ => *rng.pick(&[0.5, 0.25, 0.999999999, 1e-9, 0.9999999999999999, 1.0 / 3.0,
                         f64::EPSILON, 2.0 * f64::EPSILON, 1e-15, 7e-16, 1e-18, 1e-100, f64::MIN_POSITIVE, 5e-324, 3e-14, 1.0 - 1e-15]),
    }
}
fn gen_sample(rng: &mut Rng, mode: u64) -> f64 {
    match mode {
        0 => rng.range(-1024, 1024) as f64 / 1024.0,                 // few bits: sums of two are exact
        1 => rng.f64_unit() * 2.0 - 1.0,
        2 => *rng.pick(&[0.0, 1.0, -1.0, 0.5, 1e-300, -1e100, 3.0e10, -0.7]),
        _ => (rng.f64_unit() * 2.0 - 1.0) * 1000.0,
    }
}

fn emit<F: Fr>(ring: &[Vec<f64>], ops: &[Op], nontrivial: bool, st: &mut Stream) -> Hist {
    let h = run_hist::<F>(ring, ops, st);
    st.count(&format!("depth_{:02}", ring.len() / 2));
    st.count(&format!("channels_{}", F::CHANNELS));
    st.case(&h.op_line, &h.obs_line, nontrivial, ops.len() as u64);
    h
}
fn emit_ch(ch: usize, ring: &[Vec<f64>], ops: &[Op], nontrivial: bool, st: &mut Stream) -> Hist {
    if ch == 1 { emit::<f64>(ring, ops, nontrivial, st) } else { emit::<[f64; 2]>(ring, ops, nontrivial, st) }
}

fn run_sinc(a: &Args) {
    let mut st = Stream::new(&a.out, "sinc");
    let mut rng = Rng::new(a.seed, "sinc");
    let max_depth = if a.thorough() { 64 } else { 16 };
    let reps = if a.thorough() { 10 } else { 6 };
    // the assertion of Sinc::new: odd ring lengths
    for n in [1usize, 3, 5, 9] {
        let ring = vec![vec![0.0]; n];
        let h = run_hist::<f64>(&ring, &[Op::Interp(0.5)], &mut st);
        st.count("odd_ring");
        st.case(&h.op_line, &h.obs_line, false, 1);
    }
    for _ in 0..reps {
        for depth in 1..=max_depth {
            let n = 2 * depth;
            for ch in 1..=2usize {
                // ---- mixed histories: priming, interpolation at every stage, resets
                for kind in 0..3u64 {
                    let mode = rng.below(4);
                    let zero = kind != 2;
                    let ring: Vec<Vec<f64>> = (0..n).map(|_| (0..ch).map(|_| if zero { 0.0 } else { gen_sample(&mut rng, mode) }).collect()).collect();
                    let len = 10 + rng.usize_below(50);
                    let mut ops = Vec::new();
                    for _ in 0..len {
                        match rng.below(if kind == 1 { 12 } else { 8 }) {
                            0..=3 => ops.push(Op::Push((0..ch).map(|_| gen_sample(&mut rng, mode)).collect())),
                            4..=7 => ops.push(Op::Interp(gen_x(&mut rng))),
                            8 => ops.push(Op::Reset),
                            _ => ops.push(Op::Interp(gen_x(&mut rng))),
                        }
                    }
                    st.count(match kind { 0 => "kind_mixed", 1 => "kind_mixed_with_reset", _ => "kind_nonzero_padding" });
                    emit_ch(ch, &ring, &ops, true, &mut st);
                }
                // ---- constant input: 2*depth + k pushes of one frame, then interpolation at many x
                {
                    let c: Vec<f64> = (0..ch).map(|_| *rng.pick(&[1.0, -0.5, 0.3, 1000.0, -1e-3, 7.25])).collect();
                    let ring = vec![vec![0.0; ch]; n];
                    let mut ops: Vec<Op> = (0..n + rng.usize_below(4)).map(|_| Op::Push(c.clone())).collect();
                    for _ in 0..24 { ops.push(Op::Interp(gen_x(&mut rng))); if rng.chance(1, 3) { ops.push(Op::Push(c.clone())); } }
                    st.count("kind_constant");
                    emit_ch(ch, &ring, &ops, true, &mut st);
                }
                // ---- linearity: the same operation skeleton on histories A, B, A+B and c*A
                {
                    let len = 12 + rng.usize_below(28);
                    let skeleton: Vec<u8> = (0..len).map(|_| if rng.chance(3, 5) { 0 } else { 1 }).collect();
                    let xs: Vec<f64> = (0..len).map(|_| gen_x(&mut rng)).collect();
                    let fa: Vec<Vec<f64>> = (0..len + n).map(|_| (0..ch).map(|_| gen_sample(&mut rng, 0)).collect()).collect();
                    let fb: Vec<Vec<f64>> = (0..len + n).map(|_| (0..ch).map(|_| gen_sample(&mut rng, 0)).collect()).collect();
                    let scale = *rng.pick(&[2.0, -0.5, 3.0, 0.1, -7.5]);
                    let build = |f: &dyn Fn(usize, usize) -> f64| -> (Vec<Vec<f64>>, Vec<Op>) {
                        let ring: Vec<Vec<f64>> = (0..n).map(|i| (0..ch).map(|k| f(i, k)).collect()).collect();
                        let ops: Vec<Op> = (0..len).map(|j| if skeleton[j] == 0 { Op::Push((0..ch).map(|k| f(n + j, k)).collect()) } else { Op::Interp(xs[j]) }).collect();
                        (ring, ops)
                    };
                    let (ra, oa) = build(&|i, k| fa[i][k]);
                    let (rb, ob) = build(&|i, k| fb[i][k]);
                    let (rs, os) = build(&|i, k| fa[i][k] + fb[i][k]);      // exact: 11-bit dyadic values
                    let (rc, oc) = build(&|i, k| scale * fa[i][k]);
                    st.count("kind_linearity_group");
                    let ha = emit_ch(ch, &ra, &oa, true, &mut st);
                    let hb = emit_ch(ch, &rb, &ob, true, &mut st);
                    let hs = emit_ch(ch, &rs, &os, true, &mut st);
                    let hc = emit_ch(ch, &rc, &oc, true, &mut st);
                    // |inputs| <= 2 (<= 7.5 scaled), at most 2*depth taps of weight <= 1 each: rounding allowance
                    let tol = 1e-13 * (n as f64) * 8.0;
                    for j in 0..ha.outs.len() {
                        for k in 0..ch {
                            let sum = ha.outs[j][k] + hb.outs[j][k];
                            if (hs.outs[j][k] - sum).abs() <= tol { st.oracle_ok(1); }
                            else { st.oracle_fail("superposition: out(A+B) differs from out(A)+out(B) beyond rounding", &hs.op_line, &format!("{:e}", sum), &format!("{:e}", hs.outs[j][k])); }
                            let sc = scale * ha.outs[j][k];
                            if (hc.outs[j][k] - sc).abs() <= tol { st.oracle_ok(1); }
                            else { st.oracle_fail("scaling: out(c*A) differs from c*out(A) beyond rounding", &hc.op_line, &format!("{:e}", sc), &format!("{:e}", hc.outs[j][k])); }
                        }
                    }
                }
            }
        }
    }
    // ---- large depths on the grid: worst-case sign pattern for the measured on-grid impulse response
    let deep: &[usize] = if a.thorough() { &[512, 1024, 2048] } else { &[1024] };
    for &d in deep { deep_grid(d, &mut rng, &mut st); }
    st.note("large depths (quick: 1024; thorough: 512, 1024, 2048): the on-grid impulse response of the primed interpolator is measured through interpolate(0) (by the property's linearity the worst full-scale input for the delay claim is the +-1 pattern aligned with its signs), then that pattern, an all-ones, an alternating and a random +-1 history are pushed and interpolate(0) must return the frame `depth` pushes back within 1e-12*peak");
    st.note("oracles (no model involved): every output finite; after reset every output equals that of a fresh zero-padded interpolator driven by the same subsequent operations and is exactly 0 right after the reset; once 2*depth equal frames have been pushed and depth >= 4, every output is within 1% of that frame; out(A+B) = out(A)+out(B) and out(c*A) = c*out(A) within 8e-13*len (rounding) on op-for-op identical histories");
    st.finish();
}

/// depth `d`, mono f64: `2d` pushes then `interpolate(0.0)` must return the frame pushed `d` pushes before the last one
/// (what a ratio-1 converter emits) within 1e-12*peak, for the sign pattern that is worst for the measured response
fn deep_grid(d: usize, rng: &mut Rng, st: &mut Stream) {
    let n = 2 * d;
    let zero_ring = vec![vec![0.0f64]; n];
    // measured on-grid response: prime with zeros, push a unit impulse, h[k] = interpolate(0) after k further zero pushes
    let mut sinc = new_sinc::<f64>(&zero_ring).expect("even ring");
    for _ in 0..n { sinc.next_source_frame(0.0); }
    sinc.next_source_frame(1.0);
    let mut h = Vec::with_capacity(n);
    for _ in 0..n { h.push(sinc.interpolate(0.0)); sinc.next_source_frame(0.0); }
    st.evaluations += 2 * n as u64;
    if h.iter().all(|v| v.is_finite()) { st.oracle_ok(1); } else { st.oracle_fail("non-finite on-grid impulse response", &format!("sinc depth {} impulse", d), "finite", "non-finite"); }
    let leak: f64 = h.iter().enumerate().filter(|(k, _)| *k != d - 1).map(|(_, v)| v.abs()).sum();
    st.note(&format!("depth {}: measured on-grid response: centre {:e}, sum of |off-centre taps| {:e}", d, h[d - 1], leak));
    // the impulse sits at ring index n-1-k after k pushes; after n pushes ring index i holds push number i
    let aligned: Vec<f64> = (0..n).map(|i| if h[n - 1 - i] < 0.0 { -1.0 } else { 1.0 }).collect();
    let ones: Vec<f64> = vec![1.0; n];
    let alt: Vec<f64> = (0..n).map(|i| if i % 2 == 0 { 1.0 } else { -1.0 }).collect();
    let rnd: Vec<f64> = (0..n).map(|_| if rng.chance(1, 2) { 1.0 } else { -1.0 }).collect();
    for (name, xs) in [("aligned", aligned), ("ones", ones), ("alternating", alt), ("random", rnd)] {
        let mut ops: Vec<Op> = xs.iter().map(|x| Op::Push(vec![*x])).collect();
        ops.push(Op::Interp(0.0));
        ops.push(Op::Interp(0.5));
        let hist = emit::<f64>(&zero_ring, &ops, true, st);
        st.count(&format!("deep_{}_{}", d, name));
        let out = hist.outs[0][0];
        let want = xs[d];                                   // n pushes, delay d: push number n - d
        if (out - want).abs() <= 1e-12 { st.oracle_ok(1); }
        else { st.oracle_fail(&format!("depth {}: on the grid the output is not the frame `depth` pushes back within 1e-12*peak ({} +-1 history of {} pushes, then interpolate(0))", d, name, n), &hist.op_line, &format!("{:e}", want), &format!("{:e} (error {:e})", out, (out - want).abs())); }
    }
}

// ---------------------------------------------------------------- through the converter

struct Counted<S> { inner: S, pulls: Rc<Cell<u64>> }
impl<S: Signal> Signal for Counted<S> {
    type Frame = S::Frame;
    fn next(&mut self) -> S::Frame { self.pulls.set(self.pulls.get() + 1); self.inner.next() }
    fn is_exhausted(&self) -> bool { self.inner.is_exhausted() }
}

/// `sconv <ch> <N> <zero ring> p<ratio> <L> <frames> o…` : n outputs at a constant ratio
fn conv_case<F: Fr>(depth: usize, ratio: f64, src: &[Vec<f64>], nout: usize, st: &mut Stream) {
    let ch = F::CHANNELS; let n = 2 * depth;
    let mut op_line = format!("sconv {} {}", ch, n);
    for _ in 0..n * ch { op_line.push_str(" 0000000000000000"); }
    op_line.push_str(&format!(" p{} {}", hx(ratio), src.len()));
    for f in src { for x in f { op_line.push(' '); op_line.push_str(&hx(*x)); } }
    for _ in 0..nout { op_line.push_str(" o"); }
    let pulls = Rc::new(Cell::new(0u64));
    let frames: Vec<F> = src.iter().map(|f| F::from_ch(f)).collect();
    let source = Counted { inner: signal::from_iter(frames.clone().into_iter()), pulls: pulls.clone() };
    let sinc = Sinc::new(ring_buffer::Fixed::from_raw_parts((src.len() + nout) % n.max(1), vec![F::EQUILIBRIUM; n]));
    let mut conv = Converter::scale_playback_hz(source, sinc, ratio);
    let peak = src.iter().flat_map(|f| f.iter()).fold(0.0f64, |m, x| m.max(x.abs()));
    let mut obs = Vec::new();
    for j in 0..nout {
        let exh = conv.is_exhausted();
        let out = conv.next();
        let oc = out.chans();
        obs.push(format!("{}/{}/{}", exh as u8, out.show(), pulls.get()));
        if oc.iter().all(|v| v.is_finite()) { st.oracle_ok(1); } else { st.oracle_fail("non-finite output for finite input", &op_line, "finite", &format!("{:?}", oc)); }
        if ratio == 1.0 {
            // ratio exactly 1 from zero padding: the source delayed by exactly `depth` frames, within 1e-12 of the peak
            let want: Vec<f64> = if j < depth { vec![0.0; ch] } else if j - depth < src.len() { src[j - depth].clone() } else { vec![0.0; ch] };
            let ok = (0..ch).all(|k| (oc[k] - want[k]).abs() <= 1e-12 * peak);
            if ok { st.oracle_ok(1); } else { st.oracle_fail(&format!("ratio 1, depth {}: output {} is not source[{}-depth] within 1e-12*peak", depth, j, j), &op_line, &format!("{:?}", want), &format!("{:?}", oc)); }
        }
    }
    st.count(&format!("depth_{:02}", depth));
    st.count(if ratio == 1.0 { "ratio_one" } else { "ratio_fractional" });
    st.case(&op_line, &obs.join(" "), true, 2 * nout as u64);
}

fn run_sconv(a: &Args) {
    let mut st = Stream::new(&a.out, "sconv");
    let mut rng = Rng::new(a.seed, "sconv");
    let reps = if a.thorough() { 6 } else { 1 };
    for _ in 0..reps {
        for depth in 1..=64usize {
            // ratio exactly 1 for every depth 1..64 (the property's delay claim)
            for ch in 1..=2usize {
                let mode = rng.below(4);
                let len = rng.usize_below(40) + if depth > 32 { 8 } else { 1 };
                let src: Vec<Vec<f64>> = (0..len).map(|_| (0..ch).map(|_| gen_sample(&mut rng, mode)).collect()).collect();
                let nout = (len + depth + 3).min(if depth > 16 { 90 } else { 60 });
                if ch == 1 { conv_case::<f64>(depth, 1.0, &src, nout, &mut st) } else { conv_case::<[f64; 2]>(depth, 1.0, &src, nout, &mut st) }
            }
            // fractional ratios (depths 1..16 quick, all in thorough)
            if depth <= 16 || a.thorough() {
                for _ in 0..2 {
                    let ch = 1 + rng.usize_below(2);
                    let mode = rng.below(4);
                    let ratio = match rng.below(4) { 0 => (1 + rng.below(128)) as f64 / 64.0, 1 => *rng.pick(&[0.1, 1.0 / 3.0, 44100.0 / 48000.0, 48000.0 / 44100.0, 2.9]), 2 => 0.05 + rng.f64_unit() * 3.0, _ => 0.5 };
                    let len = rng.usize_below(41);
                    let src: Vec<Vec<f64>> = (0..len).map(|_| (0..ch).map(|_| gen_sample(&mut rng, mode)).collect()).collect();
                    let nout = 20 + rng.usize_below(30);
                    if ch == 1 { conv_case::<f64>(depth, ratio, &src, nout, &mut st) } else { conv_case::<[f64; 2]>(depth, ratio, &src, nout, &mut st) }
                }
            }
        }
    }
    // ---- integer sample formats: not modelled (the Lean model covers f64 frames), oracle-checked only
    let ireps = if a.thorough() { 12 } else { 2 };
    for _ in 0..ireps {
        for depth in [1usize, 2, 3, 4, 5, 8, 16] {
            int_all(depth, &mut rng, &mut st);
        }
    }
    if a.thorough() { for depth in [32usize, 64] { int_all(depth, &mut rng, &mut st); } }
    // probe (recorded, not alarmed; outside the in-range domain the oracles stay in): i64 samples AT the rails
    {
        let src = vec![i64::MAX, i64::MAX, i64::MIN, i64::MAX];
        let r = guarded(|| {
            let sinc = Sinc::new(ring_buffer::Fixed::from(vec![0i64; 8]));
            let mut conv = Converter::scale_playback_hz(signal::from_iter(src.clone().into_iter()), sinc, 1.0);
            (0..10).map(|_| conv.next()).collect::<Vec<i64>>()
        });
        let wrapped = match &r { None => true, Some(o) => (0..4).any(|j| (o[j + 4] as i128 - src[j] as i128).abs() > (1 << 24)) };
        st.count(if wrapped { "probe_i64_rail_overflow_reproduced" } else { "probe_i64_rail_overflow_not_reproduced" });
        // listed in /verif/known_findings.json (C18-i64-rail-overflow): reported as a KNOWN-FINDING, never as a new violation
        if wrapped { st.known_hit("C18-i64-rail-overflow", "sinc depth 4 ratio 1 i64 frames [MAX, MAX, MIN, MAX]", &format!("{:?}", r)); }
        st.note(&format!("probe: i64 frames at i64::MAX/MIN, depth 4, ratio 1: {} (the residual off-centre taps, ~1e-16 of full scale = hundreds of LSB for i64, are added in i64 and overflow at the rails: wraps in release, panics with overflow checks); observed {:?}", if wrapped { "integer accumulation overflowed" } else { "no overflow" }, r));
    }
    st.note("integer sample formats (i16, I24, i32, u32, i64; mono and stereo; 32/64-bit values with more than 24 significant bits) are NOT modelled in Lean; they are oracle-checked only (no request lines): at ratio exactly 1 from equilibrium padding (i64 values kept 2^24 LSB away from the rails, see the probe note) output j is within 1e-12*peak (peak amplitude in LSB from equilibrium, i.e. exactly for formats of at most 32 bits) of source[j-depth]; on op-for-op identical histories out(A+B) = out(A)+out(B) and out(2A) = 2 out(A) within one LSB per tap and run (plus the f64 conversion error 2^12 LSB per tap for i64), amplitudes at most 1/16 of full scale so that no integer addition overflows; a constant of 1/4 full scale is reproduced within 1% + one LSB per tap once 2*depth frames are buffered, depth >= 4");
    st.note("oracles (no model involved): every output finite; at ratio exactly 1 from zero padding output j is within 1e-12*peak of source[j-depth] (0 for j < depth and past the end) for every depth 1..64");
    st.finish();
}

// ---------------------------------------------------------------- integer sample formats (oracle only)

trait IFr: Frame + Copy + PartialEq + 'static {
    const NAME: &'static str;
    const LO: i128;
    const HI: i128;
    /// error of one tap in LSB: < 1 for the truncating conversion; i64 adds the f64 roundings of the tap
    const TAP: i128;
    /// distance kept from the rails in the on-grid test: 0 except for i64, where the residual off-centre taps
    /// (~1e-16 of full scale = hundreds of LSB) make the integer accumulation overflow at the very rails - see the probe
    const RAIL_MARGIN: i128 = 0;
    fn mk(v: &[i128]) -> Self;
    fn vals(&self) -> Vec<i128>;
}
macro_rules! ifr {
    ($T:ty, $name:expr, $tap:expr, $margin:expr) => {
        impl IFr for $T {
            const NAME: &'static str = $name; const LO: i128 = <$T>::MIN as i128; const HI: i128 = <$T>::MAX as i128; const TAP: i128 = $tap; const RAIL_MARGIN: i128 = $margin;
            fn mk(v: &[i128]) -> Self { v[0] as $T }
            fn vals(&self) -> Vec<i128> { vec![*self as i128] }
        }
        impl IFr for [$T; 2] {
            const NAME: &'static str = $name; const LO: i128 = <$T>::MIN as i128; const HI: i128 = <$T>::MAX as i128; const TAP: i128 = $tap; const RAIL_MARGIN: i128 = $margin;
            fn mk(v: &[i128]) -> Self { [v[0] as $T, v[1] as $T] }
            fn vals(&self) -> Vec<i128> { vec![self[0] as i128, self[1] as i128] }
        }
    };
}
ifr!(i16, "i16", 1, 0);
ifr!(i32, "i32", 1, 0);
ifr!(u32, "u32", 1, 0);
ifr!(i64, "i64", 4096, 1 << 24);
use dasp_sample::I24;
impl IFr for I24 {
    const NAME: &'static str = "i24"; const LO: i128 = -8_388_608; const HI: i128 = 8_388_607; const TAP: i128 = 1;
    fn mk(v: &[i128]) -> Self { I24::new(v[0] as i32).expect("in range") }
    fn vals(&self) -> Vec<i128> { vec![self.inner() as i128] }
}
impl IFr for [I24; 2] {
    const NAME: &'static str = "i24"; const LO: i128 = -8_388_608; const HI: i128 = 8_388_607; const TAP: i128 = 1;
    fn mk(v: &[i128]) -> Self { [I24::new(v[0] as i32).expect("in range"), I24::new(v[1] as i32).expect("in range")] }
    fn vals(&self) -> Vec<i128> { vec![self[0].inner() as i128, self[1].inner() as i128] }
}

fn int_all(depth: usize, rng: &mut Rng, st: &mut Stream) {
    int_fmt::<i16>(depth, rng, st); int_fmt::<[i16; 2]>(depth, rng, st);
    int_fmt::<I24>(depth, rng, st); int_fmt::<[I24; 2]>(depth, rng, st);
    int_fmt::<i32>(depth, rng, st); int_fmt::<[i32; 2]>(depth, rng, st);
    int_fmt::<u32>(depth, rng, st); int_fmt::<[u32; 2]>(depth, rng, st);
    int_fmt::<i64>(depth, rng, st); int_fmt::<[i64; 2]>(depth, rng, st);
}

fn show_int_frames(fs: &[Vec<i128>]) -> String {
    fs.iter().map(|f| f.iter().map(|v| v.to_string()).collect::<Vec<_>>().join(",")).collect::<Vec<_>>().join(" ")
}

fn int_fmt<F: IFr>(depth: usize, rng: &mut Rng, st: &mut Stream)
where F::Sample: dasp_sample::Duplex<f64> {
    let ch = F::CHANNELS; let n = 2 * depth;
    let mid = (F::LO + F::HI + 1) / 2; let half = F::HI - mid;
    st.count(&format!("int_{}x{}", F::NAME, ch));
    // ---- (1) ratio exactly 1 through the Converter, full-range values (more than 24 significant bits for 32/64-bit formats)
    {
        let mode = rng.below(3);
        let len = 1 + rng.usize_below(24);
        let src: Vec<Vec<i128>> = (0..len).map(|i| (0..ch).map(|k| match mode {
            0 => rng.range_i128(F::LO, F::HI),
            1 => *rng.pick(&[F::HI, F::LO, F::HI - 3, F::LO + 3, mid + 1, mid - 1, mid + half / 3, mid - half / 7 * 5, mid + 1_000_000_007 % (half + 1), mid - 16_777_217 % (half + 1)]),
            _ => mid + (if k == 1 { -1 } else { 1 }) * (((i as i128 + 1) * 1_000_000_007) % (half + 1)),
        }.max(F::LO + F::RAIL_MARGIN).min(F::HI - F::RAIL_MARGIN)).collect()).collect();
        let case = format!("sinc in a Converter at ratio 1, {} x{} frames, depth {}, equilibrium padding, source: {}", F::NAME, ch, depth, show_int_frames(&src));
        let frames: Vec<F> = src.iter().map(|f| F::mk(f)).collect();
        let sinc = Sinc::new(ring_buffer::Fixed::from(vec![F::EQUILIBRIUM; n]));
        let mut conv = Converter::scale_playback_hz(signal::from_iter(frames.into_iter()), sinc, 1.0);
        let peak = src.iter().flat_map(|f| f.iter()).map(|v| (v - mid).abs()).max().unwrap_or(0) as f64;
        let eqv = F::EQUILIBRIUM.vals();
        for j in 0..len + depth + 2 {
            let out = conv.next().vals();
            let want: Vec<i128> = if j >= depth && j - depth < len { src[j - depth].clone() } else { eqv.clone() };
            let ok = (0..ch).all(|k| ((out[k] - want[k]).abs() as f64) <= 1e-12 * peak);
            if ok { st.oracle_ok(1); } else { st.oracle_fail(&format!("ratio 1, depth {}: output {} is not source[{}-depth] within 1e-12*peak", depth, j, j), &case, &format!("{:?}", want), &format!("{:?}", out)); }
            st.evaluations += 1;
        }
    }
    // ---- (2) superposition and scaling on op-for-op identical histories (direct Interpolator calls)
    {
        let len = 10 + rng.usize_below(20);
        let amp = half / 16;
        let skeleton: Vec<bool> = (0..len).map(|_| rng.chance(3, 5)).collect();
        let xs: Vec<f64> = (0..len).map(|_| gen_x(rng)).collect();
        let fa: Vec<Vec<i128>> = (0..len + n).map(|_| (0..ch).map(|_| rng.range_i128(-amp, amp)).collect()).collect();
        let fb: Vec<Vec<i128>> = (0..len + n).map(|_| (0..ch).map(|_| rng.range_i128(-amp, amp)).collect()).collect();
        let run = |f: &dyn Fn(usize, usize) -> i128| -> Vec<Vec<i128>> {
            let ring: Vec<F> = (0..n).map(|i| F::mk(&(0..ch).map(|k| mid + f(i, k)).collect::<Vec<_>>())).collect();
            let mut s = Sinc::new(ring_buffer::Fixed::from(ring));
            let mut outs = Vec::new();
            for j in 0..len {
                if skeleton[j] { s.next_source_frame(F::mk(&(0..ch).map(|k| mid + f(n + j, k)).collect::<Vec<_>>())); }
                else { outs.push(s.interpolate(xs[j]).vals().iter().map(|v| v - mid).collect()); }
            }
            outs
        };
        let oa = run(&|i, k| fa[i][k]);
        let ob = run(&|i, k| fb[i][k]);
        let os = run(&|i, k| fa[i][k] + fb[i][k]);
        let o2 = run(&|i, k| 2 * fa[i][k]);
        st.evaluations += 4 * len as u64;
        let tol = 3 * n as i128 * F::TAP + 2;
        let case = format!("sinc {} x{} depth {}: histories A, B, A+B, 2A (amplitudes from equilibrium) over ring+pushes A = {} | B = {} | skeleton (push=1) {} | x = {:?}", F::NAME, ch, depth, show_int_frames(&fa), show_int_frames(&fb), skeleton.iter().map(|b| if *b { '1' } else { '0' }).collect::<String>(), xs);
        for j in 0..oa.len() {
            for k in 0..ch {
                if (os[j][k] - (oa[j][k] + ob[j][k])).abs() <= tol { st.oracle_ok(1); }
                else { st.oracle_fail(&format!("superposition beyond one LSB per tap (interpolation {})", j), &case, &format!("{}", oa[j][k] + ob[j][k]), &format!("{}", os[j][k])); }
                if (o2[j][k] - 2 * oa[j][k]).abs() <= tol { st.oracle_ok(1); }
                else { st.oracle_fail(&format!("scaling by 2 beyond one LSB per tap (interpolation {})", j), &case, &format!("{}", 2 * oa[j][k]), &format!("{}", o2[j][k])); }
            }
        }
    }
    // ---- (3) constant input once the buffer is primed, depth >= 4
    if depth >= 4 {
        let c: Vec<i128> = (0..ch).map(|k| if k == 1 { -(half / 4) } else { half / 4 + 12345 % (half / 8 + 1) }).collect();
        let mut s = Sinc::new(ring_buffer::Fixed::from(vec![F::EQUILIBRIUM; n]));
        for _ in 0..n + 1 { s.next_source_frame(F::mk(&c.iter().map(|v| mid + v).collect::<Vec<_>>())); }
        for _ in 0..8 {
            let x = gen_x(rng);
            let out: Vec<i128> = s.interpolate(x).vals().iter().map(|v| v - mid).collect();
            st.evaluations += 1;
            let ok = (0..ch).all(|k| ((out[k] - c[k]).abs() as f64) <= 0.01 * (c[k].abs() as f64) + (n as i128 * F::TAP) as f64);
            if ok { st.oracle_ok(1); } else { st.oracle_fail("constant input not reproduced within 1% + one LSB per tap (buffer primed, depth >= 4)", &format!("sinc {} x{} depth {}: {} pushes of amplitude {:?}, interpolate({:e})", F::NAME, ch, depth, n + 1, c, x), &format!("{:?}", c), &format!("{:?}", out)); }
        }
    }
}
