//! C08 — rate converter: positions and consumes source frames exactly by the rate ratio.
//! Stream `conv`: the real `dasp_signal::interpolate::Converter` / `MulHz` over an instrumented
//! `signal::from_iter` source with `Floor` / `Linear` interpolators, f64 and i16 frames (mono, stereo);
//! compared bit for bit with the Lean model (`Dasp.Conv.*` at the native-Float instance) and,
//! independently, with oracles written from the property text in exact integer arithmetic
//! (source position P_n as an integer multiple of 2^-60).
#[path = "../util.rs"]
mod util;
use dasp_frame::Frame;
use dasp_interpolate::floor::Floor;
use dasp_interpolate::linear::Linear;
use dasp_interpolate::Interpolator;
use dasp_signal::interpolate::Converter;
use dasp_signal::{self as signal, Signal};
use std::cell::{Cell, RefCell};
use std::collections::VecDeque;
use std::rc::Rc;
use util::*;

/// SLOW GLIDE: the playback ratio creeps by 2^-36 per output (r_k = 1/2 + k 2^-36: every ratio, every partial sum and
/// every accumulator value is an exact dyadic, so P_n is known exactly) for 2^21 outputs through `mul_hz` and through
/// `set_playback_hz_scale`. Whatever a converter does to avoid "redundant" ratio updates, position P_n = r_0 + .. + r_(n-1)
/// must hold: the floor output is source frame floor(P_n) and exactly floor(P_n) frames were pulled (oracle only).
fn slow_glide(st: &mut Stream) {
    const N: u64 = 1 << 21;
    const D: u32 = 36;
    for via_mul_hz in [true, false] {
        let case = format!("slow glide: floor interpolator over the ramp 0,1,2,.. ; ratio r_k = 1/2 + k*2^-{} set before output k via {}, {} outputs", D, if via_mul_hz { "mul_hz" } else { "set_playback_hz_scale" }, N);
        mark(0, &case);
        let pulls = Rc::new(Cell::new(0u64));
        let len = (N / 2 + (N * N >> (D + 1)) + 8) as usize;
        let mut src = Counted { inner: signal::from_iter((0..len as i32).map(|i| [i])), pulls: pulls.clone() };
        let first = src.next();
        let ratio = |k: u64| 0.5 + k as f64 / (1u64 << D) as f64;
        let mut bad: Option<String> = None;
        let mut p: u128 = 0;                                   // P_n in units of 2^-60
        let mut check = |n: u64, frame: [i32; 1], p: u128| -> Option<String> {
            let fl = (p >> 60) as i32;
            if frame[0] != fl || pulls.get() != 1 + fl as u64 { Some(format!("output {}: frame {} after {} pulls, expected source frame floor(P_n) = {} after {} pulls", n, frame[0], pulls.get(), fl, 1 + fl as u64)) } else { None }
        };
        if via_mul_hz {
            let mut k = 0u64;
            let control = signal::gen_mut(move || { let r = ratio(k); k += 1; r });
            let mut s = src.mul_hz(Floor::new(first), control);
            for n in 0..N { let f = s.next(); if bad.is_none() { bad = check(n, f, p); } p += (ratio(n) * (1u128 << 60) as f64) as u128; }
        } else {
            let mut c = Converter::scale_playback_hz(src, Floor::new(first), 0.5);
            for n in 0..N { c.set_playback_hz_scale(ratio(n)); let f = c.next(); if bad.is_none() { bad = check(n, f, p); } p += (ratio(n) * (1u128 << 60) as f64) as u128; }
        }
        st.count("slow_glide_2^21_outputs");
        match bad { None => st.oracle_ok(N), Some(b) => st.oracle_fail("slowly gliding ratio: the converter's position is not the sum of the ratios in effect", &case, "", &b) }
    }
}

/// COMPOSITION: a converter does not care what delivers its source frames. The same frames through transparent
/// carriers — `buffered` over a rotated ring buffer, a single bus output, `delay(0)`, `by_ref` — and then through the
/// converter (linear and floor, several ratios) and on through `rms` and `detect_envelope` adaptors must give the very
/// frames of the converter over the plain source (oracle only)
fn compositions(st: &mut Stream, rng: &mut Rng) {
    use dasp_ring_buffer as ring_buffer;
    use dasp_signal::bus::SignalBus;
    use dasp_signal::envelope::SignalEnvelope;
    use dasp_signal::rms::SignalRms;
    for round in 0..40usize {
        let len = 3 + rng.usize_below(40);
        let src: Vec<[f64; 1]> = (0..len).map(|i| [((i * 37 + round) % 64) as f64 / 32.0 - 1.0]).collect();
        let ratio = *rng.pick(&[0.5, 1.0, 1.5, 0.75, 2.0, 1.0 / 3.0, 0.8, 2.5]);
        let cap = 1 + rng.usize_below(9);
        let start = rng.usize_below(cap);
        let n = ((len as f64 / ratio) as usize).min(200) + 4;
        let case = format!("source {:?}, ratio {}, buffered capacity {} at start {}", src, ratio, cap, start);
        mark(0, &case);
        let r = guarded(|| {
            let mut plain = signal::from_iter(src.clone());
            let (a, b) = (plain.next(), plain.next());
            let lin: Vec<[f64; 1]> = plain.scale_hz(Linear::new(a, b), ratio).take(n).collect();
            let mut carried = signal::from_iter(src.clone()).buffered(ring_buffer::Bounded::from_raw_parts(start, 0, vec![[9.0f64]; cap])).bus().send().delay(0);
            let (a2, b2) = (carried.next(), carried.next());
            let lin2: Vec<[f64; 1]> = Signal::by_ref(&mut carried).scale_hz(Linear::new(a2, b2), ratio).take(n).collect();
            // and further down: rms over the converted signal, envelope over that
            let tail = |v: Vec<[f64; 1]>| -> Vec<[f64; 1]> { signal::from_iter(v).rms(ring_buffer::Fixed::from(vec![[0.0f64]; 3])).detect_envelope(dasp_envelope::Detector::peak(2.0, 5.0)).take(n).collect() };
            let mut p3 = signal::from_iter(src.clone()); let a3 = p3.next();
            let chain: Vec<[f64; 1]> = p3.scale_hz(Floor::new(a3), ratio).rms(ring_buffer::Fixed::from(vec![[0.0f64]; 3])).detect_envelope(dasp_envelope::Detector::peak(2.0, 5.0)).take(n).collect();
            let mut p4 = signal::from_iter(src.clone()); let a4 = p4.next();
            let staged = tail(p4.scale_hz(Floor::new(a4), ratio).take(n).collect());
            (lin, lin2, chain, staged)
        });
        st.count("compositions_carriers_converter_rms_envelope");
        match r {
            None => st.oracle_fail("a composition panicked", &case, "no panic", "panic"),
            Some((lin, lin2, chain, staged)) => {
                let bits = |v: &Vec<[f64; 1]>| v.iter().map(|f| f[0].to_bits()).collect::<Vec<_>>();
                if bits(&lin) == bits(&lin2) && bits(&chain) == bits(&staged) { st.oracle_ok(2 * n as u64); }
                else { st.oracle_fail("the converter over transparent carriers (buffered / bus output / delay(0) / by_ref), or the fused converter -> rms -> envelope chain, differs from the staged computation", &case, &format!("{:?} | {:?}", lin, staged), &format!("{:?} | {:?}", lin2, chain)); }
            }
        }
    }
}

fn main() {
    let a = Args::parse();
    match a.stream.as_str() {
        "conv" => run(&a),
        s => { eprintln!("unknown stream {}", s); std::process::exit(2); }
    }
}

// ---------------------------------------------------------------- frames

trait Fr: Frame + Copy + PartialEq + 'static {
    const FMT: &'static str;
    const INT: bool;
    fn gen(rng: &mut Rng, mode: u64, idx: usize) -> Self;
    fn show(&self) -> String;
    /// numeric value of every channel as f64 (exact for f64 and for integers of at most 53 bits)
    fn chans(&self) -> Vec<f64>;
    /// integer formats: the exact value of every channel
    fn ints(&self) -> Option<Vec<i128>> { None }
    /// integer formats: LSBs by which a LINEAR output may leave the interval of its two neighbours / miss the
    /// source at ratio 1 because of float rounding: 0 for formats of at most 53 bits (every intermediate is exact
    /// or monotonically rounded), the f64 round-trip bound 2^11 for i64
    const SLACK: i128 = 0;
    /// integer formats: LSBs between the output and the exact straight-line blend (truncation: < 1 LSB; i64: plus
    /// five f64 roundings of at most 2^10 LSB each)
    const BLEND_TOL: i128 = 1;
}
fn gen_f64(rng: &mut Rng, mode: u64, idx: usize, ch: usize) -> f64 {
    match mode {
        0 => (idx as f64 + 1.0) * 0.015625 * if ch == 1 { -1.0 } else { 1.0 },   // ramp: every frame distinct
        1 => rng.f64_unit() * 2.0 - 1.0,
        2 => *rng.pick(&[0.0, 1.0, -1.0, 0.5, -0.25, 1e-300, -1e300, 3.0e10, 0.1, -0.7]),
        _ => ((rng.range(-1000, 1000) as f64) / 1024.0) * (1u64 << rng.below(20)) as f64,
    }
}
fn gen_i16(rng: &mut Rng, mode: u64, idx: usize, ch: usize) -> i16 {
    match mode {
        0 => ((idx as i32 + 1) * 257 * if ch == 1 { -1 } else { 1 }) as i16,
        1 => rng.range(-32768, 32767) as i16,
        2 => *rng.pick(&[0i16, 1, -1, 32767, -32768, 16384, -16384, 255, -256, 12345]),
        _ => rng.range(-300, 300) as i16,
    }
}
impl Fr for f64 {
    const FMT: &'static str = "f64"; const INT: bool = false;
    fn gen(rng: &mut Rng, mode: u64, idx: usize) -> Self { gen_f64(rng, mode, idx, 0) }
    fn show(&self) -> String { format!("{:016x}", self.to_bits()) }
    fn chans(&self) -> Vec<f64> { vec![*self] }
}
impl Fr for [f64; 2] {
    const FMT: &'static str = "f64"; const INT: bool = false;
    fn gen(rng: &mut Rng, mode: u64, idx: usize) -> Self { [gen_f64(rng, mode, idx, 0), gen_f64(rng, mode, idx, 1)] }
    fn show(&self) -> String { format!("{:016x},{:016x}", self[0].to_bits(), self[1].to_bits()) }
    fn chans(&self) -> Vec<f64> { self.to_vec() }
}
impl Fr for i16 {
    const FMT: &'static str = "i16"; const INT: bool = true;
    fn gen(rng: &mut Rng, mode: u64, idx: usize) -> Self { gen_i16(rng, mode, idx, 0) }
    fn show(&self) -> String { format!("{}", self) }
    fn chans(&self) -> Vec<f64> { vec![*self as f64] }
    fn ints(&self) -> Option<Vec<i128>> { Some(vec![*self as i128]) }
}
impl Fr for [i16; 2] {
    const FMT: &'static str = "i16"; const INT: bool = true;
    fn gen(rng: &mut Rng, mode: u64, idx: usize) -> Self { [gen_i16(rng, mode, idx, 0), gen_i16(rng, mode, idx, 1)] }
    fn show(&self) -> String { format!("{},{}", self[0], self[1]) }
    fn chans(&self) -> Vec<f64> { vec![self[0] as f64, self[1] as f64] }
    fn ints(&self) -> Option<Vec<i128>> { Some(vec![self[0] as i128, self[1] as i128]) }
}

fn gen_wide(rng: &mut Rng, mode: u64, idx: usize, ch: usize, lo: i128, hi: i128) -> i128 {
    let mid = (lo + hi + 1) / 2;                       // equilibrium
    let half = hi - mid;                               // positive half-range
    let sgn: i128 = if ch == 1 { -1 } else { 1 };
    let v = match mode {
        0 => mid + sgn * (((idx as i128 + 1) * 1_000_000_007) % (half + 1)),          // ramp, > 24 significant bits
        1 => rng.range_i128(lo, hi),
        2 => *rng.pick(&[mid, mid + 1, mid - 1, hi, lo, hi - 3, lo + 3, mid + 1_000_000_007 % (half + 1), mid - 16_777_217, mid + 16_777_217, mid + half / 3, mid - half / 7 * 5]),
        _ => mid + rng.range_i128(-300, 300),
    };
    v.max(lo).min(hi)
}
macro_rules! wide_impl {
    ($T:ty, $name:expr, $slack:expr, $btol:expr) => {
        impl Fr for $T {
            const FMT: &'static str = $name; const INT: bool = true;
            const SLACK: i128 = $slack; const BLEND_TOL: i128 = $btol;
            fn gen(rng: &mut Rng, mode: u64, idx: usize) -> Self { gen_wide(rng, mode, idx, 0, <$T>::MIN as i128, <$T>::MAX as i128) as $T }
            fn show(&self) -> String { format!("{}", self) }
            fn chans(&self) -> Vec<f64> { vec![*self as f64] }
            fn ints(&self) -> Option<Vec<i128>> { Some(vec![*self as i128]) }
        }
        impl Fr for [$T; 2] {
            const FMT: &'static str = $name; const INT: bool = true;
            const SLACK: i128 = $slack; const BLEND_TOL: i128 = $btol;
            fn gen(rng: &mut Rng, mode: u64, idx: usize) -> Self {
                [gen_wide(rng, mode, idx, 0, <$T>::MIN as i128, <$T>::MAX as i128) as $T, gen_wide(rng, mode, idx, 1, <$T>::MIN as i128, <$T>::MAX as i128) as $T]
            }
            fn show(&self) -> String { format!("{},{}", self[0], self[1]) }
            fn chans(&self) -> Vec<f64> { vec![self[0] as f64, self[1] as f64] }
            fn ints(&self) -> Option<Vec<i128>> { Some(vec![self[0] as i128, self[1] as i128]) }
        }
    };
}
wide_impl!(i32, "i32", 0, 1);
wide_impl!(u32, "u32", 0, 1);
wide_impl!(i64, "i64", 2048, 8192);

// ---------------------------------------------------------------- instrumented source

/// `signal::from_iter(frames)` with a pull counter (calls of `Signal::next`)
struct Counted<S> { inner: S, pulls: Rc<Cell<u64>> }
impl<S: Signal> Signal for Counted<S> {
    type Frame = S::Frame;
    fn next(&mut self) -> S::Frame { self.pulls.set(self.pulls.get() + 1); self.inner.next() }
    fn is_exhausted(&self) -> bool { self.inner.is_exhausted() }
}

// ---------------------------------------------------------------- device under test

#[derive(Clone, Copy, PartialEq, Debug)]
enum Ctor { P(f64), S(f64), H(f64, f64), M }
#[derive(Clone, Copy, PartialEq, Debug)]
enum Op { Out, Mul(f64), SetP(f64), SetS(f64), SetH(f64, f64), Until(usize), Src }
fn hx(x: f64) -> String { format!("{:016x}", x.to_bits()) }
fn show_ctor(c: &Ctor) -> String {
    match c { Ctor::P(s) => format!("p{}", hx(*s)), Ctor::S(s) => format!("s{}", hx(*s)), Ctor::H(a, b) => format!("h{}:{}", hx(*a), hx(*b)), Ctor::M => "m".into() }
}
fn show_op(o: &Op) -> String {
    match o {
        Op::Out => "o".into(), Op::Mul(m) => format!("m{}", hx(*m)), Op::SetP(s) => format!("p{}", hx(*s)), Op::SetS(s) => format!("s{}", hx(*s)),
        Op::SetH(a, b) => format!("h{}:{}", hx(*a), hx(*b)), Op::Until(c) => format!("u{}", c), Op::Src => "z".into(),
    }
}

trait Dut<F> {
    fn exh(&self) -> bool;
    fn out(&mut self) -> F;
    fn mul_out(&mut self, m: f64) -> F;
    fn set_p(&mut self, s: f64);
    fn set_s(&mut self, s: f64);
    fn set_h(&mut self, a: f64, b: f64);
    fn until(&mut self, cap: usize) -> usize;
    /// `into_source()` (also `source()` / `source_mut()` first): the next two frames of the source handed back
    fn finish(self: Box<Self>) -> (Vec<F>, bool);
}
impl<S: Signal, I: Interpolator<Frame = S::Frame>> Dut<S::Frame> for Converter<S, I> {
    fn exh(&self) -> bool { self.is_exhausted() }
    fn out(&mut self) -> S::Frame { self.next() }
    fn mul_out(&mut self, m: f64) -> S::Frame { self.set_playback_hz_scale(m); self.next() }
    fn set_p(&mut self, s: f64) { self.set_playback_hz_scale(s) }
    fn set_s(&mut self, s: f64) { self.set_sample_hz_scale(s) }
    fn set_h(&mut self, a: f64, b: f64) { self.set_hz_to_hz(a, b) }
    fn until(&mut self, cap: usize) -> usize { self.by_ref().until_exhausted().take(cap).count() }
    fn finish(mut self: Box<Self>) -> (Vec<S::Frame>, bool) {
        let e0 = self.source().is_exhausted();
        let a = self.source_mut().next();
        let e1 = self.source().is_exhausted();
        let mut s = self.into_source();
        let e2 = s.is_exhausted();
        let b = s.next();
        // the three accessors see one and the same source: exhaustion never reverts, and into_source() pulls nothing
        (vec![a, b], e1 == e2 && (!e0 || e1))
    }
}
/// `Signal::mul_hz` with a never-exhausted control signal fed from a queue
struct MulDut<M> { sig: M, q: Rc<RefCell<VecDeque<f64>>> }
impl<M: Signal> Dut<M::Frame> for MulDut<M> {
    fn exh(&self) -> bool { self.sig.is_exhausted() }
    fn out(&mut self) -> M::Frame { unreachable!() }
    fn mul_out(&mut self, m: f64) -> M::Frame { self.q.borrow_mut().push_back(m); self.sig.next() }
    fn set_p(&mut self, _: f64) { unreachable!() }
    fn set_s(&mut self, _: f64) { unreachable!() }
    fn set_h(&mut self, _: f64, _: f64) { unreachable!() }
    fn until(&mut self, _: usize) -> usize { unreachable!() }
    fn finish(self: Box<Self>) -> (Vec<M::Frame>, bool) { unreachable!() }
}

fn build<F: Fr, I: Interpolator<Frame = F> + 'static>(src: Counted<signal::FromIterator<std::vec::IntoIter<F>>>, ip: I, ctor: Ctor) -> Option<Box<dyn Dut<F>>>
where F::Sample: dasp_sample::Duplex<f64> {
    guarded(move || -> Box<dyn Dut<F>> {
        match ctor {
            Ctor::P(s) => Box::new(Converter::scale_playback_hz(src, ip, s)),
            Ctor::S(s) => Box::new(Converter::scale_sample_hz(src, ip, s)),
            Ctor::H(a, b) => Box::new(Converter::from_hz_to_hz(src, ip, a, b)),
            Ctor::M => {
                let q = Rc::new(RefCell::new(VecDeque::<f64>::new()));
                let q2 = q.clone();
                let control = signal::gen_mut(move || q2.borrow_mut().pop_front().expect("control value queued"));
                Box::new(MulDut { sig: src.mul_hz(ip, control), q })
            }
        }
    })
}

// ---------------------------------------------------------------- exact positions

const FIX: u32 = 60;
/// an f64 in [2^-8, 2^10) as an exact integer multiple of 2^-60 (None outside that window)
fn fix60(r: f64) -> Option<u128> {
    if !(r.is_finite() && r >= 0.00390625 && r < 1024.0) { return None; }
    let bits = r.to_bits();
    let e = ((bits >> 52) & 0x7ff) as i32 - 1075;
    let m = (bits & ((1u64 << 52) - 1)) | (1u64 << 52);
    let sh = e + FIX as i32;
    if sh < 0 { return None; }
    Some((m as u128) << sh)
}
fn is_grid(fx: u128) -> bool { fx & ((1u128 << 40) - 1) == 0 }      // multiple of 2^-20

struct Case<F> { linear: bool, ctor: Ctor, frames: Vec<F>, ops: Vec<Op> }

struct Outcome { op_line: String, obs_line: String, nontrivial: bool, evals: u64 }

fn src_at<F: Fr>(frames: &[F], i: u128) -> F { if (i as usize) < frames.len() && i < (1u128 << 40) { frames[i as usize] } else { F::EQUILIBRIUM } }

fn run_case<F: Fr>(c: &Case<F>, st: &mut Stream) -> Outcome
where F::Sample: dasp_sample::Duplex<f64> {
    let ch = F::CHANNELS;
    let mut op_line = format!("conv {} {} {} {} {}", if c.linear { "linear" } else { "floor" }, F::FMT, ch, show_ctor(&c.ctor), c.frames.len());
    for f in &c.frames { for t in f.show().split(',') { op_line.push(' '); op_line.push_str(t); } }
    for o in &c.ops { op_line.push(' '); op_line.push_str(&show_op(o)); }
    let case_text = op_line.clone();
    mark(0, &case_text);

    let pulls = Rc::new(Cell::new(0u64));
    let mut src = Counted { inner: signal::from_iter(c.frames.clone().into_iter()), pulls: pulls.clone() };
    let prime: u64 = if c.linear { 2 } else { 1 };
    let dut = if c.linear {
        let a = src.next(); let b = src.next();
        build(src, Linear::new(a, b), c.ctor)
    } else {
        let a = src.next();
        build(src, Floor::new(a), c.ctor)
    };
    // the ratio the constructor puts in effect
    let mut ratio = match c.ctor { Ctor::P(s) => s, Ctor::S(s) => 1.0 / s, Ctor::H(a, b) => a / b, Ctor::M => 1.0 };
    let mut dut = match dut {
        Some(d) => d,
        None => {
            st.count("ctor_panic");
            if ratio > 0.0 { st.oracle_fail("constructor panicked for a ratio > 0", &case_text, "a converter", "panic"); }
            return Outcome { op_line, obs_line: "panic".into(), nontrivial: false, evals: 1 };
        }
    };
    if !(ratio > 0.0) { st.oracle_fail("constructor accepted a ratio that is not > 0", &case_text, "panic", "a converter"); }

    let l = c.frames.len() as u64;
    let r_left = l.saturating_sub(prime) as u128;          // R: frames the source still held after priming
    let mut obs: Vec<String> = Vec::new();
    let mut evals = 0u64;
    // exact bookkeeping: P_n in units of 2^-60, valid while every ratio so far was convertible
    let mut p: Option<u128> = Some(0);
    let mut p_prev: Option<u128> = None;                    // P_(n-1)
    let mut exact = true;                                    // every ratio so far on the 2^-20 grid: the f64 accumulator is exact
    let mut all_one = true;                                  // every ratio so far exactly 1
    let mut n_out: u128 = 0;
    let mut last_pulls = prime;
    let mut saw_multi = false; let mut saw_exh = false; let mut saw_frac = false;
    // bound (units of 2^-60) on |f64 accumulator position - exact P_n|: the subtractions `iv -= 1.0` are exact, each
    // `iv += ratio` rounds a result < 1 + ratio once (half an ulp <= 2^-53 (1 + ratio)); 0 while every ratio was on the grid
    let mut drift: u128 = 0;
    let step_drift = |fx: u128| -> u128 { (((1u128 << FIX) + fx) >> 53) + 1 };
    // the exact position is too close to an integer for floor() of the f64 position to be determined by it
    let near = |fx: u128, d: u128| -> bool { let m = 2 * d + 256; let fr = fx & ((1u128 << FIX) - 1); fr < m || fr > (1u128 << FIX) - m };
    // the f64 reading of "position P_n", written directly from the property text: acc += r per output, one pull per
    // whole unit (`while acc >= 1 { pull; acc -= 1 }`) before the next output
    let mut acc_ref: f64 = 0.0;
    let mut pulls_ref: u64 = 0;

    let fin = matches!(c.ops.last(), Some(Op::Src));
    let body = if fin { &c.ops[..c.ops.len() - 1] } else { &c.ops[..] };
    // a setter only stores the ratio: it pulls nothing and does not change what is_exhausted() reports
    macro_rules! setter_obs { ($e0:expr) => { {
        let (pl, e1) = (pulls.get(), dut.exh());
        obs.push(format!("-/{}", pl)); evals += 1;
        if pl == last_pulls && e1 == $e0 { st.oracle_ok(1); } else { st.oracle_fail("a ratio setter pulled source frames or changed the exhaustion report", &case_text, &format!("pulls {} exhausted {}", last_pulls, $e0), &format!("pulls {} exhausted {}", pl, e1)); }
    } } }
    for o in body {
        match *o {
            Op::Src => unreachable!(),
            Op::SetP(s) => { let e0 = dut.exh(); dut.set_p(s); ratio = s; setter_obs!(e0); continue; }
            Op::SetS(s) => { let e0 = dut.exh(); dut.set_s(s); ratio = 1.0 / s; setter_obs!(e0); continue; }
            Op::SetH(a, b) => { let e0 = dut.exh(); dut.set_h(a, b); ratio = a / b; setter_obs!(e0); continue; }
            Op::Until(cap) => {
                let cnt = dut.until(cap);
                evals += cnt as u64 + 1;
                obs.push(format!("c{}/{}", cnt, pulls.get()));
                st.count("op_until");
                // oracle: constant ratio from a fresh converter => count is ceil((R+1)/r) or one more
                if n_out == 0 && cnt < cap {
                    if let Some(fx) = fix60(ratio) {
                        let num = (r_left + 1) << FIX;
                        let cc = (num + fx - 1) / fx;
                        // with a non-grid ratio the f64 accumulator drifts from k*r; only demand the count when no
                        // multiple up to the bound comes within 2^-40 of an integer
                        let safe = is_grid(fx) || (1..=cc + 2).all(|k| !near(k * fx, k * step_drift(fx)));
                        if safe {
                            if cnt as u128 == cc || cnt as u128 == cc + 1 { st.oracle_ok(1); }
                            else { st.oracle_fail("until_exhausted count is neither ceil((R+1)/r) nor one more", &case_text, &format!("{} or {}", cc, cc + 1), &format!("{}", cnt)); }
                            st.count(if cnt as u128 == cc { "count_eq_ceil" } else { "count_eq_ceil_plus_1" });
                        } else { st.count("count_oracle_skipped_near_integer"); }
                    }
                }
                // the same count from the f64 position recurrence of the property text
                {
                    let mut k = 0usize;
                    loop {
                        let exh_ref = prime + pulls_ref >= l && acc_ref >= 1.0;
                        if exh_ref || k == cap { break; }
                        while acc_ref >= 1.0 { pulls_ref += 1; acc_ref -= 1.0; }
                        acc_ref += ratio; k += 1;
                    }
                    if k == cnt && prime + pulls_ref == pulls.get() { st.oracle_ok(1); }
                    else { st.oracle_fail("until_exhausted: count / pulls differ from the f64 position recurrence (acc += r; one pull per whole unit)", &case_text, &format!("c{}/{}", k, prime + pulls_ref), &format!("c{}/{}", cnt, pulls.get())); }
                }
                // after this the bookkeeping continues from P advanced by cnt outputs at the constant ratio
                if let (Some(pp), Some(fx)) = (p, fix60(ratio)) {
                    if cnt > 0 { p_prev = Some(pp + (cnt as u128 - 1) * fx); p = Some(pp + cnt as u128 * fx); }
                    if !is_grid(fx) { exact = false; }
                    if !exact { drift += cnt as u128 * step_drift(fx); }
                } else { p = None; }
                if ratio != 1.0 { all_one = false; }
                n_out += cnt as u128;
                last_pulls = pulls.get();
                continue;
            }
            _ => {}
        }
        // ---- an output
        let exh = dut.exh();
        let frame = match *o { Op::Out => dut.out(), Op::Mul(m) => { ratio = m; dut.mul_out(m) }, _ => unreachable!() };
        let pl = pulls.get();
        evals += 2;
        obs.push(format!("{}/{}/{}", exh as u8, frame.show(), pl));
        st.count(if let Op::Out = *o { "op_out" } else { "op_mul_out" });
        if pl - last_pulls >= 2 { saw_multi = true; }
        if exh { saw_exh = true; }

        // ---- f64 position recurrence (property text read in f64): pulls, exhaustion, floor value
        {
            let exh_ref = prime + pulls_ref >= l && acc_ref >= 1.0;
            while acc_ref >= 1.0 { pulls_ref += 1; acc_ref -= 1.0; }
            if pl == prime + pulls_ref && exh == exh_ref { st.oracle_ok(1); }
            else { st.oracle_fail(&format!("output {}: pulls / is_exhausted differ from the f64 position recurrence (acc += r; one pull per whole unit)", n_out), &case_text, &format!("{}/{}", exh_ref as u8, prime + pulls_ref), &format!("{}/{}", exh as u8, pl)); }
            acc_ref += ratio;
        }
        // ---- oracles from the property text
        // never un-pulls, and the floor interpolator shows the frame last pulled: in order, none skipped, none re-read
        if pl < last_pulls { st.oracle_fail("pull counter went backwards", &case_text, "", ""); }
        if !c.linear {
            let want = src_at(&c.frames, (pl - 1) as u128);
            if frame == want { st.oracle_ok(1); } else { st.oracle_fail("floor output is not the most recently pulled source frame", &case_text, &want.show(), &frame.show()); }
        }
        if let Some(pp) = p {
            let fl = pp >> FIX;
            let fr = pp & ((1u128 << FIX) - 1);
            if fr != 0 { saw_frac = true; }
            let trust = exact || !near(pp, drift);
            if trust {
                // pulled exactly floor(P_n) frames beyond priming
                if (pl - prime) as u128 == fl { st.oracle_ok(1); }
                else { st.oracle_fail(&format!("output {}: source pulls beyond priming differ from floor(P_n)", n_out), &case_text, &format!("{}", fl), &format!("{}", pl - prime)); }
                // exhaustion reported exactly when the source is exhausted and this output needs a further frame
                let want_exh = match p_prev {
                    None => false,
                    Some(q) => { let qf = q >> FIX; (prime as u128 + qf >= l as u128) && fl > qf }
                };
                let trust_prev = exact || p_prev.map_or(true, |q| !near(q, drift));
                if trust_prev {
                    if exh == want_exh { st.oracle_ok(1); }
                    else { st.oracle_fail(&format!("output {}: is_exhausted before it", n_out), &case_text, &format!("{}", want_exh), &format!("{}", exh)); }
                }
                // value
                let lf = src_at(&c.frames, fl);
                if !c.linear {
                    if frame == lf { st.oracle_ok(1); } else { st.oracle_fail(&format!("output {}: floor output is not the source frame at floor(P_n)", n_out), &case_text, &lf.show(), &frame.show()); }
                } else {
                    let rf = src_at(&c.frames, fl + 1);
                    if let (Some(li), Some(ri), Some(oi)) = (lf.ints(), rf.ints(), frame.ints()) {
                        // integer formats: exact arithmetic, position fraction fr / 2^60
                        for k in 0..ch {
                            let (a, b, v) = (li[k], ri[k], oi[k]);
                            let (lo, hi) = if a <= b { (a, b) } else { (b, a) };
                            if v >= lo - F::SLACK && v <= hi + F::SLACK { st.oracle_ok(1); if v < lo || v > hi { st.count("linear_outside_within_rounding_slack"); } }
                            else { st.oracle_fail(&format!("output {}: linear output outside the interval spanned by the two frames", n_out), &case_text, &format!("[{}, {}]", lo, hi), &format!("{}", v)); }
                            let num = (a << FIX) + (b - a) * fr as i128;                 // exact blend * 2^60
                            let dev = ((v << FIX) - num).abs();
                            // off the 2^-20 grid the f64 position differs from the exact one by at most `drift`
                            let allow = (F::BLEND_TOL << FIX) + (b - a).abs() * (2 * drift as i128 + 1) + (1i128 << 30);
                            if dev <= allow { st.oracle_ok(1); }
                            else { st.oracle_fail(&format!("output {}: linear output is not the straight-line blend at the fraction of P_n", n_out), &case_text, &format!("{}/2^60", num), &format!("{}", v)); }
                        }
                    } else {
                    let x = fr as f64 / (1u128 << FIX) as f64;      // exact on the grid, within 2^-53 otherwise
                    let (lc, rc, oc) = (lf.chans(), rf.chans(), frame.chans());
                    for k in 0..ch {
                        let (a, b, v) = (lc[k], rc[k], oc[k]);
                        let (lo, hi) = if a <= b { (a, b) } else { (b, a) };
                        let mag = a.abs().max(b.abs());
                        // float rounding allowance: a few ulps of the larger operand for f64 frames
                        let tol = mag * 1e-15;
                        if v >= lo - tol && v <= hi + tol { st.oracle_ok(1); }
                        else { st.oracle_fail(&format!("output {}: linear output outside the interval spanned by the two frames", n_out), &case_text, &format!("[{:e}, {:e}]", lo, hi), &format!("{:e}", v)); }
                        let blend = a + (b - a) * x;
                        // off the exact grid the f64 position differs from the exact P_n by at most `drift`
                        let drift_f = (b - a).abs() * ((2 * drift + 1) as f64 / (1u128 << FIX) as f64);
                        let tol2 = (mag + (b - a).abs()) * 4e-15 + drift_f;
                        if (v - blend).abs() <= tol2 { st.oracle_ok(1); }
                        else { st.oracle_fail(&format!("output {}: linear output is not the straight-line blend at the fraction of P_n", n_out), &case_text, &format!("{:e}", blend), &format!("{:e}", v)); }
                    }
                    }
                }
                // ratio exactly 1 reproduces the source
                if all_one {
                    let want = src_at(&c.frames, n_out);
                    let same = if c.linear && F::SLACK > 0 {
                        // i64 through the linear interpolator: the f64 round trip costs up to 2^11 LSB (stated bound)
                        let (w, o) = (want.ints().unwrap(), frame.ints().unwrap());
                        (0..ch).all(|k| (w[k] - o[k]).abs() <= F::SLACK)
                    } else { frame == want };
                    if same { st.oracle_ok(1); } else { st.oracle_fail(&format!("output {}: ratio 1 does not reproduce the source", n_out), &case_text, &want.show(), &frame.show()); }
                }
            } else { st.count("position_oracle_skipped_near_integer"); }
        }
        // advance the bookkeeping: the ratio in effect for this output is added after it
        if ratio != 1.0 { all_one = false; }
        match (p, fix60(ratio)) {
            (Some(pp), Some(fx)) => { p_prev = Some(pp); p = Some(pp + fx); if !is_grid(fx) { exact = false; } if !exact { drift += step_drift(fx); } }
            _ => { p = None; p_prev = None; }
        }
        n_out += 1;
        last_pulls = pl;
    }
    if fin {
        // what is left behind: the source handed back continues exactly after the frames the converter pulled
        let before = pulls.get();
        let (fs, flags_ok) = dut.finish();
        let after = pulls.get();
        evals += 3;
        obs.push(format!("z{}/{}", fs.iter().map(|f| f.show()).collect::<Vec<_>>().join(";"), after));
        st.count("op_into_source");
        let want = [src_at(&c.frames, before as u128), src_at(&c.frames, before as u128 + 1)];
        if fs.len() == 2 && fs[0] == want[0] && fs[1] == want[1] && after == before + 2 && flags_ok { st.oracle_ok(1); }
        else { st.oracle_fail("source()/source_mut()/into_source(): the source handed back does not continue right after the frames the converter pulled", &case_text, &format!("{};{}/{}", want[0].show(), want[1].show(), before + 2), &format!("{}/{} (is_exhausted of source() / source_mut() / into_source() consistent: {})", fs.iter().map(|f| f.show()).collect::<Vec<_>>().join(";"), after, flags_ok)); }
    }
    if saw_multi { st.count("case_with_multi_pull_output"); }
    if saw_exh { st.count("case_reaching_exhaustion"); }
    Outcome { op_line, obs_line: obs.join(" "), nontrivial: saw_frac && (saw_multi || saw_exh || c.linear), evals }
}

// ---------------------------------------------------------------- generation

const NONDYADIC: [f64; 8] = [0.1, 1.0 / 3.0, 44100.0 / 48000.0, std::f64::consts::FRAC_PI_2, 48000.0 / 44100.0, 0.7, 2.9, 1.0000000000000002];

fn dyadic(rng: &mut Rng, big: bool) -> f64 {
    let j = rng.below(7);                       // denominator 2^j, j <= 6
    let den = (1u64 << j) as f64;
    let hi = if big { 5 * (1u64 << j) } else { 1u64 << j };
    (1 + rng.below(hi)) as f64 / den
}
fn any_ratio(rng: &mut Rng) -> f64 {
    match rng.below(4) {
        0 => dyadic(rng, false),
        1 => dyadic(rng, true),
        2 => *rng.pick(&NONDYADIC),
        _ => 0.01 + rng.f64_unit() * 3.5,
    }
}

fn gen_case<F: Fr>(rng: &mut Rng, linear: bool, len: usize, kind: u64, st: &mut Stream) -> Case<F> {
    let mode = rng.below(4);
    let frames: Vec<F> = (0..len).map(|i| F::gen(rng, mode, i)).collect();
    let n = 8 + rng.usize_below(48);
    let mut ops = Vec::new();
    let ctor;
    match kind {
        0 => { ctor = Ctor::P(dyadic(rng, false)); ops.extend((0..n).map(|_| Op::Out)); st.count("kind_const_dyadic_le1"); }
        1 => { ctor = Ctor::P(dyadic(rng, true)); ops.extend((0..n).map(|_| Op::Out)); st.count("kind_const_dyadic_upto5"); }
        2 => { ctor = *rng.pick(&[Ctor::P(1.0), Ctor::S(1.0), Ctor::H(44100.0, 44100.0), Ctor::M]);
               ops.extend((0..n).map(|_| if ctor == Ctor::M { Op::Mul(1.0) } else { Op::Out })); st.count("kind_ratio_one"); }
        3 => { let r = *rng.pick(&NONDYADIC);
               ctor = match rng.below(3) { 0 => Ctor::P(r), 1 => Ctor::H(44100.0, 48000.0), _ => Ctor::S(*rng.pick(&[3.0, 0.3, 1.1])) };
               ops.extend((0..n).map(|_| Op::Out)); st.count("kind_const_nondyadic"); }
        4 => { ctor = Ctor::M; ops.extend((0..n).map(|_| Op::Mul(if rng.chance(1, 2) { dyadic(rng, false) } else { dyadic(rng, true) }))); st.count("kind_mulhz_dyadic"); }
        5 => { ctor = Ctor::M; ops.extend((0..n).map(|_| Op::Mul(any_ratio(rng)))); st.count("kind_mulhz_mixed"); }
        6 => { ctor = Ctor::P(dyadic(rng, true));
               for _ in 0..n {
                   match rng.below(6) {
                       0 => ops.push(Op::SetP(any_ratio(rng))),
                       1 => ops.push(Op::SetS(*rng.pick(&[0.5, 2.0, 4.0, 0.25, 3.0, 1.0, 0.8]))),
                       2 => { let (a, b) = *rng.pick(&[(44100.0, 48000.0), (48000.0, 44100.0), (96000.0, 48000.0), (8000.0, 32000.0), (22050.0, 22050.0)]); ops.push(Op::SetH(a, b)) }
                       _ => ops.push(Op::Out),
                   }
               }
               ops.push(Op::Out); st.count("kind_setters"); }
        8 => { // ratios k/10, k/3, k/7, k/100: their repeated f64 sums land within an ulp of integers (0.1 x 10 = 0.9999999999999999)
               let r = match rng.below(4) { 0 => (1 + rng.below(30)) as f64 / 10.0, 1 => (1 + rng.below(12)) as f64 / 3.0, 2 => (1 + rng.below(20)) as f64 / 7.0, _ => (1 + rng.below(150)) as f64 / 100.0 };
               ctor = match rng.below(3) { 0 => Ctor::M, _ => Ctor::P(r) };
               let m = 30 + rng.usize_below(30);
               ops.extend((0..m).map(|_| if ctor == Ctor::M { Op::Mul(r) } else { Op::Out })); st.count("kind_const_tenths_thirds"); }
        _ => { let r = match rng.below(3) { 0 => dyadic(rng, false), 1 => dyadic(rng, true), _ => any_ratio(rng) };
               ctor = if rng.chance(1, 4) { Ctor::S(1.0 / r) } else { Ctor::P(r) };
               ops.push(Op::Until(20000)); ops.push(Op::Out); st.count("kind_until_exhausted"); }
    }
    // half of the plain-converter cases end by taking the source back (early, while it still holds frames, or late)
    if ctor != Ctor::M && rng.chance(1, 2) {
        if rng.chance(1, 2) { let k = 1 + rng.usize_below(6); if ops.len() > k { ops.truncate(k); } }
        ops.push(Op::Src);
    }
    Case { linear, ctor, frames, ops }
}

fn emit<F: Fr>(c: &Case<F>, st: &mut Stream) where F::Sample: dasp_sample::Duplex<f64> {
    let o = run_case(c, st);
    st.count(&format!("{}_{}x{}", if c.linear { "linear" } else { "floor" }, F::FMT, F::CHANNELS));
    st.count(&format!("srclen_{:02}", c.frames.len()));
    st.case(&o.op_line, &o.obs_line, o.nontrivial, o.evals);
}

fn run(a: &Args) {
    let mut st = Stream::new(&a.out, "conv");
    let mut rng = Rng::new(a.seed, "conv");
    slow_glide(&mut st);
    compositions(&mut st, &mut rng);
    let reps = if a.thorough() { 150 } else { 6 };
    // fixed corner cases: constructor assertion, the doc examples' ratio 0.5 on 3-4 frames
    for &s in &[0.0, -1.0, f64::NAN] {
        let c = Case::<f64> { linear: false, ctor: Ctor::P(s), frames: vec![0.5, -0.5], ops: vec![Op::Out] };
        // outside the property's domain (ratio > 0): compared with the model only
        let pulls_line = run_case_out_of_domain(&c);
        st.count("ctor_out_of_domain");
        st.case(&pulls_line.0, &pulls_line.1, false, 1);
    }
    for _ in 0..reps {
        for len in 0..=40usize {
            for kind in 0..10u64 {
                for &linear in &[false, true] {
                    match rng.below(10) {
                        0 => { let c = gen_case::<f64>(&mut rng, linear, len, kind, &mut st); emit(&c, &mut st) }
                        1 => { let c = gen_case::<[f64; 2]>(&mut rng, linear, len, kind, &mut st); emit(&c, &mut st) }
                        2 => { let c = gen_case::<i16>(&mut rng, linear, len, kind, &mut st); emit(&c, &mut st) }
                        3 => { let c = gen_case::<[i16; 2]>(&mut rng, linear, len, kind, &mut st); emit(&c, &mut st) }
                        4 => { let c = gen_case::<i32>(&mut rng, linear, len, kind, &mut st); emit(&c, &mut st) }
                        5 => { let c = gen_case::<[i32; 2]>(&mut rng, linear, len, kind, &mut st); emit(&c, &mut st) }
                        6 => { let c = gen_case::<u32>(&mut rng, linear, len, kind, &mut st); emit(&c, &mut st) }
                        7 => { let c = gen_case::<[u32; 2]>(&mut rng, linear, len, kind, &mut st); emit(&c, &mut st) }
                        8 => { let c = gen_case::<i64>(&mut rng, linear, len, kind, &mut st); emit(&c, &mut st) }
                        _ => { let c = gen_case::<[i64; 2]>(&mut rng, linear, len, kind, &mut st); emit(&c, &mut st) }
                    }
                }
            }
        }
    }
    // every format x interpolator x kind at a few lengths, so no combination depends on the draw
    for len in [0usize, 1, 2, 3, 7, 40] {
        for kind in 0..10u64 {
            for &linear in &[false, true] {
                let c = gen_case::<f64>(&mut rng, linear, len, kind, &mut st); emit(&c, &mut st);
                let c = gen_case::<[f64; 2]>(&mut rng, linear, len, kind, &mut st); emit(&c, &mut st);
                let c = gen_case::<i16>(&mut rng, linear, len, kind, &mut st); emit(&c, &mut st);
                let c = gen_case::<[i16; 2]>(&mut rng, linear, len, kind, &mut st); emit(&c, &mut st);
                let c = gen_case::<i32>(&mut rng, linear, len, kind, &mut st); emit(&c, &mut st);
                let c = gen_case::<[i32; 2]>(&mut rng, linear, len, kind, &mut st); emit(&c, &mut st);
                let c = gen_case::<u32>(&mut rng, linear, len, kind, &mut st); emit(&c, &mut st);
                let c = gen_case::<[u32; 2]>(&mut rng, linear, len, kind, &mut st); emit(&c, &mut st);
                let c = gen_case::<i64>(&mut rng, linear, len, kind, &mut st); emit(&c, &mut st);
                let c = gen_case::<[i64; 2]>(&mut rng, linear, len, kind, &mut st); emit(&c, &mut st);
            }
        }
    }
    st.note("f64 position oracle (labelled): besides the exact-position oracles, every output is compared with the f64 reading of the property text - acc += r per output, one pull per whole unit before the next output, exhausted = source exhausted and acc >= 1 - which is what 'position P_n' means for an f64 accumulator and does not depend on how close P_n is to an integer");
    st.note("oracles (no model involved): P_n kept as an exact integer multiple of 2^-60; pulls beyond priming = floor(P_n), floor value = source[floor(P_n)], linear value between the two frames and within rounding of the straight-line blend at frac(P_n), ratio 1 = identity, is_exhausted = source exhausted and floor(P_n) > floor(P_(n-1)), until_exhausted count in {ceil((R+1)/r), +1}; for ratios off the 2^-20 grid the f64 accumulator is not exact, so the exact-position oracles are skipped whenever the exact position is within the accumulated rounding bound (2^-53 (1+r) per output) of an integer (counted in hist)");
    st.finish();
}

/// constructor with a ratio outside the property's domain: only the panic/no-panic outcome and one output are compared with the model
fn run_case_out_of_domain(c: &Case<f64>) -> (String, String) {
    let mut op_line = format!("conv floor f64 1 {} {}", show_ctor(&c.ctor), c.frames.len());
    for f in &c.frames { op_line.push(' '); op_line.push_str(&f.show()); }
    for o in &c.ops { op_line.push(' '); op_line.push_str(&show_op(o)); }
    let pulls = Rc::new(Cell::new(0u64));
    let mut src = Counted { inner: signal::from_iter(c.frames.clone().into_iter()), pulls: pulls.clone() };
    let a = src.next();
    match build(src, Floor::new(a), c.ctor) {
        None => (op_line, "panic".into()),
        Some(mut d) => { let e = d.exh(); let f = d.out(); (op_line, format!("{}/{}/{}", e as u8, f.show(), pulls.get())) }
    }
}
