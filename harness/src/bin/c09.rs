//! C09 — `dasp_graph::process` runs exactly the upstream subgraph, once each, inputs first;
//! `sources()`/`sinks()`.  Correspondence stream `proc` + independent oracle (BFS reachability,
//! multiset of incoming edges, topological check, recursive functional evaluation) written from
//! the property text over the harness's own edge list — the model is not involved.
#[path = "../util.rs"]
mod util;
use dasp_graph::{Buffer, Input, Node, NodeData, Processor};
use petgraph::graph::{Graph, NodeIndex};
use petgraph::stable_graph::StableGraph;
use petgraph::{Incoming, Outgoing};
use std::cell::RefCell;
use std::collections::{BTreeMap, HashMap, VecDeque};
use std::rc::Rc;
use util::*;

fn main() {
    let a = Args::parse();
    match a.stream.as_str() {
        "proc" => run(&a),
        s => { eprintln!("unknown stream {}", s); std::process::exit(2); }
    }
}

/// the stateless node function of the instrumented nodes (integers < 4093 are exact in f32)
fn hash_node(n: usize, ins: &[u64]) -> u64 {
    let mut acc = 31 * (n as u64 + 1);
    for (k, &x) in ins.iter().enumerate() { acc += (2 * k as u64 + 3) * x; }
    acc % 4093
}

#[derive(Default)]
struct Ctx {
    /// (node, input identities (None = buffer address of no node), input values, flags)
    log: RefCell<Vec<(usize, Vec<Option<usize>>, Vec<u64>)>>,
    /// address of a node's buffer slice -> (node id, number of buffers)
    addr: RefCell<HashMap<usize, (usize, usize)>>,
    anomalies: RefCell<Vec<String>>,
    /// the node that panics inside `Node::process` during the current call (after its inputs were
    /// logged, before it writes its output), if any
    panic_at: std::cell::Cell<Option<usize>>,
}

struct Instr { id: usize, ctx: Rc<Ctx> }

impl Node for Instr {
    fn process(&mut self, inputs: &[Input], output: &mut [Buffer]) {
        let addr = self.ctx.addr.borrow();
        let mut ids = Vec::with_capacity(inputs.len());
        let mut vals = Vec::with_capacity(inputs.len());
        match addr.get(&(output.as_ptr() as usize)) {
            Some(&(id, nb)) if id == self.id && nb == output.len() => {}
            other => self.ctx.anomalies.borrow_mut().push(format!("node {} was handed output buffers that are not its own ({:?})", self.id, other)),
        }
        for inp in inputs {
            let bufs = inp.buffers();
            match addr.get(&(bufs.as_ptr() as usize)) {
                Some(&(id, nb)) => {
                    if nb != bufs.len() { self.ctx.anomalies.borrow_mut().push(format!("input of node {} refers to node {} with {} buffers instead of {}", self.id, id, bufs.len(), nb)); }
                    ids.push(Some(id));
                }
                None => ids.push(None),
            }
            let v = bufs[0][0];
            if bufs.iter().any(|b| b.iter().any(|&s| s.to_bits() != v.to_bits())) {
                self.ctx.anomalies.borrow_mut().push(format!("input buffers seen by node {} are not uniform", self.id));
            }
            vals.push(v as u64);
        }
        let v = hash_node(self.id, &vals) as f32;
        self.ctx.log.borrow_mut().push((self.id, ids, vals));
        drop(addr);
        if self.ctx.panic_at.get() == Some(self.id) { panic!("instrumented node {} fails on request", self.id); }
        for b in output.iter_mut() { for s in b.iter_mut() { *s = v; } }
    }
}

trait Cont: Sized + petgraph::visit::Visitable {
    const NAME: &'static str;
    const STABLE: bool;
    fn build(n: usize, init: &[u64], ctx: &Rc<Ctx>) -> Self;
    fn add(&mut self, a: usize, b: usize);
    fn remove_one_edge(&mut self, a: usize, b: usize) -> bool;
    fn remove(&mut self, i: usize);
    fn bound(&self) -> usize;
    fn live(&self, i: usize) -> bool;
    fn inc(&self, i: usize) -> Vec<usize>;
    fn outg(&self, i: usize) -> Vec<usize>;
    fn bufs(&self, i: usize) -> &Vec<Buffer>;
    fn run(&mut self, p: &mut Processor<Self>, root: usize);
    fn srcs(&self) -> Vec<usize>;
    fn snks(&self) -> Vec<usize>;
}

macro_rules! impl_cont {
    ($ty:ident, $name:expr, $stable:expr, $bound:expr) => {
        impl Cont for $ty<NodeData<Instr>, ()> {
            const NAME: &'static str = $name;
            const STABLE: bool = $stable;
            fn build(n: usize, init: &[u64], ctx: &Rc<Ctx>) -> Self {
                let mut g = $ty::<NodeData<Instr>, ()>::with_capacity(0, 0);
                for i in 0..n {
                    let mut b = Buffer::SILENT;
                    for s in b.iter_mut() { *s = init[i] as f32; }
                    // one or two buffers per node (at least one: the buffer address identifies the node)
                    let ix = g.add_node(NodeData::new(Instr { id: i, ctx: ctx.clone() }, vec![b; 1 + i % 2]));
                    assert_eq!(ix.index(), i);
                }
                g
            }
            fn add(&mut self, a: usize, b: usize) { self.add_edge(NodeIndex::new(a), NodeIndex::new(b), ()); }
            fn remove_one_edge(&mut self, a: usize, b: usize) -> bool {
                match self.find_edge(NodeIndex::new(a), NodeIndex::new(b)) { Some(e) => self.remove_edge(e).is_some(), None => false }
            }
            fn remove(&mut self, i: usize) { self.remove_node(NodeIndex::new(i)); }
            fn bound(&self) -> usize { let f: fn(&Self) -> usize = $bound; f(self) }
            fn live(&self, i: usize) -> bool { self.node_weight(NodeIndex::new(i)).is_some() }
            fn inc(&self, i: usize) -> Vec<usize> { self.neighbors_directed(NodeIndex::new(i), Incoming).map(|x| x.index()).collect() }
            fn outg(&self, i: usize) -> Vec<usize> { self.neighbors_directed(NodeIndex::new(i), Outgoing).map(|x| x.index()).collect() }
            fn bufs(&self, i: usize) -> &Vec<Buffer> { &self.node_weight(NodeIndex::new(i)).unwrap().buffers }
            fn run(&mut self, p: &mut Processor<Self>, root: usize) { p.process(self, NodeIndex::new(root)); }
            fn srcs(&self) -> Vec<usize> { dasp_graph::sources(&self).map(|x| x.index()).collect() }
            fn snks(&self) -> Vec<usize> { dasp_graph::sinks(&self).map(|x| x.index()).collect() }
        }
    };
}
impl_cont!(Graph, "graph", false, |g| g.node_count());
impl_cont!(StableGraph, "stable", true, |g| { use petgraph::visit::NodeIndexable; g.node_bound() });

fn show_list(l: &[usize]) -> String {
    if l.is_empty() { "-".into() } else { l.iter().map(|x| x.to_string()).collect::<Vec<_>>().join(",") }
}
fn show_list64(l: &[u64]) -> String {
    if l.is_empty() { "-".into() } else { l.iter().map(|x| x.to_string()).collect::<Vec<_>>().join(",") }
}

struct Case {
    n: usize,
    edges: Vec<(usize, usize)>,         // insertion order
    drop_edges: Vec<(usize, usize)>,    // one instance of each removed again after insertion
    removed: Vec<usize>,                // stable graphs only
    init: Vec<u64>,
    roots: Vec<usize>,                  // a root that is not an existing node may only come last (panics)
    aborts: Vec<(usize, usize)>,        // (call index, node): that node panics inside Node::process during that call
    label: String,                      // generator description (printed instead of the edge list for big cases)
}

/// plain reference: nodes with a directed path to `root`, plus `root` (BFS over reversed edges)
fn upstream(n: usize, edges: &[(usize, usize)], root: usize) -> Vec<bool> {
    let mut seen = vec![false; n];
    let mut q = VecDeque::new();
    seen[root] = true; q.push_back(root);
    while let Some(x) = q.pop_front() {
        for &(a, b) in edges { if b == x && !seen[a] { seen[a] = true; q.push_back(a); } }
    }
    seen
}

/// is the subgraph induced by `set` free of cycles (self-loops count)? Kahn's algorithm.
fn acyclic(n: usize, edges: &[(usize, usize)], set: &[bool]) -> bool {
    let mut indeg = vec![0usize; n];
    for &(a, b) in edges { if set[a] && set[b] { indeg[b] += 1; } }
    let mut q: Vec<usize> = (0..n).filter(|&i| set[i] && indeg[i] == 0).collect();
    let mut done = 0;
    while let Some(x) = q.pop() {
        done += 1;
        for &(a, b) in edges { if a == x && set[b] { indeg[b] -= 1; if indeg[b] == 0 { q.push(b); } } }
    }
    done == set.iter().filter(|&&s| s).count()
}

fn sorted(mut v: Vec<usize>) -> Vec<usize> { v.sort(); v }

/// peak length of a stack-based post-order DFS over the incoming lists (for the size histogram only)
fn dfs_stack_peak(inc: &[Vec<usize>], root: usize, bound: usize) -> usize {
    let (mut disc, mut fin) = (vec![false; bound], vec![false; bound]);
    let mut stack = vec![root];
    let mut peak = 1;
    while let Some(&nx) = stack.last() {
        if !disc[nx] { disc[nx] = true; for &m in &inc[nx] { if !disc[m] { stack.push(m); } } peak = peak.max(stack.len()); }
        else { stack.pop(); fin[nx] = true; }
    }
    peak
}

fn run_case<C: Cont>(st: &mut Stream, proc_: &mut Processor<C>, c: &Case) {
    let ctx = Rc::new(Ctx::default());
    let mut g = C::build(c.n, &c.init, &ctx);
    for &(a, b) in &c.edges { g.add(a, b); }
    // ground truth edge multiset, maintained by the harness alone
    let mut edges = c.edges.clone();
    for &(a, b) in &c.drop_edges {
        if let Some(p) = edges.iter().position(|&e| e == (a, b)) {
            if g.remove_one_edge(a, b) { edges.remove(p); } else { st.oracle_fail("petgraph: an inserted edge could not be found/removed (harness assumption)", &format!("{:?}", (a, b)), "", ""); }
        }
    }
    for &r in &c.removed { g.remove(r); edges.retain(|&(a, b)| a != r && b != r); }
    let bound = g.bound();
    let live: Vec<bool> = (0..bound).map(|i| g.live(i)).collect();
    {
        let mut addr = ctx.addr.borrow_mut();
        for i in 0..bound { if live[i] { addr.insert(g.bufs(i).as_ptr() as usize, (i, g.bufs(i).len())); } }
    }
    let inc: Vec<Vec<usize>> = (0..bound).map(|i| if live[i] { g.inc(i) } else { vec![] }).collect();
    let outg: Vec<Vec<usize>> = (0..bound).map(|i| if live[i] { g.outg(i) } else { vec![] }).collect();
    let init: Vec<u64> = (0..bound).map(|i| if live[i] { c.init[i] } else { 0 }).collect();

    let mut op = format!("proc {} {}", bound, if bound == 0 { "-".to_string() } else { live.iter().map(|&b| if b { '1' } else { '0' }).collect() });
    for l in &inc { op.push(' '); op.push_str(&show_list(l)); }
    for l in &outg { op.push(' '); op.push_str(&show_list(l)); }
    op.push(' '); op.push_str(&show_list64(&init));
    op.push(' ');
    if c.roots.is_empty() { op.push('-'); } else {
        let toks: Vec<String> = c.roots.iter().enumerate().map(|(i, r)| match c.aborts.iter().find(|a| a.0 == i) { Some(a) => format!("{}!{}", r, a.1), None => r.to_string() }).collect();
        op.push_str(&toks.join(","));
    }
    let case_txt = if c.label.starts_with("long-run") {
        let rare: Vec<usize> = c.roots.iter().enumerate().filter(|(_, &r)| r != c.roots[1]).map(|(i, _)| i).collect();
        format!("{} {} n={} edges={:?} ONE processor, {} consecutive process calls: output node {} on every call except output node {} on calls {:?}", C::NAME, c.label, c.n, c.edges, c.roots.len(), c.roots[1], c.roots[0], rare)
    } else if c.edges.len() <= 80 {
        format!("{} n={} edges={:?} dropped={:?} removed={:?} roots={:?} failing-nodes(call,node)={:?}", C::NAME, c.n, c.edges, c.drop_edges, c.removed, c.roots, c.aborts)
    } else {
        format!("{} {} n={} |edges|={} first edges={:?}… dropped={:?} removed={:?} roots={:?} failing-nodes(call,node)={:?} (regenerate with the same seed/tier; the full request line is in the stream)", C::NAME, c.label, c.n, c.edges.len(), &c.edges[..12], c.drop_edges, c.removed, c.roots, c.aborts)
    };

    mark(0, &case_txt);
    // harness assumption about petgraph: the adjacency it reports is the edge multiset we built
    for v in 0..bound {
        let want_in = sorted(edges.iter().filter(|e| e.1 == v).map(|e| e.0).collect());
        let want_out = sorted(edges.iter().filter(|e| e.0 == v).map(|e| e.1).collect());
        if sorted(inc[v].clone()) != want_in || sorted(outg[v].clone()) != want_out {
            st.oracle_fail("petgraph adjacency differs from the edges inserted (harness assumption, not the property)", &case_txt, &format!("{:?}/{:?}", want_in, want_out), &format!("{:?}/{:?}", inc[v], outg[v]));
        }
    }

    let mut obs: Vec<String> = Vec::new();
    let mut shadow: Vec<u64> = init.clone();       // what every node's buffers currently hold, per the log
    let mut first_log: BTreeMap<usize, Vec<usize>> = BTreeMap::new();   // root -> invocation order of its first call
    let mut prev: Option<(usize, Vec<u64>)> = None;                      // (root, buffers) of the previous call
    let mut last_bufs: Vec<u64> = init.clone();                          // buffers as the previous call (completed or unwound) left them
    let mut nontrivial = !c.removed.is_empty();
    for (call_ix, &root) in c.roots.iter().enumerate() {
        ctx.log.borrow_mut().clear();
        let failing = c.aborts.iter().find(|a| a.0 == call_ix).map(|a| a.1);
        ctx.panic_at.set(failing);
        let ok = guarded(|| g.run(proc_, root)).is_some();
        ctx.panic_at.set(None);
        let exists = root < bound && live[root];
        // did the failing user node get invoked (and unwind the call)?
        let aborted = !ok && exists && failing.is_some() && ctx.log.borrow().last().map(|l| Some(l.0) == failing).unwrap_or(false);
        if aborted { st.count("call_unwound_by_failing_user_node"); nontrivial = true; }
        if !ok && !aborted {
            obs.push("panic".into());
            st.count("panic");
            if exists { st.oracle_fail("process panicked on an existing output node", &case_txt, "no panic", "panic"); }
            else { st.oracle_ok(1); }
            break;
        }
        if !exists { st.oracle_fail("process on a missing node did not panic (documented: panics)", &case_txt, "panic", "returned"); }
        let log = ctx.log.borrow().clone();
        // ---- observation line
        let mut parts = Vec::new();
        for (n, ids, _) in &log {
            let s: Vec<String> = ids.iter().map(|i| match i { Some(i) => i.to_string(), None => "?".into() }).collect();
            parts.push(format!("{}<{}", n, if s.is_empty() { "-".into() } else { s.join(",") }));
        }
        let mut bufs_now: Vec<u64> = Vec::new();
        for i in 0..bound {
            if live[i] {
                let bs = g.bufs(i); let v = bs[0][0];
                if bs.iter().any(|b| b.iter().any(|&s| s.to_bits() != v.to_bits())) { ctx.anomalies.borrow_mut().push(format!("buffers of node {} not uniform after the call", i)); }
                bufs_now.push(v as u64);
            } else { bufs_now.push(0); }
        }
        obs.push(format!("{}{}={}", if aborted { "unwound:" } else { "" }, if parts.is_empty() { "-".into() } else { parts.join("|") }, show_list64(&bufs_now)));
        if !exists { continue; }
        if aborted {
            // the unwound call: every invocation up to and including the failing node still had to be
            // "given exactly one input per incoming edge from a different node", no node twice, only upstream nodes
            let up = upstream(bound, &edges, root);
            let mut seen = vec![false; bound];
            for (n, ids, vals) in log.iter() {
                if seen[*n] || !up[*n] { st.oracle_fail("unwound call: a node outside the upstream set was invoked, or one twice", &case_txt, "", &format!("node {}", n)); }
                seen[*n] = true;
                let want: Vec<usize> = sorted(edges.iter().filter(|e| e.1 == *n && e.0 != *n).map(|e| e.0).collect());
                let got: Option<Vec<usize>> = ids.iter().cloned().collect();
                match got {
                    Some(got_ids) if sorted(got_ids.clone()) == want => {
                        st.oracle_ok(1);
                        for (j, &i) in got_ids.iter().enumerate() { if vals[j] != shadow[i] { st.oracle_fail("an input does not show the neighbour's current buffer contents", &case_txt, &format!("node {} input {} (node {}) = {}", n, j, i, shadow[i]), &vals[j].to_string()); } }
                    }
                    other => st.oracle_fail("inputs of an invocation differ from one per incoming edge from a different node", &case_txt, &format!("node {}: {:?}", n, want), &format!("{:?}", other)),
                }
                if Some(*n) != failing { shadow[*n] = hash_node(*n, vals); }
            }
            if shadow != bufs_now { st.oracle_fail("node buffers after the unwound call differ from what the invoked nodes wrote", &case_txt, &format!("{:?}", shadow), &format!("{:?}", bufs_now)); }
            prev = None;
            last_bufs = bufs_now.clone();
            continue;
        }

        // ---- oracle, from the property text
        let up = upstream(bound, &edges, root);
        let order: Vec<usize> = log.iter().map(|l| l.0).collect();
        let want_set: Vec<usize> = (0..bound).filter(|&i| up[i]).collect();
        // "invokes every node that has a directed path to the output node, and the output node itself,
        //  exactly once and invokes no other node"
        if sorted(order.clone()) != want_set {
            st.oracle_fail("invoked nodes differ from {nodes with a path to the output node} ∪ {output node}, each once", &case_txt, &format!("{:?}", want_set), &format!("{:?}", order));
        } else { st.oracle_ok(1); }
        // "exactly one input per incoming edge from a different node, each referring to that neighbour's
        //  current output buffers, and a node's own buffers are never presented to it"
        let mut pos = vec![usize::MAX; bound];
        let mut inputs_ok = true;
        for (k, (n, ids, vals)) in log.iter().enumerate() {
            let want: Vec<usize> = sorted(edges.iter().filter(|e| e.1 == *n && e.0 != *n).map(|e| e.0).collect());
            let got: Option<Vec<usize>> = ids.iter().cloned().collect();
            match got {
                Some(got_ids) if sorted(got_ids.clone()) == want => {
                    st.oracle_ok(1);
                    for (j, &i) in got_ids.iter().enumerate() {
                        if vals[j] != shadow[i] {
                            st.oracle_fail("an input does not show the neighbour's current buffer contents", &case_txt, &format!("node {} input {} (node {}) = {}", n, j, i, shadow[i]), &vals[j].to_string());
                        }
                    }
                }
                other => { inputs_ok = false; st.oracle_fail("inputs of an invocation differ from one per incoming edge from a different node", &case_txt, &format!("node {}: {:?}", n, want), &format!("{:?}", other.map(|v| v.iter().map(|x| x.to_string()).collect::<Vec<_>>()).unwrap_or(vec![format!("{:?}", ids)]))) }
            }
            if ids.iter().any(|i| *i == Some(*n)) { st.oracle_fail("a node's own buffers were presented to it as an input", &case_txt, "", &format!("node {}", n)); }
            shadow[*n] = hash_node(*n, vals);
            if pos[*n] == usize::MAX { pos[*n] = k; }
        }
        if shadow != bufs_now { st.oracle_fail("node buffers after the call differ from what the invoked nodes wrote", &case_txt, &format!("{:?}", shadow), &format!("{:?}", bufs_now)); }
        // "whenever the upstream subgraph is acyclic every node is processed after all nodes that feed it,
        //  so the output buffers equal the functional evaluation of the graph"
        let dag = acyclic(bound, &edges, &up);
        if dag && sorted(order.clone()) == want_set {
            let mut bad = false;
            for &(a, b) in &edges { if up[b] && !(pos[a] < pos[b]) { bad = true; st.oracle_fail("a node was processed before a node that feeds it (acyclic upstream subgraph)", &case_txt, &format!("{} before {}", a, b), &format!("{:?}", order)); break; } }
            if !bad && inputs_ok {
                // recursive functional evaluation (memoised), inputs in the order they were presented
                let before: Vec<u64> = last_bufs.clone();
                let mut memo: Vec<Option<u64>> = vec![None; bound];
                fn eval(v: usize, log: &[(usize, Vec<Option<usize>>, Vec<u64>)], pos: &[usize], memo: &mut Vec<Option<u64>>) -> u64 {
                    if let Some(x) = memo[v] { return x; }
                    let ins: Vec<u64> = log[pos[v]].1.iter().map(|i| eval(i.unwrap(), log, pos, memo)).collect();
                    let x = hash_node(v, &ins); memo[v] = Some(x); x
                }
                for v in 0..bound {
                    let want = if up[v] { eval(v, &log, &pos, &mut memo) } else { before[v] };
                    if bufs_now[v] != want { st.oracle_fail("output buffers differ from the functional evaluation of the (acyclic) upstream subgraph", &case_txt, &format!("node {} = {}", v, want), &bufs_now[v].to_string()); bad = true; break; }
                }
                if !bad { st.oracle_ok(1); }
            }
            st.count("upstream_acyclic");
        } else { st.count("upstream_cyclic"); }
        // repeated calls with one processor: same invocation order for the same output node; same buffers when acyclic
        if let Some(o) = first_log.get(&root) {
            if *o != order { st.oracle_fail("a repeated process call with the same processor invoked different nodes/order", &case_txt, &format!("{:?}", o), &format!("{:?}", order)); } else { st.oracle_ok(1); }
        } else { first_log.insert(root, order.clone()); }
        if let Some((r0, b0)) = &prev {
            if *r0 == root && dag && *b0 != bufs_now { st.oracle_fail("second process call (acyclic) changed the buffers", &case_txt, &format!("{:?}", b0), &format!("{:?}", bufs_now)); }
        }
        prev = Some((root, bufs_now.clone()));
        last_bufs = bufs_now.clone();
        // non-triviality (the existing tests build trees feeding one or two sums)
        let n_up = want_set.len();
        let shared = (0..bound).any(|a| up[a] && edges.iter().filter(|e| e.0 == a && up[e.1]).count() >= 2);
        if !dag || n_up < (0..bound).filter(|&i| live[i]).count() || shared { nontrivial = true; }
    }
    // sources / sinks: "return exactly the existing nodes that have no incoming / no outgoing edges"
    let (srcs, snks) = (g.srcs(), g.snks());
    obs.push(format!("src:{}", show_list(&srcs)));
    obs.push(format!("snk:{}", show_list(&snks)));
    let want_src: Vec<usize> = (0..bound).filter(|&i| live[i] && !edges.iter().any(|e| e.1 == i)).collect();
    let want_snk: Vec<usize> = (0..bound).filter(|&i| live[i] && !edges.iter().any(|e| e.0 == i)).collect();
    if sorted(srcs.clone()) != want_src || srcs.len() != want_src.len() { st.oracle_fail("sources() differs from the existing nodes without incoming edges", &case_txt, &format!("{:?}", want_src), &format!("{:?}", srcs)); } else { st.oracle_ok(1); }
    if sorted(snks.clone()) != want_snk || snks.len() != want_snk.len() { st.oracle_fail("sinks() differs from the existing nodes without outgoing edges", &case_txt, &format!("{:?}", want_snk), &format!("{:?}", snks)); } else { st.oracle_ok(1); }
    for a in ctx.anomalies.borrow().iter() { st.oracle_fail(a, &case_txt, "", ""); }

    if !c.label.is_empty() {
        st.count(&format!("gen_{}", c.label.split(' ').next().unwrap_or("")));
        // how far the traversal stack and the per-node input list were stretched (histogram only)
        if let Some(&r) = c.roots.first() { if r < bound && live[r] {
            let peak = dfs_stack_peak(&inc, r, bound);
            st.count(if peak > 4096 { "dfs_stack_peak_gt_4096" } else if peak > 1024 { "dfs_stack_peak_gt_1024" } else if peak > 256 { "dfs_stack_peak_gt_256" } else { "dfs_stack_peak_le_256" });
        } }
        let maxin = inc.iter().map(|l| l.len()).max().unwrap_or(0);
        st.count(if maxin > 900 { "max_indegree_gt_900" } else if maxin > 512 { "max_indegree_gt_512" } else if maxin > 256 { "max_indegree_gt_256" } else if maxin > 64 { "max_indegree_gt_64" } else { "max_indegree_le_64" });
    }
    st.count(&format!("{}_nodes_{:02}", C::NAME, if bound <= 4 { bound } else { (bound + 9) / 10 * 10 }));
    if !c.removed.is_empty() { st.count("stable_with_vacant_slots"); }
    let evals = c.roots.len() as u64;
    // the long runs are checked by the oracles above only (their request line would be megabytes)
    if c.label.starts_with("long-run") { st.count("long_run_calls_on_one_processor_gt_260k"); return; }
    st.case(&op, &obs.join(" "), nontrivial, evals);
    // break the Rc cycle-free structures explicitly (nodes hold ctx clones; graph drops here)
}

/// all multigraphs on `n` nodes with edge multiplicity <= `maxm` (self-loops included), every output node
fn exhaustive<C: Cont>(st: &mut Stream, proc_: &mut Processor<C>, n: usize, maxm: usize, with_removal: bool) {
    let pairs: Vec<(usize, usize)> = (0..n).flat_map(|a| (0..n).map(move |b| (a, b))).collect();
    let total = (maxm as u64 + 1).pow(pairs.len() as u32);
    for code in 0..total {
        let mut edges = Vec::new();
        let mut x = code;
        for &(a, b) in &pairs { let m = (x % (maxm as u64 + 1)) as usize; x /= maxm as u64 + 1; for _ in 0..m { edges.push((a, b)); } }
        let removed: Vec<usize> = if with_removal { vec![(code % n as u64) as usize] } else { vec![] };
        for root in 0..n {
            if removed.contains(&root) { continue; }
            let init: Vec<u64> = (0..n).map(|i| 100 + 7 * i as u64).collect();
            let c = Case { n, edges: edges.clone(), drop_edges: vec![], removed: removed.clone(), init, roots: vec![root, root], aborts: vec![], label: String::new() };
            run_case(st, proc_, &c);
            // the same with a user node that fails during the first call (every node in turn): the unwound
            // call must leave the processor usable, the second call is an ordinary one
            for k in 0..n {
                if removed.contains(&k) { continue; }
                let init: Vec<u64> = (0..n).map(|i| 100 + 7 * i as u64).collect();
                let c = Case { n, edges: edges.clone(), drop_edges: vec![], removed: removed.clone(), init, roots: vec![root, root], aborts: vec![(0, k)], label: String::new() };
                run_case(st, proc_, &c);
            }
        }
    }
    st.count_n(&format!("exhaustive_{}_n{}_mult{}{}", C::NAME, n, maxm, if with_removal { "_one_removed" } else { "" }), total);
}

fn random_case<C: Cont>(rng: &mut Rng) -> Case {
    let n = match rng.below(4) { 0 => 1 + rng.usize_below(5), 1 => 4 + rng.usize_below(8), _ => 6 + rng.usize_below(35) };
    // sparse / medium / dense; forward-only (acyclic) half of the time so that large DAGs are common
    let m = match rng.below(3) { 0 => rng.usize_below(n + 1), 1 => rng.usize_below(2 * n + 1), _ => rng.usize_below(4 * n + 1) };
    let forward_only = rng.chance(1, 2);
    let mut edges = Vec::new();
    for _ in 0..m {
        let (mut a, mut b) = (rng.usize_below(n), rng.usize_below(n));
        if forward_only { if a == b { continue; } if a > b { std::mem::swap(&mut a, &mut b); } }
        edges.push((a, b));
        if rng.chance(1, 8) { edges.push((a, b)); }                 // parallel edge
    }
    if !forward_only && rng.chance(1, 3) { let a = rng.usize_below(n); edges.push((a, a)); }
    let mut drop_edges = Vec::new();
    if !edges.is_empty() { for _ in 0..rng.usize_below(3) { drop_edges.push(*rng.pick(&edges)); } }
    let mut removed = Vec::new();
    if C::STABLE && rng.chance(2, 3) {
        let k = 1 + rng.usize_below((n / 3).max(1));
        for _ in 0..k { let r = rng.usize_below(n); if !removed.contains(&r) && removed.len() + 1 < n { removed.push(r); } }
    }
    let livev: Vec<usize> = (0..n).filter(|i| !removed.contains(i)).collect();
    let mut roots = Vec::new();
    let r0 = *rng.pick(&livev);
    roots.push(r0); roots.push(r0);
    for _ in 0..rng.usize_below(3) { roots.push(*rng.pick(&livev)); }
    if rng.chance(1, 2) { roots.push(r0); }
    if rng.chance(1, 25) {
        // a missing node (beyond the bound, or a vacant slot): documented panic, must come last
        if !removed.is_empty() && rng.chance(1, 2) {
            // a vacant slot strictly below the node bound
            let maxlive = *livev.iter().max().unwrap();
            if let Some(&r) = removed.iter().find(|&&r| r < maxlive) { roots.push(r); } else { roots.push(n + rng.usize_below(3)); }
        } else { roots.push(n + rng.usize_below(3)); }
    }
    let init: Vec<u64> = (0..n).map(|_| rng.below(4093)).collect();
    // a user node that panics during one of the calls (caught by the caller, processor reused)
    let mut aborts = Vec::new();
    let n_real = roots.iter().filter(|&&r| r < n && !removed.contains(&r)).count();
    if n_real > 0 && rng.chance(1, 3) {
        for _ in 0..1 + rng.usize_below(2) {
            let i = rng.usize_below(n_real);
            if !aborts.iter().any(|a: &(usize, usize)| a.0 == i) { aborts.push((i, *rng.pick(&livev))); }
        }
    }
    Case { n, edges, drop_edges, removed, init, roots, aborts, label: String::new() }
}


fn shuffle<T>(rng: &mut Rng, v: &mut Vec<T>) { for i in (1..v.len()).rev() { let j = rng.usize_below(i + 1); v.swap(i, j); } }

/// LARGE DENSE graphs: complete DAGs / dense random DAGs / dense cyclic multigraphs, in several edge-insertion
/// orders (petgraph yields the most recently inserted edge first, so the order decides whether the
/// traversal dives into the best-connected neighbour first and the stack grows to ~n^2/2 entries)
fn big_dense_case(rng: &mut Rng, kind: &str, n: usize, order: &str) -> Case {
    let mut edges = Vec::new();
    match kind {
        "complete-dag" => { for a in 0..n { for b in a + 1..n { edges.push((a, b)); } } }
        "dense-dag" => { for a in 0..n { for b in a + 1..n { if rng.chance(3, 5) { edges.push((a, b)); if rng.chance(1, 10) { edges.push((a, b)); } } } } }
        _ => { for a in 0..n { for b in 0..n { if rng.chance(2, 5) { edges.push((a, b)); if rng.chance(1, 10) { edges.push((a, b)); } } } } }
    }
    match order {
        "asc" => {}
        "desc" => edges.reverse(),
        "by-target-desc" => edges.sort_by(|x, y| (y.1, y.0).cmp(&(x.1, x.0))),
        "by-target-asc" => edges.sort_by(|x, y| (x.1, y.0).cmp(&(y.1, x.0))),
        _ => shuffle(rng, &mut edges),
    }
    let root = if kind == "dense-cyclic" { rng.usize_below(n) } else { n - 1 - rng.usize_below(2) };
    let init: Vec<u64> = (0..n).map(|_| rng.below(4093)).collect();
    Case { n, edges, drop_edges: vec![], removed: vec![], init, roots: vec![root, root, root], aborts: if n % 2 == 0 { vec![(1, n / 2)] } else { vec![] }, label: format!("big-{} order={}", kind, order) }
}

/// WIDE nodes: one hub with `k_inputs` incoming edges from `distinct` different sources (the surplus are
/// parallel edges), a self-loop on the hub, a few edges among the sources and a sink behind the hub
fn wide_case(rng: &mut Rng, k_inputs: usize, distinct: usize) -> Case {
    let n = distinct + 2;
    let hub = rng.usize_below(n - 1);
    let sink = n - 1;
    let srcs: Vec<usize> = (0..n - 1).filter(|&i| i != hub).collect();
    let mut edges = Vec::new();
    for &s in &srcs { edges.push((s, hub)); }
    for _ in distinct..k_inputs { edges.push((*rng.pick(&srcs), hub)); }
    edges.push((hub, hub)); edges.push((hub, hub));
    for _ in 0..distinct / 4 { let (a, b) = (*rng.pick(&srcs), *rng.pick(&srcs)); if a < b { edges.push((a, b)); } }
    edges.push((hub, sink));
    shuffle(rng, &mut edges);
    let init: Vec<u64> = (0..n).map(|_| rng.below(4093)).collect();
    Case { n, edges, drop_edges: vec![], removed: vec![], init, roots: vec![hub, hub, sink, hub], aborts: if k_inputs % 2 == 0 { vec![(1, hub)] } else { vec![(2, sink)] }, label: format!("wide inputs={} distinct={}", k_inputs, distinct) }
}

/// the big cases run on FRESH processors created with a small or a large `with_capacity`
fn run_big<C: Cont>(st: &mut Stream, c: &Case, cap: usize) where C::Map: Default {
    let mut p: Processor<C> = Processor::with_capacity(cap);
    st.count(&format!("fresh_processor_capacity_{}", if cap <= 8 { "small" } else { "large" }));
    run_case(st, &mut p, c);
}

fn big_cases(st: &mut Stream, rng: &mut Rng, thorough: bool) {
    type G = Graph<NodeData<Instr>, ()>;
    type S = StableGraph<NodeData<Instr>, ()>;
    // quick: two complete DAGs in the two extreme insertion orders, one dense DAG, one dense cyclic multigraph
    let mut plan: Vec<(&str, usize, &str)> = vec![("complete-dag", 160, "desc"), ("complete-dag", 120, "asc"), ("dense-dag", 150, "by-target-desc"), ("dense-cyclic", 100, "shuffle")];
    if thorough {
        for kind in ["complete-dag", "dense-dag", "dense-cyclic"] { for order in ["asc", "desc", "by-target-desc", "by-target-asc", "shuffle", "shuffle"] {
            plan.push((kind, 90 + rng.usize_below(111), order));
        } }
        plan.push(("complete-dag", 200, "desc"));
    }
    for (i, &(kind, n, order)) in plan.iter().enumerate() {
        let c = big_dense_case(rng, kind, n, order);
        let cap = if i % 2 == 0 { n } else { rng.usize_below(5) };
        if i % 3 == 2 { run_big::<S>(st, &c, cap); } else { run_big::<G>(st, &c, cap); }
    }
    let mut wides: Vec<(usize, usize)> = vec![(300, 290), (700, 150), (1000, 400), (700, 700)];
    if thorough { for _ in 0..24 { let k = 257 + rng.usize_below(1200); wides.push((k, 1 + rng.usize_below(k))); } wides.push((2000, 3)); }
    for (i, &(k, d)) in wides.iter().enumerate() {
        let c = wide_case(rng, k, d);
        // small capacities (0..4), the node count, and more than the widest input list
        for cap in [rng.usize_below(5), c.n, 2 * k] {
            if i % 2 == 0 { run_big::<G>(st, &c, cap); } else { run_big::<S>(st, &c, cap); }
        }
    }
}

/// a small two-bus graph processed several hundred thousand times by ONE processor: the main output on almost every
/// call, the other output only at calls whose distances from each other are 255, 256, 257, 65534, 65535, 65536, 65537
/// (whatever per-call bookkeeping a processor keeps — visit stamps, generation counters — must not wrap into a wrong answer)
fn long_run_case(rng: &mut Rng) -> Case {
    let n = 5 + rng.usize_below(3);
    // 0 = source, main bus ends in n-2, monitor bus ends in n-1; both hang off the source, some cross edges
    let (main, mon) = (n - 2, n - 1);
    let mut edges = vec![(0, 1), (1, main), (0, 2), (2, mon)];
    for _ in 0..rng.usize_below(4) { let a = rng.usize_below(n - 2); let b = 1 + rng.usize_below(n - 1); if a < b { edges.push((a, b)); } }
    let init: Vec<u64> = (0..n).map(|i| 1000 + i as u64).collect();
    let mut rare = vec![0usize];
    for d in [255usize, 256, 257, 65534, 65535, 65536, 65537] { rare.push(rare.last().unwrap() + d); }
    let total = rare.last().unwrap() + 3;
    let mut roots = vec![main; total];
    for &i in &rare { roots[i] = mon; }
    Case { n, edges, drop_edges: vec![], removed: vec![], init, roots, aborts: vec![], label: "long-run two-bus".into() }
}

/// DEGENERATE SHAPES: nodes that own NO buffers at all (a control / trigger node, a device sink). They cannot be told
/// apart by buffer address, so this family has its own instrumented node: every invocation logs, per input, how many
/// buffers it carries and (when it carries any) whose they are. Oracle from the property text: every node upstream of
/// the output node is invoked exactly once, after its inputs when the upstream part is acyclic, and receives exactly
/// one input per incoming edge from a different node — bufferless inputs included.
struct Bl { id: usize, log: Rc<RefCell<Vec<(usize, Vec<(usize, Option<usize>)>)>>>, addr: Rc<RefCell<HashMap<usize, usize>>> }
impl Node for Bl {
    fn process(&mut self, inputs: &[Input], _output: &mut [Buffer]) {
        let addr = self.addr.borrow();
        let ins = inputs.iter().map(|i| { let b = i.buffers(); (b.len(), if b.is_empty() { None } else { addr.get(&(b.as_ptr() as usize)).copied() }) }).collect();
        self.log.borrow_mut().push((self.id, ins));
    }
}
fn bufferless_cases(st: &mut Stream, rng: &mut Rng, reps: usize) {
    for rep in 0..reps {
        let n = 2 + rng.usize_below(5);
        let nbuf: Vec<usize> = (0..n).map(|i| if i == rep % n { 0 } else { *rng.pick(&[0usize, 0, 1, 2]) }).collect();
        let mut edges: Vec<(usize, usize)> = Vec::new();
        for _ in 0..rng.usize_below(2 * n + 2) {
            let (a, b) = (rng.usize_below(n), rng.usize_below(n));
            if a < b || (a == b && rng.chance(1, 3)) { edges.push((a, b)); }     // forward edges (parallel ones included) and some self-loops
        }
        let root = n - 1 - rng.usize_below(2.min(n - 1));
        let stable = rep % 2 == 1;
        let log = Rc::new(RefCell::new(Vec::new()));
        let addr = Rc::new(RefCell::new(HashMap::new()));
        let case = format!("{} n={} buffers per node={:?} edges={:?} output node {}", if stable { "stable" } else { "graph" }, n, nbuf, edges, root);
        mark(0, &case);
        let mk = |i: usize| NodeData::new(Bl { id: i, log: log.clone(), addr: addr.clone() }, vec![Buffer::SILENT; nbuf[i]]);
        let mut runs: Vec<Vec<(usize, Vec<(usize, Option<usize>)>)>> = Vec::new();
        let ok = guarded(|| {
            if stable {
                let mut g = StableGraph::<NodeData<Bl>, ()>::with_capacity(0, 0);
                for i in 0..n { g.add_node(mk(i)); }
                for &(a, b) in &edges { g.add_edge(NodeIndex::new(a), NodeIndex::new(b), ()); }
                for i in 0..n { if nbuf[i] > 0 { addr.borrow_mut().insert(g[NodeIndex::new(i)].buffers.as_ptr() as usize, i); } }
                let mut p = Processor::with_capacity(n);
                for _ in 0..2 { log.borrow_mut().clear(); p.process(&mut g, NodeIndex::new(root)); runs.push(log.borrow().clone()); }
            } else {
                let mut g = Graph::<NodeData<Bl>, ()>::with_capacity(0, 0);
                for i in 0..n { g.add_node(mk(i)); }
                for &(a, b) in &edges { g.add_edge(NodeIndex::new(a), NodeIndex::new(b), ()); }
                for i in 0..n { if nbuf[i] > 0 { addr.borrow_mut().insert(g[NodeIndex::new(i)].buffers.as_ptr() as usize, i); } }
                let mut p = Processor::with_capacity(n);
                for _ in 0..2 { log.borrow_mut().clear(); p.process(&mut g, NodeIndex::new(root)); runs.push(log.borrow().clone()); }
            }
        }).is_some();
        st.count("bufferless_node_cases");
        if !ok { st.oracle_fail("process panicked on a graph with bufferless nodes", &case, "no panic", "panic"); continue; }
        let up = upstream(n, &edges, root);
        for (call, run) in runs.iter().enumerate() {
            let mut seen = vec![0usize; n];
            let mut bad: Option<String> = None;
            for (pos, (id, ins)) in run.iter().enumerate() {
                seen[*id] += 1;
                let mut want_ids: Vec<usize> = edges.iter().filter(|e| e.1 == *id && e.0 != *id && nbuf[e.0] > 0).map(|e| e.0).collect(); want_ids.sort();
                let want_empty = edges.iter().filter(|e| e.1 == *id && e.0 != *id && nbuf[e.0] == 0).count();
                let mut got_ids: Vec<usize> = ins.iter().filter_map(|(k, who)| if *k > 0 { Some(who.unwrap_or(usize::MAX)) } else { None }).collect(); got_ids.sort();
                let got_empty = ins.iter().filter(|(k, _)| *k == 0).count();
                if got_ids != want_ids || got_empty != want_empty || ins.iter().any(|(k, who)| who.map_or(false, |w| nbuf[w] != *k)) {
                    bad = Some(format!("call {}: node {} got inputs from {:?} plus {} bufferless, expected from {:?} plus {} bufferless", call, id, got_ids, got_empty, want_ids, want_empty)); break;
                }
                // acyclic by construction apart from self-loops: every input's node was invoked earlier in this call
                for e in edges.iter().filter(|e| e.1 == *id && e.0 != *id) { if !run[..pos].iter().any(|r| r.0 == e.0) { bad = Some(format!("call {}: node {} invoked before its input node {}", call, id, e.0)); } }
            }
            for i in 0..n { if seen[i] != up[i] as usize && bad.is_none() { bad = Some(format!("call {}: node {} invoked {} time(s), expected {}", call, i, seen[i], up[i] as usize)); } }
            match bad { None => st.oracle_ok(run.len() as u64 + 1), Some(b) => st.oracle_fail("graph with bufferless nodes: invocation set / order / inputs differ from the property's rule", &case, "", &b) }
        }
    }
}

fn run(a: &Args) {
    let mut st = Stream::new(&a.out, "proc");
    let mut rng = Rng::new(a.seed, "proc");
    // ONE processor per container type, reused across every differently shaped graph of the stream
    let mut pg: Processor<Graph<NodeData<Instr>, ()>> = Processor::with_capacity(0);
    let mut ps: Processor<StableGraph<NodeData<Instr>, ()>> = Processor::with_capacity(0);
    let n_rand = if a.thorough() { 40_000 } else { 4_000 };
    // a few large graphs first so that the processor's visit maps are longer than most later graphs need
    for _ in 0..20 { let c = random_case::<Graph<NodeData<Instr>, ()>>(&mut rng); run_case(&mut st, &mut pg, &c); }
    for _ in 0..20 { let c = random_case::<StableGraph<NodeData<Instr>, ()>>(&mut rng); run_case(&mut st, &mut ps, &c); }
    big_cases(&mut st, &mut rng, a.thorough());
    // medium-wide hubs and dense graphs also go through the two long-lived, reused processors
    for _ in 0..(if a.thorough() { 12 } else { 2 }) {
        let k = 200 + rng.usize_below(500);
        let d = 1 + rng.usize_below(k);
        let c = wide_case(&mut rng, k, d); run_case(&mut st, &mut pg, &c);
        let nn = 40 + rng.usize_below(50);
        let c = big_dense_case(&mut rng, "dense-cyclic", nn, "shuffle"); run_case(&mut st, &mut ps, &c);
    }
    bufferless_cases(&mut st, &mut rng, if a.thorough() { 4000 } else { 600 });
    {
        let c = long_run_case(&mut rng);
        let mut fresh: Processor<Graph<NodeData<Instr>, ()>> = Processor::with_capacity(c.n);
        run_case(&mut st, &mut fresh, &c);
        let c = long_run_case(&mut rng);
        let mut fresh: Processor<StableGraph<NodeData<Instr>, ()>> = Processor::with_capacity(0);
        run_case(&mut st, &mut fresh, &c);
    }
    for n in 1..=3 {
        exhaustive(&mut st, &mut pg, n, 2, false);
        exhaustive(&mut st, &mut ps, n, 2, false);
        if n >= 2 { exhaustive(&mut st, &mut ps, n, 2, true); }
    }
    if a.thorough() {
        exhaustive(&mut st, &mut pg, 4, 1, false);
        exhaustive(&mut st, &mut ps, 4, 1, false);
        exhaustive(&mut st, &mut ps, 4, 1, true);
    }
    for i in 0..n_rand {
        if i % 2 == 0 { let c = random_case::<Graph<NodeData<Instr>, ()>>(&mut rng); run_case(&mut st, &mut pg, &c); }
        else { let c = random_case::<StableGraph<NodeData<Instr>, ()>>(&mut rng); run_case(&mut st, &mut ps, &c); }
    }
    st.note("exhaustive part: every multigraph on 1..3 nodes with edge multiplicity <= 2 (self-loops included) x every output node, Graph and StableGraph, plus StableGraph with one node removed; thorough adds 4 nodes with multiplicity <= 1; the random part (<= 40 nodes) is sampled; plus LARGE DENSE graphs (complete / dense DAGs and dense cyclic multigraphs, 90..200 nodes, thousands of edges, several edge-insertion orders so that the traversal stack peaks beyond 4096 entries) and WIDE hubs (257..2000 incoming edges incl. parallel edges and a self-loop) on fresh processors created with small and large capacities");
    st.exhaustive = false;
    st.finish();
}
