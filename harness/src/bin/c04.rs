//! C04 / C05 — signal sources, adaptors and consumers of dasp_signal.
//!
//! Streams `adapt` (C04: frames, pull counts, inspect logs, by-ref hand-backs) and `exhaust`
//! (C05: `is_exhausted`, calls past the end, take / until_exhausted / lift /
//! into_interleaved_samples).  One case = one adaptor tree in prefix notation + an op script
//! (syntax: lean/Dasp/Driver/Signal.lean).  The real code is driven through a private
//! `Dyn(Box<dyn Signal>)` wrapper; sources are wrapped in pull counters, iterators count their
//! `next` calls and are *not fused* (after their first `None` they would yield the sentinel 77).
//!
//! Independent oracle (`den` / `exp_*` below): written from the property text with plain `Vec`s —
//! every node's output is the pointwise frame function applied to the source vectors padded
//! with equilibrium, `delay k` prepends k equilibrium frames, length = min over sources
//! (+k under a delay), every `next` pulls each source once except under a delay still silent.
#[path = "../util.rs"]
mod util;
#[path = "../typed.rs"]
mod typed;
use dasp_frame::Frame;
use dasp_signal::{self as signal, Signal};
use std::cell::{Cell, RefCell};
use std::rc::Rc;
use util::*;

// ------------------------------------------------------------------------------------------
// plumbing around the real code

pub struct Dyn<'a, F>(Box<dyn Signal<Frame = F> + 'a>);
impl<'a, F: Frame> Signal for Dyn<'a, F> {
    type Frame = F;
    fn next(&mut self) -> F { self.0.next() }
    fn is_exhausted(&self) -> bool { self.0.is_exhausted() }
}

struct Counted<S> { s: S, pulls: Rc<Cell<u64>> }
impl<S: Signal> Signal for Counted<S> {
    type Frame = S::Frame;
    fn next(&mut self) -> S::Frame { self.pulls.set(self.pulls.get() + 1); self.s.next() }
    fn is_exhausted(&self) -> bool { self.s.is_exhausted() }
}

/// counts `next` calls; not fused: after the first `None` it yields the sentinel
struct CountIter<T: Copy> { items: Vec<T>, pos: usize, ended: bool, calls: Rc<Cell<u64>>, sentinel: T }
impl<T: Copy> Iterator for CountIter<T> {
    type Item = T;
    fn next(&mut self) -> Option<T> {
        self.calls.set(self.calls.get() + 1);
        if self.ended { return Some(self.sentinel); }
        if self.pos < self.items.len() { self.pos += 1; Some(self.items[self.pos - 1]) } else { self.ended = true; None }
    }
}

/// one frame type under test; `O` is the oracle's scalar (i64 / f64)
pub trait Kind: Frame + PartialEq + std::fmt::Debug + 'static {
    type O: Copy + PartialEq + std::fmt::Debug + 'static;
    const NAME: &'static str;
    const N: usize;
    const FLOAT: bool;
    /// add_amp of two signals of this same frame type is possible (Signed = Self)
    const HAS_ADD: bool;
    /// width of the integer sample format (0 for float formats)
    const BITS: u32;
    /// the sample with signed amplitude `a` (integer formats)
    fn raw(a: i128) -> Self::O;
    fn to_o(s: Self::Sample) -> Self::O;
    fn of_o(o: Self::O) -> Self::Sample;
    fn tok(o: Self::O) -> String;
    fn amp_tok(p: i32) -> String;
    /// sample number `i` of the kind's grid (ints: i, floats: i/16, unsigned: equilibrium + i)
    fn grid(i: i64) -> Self::O;
    /// signed amount number `i` (offsets, thresholds, steps)
    fn delta(i: i64) -> Self::O;
    /// the signed amount `a` (integer formats)
    fn wide_delta(a: i128) -> Self::O;
    /// sample plus signed amount
    fn o_shift(a: Self::O, k: Self::O) -> Self::O;
    // plain arithmetic of the oracle and of the user closures
    fn o_add(a: Self::O, b: Self::O) -> Self::O;
    fn o_sub(a: Self::O, b: Self::O) -> Self::O;
    fn o_neg(a: Self::O) -> Self::O;
    fn o_lin(a: Self::O, i: u64, b: Self::O) -> Self::O;
    /// amplitude times p/4 (integer formats: toward zero, saturating at the format's range)
    fn o_scale(a: Self::O, p: i32) -> Self::O;
    fn o_mul(a: Self::O, b: Self::O) -> Self::O;
    /// limit the signed amplitude to [-t, t]
    fn o_clip(t: Self::O, a: Self::O) -> Self::O;
    // adaptors whose trait bounds depend on the sample format
    fn add<'a>(a: Dyn<'a, Self>, b: Dyn<'a, Self>) -> Dyn<'a, Self>;
    fn mul<'a>(a: Dyn<'a, Self>, b: Dyn<'a, Self>) -> Dyn<'a, Self>;
    fn scale<'a>(a: Dyn<'a, Self>, p: i32) -> Dyn<'a, Self>;
    fn offset<'a>(a: Dyn<'a, Self>, k: Self::O) -> Dyn<'a, Self>;
    fn scale_pc<'a>(a: Dyn<'a, Self>, ps: &[i32]) -> Dyn<'a, Self>;
    fn offset_pc<'a>(a: Dyn<'a, Self>, ks: &[Self::O]) -> Dyn<'a, Self>;
    fn clip<'a>(a: Dyn<'a, Self>, t: Self::O) -> Dyn<'a, Self>;

    fn unframe(f: Self) -> Vec<Self::O> { f.channels().map(Self::to_o).collect() }
    fn frame(v: &[Self::O]) -> Self { Self::from_fn(|i| Self::of_o(v[i])) }
    fn zero() -> Self::O { Self::grid(0) }
}

macro_rules! int_kind {
    ($F:ty, $S:ty, $FL:ty, $name:expr, $n:expr) => {
        impl Kind for $F {
            type O = i128;
            const NAME: &'static str = $name;
            const N: usize = $n;
            const FLOAT: bool = false;
            const HAS_ADD: bool = true;
            const BITS: u32 = <$S>::BITS;
            fn raw(a: i128) -> i128 { a }
            fn delta(i: i64) -> i128 { i as i128 }
            fn wide_delta(a: i128) -> i128 { a }
            fn o_shift(a: i128, k: i128) -> i128 { a + k }
            fn to_o(s: $S) -> i128 { s as i128 }
            fn of_o(o: i128) -> $S { assert!(o >= <$S>::MIN as i128 && o <= <$S>::MAX as i128, "harness value out of range"); o as $S }
            fn tok(o: i128) -> String { o.to_string() }
            fn amp_tok(p: i32) -> String { p.to_string() }
            fn grid(i: i64) -> i128 { i as i128 }
            fn o_add(a: i128, b: i128) -> i128 { a + b }
            fn o_sub(a: i128, b: i128) -> i128 { a - b }
            fn o_neg(a: i128) -> i128 { -a }
            fn o_lin(a: i128, i: u64, b: i128) -> i128 { a + i as i128 * b }
            fn o_scale(a: i128, p: i32) -> i128 { (a * p as i128 / 4).clamp(<$S>::MIN as i128, <$S>::MAX as i128) }
            fn o_mul(_: i128, _: i128) -> i128 { unreachable!("mul_amp of two signals is generated for float frames only") }
            fn o_clip(t: i128, a: i128) -> i128 { a.clamp(-t, t) }
            fn add<'a>(a: Dyn<'a, Self>, b: Dyn<'a, Self>) -> Dyn<'a, Self> { Dyn(Box::new(a.add_amp(b))) }
            fn mul<'a>(_: Dyn<'a, Self>, _: Dyn<'a, Self>) -> Dyn<'a, Self> { unreachable!() }
            fn scale<'a>(a: Dyn<'a, Self>, p: i32) -> Dyn<'a, Self> { Dyn(Box::new(a.scale_amp(p as $FL / 4.0))) }
            fn offset<'a>(a: Dyn<'a, Self>, k: i128) -> Dyn<'a, Self> { Dyn(Box::new(a.offset_amp(Self::of_o(k)))) }
            fn scale_pc<'a>(a: Dyn<'a, Self>, ps: &[i32]) -> Dyn<'a, Self> {
                let fr: [$FL; $n] = core::array::from_fn(|i| ps[i] as $FL / 4.0);
                Dyn(Box::new(a.scale_amp_per_channel(fr)))
            }
            fn offset_pc<'a>(a: Dyn<'a, Self>, ks: &[i128]) -> Dyn<'a, Self> { Dyn(Box::new(a.offset_amp_per_channel(Self::frame(ks)))) }
            fn clip<'a>(a: Dyn<'a, Self>, t: i128) -> Dyn<'a, Self> { Dyn(Box::new(a.clip_amp(Self::of_o(t)))) }
        }
    };
}
int_kind!([i32; 2], i32, f32, "i2", 2);
int_kind!([i32; 3], i32, f32, "i3", 3);
int_kind!([i16; 2], i16, f32, "s2", 2);
int_kind!([i64; 2], i64, f64, "l2", 2);

/// unsigned samples: `Signed` = the signed twin, equilibrium 2^(bits-1); offsets / thresholds are
/// signed amounts; the oracle works on the amplitude v - equilibrium
macro_rules! uint_kind {
    ($S:ty, $SG:ty, $FL:ty, $name:expr) => {
        impl Kind for [$S; 2] {
            type O = i128;
            const NAME: &'static str = $name;
            const N: usize = 2;
            const FLOAT: bool = false;
            const HAS_ADD: bool = false;
            const BITS: u32 = <$S>::BITS;
            fn raw(a: i128) -> i128 { (1i128 << (<$S>::BITS - 1)) + a }
            fn delta(i: i64) -> i128 { i as i128 }
            fn wide_delta(a: i128) -> i128 { a }
            fn o_shift(a: i128, k: i128) -> i128 { a + k }
            fn to_o(s: $S) -> i128 { s as i128 }
            fn of_o(o: i128) -> $S { assert!(o >= 0 && o <= <$S>::MAX as i128, "harness value out of range"); o as $S }
            fn tok(o: i128) -> String { o.to_string() }
            fn amp_tok(p: i32) -> String { p.to_string() }
            fn grid(i: i64) -> i128 { Self::raw(i as i128) }
            fn o_add(a: i128, b: i128) -> i128 { a + b - Self::raw(0) }
            fn o_sub(a: i128, b: i128) -> i128 { a - b + Self::raw(0) }
            fn o_neg(a: i128) -> i128 { 2 * Self::raw(0) - a }
            fn o_lin(a: i128, i: u64, b: i128) -> i128 { a + i as i128 * b }
            fn o_scale(a: i128, p: i32) -> i128 { Self::raw(((a - Self::raw(0)) * p as i128 / 4).clamp(<$SG>::MIN as i128, <$SG>::MAX as i128)) }
            fn o_mul(_: i128, _: i128) -> i128 { unreachable!() }
            fn o_clip(t: i128, a: i128) -> i128 { Self::raw((a - Self::raw(0)).clamp(-t, t)) }
            fn add<'a>(_: Dyn<'a, Self>, _: Dyn<'a, Self>) -> Dyn<'a, Self> { unreachable!("add_amp on an unsigned frame takes a signal of the signed twin's frames") }
            fn mul<'a>(_: Dyn<'a, Self>, _: Dyn<'a, Self>) -> Dyn<'a, Self> { unreachable!() }
            fn scale<'a>(a: Dyn<'a, Self>, p: i32) -> Dyn<'a, Self> { Dyn(Box::new(a.scale_amp(p as $FL / 4.0))) }
            fn offset<'a>(a: Dyn<'a, Self>, k: i128) -> Dyn<'a, Self> { Dyn(Box::new(a.offset_amp(k as $SG))) }
            fn scale_pc<'a>(a: Dyn<'a, Self>, ps: &[i32]) -> Dyn<'a, Self> { Dyn(Box::new(a.scale_amp_per_channel([ps[0] as $FL / 4.0, ps[1] as $FL / 4.0]))) }
            fn offset_pc<'a>(a: Dyn<'a, Self>, ks: &[i128]) -> Dyn<'a, Self> { Dyn(Box::new(a.offset_amp_per_channel([ks[0] as $SG, ks[1] as $SG]))) }
            fn clip<'a>(a: Dyn<'a, Self>, t: i128) -> Dyn<'a, Self> { Dyn(Box::new(a.clip_amp(t as $SG))) }
        }
    };
}
uint_kind!(u16, i16, f32, "w2");
uint_kind!(u32, i32, f32, "x2");
uint_kind!(u64, i64, f64, "y2");

impl Kind for f64 {
    type O = f64;
    const NAME: &'static str = "d1";
    const N: usize = 1;
    const FLOAT: bool = true;
    const HAS_ADD: bool = true;
    const BITS: u32 = 0;
    fn raw(_: i128) -> f64 { unreachable!() }
    fn wide_delta(_: i128) -> f64 { unreachable!() }
    fn delta(i: i64) -> f64 { i as f64 / 16.0 }
    fn o_shift(a: f64, k: f64) -> f64 { a + k }
    fn to_o(s: f64) -> f64 { s }
    fn of_o(o: f64) -> f64 { o }
    fn tok(o: f64) -> String { format!("{:016x}", o.to_bits()) }
    fn amp_tok(p: i32) -> String { Self::tok(p as f64 / 4.0) }
    fn grid(i: i64) -> f64 { i as f64 / 16.0 }
    fn o_add(a: f64, b: f64) -> f64 { a + b }
    fn o_sub(a: f64, b: f64) -> f64 { a - b }
    fn o_neg(a: f64) -> f64 { -a }
    fn o_lin(a: f64, i: u64, b: f64) -> f64 { a + i as f64 * b }
    fn o_scale(a: f64, p: i32) -> f64 { a * (p as f64 / 4.0) }
    fn o_mul(a: f64, b: f64) -> f64 { a * b }
    fn o_clip(t: f64, a: f64) -> f64 { if a > t { t } else if a < -t { -t } else { a } }
    fn add<'a>(a: Dyn<'a, Self>, b: Dyn<'a, Self>) -> Dyn<'a, Self> { Dyn(Box::new(a.add_amp(b))) }
    fn mul<'a>(a: Dyn<'a, Self>, b: Dyn<'a, Self>) -> Dyn<'a, Self> { Dyn(Box::new(a.mul_amp(b))) }
    fn scale<'a>(a: Dyn<'a, Self>, p: i32) -> Dyn<'a, Self> { Dyn(Box::new(a.scale_amp(p as f64 / 4.0))) }
    fn offset<'a>(a: Dyn<'a, Self>, k: f64) -> Dyn<'a, Self> { Dyn(Box::new(a.offset_amp(k))) }
    fn scale_pc<'a>(a: Dyn<'a, Self>, ps: &[i32]) -> Dyn<'a, Self> { Dyn(Box::new(a.scale_amp_per_channel(ps[0] as f64 / 4.0))) }
    fn offset_pc<'a>(a: Dyn<'a, Self>, ks: &[f64]) -> Dyn<'a, Self> { Dyn(Box::new(a.offset_amp_per_channel(ks[0]))) }
    fn clip<'a>(a: Dyn<'a, Self>, t: f64) -> Dyn<'a, Self> { Dyn(Box::new(a.clip_amp(t))) }
}

impl Kind for [f32; 2] {
    type O = f32;
    const NAME: &'static str = "g2";
    const N: usize = 2;
    const FLOAT: bool = true;
    const HAS_ADD: bool = true;
    const BITS: u32 = 0;
    fn raw(_: i128) -> f32 { unreachable!() }
    fn wide_delta(_: i128) -> f32 { unreachable!() }
    fn delta(i: i64) -> f32 { i as f32 / 16.0 }
    fn o_shift(a: f32, k: f32) -> f32 { a + k }
    fn to_o(s: f32) -> f32 { s }
    fn of_o(o: f32) -> f32 { o }
    fn tok(o: f32) -> String { format!("{:08x}", o.to_bits()) }
    fn amp_tok(p: i32) -> String { Self::tok(p as f32 / 4.0) }
    fn grid(i: i64) -> f32 { i as f32 / 16.0 }
    fn o_add(a: f32, b: f32) -> f32 { a + b }
    fn o_sub(a: f32, b: f32) -> f32 { a - b }
    fn o_neg(a: f32) -> f32 { -a }
    fn o_lin(a: f32, i: u64, b: f32) -> f32 { a + i as f32 * b }
    fn o_scale(a: f32, p: i32) -> f32 { a * (p as f32 / 4.0) }
    fn o_mul(a: f32, b: f32) -> f32 { a * b }
    fn o_clip(t: f32, a: f32) -> f32 { if a > t { t } else if a < -t { -t } else { a } }
    fn add<'a>(a: Dyn<'a, Self>, b: Dyn<'a, Self>) -> Dyn<'a, Self> { Dyn(Box::new(a.add_amp(b))) }
    fn mul<'a>(a: Dyn<'a, Self>, b: Dyn<'a, Self>) -> Dyn<'a, Self> { Dyn(Box::new(a.mul_amp(b))) }
    fn scale<'a>(a: Dyn<'a, Self>, p: i32) -> Dyn<'a, Self> { Dyn(Box::new(a.scale_amp(p as f32 / 4.0))) }
    fn offset<'a>(a: Dyn<'a, Self>, k: f32) -> Dyn<'a, Self> { Dyn(Box::new(a.offset_amp(k))) }
    fn scale_pc<'a>(a: Dyn<'a, Self>, ps: &[i32]) -> Dyn<'a, Self> { Dyn(Box::new(a.scale_amp_per_channel([ps[0] as f32 / 4.0, ps[1] as f32 / 4.0]))) }
    fn offset_pc<'a>(a: Dyn<'a, Self>, ks: &[f32]) -> Dyn<'a, Self> { Dyn(Box::new(a.offset_amp_per_channel([ks[0], ks[1]]))) }
    fn clip<'a>(a: Dyn<'a, Self>, t: f32) -> Dyn<'a, Self> { Dyn(Box::new(a.clip_amp(t))) }
}

// ------------------------------------------------------------------------------------------
// trees and scripts

#[derive(Clone, Debug)]
pub enum Tr<O> {
    Fi(Vec<Vec<O>>), Fs(Vec<O>), Eq, Gc(Vec<O>), Gm(Vec<O>, Vec<O>),
    Ma(O, Box<Tr<O>>), Mr(Box<Tr<O>>), Mn(Box<Tr<O>>),
    Z(u8, Box<Tr<O>>, Box<Tr<O>>), Add(Box<Tr<O>>, Box<Tr<O>>), Mul(Box<Tr<O>>, Box<Tr<O>>),
    Sc(i32, Box<Tr<O>>), Of(O, Box<Tr<O>>), Scp(Vec<i32>, Box<Tr<O>>), Ofp(Vec<O>, Box<Tr<O>>),
    Cl(O, Box<Tr<O>>), Ins(Box<Tr<O>>), Dl(usize, Box<Tr<O>>), Hole,
}
use Tr::*;

#[derive(Clone, Debug)]
pub enum Op<O> {
    N, E,
    R { with_e: bool, j: usize, ctx: Tr<O> },
    /// `nth`: the iterator is advanced with ONE call of `Iterator::nth(m - 1)` (m >= 1) instead of `m` calls
    /// of `next`, and only that result is observed
    T { n: usize, m: usize, nth: bool }, U { m: usize, nth: bool }, I { m: usize, nth: bool },
    L { m: usize, frames: Vec<Vec<O>>, ctx: Tr<O> },
}

const ZIP: [&str; 4] = ["zs", "zd", "zl", "zr"];

fn ftok<K: Kind>(f: &[K::O]) -> String { f.iter().map(|&x| K::tok(x)).collect::<Vec<_>>().join(",") }

fn ser<K: Kind>(t: &Tr<K::O>, out: &mut Vec<String>) {
    match t {
        Fi(fs) => { out.push("fi".into()); out.push(fs.len().to_string()); for f in fs { out.push(ftok::<K>(f)); } }
        Fs(ss) => { out.push("fs".into()); out.push(ss.len().to_string()); for &s in ss { out.push(K::tok(s)); } }
        Eq => out.push("eq".into()),
        Gc(f) => { out.push("gc".into()); out.push(ftok::<K>(f)); }
        Gm(a, b) => { out.push("gm".into()); out.push(ftok::<K>(a)); out.push(ftok::<K>(b)); }
        Ma(k, s) => { out.push("ma".into()); out.push(K::tok(*k)); ser::<K>(s, out); }
        Mr(s) => { out.push("mr".into()); ser::<K>(s, out); }
        Mn(s) => { out.push("mn".into()); ser::<K>(s, out); }
        Z(c, a, b) => { out.push(ZIP[*c as usize].into()); ser::<K>(a, out); ser::<K>(b, out); }
        Add(a, b) => { out.push("add".into()); ser::<K>(a, out); ser::<K>(b, out); }
        Mul(a, b) => { out.push("mul".into()); ser::<K>(a, out); ser::<K>(b, out); }
        Sc(p, s) => { out.push("sc".into()); out.push(K::amp_tok(*p)); ser::<K>(s, out); }
        Of(k, s) => { out.push("of".into()); out.push(K::tok(*k)); ser::<K>(s, out); }
        Scp(ps, s) => { out.push("scp".into()); out.push(ps.iter().map(|&p| K::amp_tok(p)).collect::<Vec<_>>().join(",")); ser::<K>(s, out); }
        Ofp(ks, s) => { out.push("ofp".into()); out.push(ftok::<K>(ks)); ser::<K>(s, out); }
        Cl(t, s) => { out.push("cl".into()); out.push(K::tok(*t)); ser::<K>(s, out); }
        Ins(s) => { out.push("ins".into()); ser::<K>(s, out); }
        Dl(k, s) => { out.push("dl".into()); out.push(k.to_string()); ser::<K>(s, out); }
        Hole => out.push("_".into()),
    }
}

fn ser_op<K: Kind>(op: &Op<K::O>, out: &mut Vec<String>) {
    match op {
        Op::N => out.push("n".into()),
        Op::E => out.push("e".into()),
        Op::R { with_e, j, ctx } => { out.push(if *with_e { "R" } else { "r" }.into()); out.push(j.to_string()); ser::<K>(ctx, out); }
        Op::T { n, m, nth } => { out.push(if *nth { "tn" } else { "t" }.into()); out.push(n.to_string()); out.push(m.to_string()); }
        Op::U { m, nth } => { out.push(if *nth { "un" } else { "u" }.into()); out.push(m.to_string()); }
        Op::I { m, nth } => { out.push(if *nth { "in" } else { "i" }.into()); out.push(m.to_string()); }
        Op::L { m, frames, ctx } => {
            out.push("l".into()); out.push(m.to_string()); out.push(frames.len().to_string());
            for f in frames { out.push(ftok::<K>(f)); }
            ser::<K>(ctx, out);
        }
    }
}

fn n_adaptors<O>(t: &Tr<O>) -> usize {
    match t {
        Fi(_) | Fs(_) | Eq | Gc(_) | Gm(..) | Hole => 0,
        Ma(_, s) | Mr(s) | Mn(s) | Sc(_, s) | Of(_, s) | Scp(_, s) | Ofp(_, s) | Cl(_, s) | Ins(s) | Dl(_, s) => 1 + n_adaptors(s),
        Z(_, a, b) | Add(a, b) | Mul(a, b) => 1 + n_adaptors(a) + n_adaptors(b),
    }
}
fn depth<O>(t: &Tr<O>) -> usize {
    match t {
        Fi(_) | Fs(_) | Eq | Gc(_) | Gm(..) | Hole => 0,
        Ma(_, s) | Mr(s) | Mn(s) | Sc(_, s) | Of(_, s) | Scp(_, s) | Ofp(_, s) | Cl(_, s) | Ins(s) | Dl(_, s) => 1 + depth(s),
        Z(_, a, b) | Add(a, b) | Mul(a, b) => 1 + depth(a).max(depth(b)),
    }
}
fn node_names<O>(t: &Tr<O>, out: &mut Vec<&'static str>) {
    let (name, kids): (&'static str, Vec<&Tr<O>>) = match t {
        Fi(_) => ("fi", vec![]), Fs(_) => ("fs", vec![]), Eq => ("eq", vec![]), Gc(_) => ("gc", vec![]), Gm(..) => ("gm", vec![]), Hole => ("_", vec![]),
        Ma(_, s) => ("ma", vec![s]), Mr(s) => ("mr", vec![s]), Mn(s) => ("mn", vec![s]), Sc(_, s) => ("sc", vec![s]), Of(_, s) => ("of", vec![s]),
        Scp(_, s) => ("scp", vec![s]), Ofp(_, s) => ("ofp", vec![s]), Cl(_, s) => ("cl", vec![s]), Ins(s) => ("ins", vec![s]), Dl(k, s) => (if *k >= (1usize << 31) { "dl_ge_2^31" } else { "dl" }, vec![s]),
        Z(c, a, b) => (ZIP[*c as usize], vec![a, b]), Add(a, b) => ("add", vec![a, b]), Mul(a, b) => ("mul", vec![a, b]),
    };
    out.push(name);
    for k in kids { node_names(k, out); }
}

// ------------------------------------------------------------------------------------------
// building the real signal

pub struct Inst<K> { pulls: Vec<Rc<Cell<u64>>>, calls: Vec<Rc<Cell<u64>>>, logs: Vec<Rc<RefCell<Vec<K>>>> }
impl<K> Inst<K> { fn new() -> Self { Inst { pulls: vec![], calls: vec![], logs: vec![] } } }

fn counted<'a, K: Kind, S: Signal<Frame = K> + 'a>(s: S, inst: &mut Inst<K>) -> Dyn<'a, K> {
    let pulls = Rc::new(Cell::new(0));
    inst.pulls.push(pulls.clone());
    Dyn(Box::new(Counted { s, pulls }))
}

fn vmap<K: Kind>(f: K, g: impl Fn(K::O) -> K::O) -> K { K::frame(&K::unframe(f).into_iter().map(g).collect::<Vec<_>>()) }

fn build<'a, K: Kind>(t: &Tr<K::O>, hole: &mut Option<Dyn<'a, K>>, inst: &mut Inst<K>) -> Dyn<'a, K> {
    match t {
        Fi(fs) => {
            let calls = Rc::new(Cell::new(0)); inst.calls.push(calls.clone());
            let it = CountIter { items: fs.iter().map(|f| K::frame(f)).collect(), pos: 0, ended: false, calls, sentinel: K::frame(&vec![K::grid(77); K::N]) };
            counted(signal::from_iter(it), inst)
        }
        Fs(ss) => {
            let calls = Rc::new(Cell::new(0)); inst.calls.push(calls.clone());
            let it = CountIter { items: ss.iter().map(|&s| K::of_o(s)).collect(), pos: 0, ended: false, calls, sentinel: K::of_o(K::grid(77)) };
            counted(signal::from_interleaved_samples_iter::<_, K>(it), inst)
        }
        Eq => counted(signal::equilibrium::<K>(), inst),
        Gc(f) => { let f = K::frame(f); counted(signal::gen(move || f), inst) }
        Gm(a, b) => {
            let (a, b) = (a.clone(), b.clone());
            let mut i = 0u64;
            counted(signal::gen_mut(move || {
                let v: Vec<K::O> = a.iter().zip(b.iter()).map(|(&x, &y)| K::o_lin(x, i, y)).collect();
                i += 1;
                K::frame(&v)
            }), inst)
        }
        Ma(k, s) => { let k = *k; let s = build(s, hole, inst); Dyn(Box::new(s.map(move |f: K| vmap(f, |x| K::o_shift(x, k))))) }
        Mr(s) => { let s = build(s, hole, inst); Dyn(Box::new(s.map(|f: K| { let mut v = K::unframe(f); v.reverse(); K::frame(&v) }))) }
        Mn(s) => { let s = build(s, hole, inst); Dyn(Box::new(s.map(|f: K| vmap(f, K::o_neg)))) }
        Z(c, a, b) => {
            let c = *c;
            let a = build(a, hole, inst); let b = build(b, hole, inst);
            Dyn(Box::new(a.zip_map(b, move |x: K, y: K| {
                let (x, y) = (K::unframe(x), K::unframe(y));
                let v: Vec<K::O> = x.iter().zip(y.iter()).map(|(&p, &q)| match c { 0 => K::o_add(p, q), 1 => K::o_sub(p, q), 2 => p, _ => q }).collect();
                K::frame(&v)
            })))
        }
        Add(a, b) => { let a = build(a, hole, inst); let b = build(b, hole, inst); K::add(a, b) }
        Mul(a, b) => { let a = build(a, hole, inst); let b = build(b, hole, inst); K::mul(a, b) }
        Sc(p, s) => { let s = build(s, hole, inst); K::scale(s, *p) }
        Of(k, s) => { let s = build(s, hole, inst); K::offset(s, *k) }
        Scp(ps, s) => { let s = build(s, hole, inst); K::scale_pc(s, ps) }
        Ofp(ks, s) => { let s = build(s, hole, inst); K::offset_pc(s, ks) }
        Cl(t, s) => { let s = build(s, hole, inst); K::clip(s, *t) }
        Ins(s) => {
            let log = Rc::new(RefCell::new(Vec::new())); inst.logs.push(log.clone());
            let s = build(s, hole, inst);
            Dyn(Box::new(s.inspect(move |f: &K| log.borrow_mut().push(*f))))
        }
        Dl(k, s) => { let s = build(s, hole, inst); Dyn(Box::new(s.delay(*k))) }
        Hole => hole.take().expect("exactly one hole"),
    }
}

// ------------------------------------------------------------------------------------------
// the oracle: denotation by plain vectors

struct Den<O> { fr: Vec<Vec<O>>, len: Option<usize> }

fn min_len(a: Option<usize>, b: Option<usize>) -> Option<usize> {
    match (a, b) { (Some(x), Some(y)) => Some(x.min(y)), (Some(x), None) => Some(x), (None, y) => y }
}

/// frames 0..h of the signal, and how many of them are meaningful
fn den<K: Kind>(t: &Tr<K::O>, hole: Option<&Den<K::O>>, h: usize) -> Den<K::O> {
    let eq = vec![K::zero(); K::N];
    let pad = |mut v: Vec<Vec<K::O>>| { v.truncate(h); while v.len() < h { v.push(eq.clone()); } v };
    let un = |s: &Tr<K::O>, g: &dyn Fn(&[K::O]) -> Vec<K::O>| { let d = den::<K>(s, hole, h); Den { fr: d.fr.iter().map(|f| g(f)).collect(), len: d.len } };
    let bin = |a: &Tr<K::O>, b: &Tr<K::O>, g: &dyn Fn(K::O, K::O) -> K::O| {
        let (x, y) = (den::<K>(a, hole, h), den::<K>(b, hole, h));
        Den { fr: x.fr.iter().zip(y.fr.iter()).map(|(p, q)| p.iter().zip(q.iter()).map(|(&u, &v)| g(u, v)).collect()).collect(), len: min_len(x.len, y.len) }
    };
    match t {
        Fi(fs) => Den { fr: pad(fs.clone()), len: Some(fs.len()) },
        Fs(ss) => { let fr: Vec<Vec<K::O>> = ss.chunks_exact(K::N).map(|c| c.to_vec()).collect(); let l = fr.len(); Den { fr: pad(fr), len: Some(l) } }
        Eq => Den { fr: pad(vec![]), len: None },
        Gc(f) => Den { fr: (0..h).map(|_| f.clone()).collect(), len: None },
        Gm(a, b) => Den { fr: (0..h).map(|i| a.iter().zip(b.iter()).map(|(&x, &y)| K::o_lin(x, i as u64, y)).collect()).collect(), len: None },
        Ma(k, s) => un(s, &|f| f.iter().map(|&x| K::o_shift(x, *k)).collect()),
        Mr(s) => un(s, &|f| f.iter().rev().cloned().collect()),
        Mn(s) => un(s, &|f| f.iter().map(|&x| K::o_neg(x)).collect()),
        Z(c, a, b) => bin(a, b, &|p, q| match c { 0 => K::o_add(p, q), 1 => K::o_sub(p, q), 2 => p, _ => q }),
        Add(a, b) => bin(a, b, &|p, q| K::o_add(p, q)),
        Mul(a, b) => bin(a, b, &|p, q| K::o_mul(p, q)),
        Sc(p, s) => un(s, &|f| f.iter().map(|&x| K::o_scale(x, *p)).collect()),
        Of(k, s) => un(s, &|f| f.iter().map(|&x| K::o_shift(x, *k)).collect()),
        Scp(ps, s) => un(s, &|f| f.iter().zip(ps.iter()).map(|(&x, &p)| K::o_scale(x, p)).collect()),
        Ofp(ks, s) => un(s, &|f| f.iter().zip(ks.iter()).map(|(&x, &k)| K::o_shift(x, k)).collect()),
        Cl(t, s) => un(s, &|f| f.iter().map(|&x| K::o_clip(*t, x)).collect()),
        Ins(s) => den::<K>(s, hole, h),
        Dl(k, s) => { let d = den::<K>(s, hole, h); let mut fr = vec![eq.clone(); (*k).min(h)]; fr.extend(d.fr); Den { fr: pad(fr), len: d.len.map(|l| l.saturating_add(*k)) } }
        Hole => { let d = hole.expect("hole"); Den { fr: pad(d.fr.clone()), len: d.len } }
    }
}

/// after `j` calls of `next` on the root: pulls seen by each own source (left to right), pulls that
/// reached the hole, and what each inspect closure has logged
fn exp_side<K: Kind>(t: &Tr<K::O>, j: usize, hole: Option<&Den<K::O>>, pulls: &mut Vec<u64>, hole_pulls: &mut usize, logs: &mut Vec<Vec<Vec<K::O>>>) {
    match t {
        Fi(_) | Fs(_) | Eq | Gc(_) | Gm(..) => pulls.push(j as u64),
        Hole => *hole_pulls = j,
        Ma(_, s) | Mr(s) | Mn(s) | Sc(_, s) | Of(_, s) | Scp(_, s) | Ofp(_, s) | Cl(_, s) => exp_side::<K>(s, j, hole, pulls, hole_pulls, logs),
        Z(_, a, b) | Add(a, b) | Mul(a, b) => { exp_side::<K>(a, j, hole, pulls, hole_pulls, logs); exp_side::<K>(b, j, hole, pulls, hole_pulls, logs); }
        Ins(s) => { let d = den::<K>(s, hole, j); logs.push(d.fr); exp_side::<K>(s, j, hole, pulls, hole_pulls, logs); }
        Dl(k, s) => exp_side::<K>(s, j.saturating_sub(*k), hole, pulls, hole_pulls, logs),
    }
}

const H: usize = 400;

fn b(x: bool) -> String { if x { "T".into() } else { "F".into() } }
fn logs_tok<K: Kind>(logs: &[Vec<Vec<K::O>>]) -> Vec<String> {
    logs.iter().map(|g| format!("L:{}", g.iter().map(|f| ftok::<K>(f)).collect::<Vec<_>>().join(";"))).collect()
}

/// expected reply by the property text; `*` where the property does not speak (iterator call counts)
fn oracle<K: Kind>(base: &Tr<K::O>, ops: &[Op<K::O>]) -> Vec<Vec<String>> {
    let d = den::<K>(base, None, H);
    let mut p = 0usize; // frames pulled from the base so far
    let mut out = Vec::new();
    let shifted = |p: usize| Den { fr: d.fr[p.min(H)..].to_vec(), len: d.len.map(|l| l.saturating_sub(p)) };
    for op in ops {
        let mut o: Vec<String> = Vec::new();
        match op {
            Op::N => { o.push(ftok::<K>(&d.fr[p])); p += 1; }
            Op::E => o.push(b(d.len.map_or(false, |l| l <= p))),
            Op::R { with_e, j, ctx } => {
                let hd = shifted(p);
                let c = den::<K>(ctx, Some(&hd), *j + 1);
                o.push("[".into());
                for i in 0..*j {
                    if *with_e { o.push(b(c.len.map_or(false, |l| l <= i))); }
                    o.push(ftok::<K>(&c.fr[i]));
                }
                if *with_e { o.push(b(c.len.map_or(false, |l| l <= *j))); }
                let (mut pulls, mut hp, mut logs) = (vec![], 0usize, vec![]);
                exp_side::<K>(ctx, *j, Some(&hd), &mut pulls, &mut hp, &mut logs);
                o.push("p".into()); o.extend(pulls.iter().map(|x| x.to_string()));
                o.push("c".into()); o.push("*".into());
                o.push("g".into()); o.extend(logs_tok::<K>(&logs));
                o.push("]".into());
                p += hp;
            }
            Op::T { n, m, nth } => {
                o.push("[".into());
                for i in 0..*m { if i < *n { o.push(ftok::<K>(&d.fr[p])); p += 1; } else { o.push("none".into()); } }
                if *nth { let last = o.pop().unwrap(); o.truncate(1); o.push(last); }
                o.push("]".into());
            }
            Op::U { m, nth } => {
                o.push("[".into());
                for _ in 0..*m { if d.len.map_or(true, |l| p < l) { o.push(ftok::<K>(&d.fr[p])); p += 1; } else { o.push("none".into()); } }
                if *nth { let last = o.pop().unwrap(); o.truncate(1); o.push(last); }
                o.push("]".into());
            }
            Op::I { m, nth } => {
                // exactly (remaining frames) x channels samples in channel order, then None
                o.push("[".into());
                let mut yielded = 0usize;
                for i in 0..*m {
                    let fi = p + i / K::N;
                    if d.len.map_or(true, |l| fi < l) { o.push(K::tok(d.fr[fi][i % K::N])); yielded += 1; } else { o.push("none".into()); }
                }
                if *nth { let last = o.pop().unwrap(); o.truncate(1); o.push(last); }
                o.push("]".into());
                p += (yielded + K::N - 1) / K::N;
            }
            Op::L { m, frames, ctx } => {
                let hd = Den { fr: { let mut v = frames.clone(); v.resize(*m + 1, vec![K::zero(); K::N]); v }, len: Some(frames.len()) };
                let c = den::<K>(ctx, Some(&hd), *m + 1);
                o.push("[".into());
                for i in 0..*m { if c.len.map_or(true, |l| i < l) { o.push(ftok::<K>(&c.fr[i])); } else { o.push("none".into()); } }
                o.push("c".into()); o.push("*".into());
                o.push("]".into());
            }
        }
        out.push(o);
    }
    let (mut pulls, mut hp, mut logs) = (vec![], 0usize, vec![]);
    exp_side::<K>(base, p, None, &mut pulls, &mut hp, &mut logs);
    let mut tail = vec!["|".to_string()];
    tail.extend(pulls.iter().map(|x| x.to_string()));
    tail.push("|".into()); tail.push("*".into()); tail.push("|".into());
    tail.extend(logs_tok::<K>(&logs));
    out.push(tail);
    out
}

// ------------------------------------------------------------------------------------------
// running one case on the real code

fn otok<K: Kind>(f: Option<K>) -> String { match f { Some(f) => ftok::<K>(&K::unframe(f)), None => "none".into() } }

/// one token group per op plus the trailing group; iterator-call sections are wrapped so that the
/// oracle can skip them (`c … ]` inside a group, second `|` section of the tail)
fn execute<K: Kind>(base_t: &Tr<K::O>, ops: &[Op<K::O>]) -> Vec<Vec<String>> {
    let mut inst = Inst::<K>::new();
    let mut base: Dyn<'static, K> = build(base_t, &mut None, &mut inst);
    let mut out = Vec::new();
    for op in ops {
        let mut o: Vec<String> = Vec::new();
        match op {
            Op::N => o.push(ftok::<K>(&K::unframe(base.next()))),
            Op::E => o.push(b(base.is_exhausted())),
            Op::R { with_e, j, ctx } => {
                let mut ci = Inst::<K>::new();
                {
                    let mut hole = Some(Dyn(Box::new(base.by_ref())));
                    let mut c = build(ctx, &mut hole, &mut ci);
                    o.push("[".into());
                    for _ in 0..*j {
                        if *with_e { o.push(b(c.is_exhausted())); }
                        o.push(ftok::<K>(&K::unframe(c.next())));
                    }
                    if *with_e { o.push(b(c.is_exhausted())); }
                }
                o.push("p".into()); o.extend(ci.pulls.iter().map(|x| x.get().to_string()));
                o.push("c".into()); o.extend(ci.calls.iter().map(|x| x.get().to_string()));
                o.push("g".into());
                let logs: Vec<Vec<Vec<K::O>>> = ci.logs.iter().map(|l| l.borrow().iter().map(|&f| K::unframe(f)).collect()).collect();
                o.extend(logs_tok::<K>(&logs));
                o.push("]".into());
            }
            Op::T { n, m, nth } => {
                let mut it = base.by_ref().take(*n);
                o.push("[".into());
                if *nth { o.push(otok::<K>(it.nth(*m - 1))); } else { for _ in 0..*m { o.push(otok::<K>(it.next())); } }
                o.push("]".into());
            }
            Op::U { m, nth } => {
                let mut it = base.by_ref().until_exhausted();
                o.push("[".into());
                if *nth { o.push(otok::<K>(it.nth(*m - 1))); } else { for _ in 0..*m { o.push(otok::<K>(it.next())); } }
                o.push("]".into());
            }
            Op::I { m, nth } => {
                let mut it = base.by_ref().into_interleaved_samples().into_iter();
                o.push("[".into());
                if *nth { o.push(match it.nth(*m - 1) { Some(s) => K::tok(K::to_o(s)), None => "none".into() }); }
                else { for _ in 0..*m { o.push(match it.next() { Some(s) => K::tok(K::to_o(s)), None => "none".into() }); } }
                o.push("]".into());
            }
            Op::L { m, frames, ctx } => {
                let calls = Rc::new(Cell::new(0));
                let it = CountIter { items: frames.iter().map(|f| K::frame(f)).collect::<Vec<K>>(), pos: 0, ended: false, calls: calls.clone(), sentinel: K::frame(&vec![K::grid(77); K::N]) };
                let mut ci = Inst::<K>::new();
                let mut lifted = signal::lift(it, |s| { let mut hole = Some(Dyn(Box::new(s))); build(ctx, &mut hole, &mut ci) });
                o.push("[".into());
                for _ in 0..*m { o.push(otok::<K>(lifted.next())); }
                o.push("c".into()); o.push(calls.get().to_string());
                o.push("]".into());
            }
        }
        out.push(o);
    }
    let mut tail = vec!["|".to_string()];
    tail.extend(inst.pulls.iter().map(|x| x.get().to_string()));
    tail.push("|".into());
    tail.extend(inst.calls.iter().map(|x| x.get().to_string()));
    tail.push("|".into());
    let logs: Vec<Vec<Vec<K::O>>> = inst.logs.iter().map(|l| l.borrow().iter().map(|&f| K::unframe(f)).collect()).collect();
    tail.extend(logs_tok::<K>(&logs));
    out.push(tail);
    out
}

/// compare an observed token group with the oracle's, skipping the iterator-call sections
fn groups_agree(obs: &[String], exp: &[String]) -> bool {
    let strip = |g: &[String], tail: bool| -> Vec<String> {
        let mut out = Vec::new(); let mut skipping = false; let mut bars = 0;
        for t in g {
            if tail {
                if t == "|" { bars += 1; skipping = bars == 2; out.push(t.clone()); continue; }
            } else if t == "c" { skipping = true; out.push(t.clone()); continue; }
            else if skipping && (t == "g" || t == "]") { skipping = false; }
            if !skipping { out.push(t.clone()); }
        }
        out
    };
    let tail = obs.first().map_or(false, |t| t == "|");
    strip(obs, tail) == strip(exp, tail)
}

fn op_name<O>(op: &Op<O>) -> &'static str {
    match op { Op::N => "n", Op::E => "e", Op::R { with_e: false, .. } => "r", Op::R { .. } => "R", Op::T { nth: false, .. } => "t", Op::U { nth: false, .. } => "u", Op::I { nth: false, .. } => "i", Op::T { .. } => "take_nth", Op::U { .. } => "until_exhausted_nth", Op::I { .. } => "interleaved_nth", Op::L { .. } => "l" }
}

fn run_case<K: Kind>(st: &mut Stream, stream: &str, base: &Tr<K::O>, ops: &[Op<K::O>]) {
    let mut line: Vec<String> = vec![stream.into(), K::NAME.into()];
    ser::<K>(base, &mut line);
    line.push("|".into());
    for op in ops { ser_op::<K>(op, &mut line); }
    let line = line.join(" ");
    mark(0, &line);
    let obs = match guarded(|| execute::<K>(base, ops)) {
        Some(o) => o,
        None => {
            st.case(&line, "panic", true, 1);
            st.oracle_fail("the real code panicked on a case inside the stated domain", &line, "no panic", "panic");
            return;
        }
    };
    let exp = oracle::<K>(base, ops);
    let n_obs: usize = obs.iter().map(|g| g.len()).sum();
    let flat: Vec<String> = obs.iter().flat_map(|g| g.iter().cloned()).filter(|t| !t.is_empty()).collect();
    let mut pulled = 0usize;
    for op in ops { pulled += match op { Op::N => 1, Op::R { j, .. } => *j, Op::T { n, m, .. } => *n.min(m), Op::U { m, .. } | Op::L { m, .. } => *m, Op::I { m, .. } => *m / K::N, Op::E => 0 }; }
    let nontrivial = (n_adaptors(base) >= 1 || ops.iter().any(|o| !matches!(o, Op::N | Op::E))) && pulled >= 2;
    st.case(&line, &flat.join(" "), nontrivial, n_obs as u64);
    // histogram: input distribution
    st.count(&format!("kind_{}", K::NAME));
    st.count(&format!("depth_{:02}", depth(base)));
    st.count(&format!("adaptors_{:02}", n_adaptors(base).min(20)));
    let mut names = vec![]; node_names(base, &mut names);
    for op in ops { st.count(&format!("op_{}", op_name(op))); match op { Op::R { ctx, .. } | Op::L { ctx, .. } => node_names(ctx, &mut names), _ => {} } }
    for n in names { st.count(&format!("node_{}", n)); }
    let base_len = den::<K>(base, None, 1).len;
    st.count(&match base_len { Some(l) => format!("len_{:02}", l.min(30)), None => "len_inf".into() });
    if let Some(l) = base_len { if pulled > l { st.count(&format!("past_end_{}", (pulled - l).min(9))); } }
    // oracle
    for (k, (og, eg)) in obs.iter().zip(exp.iter()).enumerate() {
        if groups_agree(og, eg) { st.oracle_ok(og.len() as u64); }
        else {
            let what = if k < ops.len() {
                match &ops[k] {
                    Op::N => "frame yielded by next differs from the pointwise function of the source frames (delay: k equilibrium frames, then the source; past the end: equilibrium)",
                    Op::E => "is_exhausted differs from `frames pulled >= length` (length = min over sources, + k under delay k)",
                    Op::R { .. } => "adaptor stack over a borrowed signal: frames / exhaustion / pull counts / inspect log differ from the pointwise composition, or the borrowed signal did not resume where the stack left off",
                    Op::T { .. } => "take(n) did not yield exactly n frames then None",
                    Op::U { .. } => "until_exhausted did not yield exactly the remaining frames then None for good",
                    Op::I { .. } => "into_interleaved_samples did not yield exactly frames x channels samples in channel order then None",
                    Op::L { .. } => "lift did not yield exactly as many frames as the shortest source then None for good",
                }
            } else { "pull counts / inspect logs of the base tree: every next must pull each source exactly once (none under a delay still silent)" };
            st.oracle_fail(what, &format!("{}   [op #{}]", line, k), &eg.join(" "), &og.join(" "));
            break;
        }
    }
}

// ------------------------------------------------------------------------------------------
// generators

/// `wide`: Some(t) = "wide mode" for integer formats: samples of large magnitude around the clip
/// threshold t, and only adaptors that are exact integer operations at that magnitude
struct G<'r> { rng: &'r mut Rng, budget: usize, explicit_e: bool, wide: Option<i128> }

/// delay lengths at and around the powers of two where a narrower counter would wrap, and the extremes of usize
fn rare_delay(rng: &mut Rng) -> usize {
    let d = rng.usize_below(7);
    match rng.below(10) {
        0 => usize::MAX - d,
        1 => (1usize << 63) + d,
        2 => (1usize << 32) + d,
        3 => (1usize << 32) - 1 - d,
        4 => (1usize << 33) + d,
        5 => (1usize << 31) + d,
        6 => ((1usize << 32) * (1 + rng.usize_below(1000))) + d,
        7 => (1usize << (16 + rng.usize_below(48))) + d,
        8 => (1usize << 16) + d,
        _ => rng.next_u64() as usize | (1usize << 32),
    }
}

fn smax<K: Kind>() -> i128 { (1i128 << (K::BITS - 1)) - 1 }

/// clip thresholds of large magnitude (and a few small ones)
fn wide_t<K: Kind>(rng: &mut Rng) -> i128 {
    let m = smax::<K>() - 2000;
    let b = K::BITS;
    let cands: [i128; 14] = [1_000_000_000, 1 << 30, (1 << 30) + 1, 1i128 << (b - 2), 3i128 << (b - 4), m, smax::<K>() / 3, 1_000_000_000_000_000_000,
        1i128 << 62, 3i128 << 60, 1 << 24, (1 << 24) + 1, (1i128 << 53) + 1, 5i128 << (b - 5)];
    let t = if rng.chance(1, 5) { rng.range_i128(0, m) } else { *rng.pick(&cands) + rng.range(-3, 3) as i128 };
    t.clamp(0, m)
}

/// amplitudes exactly at, just beyond (1..64 LSB) and just inside +-t, plus arbitrary ones
fn wide_amp<K: Kind>(rng: &mut Rng, t: i128) -> i128 {
    let m = smax::<K>() - 1500;
    let sign = if rng.chance(1, 2) { 1 } else { -1 };
    let a = match rng.below(10) {
        0..=3 => sign * (t + rng.range(1, 64) as i128),
        4 => sign * t,
        5 => sign * (t - rng.range(0, 64) as i128),
        6 => sign * (t + (1i128 << rng.below(K::BITS as u64 - 1))),
        7 => rng.range_i128(-m, m),
        8 => rng.range(-50, 50) as i128,
        _ => sign * (t + rng.range(-300, 300) as i128),
    };
    a.clamp(-m, m)
}
fn wide_fr<K: Kind>(rng: &mut Rng, t: i128) -> Vec<K::O> { (0..K::N).map(|_| K::raw(wide_amp::<K>(rng, t))).collect() }

fn val<K: Kind>(rng: &mut Rng, lim: i64) -> K::O { K::grid(rng.range(-lim, lim)) }
fn fr<K: Kind>(rng: &mut Rng, lim: i64) -> Vec<K::O> { (0..K::N).map(|_| val::<K>(rng, lim)).collect() }
fn dl<K: Kind>(rng: &mut Rng, lim: i64) -> K::O { K::delta(rng.range(-lim, lim)) }
fn dfr<K: Kind>(rng: &mut Rng, lim: i64) -> Vec<K::O> { (0..K::N).map(|_| dl::<K>(rng, lim)).collect() }

fn gen_src<K: Kind>(g: &mut G) -> Tr<K::O> {
    let r = g.rng.below(100);
    if let Some(t) = g.wide {
        return if r < 45 { let l = 1 + g.rng.usize_below(8); Fi((0..l).map(|_| wide_fr::<K>(g.rng, t)).collect()) }
        else if r < 85 { let l = (1 + g.rng.usize_below(8)) * K::N + g.rng.usize_below(K::N); Fs((0..l).map(|_| K::raw(wide_amp::<K>(g.rng, t))).collect()) }
        else { Gc(wide_fr::<K>(g.rng, t)) };
    }
    if r < 38 { let l = g.rng.usize_below(13); Fi((0..l).map(|_| fr::<K>(g.rng, 50)).collect()) }
    else if r < 70 { let l = g.rng.usize_below(13) * K::N + g.rng.usize_below(K::N); Fs((0..l).map(|_| val::<K>(g.rng, 50)).collect()) }
    else if r < 82 { Gm(fr::<K>(g.rng, 20), dfr::<K>(g.rng, 3)) }
    else if r < 91 { Gc(fr::<K>(g.rng, 50)) }
    else { Eq }
}

fn amp<K: Kind>(rng: &mut Rng) -> i32 { if K::FLOAT { rng.range(-8, 8) as i32 } else { rng.range(-4, 4) as i32 } }

/// wrap `s` in a random one-source adaptor
fn gen_un<K: Kind>(g: &mut G, s: Tr<K::O>) -> Tr<K::O> {
    let s = Box::new(s);
    if let Some(t) = g.wide {
        let th = if g.rng.chance(3, 4) { t } else { wide_t::<K>(g.rng) };
        return match g.rng.below(12) {
            0 => Ma(dl::<K>(g.rng, 20), s),
            1 => Mr(s),
            2 => Mn(s),
            3 => Of(dl::<K>(g.rng, 20), s),
            4 => Ofp(dfr::<K>(g.rng, 20), s),
            5 => Ins(s),
            6 => Dl(g.rng.usize_below(3), s),
            _ => Cl(K::wide_delta(th), s),
        };
    }
    match g.rng.below(10) {
        0 => Ma(dl::<K>(g.rng, 20), s),
        1 => Mr(s),
        2 => Mn(s),
        3 => Sc(amp::<K>(g.rng), s),
        4 => Of(dl::<K>(g.rng, 20), s),
        5 => Scp((0..K::N).map(|_| amp::<K>(g.rng)).collect(), s),
        6 => Ofp(dfr::<K>(g.rng, 20), s),
        7 => Cl(K::delta(g.rng.range(0, 40)), s),
        8 => Ins(s),
        _ => Dl(if g.rng.chance(1, 6) { rare_delay(g.rng) } else { g.rng.usize_below(5) }, s),
    }
}

fn gen_bin<K: Kind>(g: &mut G, a: Tr<K::O>, c: Tr<K::O>) -> Tr<K::O> {
    let (a, c) = (Box::new(a), Box::new(c));
    if g.wide.is_some() { return Z(2 + g.rng.below(2) as u8, a, c); }
    let n = if K::FLOAT { 7 } else if K::HAS_ADD { 5 } else { 4 };
    match g.rng.below(n) { k @ 0..=3 => Z(k as u8, a, c), 4 => Add(a, c), 5 => Mul(a, c), _ => Add(a, c) }
}

/// random tree of depth <= d; `hole`: must contain the hole exactly once
fn gen_tree<K: Kind>(g: &mut G, d: usize, hole: bool) -> Tr<K::O> {
    if d == 0 || g.budget == 0 || (!hole && g.rng.chance(1, 7)) {
        return if hole { Hole } else { gen_src::<K>(g) };
    }
    g.budget -= 1;
    if g.rng.chance(62, 100) {
        let s = gen_tree::<K>(g, d - 1, hole);
        gen_un::<K>(g, s)
    } else {
        let left_has = hole && g.rng.chance(1, 2);
        let (da, dc) = if g.rng.chance(1, 2) { (d - 1, g.rng.usize_below(d)) } else { (g.rng.usize_below(d), d - 1) };
        let a = gen_tree::<K>(g, da, hole && left_has);
        let c = gen_tree::<K>(g, dc, hole && !left_has);
        gen_bin::<K>(g, a, c)
    }
}

fn gen_ctx<K: Kind>(g: &mut G, d: usize) -> Tr<K::O> {
    let save = g.budget; g.budget = 5;
    let t = gen_tree::<K>(g, d, true);
    g.budget = save; t
}

fn base_len<K: Kind>(t: &Tr<K::O>) -> Option<usize> { den::<K>(t, None, 1).len }

/// script for stream `adapt`: next / adaptor stacks over `&mut base` (frames, pull counts, logs)
fn script_adapt<K: Kind>(g: &mut G, _base: &Tr<K::O>) -> Vec<Op<K::O>> {
    let n = 3 + g.rng.usize_below(16);
    let mut ops = Vec::new(); let mut toks = 0;
    while ops.len() < n && toks < 45 {
        if g.rng.chance(1, 5) { let j = g.rng.usize_below(7); toks += j; ops.push(Op::R { with_e: false, j, ctx: gen_ctx::<K>(g, 3) }); }
        else { toks += 1; ops.push(Op::N); }
    }
    ops
}

/// script for stream `exhaust`: run to the end and up to 8 calls past it, with exhaustion tests and consumers
fn script_exhaust<K: Kind>(g: &mut G, base: &Tr<K::O>) -> Vec<Op<K::O>> {
    let len = base_len::<K>(base);
    let target = match len { Some(l) => l.min(40) + g.rng.usize_below(9), None => 4 + g.rng.usize_below(10) };
    let mut ops = Vec::new(); let mut pulled = 0usize;
    ops.push(Op::E);
    while pulled < target && ops.len() < 60 {
        let r = g.rng.below(100);
        let rem = target - pulled;
        if r < 55 { ops.push(Op::N); pulled += 1; if g.rng.chance(2, 3) { ops.push(Op::E); } }
        else if r < 63 { let j = g.rng.usize_below(rem.min(6) + 1); ops.push(Op::R { with_e: true, j, ctx: gen_ctx::<K>(g, 2) }); pulled += j; }
        else if r < 72 { let n = g.rng.usize_below(rem.min(5) + 1); let m = n + g.rng.usize_below(3); let nth = m >= 1 && g.rng.chance(1, 4); ops.push(Op::T { n, m, nth }); pulled += n; }
        else if r < 84 { let m = g.rng.usize_below(rem.min(8) + 2); let nth = m >= 1 && g.rng.chance(1, 4); ops.push(Op::U { m, nth }); pulled += m; if g.rng.chance(1, 2) { ops.push(Op::E); } }
        else if r < 96 { let m = g.rng.usize_below((rem.min(5) + 1) * K::N + 1); let nth = m >= 1 && g.rng.chance(1, 4); ops.push(Op::I { m, nth }); pulled += (m + K::N - 1) / K::N; }
        else {
            let l = g.rng.usize_below(6);
            let frames = (0..l).map(|_| fr::<K>(g.rng, 50)).collect();
            ops.push(Op::L { m: l + 1 + g.rng.usize_below(8), frames, ctx: gen_ctx::<K>(g, 3) });
        }
    }
    ops.push(Op::E);
    let _ = g.explicit_e;
    ops
}

/// all trees of depth <= 2 over the adaptor alphabet (parameters and source contents drawn once per node)
fn enumerate<K: Kind>(g: &mut G, full: bool) -> Vec<Tr<K::O>> {
    let srcs = |g: &mut G| -> Vec<Tr<K::O>> {
        // fixed, different lengths: 3 frames from the frame iterator, 2 frames (+ an incomplete one) from the sample iterator
        let l1 = 3; let l2 = 2 * K::N + (K::N - 1);
        let mut v = vec![Fi((0..l1).map(|_| fr::<K>(g.rng, 50)).collect()), Fs((0..l2).map(|_| val::<K>(g.rng, 50)).collect()), Gm(fr::<K>(g.rng, 20), dfr::<K>(g.rng, 3))];
        if full { v.push(Eq); v.push(Gc(fr::<K>(g.rng, 50))); }
        v
    };
    let uns = |g: &mut G, s: &Tr<K::O>| -> Vec<Tr<K::O>> {
        let s = || Box::new(s.clone());
        let mut v = vec![Ma(dl::<K>(g.rng, 20), s()), Sc(amp::<K>(g.rng), s()), Of(dl::<K>(g.rng, 20), s()), Scp((0..K::N).map(|_| amp::<K>(g.rng)).collect(), s()),
                         Ofp(dfr::<K>(g.rng, 20), s()), Cl(K::delta(g.rng.range(0, 40)), s()), Ins(s()), Dl(1 + g.rng.usize_below(3), s())];
        if full { v.push(Mr(s())); v.push(Mn(s())); v.push(Dl(0, s())); }
        v
    };
    let bins = |a: &Tr<K::O>, c: &Tr<K::O>| -> Vec<Tr<K::O>> {
        let (a, c) = (|| Box::new(a.clone()), || Box::new(c.clone()));
        let mut v = vec![Z(0, a(), c())];
        if K::HAS_ADD { v.push(Add(a(), c())); }
        if K::FLOAT { v.push(Mul(a(), c())); }
        if full { v.push(Z(1, a(), c())); v.push(Z(2, a(), c())); v.push(Z(3, a(), c())); }
        v
    };
    let l0 = srcs(g);
    let mut l1 = Vec::new();
    for s in &l0 { l1.extend(uns(g, s)); }
    for a in &l0 { for c in &l0 { l1.extend(bins(a, c)); } }
    let mut l2 = Vec::new();
    for s in &l1 { l2.extend(uns(g, s)); }
    let le1: Vec<Tr<K::O>> = l0.iter().chain(l1.iter()).cloned().collect();
    for (i, a) in le1.iter().enumerate() { for (j, c) in le1.iter().enumerate() {
        if i < l0.len() && j < l0.len() { continue; }
        l2.extend(bins(a, c));
    } }
    let mut all = l0; all.extend(l1); all.extend(l2); all
}

fn run_stream<K: Kind>(st: &mut Stream, stream: &str, rng: &mut Rng, n_random: usize, n_wide: usize, max_depth: usize, enum_mode: Option<bool>) {
    let adapt = stream == "adapt";
    let mut g = G { rng, budget: 0, explicit_e: !adapt, wide: None };
    // (1) every source length 0..12 (x every remainder of the sample count) under short adaptor stacks
    for l in 0..=12usize { for rem in 0..K::N { for variant in 0..4 {
        if rem > 0 && variant % 2 == 0 { continue; }
        let src: Tr<K::O> = if variant % 2 == 0 { Fi((0..l).map(|_| fr::<K>(g.rng, 50)).collect()) } else { Fs((0..l * K::N + rem).map(|_| val::<K>(g.rng, 50)).collect()) };
        g.budget = 3;
        let base = if variant < 2 { src } else { let other = gen_tree::<K>(&mut g, 1, false); let t = gen_bin::<K>(&mut g, src, other); gen_un::<K>(&mut g, t) };
        let ops = if adapt { script_adapt::<K>(&mut g, &base) } else { script_exhaust::<K>(&mut g, &base) };
        run_case::<K>(st, stream, &base, &ops);
        st.count("part_every_length");
    } } }
    // (2) all trees of depth <= 2
    if let Some(full) = enum_mode {
        let trees = enumerate::<K>(&mut g, full);
        for base in &trees {
            let ops = if adapt {
                let mut ops = vec![Op::N, Op::N, Op::N];
                ops.push(Op::R { with_e: false, j: 2, ctx: gen_ctx::<K>(&mut g, 1) });
                ops.extend([Op::N, Op::N]);
                ops
            } else {
                let l = base_len::<K>(base).map_or(3, |l| l.min(12));
                let mut ops = vec![Op::E];
                for _ in 0..l { ops.push(Op::N); ops.push(Op::E); }
                ops.push(Op::U { m: 2, nth: false }); ops.push(Op::N); ops.push(Op::E); ops.push(Op::I { m: K::N + 1, nth: false });
                ops
            };
            run_case::<K>(st, stream, base, &ops);
            st.count("part_all_trees_depth_le_2");
        }
        st.note(&format!("{}: enumerated all {} trees of depth <= 2 over the {} adaptor alphabet", K::NAME, trees.len(), if full { "full" } else { "reduced (one closure per map/zip_map, no eq/gen-const sources)" }));
    }
    // (3) random trees
    for _ in 0..n_random {
        let d = 1 + g.rng.usize_below(max_depth);
        g.budget = 14;
        let base = gen_tree::<K>(&mut g, d, false);
        let ops = if adapt { script_adapt::<K>(&mut g, &base) } else { script_exhaust::<K>(&mut g, &base) };
        run_case::<K>(st, stream, &base, &ops);
        st.count("part_random");
    }
    // (4) rare values: very long delays (nothing may be pulled from the source, owned or borrowed, during the silence) ...
    for &k in &[(1usize << 31) - 1, 1 << 31, (1 << 32) - 1, 1 << 32, (1 << 32) + 1, (1 << 32) + 3, 1 << 33, (1 << 40) + 5, 1 << 63, usize::MAX - 1, usize::MAX] {
        for variant in 0..3 {
            g.budget = 3;
            let inner = gen_tree::<K>(&mut g, 1, false);
            let base = match variant { 0 => Dl(k, Box::new(inner)), 1 => Dl(2, Box::new(Dl(k, Box::new(inner)))), _ => inner };
            let ops = if variant == 2 {
                // the long delay sits in an adaptor stack over `&mut base`: the base must resume untouched
                let ctx = Dl(k, Box::new(Hole));
                let ctx = if g.rng.chance(1, 2) { gen_un::<K>(&mut g, ctx) } else { ctx };
                vec![Op::N, Op::R { with_e: !adapt, j: 2 + g.rng.usize_below(5), ctx }, Op::N, Op::N]
            } else if adapt { script_adapt::<K>(&mut g, &base) } else { script_exhaust::<K>(&mut g, &base) };
            run_case::<K>(st, stream, &base, &ops);
            st.count("part_rare_long_delay");
        }
    }
    // ... and, on integer formats, samples of large magnitude exactly at / just beyond / just inside the clip threshold
    if K::BITS > 0 {
        for _ in 0..n_wide {
            let t = wide_t::<K>(g.rng);
            g.wide = Some(t);
            g.budget = 5;
            let d = 1 + g.rng.usize_below(3);
            let inner = gen_tree::<K>(&mut g, d - 1, false);
            let base = if g.rng.chance(2, 3) { Cl(K::wide_delta(t), Box::new(inner)) } else { gen_un::<K>(&mut g, inner) };
            let ops = if adapt { script_adapt::<K>(&mut g, &base) } else { script_exhaust::<K>(&mut g, &base) };
            g.wide = None;
            run_case::<K>(st, stream, &base, &ops);
            st.count("part_rare_wide_clip");
        }
    }
}

/// "every stack of adaptors": a `buffered` stage (over a ring buffer that is empty at ANY rotation, or pre-filled) in the
/// stack must not disturb exactness of exhaustion — until_exhausted, take and interleaved output over
/// from_iter(v).buffered(ring) yield exactly the frames of v in order, then stop (oracle only)
fn buffered_in_the_stack(st: &mut Stream, rng: &mut Rng) {
    use dasp_ring_buffer as ring_buffer;
    for cap in 1..=7usize { for start in 0..cap { for len in [0usize, 1, cap - 1, cap, cap + 1, 2 * cap + 3] {
        let v: Vec<[i16; 2]> = (0..len).map(|i| [100 + i as i16, -(i as i16) - rng.range(0, 2) as i16]).collect();
        let case = format!("from_iter({:?}).buffered(empty ring of capacity {} at start {})", v, cap, start);
        mark(0, &case);
        let r = guarded(|| {
            let mk = || signal::from_iter(v.clone()).buffered(ring_buffer::Bounded::from_raw_parts(start, 0, vec![[7i16; 2]; cap]));
            let a: Vec<[i16; 2]> = mk().until_exhausted().take(len + 3 * cap + 5).collect();
            let b: Vec<i16> = mk().scale_amp(1.0).into_interleaved_samples().into_iter().take(2 * len + 7).collect();
            let c: Vec<[i16; 2]> = mk().take(len + 2).collect();
            (a, b, c)
        });
        st.count("buffered_stage_in_the_stack");
        match r {
            None => st.oracle_fail("panic", &case, "no panic", "panic"),
            Some((a, b, c)) => {
                // until_exhausted over a buffered signal: the source's frames in order, then at most the padding of the last
                // refill (equilibrium); never a frame out of order
                let flat: Vec<i16> = v.iter().flat_map(|f| f.iter().cloned()).collect();
                let ok_a = a.len() >= len && a[..len] == v[..] && a[len..].iter().all(|f| *f == [0, 0]) && a.len() <= len + cap;
                let ok_b = b.len() >= 2 * len && b[..2 * len] == flat[..] && b[2 * len..].iter().all(|x| *x == 0);
                let mut want_c = v.clone(); want_c.push([0, 0]); want_c.push([0, 0]);
                if ok_a && ok_b && c == want_c { st.oracle_ok(len as u64 + 1); }
                else { st.oracle_fail("a buffered stage in the stack changed the frames, their order, or the point of exhaustion", &case, &format!("{:?} then equilibrium / the end", v), &format!("until_exhausted {:?} | interleaved {:?} | take {:?}", a, b, c)); }
            }
        }
    } } }
}

/// WIDE frames: "every channel count" — 255, 256, 257 and 300 channels through from_interleaved_samples_iter,
/// into_interleaved_samples (next_sample and the iterator), until_exhausted and channels() (oracle only)
fn wide_frames(st: &mut Stream, rng: &mut Rng) {
    macro_rules! wide { ($n:expr) => { {
        const N: usize = $n;
        for frames in [0usize, 1, 3] { for extra in [0usize, 1, N - 1] {
            let samples: Vec<i16> = (0..frames * N + extra).map(|i| (i as i16).wrapping_mul(3) ^ (rng.range(0, 3) as i16)).collect();
            let case = format!("{} channels, {} complete frames + {} trailing samples of i16", N, frames, extra);
            mark(0, &case);
            let r = guarded(|| {
                let sig = signal::from_interleaved_samples_iter::<_, [i16; N]>(samples.clone().into_iter());
                let a: Vec<i16> = sig.into_interleaved_samples().into_iter().take(frames * N + 2 * N).collect();
                let mut inter = signal::from_interleaved_samples_iter::<_, [i16; N]>(samples.clone().into_iter()).into_interleaved_samples();
                let mut b = Vec::new(); for _ in 0..frames * N + N { b.push(inter.next_sample()); }
                let c: Vec<[i16; N]> = signal::from_interleaved_samples_iter::<_, [i16; N]>(samples.clone().into_iter()).until_exhausted().take(frames + 2).collect();
                let d: Vec<usize> = c.iter().map(|f| f.channels().count()).collect();
                (a, b, c, d)
            });
            st.count("wide_frames_255_to_300_channels");
            match r {
                None => st.oracle_fail("panic with a wide frame type", &case, "no panic", "panic"),
                Some((a, b, c, d)) => {
                    let want = &samples[..frames * N];
                    // `into_iter()` over an exhausted source: exactly frames x channels samples, then None for good
                    let ok_a = a == want;
                    let ok_b = b.iter().take(frames * N).map(|x| x.unwrap_or(i16::MIN)).eq(want.iter().cloned()) && b[frames * N..].iter().all(|x| x.is_none());
                    let ok_c = c.len() == frames && c.iter().enumerate().all(|(k, f)| f[..] == want[k * N..(k + 1) * N]) && d.iter().all(|&k| k == N);
                    if ok_a && ok_b && ok_c { st.oracle_ok((frames * N) as u64 + 1); }
                    else { st.oracle_fail("wide frames: interleaved-sample output must yield exactly frames x channels samples in channel order before None; until_exhausted exactly the complete frames; channels() all channels", &case, &format!("{} samples", frames * N), &format!("into_iter: {} samples ({}), next_sample ok: {}, until_exhausted/channels ok: {} ({} frames)", a.len(), ok_a, ok_b, ok_c, c.len())); }
                }
            }
        } }
    } } }
    wide!(255); wide!(256); wide!(257); wide!(300);
}

/// Exhaustion through a FORK: a branch may report `is_exhausted()` only when no frame remains for it — neither queued
/// by the other branch nor in the source; and `until_exhausted` on a lagging branch still delivers every frame it is
/// owed (oracle only; both branch kinds, every lag within the capacity)
fn fork_exhaustion(st: &mut Stream, rng: &mut Rng) {
    use dasp_ring_buffer as ring_buffer;
    for cap in 1..=4usize { for len in 0..=7usize { for lag in 0..=cap.min(len) { for rc in [false, true] {
        let src: Vec<[i16; 1]> = (0..len).map(|i| [100 + i as i16 + rng.range(0, 3) as i16 * 1000]).collect();
        let case = format!("fork over from_iter({:?}), ring capacity {}, {} branches: A pulls all {} frames, B only {}; then B is asked is_exhausted() before each of its remaining pulls and drained with until_exhausted()", src, cap, if rc { "by_rc" } else { "by_ref" }, len, len - lag);
        mark(0, &case);
        let r = guarded(|| {
            let mut fork = signal::from_iter(src.clone()).fork(ring_buffer::Bounded::from(vec![[0i16; 1]; cap]));
            let mut early = None; let mut rest: Vec<[i16; 1]> = vec![];
            macro_rules! drive { ($a:ident, $b:ident) => { {
                // B follows A closely enough that the lead never exceeds the capacity, and ends `lag` frames behind
                let mut pulled_b = 0usize;
                for i in 0..len { if i - pulled_b >= lag && pulled_b < len - lag { $b.next(); pulled_b += 1; } $a.next(); }
                while pulled_b < len - lag { $b.next(); pulled_b += 1; }
                for k in 0..lag { if $b.is_exhausted() && early.is_none() { early = Some(k); } rest.push($b.next()); }
            } } }
            if rc { let (mut a, mut b) = fork.by_rc(); drive!(a, b); } else { let (mut a, mut b) = fork.by_ref(); drive!(a, b); }
            (early, rest)
        });
        st.count("fork_branch_exhaustion");
        match r {
            None => st.oracle_fail("fork panicked although the lead never exceeded the capacity", &case, "no panic", "panic"),
            Some((early, rest)) => {
                let want: Vec<[i16; 1]> = src[len - lag..].to_vec();
                if early.is_none() && rest == want { st.oracle_ok(lag as u64 + 1); }
                else { st.oracle_fail("a lagging fork branch reported exhaustion while frames were still queued for it, or did not deliver them", &case, &format!("{:?}, never exhausted before the last of them", want), &format!("{:?}, is_exhausted() true with {:?} frame(s) already taken of the {} owed", rest, early, lag)); }
            }
        }
    } } } }
}

fn main() {
    let a = Args::parse();
    let stream = a.stream.clone();
    if stream != "adapt" && stream != "exhaust" { eprintln!("unknown stream {}", stream); std::process::exit(2); }
    let mut st = Stream::new(&a.out, &stream);
    let mut rng = Rng::new(a.seed, &stream);
    let (n, w, d) = if a.thorough() { (8_000, 6_000, 10) } else { (900, 250, 6) };
    let t = a.thorough();
    // quick: reduced-alphabet enumeration for two kinds; thorough: full alphabet for one integer kind and f64, reduced for the rest
    run_stream::<f64>(&mut st, &stream, &mut rng, n, 0, d, Some(t));
    run_stream::<[i32; 2]>(&mut st, &stream, &mut rng, n, w, d, Some(t));
    run_stream::<[i16; 2]>(&mut st, &stream, &mut rng, n, w / 2, d, if t { Some(false) } else { None });
    run_stream::<[i32; 3]>(&mut st, &stream, &mut rng, n, w / 2, d, if t { Some(false) } else { None });
    run_stream::<[f32; 2]>(&mut st, &stream, &mut rng, n, 0, d, if t { Some(false) } else { None });
    run_stream::<[u16; 2]>(&mut st, &stream, &mut rng, n, w / 2, d, if t { Some(false) } else { None });
    run_stream::<[u32; 2]>(&mut st, &stream, &mut rng, n / 2, w, d, None);
    run_stream::<[i64; 2]>(&mut st, &stream, &mut rng, n / 2, w, d, None);
    run_stream::<[u64; 2]>(&mut st, &stream, &mut rng, n / 2, w, d, None);
    // call-site resolution: every adaptor method on the concrete type of every other adaptor (see typed.rs)
    if stream == "exhaust" { fork_exhaustion(&mut st, &mut rng); wide_frames(&mut st, &mut rng); buffered_in_the_stack(&mut st, &mut rng); }
    if stream == "adapt" {
        let rounds = if t { 300 } else { 40 };
        typed::stereo_i16::run_all(&mut st, &mut rng, rounds);
        typed::mono_f64::run_all(&mut st, &mut rng, rounds);
    }
    st.exhaustive = false;
    st.finish();
}
