//! C07 — no heap allocation in steady state: allocator-instrumented operation catalogue.
//! Every catalogue entry constructs its objects first (allocation allowed there), then runs the
//! steady-state calls between two snapshots of a counting global allocator.
#[path = "../util.rs"]
mod util;
use std::alloc::{GlobalAlloc, Layout, System};
use std::hint::black_box as bb;
use std::sync::atomic::{AtomicU64, Ordering::Relaxed};
use util::*;

use dasp_frame::Frame;
use dasp_interpolate::{floor::Floor, linear::Linear, sinc::Sinc, Interpolator};
use dasp_ring_buffer as ring_buffer;
use dasp_sample::{Sample, I24, I48, U24, U48};
use dasp_signal::{self as signal, Signal};
use dasp_signal::bus::SignalBus;
use dasp_signal::envelope::SignalEnvelope;
use dasp_signal::rms::SignalRms;
use dasp_signal::window::Windower;

struct Counting;
static ALLOCS: AtomicU64 = AtomicU64::new(0);
static REALLOCS: AtomicU64 = AtomicU64::new(0);
static FREES: AtomicU64 = AtomicU64::new(0);
unsafe impl GlobalAlloc for Counting {
    unsafe fn alloc(&self, l: Layout) -> *mut u8 { ALLOCS.fetch_add(1, Relaxed); System.alloc(l) }
    unsafe fn dealloc(&self, p: *mut u8, l: Layout) { FREES.fetch_add(1, Relaxed); System.dealloc(p, l) }
    unsafe fn realloc(&self, p: *mut u8, l: Layout, n: usize) -> *mut u8 { REALLOCS.fetch_add(1, Relaxed); System.realloc(p, l, n) }
    unsafe fn alloc_zeroed(&self, l: Layout) -> *mut u8 { ALLOCS.fetch_add(1, Relaxed); System.alloc_zeroed(l) }
}
#[global_allocator]
static GLOBAL: Counting = Counting;
fn snap() -> (u64, u64, u64) { (ALLOCS.load(Relaxed), REALLOCS.load(Relaxed), FREES.load(Relaxed)) }

struct Cat { st: Stream, calls: usize, results: Vec<(String, (u64, u64, u64), (u64, u64, u64))> }
impl Cat {
    /// `expect`: the allocation effect the model (and the property) prescribes for the measured region
    fn measure(&mut self, name: &str, expect: (u64, u64, u64), f: impl FnOnce()) {
        let a = snap();
        f();
        let b = snap();
        let d = (b.0 - a.0, b.1 - a.1, b.2 - a.2);
        self.results.push((name.to_string(), d, expect));
    }
    fn flush(mut self) {
        let rs = std::mem::take(&mut self.results);
        for (name, d, expect) in rs {
            let op = format!("alloc {}", name);
            let obs = format!("{} {} {}", d.0, d.1, d.2);
            self.st.case(&op, &obs, true, self.calls as u64);
            if d != expect {
                self.st.oracle_fail("heap allocator called in steady state (allocs reallocs frees)", &op, &format!("{} {} {}", expect.0, expect.1, expect.2), &obs);
            } else { self.st.oracle_ok(1); }
            let fam = name.split('.').next().unwrap_or("").to_string();
            self.st.count(&format!("family_{}", fam));
        }
        self.st.finish();
    }
}
const Z: (u64, u64, u64) = (0, 0, 0);

fn drive<S: Signal>(mut s: S, n: usize) where S::Frame: Frame { for _ in 0..n { bb(s.next()); bb(s.is_exhausted()); } }

fn sample_family(c: &mut Cat, rng: &mut Rng) {
    let n = c.calls;
    let vals: Vec<i64> = (0..n).map(|_| rng.next_u64() as i64).collect();
    let fl: Vec<f64> = (0..n).map(|_| rng.f64_unit() * 2.0 - 1.0).collect();
    c.measure("sample.conversions_all_formats", Z, || {
        for (&v, &x) in vals.iter().zip(fl.iter()) {
            let a = v as i8; let b = v as i16; let d = v as i32; let e = v; let u = v as u8; let w = v as u16; let y = v as u32; let z = v as u64;
            let i24 = I24::new_unchecked((v as i32) >> 8); let i48 = I48::new_unchecked(v >> 16);
            let u24 = U24::new_unchecked(((v as u32) >> 8) as i32); let u48 = U48::new_unchecked(((v as u64) >> 16) as i64);
            bb(a.to_sample::<u64>()); bb(b.to_sample::<I24>()); bb(d.to_sample::<U48>()); bb(e.to_sample::<f32>()); bb(u.to_sample::<i64>());
            bb(w.to_sample::<f64>()); bb(y.to_sample::<I48>()); bb(z.to_sample::<u8>()); bb(i24.to_sample::<u16>()); bb(i48.to_sample::<f64>());
            bb(u24.to_sample::<i8>()); bb(u48.to_sample::<f32>()); bb(x.to_sample::<I24>()); bb((x as f32).to_sample::<U48>()); bb(x.to_sample::<u64>());
            bb(i64::from_sample(x)); bb(U24::from_sample(a)); bb(f32::from_sample(u48));
        }
    });
    c.measure("sample.add_amp_mul_amp", Z, || {
        for (&v, &x) in vals.iter().zip(fl.iter()) {
            bb(Sample::add_amp((v >> 40) as i32, 3)); bb(Sample::add_amp(v as u8, 0)); bb(Sample::mul_amp((v as u16) >> 1, x as f32)); bb(Sample::mul_amp(v >> 2, x));
            bb(Sample::mul_amp(U24::new_unchecked(((v as u32) >> 9) as i32), 0.5)); bb(Sample::add_amp(x, 0.25)); bb(Sample::mul_amp(x, x)); bb(Sample::mul_amp(I48::new_unchecked(v >> 17), x));
            bb((v as i16).to_signed_sample()); bb((v as u32).to_float_sample());
        }
    });
}

fn frame_family(c: &mut Cat, rng: &mut Rng) {
    let n = c.calls;
    let a2: Vec<[i16; 2]> = (0..n).map(|_| [rng.next_u64() as i16 >> 1, rng.next_u64() as i16 >> 1]).collect();
    let a32: Vec<[f32; 32]> = (0..n / 8 + 1).map(|_| core::array::from_fn(|_| rng.f64_unit() as f32)).collect();
    c.measure("frame.ops_n2_i16", Z, || {
        for f in a2.iter() {
            bb(f.scale_amp(0.5)); bb(f.offset_amp(1)); bb(f.add_amp([1i16, -1])); bb(f.mul_amp([0.5f32, 0.25])); bb(f.to_signed_frame()); bb(f.to_float_frame());
            bb(Frame::map::<[i32; 2], _>(*f, |s| s as i32 * 2)); bb(f.zip_map::<_, [i16; 2], _>([1i16, 2], |x, y| x / 2 + y)); bb(f.channels().count()); bb(f.channel(1));
            bb(<[i16; 2] as Frame>::from_fn(|i| i as i16)); bb(<[i16; 2] as Frame>::from_samples(&mut f.iter().cloned())); bb(<[i16; 2] as Frame>::EQUILIBRIUM);
        }
    });
    c.measure("frame.ops_n32_f32", Z, || {
        for f in a32.iter() {
            bb(f.scale_amp(0.5)); bb(f.offset_amp(0.1)); bb(f.add_amp(*f)); bb(f.mul_amp(*f)); bb(f.to_float_frame()); bb(f.channels().count());
            bb(<[f32; 32] as Frame>::from_samples(&mut f.iter().cloned())); bb(<[f32; 32] as Frame>::from_samples(&mut f.iter().cloned().take(7)));
        }
    });
    c.measure("frame.mono", Z, || { for f in a2.iter() { let s = f[0]; bb(Frame::scale_amp(s, 0.5)); bb(Frame::offset_amp(s, 1)); bb(Frame::channels(s).count()); } });
}

fn slice_family(c: &mut Cat, rng: &mut Rng) {
    let n = 6 * 64;
    let mut samples: Vec<f32> = (0..n).map(|_| rng.f64_unit() as f32).collect();
    let other: Vec<[f32; 2]> = (0..n / 2).map(|_| [rng.f64_unit() as f32, 0.5]).collect();
    let reps = c.calls / 64 + 1;
    c.measure("slice.borrowed_views", Z, || {
        for _ in 0..reps {
            bb(dasp_slice::to_frame_slice::<_, [f32; 2]>(&samples[..]).map(|s| s.len()));
            bb(dasp_slice::to_frame_slice::<_, [f32; 5]>(&samples[..]).map(|s| s.len()));
            bb(dasp_slice::to_frame_slice::<_, [f32; 32]>(&samples[..]).map(|s| s.len()));
            let fr: &mut [[f32; 3]] = dasp_slice::to_frame_slice_mut(&mut samples[..]).unwrap();
            bb(dasp_slice::to_sample_slice(&fr[..]).len());
            bb(dasp_slice::to_sample_slice_mut(fr).len());
        }
    });
    c.measure("slice.in_place_ops", Z, || {
        for _ in 0..reps {
            let fr: &mut [[f32; 2]] = dasp_slice::to_frame_slice_mut(&mut samples[..]).unwrap();
            dasp_slice::map_in_place(fr, |f| f.scale_amp(0.99));
            dasp_slice::zip_map_in_place(fr, &other[..], |a, b| a.add_amp(b));
            dasp_slice::add_in_place(fr, &other[..]);
            dasp_slice::add_in_place_with_amp_per_channel(fr, &other[..], [0.5f32, 0.25]);
            dasp_slice::write(fr, &other[..]);
            dasp_slice::equilibrium(fr);
        }
    });
    // boxed conversions: documented exception, but they reuse the allocation: 0 allocs, 0 frees on success;
    // a failed conversion releases the box: exactly one free
    let boxed: Box<[f32]> = vec![0.0f32; 12].into_boxed_slice();
    let mut keep = None;
    c.measure("slice.boxed_roundtrip_reuses_allocation", Z, || {
        let fr: Box<[[f32; 3]]> = dasp_slice::to_boxed_frame_slice(boxed).unwrap();
        let back: Box<[f32]> = dasp_slice::to_boxed_sample_slice(fr);
        keep = Some(back);
    });
    let boxed2: Box<[f32]> = vec![0.0f32; 13].into_boxed_slice();
    c.measure("slice.boxed_failed_conversion_releases", (0, 0, 1), || {
        let r: Option<Box<[[f32; 3]]>> = dasp_slice::to_boxed_frame_slice(boxed2);
        bb(r.is_none());
    });
    drop(keep);
}

fn ring_family(c: &mut Cat, rng: &mut Rng) {
    let n = c.calls;
    let xs: Vec<i32> = (0..n).map(|_| rng.next_u64() as i32).collect();
    let mut b = ring_buffer::Bounded::from([0i32; 7]);
    c.measure("ring.bounded_array", Z, || {
        for (i, &x) in xs.iter().enumerate() {
            bb(b.push(x)); if i % 3 == 0 { bb(b.pop()); } bb(b.get(i % 8)); bb(b.len()); bb(b.is_full()); bb(b.iter().count()); bb(b.slices());
            if i % 50 == 0 { bb(b.drain().count()); } if let Some(m) = b.get_mut(0) { *m = 1; } bb(b.iter_mut().count()); bb(b.slices_mut().0.len());
        }
    });
    let mut bv = ring_buffer::Bounded::from(vec![0i32; 9]);
    let mut bbx = ring_buffer::Bounded::from(vec![0i32; 4].into_boxed_slice());
    c.measure("ring.bounded_heap_storage_never_resized", Z, || {
        for (i, &x) in xs.iter().enumerate() { bb(bv.push(x)); bb(bbx.push(x)); if i % 4 == 0 { bb(bv.pop()); bb(bbx.pop()); } bb(bv.iter().count()); if i % 64 == 0 { bb(bv.drain().count()); } }
    });
    let mut f = ring_buffer::Fixed::from([0i32; 5]);
    let mut fv = ring_buffer::Fixed::from(vec![0i32; 16]);
    c.measure("ring.fixed", Z, || {
        for (i, &x) in xs.iter().enumerate() {
            bb(f.push(x)); bb(fv.push(x)); bb(f.get(i)); bb(f[i % 5]); *f.get_mut(i) = 3; f.set_first(i); bb(f.iter().count()); bb(f.iter_loop().take(12).count());
            bb(f.iter_mut().count()); bb(f.slices()); bb(f.slices_mut().0.len()); bb(fv.iter().count()); bb(f.len());
        }
    });
}

fn dsp_family(c: &mut Cat, rng: &mut Rng) {
    let n = c.calls;
    let fr: Vec<[f32; 2]> = (0..n).map(|_| [rng.f64_unit() as f32 * 2.0 - 1.0, rng.f64_unit() as f32]).collect();
    let fi: Vec<[i16; 2]> = (0..n).map(|_| [rng.next_u64() as i16, rng.next_u64() as i16]).collect();
    c.measure("peak.rectifiers", Z, || { for f in fr.iter() { bb(dasp_peak::full_wave(*f)); bb(dasp_peak::positive_half_wave(*f)); bb(dasp_peak::negative_half_wave(*f)); }
        for f in fi.iter() { bb(dasp_peak::positive_half_wave(*f)); bb(dasp_peak::negative_half_wave(*f)); } });
    let mut rms = dasp_rms::Rms::new(ring_buffer::Fixed::from([[0.0f32; 2]; 16]));
    let mut rmsi = dasp_rms::Rms::new(ring_buffer::Fixed::from(vec![[0.0f32; 2]; 100]));
    c.measure("rms.next_reset", Z, || { for (i, f) in fr.iter().enumerate() { bb(rms.next(*f)); bb(rms.next_squared(*f)); bb(rms.current()); bb(rmsi.next(fi[i])); if i % 200 == 0 { rms.reset(); rmsi.reset(); } bb(rms.window_frames()); } });
    let mut dp = dasp_envelope::Detector::peak(10.0, 50.0);
    let mut dph = dasp_envelope::Detector::peak_positive_half_wave(0.0, 5.0);
    let mut dr = dasp_envelope::Detector::rms(ring_buffer::Fixed::from([[0.0f32; 2]; 8]), 5.0, 100.0);
    c.measure("envelope.detectors", Z, || { for (i, f) in fr.iter().enumerate() { bb(dp.next(*f)); bb(dph.next(*f)); bb(dr.next(*f)); if i % 100 == 0 { dp.set_attack_frames(i as f32); dr.set_release_frames(3.0); } } });
    let mut fl = Floor::new([0.0f32; 2]);
    let mut li = Linear::new([0.0f32; 2], [0.0f32; 2]);
    let mut si = Sinc::new(ring_buffer::Fixed::from([[0.0f32; 2]; 16]));
    let mut sv = Sinc::new(ring_buffer::Fixed::from(vec![[0i16; 2]; 8]));
    c.measure("interpolate.floor_linear_sinc", Z, || { for (i, f) in fr.iter().enumerate() {
        let x = (i % 17) as f64 / 17.0;
        fl.next_source_frame(*f); bb(fl.interpolate(x)); li.next_source_frame(*f); bb(li.interpolate(x)); si.next_source_frame(*f); bb(si.interpolate(x));
        sv.next_source_frame([fi[i][0] >> 2, fi[i][1] >> 2]); bb(sv.interpolate(x)); if i % 300 == 0 { si.reset(); li.reset(); fl.reset(); } } });
    c.measure("window.functions", Z, || { for i in 0..n { let p = i as f64 / n as f64; bb(<dasp_window::Hann as dasp_window::Window<f64>>::window(p)); bb(<dasp_window::Rectangle as dasp_window::Window<f64>>::window(p)); } });
}

fn signal_family(c: &mut Cat, rng: &mut Rng) {
    let n = c.calls;
    let data: Vec<[f64; 2]> = (0..n).map(|_| [rng.f64_unit() * 2.0 - 1.0, rng.f64_unit()]).collect();
    let mono: Vec<f64> = data.iter().map(|f| f[0]).collect();
    let idata: Vec<[i16; 2]> = (0..n).map(|_| [rng.next_u64() as i16 >> 2, rng.next_u64() as i16 >> 2]).collect();
    let half = n / 2;
    // sources
    { let s = signal::from_iter(data.iter().cloned()); c.measure("signal.from_iter_past_exhaustion", Z, || drive(s, n + 50)); }
    { let s = signal::from_interleaved_samples_iter::<_, [f64; 3]>(mono.iter().cloned()); c.measure("signal.from_interleaved_samples_iter", Z, || drive(s, n)); }
    { let s = signal::equilibrium::<[f32; 4]>(); c.measure("signal.equilibrium", Z, || drive(s, n)); }
    { let s = signal::gen(|| [0.25f64]); let mut k = 0.0; let g = signal::gen_mut(move || { k += 0.001; [k, -k] }); c.measure("signal.gen_gen_mut", Z, || { drive(s, n); drive(g, n); }); }
    { let r = signal::rate(44_100.0);
      let (a, b, d, e) = (r.const_hz(440.0).sine(), r.const_hz(8000.5).saw(), r.const_hz(0.3).square(), r.const_hz(123.0).noise_simplex());
      c.measure("signal.oscillators_const_hz", Z, || { drive(a, n); drive(b, n); drive(d, n); drive(e, n); }); }
    { let r = signal::rate(48_000.0); let hz = signal::from_iter(mono.iter().map(|x| 200.0 + x * 100.0));
      let hz2 = signal::gen(|| 330.0); let (a, b) = (r.hz(hz).sine(), r.hz(hz2).noise_simplex());
      c.measure("signal.oscillators_hz_signal", Z, || { drive(a, n); drive(b, n); }); }
    { let s = signal::noise(u64::MAX - 5); c.measure("signal.noise", Z, || drive(s, n)); }
    // adaptors
    { let s = signal::from_iter(data.iter().cloned()).map(|f: [f64; 2]| [f[0] as f32, f[1] as f32]); c.measure("signal.map", Z, || drive(s, n)); }
    { let s = signal::from_iter(data.iter().cloned()).zip_map(signal::from_iter(data.iter().rev().cloned()), |a, b| [a[0] + b[1]]); c.measure("signal.zip_map", Z, || drive(s, n)); }
    { let s = signal::from_iter(idata.iter().cloned()).add_amp(signal::from_iter(idata.iter().rev().cloned()));
      let m = signal::from_iter(idata.iter().cloned()).mul_amp(signal::gen(|| [0.5f32, 0.25])); c.measure("signal.add_amp_mul_amp", Z, || { drive(s, n); drive(m, n); }); }
    { let s = signal::from_iter(idata.iter().cloned()).scale_amp(0.5).offset_amp(100).scale_amp_per_channel([0.5f32, 1.0]).offset_amp_per_channel([1i16, -1]);
      c.measure("signal.scale_offset_per_channel", Z, || drive(s, n)); }
    { let s = signal::from_iter(data.iter().cloned()).clip_amp(0.5); let t = signal::from_iter(idata.iter().cloned()).clip_amp(1000);
      c.measure("signal.clip_amp", Z, || { drive(s, n); drive(t, n); }); }
    { let mut acc = 0.0; let s = signal::from_iter(data.iter().cloned()).inspect(move |f| { acc += f[0]; bb(acc); }); c.measure("signal.inspect", Z, || drive(s, n)); }
    { let s = signal::from_iter(data.iter().cloned()).delay(37); c.measure("signal.delay", Z, || drive(s, n)); }
    { let s = signal::from_iter(data.iter().cloned()).take(half); let u = signal::from_iter(data.iter().cloned()).until_exhausted();
      let l = signal::lift(data.iter().cloned(), |s| s.scale_amp(0.5));
      c.measure("signal.take_until_exhausted_lift", Z, || { bb(s.count()); bb(u.count()); bb(l.count()); }); }
    { let s = signal::from_iter(data.iter().cloned()).into_interleaved_samples(); c.measure("signal.into_interleaved_samples", Z, || { let mut s = s; for _ in 0..2 * n + 5 { bb(s.next_sample()); } bb(s.into_iter().take(10).count()); }); }
    { let mut src = signal::from_iter(data.iter().cloned()); c.measure("signal.by_ref", Z, || { drive(src.by_ref().scale_amp(0.5), half / 2); drive(src.by_ref().delay(3), half / 2); bb(src.next()); }); }
    { let s = signal::from_iter(data.iter().cloned()).buffered(ring_buffer::Bounded::from([[0.0f64; 2]; 13]));
      let mut t = signal::from_iter(data.iter().cloned()).buffered(ring_buffer::Bounded::from(vec![[0.0f64; 2]; 64]));
      c.measure("signal.buffered_next_and_next_frames", Z, || { drive(s, n); for _ in 0..n / 64 { bb(t.next_frames().count()); bb(t.next()); bb(t.next_frames().take(3).count()); } }); }
    { let f = signal::from_iter(data.iter().cloned()).fork(ring_buffer::Bounded::from([[0.0f64; 2]; 32]));
      let mut f = f; c.measure("signal.fork_by_ref", Z, || { let (mut a, mut b) = f.by_ref(); for i in 0..n { if i % 32 < 20 { bb(a.next()); bb(b.next()); } else { bb(b.next()); bb(a.next()); } bb(a.pending_frames()); } }); }
    { let f = signal::from_iter(data.iter().cloned()).fork(ring_buffer::Bounded::from([[0.0f64; 2]; 8]));
      let (mut a, mut b) = f.by_rc();   // creation allocates (documented exception); the branches must not
      c.measure("signal.fork_by_rc_branches_after_creation", Z, || { for _ in 0..n { bb(a.next()); bb(b.next()); bb(b.pending_frames()); } }); }
    { let s = signal::from_iter(data.iter().cloned()).from_hz_to_hz(Floor::new([0.0; 2]), 44100.0, 48000.0);
      let t = signal::from_iter(data.iter().cloned()).scale_hz(Linear::new([0.0; 2], [0.0; 2]), 1.37);
      let u = signal::from_iter(data.iter().cloned()).from_hz_to_hz(Sinc::new(ring_buffer::Fixed::from([[0.0f64; 2]; 20])), 48000.0, 44100.0);
      let m = signal::from_iter(data.iter().cloned()).mul_hz(Linear::new([0.0; 2], [0.0; 2]), signal::gen(|| 1.01));
      c.measure("signal.converter_floor_linear_sinc_mul_hz", Z, || { drive(s, n); drive(t, n); drive(u, n); drive(m, n); }); }
    { let s = signal::from_iter(data.iter().cloned()).rms(ring_buffer::Fixed::from([[0.0f64; 2]; 32]));
      let e = signal::from_iter(data.iter().cloned()).detect_envelope(dasp_envelope::Detector::peak(5.0, 20.0));
      c.measure("signal.rms_and_detect_envelope", Z, || { drive(s, n); drive(e, n); }); }
    { c.measure("signal.windower_hann_rectangle", Z, || {
        let mut chunks = 0usize;
        for w in Windower::hann(&data[..], 64, 16) { bb(w.take(70).count()); chunks += 1; }
        for w in Windower::rectangle(&idata[..], 33, 50) { for f in w.take(33) { bb(f); } chunks += 1; }
        let w = Windower::hann(&data[..], 8, 3); bb(w.size_hint()); bb(chunks);
        bb(dasp_signal::window::hann::<[f64; 1]>(50).take(50).count()); bb(dasp_signal::window::rectangle::<[f32; 2]>(9).take(9).count());
      }); }
    // deep composition
    { let mut src = signal::from_iter(data.iter().cloned());
      c.measure("signal.composition_fork_add_delay_clip_buffered", Z, || {
        let f = src.by_ref().fork(ring_buffer::Bounded::from([[0.0f64; 2]; 4])); let mut f = f;
        let (a, b) = f.by_ref();
        let chain = a.add_amp(b).delay(5).clip_amp(0.7).scale_amp(0.9).buffered(ring_buffer::Bounded::from([[0.0f64; 2]; 6]));
        drive(chain, n / 2);
      }); }
    // the bus: documented exception, but in lock-step the backlog stops growing: after one warm-up round, nothing
    { let bus = signal::from_iter(data.iter().cloned()).bus();
      let (mut o1, mut o2, mut o3) = (bus.send(), bus.send(), bus.send());
      for _ in 0..4 { bb(o1.next()); bb(o2.next()); bb(o3.next()); }
      c.measure("bus.lockstep_three_outputs_after_warmup", Z, || { for _ in 0..n { bb(o1.next()); bb(o2.next()); bb(o3.next()); bb(o2.pending_frames()); } }); }
    // every number of live outputs, the single one included: only one `send()` ever; two of three dropped (a monitor
    // detached while the main output keeps running); an output attached late; all of them pulled in step, no accessor calls
    { let bus = signal::from_iter(data.iter().cloned()).bus();
      let mut o = bus.send();
      for _ in 0..4 { bb(o.next()); }
      c.measure("bus.single_output_only_ever", Z, || { for _ in 0..n { bb(o.next()); } }); }
    { let bus = signal::from_iter(data.iter().cloned()).bus();
      let (mut o1, mut o2, o3) = (bus.send(), bus.send(), bus.send());
      for _ in 0..4 { bb(o1.next()); bb(o2.next()); }
      drop(o3); drop(o1);
      for _ in 0..8 { bb(o2.next()); }
      c.measure("bus.one_output_left_after_the_others_were_dropped", Z, || { for _ in 0..n { bb(o2.next()); } }); }
    { let bus = signal::from_iter(data.iter().cloned()).bus();
      let mut o1 = bus.send();
      for _ in 0..5 { bb(o1.next()); }
      let mut o2 = bus.send();
      for _ in 0..4 { bb(o1.next()); bb(o2.next()); }
      c.measure("bus.output_attached_late_then_lockstep_two_outputs", Z, || { for _ in 0..n { bb(o2.next()); bb(o1.next()); } }); }
}

/// formatting and copying the allocation-free types: `Debug`, `Clone`, `PartialEq` of the array-backed ring buffers,
/// detectors and parameter objects are operations of the API surface too ("no operation … allocates"); the output
/// goes to a fixed stack buffer so that only the implementation under test could touch the heap
fn trait_family(c: &mut Cat, _rng: &mut Rng) {
    use std::fmt::Write;
    struct Sink { buf: [u8; 16384], n: usize }
    impl Write for Sink {
        fn write_str(&mut self, s: &str) -> std::fmt::Result {
            let b = s.as_bytes(); let k = b.len().min(self.buf.len() - self.n);
            self.buf[self.n..self.n + k].copy_from_slice(&b[..k]); self.n += k; Ok(())
        }
    }
    fn show<T: std::fmt::Debug>(s: &mut Sink, t: &T) { s.n = 0; let _ = write!(s, "{:?}", t); let _ = write!(s, "{:#?}", t); bb(s.n); }
    let mut sink = Sink { buf: [0; 16384], n: 0 };
    let reps = (c.calls / 64 + 2).min(200);
    // ring buffers over arrays, rotated to several positions
    let mut fx = ring_buffer::Fixed::from([[0.0f64; 2]; 7]);
    let mut bd = ring_buffer::Bounded::from([0i32; 5]);
    c.measure("traits.ring_buffers_debug_clone_eq_while_rotating", Z, || {
        for i in 0..reps { fx.push([i as f64, 0.5]); bd.push(i as i32); if i % 3 == 0 { bd.pop(); }
            show(&mut sink, &fx); show(&mut sink, &bd);
            let (f2, b2) = (fx.clone(), bd.clone()); bb(f2 == fx); bb(b2 == bd); bb(f2.len()); bb(b2.len()); }
    });
    // the RMS detector (window rotated to every position), envelope detectors, rectifiers, rate
    let mut rms = dasp_rms::Rms::new(ring_buffer::Fixed::from([[0.0f32; 2]; 6]));
    let mut det = dasp_envelope::Detector::peak(3.0, 9.0);
    let mut detr = dasp_envelope::Detector::rms(ring_buffer::Fixed::from([[0.0f32; 1]; 4]), 2.0, 5.0);
    c.measure("traits.rms_and_envelope_detectors_debug_clone_while_running", Z, || {
        for i in 0..reps { let x = (i as f32 * 0.37).sin();
            bb(rms.next([x, -x])); show(&mut sink, &rms); let r2 = rms.clone(); bb(r2.current());
            bb(det.next([x, 0.5 * x])); show(&mut sink, &det); let d2 = det.clone(); bb(d2);
            bb(detr.next([x])); show(&mut sink, &detr); let d3 = detr.clone(); bb(d3); }
        show(&mut sink, &signal::rate(44100.0)); show(&mut sink, &dasp_peak::FullWave); show(&mut sink, &dasp_peak::PositiveHalfWave);
    });
    // custom-width samples and frames of them
    c.measure("traits.custom_width_samples_debug_cmp", Z, || {
        for i in 0..reps as i32 { let a = I24::new(i * 4097 - 8_000_000).unwrap(); let b = U48::new(i as i64 * 1_000_003).unwrap();
            show(&mut sink, &a); show(&mut sink, &b); show(&mut sink, &[a, a]); bb(a >= a); bb(b.cmp(&b)); bb(a.clone()); }
    });
    // clones of stateful signal adaptors and oscillators continue without touching the heap
    c.measure("traits.signal_adaptors_clone_mid_stream", Z, || {
        let mut s = signal::rate(48000.0).const_hz(441.0).sine().scale_amp(0.5).delay(3);
        for _ in 0..10 { bb(s.next()); }
        let mut t = s.clone();
        for _ in 0..reps { bb(s.next()); bb(t.next()); }
        let mut n = signal::noise(7); let mut m = n.clone(); for _ in 0..reps { bb(n.next()); bb(m.next()); }
        let mut ph = signal::rate(8.0).const_hz(1.0).phase(); let mut ph2 = ph.clone(); for _ in 0..reps { bb(ph.next()); bb(ph2.next()); }
    });
}

/// the less-travelled sample formats (custom-width integers, unsigned, 64-bit) through the operators and through the
/// hot paths of the other crates — in both build profiles (the debug-assertion branches of the custom-width
/// operators are code too); operands stay small so that nothing overflows
fn rare_format_family(c: &mut Cat, _rng: &mut Rng) {
    use dasp_sample::types::{I11, I20, U11, U20};
    let reps = c.calls.min(4000) as i32;
    c.measure("formats.custom_width_operators_add_sub_mul_neg", Z, || {
        for i in 1..reps {
            let (a, b) = (I24::new(i % 1000 - 500).unwrap(), I24::new(i % 7 - 3).unwrap());
            bb(a + b); bb(a - b); bb(a * b); bb(-a);
            let (a, b) = (I48::new(i as i64 * 1001 - 7).unwrap(), I48::new(i as i64 % 9 - 4).unwrap());
            bb(a + b); bb(a - b); bb(a * b); bb(-a);
            let (a, b) = (U24::new(8_388_608 + i % 1000).unwrap(), U24::new(i % 5).unwrap());
            bb(a + b); bb(a - b);
            let (a, b) = (U48::new((1i64 << 47) + i as i64).unwrap(), U48::new(i as i64 % 5).unwrap());
            bb(a + b); bb(a - b);
            let (a, b) = (I11::new((i % 30 - 15) as i16).unwrap(), I11::new((i % 5 - 2) as i16).unwrap());
            bb(a + b); bb(a - b); bb(a * b); bb(-a);
            let (a, b) = (I20::new(i % 700 - 350).unwrap(), I20::new(i % 5 - 2).unwrap());
            bb(a + b); bb(a - b); bb(a * b);
            let (a, b) = (U11::new((1024 + i % 100) as i16).unwrap(), U11::new((i % 5) as i16).unwrap());
            bb(a + b); bb(a - b);
            let (a, b) = (U20::new(524_288 + i % 100).unwrap(), U20::new(i % 5).unwrap());
            bb(a + b); bb(a - b);
        }
    });
    let f24: Vec<[I24; 2]> = (0..reps).map(|i| [I24::new(i % 2000 - 1000).unwrap(), I24::new(500 - i % 1000).unwrap()]).collect();
    let f48: Vec<[I48; 1]> = (0..reps).map(|i| [I48::new(i as i64 * 4099 - 123).unwrap()]).collect();
    let u24: Vec<U24> = (0..reps).map(|i| U24::new(8_388_608 + i % 3000 - 1500).unwrap()).collect();
    let i64s: Vec<[i64; 2]> = (0..reps).map(|i| [i as i64 * 1_000_003, -(i as i64) * 77]).collect();
    c.measure("formats.packed_and_wide_frames_through_frame_slice_signal_dsp", Z, || {
        for f in f24.iter() { bb(f.add_amp([I24::new(3).unwrap(), I24::new(-3).unwrap()])); bb(f.offset_amp(I24::new(7).unwrap())); bb(f.scale_amp(0.5)); bb(f.to_float_frame()); bb(f.to_signed_frame()); }
        for f in f48.iter() { bb(f.add_amp([I48::new(5).unwrap()])); bb(f.scale_amp(0.25)); bb(f.mul_amp([0.5f64])); }
        for s in u24.iter() { bb(Sample::add_amp(*s, 9i32)); bb(Sample::mul_amp(*s, 0.5)); bb(s.to_signed_sample()); }
    });
    let mut a24 = f24.clone();
    let b24: Vec<[I24; 2]> = f24.iter().map(|_| [I24::new(2).unwrap(), I24::new(-2).unwrap()]).collect();
    let amp = [0.5f32, 0.25];
    c.measure("formats.packed_frames_slice_in_place_and_signal_adaptors", Z, || {
        dasp_slice::add_in_place(&mut a24[..], &b24[..]);
        dasp_slice::add_in_place_with_amp_per_channel(&mut a24[..], &b24[..], amp);
        dasp_slice::map_in_place(&mut a24[..], |f| f.scale_amp(0.5));
        let mut s = signal::from_iter(f24.iter().cloned()).add_amp(signal::from_iter(b24.iter().cloned())).offset_amp(I24::new(1).unwrap()).scale_amp(0.5).delay(2);
        for _ in 0..f24.len() + 4 { bb(s.next()); }
        let mut w = signal::from_iter(i64s.iter().cloned()).scale_amp(0.5).clip_amp(1_000_000);
        for _ in 0..i64s.len() { bb(w.next()); }
        let mut d = dasp_envelope::Detector::peak(2.0, 5.0);
        for f in f24.iter() { bb(d.next(*f)); }
        let mut r = dasp_rms::Rms::new(ring_buffer::Fixed::from([[0.0f32; 2]; 5]));
        for f in f24.iter() { bb(r.next(*f)); }
        let src = signal::from_iter(f48.iter().cloned());
        let mut conv = src.from_hz_to_hz(Sinc::new(ring_buffer::Fixed::from([[I48::new(0).unwrap(); 1]; 8])), 44100.0, 48000.0);
        for _ in 0..f48.len() { bb(conv.next()); }
        let mut lin = signal::from_iter(u24.iter().cloned()).scale_hz(Linear::new(u24[0], u24[1]), 1.5);
        for _ in 0..u24.len() / 2 { bb(lin.next()); }
    });
}

fn graph_family(c: &mut Cat, _rng: &mut Rng) {
    use dasp_graph::{node, BoxedNode, Buffer, Input, NodeData};
    type G = petgraph::graph::DiGraph<NodeData<BoxedNode>, (), u32>;
    fn src(_i: &[Input], out: &mut [Buffer]) { for o in out { o.iter_mut().for_each(|s| *s = 0.1); } }
    let mut g = G::with_capacity(16, 32);
    let mut p = dasp_graph::Processor::<G>::with_capacity(2);
    let f = src as fn(&[Input], &mut [Buffer]);
    let a = g.add_node(NodeData::new1(BoxedNode::new(f)));
    let b = g.add_node(NodeData::new2(BoxedNode::new(f)));
    let s = g.add_node(NodeData::new2(BoxedNode::new(node::Sum)));
    let sb = g.add_node(NodeData::new1(BoxedNode::new(node::SumBuffers)));
    let ps = g.add_node(NodeData::new2(BoxedNode::new(node::Pass)));
    let out = g.add_node(NodeData::new1(BoxedNode::new(node::Sum)));
    for (x, y) in [(a, s), (b, s), (b, s), (s, sb), (s, ps), (sb, out), (ps, out), (a, out), (out, out)] { g.add_edge(x, y, ()); }
    p.process(&mut g, out); // the first call may grow the processor's stack / visit maps / input list
    let reps = c.calls / 64 + 2;
    c.measure("graph.process_again_same_size_stock_nodes", Z, || { for _ in 0..reps { p.process(&mut g, out); p.process(&mut g, s); } });
    bb(g[out].buffers[0][0]);
    // a wide mixer (hundreds of inputs, parallel edges included) and a dense DAG: sizes at which any
    // per-call shrinking / re-growing of the processor's stack or input list would show
    let mut w = G::with_capacity(512, 2048);
    let mut pw = dasp_graph::Processor::<G>::with_capacity(4);
    let mix = w.add_node(NodeData::new2(BoxedNode::new(node::Sum)));
    let n_src = 100 + c.calls % 250;
    for i in 0..n_src {
        let sn = w.add_node(NodeData::new1(BoxedNode::new(f)));
        w.add_edge(sn, mix, ());
        if i % 7 == 0 { w.add_edge(sn, mix, ()); }
    }
    pw.process(&mut w, mix);
    c.measure("graph.wide_mixer_hundreds_of_inputs_again", Z, || { for _ in 0..reps.min(200) { pw.process(&mut w, mix); } });
    // a nested graph node fed from the outer graph (GraphNode with wired input nodes), a Delay node and a
    // signal node are stock nodes too
    {
        use dasp_graph::node::GraphNode;
        let mut inner = G::with_capacity(8, 8);
        let i_in1 = inner.add_node(NodeData::new1(BoxedNode::new(node::Pass)));
        let i_in2 = inner.add_node(NodeData::new1(BoxedNode::new(node::Pass)));
        let i_sum = inner.add_node(NodeData::new1(BoxedNode::new(node::Sum)));
        inner.add_edge(i_in1, i_sum, ()); inner.add_edge(i_in2, i_sum, ());
        let gn: GraphNode<G, BoxedNode> = GraphNode { processor: dasp_graph::Processor::with_capacity(8), graph: inner, input_nodes: vec![i_in1, i_in2], output_node: i_sum, node_type: core::marker::PhantomData };
        let mut outer = G::with_capacity(8, 8);
        let s1 = outer.add_node(NodeData::new1(BoxedNode::new(f)));
        let s2 = outer.add_node(NodeData::new1(BoxedNode::new(f)));
        let nested = outer.add_node(NodeData::new1(BoxedNode::new(gn)));
        let sink = outer.add_node(NodeData::new1(BoxedNode::new(node::Pass)));
        outer.add_edge(s1, nested, ()); outer.add_edge(s2, nested, ()); outer.add_edge(nested, sink, ());
        let mut po = dasp_graph::Processor::<G>::with_capacity(8);
        po.process(&mut outer, sink);
        c.measure("graph.nested_graph_node_with_wired_inputs_again", Z, || { for _ in 0..reps.min(300) { po.process(&mut outer, sink); } });
        // the graph RE-PATCHED between two calls (same node and edge counts, capacities reserved): an edge into the nested
        // node moved from a mono to a stereo source already in the graph (more channels than the inner inlet holds),
        // an edge of the mixer moved, then processed again by the same long-lived processor
        let wide = outer.add_node(NodeData::new2(BoxedNode::new(f)));
        let spare = outer.add_node(NodeData::new1(BoxedNode::new(f)));
        outer.add_edge(wide, sink, ()); outer.add_edge(spare, sink, ());
        po.process(&mut outer, sink);                       // a graph of this size has now been processed once
        let e = outer.find_edge(s1, nested).unwrap();
        outer.remove_edge(e);
        outer.add_edge(wide, nested, ());                   // same edge count as before
        c.measure("graph.repatched_between_calls_same_size_again", Z, || { for _ in 0..reps.min(300) { po.process(&mut outer, sink); } });
        let e = outer.find_edge(wide, nested).unwrap();
        outer.remove_edge(e);
        outer.add_edge(spare, nested, ());
        c.measure("graph.repatched_back_to_mono_same_size_again", Z, || { for _ in 0..reps.min(300) { po.process(&mut outer, sink); } });
        bb(outer[sink].buffers[0][0]);
    }
    // HAND-OVER TO ANOTHER THREAD: a graph of `Send` nodes and its processor are primed on this thread (the set-up
    // thread), moved to a fresh thread (the audio thread) and processed there: the processor has processed a graph of
    // that size once, so nothing may allocate — whichever thread it runs on (measured inside that thread)
    {
        use dasp_graph::BoxedNodeSend;
        type GS = petgraph::graph::Graph<NodeData<BoxedNodeSend>, ()>;
        let mut g = GS::with_capacity(16, 32);
        let srcs: Vec<_> = (0..6).map(|_| g.add_node(NodeData::new1(BoxedNodeSend::new(node::Pass)))).collect();
        let mix = g.add_node(NodeData::new1(BoxedNodeSend::new(node::Sum)));
        let out = g.add_node(NodeData::new1(BoxedNodeSend::new(node::Pass)));
        for &s_ in &srcs { g.add_edge(s_, mix, ()); }
        g.add_edge(mix, out, ());
        let mut p = dasp_graph::Processor::<GS>::with_capacity(16);
        p.process(&mut g, out);
        let n = reps.min(200);
        let d = std::thread::spawn(move || {
            let a = snap();
            for _ in 0..n { p.process(&mut g, out); }
            let b = snap();
            bb(g[out].buffers[0][0]);
            (b.0 - a.0, b.1 - a.1, b.2 - a.2)
        }).join().expect("audio thread");
        c.results.push(("graph.moved_to_another_thread_after_priming_again".to_string(), d, Z));
    }
    // a call that unwinds — a user node panics, or the documented panic for a missing node index — and
    // is caught by the host, which keeps using the same processor: "allocates nothing once a processor
    // has processed a graph of that size once", and the processor had (the failing call itself is not measured)
    {
        use std::sync::atomic::{AtomicBool, Ordering};
        static FAIL: AtomicBool = AtomicBool::new(false);
        fn flaky(_i: &[Input], out: &mut [Buffer]) {
            if FAIL.load(Ordering::Relaxed) { panic!("user node fails on request"); }
            for o in out { o.iter_mut().for_each(|s| *s = 0.2); }
        }
        let ff = flaky as fn(&[Input], &mut [Buffer]);
        let mut u = G::with_capacity(16, 64);
        let mut pu = dasp_graph::Processor::<G>::with_capacity(1);
        let srcs: Vec<_> = (0..6).map(|i| u.add_node(NodeData::new1(BoxedNode::new(if i == 3 { ff } else { f })))).collect();
        let mid = u.add_node(NodeData::new1(BoxedNode::new(ff)));
        let mix = u.add_node(NodeData::new2(BoxedNode::new(node::Sum)));
        for &sn in &srcs { u.add_edge(sn, mix, ()); u.add_edge(sn, mid, ()); }
        u.add_edge(mid, mix, ());
        pu.process(&mut u, mix);
        pu.process(&mut u, mix);
        FAIL.store(true, Ordering::Relaxed);
        let unwound = guarded(|| pu.process(&mut u, mix)).is_none();
        FAIL.store(false, Ordering::Relaxed);
        bb(unwound);
        c.measure("graph.process_again_after_a_call_unwound_by_a_failing_user_node", Z, || { for _ in 0..reps.min(100) { pu.process(&mut u, mix); } });
        let missing = guarded(|| pu.process(&mut u, petgraph::graph::NodeIndex::new(4000))).is_none();
        bb(missing);
        c.measure("graph.process_again_after_the_missing_node_panic", Z, || { for _ in 0..reps.min(100) { pu.process(&mut u, mix); } });
        bb(u[mix].buffers[0][0]);
    }
    let mut d = G::with_capacity(128, 8192);
    let mut pd = dasp_graph::Processor::<G>::with_capacity(8);
    let nodes: Vec<_> = (0..96).map(|i| d.add_node(NodeData::new1(if i == 0 { BoxedNode::new(f) } else { BoxedNode::new(node::Sum) }))).collect();
    for i in 0..96 { for j in (i + 1)..96 { if (i * 31 + j * 17) % 3 != 0 { d.add_edge(nodes[i], nodes[j], ()); } } }
    pd.process(&mut d, nodes[95]);
    c.measure("graph.dense_dag_96_nodes_again", Z, || { for _ in 0..reps.min(50) { pd.process(&mut d, nodes[95]); } });
}

fn main() {
    let a = Args::parse();
    if a.stream != "alloc" { eprintln!("unknown stream {}", a.stream); std::process::exit(2); }
    let mut rng = Rng::new(a.seed, "alloc");
    let st = Stream::new(&a.out, "alloc");
    // run the whole catalogue for several call counts (input lengths, histories and capacities vary with them)
    let rounds: Vec<usize> = if a.thorough() { vec![257, 2_000, 100_000, 1_000 + rng.usize_below(50_000), 3 + rng.usize_below(200)] }
                             else { vec![257, 2_000, 64 + rng.usize_below(4_000)] };
    let mut c = Cat { st, calls: rounds[0], results: Vec::new() };
    let mut all = Vec::new();
    for &calls in rounds.iter() {
        c.calls = calls;
        sample_family(&mut c, &mut rng);
        frame_family(&mut c, &mut rng);
        slice_family(&mut c, &mut rng);
        ring_family(&mut c, &mut rng);
        dsp_family(&mut c, &mut rng);
        signal_family(&mut c, &mut rng);
        graph_family(&mut c, &mut rng);
        trait_family(&mut c, &mut rng);
        rare_format_family(&mut c, &mut rng);
        for (name, d, e) in std::mem::take(&mut c.results) { all.push((format!("{} {}", name, calls), d, e)); }
    }
    c.results = all;
    c.flush();
}
