//! C14 — Buffered signals are a transparent prefetch of the source.
//! Stream `buf`: the real `Signal::buffered` / `Buffered::next` / `next_frames` (partially or
//! fully drained) / `is_exhausted` / `until_exhausted` / `into_parts` over a ring buffer built
//! with `Bounded::from_raw_parts(start, len, data)` and an instrumented source, vs the Lean
//! model (`Dasp.Buffered.trace`), plus an oracle written from the property text with a plain
//! expected-stream `Vec` and two counters (no model involved).
#[path = "../util.rs"]
mod util;
use dasp_ring_buffer as ring_buffer;
use dasp_signal::{self as signal, Signal};
use std::cell::Cell;
use std::rc::Rc;
use util::*;

fn main() {
    let a = Args::parse();
    match a.stream.as_str() {
        "buf" => run(&a),
        s => { eprintln!("unknown stream {}", s); std::process::exit(2); }
    }
}

/// the instrumented source: the real `signal::from_iter` with every `next()` counted
struct Counted<S> { inner: S, pulls: Rc<Cell<u64>> }
impl<S: Signal> Signal for Counted<S> {
    type Frame = S::Frame;
    fn next(&mut self) -> S::Frame { self.pulls.set(self.pulls.get() + 1); self.inner.next() }
    fn is_exhausted(&self) -> bool { self.inner.is_exhausted() }
}

#[derive(Clone, Copy, Debug, PartialEq)]
enum Op { Next, Frames(usize), Drain, Until, Look, Nth(usize) }

#[derive(Clone, Debug)]
struct Ob { out: Vec<Option<i32>>, pulls: u64, exhausted: bool }

/// `leak`: every partially drained batch iterator of the case is leaked (`mem::forget`) instead of dropped — what it
/// handed out is consumed all the same (token `L<k>` instead of `F<k>`)
struct Case { cap: usize, start: usize, prefill: Vec<i32>, src: Vec<i32>, ops: Vec<Op>, leak: bool }

fn run_buffered<D>(rb: ring_buffer::Bounded<D>, c: &Case, probe: bool) -> (Vec<Ob>, Vec<i32>)
where
    D: ring_buffer::Slice<Element = i32> + ring_buffer::SliceMut,
{
    let pulls = Rc::new(Cell::new(0u64));
    let sig = Counted { inner: signal::from_iter(c.src.clone()), pulls: pulls.clone() };
    let mut b = sig.buffered(rb);
    let mut obs = Vec::with_capacity(c.ops.len());
    // `until_exhausted` must stop by itself; the cap on it only keeps a broken build from hanging the harness
    let limit = c.prefill.len() + c.src.len() + 64 * c.cap + 64;
    for &op in &c.ops {
        let out: Vec<Option<i32>> = match op {
            Op::Next => vec![Some(b.next())],
            Op::Frames(k) => { let mut it = b.next_frames(); let v = (0..k).map(|_| it.next()).collect(); if c.leak { std::mem::forget(it); } v }
            Op::Drain => b.next_frames().map(Some).collect(),
            // the batch iterator advanced with `Iterator::nth` (what `skip` / `step_by` call), then dropped
            Op::Nth(k) => vec![b.next_frames().nth(k)],
            Op::Until => Signal::by_ref(&mut b).until_exhausted().take(limit).map(Some).collect(),
            Op::Look => vec![],
        };
        obs.push(Ob { out, pulls: pulls.get(), exhausted: if probe { b.is_exhausted() } else { false } });
    }
    let (_sig, rb) = b.into_parts();
    let rest: Vec<i32> = rb.iter().cloned().collect();
    (obs, rest)
}

fn run_case(c: &Case) -> Option<(Vec<Ob>, Vec<i32>)> { run_case_p(c, true) }
/// `probe = false`: `is_exhausted()` is never asked between the operations
fn run_case_p(c: &Case, probe: bool) -> Option<(Vec<Ob>, Vec<i32>)> {
    // backing storage: every slot outside the live window holds garbage that must never be seen
    let mut data = vec![-777_777i32; c.cap];
    for (i, &v) in c.prefill.iter().enumerate() { data[(c.start + i) % c.cap] = v; }
    let (start, len) = (c.start, c.prefill.len());
    match (c.cap + c.src.len() + c.start) % 3 {
        0 => guarded(|| run_buffered(ring_buffer::Bounded::from_raw_parts(start, len, data), c, probe)),
        1 => guarded(|| run_buffered(ring_buffer::Bounded::from_raw_parts(start, len, data.into_boxed_slice()), c, probe)),
        _ => guarded(|| { let mut d = data; run_buffered(ring_buffer::Bounded::from_raw_parts(start, len, &mut d[..]), c, probe) }),
    }
}

fn join(v: &[String]) -> String { if v.is_empty() { "-".into() } else { v.join(",") } }

fn show(r: &Option<(Vec<Ob>, Vec<i32>)>) -> String {
    match r {
        None => "panic".into(),
        Some((obs, rest)) => {
            let mut parts: Vec<String> = obs.iter().map(|o| {
                let out: Vec<String> = o.out.iter().map(|x| match x { Some(v) => v.to_string(), None => "none".into() }).collect();
                format!("{}:{}:{}", join(&out), o.pulls, if o.exhausted { 1 } else { 0 })
            }).collect();
            parts.push(format!("rest={}", join(&rest.iter().map(|v| v.to_string()).collect::<Vec<_>>())));
            parts.join(" ")
        }
    }
}

fn line(c: &Case) -> String {
    let mut s = format!("buf {} {} {}", c.cap, c.start, c.prefill.len());
    for v in &c.prefill { s.push(' '); s.push_str(&v.to_string()); }
    s.push_str(&format!(" {}", c.src.len()));
    for v in &c.src { s.push(' '); s.push_str(&v.to_string()); }
    for op in &c.ops {
        s.push(' ');
        match op { Op::Next => s.push('N'), Op::Frames(k) => s.push_str(&format!("{}{}", if c.leak { 'L' } else { 'F' }, k)), Op::Drain => s.push('D'), Op::Until => s.push('U'), Op::Look => s.push('E'), Op::Nth(k) => s.push_str(&format!("T{}", k)) }
    }
    s
}

/// The property, read literally, on the implementation's observations.
/// `stream` = pre-filled frames, then the source's frames, then equilibrium; `delivered` counts the
/// frames handed out so far; `have` the frames the buffer must currently hold (pre-fill, or one
/// buffer's worth fetched when it was found empty); `pulls` what the source must have been asked for.
fn oracle(c: &Case, obs: &[Ob], rest: &[i32]) -> Result<u64, (String, String, String)> {
    let stream = |i: usize| -> i32 {
        if i < c.prefill.len() { c.prefill[i] } else { c.src.get(i - c.prefill.len()).copied().unwrap_or(0) }
    };
    let n = c.src.len() as u64;
    let cap = c.cap;
    let (mut delivered, mut have, mut pulls) = (0usize, c.prefill.len(), 0u64);
    let mut checks = 0u64;
    if obs.len() != c.ops.len() { return Err(("number of observations".into(), c.ops.len().to_string(), obs.len().to_string())); }
    for (k, (op, ob)) in c.ops.iter().zip(obs).enumerate() {
        let got: Vec<i32> = ob.out.iter().filter_map(|x| *x).collect();
        // (1) whatever is yielded continues the stream exactly where the last delivery stopped
        let want: Vec<i32> = (0..got.len()).map(|i| stream(delivered + i)).collect();
        if !matches!(op, Op::Nth(_)) && got != want {
            return Err((format!("op {} ({:?}) did not continue pre-fill ++ source ++ equilibrium at frame {}", k, op, delivered), format!("{:?}", want), format!("{:?}", got)));
        }
        checks += 1;
        // (2) how many frames each kind of call must yield, and what it may pull
        match *op {
            Op::Next | Op::Frames(_) | Op::Drain => {
                if have == 0 { pulls += cap as u64; have = cap; }      // found empty: exactly one buffer's worth
                let expect_some = match *op { Op::Next => 1, Op::Frames(kk) => kk.min(have), _ => have };
                let expect_len = match *op { Op::Frames(kk) => kk, _ => expect_some };
                let somes = ob.out.iter().take_while(|x| x.is_some()).count();
                if got.len() != expect_some || somes != expect_some || ob.out.len() != expect_len {
                    return Err((format!("op {} ({:?}) yielded the wrong number of frames", k, op), format!("{} frames then {} None", expect_some, expect_len - expect_some), format!("{:?}", ob.out)));
                }
                have -= expect_some;
            }
            Op::Until => {
                // drains to exhaustion: everything buffered, every remaining source frame, then < cap padding
                let remaining = n.saturating_sub(pulls) as usize;
                if got.len() < have + remaining {
                    return Err((format!("op {} until_exhausted stopped before the source's frames were delivered", k), format!(">= {}", have + remaining), got.len().to_string()));
                }
                let padding = got.len() - have - remaining;
                if padding >= cap {
                    return Err((format!("op {} until_exhausted padded with a full buffer or more of equilibrium", k), format!("< {}", cap), padding.to_string()));
                }
                if !ob.exhausted { return Err((format!("op {} not exhausted after until_exhausted", k), "1".into(), "0".into())); }
                // pulls happen in whole buffers, only while frames are still owed
                pulls += (remaining + padding) as u64;
                if (remaining + padding) % cap != 0 { return Err((format!("op {} until_exhausted pulled a partial buffer", k), "multiple of cap".into(), (remaining + padding).to_string())); }
                have = 0;
                checks += 3;
            }
            Op::Look => {}
            Op::Nth(kk) => {
                // `nth(k)` hands out what the (k+1)-th `next()` of the batch would: the frames before it are
                // consumed from the batch (delivered to the caller's skip), none are lost or repeated later
                if have == 0 { pulls += cap as u64; have = cap; }
                let taken = (kk + 1).min(have);
                let want_item = if kk < have { Some(stream(delivered + kk)) } else { None };
                if ob.out != vec![want_item] {
                    return Err((format!("op {} next_frames().nth({}) is not the frame {} further calls of next() reach", k, kk, kk + 1), format!("{:?}", want_item), format!("{:?}", ob.out)));
                }
                have -= taken;
                delivered += taken;
            }
        }
        if !matches!(op, Op::Nth(_)) { delivered += got.len(); }
        // (3) the source was pulled one buffer's worth each time the buffer was found empty, and never otherwise
        if ob.pulls != pulls {
            return Err((format!("source pull count after op {} ({:?})", k, op), pulls.to_string(), ob.pulls.to_string()));
        }
        // (4) exhaustion is reported exactly when the source is exhausted and every buffered frame was delivered
        let want_exh = pulls >= n && have == 0;
        if ob.exhausted != want_exh {
            return Err((format!("is_exhausted after op {} ({:?})", k, op), want_exh.to_string(), ob.exhausted.to_string()));
        }
        checks += 3;
    }
    // what is left in the ring buffer is exactly the next `have` frames of the stream (nothing lost)
    let want_rest: Vec<i32> = (0..have).map(|i| stream(delivered + i)).collect();
    if rest != &want_rest[..] { return Err(("frames left in the ring buffer (into_parts)".into(), format!("{:?}", want_rest), format!("{:?}", rest))); }
    Ok(checks + 1)
}

fn rand_vals(rng: &mut Rng, n: usize, base: i32) -> Vec<i32> {
    (0..n).map(|i| { let x = if rng.chance(1, 10) { rng.range(i32::MIN as i64, i32::MAX as i64) as i32 } else { base + 1 + i as i32 }; if x == 0 { 1 } else { x } }).collect()
}

fn case(st: &mut Stream, c: &Case, kind: &str) {
    let l = line(c);
    mark(0, &l);
    // short cases also run WITHOUT ever asking is_exhausted(): the frames, the pulls and what is left must be the same
    if c.ops.len() <= 64 {
        let (p, q) = (run_case_p(c, true), run_case_p(c, false));
        let same = match (&p, &q) { (Some((a, ra)), Some((b, rb))) => ra == rb && a.len() == b.len() && a.iter().zip(b.iter()).all(|(x, y)| x.out == y.out && x.pulls == y.pulls), (None, None) => true, _ => false };
        if same { st.oracle_ok(1); } else { st.oracle_fail("the case behaves differently when is_exhausted() is never asked between the operations (an accessor must not be what keeps the state right)", &l, &show(&p), &show(&q)); }
    }
    if c.leak { st.count("case_with_batch_iterators_leaked_mem_forget"); }
    let r = run_case(c);
    // non-trivial: anything the three doc examples (2 slots, start 0, empty or full pre-fill, 4-frame source,
    // next only or fully drained batches only) never do
    let partial = c.ops.iter().any(|o| matches!(o, Op::Frames(k) if *k < c.cap) || matches!(o, Op::Nth(_)));
    let mixed = c.ops.contains(&Op::Next) && c.ops.iter().any(|o| matches!(o, Op::Frames(_) | Op::Drain));
    let wrapped = c.start + c.prefill.len() > c.cap;
    let ragged = c.src.len() % c.cap != 0;
    let nontrivial = partial || mixed || wrapped || ragged || c.cap == 1 || (c.start != 0 && !c.prefill.is_empty());
    st.count(kind);
    st.count(&format!("cap_{}", if c.cap <= 5 { c.cap.to_string() } else if c.cap <= 24 { "6-24".into() } else if c.cap <= 99 { "25-99".into() } else { c.cap.to_string() }));
    st.count(&format!("prefill_{}", if c.prefill.is_empty() { "empty" } else if c.prefill.len() == c.cap { "full" } else { "partial" }));
    let refills = { // how often the buffer is found empty by a call that refills (from the op list alone)
        let (mut have, mut r) = (c.prefill.len(), 0u64);
        for o in &c.ops { match *o {
            Op::Next => { if have == 0 { r += 1; have = c.cap; } have -= 1; }
            Op::Frames(k) => { if have == 0 { r += 1; have = c.cap; } have -= k.min(have); }
            Op::Nth(k) => { if have == 0 { r += 1; have = c.cap; } have -= (k + 1).min(have); }
            Op::Drain => { if have == 0 { r += 1; } have = 0; }
            Op::Until => { have = 0; }
            Op::Look => {}
        } }
        r
    };
    st.count_n("refills_by_next_or_next_frames", refills);
    if wrapped { st.count("prefill_wraps"); }
    if ragged { st.count("source_len_not_multiple_of_cap"); }
    if c.src.is_empty() { st.count("source_empty"); }
    for o in &c.ops {
        st.count(match o { Op::Next => "op_next", Op::Frames(k) if *k == 0 => "op_next_frames_dropped_undrained", Op::Frames(_) => "op_next_frames_k_steps", Op::Drain => "op_next_frames_collect", Op::Until => "op_until_exhausted", Op::Look => "op_observe", Op::Nth(_) => "op_next_frames_nth" });
    }
    if r.is_none() { st.count("panic"); }
    st.case(&l, &show(&r), nontrivial, c.ops.len() as u64);
    match &r {
        None => st.oracle_fail("buffered panicked", &l, "no panic", "panic"),
        Some((obs, rest)) => match oracle(c, obs, rest) {
            Ok(n) => st.oracle_ok(n),
            Err((what, want, got)) => st.oracle_fail(&what, &l, &want, &got),
        },
    }
}

fn random_ops(rng: &mut Rng, cap: usize, budget: usize) -> Vec<Op> {
    // until roughly `budget` frames were consumed
    let mut ops = Vec::new();
    let mut used = 0usize;
    let style = rng.below(5);
    while used < budget && ops.len() < 40 {
        let op = match style {
            0 => Op::Next,
            1 => Op::Drain,
            _ => match rng.below(10) {
                0..=3 => Op::Next,
                4..=6 => Op::Frames(rng.usize_below(cap + 2)),
                7 => Op::Drain,
                8 => if rng.chance(1, 2) { Op::Look } else { Op::Nth(rng.usize_below(cap + 1)) },
                _ => if rng.chance(1, 4) { Op::Until } else if rng.chance(1, 3) { Op::Nth(rng.usize_below(cap.min(4))) } else { Op::Frames(rng.usize_below(cap + 1)) },
            },
        };
        used += match op { Op::Next => 1, Op::Frames(k) => k.max(1), Op::Nth(k) => k + 1, Op::Drain => cap, Op::Until => budget, Op::Look => 1 };
        ops.push(op);
    }
    if rng.chance(1, 2) { ops.push(Op::Until); if rng.chance(1, 2) { ops.push(Op::Next); ops.push(Op::Look); } }
    ops
}

pub fn run(a: &Args) {
    let mut st = Stream::new(&a.out, "buf");
    let mut rng = Rng::new(a.seed, "buf");
    let per_cfg = if a.thorough() { 120 } else { 30 };
    let mut cfgs = 0u64;
    for cap in 1..=5usize {
        for start in 0..cap {
            for len in 0..=cap {
                for n in 0..=13usize {
                    cfgs += 1;
                    let prefill = rand_vals(&mut rng, len, -5000);
                    let src = rand_vals(&mut rng, n, 1000);
                    let total = len + n + cap + 2;
                    let mk = |ops: Vec<Op>| Case { cap, start, prefill: prefill.clone(), src: src.clone(), ops, leak: (cap + start + src.len()) % 3 == 0 };
                    // the fixed consumption patterns: frame by frame, batch by batch, drain to exhaustion at once
                    case(&mut st, &mk((0..total).flat_map(|_| [Op::Next, Op::Look]).take(40).collect()), "fixed_next_only");
                    case(&mut st, &mk((0..(total / cap + 2)).map(|_| Op::Drain).collect()), "fixed_batches_fully_drained");
                    case(&mut st, &mk(vec![Op::Look, Op::Until, Op::Look]), "fixed_until_exhausted");
                    case(&mut st, &mk((0..total.min(30)).map(|i| Op::Frames(1 + i % cap.max(1))).collect()), "fixed_partial_batches");
                    case(&mut st, &mk((0..total.min(30)).flat_map(|i| [Op::Nth(i % (cap + 1)), Op::Next]).collect()), "fixed_batches_advanced_by_nth");
                    for _ in 0..per_cfg {
                        let ops = random_ops(&mut rng, cap, total);
                        case(&mut st, &mk(ops), "random_interleaving");
                    }
                }
            }
        }
    }
    st.note(&format!("{} configurations = every cap 1..5 x start < cap x pre-fill length <= cap x source length 0..13", cfgs));
    // larger capacities / longer sources (random only)
    let n_big = if a.thorough() { 40_000 } else { 10_000 };
    for _ in 0..n_big {
        let cap = if rng.chance(1, 8) { 25 + rng.usize_below(75) } else { 1 + rng.usize_below(24) };
        let start = rng.usize_below(cap);
        let len = rng.usize_below(cap + 1);
        let n = rng.usize_below(3 * cap + 2);
        let c = Case { cap, start, prefill: rand_vals(&mut rng, len, -5000), src: rand_vals(&mut rng, n, 1000), ops: random_ops(&mut rng, cap, len + n + cap), leak: rng.chance(1, 4) };
        case(&mut st, &c, "random_larger_capacity");
    }
    // large ring buffers: whole-buffer refills (exactly `cap` pulls each time the buffer is found empty), batch
    // lengths and partially drained batches at those sizes; few cases, they are long
    let big_caps: &[usize] = if a.thorough() { &[100, 511, 512, 513, 1000, 5000] } else { &[100, 513, 1000] };
    let big_reps = if a.thorough() { 5 } else { 2 };
    for &cap in big_caps {
        for rep in 0..big_reps {
            let (start, len) = match rep { 0 => (0, 0), 1 => (cap - 2, 5.min(cap)), _ => (rng.usize_below(cap), rng.usize_below(cap + 1)) };
            let n = match rep { 0 => 2 * cap + cap / 3, 1 => cap, _ => rng.usize_below(3 * cap + 2) };
            let mut ops = vec![Op::Look];
            if rep == 0 {
                // frame by frame across a refill, a partial batch, the rest of it, a whole batch, past the end
                ops.extend([Op::Next, Op::Look, Op::Frames(cap / 2), Op::Next, Op::Drain, Op::Drain, Op::Frames(cap + 3), Op::Frames(0), Op::Look, Op::Until, Op::Look]);
            } else {
                for _ in 0..(6 + rng.usize_below(8)) {
                    ops.push(match rng.below(8) {
                        0 | 1 => Op::Drain,
                        2 => Op::Frames(rng.usize_below(cap + 3)),
                        3 => if rng.chance(1, 2) { Op::Frames(1 + rng.usize_below(7)) } else { Op::Nth(rng.usize_below(cap)) },
                        4 => Op::Frames(cap),
                        5 | 6 => Op::Next,
                        _ => Op::Look,
                    });
                }
                if rng.chance(2, 3) { ops.push(Op::Until); ops.push(Op::Look); }
            }
            let c = Case { cap, start, prefill: rand_vals(&mut rng, len, -900_000), src: rand_vals(&mut rng, n, 1000), ops, leak: rng.chance(1, 4) };
            case(&mut st, &c, "large_capacity");
        }
    }
    // LONG RUNS on one object: > 2^16 frames and several thousand refills through one Buffered (whatever bookkeeping
    // an implementation keeps per refill or per frame — counters, generation stamps — must not wrap into a wrong answer)
    // (two cases only: the list-based Lean model reads source position i in O(i))
    for &cap in &[1usize, 48] {
        let n = 65_600 + rng.usize_below(300);
        let start = rng.usize_below(cap);
        let len = rng.usize_below(cap + 1);
        let mut ops = Vec::new();
        let mut used = 0usize;
        while used < n + len {
            let op = match rng.below(6) { 0 | 1 => Op::Drain, 2 => Op::Frames(rng.usize_below(cap + 2)), 3 => Op::Nth(rng.usize_below(cap)), 4 => Op::Next, _ => if cap < 8 { Op::Frames(cap) } else { Op::Drain } };
            used += match op { Op::Next => 1, Op::Frames(k) => k.max(1), Op::Nth(k) => k + 1, Op::Drain => cap, _ => 1 };
            ops.push(op);
            if ops.len() > 90_000 { break; }
        }
        ops.push(Op::Look); ops.push(Op::Until); ops.push(Op::Look);
        let c = Case { cap, start, prefill: rand_vals(&mut rng, len, -5000), src: rand_vals(&mut rng, n, 1000), ops, leak: cap == 48 };
        case(&mut st, &c, "long_run_gt_65536_frames");
    }
    st.exhaustive = false;
    st.finish();
}
