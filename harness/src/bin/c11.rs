//! C11 — windowed RMS = true RMS of the last N frames (dasp_rms, dasp_signal::rms, dasp_sample::ops).
//!
//! Streams (`c11 <stream> --tier T --seed N --out DIR`):
//!   rms         `Rms::{next,next_squared,reset,current,window_frames}` histories, std build
//!   long        histories of 2^18+N .. 2^21+ frames through one detector without reset, checked natively frame by
//!               frame against the naive recomputation; a 48-frame prefix of each also goes through the model
//!   sig         `signal.rms(ring)` adaptor (`next` / `next_squared`), std build
//!   sqrt        `FloatSample::sample_sqrt`, std build
//!   rms_nostd   the same histories against dasp_* built with `default-features = false`
//!   sqrt_nostd  the exponent-halving bit trick of dasp_sample/src/ops.rs, every exponent
//!
//! The `*_nostd` streams cannot live in the same cargo build as the std ones (cargo unifies the
//! `std` feature of dasp_sample over the whole build).  This very source file is therefore also
//! the `main` of the tiny crate `/verif/harness_nostd` (feature `nostd`, dasp_* without default
//! features); the std binary builds that crate on demand (own target dir, incremental) and
//! re-executes the request there (`delegate`).
//!
//! Request lines: `rms <f32|f64> <std|nostd> <ch> <N> op…` with `n:<bits>,<bits>` = next(frame),
//! `q:` = next_squared, `r` reset, `c` current, `w` window_frames; float frames are the
//! `to_float_frame()` of the input, as decimal bit patterns.  Replies: one token per op.
//!
//! Independent oracles (no model involved): naive recomputation of the mean of the squares of the
//! last N inputs (zero-initialised history) in f64 from the *source-format* values, compared with an
//! explicit running-sum error bound (a measurement, labelled `test` in props/C11.json); outputs
//! never negative / NaN; the 7 % bound of the no_std root on every probed value; the adaptor yields
//! exactly what the detector yields on the same frames, one source pull per output.
#![allow(unexpected_cfgs, dead_code)]
#[path = "../util.rs"]
mod util;
use util::*;

use dasp_frame::Frame;
use dasp_ring_buffer::Fixed;
use dasp_rms::Rms;
use dasp_sample::{FloatSample, Sample};
use std::collections::VecDeque;

const NOSTD: bool = cfg!(feature = "nostd");
const MODE: &str = if NOSTD { "nostd" } else { "std" };
const KNOWN_ID: &str = "C11-square-overflow";

// ---------------------------------------------------------------------------------------------
// formats

trait Flt: FloatSample + Copy + PartialOrd + 'static {
    const NAME: &'static str;
    /// unit roundoff 2^-prec
    const U: f64;
    /// smallest positive subnormal
    const TINY: f64;
    const MAXF: f64;
    /// upper bound of the no_std root on [0, min normal)
    const ABS0: f64;
    fn bits(self) -> u64;
    fn from_b(b: u64) -> Self;
    fn f(self) -> f64;
    fn nan(self) -> bool;
}
impl Flt for f32 {
    const NAME: &'static str = "f32";
    const U: f64 = 5.960464477539063e-8;
    const TINY: f64 = 1.5e-45;
    const MAXF: f64 = f32::MAX as f64;
    const ABS0: f64 = 1.2e-19;
    fn bits(self) -> u64 { self.to_bits() as u64 }
    fn from_b(b: u64) -> Self { f32::from_bits(b as u32) }
    fn f(self) -> f64 { self as f64 }
    fn nan(self) -> bool { self.is_nan() }
}
impl Flt for f64 {
    const NAME: &'static str = "f64";
    const U: f64 = 1.1102230246251565e-16;
    const TINY: f64 = 5e-324;
    const MAXF: f64 = f64::MAX;
    const ABS0: f64 = 2e-154;
    fn bits(self) -> u64 { self.to_bits() }
    fn from_b(b: u64) -> Self { f64::from_bits(b) }
    fn f(self) -> f64 { self }
    fn nan(self) -> bool { self.is_nan() }
}

/// a source sample format: how a raw 64-bit token becomes a sample and what it is worth exactly
trait Smp: Sample + Copy + 'static {
    const NAME: &'static str;
    fn from_raw(r: u64) -> Self;
    /// the amplitude about equilibrium on the [-1, 1) scale, exactly (i16: v/2^15, u8: (v-128)/2^7)
    fn exact(self) -> f64;
    /// a random raw token of the given style
    fn gen(rng: &mut Rng, style: u32) -> u64;
    /// the raw token of the sample nearest to the amplitude `x` (in [-1, 1])
    fn raw_of(x: f64) -> u64;
}
fn gen_float(rng: &mut Rng, style: u32, big: f64, small_exp: i32) -> f64 {
    let u = rng.f64_unit() * 2.0 - 1.0;
    match style {
        0 => u,                                                            // uniform [-1, 1)
        1 => *rng.pick(&[0.0, -0.0, 1.0, -1.0, 0.5, -0.5, 0.25, 0.75, -0.125, 2.0, 3.0]), // exact dyadics
        2 => u * big,                                                      // loud
        3 => u * (2.0f64).powi(-(rng.below(small_exp as u64) as i32)),     // quiet, down to underflowing squares
        4 => if rng.chance(1, 2) { 0.7 } else { -0.7 },                    // square wave
        5 => 0.1,                                                          // DC
        _ => if rng.chance(1, 3) { 0.0 } else { u },
    }
}
impl Smp for f32 {
    const NAME: &'static str = "f32";
    fn from_raw(r: u64) -> Self { f32::from_bits(r as u32) }
    fn exact(self) -> f64 { self as f64 }
    fn gen(rng: &mut Rng, style: u32) -> u64 { (gen_float(rng, style, 1e9, 90) as f32).to_bits() as u64 }
    fn raw_of(x: f64) -> u64 { (x as f32).to_bits() as u64 }
}
impl Smp for f64 {
    const NAME: &'static str = "f64";
    fn from_raw(r: u64) -> Self { f64::from_bits(r) }
    fn exact(self) -> f64 { self }
    fn gen(rng: &mut Rng, style: u32) -> u64 { gen_float(rng, style, 1e100, 600).to_bits() }
    fn raw_of(x: f64) -> u64 { x.to_bits() }
}
impl Smp for i16 {
    const NAME: &'static str = "i16";
    fn from_raw(r: u64) -> Self { r as u16 as i16 }
    fn exact(self) -> f64 { self as f64 / 32768.0 }
    fn gen(rng: &mut Rng, style: u32) -> u64 {
        (match style {
            1 => *rng.pick(&[0i64, 1, -1, 32767, -32768, 16384, -16384]),
            4 => if rng.chance(1, 2) { 23000 } else { -23000 },
            5 => 3277,
            3 => rng.range(-8, 8),
            _ => rng.range(-32768, 32767),
        }) as i16 as u16 as u64
    }
    fn raw_of(x: f64) -> u64 { ((x * 32768.0).round().max(-32768.0).min(32767.0) as i16) as u16 as u64 }
}
impl Smp for u8 {
    const NAME: &'static str = "u8";
    fn from_raw(r: u64) -> Self { r as u8 }
    fn exact(self) -> f64 { (self as f64 - 128.0) / 128.0 }
    fn gen(rng: &mut Rng, style: u32) -> u64 {
        (match style {
            1 => *rng.pick(&[128i64, 0, 255, 127, 129, 192, 64]),
            4 => if rng.chance(1, 2) { 218 } else { 38 },
            5 => 141,
            _ => rng.range(0, 255),
        }) as u64
    }
    fn raw_of(x: f64) -> u64 { (x * 128.0 + 128.0).round().max(0.0).min(255.0) as u64 }
}

fn tok<X: Flt>(x: X) -> String { if x.nan() { "nan".into() } else { x.bits().to_string() } }
fn frame_tok<G: Frame>(g: G) -> String where G::Sample: Flt {
    g.channels().map(tok).collect::<Vec<_>>().join(",")
}

// ---------------------------------------------------------------------------------------------
// one detector history

#[derive(Clone)]
enum Op { Next(Vec<u64>), NextSq(Vec<u64>), Reset, Current, Win, /* rms.clone().into_parts() */ Parts }

/// the reference: the last N source-format inputs of one channel, as exact f64 values
struct Ref {
    hist: VecDeque<f64>,
    /// frames pushed since the last reset
    k: u64,
    /// max over those pushes of (sum of squares in the window before the push + the new square)
    m: f64,
    /// a square or the running sum left the float format: the state is inf/NaN until the next reset
    poisoned: bool,
    /// every input is a multiple of 2^-4 in [-1, 1] and N <= 1000: squares and all running sums are multiples of
    /// 2^-8 below 2^24 * 2^-8, i.e. the running sum is computed WITHOUT any rounding in f32 and f64
    exact: bool,
}
impl Ref {
    fn new(n: usize) -> Ref { Ref { hist: std::iter::repeat(0.0).take(n).collect(), k: 0, m: 0.0, poisoned: false, exact: false } }
    fn sum(&self) -> f64 { self.hist.iter().map(|x| x * x).sum() }
    fn push(&mut self, x: f64, maxf: f64) {
        if self.exact && !((x * 16.0).fract() == 0.0 && x.abs() <= 1.0 && self.hist.len() <= 1000) { self.exact = false; }
        let p = self.sum() + x * x;
        if !(p < maxf * 0.99) { self.poisoned = true; }
        if p > self.m { self.m = p; }
        self.hist.pop_front();
        self.hist.push_back(x);
        self.k += 1;
    }
    fn reset(&mut self) { for x in self.hist.iter_mut() { *x = 0.0; } self.k = 0; self.m = 0.0; self.poisoned = false; }
    fn mean(&self) -> f64 { self.sum() / self.hist.len() as f64 }
    /// explicit bound on |mean computed by the running-sum code − exact mean| (derivation: props/C11.json "float_bound")
    fn tol<X: Flt>(&self) -> f64 {
        let n = self.hist.len() as f64;
        // exact-grid histories: no rounding in the running sum at all; one rounding in the division
        if self.exact { return 2.0 * X::U * self.m / n + 4.0 * X::TINY; }
        let c = 2.2 * self.k as f64 + n + 8.0;
        c * X::U * self.m / n + c * X::TINY
    }
}

struct Tally { max_ratio: f64, max_rel_root: f64, clamp_candidates: u64 }

/// check one output value of one channel against the reference
fn check_out<X: Flt>(st: &mut Stream, tally: &mut Tally, r: &Ref, o: X, squared: bool, case: &str, what: &str) {
    if r.poisoned {
        if o.nan() || o.f() < 0.0 {
            st.known_hit(KNOWN_ID, case, &format!("{} = {} after a square or the running sum overflowed {}", what, tok(o), X::NAME));
            st.count("known:overflow-nan");
        }
        st.count("skipped:overflowed-state");
        return;
    }
    if o.nan() || o.f() < 0.0 {
        st.oracle_fail("RMS output negative or NaN for finite input", case, ">= 0", &format!("{} = {:e} ({})", what, o.f(), tok(o)));
        return;
    }
    let mean = r.mean();
    let tol = r.tol::<X>();
    let v = o.f();
    let (ok, ratio, exp) = if squared {
        let d = (v - mean).abs();
        (d <= tol, d / tol.max(1e-320), format!("{:e} +- {:e}", mean, tol))
    } else if !NOSTD {
        // out = fl(sqrt(m~)), |m~ - mean| <= tol  =>  |out^2 - mean| <= tol + 2.1u(mean + tol) (+ f64 evaluation of out^2)
        let t2 = tol + 3.2 * X::U * (mean + tol);
        let d = (v * v - mean).abs();
        (d <= t2, d / t2.max(1e-320), format!("sqrt({:e} +- {:e})", mean, t2))
    } else {
        // no_std: within 7 % of the true root, plus the absolute term below the normal range
        let lo = 0.93 * (mean - tol).max(0.0).sqrt() - X::ABS0;
        let hi = 1.07 * (mean + tol).sqrt() + X::ABS0;
        let mid = mean.sqrt();
        if mid > X::ABS0 * 1e6 && tol < 1e-6 * mean { let rel = (v - mid).abs() / mid; if rel > tally.max_rel_root { tally.max_rel_root = rel; } }
        (lo <= v && v <= hi, 0.0, format!("[{:e}, {:e}]", lo, hi))
    };
    if ratio > tally.max_ratio && ratio.is_finite() { tally.max_ratio = ratio; }
    if ok { st.oracle_ok(2); } else {
        st.oracle_fail(if NOSTD && !squared { "no_std RMS output not within 7 % of the true RMS of the last N frames" } else { "RMS output deviates from the true RMS of the last N frames by more than the float error bound" },
            case, &exp, &format!("{} = {:e} ({})", what, v, tok(o)));
    }
}

/// run one history on the real `Rms<F, Vec<F::Float>>`, write the case, apply the oracles
fn exec_case<F>(st: &mut Stream, tally: &mut Tally, n: usize, ops: &[Op], stream: &str)
where
    F: Frame + 'static,
    F::Sample: Smp,
    <F::Float as Frame>::Sample: Flt,
{
    type X<F> = <<F as Frame>::Float as Frame>::Sample;
    let ch = F::CHANNELS;
    let mk = |raw: &Vec<u64>| F::from_fn(|i| <F::Sample as Smp>::from_raw(raw[i]));
    let mut req = format!("{} {} {} {} {}", stream, X::<F>::NAME, MODE, ch, n);
    let res = guarded(|| {
        // the zero-initialised window may sit at any rotation of its ring buffer (`first` index): the detector must not care
        let mut rms: Rms<F, Vec<F::Float>> = Rms::new(Fixed::from_raw_parts((ops.len() * 5 + ch) % n.max(1), vec![F::Float::EQUILIBRIUM; n]));
        let mut v = Vec::new();
        for op in ops {
            match op {
                Op::Next(raw) => { let o = rms.next(mk(raw)); v.push((frame_tok(o), Some(o.channels().collect::<Vec<_>>()), false)); }
                Op::NextSq(raw) => { let o = rms.next_squared(mk(raw)); v.push((frame_tok(o), Some(o.channels().collect::<Vec<_>>()), true)); }
                Op::Reset => { rms.reset(); v.push(("-".to_string(), None, false)); }
                Op::Current => { let o = rms.current(); v.push((frame_tok(o), Some(o.channels().collect::<Vec<_>>()), false)); }
                Op::Win => { v.push((format!("w{}", rms.window_frames()), None, false)); }
                Op::Parts => {
                    // what the detector holds, through a clone (which must not disturb the original): the window in
                    // `Fixed::iter` order (oldest frame first) and the running sum
                    let (ring, sum) = rms.clone().into_parts();
                    let frames: Vec<F::Float> = ring.iter().cloned().collect();
                    let tokv = format!("P{}|{}", frames.iter().map(|f| frame_tok(*f)).collect::<Vec<_>>().join(";"), frame_tok(sum));
                    // numeric side channel for the oracle: every stored square, flattened frame by frame, then the sums
                    let mut nums: Vec<X<F>> = frames.iter().flat_map(|f| f.channels()).collect();
                    nums.extend(sum.channels());
                    v.push((tokv, Some(nums), false));
                }
            }
        }
        v
    });
    let mut nonzero = false; let mut pushes = 0usize;
    for op in ops {
        match op {
            Op::Next(raw) | Op::NextSq(raw) => {
                let fl = mk(raw).to_float_frame();
                req.push_str(if matches!(op, Op::Next(_)) { " n:" } else { " q:" });
                req.push_str(&frame_tok(fl));
                pushes += 1;
                if mk(raw).channels().any(|s| s.exact() != 0.0) { nonzero = true; }
            }
            Op::Reset => req.push_str(" r"),
            Op::Current => req.push_str(" c"),
            Op::Win => req.push_str(" w"),
            Op::Parts => req.push_str(" p"),
        }
    }
    let observed = match &res { Some(v) => v.iter().map(|t| t.0.clone()).collect::<Vec<_>>().join(" "), None => "panic".to_string() };
    st.case(&req, &observed, nonzero && pushes > n, (ops.len() * ch) as u64);
    st.count(&format!("src:{}", <F::Sample as Smp>::NAME));
    st.count(&format!("ch:{}", ch));
    st.count(&format!("N:{}", n));
    st.count(if ops.len() > 60 { "len:>60" } else { "len:<=60" });
    let outs: Vec<(String, Option<Vec<X<F>>>, bool)> = match res { Some(v) => v, None => { st.oracle_fail("Rms panicked", &req, "no panic", "panic"); return; } };
    // ---- independent reference
    let mut refs: Vec<Ref> = (0..ch).map(|_| Ref::new(n)).collect();
    for (idx, (op, out)) in ops.iter().zip(outs.iter()).enumerate() {
        match op {
            Op::Next(raw) | Op::NextSq(raw) => {
                st.count(if matches!(op, Op::Next(_)) { "op:next" } else { "op:next_squared" });
                let fr = mk(raw);
                for (c, s) in fr.channels().enumerate() {
                    let before = refs[c].sum();
                    refs[c].push(s.exact(), X::<F>::MAXF);
                    // the interesting branch: the true window sum drops to (nearly) zero after having been large
                    if refs[c].sum() == 0.0 && before > 0.0 { tally.clamp_candidates += 1; }
                }
            }
            Op::Reset => { st.count("op:reset"); for r in refs.iter_mut() { r.reset(); } }
            Op::Current => st.count("op:current"),
            Op::Win => {
                st.count("op:window_frames");
                if out.0 != format!("w{}", n) { st.oracle_fail("window_frames() differs from the ring buffer length", &req, &format!("w{}", n), &out.0); } else { st.oracle_ok(1); }
            }
            Op::Parts => {
                st.count("op:clone_into_parts");
                // the window must hold the squares of the last N inputs of each channel, oldest first (one rounding each)
                if let Some(nums) = &out.1 {
                    if nums.len() != (n + 1) * ch { st.oracle_fail("into_parts(): window is not N frames", &req, &((n + 1) * ch).to_string(), &nums.len().to_string()); }
                    else {
                        for c in 0..ch {
                            if refs[c].poisoned { continue; }
                            for (i, x) in refs[c].hist.iter().enumerate() {
                                let want = x * x; let got = nums[i * ch + c].f();
                                if !((got - want).abs() <= 2.0 * X::<F>::U * want + 2.0 * X::<F>::TINY) {
                                    st.oracle_fail("into_parts(): the window does not hold the squares of the last N inputs, oldest first", &req, &format!("frame {} channel {}: {:e}", i, c, want), &format!("{:e}", got));
                                } else { st.oracle_ok(1); }
                            }
                        }
                    }
                }
                continue;
            }
        }
        if let Some(vals) = &out.1 {
            for (c, o) in vals.iter().enumerate() {
                check_out::<X<F>>(st, tally, &refs[c], *o, out.2, &req, &format!("channel {} of op #{}", c, idx));
            }
        }
    }
}

fn gen_ops<S: Smp>(rng: &mut Rng, ch: usize, len: usize, style: u32) -> Vec<Op> {
    let mut ops = Vec::with_capacity(len);
    // "burst then silence": a segment of zeros after a loud stretch exercises the clamp / cancellation
    let silence_from = if rng.chance(1, 3) { len / 2 + rng.usize_below(len / 2 + 1) } else { usize::MAX };
    for i in 0..len {
        let r = rng.below(100);
        let frame = |rng: &mut Rng| -> Vec<u64> {
            (0..ch).map(|_| if i >= silence_from { zero_raw::<S>() } else {
                let stl = if style == 9 { rng.below(7) as u32 } else { style };
                S::gen(rng, stl)
            }).collect()
        };
        if r < 80 { ops.push(Op::Next(frame(rng))); }
        else if r < 90 { ops.push(Op::NextSq(frame(rng))); }
        else if r < 93 { ops.push(Op::Reset); }
        else if r < 96 { ops.push(Op::Current); }
        else if r < 98 { ops.push(Op::Parts); }
        else { ops.push(Op::Win); }
    }
    ops
}
/// the raw token of the equilibrium sample
fn zero_raw<S: Smp>() -> u64 {
    match S::NAME { "u8" => 128, _ => 0 }
}

fn run_family<F>(st: &mut Stream, tally: &mut Tally, rng: &mut Rng, stream: &str, short_cases: usize, long_cases: usize)
where
    F: Frame + 'static,
    F::Sample: Smp,
    <F::Float as Frame>::Sample: Flt,
{
    for &n in &[1usize, 2, 3, 4, 7, 64] {
        for i in 0..short_cases {
            let len = 1 + rng.usize_below(60);
            let style = if i % 3 == 0 { 9 } else { rng.below(7) as u32 };
            let ops = gen_ops::<F::Sample>(rng, F::CHANNELS, len, style);
            exec_case::<F>(st, tally, n, &ops, stream);
        }
        for _ in 0..long_cases {
            // the window turns over many times: up to 50 N frames
            let len = 10 * n + rng.usize_below(40 * n + 1);
            let style = *rng.pick(&[0u32, 2, 4, 5, 9, 9]);
            let ops = gen_ops::<F::Sample>(rng, F::CHANNELS, len, style);
            exec_case::<F>(st, tally, n, &ops, stream);
        }
    }
}

fn run_rms(a: &Args) {
    let stream = a.stream.clone();
    let mut st = Stream::new(&a.out, &stream);
    let mut rng = Rng::new(a.seed, &stream);
    let mut tally = Tally { max_ratio: 0.0, max_rel_root: 0.0, clamp_candidates: 0 };
    // ---- the listed known finding, probed on every run: finite input whose square overflows the format
    {
        let big64 = 1e200f64.to_bits(); let z64 = 0f64.to_bits();
        let ops: Vec<Op> = [big64, big64, z64, z64, z64].iter().map(|&b| Op::Next(vec![b])).collect();
        exec_case::<[f64; 1]>(&mut st, &mut tally, 2, &ops, &stream);
        let big32 = 1e30f32.to_bits() as u64;
        let ops: Vec<Op> = [big32, big32, 0, 0, 0].iter().map(|&b| Op::Next(vec![b, 0])).collect();
        exec_case::<[f32; 2]>(&mut st, &mut tally, 2, &ops, &stream);
        // the running sum (not a single square) overflows
        let h = 1.2e19f32.to_bits() as u64;
        let ops: Vec<Op> = [h, h, h, h, 0, 0, 0, 0, 0].iter().map(|&b| Op::Next(vec![b])).collect();
        exec_case::<f32>(&mut st, &mut tally, 4, &ops, &stream);
    }
    let (s, l) = if a.thorough() { (400, 40) } else { (40, 6) };
    run_family::<f32>(&mut st, &mut tally, &mut rng, &stream, s, l);
    run_family::<[f32; 1]>(&mut st, &mut tally, &mut rng, &stream, s, l);
    run_family::<[f32; 2]>(&mut st, &mut tally, &mut rng, &stream, s, l);
    run_family::<[f32; 3]>(&mut st, &mut tally, &mut rng, &stream, s, l);
    run_family::<f64>(&mut st, &mut tally, &mut rng, &stream, s, l);
    run_family::<[f64; 2]>(&mut st, &mut tally, &mut rng, &stream, s, l);
    run_family::<[f64; 4]>(&mut st, &mut tally, &mut rng, &stream, s, l);
    run_family::<i16>(&mut st, &mut tally, &mut rng, &stream, s, l);
    run_family::<[i16; 2]>(&mut st, &mut tally, &mut rng, &stream, s, l);
    run_family::<[u8; 1]>(&mut st, &mut tally, &mut rng, &stream, s, l);
    run_family::<[u8; 3]>(&mut st, &mut tally, &mut rng, &stream, s, l);
    st.note(&format!("float error bound (TEST, measured): |mean_impl - mean_exact| <= ((2.2 k + N + 8) u M) / N with k = frames since reset, M = max window sum incl. the incoming square, u = 2^-24 / 2^-53; largest observed deviation / bound = {:.4}", tally.max_ratio));
    if NOSTD { st.note(&format!("no_std build: largest relative deviation of next()/current() from the true RMS (where the true RMS is well above the drift bound): {:.5} (limit 0.07)", tally.max_rel_root)); }
    st.note(&format!("window-sum-returns-to-zero events (clamp / cancellation candidates): {}", tally.clamp_candidates));
    st.finish();
}


// ---------------------------------------------------------------------------------------------
// very long histories through ONE detector without reset (hundreds of thousands to millions of frames),
// every output checked natively against the naive recomputation over the last N inputs

fn long_run<F>(st: &mut Stream, tally: &mut Tally, rng: &mut Rng, n: usize, len: usize, grid: bool, run: usize)
where
    F: Frame + 'static,
    F::Sample: Smp,
    <F::Float as Frame>::Sample: Flt,
{
    type X<F> = <<F as Frame>::Float as Frame>::Sample;
    let ch = F::CHANNELS;
    // non-constant, non-periodic input: noise under a slowly wandering level; `grid` = multiples of 2^-4 (exact arithmetic)
    let mut level = vec![0.5f64; ch];
    let mut gen_frame = |rng: &mut Rng, i: usize| -> Vec<u64> {
        (0..ch).map(|c| {
            if i % 97 == 0 { level[c] = 0.05 + 0.95 * rng.f64_unit(); }
            let x = if grid { ((rng.range(-16, 16) as f64 * level[c]).round()) / 16.0 } else { (rng.f64_unit() * 2.0 - 1.0) * level[c] };
            <F::Sample as Smp>::raw_of(x)
        }).collect()
    };
    // a short prefix also goes through the model (same inputs, a detector of its own)
    let mut prng = rng.clone();
    let prefix: Vec<Op> = (0..len.min(48)).map(|i| Op::Next(gen_frame(&mut prng, i))).collect();
    exec_case::<F>(st, tally, n, &prefix, "rms");
    let desc = format!("long {} {} ch={} N={} len={} input={} run={} (stream `long`, this seed)", X::<F>::NAME, MODE, ch, n, len, if grid { "grid/16" } else { "noise" }, run);
    let mut refs: Vec<Ref> = (0..ch).map(|_| { let mut r = Ref::new(n); r.exact = grid; r }).collect();
    let fails_before = st.oracle_failures.len();
    let res = guarded(|| {
        let mut rms: Rms<F, Vec<F::Float>> = Rms::new(Fixed::from_raw_parts((len + run as usize) % n.max(1), vec![F::Float::EQUILIBRIUM; n]));
        let mut checked = 0u64;
        for i in 0..len {
            let raw = gen_frame(rng, i);
            let fr = F::from_fn(|c| <F::Sample as Smp>::from_raw(raw[c]));
            let squared = i % 8 == 7;
            let out = if squared { rms.next_squared(fr) } else { rms.next(fr) };
            for (c, s) in fr.channels().enumerate() { refs[c].push(s.exact(), X::<F>::MAXF); }
            // the naive recomputation costs O(N): for big windows check a fifth of the frames, and every frame around multiples of 2^16
            let near = { let m = (i + 1) % 65536; m < 2 * n + 8 || m > 65536 - 8 };
            if n <= 64 || near || i % 5 == 0 || i + 2 * n + 8 >= len {
                for (c, o) in out.channels().enumerate() {
                    if st.oracle_failures.len() >= fails_before + 3 { break; }
                    let last: Vec<String> = refs[c].hist.iter().rev().take(8).map(|x| format!("{:e}", x)).collect();
                    check_out::<X<F>>(st, tally, &refs[c], o, squared, &format!("{} frame={} newest-first last inputs of channel {}: [{}]", desc, i, c, last.join(", ")), &format!("channel {} at frame {}", c, i));
                    checked += 1;
                }
            }
        }
        checked
    });
    match res {
        Some(c) => { st.count_n("long:outputs-checked", c); st.count_n("long:frames", len as u64); }
        None => st.oracle_fail("Rms panicked in a long history", &desc, "no panic", "panic"),
    }
    st.count(&format!("long:N={}", n));
    st.count(if len >= (1 << 21) { "long:len>=2^21" } else if len >= (1 << 18) + n { "long:len>=2^18+N" } else { "long:len<2^18" });
    st.count(if grid { "long:input=grid (exact, zero drift tolerance)" } else { "long:input=noise" });
}

fn run_long(a: &Args) {
    let mut st = Stream::new(&a.out, "long");
    let mut rng = Rng::new(a.seed, "long");
    let mut tally = Tally { max_ratio: 0.0, max_rel_root: 0.0, clamp_candidates: 0 };
    let base = (1usize << 18) + 1500;   // past 2^18 + N for every N used
    let mut run = 0;
    let mut go = |st: &mut Stream, tally: &mut Tally, rng: &mut Rng, which: usize, n: usize, len: usize, grid: bool| {
        run += 1;
        match which {
            0 => long_run::<f32>(st, tally, rng, n, len, grid, run),
            1 => long_run::<f64>(st, tally, rng, n, len, grid, run),
            2 => long_run::<[f32; 2]>(st, tally, rng, n, len, grid, run),
            3 => long_run::<[f64; 2]>(st, tally, rng, n, len, grid, run),
            _ => long_run::<i16>(st, tally, rng, n, len, grid, run),
        }
    };
    // quick tier: every window class once beyond 2^18 + N, both input kinds, both float formats
    for &(which, n, grid) in &[(0usize, 3usize, true), (1, 3, false), (2, 16, true), (1, 64, false), (0, 64, true), (3, 1, false), (0, 1000, true), (1, 1000, false), (4, 7, false), (0, 4, false)] {
        let len = base + rng.usize_below(4096);
        go(&mut st, &mut tally, &mut rng, which, n, len, grid);
    }
    // a few shorter ones with random windows
    for _ in 0..6 {
        let n = *rng.pick(&[1usize, 2, 3, 4, 7, 16, 64]);
        let which = rng.usize_below(5); let grid = rng.chance(1, 2);
        let len = 20_000 + rng.usize_below(60_000);
        go(&mut st, &mut tally, &mut rng, which, n, len, grid);
    }
    if a.thorough() {
        for &(which, n, grid) in &[(0usize, 3usize, true), (1, 16, false), (2, 64, true), (1, 1000, false), (0, 1000, true), (3, 2, false), (0, 7, false)] {
            let len = (1usize << 21) + 3000 + rng.usize_below(100_000);
            go(&mut st, &mut tally, &mut rng, which, n, len, grid);
        }
        for &(which, n, grid) in &[(1usize, 4usize, false), (0, 16, true)] {
            let len = (1usize << 19) + 5000 + rng.usize_below(1 << 19);
            go(&mut st, &mut tally, &mut rng, which, n, len, grid);
        }
    }
    st.note(&format!("long histories through one detector without reset; tolerance = the running-sum bound of props/C11.json \"float_bound\" (grows linearly with the number of frames k) or, for inputs on the 2^-4 grid where every running sum is exact, 2u*M/N; largest observed deviation / bound = {:.4}", tally.max_ratio));
    st.finish();
}

// ---------------------------------------------------------------------------------------------
// the signal adaptor (std build only)

#[cfg(not(feature = "nostd"))]
thread_local! { static ZFEED: std::cell::RefCell<(Vec<Vec<u64>>, usize)> = std::cell::RefCell::new((Vec::new(), 0)); }
/// a source whose `is_exhausted()` report is independent of what it yields
#[cfg(not(feature = "nostd"))]
struct Reporting<F> { frames: Vec<F>, pos: usize, report_from: usize }
#[cfg(not(feature = "nostd"))]
impl<F: Frame> dasp_signal::Signal for Reporting<F> {
    type Frame = F;
    fn next(&mut self) -> F { let f = if self.pos < self.frames.len() { self.frames[self.pos] } else { F::EQUILIBRIUM }; self.pos += 1; f }
    fn is_exhausted(&self) -> bool { self.pos >= self.report_from }
}

#[cfg(not(feature = "nostd"))]
fn sig_case<F>(st: &mut Stream, n: usize, frames: &[Vec<u64>], k: usize, squared: bool)
where
    F: Frame + 'static,
    F::Sample: Smp,
    <F::Float as Frame>::Sample: Flt,
{
    use dasp_signal::{self as signal, rms::SignalRms, Signal};
    type X<F> = <<F as Frame>::Float as Frame>::Sample;
    let ch = F::CHANNELS;
    let fs: Vec<F> = frames.iter().map(|raw| F::from_fn(|i| <F::Sample as Smp>::from_raw(raw[i]))).collect();
    let mut req = format!("sig {} {} {} {} {} {}", X::<F>::NAME, MODE, if squared { "q" } else { "n" }, ch, n, k);
    for f in &fs { req.push(' '); req.push_str(&frame_tok(f.to_float_frame())); }
    let ring = || Fixed::from_raw_parts((k + fs.len()) % n.max(1), vec![F::Float::EQUILIBRIUM; n]);
    let res = guarded(|| {
        // source 1: a counting generator (one call per `Signal::next` on the source)
        let mut pulls = 0usize;
        let outs: Vec<String> = {
            let src = signal::gen_mut(|| { let f = if pulls < fs.len() { fs[pulls] } else { F::EQUILIBRIUM }; pulls += 1; f });
            let mut s = src.rms(ring());
            (0..k).map(|_| frame_tok(if squared { s.next_squared() } else { s.next() })).collect()
        };
        // source 2: `from_iter` (yields equilibrium once the frames are used up)
        let mut s2 = signal::from_iter(fs.iter().cloned()).rms(ring());
        let outs2: Vec<String> = (0..k).map(|_| frame_tok(if squared { s2.next_squared() } else { s2.next() })).collect();
        // the detector fed directly
        let mut d: Rms<F, Vec<F::Float>> = Rms::new(ring());
        let direct: Vec<String> = (0..k).map(|i| { let f = if i < fs.len() { fs[i] } else { F::EQUILIBRIUM }; frame_tok(if squared { d.next_squared(f) } else { d.next(f) }) }).collect();
        // source 3: a source that reports `is_exhausted()` from frame `rep` on while it keeps yielding the frames
        // ("contagious" exhaustion: finite.add_amp(infinite), finite.offset_amp(dc), finite.map(f)), then the hand-over:
        // into_parts() gives back the source right after the k frames pulled and the detector in the state reached
        let rep = (k * 7 + n) % (fs.len() + 2);
        let mut s3 = Reporting { frames: fs.clone(), pos: 0, report_from: rep }.rms(ring());
        let mut outs3: Vec<String> = (0..k).map(|_| frame_tok(if squared { s3.next_squared() } else { s3.next() })).collect();
        let (mut src3, mut det3) = s3.into_parts();
        let pos3 = src3.pos;
        for j in 0..2 { let f = src3.next(); outs3.push(frame_tok(det3.next(f))); let g = if k + j < fs.len() { fs[k + j] } else { F::EQUILIBRIUM }; outs3.push(frame_tok(d.next(g))); }
        // source 4: a ZERO-SIZED source (`signal::gen` over a closure that captures nothing and reads a thread-local
        // feed): the adaptor's static type says nothing about whether its source has state
        ZFEED.with(|z| *z.borrow_mut() = (frames.to_vec(), 0));
        let mut s4 = signal::gen(|| ZFEED.with(|z| { let mut z = z.borrow_mut(); let i = z.1; z.1 += 1; match z.0.get(i) { Some(raw) => F::from_fn(|c| <F::Sample as Smp>::from_raw(raw[c])), None => F::EQUILIBRIUM } })).rms(ring());
        let outs4: Vec<String> = (0..k).map(|_| frame_tok(if squared { s4.next_squared() } else { s4.next() })).collect();
        let pulls4 = ZFEED.with(|z| z.borrow().1);
        (outs, outs2, direct, pulls, outs3, pos3, outs4, pulls4)
    });
    match res {
        None => { st.case(&req, "panic", true, k as u64); st.oracle_fail("rms adaptor panicked", &req, "no panic", "panic"); }
        Some((outs, outs2, direct, pulls, outs3, pos3, outs4, pulls4)) => {
            if outs4 != direct || pulls4 != k { st.oracle_fail("signal.rms(ring) over a ZERO-SIZED source (gen over a closure capturing nothing) differs from the detector fed the same frames, or did not pull one frame per output", &req, &format!("{} pulls {}", direct.join(" "), k), &format!("{} pulls {}", outs4.join(" "), pulls4)); } else { st.oracle_ok(k as u64); }
            let tail_ok = outs3[k..].chunks(2).all(|c| c[0] == c[1]);
            if outs3[..k] != direct[..] || !tail_ok || pos3 != k { st.oracle_fail("signal.rms(ring) over a source that reports exhaustion while still yielding frames, then into_parts(): outputs / handed-back detector / source position differ from the detector fed the same frames", &req, &format!("{} pos {}", direct.join(" "), k), &format!("{} pos {}", outs3.join(" "), pos3)); } else { st.oracle_ok(k as u64 + 3); }
            let mut obs = outs.clone(); obs.push(format!("p{}", pulls));
            st.case(&req, &obs.join(" "), k > n, (k * ch) as u64);
            if outs != direct || outs2 != direct { st.oracle_fail("signal.rms(ring) output differs from the detector fed the same frames", &req, &direct.join(" "), &outs.join(" ")); } else { st.oracle_ok(2 * k as u64); }
            if pulls != k { st.oracle_fail("signal.rms(ring) did not pull exactly one source frame per output", &req, &k.to_string(), &pulls.to_string()); } else { st.oracle_ok(1); }
        }
    }
    st.count(&format!("src:{}", <F::Sample as Smp>::NAME)); st.count(&format!("ch:{}", ch)); st.count(&format!("N:{}", n));
    st.count(if squared { "kind:next_squared" } else { "kind:next" });
    st.count(if k > frames.len() { "exhausted-source" } else { "live-source" });
}

#[cfg(not(feature = "nostd"))]
fn sig_family<F>(st: &mut Stream, rng: &mut Rng, cases: usize)
where
    F: Frame + 'static,
    F::Sample: Smp,
    <F::Float as Frame>::Sample: Flt,
{
    for &n in &[1usize, 2, 3, 4, 7, 64] {
        for _ in 0..cases {
            let len = rng.usize_below(50);
            let style = rng.below(7) as u32;
            let frames: Vec<Vec<u64>> = (0..len).map(|_| (0..F::CHANNELS).map(|_| <F::Sample as Smp>::gen(rng, style)).collect()).collect();
            let k = if rng.chance(1, 4) { len + rng.usize_below(2 * n + 2) } else { rng.usize_below(len + 1) };
            sig_case::<F>(st, n, &frames, k, rng.chance(1, 3));
        }
    }
}

#[cfg(not(feature = "nostd"))]
fn run_sig(a: &Args) {
    let mut st = Stream::new(&a.out, "sig");
    let mut rng = Rng::new(a.seed, "sig");
    let c = if a.thorough() { 300 } else { 30 };
    sig_family::<f32>(&mut st, &mut rng, c);
    sig_family::<[f32; 2]>(&mut st, &mut rng, c);
    sig_family::<[f64; 1]>(&mut st, &mut rng, c);
    sig_family::<[f64; 3]>(&mut st, &mut rng, c);
    sig_family::<[i16; 2]>(&mut st, &mut rng, c);
    sig_family::<u8>(&mut st, &mut rng, c);
    st.finish();
}
#[cfg(feature = "nostd")]
fn run_sig(_a: &Args) { eprintln!("stream sig needs the std build"); std::process::exit(2); }

// ---------------------------------------------------------------------------------------------
// sample_sqrt on bit patterns

fn sqrt_patterns<X: Flt>(rng: &mut Rng, ebits: u32, mbits: u32, random: usize) -> Vec<u64> {
    let mut v = vec![0u64];
    let sign = 1u64 << (ebits + mbits);
    let mmask = (1u64 << mbits) - 1;
    for e in 0..(1u64 << ebits) {
        for m in [0u64, 1, 2, 3, mmask, mmask - 1, mmask >> 1, (mmask >> 1) + 1, 0x5555_5555_5555_5555 & mmask, rng.next_u64() & mmask, rng.next_u64() & mmask] {
            v.push(e << mbits | m);
        }
    }
    for _ in 0..random { v.push(rng.next_u64() & (sign - 1)); }
    // outside the domain of the property (compared with the model only): -0.0, negatives
    v.push(sign); v.push(sign | (1u64 << mbits)); v.push(sign | ((1u64 << (ebits - 1)) - 1) << mbits);
    v
}

fn sqrt_stream<X: Flt>(st: &mut Stream, stream: &str, pats: &[u64], ebits: u32, mbits: u32, max_rel: &mut f64) {
    let emax = (1u64 << ebits) - 1;
    for chunk in pats.chunks(64) {
        let mut req = format!("{} {} {}", stream, X::NAME, MODE);
        let mut obs = Vec::new();
        for &b in chunk {
            req.push(' '); req.push_str(&b.to_string());
            let x = X::from_b(b);
            let r = guarded(|| x.sample_sqrt());
            match r {
                None => { obs.push("panic".to_string()); st.oracle_fail("sample_sqrt panicked", &req, "no panic", &b.to_string()); }
                Some(r) => {
                    obs.push(tok(r));
                    let e = (b >> mbits) & emax; let neg = b >> (ebits + mbits) != 0;
                    let xv = x.f();
                    if neg {
                        st.count(if xv == 0.0 { "class:-0 (model only)" } else { "class:negative" });
                        if xv != 0.0 { if r.nan() { st.oracle_ok(1); } else { st.oracle_fail("sqrt of a negative number is not NaN", &req, "nan", &tok(r)); } }
                    } else if e == emax {
                        st.count("class:inf/nan (model only)");
                    } else if e == 0 {
                        st.count("class:zero/subnormal");
                        // "negligible absolute term at zero"
                        let lim = if NOSTD { X::ABS0 } else { xv.sqrt() * (1.0 + 4.0 * X::U) };
                        if r.f() >= 0.0 && r.f() <= lim { st.oracle_ok(1); } else { st.oracle_fail("sqrt of zero/subnormal input is not negligible", &req, &format!("0 <= r <= {:e}", lim), &format!("{:e}", r.f())); }
                    } else {
                        st.count("class:normal");
                        let t = xv.sqrt();
                        let rel = (r.f() - t).abs() / t;
                        if rel > *max_rel { *max_rel = rel; }
                        let lim = if NOSTD { 0.07 } else { 2.0 * X::U };
                        if rel <= lim { st.oracle_ok(1); } else {
                            st.oracle_fail(if NOSTD { "no_std sqrt not within 7 % relative error" } else { "std sqrt not within one ulp" }, &format!("{} {} {} {}", stream, X::NAME, MODE, b),
                                &format!("{:e} (x = {:e})", t, xv), &format!("{:e}", r.f()));
                        }
                    }
                }
            }
        }
        st.case(&req, &obs.join(" "), true, chunk.len() as u64);
    }
}

fn run_sqrt(a: &Args) {
    let stream = a.stream.clone();
    let mut st = Stream::new(&a.out, &stream);
    let mut rng = Rng::new(a.seed, &stream);
    let random = if a.thorough() { 400_000 } else { 20_000 };
    let mut m32 = 0.0; let mut m64 = 0.0;
    let p32 = sqrt_patterns::<f32>(&mut rng, 8, 23, random);
    sqrt_stream::<f32>(&mut st, &stream, &p32, 8, 23, &mut m32);
    let p64 = sqrt_patterns::<f64>(&mut rng, 11, 52, random);
    sqrt_stream::<f64>(&mut st, &stream, &p64, 11, 52, &mut m64);
    st.note(&format!("every exponent of f32 (256) and f64 (2048) x 11 mantissa patterns + {} random patterns each; largest relative error of the root on normal inputs: f32 {:.5}, f64 {:.5} ({} build)", random, m32, m64, MODE));
    st.finish();
}

// ---------------------------------------------------------------------------------------------
// delegation of the *_nostd streams to the crate /verif/harness_nostd

#[cfg(not(feature = "nostd"))]
fn delegate() -> ! { delegate_nostd("c11_nostd") }
#[cfg(feature = "nostd")]
fn delegate() -> ! { unreachable!() }

fn main() {
    let a = Args::parse();
    if a.stream.ends_with("_nostd") != NOSTD {
        if NOSTD { eprintln!("stream {} needs the std build", a.stream); std::process::exit(2); }
        delegate();
    }
    match a.stream.as_str() {
        "rms" | "rms_nostd" => run_rms(&a),
        "long" => run_long(&a),
        "sig" => run_sig(&a),
        "sqrt" | "sqrt_nostd" => run_sqrt(&a),
        s => { eprintln!("unknown stream {}", s); std::process::exit(2); }
    }
}
