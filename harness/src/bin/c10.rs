//! C10 — sample<->frame slice views, boxed conversions, in-place slice ops.
//! Streams `view` (shared/mut views, both directions), `boxed` (Box conversions under a counting
//! global allocator), `ops` (equilibrium/map/zip_map/write/add/add-with-amp over all length pairs).
//! Samples travel as small integer labels; pointers only as offsets from the test buffer's base.
#[path = "../util.rs"]
mod util;
#[path = "../userframe.rs"]
mod userframe;
use dasp_frame::Frame;
use dasp_sample::{types::I24, Sample};
use std::alloc::{GlobalAlloc, Layout, System};
use std::sync::atomic::{AtomicIsize, AtomicUsize, Ordering::SeqCst};
use util::*;

// ---- counting allocator (live bytes, number of allocation calls) ---------------------------
struct Counting;
static LIVE: AtomicIsize = AtomicIsize::new(0);
static ALLOCS: AtomicUsize = AtomicUsize::new(0);
unsafe impl GlobalAlloc for Counting {
    unsafe fn alloc(&self, l: Layout) -> *mut u8 {
        LIVE.fetch_add(l.size() as isize, SeqCst);
        ALLOCS.fetch_add(1, SeqCst);
        System.alloc(l)
    }
    unsafe fn dealloc(&self, p: *mut u8, l: Layout) {
        LIVE.fetch_sub(l.size() as isize, SeqCst);
        System.dealloc(p, l)
    }
}
#[global_allocator]
static A: Counting = Counting;
fn live() -> isize { LIVE.load(SeqCst) }
fn allocs() -> usize { ALLOCS.load(SeqCst) }

// ---- sample formats as integer labels ------------------------------------------------------
trait Lab: Sample + PartialEq + std::fmt::Debug {
    const FMT: &'static str;
    fn mk(l: i64) -> Self;
    fn lab(self) -> i64;
}
macro_rules! lab_prim { ($($T:ty, $name:expr);*) => { $( impl Lab for $T {
    const FMT: &'static str = $name;
    fn mk(l: i64) -> Self { l as $T }
    fn lab(self) -> i64 { self as i64 }
} )* } }
lab_prim!(u8, "u8"; i8, "i8"; i16, "i16"; i64, "i64"; f32, "f32"; f64, "f64");
impl Lab for I24 {
    const FMT: &'static str = "i24";
    fn mk(l: i64) -> Self { I24::new_unchecked(l as i32) }
    fn lab(self) -> i64 { self.inner() as i64 }
}

fn join(v: &[i64], sep: &str) -> String { if v.is_empty() { "-".into() } else { v.iter().map(|x| x.to_string()).collect::<Vec<_>>().join(sep) } }
fn frames_str(flat: &[i64], n: usize) -> String {
    if flat.is_empty() { return "-".into(); }
    flat.chunks(n).map(|f| f.iter().map(|x| x.to_string()).collect::<Vec<_>>().join(",")).collect::<Vec<_>>().join(";")
}
fn spaced(v: &[i64]) -> String { v.iter().map(|x| x.to_string()).collect::<Vec<_>>().join(" ") }

struct ViewOut { frames: usize, off: isize, contents: Vec<i64>, back_off: isize, back_len: usize }
struct FViewOut { off: isize, len: usize, samples: Vec<i64>, back: Option<(usize, isize)> }
struct Step { allocs: usize, dlive: isize }
struct BoxOut { first: Step, res: Option<(usize, isize, Vec<i64>, Step, isize, usize, Vec<i64>)>, leaked: isize }
struct FBoxOut { first: Step, off: isize, len: usize, samples: Vec<i64>, back: Option<(usize, isize)>, second: Step, leaked: isize }
enum OpOut { Ok(Vec<i64>), Panic(Vec<i64>) }

fn off_of<T, U>(p: *const T, base: *const U, elem: usize) -> isize { (p as isize - base as isize) / elem as isize }

macro_rules! per_n { ($($N:literal)*) => {
    /// `to_frame_slice` on `buf[base..base+len]`, then `to_sample_slice` back
    fn view_shared<S: Lab>(n: usize, buf: &[S], base: usize, len: usize) -> Option<ViewOut> { match n { $( $N => {
        let s: &[S] = &buf[base..base + len];
        let r: Option<&[[S; $N]]> = dasp_slice::to_frame_slice(s);
        r.map(|fs| {
            let back: &[S] = dasp_slice::to_sample_slice(fs);
            ViewOut { frames: fs.len(), off: off_of(fs.as_ptr(), buf.as_ptr(), std::mem::size_of::<S>()),
                contents: fs.iter().flat_map(|f| f.iter().map(|x| x.lab())).collect(),
                back_off: off_of(back.as_ptr(), buf.as_ptr(), std::mem::size_of::<S>()), back_len: back.len() }
        })
    } )* _ => unreachable!() } }

    /// `to_frame_slice_mut`, writes through the frame view, then `to_sample_slice_mut` back
    fn view_mut<S: Lab>(n: usize, buf: &mut [S], base: usize, len: usize, writes: &[(usize, usize, i64)]) -> Option<ViewOut> { match n { $( $N => {
        let bp = buf.as_ptr();
        let s: &mut [S] = &mut buf[base..base + len];
        let r: Option<&mut [[S; $N]]> = dasp_slice::to_frame_slice_mut(s);
        r.map(|fs| {
            let contents: Vec<i64> = fs.iter().flat_map(|f| f.iter().map(|x| x.lab())).collect();
            let (frames, off) = (fs.len(), off_of(fs.as_ptr(), bp, std::mem::size_of::<S>()));
            for &(i, c, v) in writes { if i < fs.len() && c < $N { fs[i][c] = S::mk(v); } }
            let back: &mut [S] = dasp_slice::to_sample_slice_mut(fs);
            ViewOut { frames, off, contents, back_off: off_of(back.as_ptr(), bp, std::mem::size_of::<S>()), back_len: back.len() }
        })
    } )* _ => unreachable!() } }

    /// a slice of frames viewed as samples (`to_sample_slice[_mut]`) and back
    fn fview<S: Lab>(n: usize, labels: &[i64], base_frame: usize, f: usize, mutable: bool) -> FViewOut { match n { $( $N => {
        let mut buf: Vec<[S; $N]> = labels.chunks($N).map(|c| { let mut fr = [S::mk(0); $N]; for (k, &l) in c.iter().enumerate() { fr[k] = S::mk(l); } fr }).collect();
        let bp = buf.as_ptr();
        let es = std::mem::size_of::<S>();
        if mutable {
            let fs: &mut [[S; $N]] = &mut buf[base_frame..base_frame + f];
            let s: &mut [S] = dasp_slice::to_sample_slice_mut(fs);
            let (off, len, samples) = (off_of(s.as_ptr(), bp, es), s.len(), s.iter().map(|x| x.lab()).collect());
            let back: Option<&mut [[S; $N]]> = dasp_slice::to_frame_slice_mut(s);
            FViewOut { off, len, samples, back: back.map(|b| (b.len(), off_of(b.as_ptr(), bp, es))) }
        } else {
            let fs: &[[S; $N]] = &buf[base_frame..base_frame + f];
            let s: &[S] = dasp_slice::to_sample_slice(fs);
            let back: Option<&[[S; $N]]> = dasp_slice::to_frame_slice(s);
            FViewOut { off: off_of(s.as_ptr(), bp, es), len: s.len(), samples: s.iter().map(|x| x.lab()).collect(),
                back: back.map(|b| (b.len(), off_of(b.as_ptr(), bp, es))) }
        }
    } )* _ => unreachable!() } }

    /// `Box<[S]>` -> `to_boxed_frame_slice` -> `to_boxed_sample_slice`, live bytes / allocation calls around each call
    fn box_case<S: Lab>(n: usize, labels: &[i64]) -> BoxOut { match n { $( $N => {
        let es = std::mem::size_of::<S>();
        let mut c1: Vec<i64> = Vec::with_capacity(labels.len());
        let mut c2: Vec<i64> = Vec::with_capacity(labels.len());
        let live0 = live();
        let b: Box<[S]> = labels.iter().map(|&l| S::mk(l)).collect::<Vec<S>>().into_boxed_slice();
        let p0 = b.as_ptr();
        let (l1, a1) = (live(), allocs());
        let r: Option<Box<[[S; $N]]>> = dasp_slice::to_boxed_frame_slice(b);
        let (l2, a2) = (live(), allocs());
        let first = Step { allocs: a2 - a1, dlive: l2 - l1 };
        match r {
            None => BoxOut { first, res: None, leaked: live() - live0 },
            Some(fb) => {
                let (frames, off) = (fb.len(), off_of(fb.as_ptr(), p0, es));
                for f in fb.iter() { for x in f.iter() { c1.push(x.lab()); } }
                let (l3, a3) = (live(), allocs());
                let sb: Box<[S]> = dasp_slice::to_boxed_sample_slice(fb);
                let (l4, a4) = (live(), allocs());
                let (boff, blen) = (off_of(sb.as_ptr(), p0, es), sb.len());
                for x in sb.iter() { c2.push(x.lab()); }
                drop(sb);
                let leaked = live() - live0;
                BoxOut { first, res: Some((frames, off, c1, Step { allocs: a4 - a3, dlive: l4 - l3 }, boff, blen, c2)), leaked }
            }
        }
    } )* _ => unreachable!() } }

    /// `Box<[[S;N]]>` -> `to_boxed_sample_slice` -> `to_boxed_frame_slice`
    fn fbox_case<S: Lab>(n: usize, labels: &[i64]) -> FBoxOut { match n { $( $N => {
        let es = std::mem::size_of::<S>();
        let mut c1: Vec<i64> = Vec::with_capacity(labels.len());
        let live0 = live();
        let fb: Box<[[S; $N]]> = labels.chunks($N).map(|c| { let mut fr = [S::mk(0); $N]; for (k, &l) in c.iter().enumerate() { fr[k] = S::mk(l); } fr }).collect::<Vec<_>>().into_boxed_slice();
        let p0 = fb.as_ptr();
        let (l1, a1) = (live(), allocs());
        let sb: Box<[S]> = dasp_slice::to_boxed_sample_slice(fb);
        let (l2, a2) = (live(), allocs());
        let (off, len) = (off_of(sb.as_ptr(), p0, es), sb.len());
        for x in sb.iter() { c1.push(x.lab()); }
        let (l3, a3) = (live(), allocs());
        let r: Option<Box<[[S; $N]]>> = dasp_slice::to_boxed_frame_slice(sb);
        let (l4, a4) = (live(), allocs());
        let back = r.as_ref().map(|b| (b.len(), off_of(b.as_ptr(), p0, es)));
        drop(r);
        FBoxOut { first: Step { allocs: a2 - a1, dlive: l2 - l1 }, off, len, samples: c1, back, second: Step { allocs: a4 - a3, dlive: l4 - l3 }, leaked: live() - live0 }
    } )* _ => unreachable!() } }

    /// the in-place operations; returns the observed outcome, the closure call log and whether the
    /// result equals the element-wise frame operation applied by hand (the native oracle)
    fn ops_case<S>(name: &str, n: usize, al: &[i64], bl: &[i64], amp: &[i64]) -> (OpOut, Vec<i64>, Result<(), String>)
    where S: Lab, S::Signed: Lab, <S::Signed as Sample>::Float: Lab {
        match n { $( $N => {
            fn mkf<T: Lab>(c: &[i64]) -> [T; $N] { let mut fr = [T::mk(0); $N]; for (k, &l) in c.iter().enumerate() { fr[k] = T::mk(l); } fr }
            fn flat<T: Lab>(v: &[[T; $N]]) -> Vec<i64> { v.iter().flat_map(|f| f.iter().map(|x| x.lab())).collect() }
            let a0: Vec<[S; $N]> = al.chunks($N).map(mkf::<S>).collect();
            let mut a = a0.clone();
            let mut log: Vec<i64> = vec![];
            let (lens_equal, mut verdict) = (al.len() == bl.len(), Ok(()));
            let mut expect_eq = |got: &[[S; $N]], want: Vec<[S; $N]>| { if got != &want[..] {
                verdict = Err(if want.len() <= 16 { format!("{:?}", flat(&want)) } else {
                    let i = (0..want.len()).find(|&i| got.get(i) != Some(&want[i])).unwrap_or(0);
                    format!("frame {} of {}: {:?} (observed {:?})", i, want.len(), flat(&want[i..i + 1]), got.get(i).map(|f| flat(&[*f]))) }); } };
            let panicked = match name {
                "equilibrium" => { dasp_slice::equilibrium(&mut a[..]);
                    expect_eq(&a, a0.iter().map(|_| <[S; $N] as Frame>::EQUILIBRIUM).collect()); false }
                "map" => { let f = |fr: [S; $N]| { let mut o = fr; for c in 0..$N { o[c] = S::mk(2 * fr[c].lab() + 1); } o };
                    { let lg = &mut log; dasp_slice::map_in_place(&mut a[..], |fr| { lg.extend(fr.iter().map(|x| x.lab())); f(fr) }); }
                    expect_eq(&a, a0.iter().map(|&fr| f(fr)).collect()); false }
                "zipmap" | "write" => {
                    // `b` is a prefix of a buffer at least as long as `a`: should the length check ever be
                    // missing, the unchecked reads stay inside this allocation instead of crashing the harness
                    let mut bfull: Vec<[S; $N]> = bl.chunks($N).map(mkf::<S>).collect();
                    let lbf = bfull.len();
                    while bfull.len() < a0.len() { bfull.push(mkf::<S>(&[])); }
                    let b = &bfull[..lbf];
                    let f = |x: [S; $N], y: [S; $N]| { let mut o = x; for c in 0..$N { o[c] = S::mk(3 * x[c].lab() + y[c].lab()); } o };
                    let r = if name == "write" { guarded(|| dasp_slice::write(&mut a[..], &b[..])) } else {
                        let lg = &mut log; let ar = &mut a;
                        guarded(|| dasp_slice::zip_map_in_place(&mut ar[..], &b[..], |x, y| { lg.extend(x.iter().map(|v| v.lab())); lg.extend(y.iter().map(|v| v.lab())); f(x, y) })) };
                    if r.is_some() && lens_equal {
                        expect_eq(&a, a0.iter().zip(b.iter()).map(|(&x, &y)| if name == "write" { y } else { f(x, y) }).collect());
                    }
                    r.is_none() }
                "add" | "addamp" => {
                    let mut bfull: Vec<[S::Signed; $N]> = bl.chunks($N).map(mkf::<S::Signed>).collect();
                    let lbf = bfull.len();
                    while bfull.len() < a0.len() { bfull.push(mkf::<S::Signed>(&[])); }
                    let b = &bfull[..lbf];
                    let am: [<S::Signed as Sample>::Float; $N] = mkf(amp);
                    let r = if name == "add" { guarded(|| dasp_slice::add_in_place(&mut a[..], &b[..])) }
                            else { guarded(|| dasp_slice::add_in_place_with_amp_per_channel(&mut a[..], &b[..], am)) };
                    if r.is_some() && lens_equal {
                        expect_eq(&a, a0.iter().zip(b.iter()).map(|(&x, &y)| if name == "add" { x.add_amp(y) } else { x.add_amp(y.mul_amp(am)) }).collect());
                    }
                    r.is_none() }
                _ => unreachable!(),
            };
            // refuse a length mismatch by panicking before modifying anything; otherwise return normally
            let two = name != "equilibrium" && name != "map";
            if two && !lens_equal {
                if !panicked { verdict = Err("a panic (length mismatch)".into()); }
                else if a != a0 { verdict = Err(format!("destination unchanged {:?}", flat(&a0))); }
                else if !log.is_empty() { verdict = Err("closure not called".into()); }
            } else if panicked { verdict = Err("no panic".into()); }
            (if panicked { OpOut::Panic(flat(&a)) } else { OpOut::Ok(flat(&a)) }, log, verdict)
        } )* _ => unreachable!() }
    }
} }
per_n!(1 2 3 4 5 6 7 8 9 10 11 12 13 14 15 16 17 18 19 20 21 22 23 24 25 26 27 28 29 30 31 32);

/// run `$body` with the type alias `$S` bound to the sample format named `$fmt`
macro_rules! with_fmt { ($fmt:expr, $S:ident => $body:expr) => { match $fmt {
    "u8" => { type $S = u8; $body } "i16" => { type $S = i16; $body } "i24" => { type $S = I24; $body }
    "f32" => { type $S = f32; $body } "f64" => { type $S = f64; $body } "i64" => { type $S = i64; $body }
    _ => unreachable!() } } }

const FMTS: [&str; 6] = ["u8", "i16", "i24", "f32", "f64", "i64"];
fn label_range(fmt: &str) -> (i64, i64) { if fmt == "u8" { (0, 255) } else { (-1000, 1000) } }

fn main() {
    let a = Args::parse();
    match a.stream.as_str() {
        "view" => run_view(&a),
        "boxed" => run_boxed(&a),
        "ops" => run_ops(&a),
        s => { eprintln!("unknown stream {}", s); std::process::exit(2); }
    }
}

fn trunc(mut s: String) -> String { if s.len() > 400 { let mut k = 400; while !s.is_char_boundary(k) { k -= 1; } s.truncate(k); s.push_str(" …"); } s }

/// one sample->frame view case (shared or mut) on `buf[base..base+len]`
fn view_one(st: &mut Stream, rng: &mut Rng, fmt: &str, n: usize, len: usize, kind: &str, base: usize) {
    {
        let (lo, hi) = label_range(fmt);
        let pad = rng.usize_below(3);
        let labels: Vec<i64> = (0..base + len + pad).map(|_| rng.range(lo, hi)).collect();
        let mut writes: Vec<(usize, usize, i64)> = vec![];
        if kind == "mut" && len >= n { for _ in 0..rng.usize_below(4) { writes.push((rng.usize_below(len / n), rng.usize_below(n), rng.range(lo, hi))); } }
        let wflat: Vec<i64> = writes.iter().flat_map(|&(i, c, v)| vec![i as i64, c as i64, v]).collect();
        let op = format!("view {} {} {} {} | {} | {}", kind, n, base, len, spaced(&labels), spaced(&wflat));
        let (out, after): (Option<ViewOut>, Vec<i64>) = with_fmt!(fmt, S => {
            let mut buf: Vec<S> = labels.iter().map(|&l| S::mk(l)).collect();
            let o = if kind == "shared" { view_shared::<S>(n, &buf, base, len) } else { view_mut::<S>(n, &mut buf, base, len, &writes) };
            (o, buf.iter().map(|x| x.lab()).collect())
        });
        let obs = match &out {
            None => "none".to_string(),
            Some(v) => format!("some {} @{} | {} | back @{} {} | {}", v.frames, v.off, frames_str(&v.contents, n), v.back_off, v.back_len, join(&after, ",")),
        };
        // ---- the property, directly
        let divides = len % n == 0;
        let case = trunc(format!("{} {}", fmt, op));
        match &out {
            None => { if divides { st.oracle_fail("viewing samples as N-channel frames must succeed when N divides L", &case, "some", "none"); } else { st.oracle_ok(1); } }
            Some(v) => {
                let mut want_after = labels.clone();
                for &(i, c, val) in &writes { want_after[base + i * n + c] = val; }
                let want: Vec<i64> = labels[base..base + len].to_vec();
                if !divides { st.oracle_fail("viewing samples as frames must fail when N does not divide L", &case, "none", &obs); }
                else if v.frames != len / n { st.oracle_fail("view must have L/N frames", &case, &(len / n).to_string(), &v.frames.to_string()); }
                else if v.off != base as isize { st.oracle_fail("frame view must start at the very same memory", &case, &base.to_string(), &v.off.to_string()); }
                else if v.contents != want { st.oracle_fail("channel c of frame i must be sample i*N+c", &case, &join(&want, ","), &join(&v.contents, ",")); }
                else if v.back_off != base as isize || v.back_len != len { st.oracle_fail("viewing the frames as samples must be the exact inverse", &case, &format!("@{} {}", base, len), &format!("@{} {}", v.back_off, v.back_len)); }
                else if after != want_after { st.oracle_fail("a write through the frame view must land at sample i*N+c and nowhere else", &case, &join(&want_after, ","), &join(&after, ",")); }
                else { st.oracle_ok(1); }
            }
        }
        st.count(&format!("{}{}", if out.is_some() { "some" } else { "none" }, if len > 200 { "_large" } else { "" }));
        st.case(&op, &obs, len > 0 && n > 1, 1);
    }
}

fn run_view(a: &Args) {
    let mut st = Stream::new(&a.out, "view");
    let mut rng = Rng::new(a.seed, "view");
    let reps = if a.thorough() { 4 } else { 1 };
    for fmt in FMTS { for n in 1..=32usize { for len in 0..=(3 * n + 2) { for kind in ["shared", "mut"] { for rep in 0..(if len % n == 0 { 4 * reps } else { reps }) {
        let base = if rep == 0 { (len + n) % 3 } else { rng.usize_below(4) };
        view_one(&mut st, &mut rng, fmt, n, len, kind, base);
    } } } } }
    // large views: L in the thousands, divisible (rounded down to a multiple of N) and as given
    for n in 1..=32usize {
        let sizes: Vec<usize> = if a.thorough() { BIG.to_vec() } else { vec![*rng.pick(&BIG[..6]), rng.range(1026, 5000) as usize] };
        for size in sizes { for len in [size / n * n, size] { for kind in ["shared", "mut"] {
            if !a.thorough() && rng.chance(1, 2) { continue; }
            let (fmt, base) = (*rng.pick(&FMTS), rng.usize_below(4));
            view_one(&mut st, &mut rng, fmt, n, len, kind, base);
        } } }
    }
    // frames -> samples -> frames
    for fmt in FMTS { for n in 1..=32usize {
      // large frame slices for one format per N
      let fl: Vec<usize> = (0..=4usize).chain(if fmt == FMTS[n % 6] { vec![1025 / n + 1, 4099 / n] } else { vec![] }).collect();
      for f in fl { for base_frame in 0..=1usize { for mutable in [false, true] {
        let (lo, hi) = label_range(fmt);
        let total = base_frame + f + rng.usize_below(2);
        let labels: Vec<i64> = (0..total * n).map(|_| rng.range(lo, hi)).collect();
        let op = format!("fview {} {} {} {} | {}", if mutable { "mut" } else { "shared" }, n, base_frame, f, spaced(&labels));
        let o: FViewOut = with_fmt!(fmt, S => fview::<S>(n, &labels, base_frame, f, mutable));
        let back = match o.back { Some((fr, off)) => format!("some {} @{}", fr, off), None => "none".into() };
        let obs = format!("@{} {} | {} | back {}", o.off, o.len, join(&o.samples, ","), back);
        let case = trunc(format!("{} {}", fmt, op));
        let want: Vec<i64> = labels[base_frame * n..(base_frame + f) * n].to_vec();
        if o.off != (base_frame * n) as isize || o.len != f * n || o.samples != want {
            st.oracle_fail("viewing frames as samples: same memory, F*N samples, sample i*N+c = channel c of frame i", &case, &format!("@{} {} {}", base_frame * n, f * n, join(&want, ",")), &obs);
        } else if o.back != Some((f, (base_frame * n) as isize)) {
            st.oracle_fail("viewing the samples as frames again must give the original frame slice", &case, &format!("some {} @{}", f, base_frame * n), &back);
        } else { st.oracle_ok(1); }
        st.count(if f > 100 { "fview_large" } else { "fview" });
        st.case(&op, &obs, f > 0 && n > 1, 1);
      } } }
    } }
    st.exhaustive = false;
    st.note("plus large views: per N seeded lengths from {1023,1024,1025,2047,2500,4099} and 1026..5000 (quick) / all of those and 10000 (thorough), both rounded down to a multiple of N and as given; ");
    st.note("every N in 1..=32 x every L in 0..=3N+2 x {shared, mut} x {u8,i16,I24,f32,f64,i64}: the (N, L, kind, format) space is enumerated completely; base offsets, padding, labels and writes are seeded random");
    st.finish();
}

fn run_boxed(a: &Args) {
    let mut st = Stream::new(&a.out, "boxed");
    let mut rng = Rng::new(a.seed, "boxed");
    let step = |s: &Step| format!("allocs={} dlive={}", s.allocs, s.dlive);
    let thorough = a.thorough();
    for fmt in FMTS { for n in 1..=32usize {
      // large boxes (divisible and not) for one format per N (quick: every fourth N)
      let mut lens: Vec<usize> = (0..=(3 * n + 2)).collect();
      if fmt == FMTS[n % 6] && (thorough || n % 4 == 1) {
          lens.push(BIG[n % 6] / n * n); lens.push(BIG[(n + 1) % 6] / n * n + (if n > 1 { 1 } else { 0 }));
          if thorough { lens.push(10_000 / n * n); lens.push(10_000 / n * n + n - 1); }
      }
      for len in lens { for _rep in 0..(if len % n == 0 && len < 200 { 4 } else { 1 }) {
        let (lo, hi) = label_range(fmt);
        let labels: Vec<i64> = (0..len).map(|_| rng.range(lo, hi)).collect();
        let es: usize = with_fmt!(fmt, S => std::mem::size_of::<S>());
        let op = format!("box {} {} {} | {}", n, len, es, spaced(&labels));
        let o: BoxOut = with_fmt!(fmt, S => box_case::<S>(n, &labels));
        let obs = match &o.res {
            None => format!("none {} leaked={}", step(&o.first), o.leaked),
            Some((frames, off, c1, s2, boff, blen, c2)) => format!("some {} @{} {} | {} | back @{} {} {} leaked={} | {}",
                frames, off, step(&o.first), frames_str(c1, n), boff, blen, step(s2), o.leaked, join(c2, ",")),
        };
        let case = trunc(format!("{} {}", fmt, op));
        let bytes = (len * es) as isize;
        let divides = len % n == 0;
        match &o.res {
            None => {
                if divides { st.oracle_fail("boxed conversion must succeed when N divides L", &case, "some", &obs); }
                else if o.first.dlive != -bytes || o.leaked != 0 {
                    st.oracle_fail("a failed boxed conversion must release the allocation", &case, &format!("dlive={} leaked=0", -bytes), &obs); }
                else { st.oracle_ok(1); }
            }
            Some((frames, off, c1, s2, boff, blen, c2)) => {
                if !divides { st.oracle_fail("boxed conversion must fail when N does not divide L", &case, "none", &obs); }
                else if *frames != len / n || c1 != &labels || *off != 0 { st.oracle_fail("boxed frame slice: L/N frames, channel c of frame i = sample i*N+c, same memory", &case, &format!("some {} @0 {}", len / n, join(&labels, ",")), &obs); }
                else if o.first.allocs != 0 || o.first.dlive != 0 || s2.allocs != 0 || s2.dlive != 0 { st.oracle_fail("boxed conversions must reuse the allocation (no allocation, no free)", &case, "allocs=0 dlive=0", &obs); }
                else if *boff != 0 || *blen != len || c2 != &labels { st.oracle_fail("boxed frames -> samples must be the exact inverse", &case, &format!("@0 {} {}", len, join(&labels, ",")), &obs); }
                else if o.leaked != 0 { st.oracle_fail("dropping the converted box must free the original allocation", &case, "leaked=0", &obs); }
                else { st.oracle_ok(1); }
            }
        }
        st.count(&format!("{}{}", if o.res.is_some() { "box_some" } else { "box_none_released" }, if len > 200 { "_large" } else { "" }));
        st.case(&op, &obs, len > 0, 1);
      } }
    } }
    for fmt in FMTS { for n in 1..=32usize { for f in 0..=4usize {
        let (lo, hi) = label_range(fmt);
        let labels: Vec<i64> = (0..f * n).map(|_| rng.range(lo, hi)).collect();
        let es: usize = with_fmt!(fmt, S => std::mem::size_of::<S>());
        let op = format!("fbox {} {} {} | {}", n, f, es, spaced(&labels));
        let o: FBoxOut = with_fmt!(fmt, S => fbox_case::<S>(n, &labels));
        let back = match o.back { Some((fr, off)) => format!("some {} @{} {} leaked={}", fr, off, step(&o.second), o.leaked), None => format!("none {} leaked={}", step(&o.second), o.leaked) };
        let obs = format!("@{} {} {} | {} | back {}", o.off, o.len, step(&o.first), join(&o.samples, ","), back);
        let case = format!("{} {}", fmt, op);
        if o.off != 0 || o.len != f * n || o.samples != labels || o.back != Some((f, 0)) {
            st.oracle_fail("boxed frames -> samples -> frames: same memory, F*N samples in order, exact inverse", &case, &format!("@0 {} .. back some {} @0", f * n, f), &obs);
        } else if o.first.allocs != 0 || o.first.dlive != 0 || o.second.allocs != 0 || o.second.dlive != 0 || o.leaked != 0 {
            st.oracle_fail("boxed conversions must reuse the allocation and leak nothing", &case, "allocs=0 dlive=0 leaked=0", &obs);
        } else { st.oracle_ok(1); }
        st.count("fbox");
        st.case(&op, &obs, f > 0, 1);
    } } }
    st.exhaustive = false;
    st.note("plus large boxes (thousands of samples, divisible and not) for one format per N; every N in 1..=32 x every L in 0..=3N+2 x 6 formats (boxed samples -> frames -> samples) and every F in 0..=4 (boxed frames -> samples -> frames); labels seeded random");
    st.finish();
}

/// one `ops` case; `through_model` = also a correspondence line (otherwise native oracle only)
fn ops_one(st: &mut Stream, rng: &mut Rng, name: &str, fmt: &str, n: usize, la: usize, lb: usize, through_model: bool) {
    // label domains on which the frame operations used are exact in every format (stated in props/C10.json)
    let (alo, ahi, blo, bhi) = match (name, fmt) {
        ("zipmap", _) => (0, 50, 0, 50), ("map", _) => (0, 100, 0, 0),
        ("add", "u8") | ("addamp", "u8") => (110, 146, -8, 8),
        ("add", _) | ("addamp", _) => (-500, 500, -8, 8),
        (_, "u8") => (0, 255, 0, 255), _ => (-1000, 1000, -1000, 1000) };
    let al: Vec<i64> = (0..la * n).map(|_| rng.range(alo, ahi)).collect();
    let bl: Vec<i64> = (0..lb * n).map(|_| rng.range(blo, bhi)).collect();
    let amp: Vec<i64> = if name == "addamp" { (0..n).map(|_| *rng.pick(&[0i64, 1, 2, -1])).collect() } else { vec![] };
    let (out, log, verdict) = with_fmt!(fmt, S => ops_case::<S>(name, n, &al, &bl, &amp));
    let big = la.max(lb) > 16;
    let head = format!("ops {} {} {} {} {}", name, fmt, n, la, lb);
    let short = |v: &[i64]| if v.len() > 24 { format!("{} … ({} labels)", spaced(&v[..24]), v.len()) } else { spaced(v) };
    match verdict {
        Ok(()) => st.oracle_ok(1),
        Err(want) => {
            let obs = match &out { OpOut::Ok(v) => format!("ok | {}", if big { "(see expected)".to_string() } else { frames_str(v, n) }),
                                   OpOut::Panic(v) => format!("panic | {}", if big { "(see expected)".to_string() } else { frames_str(v, n) }) };
            st.oracle_fail(&format!("{}: must equal the element-wise frame operation, and refuse a length mismatch by panicking before modifying anything", name),
                &format!("{} | {} | {} | {}", head, short(&al), short(&bl), spaced(&amp)), &want, &obs) }
    }
    st.count(&format!("{}_{}{}", name, if matches!(out, OpOut::Panic(_)) { "panic" } else { "ok" }, if big { "_large" } else { "" }));
    if !through_model { st.count("large_native_oracle_only"); return; }
    let op = format!("{} | {} | {} | {}", head, spaced(&al), spaced(&bl), spaced(&amp));
    let mut obs = match &out { OpOut::Ok(v) => format!("ok | {}", frames_str(v, n)), OpOut::Panic(v) => format!("panic | {}", frames_str(v, n)) };
    if name == "map" { obs.push_str(&format!(" | calls {}", frames_str(&log, n))); }
    if name == "zipmap" { obs.push_str(&format!(" | calls {}", frames_str(&log, 2 * n))); }
    st.case(&op, &obs, la > 0, 1);
}

/// lengths in the thousands that are not multiples of typical block sizes (and some that are)
const BIG: [usize; 7] = [1023, 1024, 1025, 2047, 2500, 4099, 10_000];

/// the in-place operations are generic over `F: Frame`: a frame type of the user's own (userframe.rs: padded, channels
/// stored in reverse order) must come out as the element-wise frame operation too (oracle only)
fn user_frame_ops(st: &mut Stream, rng: &mut Rng) {
    use userframe::Odd3;
    for la in 0..=5usize { for lb in [la, la + 1, la.saturating_sub(1)] {
        let av: Vec<[f32; 3]> = (0..la).map(|_| [rng.range(-64, 64) as f32 / 8.0, rng.range(-64, 64) as f32 / 8.0, rng.range(-64, 64) as f32 / 8.0]).collect();
        let bv: Vec<[f32; 3]> = (0..lb).map(|_| [rng.range(-64, 64) as f32 / 8.0, rng.range(-64, 64) as f32 / 8.0, rng.range(-64, 64) as f32 / 8.0]).collect();
        let gain = [0.5f32, -0.25, 2.0];
        for name in ["equilibrium", "map", "zipmap", "write", "add", "addamp", "add_onto_array"] {
            let mut a: Vec<Odd3> = av.iter().map(|c| Odd3::new(*c)).collect();
            let b: Vec<Odd3> = bv.iter().map(|c| Odd3::new(*c)).collect();
            let mut arr = av.clone();
            let case = format!("user frame Odd3 (3 x f32, padded, reversed): {} on a = {:?}, b = {:?}", name, av, bv);
            mark(0, &case);
            let two = !matches!(name, "equilibrium" | "map");
            let r = guarded(|| match name {
                "equilibrium" => dasp_slice::equilibrium(&mut a[..]),
                "map" => dasp_slice::map_in_place(&mut a[..], |f| Odd3::new([f.get()[0] * 2.0 + 1.0, f.get()[1], -f.get()[2]])),
                "zipmap" => dasp_slice::zip_map_in_place(&mut a[..], &b[..], |x, y: Odd3| Odd3::new([x.get()[0] * 3.0 + y.get()[0], y.get()[1], x.get()[2]])),
                "write" => dasp_slice::write(&mut a[..], &b[..]),
                "add" => dasp_slice::add_in_place(&mut a[..], &b[..]),
                "addamp" => dasp_slice::add_in_place_with_amp_per_channel(&mut a[..], &b[..], Odd3::new(gain)),
                _ => dasp_slice::add_in_place(&mut arr[..], &b[..]),
            });
            let got: Vec<[f32; 3]> = if name == "add_onto_array" { arr.clone() } else { a.iter().map(|f| f.get()).collect() };
            let want: Option<Vec<[f32; 3]>> = if two && la != lb { None } else { Some((0..la).map(|i| { let (x, y) = (av[i], if two { bv[i] } else { [0.0; 3] }); match name {
                "equilibrium" => [0.0; 3], "map" => [x[0] * 2.0 + 1.0, x[1], -x[2]], "zipmap" => [x[0] * 3.0 + y[0], y[1], x[2]], "write" => y,
                "addamp" => [x[0] + y[0] * gain[0], x[1] + y[1] * gain[1], x[2] + y[2] * gain[2]], _ => [x[0] + y[0], x[1] + y[1], x[2] + y[2]] } }).collect()) };
            let pads = a.iter().all(|f| f.pad_intact());
            match (&want, r.is_some()) {
                (Some(w), true) if *w == got && pads => st.oracle_ok(la as u64 + 1),
                (None, false) if got == av => st.oracle_ok(1),
                _ => st.oracle_fail("in-place slice operation on a user-defined frame type differs from the element-wise frame operation (or a length mismatch was not refused before modifying anything)", &case, &format!("{:?}", want), &format!("{} {:?} padding intact: {}", if r.is_some() { "returned" } else { "panicked" }, got, pads)),
            }
            st.count("user_frame_type_ops");
        }
    } }
}

/// `zip_map_in_place` takes two DIFFERENT frame types: the only requirement on them is the same number of FRAMES.
/// Every pair of lengths 0..=6 for (stereo, mono), ([i16; 4], [i16; 3]), ([f64; 6], f64) and the reverse directions:
/// equal frame counts -> element-wise result, unequal -> panic with `a` untouched (sample counts are irrelevant).
fn mixed_layout_zip_map(st: &mut Stream, rng: &mut Rng) {
    macro_rules! pair { ($name:expr, $FA:ty, $FB:ty, $mka:expr, $mkb:expr, $f:expr) => {
        for la in 0..=6usize { for lb in 0..=6usize {
            let a0: Vec<$FA> = (0..la).map(|i| ($mka)(rng.range(-50, 50), i)).collect();
            let b: Vec<$FB> = (0..lb).map(|i| ($mkb)(rng.range(-50, 50), i)).collect();
            let mut a = a0.clone();
            let case = format!("zip_map_in_place with frame types {}: a = {:?}, b = {:?}", $name, a0, b);
            mark(0, &case);
            let r = guarded(|| dasp_slice::zip_map_in_place(&mut a[..], &b[..], $f));
            let want: Option<Vec<$FA>> = if la == lb { Some(a0.iter().zip(b.iter()).map(|(x, y)| ($f)(*x, *y)).collect()) } else { None };
            match (&want, r.is_some()) {
                (Some(w), true) if *w == a => st.oracle_ok(la as u64 + 1),
                (None, false) if a == a0 => st.oracle_ok(1),
                _ => st.oracle_fail("zip_map_in_place over two different frame types: equal FRAME counts must give the element-wise result, unequal ones must be refused by panicking before modifying anything", &case, &format!("{:?}", want), &format!("{} {:?}", if r.is_some() { "returned" } else { "panicked" }, a)),
            }
            st.count("zip_map_mixed_frame_types");
        } }
    } }
    pair!("([i16; 2], i16)", [i16; 2], i16, |v: i64, i: usize| [v as i16, i as i16], |v: i64, _i: usize| v as i16, |x: [i16; 2], y: i16| [x[0] + y, x[1] - y]);
    pair!("(i16, [i16; 2])", i16, [i16; 2], |v: i64, _i: usize| v as i16, |v: i64, i: usize| [v as i16, i as i16], |x: i16, y: [i16; 2]| x + y[0] - y[1]);
    pair!("([i16; 4], [i16; 3])", [i16; 4], [i16; 3], |v: i64, i: usize| [v as i16, i as i16, 1, 2], |v: i64, i: usize| [v as i16, 3, i as i16], |x: [i16; 4], y: [i16; 3]| [x[0] + y[0], x[1] + y[1], x[2] + y[2], x[3]]);
    pair!("([i16; 3], [i16; 4])", [i16; 3], [i16; 4], |v: i64, i: usize| [v as i16, 3, i as i16], |v: i64, i: usize| [v as i16, i as i16, 1, 2], |x: [i16; 3], y: [i16; 4]| [x[0] + y[3], x[1] + y[0], x[2]]);
    pair!("([f64; 6], f64)", [f64; 6], f64, |v: i64, i: usize| [v as f64, i as f64, 0.5, 1.0, 2.0, 4.0], |v: i64, _i: usize| v as f64 / 4.0, |x: [f64; 6], y: f64| [x[0] * y, x[1] + y, x[2], x[3], x[4], x[5] - y]);
    pair!("(f64, [f64; 6])", f64, [f64; 6], |v: i64, _i: usize| v as f64 / 4.0, |v: i64, i: usize| [v as f64, i as f64, 0.5, 1.0, 2.0, 4.0], |x: f64, y: [f64; 6]| x + y[0] + y[5]);
}

/// The ADDRESS of the caller's storage is not part of the contract: destination and source slices that start 1, 2, 3
/// frames into a larger allocation (so that they sit at every alignment the frame type allows), lengths around 64, 128
/// and 200 frames — every in-place operation against the element-wise result; the frames in front of the sub-slice
/// must stay untouched (oracle only)
fn fadd<F: Frame>(x: F, y: F) -> F { Frame::add_amp(x, Frame::to_signed_frame(y)) }
fn fgain<F: Frame>(y: F, g: F::Float) -> F { Frame::mul_amp(y, g) }
fn offset_slices(st: &mut Stream, rng: &mut Rng) {
    macro_rules! ty { ($name:expr, $F:ty, $mk:expr, $gain:expr) => {
        for off_a in 0..4usize { for off_b in [0usize, 1, 3] { for len in [63usize, 64, 65, 67, 128, 130, 201] {
            let av: Vec<$F> = (0..len + off_a).map(|i| ($mk)(rng.range(-40, 40), i)).collect();
            let bv: Vec<$F> = (0..len + off_b).map(|i| ($mk)(rng.range(-8, 8), i)).collect();
            for name in ["equilibrium", "map", "zipmap", "write", "add", "addamp"] {
                let mut a = av.clone();
                let case = format!("{} frames of {} at offset {} of their allocation (source at offset {}): {}", len, $name, off_a, off_b, name);
                mark(0, &case);
                let r = guarded(|| { let (d, s_) = (&mut a[off_a..], &bv[off_b..]); match name {
                    "equilibrium" => dasp_slice::equilibrium(d),
                    "map" => dasp_slice::map_in_place(d, |f: $F| fadd(f, ($mk)(1, 0))),
                    "zipmap" => dasp_slice::zip_map_in_place(d, s_, |x: $F, y: $F| fadd(fadd(x, y), y)),
                    "write" => dasp_slice::write(d, s_),
                    "add" => dasp_slice::add_in_place(d, s_),
                    _ => dasp_slice::add_in_place_with_amp_per_channel(d, s_, $gain),
                } });
                let want: Vec<$F> = (0..len).map(|i| { let (x, y) = (av[off_a + i], bv[off_b + i]); match name {
                    "equilibrium" => <$F as Frame>::EQUILIBRIUM, "map" => fadd(x, ($mk)(1, 0)), "zipmap" => fadd(fadd(x, y), y),
                    "write" => y, "add" => fadd(x, y), _ => fadd(x, fgain(y, $gain)) } }).collect();
                st.count("in_place_ops_on_offset_sub_slices");
                if r.is_some() && a[off_a..] == want[..] && a[..off_a] == av[..off_a] { st.oracle_ok(len as u64); }
                else { let k = (0..len).find(|&i| a[off_a + i] != want[i]);
                    st.oracle_fail("in-place slice operation on a sub-slice that starts inside a larger allocation differs from the element-wise frame operation", &case, &format!("first difference expected at none"), &format!("{} first differing frame {:?}: got {:?}, expected {:?}", if r.is_some() { "returned" } else { "panicked" }, k, k.map(|i| a[off_a + i]), k.map(|i| want[i]))); }
            }
        } } }
    } }
    ty!("i16 (mono)", i16, |v: i64, _i: usize| v as i16, 2.0f32);
    ty!("[f32; 2]", [f32; 2], |v: i64, i: usize| [v as f32 / 8.0, (i % 7) as f32 / 4.0], [0.5f32, 2.0]);
    ty!("[i32; 3]", [i32; 3], |v: i64, i: usize| [v as i32 * 1000, (i % 16) as i32 - 8, 7], [1.0f32, 0.0, 2.0]);
    ty!("[i64; 1]", [i64; 1], |v: i64, i: usize| [v * 1_000_003 + i as i64], [1.0f64]);
}

fn run_ops(a: &Args) {
    let mut st = Stream::new(&a.out, "ops");
    let mut rng = Rng::new(a.seed, "ops");
    user_frame_ops(&mut st, &mut rng);
    mixed_layout_zip_map(&mut st, &mut rng);
    offset_slices(&mut st, &mut rng);
    let ns: Vec<usize> = if a.thorough() { (1..=32).collect() } else { vec![1, 2, 3, 4, 8, 32] };
    const OPS: [&str; 6] = ["equilibrium", "map", "zipmap", "write", "add", "addamp"];
    for fmt in FMTS { for &n in ns.iter() { for name in OPS {
        let two = name != "equilibrium" && name != "map";
        for la in 0..=6usize { for lb in 0..=(if two { 6usize } else { 0 }) { for _rep in 0..(if la == lb || !two { 4 } else { 1 }) {
            ops_one(&mut st, &mut rng, name, fmt, n, la, lb, true);
        } } }
    } } }
    // ---- large slices: every operation (the closures / frame operations used are NOT idempotent:
    // 2x+1, 3x+y, x+y, x+y*amp) at lengths in the thousands, compared element-wise with the per-element
    // frame operation; natively for every format and N in {1,2,4}, through the model for seeded picks
    let mut lens: Vec<usize> = BIG.to_vec();
    for _ in 0..(if a.thorough() { 6 } else { 1 }) { lens.push(rng.range(1026, 20_000) as usize); }
    // lengths beyond 2^16 and 2^17 (a length or index narrowed to 16 bits somewhere would show): native oracle only
    lens.push(65_537);
    for name in OPS {
        let two = name != "equilibrium" && name != "map";
        for &len in lens.iter() {
            for fmt in FMTS { if len > 20_000 && !matches!(fmt, "i16" | "f32" | "u8" | "i64") { continue; } for n in [1usize, 2, 4] { ops_one(&mut st, &mut rng, name, fmt, n, len, if two { len } else { 0 }, false); } }
            // through the model: quick up to 4099 frames (the list model is quadratic), thorough all
            if len <= 4099 || a.thorough() {
                for _ in 0..(if a.thorough() { 2 } else { 1 }) {
                    let (fmt, n) = (*rng.pick(&FMTS), *rng.pick(&[1usize, 2, 3]));
                    ops_one(&mut st, &mut rng, name, fmt, n, len, if two { len } else { 0 }, true);
                }
            }
        }
        // large length mismatches: panic, destination untouched
        if two {
            for (la, lb) in [(1025usize, 1024usize), (2500, 2499), (1024, 4099)] {
                let fmt = *rng.pick(&FMTS);
                ops_one(&mut st, &mut rng, name, fmt, 2, la, lb, la.max(lb) <= 2500);
            }
        }
    }
    st.exhaustive = false;
    st.note("all length pairs 0..=6 x 0..=6 for the two-slice operations, lengths 0..=6 for the one-slice ones; N in {1,2,3,4,8,32} (quick) or 1..=32 (thorough); plus large slices (1023, 1024, 1025, 2047, 2500, 4099, 10000 and seeded lengths up to 20000 frames) for every operation with non-idempotent closures / frame operations, natively for all formats x N in {1,2,4} and through the model for seeded picks; labels seeded random in a domain where the label arithmetic of the model (2x+1, 3x+y, x+y, x+y*amp) is exact in the format");
    st.finish();
}
