//! C03 — sample and frame amplitude arithmetic: streams `sample` (add_amp / mul_amp over the 14
//! formats) and `frame` (every Frame operation for N = 1..=32) with independent oracles.
#[path = "../util.rs"]
mod util;
#[path = "../iterproto.rs"]
mod iterproto;
use dasp_frame::Frame;
use dasp_sample::{Sample, I24, I48, U24, U48};
use util::*;

/// text codec for the 14 sample types: integers in decimal, floats as bit patterns
trait H: Sample + Copy + PartialEq + core::fmt::Debug {
    const NAME: &'static str;
    const BITS: u32;
    const IS_FLOAT: bool;
    fn dec(s: &str) -> Self;
    fn enc(self) -> String;
    fn lo() -> i128;
    fn hi() -> i128;
    fn as_i128(self) -> i128;
    fn from_i128(v: i128) -> Self;
    fn as_f64(self) -> f64;
}
macro_rules! h_prim { ($($t:ty, $n:expr, $b:expr);*) => { $(
    impl H for $t {
        const NAME: &'static str = $n; const BITS: u32 = $b; const IS_FLOAT: bool = false;
        fn dec(s: &str) -> Self { s.parse::<i128>().unwrap() as $t }
        fn enc(self) -> String { (self as i128).to_string() }
        fn lo() -> i128 { <$t>::MIN as i128 } fn hi() -> i128 { <$t>::MAX as i128 }
        fn as_i128(self) -> i128 { self as i128 } fn from_i128(v: i128) -> Self { v as $t }
        fn as_f64(self) -> f64 { self as f64 }
    } )* } }
h_prim!(i8, "i8", 8; i16, "i16", 16; i32, "i32", 32; i64, "i64", 64; u8, "u8", 8; u16, "u16", 16; u32, "u32", 32; u64, "u64", 64);
macro_rules! h_custom { ($($t:ident, $n:expr, $b:expr, $rep:ty, $lo:expr, $hi:expr);*) => { $(
    impl H for $t {
        const NAME: &'static str = $n; const BITS: u32 = $b; const IS_FLOAT: bool = false;
        fn dec(s: &str) -> Self { $t::new_unchecked(s.parse::<i128>().unwrap() as $rep) }
        fn enc(self) -> String { (self.inner() as i128).to_string() }
        fn lo() -> i128 { $lo } fn hi() -> i128 { $hi }
        fn as_i128(self) -> i128 { self.inner() as i128 } fn from_i128(v: i128) -> Self { $t::new_unchecked(v as $rep) }
        fn as_f64(self) -> f64 { self.inner() as f64 }
    } )* } }
h_custom!(I24, "i24", 24, i32, -(1 << 23), (1 << 23) - 1; U24, "u24", 24, i32, 0, (1 << 24) - 1;
          I48, "i48", 48, i64, -(1i128 << 47), (1i128 << 47) - 1; U48, "u48", 48, i64, 0, (1i128 << 48) - 1);
impl H for f32 {
    const NAME: &'static str = "f32"; const BITS: u32 = 32; const IS_FLOAT: bool = true;
    fn dec(s: &str) -> Self { f32::from_bits(s.parse::<u64>().unwrap() as u32) }
    fn enc(self) -> String { (if self.is_nan() { 0x7fc0_0000 } else { self.to_bits() }).to_string() }
    fn lo() -> i128 { 0 } fn hi() -> i128 { 0 } fn as_i128(self) -> i128 { 0 } fn from_i128(_: i128) -> Self { 0.0 }
    fn as_f64(self) -> f64 { self as f64 }
}
impl H for f64 {
    const NAME: &'static str = "f64"; const BITS: u32 = 64; const IS_FLOAT: bool = true;
    fn dec(s: &str) -> Self { f64::from_bits(s.parse::<u64>().unwrap()) }
    fn enc(self) -> String { (if self.is_nan() { 0x7ff8_0000_0000_0000 } else { self.to_bits() }).to_string() }
    fn lo() -> i128 { 0 } fn hi() -> i128 { 0 } fn as_i128(self) -> i128 { 0 } fn from_i128(_: i128) -> Self { 0.0 }
    fn as_f64(self) -> f64 { self }
}

fn off<T: H>() -> i128 { if T::lo() < 0 || T::IS_FLOAT { 0 } else { 1i128 << (T::BITS - 1) } }
fn prec_of_float<F: H>() -> u32 { if F::BITS == 32 { 24 } else { 53 } }

fn gen_value<T: H>(rng: &mut Rng) -> T {
    if T::IS_FLOAT {
        // dyadic and random values in [-1, 1)
        let x = match rng.below(6) {
            0 => 0.0, 1 => -0.0, 2 => 0.5, 3 => -1.0,
            4 => (rng.range(-1024, 1023) as f64) / 1024.0,
            _ => rng.f64_unit() * 2.0 - 1.0,
        };
        if T::BITS == 32 { T::dec(&((x as f32).to_bits() as u64).to_string()) } else { T::dec(&x.to_bits().to_string()) }
    } else {
        let (l, h) = (T::lo(), T::hi());
        let v = match rng.below(8) {
            0 => l, 1 => h, 2 => off::<T>(), 3 => off::<T>() + rng.range(-3, 3) as i128,
            4 => { let k = rng.below(T::BITS as u64) as u32; off::<T>() + (if rng.chance(1, 2) { 1 } else { -1 }) * ((1i128 << k) + rng.range(-2, 2) as i128) }
            _ => rng.range_i128(l, h),
        };
        T::from_i128(v.clamp(l, h))
    }
}
fn gen_float_amp<F: H>(rng: &mut Rng) -> F {
    let x: f64 = match rng.below(9) { 0 => 0.0, 1 => -0.0, 2 => 1.0, 3 => 0.5, 4 => -0.5, 5 => 0.25, 6 => (rng.range(-256, 256) as f64) / 256.0, 7 => -1.0, _ => rng.f64_unit() * 2.0 - 1.0 };
    if F::BITS == 32 { F::dec(&((x as f32).to_bits() as u64).to_string()) } else { F::dec(&x.to_bits().to_string()) }
}
/// an offset (value of the Signed format) for which the mathematical result stays in range
fn gen_offset<T: H>(v: T, rng: &mut Rng) -> T::Signed where T::Signed: H {
    if T::IS_FLOAT { return gen_value::<T::Signed>(rng); }
    let sv: T::Signed = v.to_signed_sample();
    let (l, h) = (<T::Signed as H>::lo(), <T::Signed as H>::hi());
    let x = sv.as_i128();
    let a = match rng.below(6) { 0 => 0, 1 => l - x, 2 => h - x, 3 => rng.range(-3, 3) as i128, _ => rng.range_i128(l - x, h - x) };
    let a = a.clamp(l - x, h - x).clamp(l, h);
    <T::Signed as H>::from_i128(a)
}

fn sample_stream<T: H>(st: &mut Stream, rng: &mut Rng, n: usize)
where T::Signed: H + core::ops::Add<Output = T::Signed>, T::Float: H + core::ops::Mul<Output = T::Float>,
{
    let exhaustive8 = T::BITS == 8 && !T::IS_FLOAT;
    // ---- add_amp
    let mut cases: Vec<(T, T::Signed)> = vec![];
    if exhaustive8 {
        for v in T::lo()..=T::hi() { let tv = T::from_i128(v); let sv: T::Signed = tv.to_signed_sample();
            for a in -128i128..=127 { let s = sv.as_i128() + a; if s >= -128 && s <= 127 { cases.push((tv, <T::Signed as H>::from_i128(a))); } } }
        st.count("addamp_exhaustive_8bit_formats");
    } else {
        for _ in 0..n { let v = gen_value::<T>(rng); let a = gen_offset::<T>(v, rng); cases.push((v, a)); }
    }
    for chunk in cases.chunks(128) {
        let mut op = format!("addamp {}", T::NAME); let mut obs = String::new();
        for (i, &(v, a)) in chunk.iter().enumerate() {
            op.push_str(&format!(" {} {}", v.enc(), a.enc()));
            let r = guarded(|| v.add_amp(a));
            if i > 0 { obs.push(' '); }
            obs.push_str(&r.map(|x| x.enc()).unwrap_or("panic".into()));
            // oracles from the property text
            match r {
                None => st.oracle_fail("add_amp panicked although the mathematical result is in range", &format!("addamp {} {} {}", T::NAME, v.enc(), a.enc()), "a value", "panic"),
                Some(x) => {
                    if !T::IS_FLOAT {
                        let k = <T::Signed as H>::BITS - T::BITS;
                        let want = v.as_i128() + a.as_i128().div_euclid(1i128 << k);
                        if x.as_i128() != want { st.oracle_fail("add_amp is not native addition on the signed amplitude", &format!("addamp {} {} {}", T::NAME, v.enc(), a.enc()), &want.to_string(), &x.enc()); } else { st.oracle_ok(1); }
                    } else {
                        let want = v.as_f64() + a.as_f64();
                        let want = if T::BITS == 32 { (want as f32) as f64 } else { want };
                        if !(x.as_f64() == want) { st.oracle_fail("float add_amp is not native addition", &format!("addamp {} {} {}", T::NAME, v.enc(), a.enc()), &want.to_string(), &x.as_f64().to_string()); } else { st.oracle_ok(1); }
                    }
                }
            }
        }
        st.case(&op, &obs, true, chunk.len() as u64);
    }
    // add_amp(0) identity on many values
    for _ in 0..n.max(200) {
        let v = gen_value::<T>(rng);
        let zero: T::Signed = if T::IS_FLOAT { <T::Signed as H>::dec("0") } else { <T::Signed as H>::from_i128(0) };
        let r = guarded(|| v.add_amp(zero));
        let ok = match r { Some(x) => if T::IS_FLOAT { x.as_f64() == v.as_f64() } else { x == v }, None => false };
        if !ok { st.oracle_fail("add_amp(0) does not return the sample unchanged", &format!("addamp {} {} 0", T::NAME, v.enc()), &v.enc(), &format!("{:?}", r)); } else { st.oracle_ok(1); }
    }
    // ---- mul_amp
    let mut mcases: Vec<(T, T::Float)> = vec![];
    if exhaustive8 {
        for v in T::lo()..=T::hi() { for _ in 0..6 { mcases.push((T::from_i128(v), gen_float_amp::<T::Float>(rng))); }
            for bits in ["0", "1065353216", "2147483648"] { mcases.push((T::from_i128(v), <T::Float as H>::dec(bits))); } }
    } else { for _ in 0..n { mcases.push((gen_value::<T>(rng), gen_float_amp::<T::Float>(rng))); } }
    let fprec = prec_of_float::<T::Float>();
    for chunk in mcases.chunks(128) {
        let mut op = format!("mulamp {}", T::NAME); let mut obs = String::new();
        for (i, &(v, a)) in chunk.iter().enumerate() {
            op.push_str(&format!(" {} {}", v.enc(), a.enc()));
            let r = guarded(|| v.mul_amp(a));
            if i > 0 { obs.push(' '); }
            obs.push_str(&r.map(|x| x.enc()).unwrap_or("panic".into()));
            let af = a.as_f64();
            let case = format!("mulamp {} {} {}", T::NAME, v.enc(), a.enc());
            match r {
                None => { if af.abs() < 1.0 { st.oracle_fail("mul_amp panicked for |gain| < 1", &case, "a value", "panic"); } }
                Some(x) => {
                    if af == 0.0 {
                        let eq = <T as Sample>::EQUILIBRIUM;
                        let ok = if T::IS_FLOAT { x.as_f64() == 0.0 } else { x == eq };
                        if !ok { st.oracle_fail("mul_amp(0.0) is not EQUILIBRIUM", &case, &eq.enc(), &x.enc()); } else { st.oracle_ok(1); }
                    } else if af == 1.0 {
                        if T::IS_FLOAT || T::BITS <= fprec {
                            let ok = if T::IS_FLOAT { x.as_f64() == v.as_f64() } else { x == v };
                            if !ok { st.oracle_fail("mul_amp(1.0) does not return the same sample (format fits the mantissa)", &case, &v.enc(), &x.enc()); } else { st.oracle_ok(1); }
                        } else {
                            let tol = 1i128 << (T::BITS - fprec);
                            if (x.as_i128() - v.as_i128()).abs() > tol { st.oracle_fail("mul_amp(1.0) deviates by more than the float precision", &case, &format!("{} +- {}", v.enc(), tol), &x.enc()); } else { st.oracle_ok(1); }
                        }
                    } else if !T::IS_FLOAT && af.abs() <= 1.0 {
                        // loose independent bound: |result amplitude - exact product| <= 1 + |product| * 2^(1 - prec) (+1 for the top-value saturation)
                        let amp = (v.as_i128() - off::<T>()) as f64;
                        let exact = amp * af;
                        let got = (x.as_i128() - off::<T>()) as f64;
                        let tol = 2.0 + exact.abs() * (2.0f64).powi(2 - fprec as i32) + amp.abs() * (2.0f64).powi(1 - fprec as i32);
                        if (got - exact).abs() > tol { st.oracle_fail("mul_amp is not (signed amplitude x gain) within float precision", &case, &exact.to_string(), &got.to_string()); } else { st.oracle_ok(1); }
                        // exact oracle where the format fits its float companion's mantissa: the normalised-float conversion
                        // is exact, the product is ONE float multiplication, and converting back truncates toward equilibrium
                        if T::BITS <= fprec {
                            let scale = (2.0f64).powi(T::BITS as i32 - 1);
                            let xf = amp / scale;
                            let p = if fprec == 24 { ((xf * af) as f32) as f64 } else { xf * af };   // f32 operands: the f64 product is exact, one rounding
                            if p.abs() < 1.0 {
                                let want = (p * scale).trunc() as i128 + off::<T>();
                                if x.as_i128() != want { st.oracle_fail("mul_amp is not the product of the normalised-float conversion and the gain converted back (truncated toward equilibrium)", &case, &want.to_string(), &x.as_i128().to_string()); } else { st.oracle_ok(1); st.count("mul_amp exact oracle"); }
                            }
                        }
                    }
                }
            }
        }
        st.case(&op, &obs, true, chunk.len() as u64);
    }
    st.count(&format!("format_{}", T::NAME));
}

// ---------------------------------------------------------------------------------------------
// frames

fn frame_ops<T: H, const N: usize>(st: &mut Stream, rng: &mut Rng, reps: usize)
where T::Signed: H, T::Float: H, [T; N]: Frame<Sample = T, Signed = [T::Signed; N], Float = [T::Float; N]>,
      [T::Signed; N]: Frame<Sample = T::Signed, NumChannels = <[T; N] as Frame>::NumChannels>,
      [T::Float; N]: Frame<Sample = T::Float, NumChannels = <[T; N] as Frame>::NumChannels>,
{
    let name = T::NAME;
    let encf = |fr: &[T; N]| fr.iter().map(|s| s.enc()).collect::<Vec<_>>().join(" ");
    for _ in 0..reps {
        let fr: [T; N] = core::array::from_fn(|_| gen_value::<T>(rng));
        let frs = encf(&fr);
        // offset_amp: per-channel add_amp with one offset valid for every channel (use 0 / small offsets)
        let a: T::Signed = if T::IS_FLOAT { gen_value::<T::Signed>(rng) } else { <T::Signed as H>::from_i128(0) };
        let a = if !T::IS_FLOAT && rng.chance(1, 2) {
            // an offset that keeps every channel in range: shrink towards zero
            let mut lo = <T::Signed as H>::lo(); let mut hi = <T::Signed as H>::hi();
            for s in fr.iter() { let x: T::Signed = s.to_signed_sample(); lo = lo.max(<T::Signed as H>::lo() - x.as_i128()); hi = hi.min(<T::Signed as H>::hi() - x.as_i128()); }
            <T::Signed as H>::from_i128(rng.range_i128(lo.max(<T::Signed as H>::lo()), hi.min(<T::Signed as H>::hi())))
        } else { a };
        let r = guarded(|| fr.offset_amp(a));
        let want: Option<[T; N]> = guarded(|| core::array::from_fn(|i| fr[i].add_amp(a)));
        st.case(&format!("fr offset {} {} {} {}", name, N, a.enc(), frs), &r.map(|x| encf(&x)).unwrap_or("panic".into()), true, N as u64);
        if r != want { st.oracle_fail("offset_amp is not per-channel add_amp", &format!("fr offset {} {} {} {}", name, N, a.enc(), frs), &format!("{:?}", want), &format!("{:?}", r)); } else { st.oracle_ok(1); }
        // scale_amp
        let g = gen_float_amp::<T::Float>(rng);
        let r = guarded(|| fr.scale_amp(g));
        let want: Option<[T; N]> = guarded(|| core::array::from_fn(|i| fr[i].mul_amp(g)));
        st.case(&format!("fr scale {} {} {} {}", name, N, g.enc(), frs), &r.map(|x| encf(&x)).unwrap_or("panic".into()), true, N as u64);
        if r != want { st.oracle_fail("scale_amp is not per-channel mul_amp", &format!("fr scale {} {} {} {}", name, N, g.enc(), frs), &format!("{:?}", want), &format!("{:?}", r)); } else { st.oracle_ok(1); }
        // add_amp with a signed frame (per-channel valid offsets)
        let other: [T::Signed; N] = core::array::from_fn(|i| gen_offset::<T>(fr[i], rng));
        let os = other.iter().map(|s| s.enc()).collect::<Vec<_>>().join(" ");
        let r = guarded(|| fr.add_amp(other));
        let want: Option<[T; N]> = guarded(|| core::array::from_fn(|i| fr[i].add_amp(other[i])));
        st.case(&format!("fr add {} {} {} {}", name, N, frs, os), &r.map(|x| encf(&x)).unwrap_or("panic".into()), true, N as u64);
        if r != want { st.oracle_fail("frame add_amp is not per-channel add_amp", &format!("fr add {} {} {} {}", name, N, frs, os), &format!("{:?}", want), &format!("{:?}", r)); } else { st.oracle_ok(1); }
        // mul_amp with a float frame
        let gains: [T::Float; N] = core::array::from_fn(|_| gen_float_amp::<T::Float>(rng));
        let gs = gains.iter().map(|s| s.enc()).collect::<Vec<_>>().join(" ");
        let r = guarded(|| fr.mul_amp(gains));
        let want: Option<[T; N]> = guarded(|| core::array::from_fn(|i| fr[i].mul_amp(gains[i])));
        st.case(&format!("fr mul {} {} {} {}", name, N, frs, gs), &r.map(|x| encf(&x)).unwrap_or("panic".into()), true, N as u64);
        if r != want { st.oracle_fail("frame mul_amp is not per-channel mul_amp", &format!("fr mul {} {} {} {}", name, N, frs, gs), &format!("{:?}", want), &format!("{:?}", r)); } else { st.oracle_ok(1); }
        // to_signed_frame / to_float_frame
        let r = fr.to_signed_frame();
        let want: [T::Signed; N] = core::array::from_fn(|i| fr[i].to_signed_sample());
        st.case(&format!("fr signed {} {} {}", name, N, frs), &r.iter().map(|s| s.enc()).collect::<Vec<_>>().join(" "), true, N as u64);
        if r != want { st.oracle_fail("to_signed_frame is not per-channel to_signed_sample", &format!("fr signed {} {} {}", name, N, frs), "", ""); } else { st.oracle_ok(1); }
        let r = fr.to_float_frame();
        let want: [T::Float; N] = core::array::from_fn(|i| fr[i].to_float_sample());
        st.case(&format!("fr float {} {} {}", name, N, frs), &r.iter().map(|s| s.enc()).collect::<Vec<_>>().join(" "), true, N as u64);
        if r != want { st.oracle_fail("to_float_frame is not per-channel to_float_sample", &format!("fr float {} {} {}", name, N, frs), "", ""); } else { st.oracle_ok(1); }
        // channels / channel / indexing
        let ch: Vec<T> = fr.channels().collect();
        st.case(&format!("fr channels {} {} {}", name, N, frs), &ch.iter().map(|s| s.enc()).collect::<Vec<_>>().join(" "), true, N as u64);
        if ch.as_slice() != &fr[..] { st.oracle_fail("channels() is not the channels in order", &format!("fr channels {} {} {}", name, N, frs), "", ""); } else { st.oracle_ok(1); }
        let chr: Vec<T> = fr.channels_ref().map(|&s| s).collect();
        if chr.as_slice() != &fr[..] { st.oracle_fail("channels_ref() is not the channels in order", &frs, "", ""); }
        let mut fm = fr; let cm: Vec<T> = fm.channels_mut().map(|s| *s).collect();
        if cm.as_slice() != &fr[..] { st.oracle_fail("channels_mut() is not the channels in order", &frs, "", ""); }
        // closures may carry state (`FnMut`): from_fn / map / zip_map are "the per-channel application … in channel
        // order" only if they call the closure exactly once per channel, channel 0 first
        {
            let mut calls: Vec<usize> = vec![];
            let f: [T; N] = Frame::from_fn(|i| { calls.push(i); fr[i] });
            if calls != (0..N).collect::<Vec<usize>>() || f != fr {
                st.oracle_fail("from_fn must call its closure once per channel in channel order", &frs, &format!("{:?}", (0..N).collect::<Vec<usize>>()), &format!("{:?}", calls));
            } else { st.oracle_ok(1); }
            let mut seen: Vec<T> = vec![];
            let m: [T; N] = fr.map(|s| { seen.push(s); s });
            if seen.as_slice() != &fr[..] || m != fr {
                st.oracle_fail("map must call its closure once per channel in channel order", &frs, &format!("{:?}", &fr[..]), &format!("{:?}", seen));
            } else { st.oracle_ok(1); }
            let other: [T; N] = core::array::from_fn(|i| fr[N - 1 - i]);
            let mut pairs: Vec<(T, T)> = vec![];
            let z: [T; N] = fr.zip_map(other, |a, b| { pairs.push((a, b)); b });
            let want: Vec<(T, T)> = (0..N).map(|i| (fr[i], other[i])).collect();
            if pairs != want || z != other {
                st.oracle_fail("zip_map must call its closure once per channel pair in channel order", &frs, &format!("{:?}", want), &format!("{:?}", pairs));
            } else { st.oracle_ok(1); }
        }
        // "channel iteration … in channel order", whichever way the iterators are consumed (nth, skip,
        // step_by, count, last, len, size_hint, and from the back where they are double-ended)
        {
            use iterproto::*;
            mark(0, &format!("frame {} x{}: {} — channels() / channels_ref() / channels_mut() driven by an iterator script", name, N, frs));
            let reference: Vec<T> = fr.iter().copied().collect();
            let s1 = gen_script(rng, N, Caps { double_ended: false, exact: false, finite: true });
            if let (Some((w, e, o)), _, _) = check(&reference, &s1, &run_fwd(fr.channels(), &s1), false, true) { st.oracle_fail(&format!("channels(): {}", w), &frs, &e, &o); } else { st.oracle_ok(s1.len() as u64); }
            let s2 = gen_script(rng, N, Caps { double_ended: true, exact: true, finite: true });
            if let (Some((w, e, o)), _, _) = check(&reference, &s2, &run_de_exact_map(fr.channels_ref(), &s2, |s| *s), true, true) { st.oracle_fail(&format!("channels_ref(): {}", w), &frs, &e, &o); } else { st.oracle_ok(s2.len() as u64); }
            let mut fm2 = fr;
            if let (Some((w, e, o)), _, _) = check(&reference, &s2, &run_de_exact_map(fm2.channels_mut(), &s2, |s| *s), true, true) { st.oracle_fail(&format!("channels_mut(): {}", w), &frs, &e, &o); } else { st.oracle_ok(s2.len() as u64); }
            st.count("iterator_protocol_scripts");
        }
        for i in [0usize, N / 2, N - 1, N, N + 3] {
            let c = fr.channel(i).copied();
            st.case(&format!("fr channel {} {} {} {}", name, N, i, frs), &c.map(|s| s.enc()).unwrap_or("none".into()), true, 1);
            let want = if i < N { Some(fr[i]) } else { None };
            if c != want { st.oracle_fail("channel(i) wrong", &format!("fr channel {} {} {} {}", name, N, i, frs), "", ""); } else { st.oracle_ok(1); }
            let mut f2 = fr; if f2.channel_mut(i).map(|s| *s) != want { st.oracle_fail("channel_mut(i) wrong", &frs, "", ""); }
        }
    }
    // EQUILIBRIUM
    let e = <[T; N] as Frame>::EQUILIBRIUM;
    st.case(&format!("fr eq {} {}", name, N), &encf(&e), N > 1, N as u64);
    if e.iter().any(|&s| s != T::EQUILIBRIUM) || <[T; N] as Frame>::CHANNELS != N { st.oracle_fail("Frame::EQUILIBRIUM is not N x Sample::EQUILIBRIUM", &format!("fr eq {} {}", name, N), "", ""); } else { st.oracle_ok(1); }
    st.count(&format!("frame_{}_n{}", name, N));
}

fn generic_frame_ops<const N: usize>(st: &mut Stream, rng: &mut Rng) {
    // from_fn: channel i = f(i), called for i = 0..N in order
    let mut order = vec![];
    let fr: [i64; N] = Frame::from_fn(|i| { order.push(i); 3 * i as i64 + 1 });
    st.case(&format!("fromfn {}", N), &fr.iter().map(|x| x.to_string()).collect::<Vec<_>>().join(" "), true, N as u64);
    if order != (0..N).collect::<Vec<_>>() || fr.iter().enumerate().any(|(i, &x)| x != 3 * i as i64 + 1) { st.oracle_fail("from_fn does not call f(0..N) in order", &format!("fromfn {}", N), "", ""); } else { st.oracle_ok(1); }
    // from_samples with iterators of every length 0..=N+2
    for len in 0..=N + 2 {
        let mut it = (1..=len as i64).into_iter();
        let r: Option<[i64; N]> = Frame::from_samples(&mut it);
        let rest = it.count();
        let obs = match r { Some(f) => format!("some {} rest {}", f.iter().map(|x| x.to_string()).collect::<Vec<_>>().join(" "), rest), None => format!("none rest {}", rest) };
        let obs = obs.replace("some  rest", "some rest");
        st.case(&format!("fromsamples {} {}", N, len), &obs, true, 1);
        let want_some = len >= N;
        let ok = match r { Some(f) => want_some && f.iter().enumerate().all(|(i, &x)| x == i as i64 + 1) && rest == len - N, None => !want_some && rest == 0 };
        if !ok { st.oracle_fail("from_samples: wrong frame / leftover", &format!("fromsamples {} {}", N, len), "", &obs); } else { st.oracle_ok(1); }
        // the same from iterators that say nothing useful about their length (`size_hint` is only a hint: `(0, None)` is the
        // trait's default answer, `(0, Some(usize::MAX))` and a too-small lower bound are legal too)
        {
            let mut k = 0i64;
            let mut it = std::iter::from_fn(|| { if (k as usize) < len { k += 1; Some(k) } else { None } });
            let r2: Option<[i64; N]> = Frame::from_samples(&mut it);
            let rest2 = it.count();
            struct Loose<I>(I, (usize, Option<usize>));
            impl<I: Iterator> Iterator for Loose<I> { type Item = I::Item; fn next(&mut self) -> Option<I::Item> { self.0.next() } fn size_hint(&self) -> (usize, Option<usize>) { self.1 } }
            let mut it3 = Loose((1..=len as i64).into_iter(), (0, Some(usize::MAX)));
            let r3: Option<[i64; N]> = Frame::from_samples(&mut it3);
            let rest3 = it3.count();
            let mut it4 = Loose((1..=len as i64).into_iter(), (len.min(1), None));
            let r4: Option<[i64; N]> = Frame::from_samples(&mut it4);
            let rest4 = it4.count();
            let mono: Option<i64> = if N == 1 { let mut k1 = 0i64; let mut itm = std::iter::from_fn(|| { if (k1 as usize) < len { k1 += 1; Some(k1) } else { None } }); <i64 as Frame>::from_samples(&mut itm) } else { None };
            if r2 != r || rest2 != rest || r3 != r || rest3 != rest || r4 != r || rest4 != rest || (N == 1 && mono != r.map(|f| f[0])) {
                st.oracle_fail("from_samples depends on the iterator's size_hint (from_fn / loose upper bound / loose lower bound / bare sample) instead of on the samples it yields", &format!("fromsamples {} {}", N, len), &format!("{:?} rest {}", r, rest), &format!("from_fn {:?} rest {}; (0,Some(MAX)) {:?} rest {}; (min(len,1),None) {:?} rest {}", r2, rest2, r3, rest3, r4, rest4));
            } else { st.oracle_ok(3); }
        }
    }
    // map / zip_map with closures (call order observed)
    for _ in 0..3 {
        let a: [i64; N] = core::array::from_fn(|_| rng.range(-1000, 1000));
        let b: [i64; N] = core::array::from_fn(|_| rng.range(-1000, 1000));
        let m: [i64; N] = a.map(|x| x * x - 1);
        let fm: [i64; N] = Frame::map(a, |x| x * x - 1);
        let z: [i64; N] = a.zip_map(b, |x, y| 2 * x + y);
        let (sa, sb) = (a.iter().map(|x| x.to_string()).collect::<Vec<_>>().join(" "), b.iter().map(|x| x.to_string()).collect::<Vec<_>>().join(" "));
        st.case(&format!("map {} {}", N, sa), &fm.iter().map(|x| x.to_string()).collect::<Vec<_>>().join(" "), true, N as u64);
        st.case(&format!("zipmap {} {} {}", N, sa, sb), &z.iter().map(|x| x.to_string()).collect::<Vec<_>>().join(" "), true, N as u64);
        if fm != m || (0..N).any(|i| z[i] != 2 * a[i] + b[i]) { st.oracle_fail("map/zip_map not per-channel", &format!("map {} {}", N, sa), "", ""); } else { st.oracle_ok(2); }
    }
}

macro_rules! for_all_n { ($f:ident, $t:ty, $st:expr, $rng:expr, $reps:expr) => {
    for_all_n!(@go $f, $t, $st, $rng, $reps; 1 2 3 4 5 6 7 8 9 10 11 12 13 14 15 16 17 18 19 20 21 22 23 24 25 26 27 28 29 30 31 32)
}; (@go $f:ident, $t:ty, $st:expr, $rng:expr, $reps:expr; $($n:literal)*) => { $( $f::<$t, $n>($st, $rng, $reps); )* } }
macro_rules! for_all_n_generic { ($st:expr, $rng:expr; $($n:literal)*) => { $( generic_frame_ops::<$n>($st, $rng); )* } }

/// the mono impls (`impl Frame for i16` etc.): a bare sample behaves as the 1-channel frame
fn mono_ops<T: H + Frame<Sample = T>>(st: &mut Stream, rng: &mut Rng)
where <T as Sample>::Signed: H, <T as Sample>::Float: H, [T; 1]: Frame<Sample = T>,
{
    for _ in 0..40 {
        let s: T = gen_value::<T>(rng);
        let g = gen_float_amp::<<T as Sample>::Float>(rng);
        let a = gen_offset::<T>(s, rng);
        let checks: Vec<(&str, bool)> = vec![
            ("scale_amp", guarded(|| Frame::scale_amp(s, g)) == guarded(|| Sample::mul_amp(s, g))),
            ("offset_amp", guarded(|| Frame::offset_amp(s, a)) == guarded(|| Sample::add_amp(s, a))),
            ("channels", Frame::channels(s).collect::<Vec<T>>() == vec![s]),
            ("channel0", Frame::channel(&s, 0) == Some(&s) && Frame::channel(&s, 1).is_none()),
            ("equilibrium", <T as Frame>::EQUILIBRIUM == <T as Sample>::EQUILIBRIUM && <T as Frame>::CHANNELS == 1),
            ("from_fn", <T as Frame>::from_fn(|_| s) == s),
            ("from_samples", <T as Frame>::from_samples(&mut vec![s].into_iter()) == Some(s) && <T as Frame>::from_samples(&mut Vec::<T>::new().into_iter()).is_none()),
            ("map", { let m: T = Frame::map(s, |x| x); m == s }),
            ("from_fn calls its closure exactly once, with channel 0", { let mut calls = vec![]; let f = <T as Frame>::from_fn(|i| { calls.push(i); s }); f == s && calls == vec![0usize] }),
            ("map calls its closure exactly once", { let mut k = 0; let m: T = Frame::map(s, |x| { k += 1; x }); m == s && k == 1 }),
            ("zip_map calls its closure exactly once", { let mut k = 0; let m: T = Frame::zip_map(s, s, |x, _y: T| { k += 1; x }); m == s && k == 1 }),
        ];
        for (nm, ok) in checks { if !ok { st.oracle_fail(&format!("mono frame {}: bare sample does not behave as the 1-channel frame", nm), &format!("{} {}", T::NAME, s.enc()), "", ""); } else { st.oracle_ok(1); } }
        // same through the model: the 1-channel array frame
        let fr = [s];
        let r = guarded(|| fr.scale_amp(g));
        st.case(&format!("fr scale {} 1 {} {}", T::NAME, g.enc(), s.enc()), &guarded(|| Frame::scale_amp(s, g)).map(|x| x.enc()).unwrap_or("panic".into()), true, 1);
        if r.map(|x| x[0]) != guarded(|| Frame::scale_amp(s, g)) { st.oracle_fail("mono scale_amp differs from [s;1].scale_amp", &format!("{} {}", T::NAME, s.enc()), "", ""); }
    }
    st.count(&format!("mono_{}", T::NAME));
}

fn main() {
    let a = Args::parse();
    match a.stream.as_str() {
        "sample" => {
            let mut st = Stream::new(&a.out, "sample");
            let mut rng = Rng::new(a.seed, "sample");
            let n = if a.thorough() { 60_000 } else { 4_000 };
            sample_stream::<i8>(&mut st, &mut rng, n); sample_stream::<i16>(&mut st, &mut rng, n); sample_stream::<I24>(&mut st, &mut rng, n);
            sample_stream::<i32>(&mut st, &mut rng, n); sample_stream::<I48>(&mut st, &mut rng, n); sample_stream::<i64>(&mut st, &mut rng, n);
            sample_stream::<u8>(&mut st, &mut rng, n); sample_stream::<u16>(&mut st, &mut rng, n); sample_stream::<U24>(&mut st, &mut rng, n);
            sample_stream::<u32>(&mut st, &mut rng, n); sample_stream::<U48>(&mut st, &mut rng, n); sample_stream::<u64>(&mut st, &mut rng, n);
            sample_stream::<f32>(&mut st, &mut rng, n); sample_stream::<f64>(&mut st, &mut rng, n);
            st.finish();
        }
        "frame" => {
            let mut st = Stream::new(&a.out, "frame");
            let mut rng = Rng::new(a.seed, "frame");
            let reps = if a.thorough() { 30 } else { 3 };
            for_all_n!(frame_ops, u8, &mut st, &mut rng, reps);
            for_all_n!(frame_ops, i16, &mut st, &mut rng, reps);
            for_all_n!(frame_ops, I24, &mut st, &mut rng, reps);
            for_all_n!(frame_ops, U48, &mut st, &mut rng, reps);
            for_all_n!(frame_ops, i64, &mut st, &mut rng, reps);
            for_all_n!(frame_ops, f32, &mut st, &mut rng, reps);
            for_all_n!(frame_ops, f64, &mut st, &mut rng, reps);
            for_all_n_generic!(&mut st, &mut rng; 1 2 3 4 5 6 7 8 9 10 11 12 13 14 15 16 17 18 19 20 21 22 23 24 25 26 27 28 29 30 31 32);
            mono_ops::<i8>(&mut st, &mut rng); mono_ops::<i16>(&mut st, &mut rng); mono_ops::<I24>(&mut st, &mut rng); mono_ops::<i32>(&mut st, &mut rng);
            mono_ops::<I48>(&mut st, &mut rng); mono_ops::<i64>(&mut st, &mut rng); mono_ops::<u8>(&mut st, &mut rng); mono_ops::<u16>(&mut st, &mut rng);
            mono_ops::<U24>(&mut st, &mut rng); mono_ops::<u32>(&mut st, &mut rng); mono_ops::<U48>(&mut st, &mut rng); mono_ops::<u64>(&mut st, &mut rng);
            mono_ops::<f32>(&mut st, &mut rng); mono_ops::<f64>(&mut st, &mut rng);
            st.finish();
        }
        s => { eprintln!("unknown stream {}", s); std::process::exit(2); }
    }
}
