//! C02 — float<->integer sample conversions: streams `i2f`, `f2i`, `f2f` + native oracles written in
//! exact integer arithmetic (independent of the Lean model).
#[path = "../util.rs"]
mod util;
#[allow(warnings)]
#[path = "../conv_table.rs"]
mod conv_table;
use conv_table::TABLE;
use util::*;

const INTS: [&str; 12] = ["i8", "i16", "i24", "i32", "i48", "i64", "u8", "u16", "u24", "u32", "u48", "u64"];
fn bits(f: &str) -> u32 { f[1..].parse().unwrap() }
fn signed(f: &str) -> bool { f.starts_with('i') }
fn lo(f: &str) -> i128 { if signed(f) { -(1i128 << (bits(f) - 1)) } else { 0 } }
fn hi(f: &str) -> i128 { if signed(f) { (1i128 << (bits(f) - 1)) - 1 } else { (1i128 << bits(f)) - 1 } }
fn off(f: &str) -> i128 { if signed(f) { 0 } else { 1i128 << (bits(f) - 1) } }

struct FF { prec: u32, emin: i32, emax: i32, width: u32 }
const F32: FF = FF { prec: 24, emin: -149, emax: 127, width: 32 };
const F64: FF = FF { prec: 53, emin: -1074, emax: 1023, width: 64 };
fn ff(name: &str) -> &'static FF { if name == "f32" { &F32 } else { &F64 } }

/// Round `(-1)^neg * m * 2^e` (m exact integer) to the format, nearest-even, return the bit pattern.
fn round_bits(f: &FF, neg: bool, m: u128, e: i32) -> u64 {
    let sign: u64 = if neg { 1u64 << (f.width - 1) } else { 0 };
    if m == 0 { return sign; }
    let blen = 128 - m.leading_zeros() as i32;           // m in [2^(blen-1), 2^blen)
    let top = blen - 1 + e;                                // floor(log2 value)
    let ge = (top - f.prec as i32 + 1).max(f.emin);        // grid exponent
    // q = m * 2^(e-ge), rounded to integer, nearest even
    let sh = ge - e;
    let mut q: u128 = if sh <= 0 { m << (-sh) as u32 } else if sh >= 128 { 0 } else { m >> sh as u32 };
    if sh > 0 {
        let (half, rem) = if sh > 128 { (1u128, 0u128) } else if sh == 128 { (1u128 << 127, m) } else { (1u128 << (sh - 1) as u32, m & ((1u128 << sh as u32) - 1)) };
        if sh <= 128 && (rem > half || (rem == half && (q & 1) == 1)) { q += 1; }
    }
    if q == 0 { return sign; }
    // q * 2^ge ; q may have become 2^prec
    let mant_bits = f.prec - 1;
    let mut ge = ge;
    if q >> f.prec != 0 { q >>= 1; ge += 1; }
    if q >> mant_bits == 0 {
        // subnormal (ge == emin)
        return sign | q as u64;
    }
    let exp = ge + mant_bits as i32;                       // unbiased exponent
    if exp > f.emax { return sign | (((2 * f.emax + 1) as u64) << mant_bits); } // inf
    sign | (((exp + f.emax) as u64) << mant_bits) | (q as u64 & ((1u64 << mant_bits) - 1))
}

/// decode a finite bit pattern into (neg, m, e) with value = (-1)^neg m 2^e; None for inf/nan
fn decode(f: &FF, b: u64) -> Option<(bool, u128, i32)> {
    let mant_bits = f.prec - 1;
    let neg = (b >> (f.width - 1)) & 1 == 1;
    let ew = f.width - 1 - mant_bits;
    let e = ((b >> mant_bits) & ((1u64 << ew) - 1)) as i32;
    let m = (b & ((1u64 << mant_bits) - 1)) as u128;
    if e == 2 * f.emax + 1 { return None; }
    if e == 0 { Some((neg, m, f.emin)) } else { Some((neg, m + (1u128 << mant_bits), e - f.emax - mant_bits as i32)) }
}

fn find(s: &str, d: &str) -> &'static (&'static str, &'static str, conv_table::F, conv_table::F, conv_table::F, conv_table::F, conv_table::F) {
    TABLE.iter().find(|t| t.0 == s && t.1 == d).unwrap()
}
fn canon(fname: &str, b: i128) -> u64 {
    let b = b as u64;
    if fname == "f32" { if f32::from_bits(b as u32).is_nan() { 0x7fc0_0000 } else { b } }
    else { if f64::from_bits(b).is_nan() { 0x7ff8_0000_0000_0000 } else { b } }
}
fn fval(fname: &str, b: u64) -> f64 { if fname == "f32" { f32::from_bits(b as u32) as f64 } else { f64::from_bits(b) } }

fn boundary_values(f: &str) -> Vec<i128> {
    let (l, h, o) = (lo(f), hi(f), off(f));
    let mut v = vec![];
    let mut push = |x: i128| { if x >= l && x <= h { v.push(x); } };
    for d in -3..=3 { push(l + d); push(h + d); push(o + d); push(d); }
    for k in 0..bits(f) { for d in -3..=3 {
        push(o + (1i128 << k) + d); push(o - (1i128 << k) + d); push(h - (1i128 << k) + d); push(l + (1i128 << k) + d);
        // values whose amplitude sits at a rounding tie for 24/53-bit mantissas
        push(o + (1i128 << k) + (1i128 << k.saturating_sub(25)) + d); push(o + (1i128 << k) + (1i128 << k.saturating_sub(54)) + d);
        push(o - (1i128 << k) - (1i128 << k.saturating_sub(25)) + d); push(o - (1i128 << k) - (1i128 << k.saturating_sub(54)) + d);
        push(o + (3i128 << k.saturating_sub(1)) + (1i128 << k.saturating_sub(25)) + d);
    }}
    v.sort(); v.dedup(); v
}

fn run_i2f(a: &Args) {
    let mut st = Stream::new(&a.out, if NOSTD { "i2f_nostd" } else { "i2f" });
    let mut rng = Rng::new(a.seed, "i2f");
    let n_rand = if a.thorough() { 30_000 } else { 2_000 };
    let n_native: u64 = if a.thorough() { 2_000_000 } else { 50_000 };
    for &s in INTS.iter() { for &d in ["f32", "f64"].iter() {
        let t = find(s, d);
        let f = ff(d);
        let expect = |v: i128| -> u64 { let amp = v - off(s); round_bits(f, amp < 0, amp.unsigned_abs(), -(bits(s) as i32 - 1)) };
        let mut vals: Vec<i128> = vec![];
        if bits(s) <= 16 { vals.extend(lo(s)..=hi(s)); st.count("pairs_exhaustive"); }
        else {
            vals.extend(boundary_values(s));
            for _ in 0..n_rand {
                if rng.chance(1, 2) { vals.push(rng.range_i128(lo(s), hi(s))); }
                else { let k = rng.below(bits(s) as u64) as u32; let m = rng.range_i128(0, (1i128 << k) - 1 + (1i128 << k)); let x = off(s) + if rng.chance(1, 2) { m } else { -m }; vals.push(x.clamp(lo(s), hi(s))); }
            }
        }
        let mut check = |v: i128, st: &mut Stream| -> Option<u64> {
            let want = expect(v);
            let mut first = None;
            for (nm, fun) in [("conv fn", t.2), ("to_sample", t.3), ("from_sample", t.4)] {
                let r = guarded(|| fun(v)).map(|b| canon(d, b));
                if nm == "conv fn" { first = r; }
                if r != Some(want) {
                    st.oracle_fail(&format!("{} {}->{}: not the correctly rounded amplitude/2^(bits-1)", nm, s, d), &format!("i2f {} {} {}", s, d, v), &want.to_string(), &format!("{:?}", r));
                } else { st.oracle_ok(1); }
            }
            if let Some(b) = first {
                let x = fval(d, b);
                if !(x >= -1.0 && x <= 1.0) { st.oracle_fail("int->float result outside [-1,1]", &format!("i2f {} {} {}", s, d, v), "[-1,1]", &x.to_string()); }
                if v == off(s) && b != 0 { st.oracle_fail("equilibrium does not map to +0.0", &format!("i2f {} {} {}", s, d, v), "0", &b.to_string()); }
            }
            first
        };
        for chunk in vals.chunks(512) {
            let mut op = format!("i2f {} {}", s, d); let mut obs = String::new(); let mut nontrivial = false;
            for (i, &v) in chunk.iter().enumerate() {
                op.push(' '); op.push_str(&v.to_string());
                let r = check(v, &mut st);
                if i > 0 { obs.push(' '); }
                obs.push_str(&r.map(|b| b.to_string()).unwrap_or("panic".into()));
                if v != lo(s) && v != hi(s) && v != off(s) { nontrivial = true; }
            }
            st.case(&op, &obs, nontrivial, chunk.len() as u64);
        }
        if bits(s) > 16 {
            for _ in 0..n_native { let v = rng.range_i128(lo(s), hi(s)); check(v, &mut st); }
            st.count_n("native_oracle_values", n_native);
        }
        // order preserved on adjacent values
        for _ in 0..300 {
            let x = rng.range_i128(lo(s), hi(s) - 1);
            if let (Some(p), Some(q)) = (guarded(|| t.2(x)), guarded(|| t.2(x + 1))) {
                let (p, q) = (fval(d, p as u64), fval(d, q as u64));
                if !(p <= q) { st.oracle_fail("order not preserved", &format!("i2f {} {} {} {}", s, d, x, x + 1), "f(x)<=f(x+1)", &format!("{} {}", p, q)); } else { st.oracle_ok(1); }
            }
        }
        // exact inverse where the integer width fits the mantissa
        if bits(s) <= f.prec {
            let back = find(d, s);
            for _ in 0..300 {
                let v = rng.range_i128(lo(s), hi(s));
                let r = guarded(|| back.2(t.2(v)));
                if r != Some(v) { st.oracle_fail("float->int does not invert an exact int->float", &format!("{}->{}->{} {}", s, d, s, v), &v.to_string(), &format!("{:?}", r)); } else { st.oracle_ok(1); }
            }
        }
    }}
    st.finish();
}

/// stratified float patterns in [-1, 1): every exponent x mantissa boundaries, both signs, plus random
fn float_patterns(fname: &str, rng: &mut Rng, n_rand: usize) -> Vec<u64> {
    let f = ff(fname);
    let mant_bits = f.prec - 1;
    let one_exp = f.emax as u64; // biased exponent of 1.0
    let mut v: Vec<u64> = vec![];
    let mmax = (1u64 << mant_bits) - 1;
    let mants = |rng: &mut Rng| -> Vec<u64> {
        let mut m = vec![0, 1, 2, 3, mmax, mmax - 1, mmax - 2, 1u64 << (mant_bits - 1), (1u64 << (mant_bits - 1)) - 1, (1u64 << (mant_bits - 1)) + 1];
        for k in 0..mant_bits { m.push(1u64 << k); m.push(mmax ^ (1u64 << k)); }
        for _ in 0..4 { m.push(rng.below(mmax + 1)); }
        m
    };
    let exps: Vec<u64> = if fname == "f32" { (0..one_exp).collect() } else {
        let mut e: Vec<u64> = (one_exp - 80..one_exp).collect(); e.extend([0, 1, 2, 100, 500, 900]); e };
    for &e in exps.iter() { for m in mants(rng) { for sgn in [0u64, 1] {
        v.push((sgn << (f.width - 1)) | (e << mant_bits) | m);
    }}}
    v.push(1u64 << (f.width - 1) | (one_exp << mant_bits)); // -1.0
    v.push(0); v.push(1u64 << (f.width - 1));                 // +0, -0
    for _ in 0..n_rand {
        // random magnitude below 1 with random exponent near the top (where integer results are non-zero)
        let e = one_exp - 1 - rng.below(70).min(one_exp - 1);
        v.push((rng.below(2) << (f.width - 1)) | (e << mant_bits) | rng.below(mmax + 1));
    }
    v.sort(); v.dedup(); v
}

fn f2i_expect(fname: &str, d: &str, b: u64) -> Option<i128> {
    let (neg, m, e) = decode(ff(fname), b)?;
    let sh = e + bits(d) as i32 - 1;
    let mag: u128 = if sh >= 0 { if sh >= 100 { return None } else { m << sh as u32 } } else if -sh >= 128 { 0 } else { m >> (-sh) as u32 };
    let v = if neg { -(mag as i128) } else { mag as i128 };
    Some(v + off(d))
}

fn run_f2i(a: &Args) {
    let mut st = Stream::new(&a.out, if NOSTD { "f2i_nostd" } else { "f2i" });
    let mut rng = Rng::new(a.seed, "f2i");
    let n_rand = if a.thorough() { 60_000 } else { 4_000 };
    for &s in ["f32", "f64"].iter() {
        let pats = float_patterns(s, &mut rng, n_rand);
        let in_domain = |b: u64| { let x = fval(s, b); x >= -1.0 && x < 1.0 };
        for &d in INTS.iter() {
            let t = find(s, d);
            for chunk in pats.chunks(256) {
                let mut op = format!("f2i {} {}", s, d); let mut obs = String::new();
                for (i, &b) in chunk.iter().enumerate() {
                    op.push(' '); op.push_str(&b.to_string());
                    let r = guarded(|| t.2(b as i128));
                    if i > 0 { obs.push(' '); }
                    obs.push_str(&r.map(|x| x.to_string()).unwrap_or("panic".into()));
                    if in_domain(b) {
                        let want = f2i_expect(s, d, b);
                        for (nm, fun) in [("conv fn", t.2), ("to_sample", t.3), ("from_sample", t.4)] {
                            let r2 = if nm == "conv fn" { r } else { guarded(|| fun(b as i128)) };
                            if r2 != want || want.is_none() {
                                st.oracle_fail(&format!("{} {}->{}: not trunc(x*2^(bits-1)) re-offset", nm, s, d), &format!("f2i {} {} {}", s, d, b), &format!("{:?}", want), &format!("{:?}", r2));
                            } else { st.oracle_ok(1); }
                        }
                        if let Some(x) = r { if x < lo(d) || x > hi(d) { st.oracle_fail("float->int result out of range", &format!("f2i {} {} {}", s, d, b), "in range", &x.to_string()); } }
                    }
                }
                st.case(&op, &obs, true, chunk.len() as u64);
            }
            // monotone on random in-domain pairs
            for _ in 0..300 {
                let (p, q) = (*rng.pick(&pats), *rng.pick(&pats));
                if !in_domain(p) || !in_domain(q) { continue; }
                let (x, y) = (fval(s, p), fval(s, q));
                let (rx, ry) = (guarded(|| t.2(p as i128)), guarded(|| t.2(q as i128)));
                if let (Some(u), Some(w)) = (rx, ry) {
                    if (x <= y && u > w) || (y <= x && w > u) { st.oracle_fail("order not preserved", &format!("f2i {} {} {} {}", s, d, p, q), "monotone", &format!("{} {}", u, w)); } else { st.oracle_ok(1); }
                }
            }
            // out-of-domain / malformed stream: compared with the model only (saturating casts), no oracle
            let mant_bits = ff(s).prec - 1; let w = ff(s).width;
            let one = (ff(s).emax as u64) << mant_bits;
            let inf = ((2 * ff(s).emax + 1) as u64) << mant_bits;
            let odd: Vec<u64> = vec![one, one + 1, one | (1 << (w - 1)) | 1, inf, inf | (1 << (w - 1)), inf | (1 << (mant_bits - 1)), one + (3 << mant_bits), (one + (3 << mant_bits)) | (1 << (w - 1)), inf - 1, (inf - 1) | (1 << (w - 1))];
            let mut op = format!("f2i {} {}", s, d); let mut obs = String::new();
            for (i, &b) in odd.iter().enumerate() {
                op.push(' '); op.push_str(&b.to_string());
                if i > 0 { obs.push(' '); }
                obs.push_str(&guarded(|| t.2(b as i128)).map(|x| x.to_string()).unwrap_or("panic".into()));
            }
            if !cfg!(debug_assertions) { st.case(&op, &obs, true, odd.len() as u64); st.count("out_of_domain_lines"); }
        }
    }
    // thorough: every f32 pattern in [-1,1) natively against the oracle, all 12 targets, 16 threads
    if a.thorough() {
        let total = std::sync::atomic::AtomicU64::new(0);
        let fails = std::sync::Mutex::new(Vec::<String>::new());
        std::thread::scope(|sc| {
            for th in 0..16u64 {
                let total = &total; let fails = &fails;
                sc.spawn(move || {
                    let mut n = 0u64;
                    let lim = 0x3f80_0000u64; // magnitudes below 1.0
                    let mut mag = th;
                    while mag < lim {
                        for sgn in [0u64, 1u64 << 31] {
                            let b = mag | sgn;
                            for &d in INTS.iter() {
                                let t = find("f32", d);
                                let r = t.2(b as i128);
                                if Some(r) != f2i_expect("f32", d, b) {
                                    let mut g = fails.lock().unwrap();
                                    if g.len() < 5 { g.push(format!("f2i f32 {} {}|{:?}|{}", d, b, f2i_expect("f32", d, b), r)); }
                                }
                                n += 1;
                            }
                        }
                        mag += 16;
                    }
                    total.fetch_add(n, std::sync::atomic::Ordering::Relaxed);
                });
            }
        });
        let n = total.load(std::sync::atomic::Ordering::Relaxed);
        st.oracle_ok(n); st.count_n("native_all_f32_patterns_x_targets", n);
        for f in fails.lock().unwrap().iter() { let p: Vec<&str> = f.split('|').collect(); st.oracle_fail("f32->int differs from trunc(x*2^(bits-1)) (exhaustive sweep)", p[0], p[1], p[2]); }
        if !cfg!(debug_assertions) { st.note("every f32 bit pattern with |x| < 1 and -1.0 checked natively against the integer oracle for all 12 targets"); }
    }
    st.finish();
}

fn run_f2f(a: &Args) {
    let mut st = Stream::new(&a.out, "f2f");
    let mut rng = Rng::new(a.seed, "f2f");
    let n = if a.thorough() { 400_000 } else { 40_000 };
    // f32 -> f64: exact
    let t = find("f32", "f64");
    let mut pats: Vec<u64> = float_patterns("f32", &mut rng, 2000);
    for _ in 0..n { pats.push(rng.below(1u64 << 32)); }
    pats.extend([0x7f80_0000u64, 0xff80_0000, 0x7f7f_ffff, 0xff7f_ffff, 0x0000_0001, 0x8000_0001, 0x7fc0_0000]);
    for chunk in pats.chunks(256) {
        let mut op = String::from("f2f f32 f64"); let mut obs = String::new();
        for (i, &b) in chunk.iter().enumerate() {
            op.push(' '); op.push_str(&b.to_string());
            let r = canon("f64", t.2(b as i128));
            if i > 0 { obs.push(' '); } obs.push_str(&r.to_string());
            let want = match decode(&F32, b) { Some((neg, m, e)) => round_bits(&F64, neg, m, e), None => if (b & 0x7f_ffff) == 0 { ((b >> 31) << 63) | 0x7ff0_0000_0000_0000 } else { 0x7ff8_0000_0000_0000 } };
            if r != want { st.oracle_fail("f32->f64 not exact", &format!("f2f f32 f64 {}", b), &want.to_string(), &r.to_string()); } else { st.oracle_ok(1); }
            if let Some(_) = decode(&F32, b) { if f64::from_bits(r) as f32 != f32::from_bits(b as u32) && !f32::from_bits(b as u32).is_nan() { st.oracle_fail("f32->f64 loses value", &format!("f2f f32 f64 {}", b), "", ""); } }
        }
        st.case(&op, &obs, true, chunk.len() as u64);
    }
    // f64 -> f32: correctly rounded
    let t = find("f64", "f32");
    let mut pats: Vec<u64> = float_patterns("f64", &mut rng, 2000);
    for _ in 0..n {
        // random f64 with exponent in/around the f32 range, ties included
        let e = 1023 - 160 + rng.below(320);
        let mut m = rng.below(1u64 << 52);
        if rng.chance(1, 3) { m &= !((1u64 << 29) - 1); if rng.chance(1, 2) { m |= 1u64 << 28; } if rng.chance(1, 4) { m = m.wrapping_add(rng.below(3)).wrapping_sub(1) & ((1u64 << 52) - 1); } }
        pats.push((rng.below(2) << 63) | (e << 52) | m);
    }
    pats.extend([0x7ff0_0000_0000_0000u64, 0xfff0_0000_0000_0000, 0x7fef_ffff_ffff_ffff, 0x47ef_ffff_f000_0000, 0x47ef_ffff_efff_ffff, 0x47ef_ffff_e000_0000, 0x36a0_0000_0000_0000, 0x3690_0000_0000_0000, 0x3690_0000_0000_0001, 1, 0x7ff8_0000_0000_0000]);
    for chunk in pats.chunks(256) {
        let mut op = String::from("f2f f64 f32"); let mut obs = String::new();
        for (i, &b) in chunk.iter().enumerate() {
            op.push(' '); op.push_str(&b.to_string());
            let r = canon("f32", t.2(b as i128));
            if i > 0 { obs.push(' '); } obs.push_str(&r.to_string());
            let want = match decode(&F64, b) { Some((neg, m, e)) => round_bits(&F32, neg, m, e), None => if (b & ((1u64 << 52) - 1)) == 0 { ((b >> 63) << 31) | 0x7f80_0000 } else { 0x7fc0_0000 } };
            if r != want { st.oracle_fail("f64->f32 not the correctly rounded value", &format!("f2f f64 f32 {}", b), &want.to_string(), &r.to_string()); } else { st.oracle_ok(1); }
        }
        st.case(&op, &obs, true, chunk.len() as u64);
    }
    st.finish();
}

/// built inside /verif/harness_nostd (dasp_sample without its `std` feature)?
const NOSTD: bool = cfg!(feature = "nostd");

fn main() {
    let a = Args::parse();
    if a.stream.ends_with("_nostd") != NOSTD {
        if NOSTD { eprintln!("stream {} needs the std build", a.stream); std::process::exit(2); }
        delegate_nostd("c02_nostd");
    }
    match a.stream.as_str() {
        "i2f" | "i2f_nostd" => run_i2f(&a),
        "f2i_nostd" => run_f2i(&a),
        "f2i" => run_f2i(&a),
        "f2f" => run_f2f(&a),
        s => { eprintln!("unknown stream {}", s); std::process::exit(2); }
    }
}
