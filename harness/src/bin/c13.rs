//! C13 — Bus: gap-free per-output streams, pending counts, one pull per frame, minimal backlog.
//! Stream `bus`: real `dasp_signal::bus` driven by sequences over send / next(i) / drop(i) / drop of the
//! `Bus` handle / `until_exhausted` over an output, on an infinite or a finite instrumented source;
//! compared with the Lean model (`Dasp.Bus.runX`) and, independently, with an oracle written from the
//! property text (plus, as a labelled extension, C05's notion of exhaustion applied to bus outputs).
#[path = "../util.rs"]
mod util;
use dasp_signal::bus::{Bus, Output, SignalBus};
use dasp_signal::Signal;
use std::cell::RefCell;
use std::rc::Rc;
use util::*;

fn main() {
    let a = Args::parse();
    match a.stream.as_str() {
        "bus" => run(&a),
        s => { eprintln!("unknown stream {}", s); std::process::exit(2); }
    }
}

const UNTIL_CAP: usize = 200; // same bound as `untilCap` of the Lean driver

/// Instrumented source: the i-th pull is logged and yields `[salt + i]` while `i < len`, the equilibrium
/// `[0]` afterwards (like `signal::from_iter`); it reports exhaustion once `len` frames were pulled.
struct Src { salt: i64, len: Option<usize>, log: Rc<RefCell<Vec<i64>>> }
fn src_frame(salt: i64, len: Option<usize>, i: usize) -> i64 { if len.map(|n| i < n).unwrap_or(true) { salt + i as i64 } else { 0 } }
impl Signal for Src {
    type Frame = [i64; 1];
    fn next(&mut self) -> [i64; 1] {
        let mut l = self.log.borrow_mut();
        let v = src_frame(self.salt, self.len, l.len());
        l.push(v);
        [v]
    }
    fn is_exhausted(&self) -> bool { self.len.map(|n| self.log.borrow().len() >= n).unwrap_or(false) }
}

#[derive(Clone, Copy, PartialEq, Debug)]
enum Op { Send, Next(usize), Drop(usize), DropBus, Until(usize) }
fn show_op(o: &Op) -> String {
    match o { Op::Send => "s".into(), Op::Next(k) => format!("n{}", k), Op::Drop(k) => format!("d{}", k), Op::DropBus => "b".into(), Op::Until(k) => format!("u{}", k) }
}

/// Reference bookkeeping written from the property text only: where each output was attached
/// (number of frames anybody had pulled at that moment) and how many frames it has received.
#[derive(Default, Clone)]
struct Oracle { attach: Vec<usize>, recv: Vec<usize>, live: Vec<bool> }
impl Oracle {
    fn cursor(&self, i: usize) -> usize { self.attach[i] + self.recv[i] }
    fn live_ids(&self) -> Vec<usize> { (0..self.live.len()).filter(|&i| self.live[i]).collect() }
    fn send(&mut self, pulls: usize) { self.attach.push(pulls); self.recv.push(0); self.live.push(true); }
}

struct Outcome { op_line: String, obs_line: String, nontrivial: bool, evals: u64 }

fn case_text(salt: i64, len: Option<usize>, ops: &[Op]) -> String {
    let mut t = format!("bus {} {}", salt, len.map(|n| n.to_string()).unwrap_or("inf".into()));
    // keep replays readable: the failing prefix is what matters, long tails are cut by the caller
    for o in ops { t.push(' '); t.push_str(&show_op(o)); }
    t
}

/// run one sequence on the real bus; every observation is checked against the oracle
/// `probe = false`: the accessors (`pending_frames`, `is_exhausted`, the backlog hook) are never called between the
/// operations; the frame and pull-count oracles still run (an accessor must not be what keeps the state right)
fn run_case(salt: i64, len: Option<usize>, ops: &[Op], st: &mut Stream, probe: bool) -> Outcome {
    let log = Rc::new(RefCell::new(Vec::<i64>::new()));
    let mut bus: Option<Bus<Src>> = Some(Src { salt, len, log: log.clone() }.bus());
    let mut outs: Vec<Option<Output<Src>>> = Vec::new();
    let mut or = Oracle::default();
    let mut op_line = format!("bus {} {}", salt, len.map(|n| n.to_string()).unwrap_or("inf".into()));
    let mut obs = String::new();
    let mut nontrivial = false;
    let mut evals = 0u64;
    let mut failed = false;
    for (n, op) in ops.iter().enumerate() {
        op_line.push(' '); op_line.push_str(&show_op(op));
        if n > 0 { obs.push(' '); }
        // a failing case is reported with the prefix up to the failing operation (replay stays short)
        let ct = || case_text(salt, len, &ops[..=n]);
        mark(0, &ct());
        let pulls_before = log.borrow().len();
        let lagging = or.live_ids().iter().any(|&i| or.cursor(i) < pulls_before);
        let ret: String = match *op {
            Op::Send => {
                if lagging { nontrivial = true; st.count("send_while_an_output_lags"); }
                if !or.live.is_empty() && or.live_ids().is_empty() { st.count("reattach_after_all_dropped"); }
                let b = bus.as_ref().expect("generator: send after the handle was dropped");
                match guarded(|| b.send()) {
                    Some(o) => {
                        outs.push(Some(o));
                        // "begins with the first frame nobody had pulled when it was attached"
                        or.send(pulls_before);
                        format!("k{}", outs.len() - 1)
                    }
                    None => { st.oracle_fail("send panicked", &ct(), "an output", "panic"); failed = true; "panic".into() }
                }
            }
            Op::Next(i) => {
                let want = src_frame(salt, len, or.cursor(i)); // the contiguous run: attach, attach+1, …
                if or.cursor(i) < pulls_before { st.count("next_from_backlog"); } else { st.count("next_pulls_source"); }
                if bus.is_none() { st.count("next_after_handle_dropped"); }
                if len.map(|l| or.cursor(i) >= l).unwrap_or(false) { st.count("next_past_the_end_of_the_source"); }
                let o = outs[i].as_mut().unwrap();
                match guarded(|| o.next()) {
                    Some([f]) => {
                        if f != want {
                            st.oracle_fail(&format!("output {} did not receive the next frame of its contiguous run (op #{})", i, n), &ct(), &want.to_string(), &f.to_string());
                            failed = true;
                        } else { st.oracle_ok(1); }
                        or.recv[i] += 1;
                        format!("f{}", f)
                    }
                    None => { st.oracle_fail(&format!("next on output {} panicked (op #{})", i, n), &ct(), &want.to_string(), "panic"); failed = true; or.recv[i] += 1; "panic".into() }
                }
            }
            Op::Drop(i) => {
                if lagging { nontrivial = true; }
                let live = or.live_ids();
                if live.len() > 1 {
                    let c = or.cursor(i);
                    let others: Vec<usize> = live.iter().filter(|&&j| j != i).map(|&j| or.cursor(j)).collect();
                    if others.iter().all(|&x| x > c) { st.count("drop_strictly_slowest"); }
                    else if others.iter().all(|&x| x < c) { st.count("drop_strictly_fastest"); }
                }
                if or.recv[i] == 0 { st.count("drop_output_that_never_pulled"); }
                let o = outs[i].take().unwrap();
                or.live[i] = false;
                match guarded(move || drop(o)) {
                    Some(()) => "d".into(),
                    None => { st.oracle_fail("drop panicked", &ct(), "", "panic"); failed = true; "panic".into() }
                }
            }
            Op::DropBus => {
                // the handle goes away; the outputs must be unaffected (nothing in the property depends on it)
                st.count(&format!("handle_dropped_with_{}_live_outputs", or.live_ids().len().min(4)));
                if !or.live_ids().is_empty() { nontrivial = true; }
                let b = bus.take().unwrap();
                match guarded(move || drop(b)) { Some(()) => "d".into(), None => { st.oracle_fail("dropping the Bus handle panicked", &ct(), "", "panic"); failed = true; "panic".into() } }
            }
            Op::Until(i) => {
                // EXTENSION (C05's exhaustion on the bus): `until_exhausted` over an output yields exactly the frames
                // from its position to the end of the source (or of what was already pulled beyond it), then stops
                let end = len.expect("generator: until_exhausted only on a finite source").max(pulls_before);
                let c = or.cursor(i);
                let want: Vec<i64> = (c..end.max(c)).map(|j| src_frame(salt, len, j)).collect();
                if lagging { nontrivial = true; }
                st.count("until_exhausted");
                let o = outs[i].take().unwrap();
                or.live[i] = false;
                let got = guarded(move || o.until_exhausted().take(UNTIL_CAP + 1).map(|f| f[0]).collect::<Vec<i64>>());
                match got {
                    Some(g) => {
                        if g != want {
                            st.oracle_fail(&format!("until_exhausted over output {} (op #{}) did not yield exactly the frames up to the end of the source", i, n), &ct(),
                                &format!("{:?}", want), &format!("{:?}{}", &g[..g.len().min(12)], if g.len() > 12 { format!("… ({} frames)", g.len()) } else { String::new() }));
                            failed = true;
                        } else { st.oracle_ok(1); }
                        or.recv[i] += g.len();
                        if g.len() > UNTIL_CAP { "noend".into() } else { format!("u{}", g.iter().map(|x| x.to_string()).collect::<Vec<_>>().join("_")) }
                    }
                    None => { st.oracle_fail("until_exhausted panicked", &ct(), "", "panic"); failed = true; "panic".into() }
                }
            }
        };
        evals += 1;
        // ---- observations after the op
        let pulls = log.borrow().len();
        let src_done = len.map(|l| pulls >= l).unwrap_or(false);
        let backlog = if probe { bus.as_ref().map(|b| guarded(|| b.verif_backlog_len())) } else { None };
        let live = or.live_ids();
        let mut pend_s: Vec<String> = Vec::new();
        for &i in live.iter().filter(|_| probe) {
            let o = outs[i].as_ref().unwrap();
            let p = guarded(|| o.pending_frames());
            // "its pending count equals the number of frames already pulled from the source that it has not yet received"
            let want = pulls as i128 - or.cursor(i) as i128;
            match p {
                Some(p) if p as i128 == want => st.oracle_ok(1),
                _ => { st.oracle_fail(&format!("pending_frames of output {} after op #{}", i, n), &ct(), &want.to_string(), &format!("{:?}", p)); failed = true; }
            }
            // EXTENSION: an output that has received every pulled frame of an exhausted source reports exhaustion,
            // whatever other outputs still have pending; otherwise it does not
            let ex = guarded(|| o.is_exhausted());
            let want_ex = want == 0 && src_done;
            if ex != Some(want_ex) { st.oracle_fail(&format!("is_exhausted of output {} after op #{}", i, n), &ct(), &want_ex.to_string(), &format!("{:?}", ex)); failed = true; } else { st.oracle_ok(1); }
            if want_ex { st.count(if live.iter().any(|&j| or.cursor(j) < pulls) { "exhausted_output_while_another_lags" } else { "exhausted_output" }); }
            pend_s.push(format!("{}:{}{}", i, p.map(|x| x.to_string()).unwrap_or("panic".into()), match ex { Some(true) => "x", Some(false) => "", None => "panic" }));
            evals += 1;
        }
        // "The source is pulled exactly once per distinct frame": the pulls so far are exactly the frames
        // some output (live or dropped) has received, i.e. as many as the furthest cursor ever reached.
        let furthest = (0..or.attach.len()).map(|i| or.cursor(i)).max().unwrap_or(0);
        let single_step = matches!(op, Op::Next(_)) && pulls <= pulls_before + 1 || matches!(op, Op::Until(_)) || pulls == pulls_before;
        if pulls != furthest || pulls < pulls_before || !single_step {
            st.oracle_fail(&format!("source pull count after op #{}", n), &ct(), &furthest.to_string(), &pulls.to_string()); failed = true;
        } else { st.oracle_ok(1); }
        // "the backlog always holds exactly the pulled frames that the slowest live output has not yet
        //  received, so it is empty whenever all live outputs have caught up or none remain"
        let want_backlog = match live.iter().map(|&i| or.cursor(i)).min() { Some(m) => pulls - m.min(pulls), None => 0 };
        if let Some(bl) = backlog {
            if bl != Some(want_backlog) {
                st.oracle_fail(&format!("backlog length after op #{}", n), &ct(), &want_backlog.to_string(), &format!("{:?}", bl)); failed = true;
            } else { st.oracle_ok(1); }
        }
        if want_backlog > 0 { st.count("states_with_nonempty_backlog"); } else { st.count("states_with_empty_backlog"); }
        let b_s = match backlog { Some(Some(x)) => x.to_string(), Some(None) => "panic".into(), None => "-".into() };
        obs.push_str(&format!("{}/P{}/B{}/{}", ret, pulls, b_s, if pend_s.is_empty() { "-".to_string() } else { pend_s.join(",") }));
        if failed { // the real bus is in an unspecified state now; stop this case (the lines still differ from the model's)
            break;
        }
    }
    // the source itself handed out its frames once each, in order (sanity of the instrumentation)
    for (i, &v) in log.borrow().iter().enumerate() { if v != src_frame(salt, len, i) { st.oracle_fail("instrumented source log", &case_text(salt, len, ops), "", ""); } }
    let _ = guarded(move || { drop(outs); drop(bus); });
    Outcome { op_line, obs_line: obs, nontrivial, evals }
}

fn emit(salt: i64, len: Option<usize>, ops: &[Op], st: &mut Stream) {
    let o = run_case(salt, len, ops, st, true);
    if ops.len() <= 200 { let _ = run_case(salt, len, ops, st, false); st.count("case_also_run_without_accessor_calls"); }
    for op in ops { st.count(match op { Op::Send => "op_send", Op::Next(_) => "op_next", Op::Drop(_) => "op_drop", Op::DropBus => "op_drop_bus_handle", Op::Until(_) => "op_until_exhausted" }); }
    st.count(if len.is_some() { "finite_source" } else { "infinite_source" });
    st.case(&o.op_line, &o.obs_line, o.nontrivial, o.evals);
}

/// all sequences of exactly `depth` operations over at most `max_live` simultaneously live outputs
/// (called once per length: shortest first, so the first reported failure is a shortest one)
fn enumerate(depth: usize, max_live: usize, seq: &mut Vec<Op>, live: &mut Vec<usize>, next_id: usize, handle: bool, st: &mut Stream, salt: i64, len: Option<usize>) {
    if seq.len() == depth { emit(salt, len, seq, st); st.count(&format!("exhaustive_{}_len_{}", if len.is_some() { "finite" } else { "inf" }, seq.len())); return; }
    if handle && live.len() < max_live {
        seq.push(Op::Send); live.push(next_id);
        enumerate(depth, max_live, seq, live, next_id + 1, handle, st, salt, len);
        live.pop(); seq.pop();
    }
    if handle {
        seq.push(Op::DropBus);
        enumerate(depth, max_live, seq, live, next_id, false, st, salt, len);
        seq.pop();
    }
    for idx in 0..live.len() {
        let id = live[idx];
        seq.push(Op::Next(id));
        enumerate(depth, max_live, seq, live, next_id, handle, st, salt, len);
        seq.pop();
        seq.push(Op::Drop(id)); live.remove(idx);
        enumerate(depth, max_live, seq, live, next_id, handle, st, salt, len);
        live.insert(idx, id); seq.pop();
        if len.is_some() {
            seq.push(Op::Until(id)); live.remove(idx);
            enumerate(depth, max_live, seq, live, next_id, handle, st, salt, len);
            live.insert(idx, id); seq.pop();
        }
    }
}

/// one random sequence; `flavour` biases it towards the situations named in the property's rationale
fn random_seq(rng: &mut Rng, flavour: u64, len: usize, max_live: usize, src_len: Option<usize>) -> Vec<Op> {
    let finite = src_len.is_some();
    let mut ops = Vec::with_capacity(len);
    let mut or = Oracle::default();
    let mut pulls = 0usize;
    let mut lazy: Vec<bool> = Vec::new(); // outputs that never pull
    let mut handle = true;
    // a third of the sequences drop the Bus handle at some point (no sends afterwards)
    let drop_handle_at = if rng.chance(1, 3) { Some(rng.usize_below(len.max(1))) } else { None };
    // half of the sequences start with several outputs attached at once
    let initial = if rng.chance(1, 2) { 1 + rng.usize_below(max_live) } else { 0 };
    for _ in 0..initial.min(len) {
        ops.push(Op::Send); or.send(0);
        lazy.push(flavour == 4 && rng.chance(1, 3) || rng.chance(1, 10));
    }
    while ops.len() < len {
        let live = or.live_ids();
        if handle && drop_handle_at.map(|t| ops.len() >= t).unwrap_or(false) && !live.is_empty() { ops.push(Op::DropBus); handle = false; continue; }
        if live.is_empty() && !handle { break; }
        let active: Vec<usize> = live.iter().cloned().filter(|&i| !lazy[i]).collect();
        let r = rng.below(100);
        let can_send = handle && live.len() < max_live;
        let op = if live.is_empty() { Op::Send } else {
            match flavour {
                // lock-step rounds over all active outputs
                1 if !active.is_empty() && r < 80 => {
                    let m = active.iter().map(|&i| or.cursor(i)).min().unwrap();
                    Op::Next(*active.iter().find(|&&i| or.cursor(i) == m).unwrap())
                }
                // drop the slowest / the fastest
                2 if r < 12 && live.len() > 1 => {
                    let slow = rng.chance(1, 2);
                    let pick = if slow { *live.iter().min_by_key(|&&i| or.cursor(i)).unwrap() } else { *live.iter().max_by_key(|&&i| or.cursor(i)).unwrap() };
                    Op::Drop(pick)
                }
                // drop everything, then re-attach
                3 if r < 6 && handle => Op::Drop(live[0]),
                _ => {
                    if r < 12 && can_send { Op::Send }
                    else if r < 22 { if finite && rng.chance(1, 3) { Op::Until(*rng.pick(&live)) } else { Op::Drop(*rng.pick(&live)) } }
                    else if !active.is_empty() {
                        // bursts: prefer the same output again sometimes
                        if let (Some(Op::Next(k)), true) = (ops.last().cloned(), rng.chance(1, 2)) { if or.live[k] { Op::Next(k) } else { Op::Next(*rng.pick(&active)) } }
                        else { Op::Next(*rng.pick(&active)) }
                    } else if can_send { Op::Send } else { Op::Drop(*rng.pick(&live)) }
                }
            }
        };
        match op {
            Op::Send => { or.send(pulls); lazy.push(flavour == 4 && rng.chance(1, 3) || rng.chance(1, 10)); }
            Op::Next(i) => { or.recv[i] += 1; pulls = pulls.max(or.cursor(i)); }
            Op::Until(i) => { or.live[i] = false; pulls = pulls.max(src_len.unwrap_or(0)); }
            Op::DropBus => {}
            Op::Drop(i) => {
                or.live[i] = false;
                if flavour == 3 && !or.live_ids().is_empty() && ops.len() + 1 < len {
                    ops.push(op);
                    for j in or.live_ids() { if ops.len() < len { ops.push(Op::Drop(j)); or.live[j] = false; } }
                    continue;
                }
            }
        }
        ops.push(op);
    }
    ops
}

/// MANY attachments over one bus's lifetime: a few long-lived outputs attached first stay attached while
/// `sends` short-lived (sometimes longer-lived) outputs come and go, mixed with pulls on all of them.
/// Keys are never recycled, so the late outputs carry keys far above the number of live outputs.
fn long_lived_seq(rng: &mut Rng, sends: usize, sync: u64) -> Vec<Op> {
    // `sync` (0..=4, of 4): how often everybody is brought level at the end of a round, so that the next
    // output is attached to an empty backlog (in-step use) rather than while others lag
    let mut ops = Vec::new();
    let mut or = Oracle::default();
    let mut pulls = 0usize;
    let mains = 1 + rng.usize_below(3);
    for _ in 0..mains { ops.push(Op::Send); or.send(0); }
    let mut monitors: Vec<usize> = Vec::new();
    let mut live_mains: Vec<usize> = (0..mains).collect();
    fn next(ops: &mut Vec<Op>, or: &mut Oracle, pulls: &mut usize, i: usize) { ops.push(Op::Next(i)); or.recv[i] += 1; *pulls = (*pulls).max(or.cursor(i)); }
    while or.attach.len() < sends {
        let m = or.attach.len();
        ops.push(Op::Send); or.send(pulls); monitors.push(m);
        for _ in 0..(1 + rng.usize_below(4)) {
            let r = rng.below(10);
            let who = if r < 5 && !live_mains.is_empty() { *rng.pick(&live_mains) } else if r < 8 { *monitors.last().unwrap() } else { *rng.pick(&monitors) };
            next(&mut ops, &mut or, &mut pulls, who);
        }
        // the newest monitor usually goes away again; now and then an older one or a long-lived one does
        if rng.chance(4, 5) { if let Some(m) = monitors.pop() { ops.push(Op::Drop(m)); or.live[m] = false; } }
        if monitors.len() > 5 || (!monitors.is_empty() && rng.chance(1, 12)) { let i = rng.usize_below(monitors.len()); let m = monitors.remove(i); ops.push(Op::Drop(m)); or.live[m] = false; }
        if live_mains.len() > 1 && rng.chance(1, 150) { let i = rng.usize_below(live_mains.len()); let m = live_mains.remove(i); ops.push(Op::Drop(m)); or.live[m] = false; }
        if rng.below(4) < sync {
            for i in or.live_ids() { while or.cursor(i) < pulls { next(&mut ops, &mut or, &mut pulls, i); } }
        }
    }
    // a final lock-step round over everything still alive
    for _ in 0..3 { for i in or.live_ids() { next(&mut ops, &mut or, &mut pulls, i); } }
    ops
}

/// LONG RUN on one bus: two outputs pull 70 000 frames in lock-step (the backlog empties every round), then the lead
/// changes hands repeatedly, an output is dropped while behind and a new one attached: frames, pending counts and the
/// source's pull count against plain counters (oracle only; whatever positions or generations an implementation
/// keeps must not wrap or be rebased into a wrong answer)
fn long_run(st: &mut Stream) {
    let salt = 5000i64;
    let case = "bus over an infinite counting source: outputs a and b pull 70000 frames in lock-step (a first), then b takes the lead by 2, a catches up, a leads by 3, b catches up, ... (200 changes of lead), then leads of 65, 130, 300, 1000, 64, 129 frames after odd numbers of lock-step frames, then b is dropped while behind and c attached";
    mark(0, case);
    let log = Rc::new(RefCell::new(Vec::<i64>::new()));
    let r = guarded(|| {
        let bus = Src { salt, len: None, log: log.clone() }.bus();
        let (mut a, mut b) = (bus.send(), bus.send());
        let (mut ca, mut cb) = (0usize, 0usize);         // frames received so far
        let mut bad: Option<String> = None;
        macro_rules! pull { ($o:ident, $c:ident, $who:expr) => { { let f = $o.next()[0]; if f != salt + $c as i64 && bad.is_none() { bad = Some(format!("output {} received {} as its frame #{}, expected {}", $who, f, $c, salt + $c as i64)); } $c += 1; } } }
        macro_rules! pend { () => { { let pulled = log.borrow().len(); let (pa, pb) = (a.pending_frames(), b.pending_frames()); if (pa != pulled - ca || pb != pulled - cb || pulled != ca.max(cb)) && bad.is_none() { bad = Some(format!("after a received {} and b {} frames: pending a {} b {} with {} source pulls, expected {} / {} / {}", ca, cb, pa, pb, pulled, ca.max(cb) - ca, ca.max(cb) - cb, ca.max(cb))); } } } }
        for _ in 0..70_000 { pull!(a, ca, "a"); pull!(b, cb, "b"); }
        pend!();
        for round in 0..200usize {
            let lead = 1 + round % 4;
            if round % 2 == 0 { for _ in 0..lead { pull!(b, cb, "b"); } pend!(); while ca < cb { pull!(a, ca, "a"); } }
            else { for _ in 0..lead { pull!(a, ca, "a"); } pend!(); while cb < ca { pull!(b, cb, "b"); } }
            pend!();
        }
        // BIG leads after an odd number of lock-step frames (a backlog that has to grow while its storage is wrapped):
        // one output runs 65, 130, 300, 1000 frames ahead, the other catches up, roles swap
        for (round, lead) in [65usize, 130, 300, 1000, 64, 129].iter().enumerate() {
            for _ in 0..(1 + 16 * round) { pull!(a, ca, "a"); pull!(b, cb, "b"); }
            if round % 2 == 0 { for _ in 0..*lead { pull!(a, ca, "a"); } pend!(); while cb < ca { pull!(b, cb, "b"); } }
            else { for _ in 0..*lead { pull!(b, cb, "b"); } pend!(); while ca < cb { pull!(a, ca, "a"); } }
            pend!();
        }
        for _ in 0..5 { pull!(a, ca, "a"); }
        drop(b);
        let mut c = bus.send();
        let mut cc = ca;                                     // c begins with the first frame nobody had pulled when it was attached
        for _ in 0..10 { pull!(c, cc, "c"); pull!(a, ca, "a"); }
        if log.borrow().len() != ca.max(cc) && bad.is_none() { bad = Some(format!("{} source pulls for {} distinct frames", log.borrow().len(), ca.max(cc))); }
        bad
    });
    st.count("long_run_70000_frames_then_changes_of_lead");
    match r { Some(None) => st.oracle_ok(141_000), Some(Some(b)) => st.oracle_fail("long run on one bus", case, "", &b), None => st.oracle_fail("long run on one bus panicked", case, "no panic", "panic") }
}

pub fn run(a: &Args) {
    let mut st = Stream::new(&a.out, "bus");
    let mut rng = Rng::new(a.seed, "bus");
    long_run(&mut st);
    // ---- exhaustive over the alphabet {send, next i, drop i, drop the Bus handle}, infinite source,
    //      and {…, until_exhausted i} on a finite source of 2 frames; at most 3 simultaneously live outputs
    let depth = if a.thorough() { 9 } else { 7 };
    for d in 1..=depth { enumerate(d, 3, &mut Vec::new(), &mut Vec::new(), 0, true, &mut st, 1000, None); }
    let depth_f = if a.thorough() { 8 } else { 6 };
    for d in 1..=depth_f { enumerate(d, 3, &mut Vec::new(), &mut Vec::new(), 0, true, &mut st, 1000, Some(2)); }
    st.note(&format!("exhaustive part: every sequence over send / next i / drop i / drop-the-Bus-handle of length 1..={} on an infinite source, and additionally with until_exhausted i of length 1..={} on a 2-frame source, at most 3 simultaneously live outputs ({} cases)", depth, depth_f, st.cases));
    // ---- random longer sequences, up to 8 simultaneously live outputs, infinite and finite sources
    let n_rand = if a.thorough() { 60_000 } else { 4_000 };
    for c in 0..n_rand {
        let flavour = c % 5;
        let len = 10 + rng.usize_below(71);
        let max_live = 1 + rng.usize_below(8);
        let salt = rng.range(-1_000_000, 1_000_000);
        let src_len = if rng.chance(1, 2) { Some(rng.usize_below(31)) } else { None };
        let ops = random_seq(&mut rng, flavour as u64, len, max_live, src_len);
        st.count(&format!("random_flavour_{}", ["uniform", "lockstep", "drop_extremes", "drop_all_reattach", "lazy_outputs"][flavour as usize]));
        st.count(&format!("random_max_live_{}", max_live));
        emit(salt, src_len, &ops, &mut st);
    }
    // ---- many attachments on one bus (more than 64 / 128 / 300 sends) with long-lived early outputs
    let mut many: Vec<usize> = vec![70, 140, 330, 70, 140, 330, 70, 140, 330, 70, 140, 330, 70, 140, 330];
    if a.thorough() { for _ in 0..150 { many.push(65 + rng.usize_below(400)); } many.push(1100); }
    for (n, sends) in many.into_iter().enumerate() {
        let ops = long_lived_seq(&mut rng, sends, (n % 5) as u64);
        st.count(&format!("many_attachments_level_everybody_{}_of_4_rounds", n % 5));
        st.count(&format!("many_attachments_over_{}", if sends > 1000 { 1000 } else if sends > 300 { 300 } else if sends > 128 { 128 } else { 64 }));
        let src_len = if rng.chance(1, 4) { Some(rng.usize_below(200)) } else { None };
        emit(rng.range(-1000, 1000), src_len, &ops, &mut st);
    }
    // ---- long lock-step run (the allocation-free audio-thread situation): backlog must stay bounded
    for outs in 1..=8usize {
        let mut ops: Vec<Op> = (0..outs).map(|_| Op::Send).collect();
        let rounds = (80 - outs) / outs;
        for _ in 0..rounds { for i in 0..outs { ops.push(Op::Next(i)); } }
        st.count("lockstep_long");
        emit(7, None, &ops, &mut st);
    }
    st.exhaustive = false; // the random part is a sample
    st.finish();
}
