//! C13 — Bus: gap-free per-output streams, pending counts, one pull per frame, minimal backlog.
//! Stream `bus`: real `dasp_signal::bus` driven by send / next(i) / drop(i) sequences; compared with
//! the Lean model (`Dasp.Bus.run`) and, independently, with an oracle written from the property text.
#[path = "../util.rs"]
mod util;
use dasp_signal::bus::{Bus, Output, SignalBus};
use dasp_signal::Signal;
use std::cell::RefCell;
use std::rc::Rc;
use util::*;

fn main() {
    let a = Args::parse();
    match a.stream.as_str() {
        "bus" => run(&a),
        s => { eprintln!("unknown stream {}", s); std::process::exit(2); }
    }
}

/// Instrumented source: the i-th pull yields the frame `[salt + i]` and is logged.
struct Src { salt: i64, log: Rc<RefCell<Vec<i64>>> }
impl Signal for Src {
    type Frame = [i64; 1];
    fn next(&mut self) -> [i64; 1] {
        let mut l = self.log.borrow_mut();
        let v = self.salt + l.len() as i64;
        l.push(v);
        [v]
    }
}

#[derive(Clone, Copy, PartialEq, Debug)]
enum Op { Send, Next(usize), Drop(usize) }
fn show_op(o: &Op) -> String { match o { Op::Send => "s".into(), Op::Next(k) => format!("n{}", k), Op::Drop(k) => format!("d{}", k) } }

/// Reference bookkeeping written from the property text only: where each output was attached
/// (number of frames anybody had pulled at that moment) and how many frames it has received.
#[derive(Default, Clone)]
struct Oracle { attach: Vec<usize>, recv: Vec<usize>, live: Vec<bool> }
impl Oracle {
    fn cursor(&self, i: usize) -> usize { self.attach[i] + self.recv[i] }
    fn live_ids(&self) -> Vec<usize> { (0..self.live.len()).filter(|&i| self.live[i]).collect() }
}

struct Outcome { op_line: String, obs_line: String, nontrivial: bool, evals: u64 }

/// run one sequence on the real bus; every observation is checked against the oracle
fn run_case(salt: i64, ops: &[Op], st: &mut Stream) -> Outcome {
    let log = Rc::new(RefCell::new(Vec::<i64>::new()));
    let bus: Bus<Src> = Src { salt, log: log.clone() }.bus();
    let mut outs: Vec<Option<Output<Src>>> = Vec::new();
    let mut or = Oracle::default();
    let mut op_line = format!("bus {}", salt);
    let mut obs = String::new();
    let mut nontrivial = false;
    let mut evals = 0u64;
    let case_text = || format!("bus {} {}", salt, ops.iter().map(show_op).collect::<Vec<_>>().join(" "));
    for (n, op) in ops.iter().enumerate() {
        op_line.push(' '); op_line.push_str(&show_op(op));
        if n > 0 { obs.push(' '); }
        let pulls_before = log.borrow().len();
        let lagging = or.live_ids().iter().any(|&i| or.cursor(i) < pulls_before);
        let ret: String = match *op {
            Op::Send => {
                if lagging { nontrivial = true; st.count("send_while_an_output_lags"); }
                if !or.live.is_empty() && or.live_ids().is_empty() { st.count("reattach_after_all_dropped"); }
                match guarded(|| bus.send()) {
                    Some(o) => {
                        outs.push(Some(o));
                        // "begins with the first frame nobody had pulled when it was attached"
                        or.attach.push(pulls_before); or.recv.push(0); or.live.push(true);
                        format!("k{}", outs.len() - 1)
                    }
                    None => { st.oracle_fail("send panicked", &case_text(), "an output", "panic"); "panic".into() }
                }
            }
            Op::Next(i) => {
                let want = salt + or.cursor(i) as i64; // the contiguous run: attach, attach+1, …
                if or.cursor(i) < pulls_before { st.count("next_from_backlog"); } else { st.count("next_pulls_source"); }
                let o = outs[i].as_mut().unwrap();
                match guarded(|| o.next()) {
                    Some([f]) => {
                        if f != want {
                            st.oracle_fail(&format!("output {} did not receive the next frame of its contiguous run (op #{})", i, n), &case_text(), &want.to_string(), &f.to_string());
                        } else { st.oracle_ok(1); }
                        or.recv[i] += 1;
                        format!("f{}", f)
                    }
                    None => { st.oracle_fail("next panicked", &case_text(), &want.to_string(), "panic"); or.recv[i] += 1; "panic".into() }
                }
            }
            Op::Drop(i) => {
                if lagging { nontrivial = true; }
                let live = or.live_ids();
                if live.len() > 1 {
                    let c = or.cursor(i);
                    let others: Vec<usize> = live.iter().filter(|&&j| j != i).map(|&j| or.cursor(j)).collect();
                    if others.iter().all(|&x| x > c) { st.count("drop_strictly_slowest"); }
                    else if others.iter().all(|&x| x < c) { st.count("drop_strictly_fastest"); }
                }
                if or.recv[i] == 0 { st.count("drop_output_that_never_pulled"); }
                let o = outs[i].take().unwrap();
                or.live[i] = false;
                match guarded(move || drop(o)) {
                    Some(()) => "d".into(),
                    None => { st.oracle_fail("drop panicked", &case_text(), "", "panic"); "panic".into() }
                }
            }
        };
        evals += 1;
        // ---- observations after the op
        let pulls = log.borrow().len();
        let backlog = guarded(|| bus.verif_backlog_len());
        let live = or.live_ids();
        let mut pend_s: Vec<String> = Vec::new();
        for &i in &live {
            let o = outs[i].as_ref().unwrap();
            let p = guarded(|| o.pending_frames());
            // "its pending count equals the number of frames already pulled from the source that it has not yet received"
            let want = pulls as i128 - or.cursor(i) as i128;
            match p {
                Some(p) if p as i128 == want => st.oracle_ok(1),
                _ => st.oracle_fail(&format!("pending_frames of output {} after op #{}", i, n), &case_text(), &want.to_string(), &format!("{:?}", p)),
            }
            pend_s.push(format!("{}:{}", i, p.map(|x| x.to_string()).unwrap_or("panic".into())));
            evals += 1;
        }
        // "The source is pulled exactly once per distinct frame": the pulls so far are exactly the frames
        // some output (live or dropped) has received, i.e. as many as the furthest cursor ever reached.
        let furthest = (0..or.attach.len()).map(|i| or.cursor(i)).max().unwrap_or(0);
        if pulls != furthest || pulls < pulls_before || pulls > pulls_before + 1 || (pulls != pulls_before && !matches!(op, Op::Next(_))) {
            st.oracle_fail(&format!("source pull count after op #{}", n), &case_text(), &furthest.to_string(), &pulls.to_string());
        } else { st.oracle_ok(1); }
        // "the backlog always holds exactly the pulled frames that the slowest live output has not yet
        //  received, so it is empty whenever all live outputs have caught up or none remain"
        let want_backlog = match live.iter().map(|&i| or.cursor(i)).min() { Some(m) => pulls - m.min(pulls), None => 0 };
        if backlog != Some(want_backlog) {
            st.oracle_fail(&format!("backlog length after op #{}", n), &case_text(), &want_backlog.to_string(), &format!("{:?}", backlog));
        } else { st.oracle_ok(1); }
        if want_backlog > 0 { st.count("states_with_nonempty_backlog"); } else { st.count("states_with_empty_backlog"); }
        obs.push_str(&format!("{}/P{}/B{}/{}", ret, pulls, backlog.map(|x| x.to_string()).unwrap_or("panic".into()),
            if pend_s.is_empty() { "-".to_string() } else { pend_s.join(",") }));
    }
    // the source itself handed out salt, salt+1, … once each (sanity of the instrumentation)
    for (i, &v) in log.borrow().iter().enumerate() { if v != salt + i as i64 { st.oracle_fail("instrumented source log", &case_text(), "", ""); } }
    drop(outs); drop(bus);
    Outcome { op_line, obs_line: obs, nontrivial, evals }
}

fn emit(salt: i64, ops: &[Op], st: &mut Stream) {
    let o = run_case(salt, ops, st);
    for op in ops { st.count(match op { Op::Send => "op_send", Op::Next(_) => "op_next", Op::Drop(_) => "op_drop" }); }
    st.case(&o.op_line, &o.obs_line, o.nontrivial, o.evals);
}

/// all sequences of length 1..=depth over at most `max_live` simultaneously live outputs
fn enumerate(depth: usize, max_live: usize, seq: &mut Vec<Op>, live: &mut Vec<usize>, next_id: usize, st: &mut Stream, salt: i64) {
    // called once per exact length (shortest sequences first, so the first reported failure is a shortest one)
    if seq.len() == depth { emit(salt, seq, st); st.count(&format!("exhaustive_len_{}", seq.len())); return; }
    if live.len() < max_live {
        seq.push(Op::Send); live.push(next_id);
        enumerate(depth, max_live, seq, live, next_id + 1, st, salt);
        live.pop(); seq.pop();
    }
    for idx in 0..live.len() {
        let id = live[idx];
        seq.push(Op::Next(id));
        enumerate(depth, max_live, seq, live, next_id, st, salt);
        seq.pop();
        seq.push(Op::Drop(id)); live.remove(idx);
        enumerate(depth, max_live, seq, live, next_id, st, salt);
        live.insert(idx, id); seq.pop();
    }
}

/// one random sequence; `flavour` biases it towards the situations named in the property's rationale
fn random_seq(rng: &mut Rng, flavour: u64, len: usize, max_live: usize) -> Vec<Op> {
    let mut ops = Vec::with_capacity(len);
    let mut or = Oracle::default();
    let mut pulls = 0usize;
    let mut lazy: Vec<bool> = Vec::new(); // outputs that never pull
    // half of the sequences start with several outputs attached at once
    let initial = if rng.chance(1, 2) { 1 + rng.usize_below(max_live) } else { 0 };
    for _ in 0..initial.min(len) {
        ops.push(Op::Send); or.attach.push(0); or.recv.push(0); or.live.push(true);
        lazy.push(flavour == 4 && rng.chance(1, 3) || rng.chance(1, 10));
    }
    while ops.len() < len {
        let live = or.live_ids();
        let active: Vec<usize> = live.iter().cloned().filter(|&i| !lazy[i]).collect();
        let r = rng.below(100);
        let op = if live.is_empty() { Op::Send } else {
            match flavour {
                // lock-step rounds over all active outputs
                1 if !active.is_empty() && r < 80 => {
                    let m = active.iter().map(|&i| or.cursor(i)).min().unwrap();
                    Op::Next(*active.iter().find(|&&i| or.cursor(i) == m).unwrap())
                }
                // drop the slowest / the fastest
                2 if r < 12 && live.len() > 1 => {
                    let slow = rng.chance(1, 2);
                    let pick = if slow { *live.iter().min_by_key(|&&i| or.cursor(i)).unwrap() } else { *live.iter().max_by_key(|&&i| or.cursor(i)).unwrap() };
                    Op::Drop(pick)
                }
                // drop everything, then re-attach
                3 if r < 6 => Op::Drop(live[0]),
                _ => {
                    if r < 12 && live.len() < max_live { Op::Send }
                    else if r < 22 { Op::Drop(*rng.pick(&live)) }
                    else if !active.is_empty() {
                        // bursts: prefer the same output again sometimes
                        if let (Some(Op::Next(k)), true) = (ops.last().cloned(), rng.chance(1, 2)) { if or.live[k] { Op::Next(k) } else { Op::Next(*rng.pick(&active)) } }
                        else { Op::Next(*rng.pick(&active)) }
                    } else if live.len() < max_live { Op::Send } else { Op::Drop(*rng.pick(&live)) }
                }
            }
        };
        match op {
            Op::Send => { or.attach.push(pulls); or.recv.push(0); or.live.push(true); lazy.push(flavour == 4 && rng.chance(1, 3) || rng.chance(1, 10)); }
            Op::Next(i) => { or.recv[i] += 1; pulls = pulls.max(or.cursor(i)); }
            Op::Drop(i) => {
                or.live[i] = false;
                if flavour == 3 && !or.live_ids().is_empty() && ops.len() + 1 < len {
                    // finish dropping the rest right away
                    ops.push(op);
                    for j in or.live_ids() { if ops.len() < len { ops.push(Op::Drop(j)); or.live[j] = false; } }
                    continue;
                }
            }
        }
        ops.push(op);
    }
    ops
}

pub fn run(a: &Args) {
    let mut st = Stream::new(&a.out, "bus");
    let mut rng = Rng::new(a.seed, "bus");
    // ---- exhaustive: every sequence up to the depth, at most 3 simultaneously live outputs
    let depth = if a.thorough() { 10 } else { 8 };
    for d in 1..=depth { enumerate(d, 3, &mut Vec::new(), &mut Vec::new(), 0, &mut st, 1000); }
    st.note(&format!("exhaustive part: every send/next/drop sequence of length 1..={} with at most 3 simultaneously live outputs ({} cases)", depth, st.cases));
    // ---- random longer sequences, up to 8 simultaneously live outputs
    let n_rand = if a.thorough() { 60_000 } else { 4_000 };
    for c in 0..n_rand {
        let flavour = c % 5;
        let len = 10 + rng.usize_below(71);
        let max_live = 1 + rng.usize_below(8);
        let salt = rng.range(-1_000_000, 1_000_000);
        let ops = random_seq(&mut rng, flavour as u64, len, max_live);
        st.count(&format!("random_flavour_{}", ["uniform", "lockstep", "drop_extremes", "drop_all_reattach", "lazy_outputs"][flavour as usize]));
        st.count(&format!("random_max_live_{}", max_live));
        emit(salt, &ops, &mut st);
    }
    // ---- long lock-step run (the allocation-free audio-thread situation): backlog must stay bounded
    for outs in 1..=8usize {
        let mut ops: Vec<Op> = (0..outs).map(|_| Op::Send).collect();
        let rounds = (80 - outs) / outs;
        for _ in 0..rounds { for i in 0..outs { ops.push(Op::Next(i)); } }
        st.count("lockstep_long");
        emit(7, &ops, &mut st);
    }
    st.exhaustive = false; // the random part is a sample
    st.finish();
}
