//! C19 — rectifiers (dasp_peak) and envelope follower (dasp_envelope::Detector, detect_envelope).
//!
//! Streams:
//!   rect     full_wave / positive_half_wave / negative_half_wave on f32, f64, i16, u8, i8, u16 frames
//!            `rect <fmt> <fw|ph|nh> <checked 0|1> <ch> v…`  (floats as decimal bit patterns, ints decimal)
//!   env      Detector histories: `env <f32|f64> <fw|ph|nh|rmsN> <ch> <attack f32 bits> <release f32 bits> op…`
//!            op = `n:<bits>,<bits>` next(frame) | `a:<f32 bits>` set_attack_frames | `r:<f32 bits>` set_release_frames
//!   envsig   the same through `signal.detect_envelope(detector)` (`x` = next() after the source ran dry)
//!
//! Independent oracles (no model): |amp| / max / min in i128 or plain float comparisons whenever -amp is
//! representable; each envelope output = d + g (l - d) recomputed in f64 from the previous output l, an
//! independently computed detected value d and g = exp(-1/frames) (0 for 0 frames), attack iff l < d;
//! output between l and d; equals d when the time is 0; outputs before a mid-stream change of
//! attack/release equal those of a run without the change; adaptor = detector on the same frames.
#![allow(dead_code)]
#[path = "../util.rs"]
mod util;
use util::*;

use dasp_envelope::{Detect, Detector};
use dasp_frame::Frame;
use dasp_peak as peak;
use dasp_ring_buffer::Fixed;
use dasp_rms::Rms;
use dasp_sample::Sample;
use dasp_signal::{self as signal, envelope::SignalEnvelope, Signal};

const CHECKED: bool = cfg!(debug_assertions); // the dev profile of the harness has overflow-checks on, release off

trait Flt: Sample<Float = Self, Signed = Self> + dasp_sample::FloatSample + Copy + PartialOrd + 'static {
    const NAME: &'static str;
    const U: f64;
    /// smallest positive subnormal: the absolute rounding granularity below the normal range
    const TINY: f64;
    fn bits(self) -> u64;
    fn from_b(b: u64) -> Self;
    fn f(self) -> f64;
    fn nan(self) -> bool;
    fn of(x: f64) -> Self;
}
impl Flt for f32 {
    const NAME: &'static str = "f32";
    const U: f64 = 5.960464477539063e-8;
    const TINY: f64 = 1.5e-45;
    fn bits(self) -> u64 { self.to_bits() as u64 }
    fn from_b(b: u64) -> Self { f32::from_bits(b as u32) }
    fn f(self) -> f64 { self as f64 }
    fn nan(self) -> bool { self.is_nan() }
    fn of(x: f64) -> Self { x as f32 }
}
impl Flt for f64 {
    const NAME: &'static str = "f64";
    const U: f64 = 1.1102230246251565e-16;
    const TINY: f64 = 5e-324;
    fn bits(self) -> u64 { self.to_bits() }
    fn from_b(b: u64) -> Self { f64::from_bits(b) }
    fn f(self) -> f64 { self }
    fn nan(self) -> bool { self.is_nan() }
    fn of(x: f64) -> Self { x }
}
fn tok<X: Flt>(x: X) -> String { if x.nan() { "nan".into() } else { x.bits().to_string() } }
fn frame_tok<G: Frame>(g: G) -> String where G::Sample: Flt { g.channels().map(tok).collect::<Vec<_>>().join(",") }

// ---------------------------------------------------------------------------------------------
// rect

#[derive(Clone, Copy, PartialEq)]
enum Kind { Fw, Ph, Nh }
impl Kind { fn name(self) -> &'static str { match self { Kind::Fw => "fw", Kind::Ph => "ph", Kind::Nh => "nh" } } }

/// integer formats: (name, signed companion bits, native equilibrium)
trait ISmp: Sample + Copy + 'static where Self::Signed: Copy {
    const NAME: &'static str;
    const BITS: u32;
    const EQ: i128;
    fn of(v: i128) -> Self;
    fn val(self) -> i128;
    fn sval(s: Self::Signed) -> i128;
}
macro_rules! ismp { ($t:ty, $s:ty, $n:expr, $b:expr, $e:expr) => {
    impl ISmp for $t {
        const NAME: &'static str = $n; const BITS: u32 = $b; const EQ: i128 = $e;
        fn of(v: i128) -> Self { v as $t }
        fn val(self) -> i128 { self as i128 }
        fn sval(s: $s) -> i128 { s as i128 }
    }
} }
ismp!(i16, i16, "i16", 16, 0);
ismp!(u8, i8, "u8", 8, 128);
ismp!(i8, i8, "i8", 8, 0);
ismp!(u16, i16, "u16", 16, 32768);
ismp!(i32, i32, "i32", 32, 0);
ismp!(u32, i32, "u32", 32, 2147483648);
ismp!(i64, i64, "i64", 64, 0);

fn rect_int_frames<S: ISmp, const C: usize>(st: &mut Stream, vals: &[i128]) where S::Signed: Copy, [S; C]: Frame<Sample = S, Signed = [S::Signed; C]> {
    for kind in [Kind::Fw, Kind::Ph, Kind::Nh] {
        for line in vals.chunks(C * 24) {
            let mut req = format!("rect {} {} {} {}", S::NAME, kind.name(), CHECKED as u8, C);
            let mut obs = Vec::new();
            for fr in line.chunks(C) {
                if fr.len() < C { break; }
                for v in fr { req.push(' '); req.push_str(&v.to_string()); }
                let frame: [S; C] = core::array::from_fn(|i| S::of(fr[i]));
                let out: Option<Vec<i128>> = match kind {
                    Kind::Fw => guarded(|| peak::full_wave(frame)).map(|o| o.iter().map(|&s| S::sval(s)).collect()),
                    Kind::Ph => guarded(|| peak::positive_half_wave(frame)).map(|o| o.iter().map(|s| s.val()).collect()),
                    Kind::Nh => guarded(|| peak::negative_half_wave(frame)).map(|o| o.iter().map(|s| s.val()).collect()),
                };
                let smin = -(1i128 << (S::BITS - 1));
                let representable = fr.iter().all(|&v| v - S::EQ != smin);
                match &out {
                    None => {
                        obs.push("panic".to_string());
                        st.count("panic");
                        if kind != Kind::Fw || representable { st.oracle_fail("rectifier panicked although -amp is representable", &req, "no panic", &format!("{:?}", fr)); }
                    }
                    Some(o) => {
                        obs.push(o.iter().map(|x| x.to_string()).collect::<Vec<_>>().join(","));
                        for (c, &v) in fr.iter().enumerate() {
                            let amp = v - S::EQ;
                            let exp = match kind { Kind::Fw => amp.abs(), Kind::Ph => v.max(S::EQ), Kind::Nh => v.min(S::EQ) };
                            if kind == Kind::Fw && amp == smin { st.count("fw:MIN (model only)"); continue; }
                            if o[c] == exp { st.oracle_ok(1); } else {
                                st.oracle_fail(match kind { Kind::Fw => "full_wave != |signed amplitude|", Kind::Ph => "positive_half_wave != max(s, equilibrium)", Kind::Nh => "negative_half_wave != min(s, equilibrium)" },
                                    &format!("rect {} {} {} 1 {}", S::NAME, kind.name(), CHECKED as u8, v), &exp.to_string(), &o[c].to_string());
                            }
                        }
                    }
                }
            }
            let n = (line.len() / C * C) as u64;
            if n > 0 { st.case(&req, &obs.join(" "), true, n); st.count(&format!("{}:{}", S::NAME, kind.name())); st.count(&format!("ch:{}", C)); }
        }
    }
}

fn rect_float_frames<X: Flt, const C: usize>(st: &mut Stream, vals: &[u64]) where [X; C]: Frame<Sample = X, Signed = [X; C]> {
    for kind in [Kind::Fw, Kind::Ph, Kind::Nh] {
        for line in vals.chunks(C * 24) {
            let mut req = format!("rect {} {} {} {}", X::NAME, kind.name(), CHECKED as u8, C);
            let mut obs = Vec::new();
            for fr in line.chunks(C) {
                if fr.len() < C { break; }
                for v in fr { req.push(' '); req.push_str(&v.to_string()); }
                let frame: [X; C] = core::array::from_fn(|i| X::from_b(fr[i]));
                let out: Option<[X; C]> = match kind {
                    Kind::Fw => guarded(|| peak::full_wave(frame)),
                    Kind::Ph => guarded(|| peak::positive_half_wave(frame)),
                    Kind::Nh => guarded(|| peak::negative_half_wave(frame)),
                };
                match out {
                    None => { obs.push("panic".into()); st.oracle_fail("float rectifier panicked", &req, "no panic", "panic"); }
                    Some(o) => {
                        obs.push(frame_tok(o));
                        for c in 0..C {
                            let x = frame[c].f();
                            if x.is_nan() { st.count("nan input (model only)"); continue; }
                            let exp = match kind { Kind::Fw => x.abs(), Kind::Ph => if x < 0.0 { 0.0 } else { x }, Kind::Nh => if x > 0.0 { 0.0 } else { x } };
                            if o[c].f() == exp { st.oracle_ok(1); } else { st.oracle_fail("float rectifier != |x| / max(x,0) / min(x,0)", &req, &format!("{:e}", exp), &format!("{:e}", o[c].f())); }
                        }
                    }
                }
            }
            let n = (line.len() / C * C) as u64;
            if n > 0 { st.case(&req, &obs.join(" "), true, n); st.count(&format!("{}:{}", X::NAME, kind.name())); st.count(&format!("ch:{}", C)); }
        }
    }
}

fn float_patterns(rng: &mut Rng, is32: bool, n: usize) -> Vec<u64> {
    let mut v: Vec<u64> = Vec::new();
    let specials: &[f64] = &[0.0, -0.0, 1.0, -1.0, 0.5, -0.5, 1e-30, -1e-30, 3.5, -3.5, f64::INFINITY, f64::NEG_INFINITY, f64::NAN, 1e-320, -1e-320];
    for &s in specials { v.push(if is32 { (s as f32).to_bits() as u64 } else { s.to_bits() }); }
    for _ in 0..n {
        let x = if rng.chance(1, 4) { let b = rng.next_u64(); if is32 { b & 0xffff_ffff } else { b } }
                else { let u = rng.f64_unit() * 2.0 - 1.0; if is32 { (u as f32).to_bits() as u64 } else { u.to_bits() } };
        v.push(x);
    }
    v
}

fn run_rect(a: &Args) {
    let mut st = Stream::new(&a.out, "rect");
    let mut rng = Rng::new(a.seed, "rect");
    // integer formats: every value of the format (exhaustive), as mono and as 2- / 3-channel frames
    let all8: Vec<i128> = (0..256).collect();
    let alli8: Vec<i128> = (-128..128).collect();
    let all16: Vec<i128> = (-32768..32768).collect();
    let allu16: Vec<i128> = (0..65536).collect();
    rect_int_frames::<u8, 1>(&mut st, &all8);
    rect_int_frames::<u8, 2>(&mut st, &all8);
    rect_int_frames::<i8, 1>(&mut st, &alli8);
    rect_int_frames::<i8, 3>(&mut st, &alli8[..126]);
    rect_int_frames::<i16, 1>(&mut st, &all16);
    rect_int_frames::<i16, 2>(&mut st, &all16);
    rect_int_frames::<u16, 1>(&mut st, &allu16);
    st.note("u8, i8, i16, u16: every value of the format through each of the three rectifiers (exhaustive); the frames holding MIN of the signed format (-amp not representable) are compared with the model only");
    let n = if a.thorough() { 200_000 } else { 6_000 };
    let p32 = float_patterns(&mut rng, true, n);
    let p64 = float_patterns(&mut rng, false, n);
    rect_float_frames::<f32, 1>(&mut st, &p32);
    rect_float_frames::<f32, 2>(&mut st, &p32);
    rect_float_frames::<f64, 1>(&mut st, &p64);
    rect_float_frames::<f64, 3>(&mut st, &p64);
    st.finish();
}

// ---------------------------------------------------------------------------------------------
// env

#[derive(Clone)]
enum EOp { Next(Vec<u64>), Attack(f32), Release(f32) }

#[derive(Clone, Copy, PartialEq)]
enum Det { Fw, Ph, Nh, Rms(usize) }
impl Det { fn name(self) -> String { match self { Det::Fw => "fw".into(), Det::Ph => "ph".into(), Det::Nh => "nh".into(), Det::Rms(n) => format!("rms{}", n) } } }

/// run a detector over a history; one token per op
fn drive<F, D>(mut det: Detector<F, D>, ops: &[EOp]) -> Vec<(String, Option<Vec<f64>>)>
where F: Frame, F::Sample: Flt, D: Detect<F>, <D::Output as Frame>::Sample: Flt {
    let mut v = Vec::new();
    for op in ops {
        match op {
            EOp::Next(raw) => { let o = det.next(F::from_fn(|i| <F::Sample as Flt>::from_b(raw[i]))); v.push((frame_tok(o), Some(o.channels().map(|x| x.f()).collect()))); }
            EOp::Attack(x) => { det.set_attack_frames(*x); v.push(("-".into(), None)); }
            EOp::Release(x) => { det.set_release_frames(*x); v.push(("-".into(), None)); }
        }
    }
    v
}

/// the same through `from_iter(frames).detect_envelope(det)`; `extra` more pulls after the source ran dry
fn drive_sig<F, D>(det: Detector<F, D>, ops: &[EOp], extra: usize) -> Vec<(String, Option<Vec<f64>>)>
where F: Frame, F::Sample: Flt, D: Detect<F>, <D::Output as Frame>::Sample: Flt {
    let frames: Vec<F> = ops.iter().filter_map(|op| if let EOp::Next(raw) = op { Some(F::from_fn(|i| <F::Sample as Flt>::from_b(raw[i]))) } else { None }).collect();
    let pulls = std::cell::Cell::new(0usize);
    let mut it = frames.into_iter();
    let src = signal::gen_mut(|| { pulls.set(pulls.get() + 1); it.next().unwrap_or(F::EQUILIBRIUM) });
    let mut s = src.detect_envelope(det);
    let mut v = Vec::new();
    for op in ops {
        match op {
            EOp::Next(_) => { let o = s.next(); v.push((frame_tok(o), Some(o.channels().map(|x| x.f()).collect()))); }
            EOp::Attack(x) => { s.set_attack_frames(*x); v.push(("-".into(), None)); }
            EOp::Release(x) => { s.set_release_frames(*x); v.push(("-".into(), None)); }
        }
    }
    for _ in 0..extra { let o = s.next(); v.push((frame_tok(o), Some(o.channels().map(|x| x.f()).collect()))); }
    drop(s);
    v.push((format!("p{}", pulls.get()), None));
    v
}

/// a source whose `is_exhausted()` report is independent of what it yields
struct Reporting<F> { frames: Vec<F>, pos: usize, report_from: usize }
impl<F: Frame> Signal for Reporting<F> {
    type Frame = F;
    fn next(&mut self) -> F { let f = if self.pos < self.frames.len() { self.frames[self.pos] } else { F::EQUILIBRIUM }; self.pos += 1; f }
    fn is_exhausted(&self) -> bool { self.pos >= self.report_from }
}

/// the same history through the adaptor over a source that reports exhaustion from frame `rep` on while it keeps
/// yielding frames, with a HAND-OVER after `h` operations: `into_parts()` and on with the bare detector and source.
/// Returns the outputs and whether the source was handed back right after the frames pulled.
fn drive_handover<F, D>(det: Detector<F, D>, ops: &[EOp], h: usize, rep: usize) -> (Vec<String>, bool)
where F: Frame, F::Sample: Flt, D: Detect<F>, <D::Output as Frame>::Sample: Flt {
    let frames: Vec<F> = ops.iter().filter_map(|op| if let EOp::Next(raw) = op { Some(F::from_fn(|i| <F::Sample as Flt>::from_b(raw[i]))) } else { None }).collect();
    let mut s = Reporting { frames, pos: 0, report_from: rep }.detect_envelope(det);
    let mut v = Vec::new();
    let mut pulled = 0usize;
    for op in &ops[..h] {
        match op {
            EOp::Next(_) => { v.push(frame_tok(s.next())); pulled += 1; }
            EOp::Attack(x) => { s.set_attack_frames(*x); v.push("-".into()); }
            EOp::Release(x) => { s.set_release_frames(*x); v.push("-".into()); }
        }
    }
    let (mut src, mut det) = s.into_parts();
    let pos_ok = src.pos == pulled;
    for op in &ops[h..] {
        match op {
            EOp::Next(_) => { let f = src.next(); v.push(frame_tok(det.next(f))); }
            EOp::Attack(x) => { det.set_attack_frames(*x); v.push("-".into()); }
            EOp::Release(x) => { det.set_release_frames(*x); v.push("-".into()); }
        }
    }
    (v, pos_ok)
}

thread_local! { static ZFEED: std::cell::RefCell<(Vec<Vec<u64>>, usize)> = std::cell::RefCell::new((Vec::new(), 0)); }

/// the reverse hand-over: the first `h` operations on the BARE detector, which is then wrapped (`source.detect_envelope(det)`)
/// in its used state — previous envelope, current gains — for the rest: a detector does not start over when it is wrapped
fn drive_wrap_warm<F, D>(mut det: Detector<F, D>, ops: &[EOp], h: usize) -> Vec<String>
where F: Frame, F::Sample: Flt, D: Detect<F>, <D::Output as Frame>::Sample: Flt {
    let frames: Vec<F> = ops.iter().filter_map(|op| if let EOp::Next(raw) = op { Some(F::from_fn(|i| <F::Sample as Flt>::from_b(raw[i]))) } else { None }).collect();
    let mut v = Vec::new();
    let mut k = 0usize;
    for op in &ops[..h] {
        match op {
            EOp::Next(_) => { v.push(frame_tok(det.next(frames[k]))); k += 1; }
            EOp::Attack(x) => { det.set_attack_frames(*x); v.push("-".into()); }
            EOp::Release(x) => { det.set_release_frames(*x); v.push("-".into()); }
        }
    }
    // for even h the rest goes through a ZERO-SIZED source (gen over a closure capturing nothing, thread-local feed)
    if h % 2 == 0 {
        let raws: Vec<Vec<u64>> = ops.iter().filter_map(|op| if let EOp::Next(raw) = op { Some(raw.clone()) } else { None }).skip(k).collect();
        ZFEED.with(|z| *z.borrow_mut() = (raws, 0));
        let mut s = signal::gen(|| ZFEED.with(|z| { let mut z = z.borrow_mut(); let i = z.1; z.1 += 1; match z.0.get(i) { Some(raw) => F::from_fn(|c| <F::Sample as Flt>::from_b(raw[c])), None => F::EQUILIBRIUM } })).detect_envelope(det);
        for op in &ops[h..] {
            match op {
                EOp::Next(_) => v.push(frame_tok(s.next())),
                EOp::Attack(x) => { s.set_attack_frames(*x); v.push("-".into()); }
                EOp::Release(x) => { s.set_release_frames(*x); v.push("-".into()); }
            }
        }
        return v;
    }
    let mut s = signal::from_iter(frames[k..].to_vec()).detect_envelope(det);
    for op in &ops[h..] {
        match op {
            EOp::Next(_) => v.push(frame_tok(s.next())),
            EOp::Attack(x) => { s.set_attack_frames(*x); v.push("-".into()); }
            EOp::Release(x) => { s.set_release_frames(*x); v.push("-".into()); }
        }
    }
    v
}

fn with_det<F>(det: Det, a: f32, r: f32, ops: &[EOp], sig: Option<usize>) -> Option<Vec<(String, Option<Vec<f64>>)>>
where F: Frame + 'static, F::Sample: Flt, <F::Signed as Frame>::Sample: Flt, <F::Float as Frame>::Sample: Flt {
    guarded(|| match (det, sig) {
        (Det::Fw, None) => drive(Detector::<F, _>::peak(a, r), ops),
        (Det::Ph, None) => drive(Detector::<F, _>::peak_positive_half_wave(a, r), ops),
        (Det::Nh, None) => drive(Detector::<F, _>::peak_negative_half_wave(a, r), ops),
        (Det::Rms(n), None) => drive(Detector::<F, Rms<F, Vec<F::Float>>>::rms(Fixed::from_raw_parts(ops.len() % n.max(1), vec![F::Float::EQUILIBRIUM; n]), a, r), ops),
        (Det::Fw, Some(x)) => drive_sig(Detector::<F, _>::peak(a, r), ops, x),
        (Det::Ph, Some(x)) => drive_sig(Detector::<F, _>::peak_positive_half_wave(a, r), ops, x),
        (Det::Nh, Some(x)) => drive_sig(Detector::<F, _>::peak_negative_half_wave(a, r), ops, x),
        (Det::Rms(n), Some(x)) => drive_sig(Detector::<F, Rms<F, Vec<F::Float>>>::rms(Fixed::from(vec![F::Float::EQUILIBRIUM; n]), a, r), ops, x),
    })
}

fn with_wrap_warm<F>(det: Det, a: f32, r: f32, ops: &[EOp], h: usize) -> Option<Vec<String>>
where F: Frame + 'static, F::Sample: Flt, <F::Signed as Frame>::Sample: Flt, <F::Float as Frame>::Sample: Flt {
    guarded(|| match det {
        Det::Fw => drive_wrap_warm(Detector::<F, _>::peak(a, r), ops, h),
        Det::Ph => drive_wrap_warm(Detector::<F, _>::peak_positive_half_wave(a, r), ops, h),
        Det::Nh => drive_wrap_warm(Detector::<F, _>::peak_negative_half_wave(a, r), ops, h),
        Det::Rms(n) => drive_wrap_warm(Detector::<F, Rms<F, Vec<F::Float>>>::rms(Fixed::from_raw_parts(ops.len() % n.max(1), vec![F::Float::EQUILIBRIUM; n]), a, r), ops, h),
    })
}

fn with_handover<F>(det: Det, a: f32, r: f32, ops: &[EOp], h: usize, rep: usize) -> Option<(Vec<String>, bool)>
where F: Frame + 'static, F::Sample: Flt, <F::Signed as Frame>::Sample: Flt, <F::Float as Frame>::Sample: Flt {
    guarded(|| match det {
        Det::Fw => drive_handover(Detector::<F, _>::peak(a, r), ops, h, rep),
        Det::Ph => drive_handover(Detector::<F, _>::peak_positive_half_wave(a, r), ops, h, rep),
        Det::Nh => drive_handover(Detector::<F, _>::peak_negative_half_wave(a, r), ops, h, rep),
        Det::Rms(n) => drive_handover(Detector::<F, Rms<F, Vec<F::Float>>>::rms(Fixed::from_raw_parts(ops.len() % n.max(1), vec![F::Float::EQUILIBRIUM; n]), a, r), ops, h, rep),
    })
}

/// gain from the property text, in f64: exp(-1/frames), 0 for zero frames; and a bound on what an f32 evaluation may differ by
fn gain_ref(frames: f32) -> (f64, f64) {
    if frames == 0.0 { return (0.0, 0.0); }
    let y = -1.0 / frames as f64;
    let g = y.exp();
    (g, g * (y.abs() + 2.0) * 2.4e-7 + 1e-44)
}

struct Tally { max_ratio: f64 }

/// the property oracles on one observed history
fn env_oracles<F>(st: &mut Stream, tally: &mut Tally, det: Det, a: f32, r: f32, ops: &[EOp], outs: &[(String, Option<Vec<f64>>)], req: &str)
where F: Frame + 'static, F::Sample: Flt, <F::Float as Frame>::Sample: Flt {
    let ch = F::CHANNELS;
    let u = <F::Sample as Flt>::U;
    let tiny = <F::Sample as Flt>::TINY;
    let mut last = vec![0.0f64; ch];
    let (mut att, mut rel) = (a, r);
    // independent detected values for the RMS detector: a detector of its own (C11's subject), fed the same frames
    let mut rms: Option<Rms<F, Vec<F::Float>>> = if let Det::Rms(n) = det { Some(Rms::new(Fixed::from(vec![F::Float::EQUILIBRIUM; n]))) } else { None };
    for (idx, op) in ops.iter().enumerate() {
        match op {
            EOp::Attack(x) => { att = *x; st.count("op:set_attack"); }
            EOp::Release(x) => { rel = *x; st.count("op:set_release"); }
            EOp::Next(raw) => {
                st.count("op:next");
                let fr = F::from_fn(|i| <F::Sample as Flt>::from_b(raw[i]));
                let d: Vec<f64> = match det {
                    Det::Fw => fr.channels().map(|x| x.f().abs()).collect(),
                    Det::Ph => fr.channels().map(|x| if x.f() < 0.0 { 0.0 } else { x.f() }).collect(),
                    Det::Nh => fr.channels().map(|x| if x.f() > 0.0 { 0.0 } else { x.f() }).collect(),
                    Det::Rms(_) => rms.as_mut().unwrap().next(fr).channels().map(|x| x.f()).collect(),
                };
                let o = match &outs[idx].1 { Some(o) => o, None => { st.oracle_fail("next() returned no frame", req, "frame", &outs[idx].0); return; } };
                for c in 0..ch {
                    let (l, d, e) = (last[c], d[c], o[c]);
                    if !(l.is_finite() && d.is_finite()) { st.count("skipped:non-finite"); continue; }
                    let attack = l < d;
                    st.count(if attack { "branch:attack" } else { "branch:release" });
                    let frames = if attack { att } else { rel };
                    let (g, gtol) = gain_ref(frames);
                    // (1) the formula
                    let exp = d + g * (l - d);
                    // three roundings (l - d, * g, d +): relative u each, or half the smallest subnormal when the result is subnormal
                    let tol = 4.0 * u * (d.abs() + (l - d).abs()) + (l - d).abs() * gtol + 4.0 * tiny;
                    let dev = (e - exp).abs();
                    if dev / tol > tally.max_ratio { tally.max_ratio = dev / tol; }
                    if dev <= tol { st.oracle_ok(1); } else {
                        st.oracle_fail("envelope output != detected + gain * (previous - detected)", req, &format!("{:e} +- {:e} (op #{}, channel {}, l = {:e}, d = {:e}, g = {:e}, {})", exp, tol, idx, c, l, d, g, if attack { "attack" } else { "release" }), &format!("{:e}", e));
                    }
                    // (2) between previous envelope and detected value; one ulp of slack only where g >= 1 - 2^-20
                    let (lo, hi) = if l < d { (l, d) } else { (d, l) };
                    let slack = if g >= 1.0 - 9.6e-7 { st.count("between:one-ulp-tolerance"); 4.0 * u * hi.abs().max(lo.abs()) } else { 0.0 };
                    if lo - slack <= e && e <= hi + slack { st.oracle_ok(1); } else {
                        st.oracle_fail("envelope output not between previous envelope and detected value", req, &format!("[{:e}, {:e}] (op #{}, channel {})", lo, hi, idx, c), &format!("{:e}", e));
                    }
                    // (3) zero time: equals the detected value
                    if frames == 0.0 {
                        st.count("gain:zero");
                        if e == d { st.oracle_ok(1); } else { st.oracle_fail("time 0 but output != detected value", req, &format!("{:e}", d), &format!("{:e}", e)); }
                    }
                    last[c] = e;
                }
            }
        }
    }
}

/// attack / release times: the ordinary ones and the rare values of the domain "times >= 0":
/// +0.0, -0.0 (compares == 0 and >= 0), the smallest subnormal, a subnormal, 1e-30, huge values up to f32::MAX
const TIMES: [f32; 5] = [0.0, 0.5, 1.0, 10.0, 1e4];
fn special_times() -> [f32; 9] { [0.0, -0.0, f32::from_bits(1), 1e-40, 1e-30, 1e-3, 1e30, f32::MAX, 3.0e7] }
fn time_class(x: f32) -> &'static str {
    if x == 0.0 { if x.is_sign_negative() { "time:-0.0" } else { "time:+0.0" } }
    else if x < f32::MIN_POSITIVE { "time:subnormal" } else if x < 1e-20 { "time:tiny" } else if x >= 1e20 { "time:huge" } else { "time:ordinary" }
}
/// a time for the constructor or a setter: ordinary, special, random, or one used before (returning to an earlier
/// value, repeating the current one)
fn pick_time(rng: &mut Rng, used: &mut Vec<f32>) -> f32 {
    let r = rng.below(12);
    let t = if r < 4 { *rng.pick(&TIMES) }
        else if r < 7 { *rng.pick(&special_times()) }
        else if r < 8 { (rng.f64_unit() * 50.0) as f32 }
        else if !used.is_empty() { if rng.chance(1, 2) { used[0] } else { *rng.pick(&used[..]) } }
        else { *rng.pick(&TIMES) };
    used.push(t);
    t
}

fn gen_env_ops(rng: &mut Rng, is32: bool, ch: usize, len: usize, used_a: &mut Vec<f32>, used_r: &mut Vec<f32>) -> Vec<EOp> {
    let style = rng.below(5);
    let mut level = vec![0.0f64; ch];
    let mut ops = Vec::new();
    for i in 0..len {
        let r = rng.below(100);
        if r < 6 { ops.push(EOp::Attack(pick_time(rng, used_a))); continue; }
        if r < 12 { ops.push(EOp::Release(pick_time(rng, used_r))); continue; }
        let fr: Vec<u64> = (0..ch).map(|c| {
            let x = match style {
                0 => rng.f64_unit() * 2.0 - 1.0,
                1 => { if i % 8 == 0 { level[c] = rng.f64_unit() * 2.0 - 1.0; } level[c] }   // steps: constant stretches (convergence)
                2 => if (i / 3) % 2 == 0 { 0.8 } else { -0.8 },
                3 => if rng.chance(1, 3) { 0.0 } else { (rng.f64_unit() * 2.0 - 1.0) * 1e3 },
                _ => *rng.pick(&[0.0, -0.0, 1.0, -1.0, 0.5, -0.25]),
            };
            if is32 { (x as f32).to_bits() as u64 } else { x.to_bits() }
        }).collect();
        ops.push(EOp::Next(fr));
    }
    ops
}

fn env_case<F>(st: &mut Stream, tally: &mut Tally, rng: &mut Rng, sig: bool)
where F: Frame + 'static, F::Sample: Flt, <F::Signed as Frame>::Sample: Flt, <F::Float as Frame>::Sample: Flt {
    let is32 = <F::Sample as Flt>::NAME == "f32";
    let det = *rng.pick(&[Det::Fw, Det::Fw, Det::Ph, Det::Nh, Det::Rms(1), Det::Rms(4)]);
    let (mut used_a, mut used_r) = (Vec::new(), Vec::new());
    let (a, r) = (pick_time(rng, &mut used_a), pick_time(rng, &mut used_r));
    let len = 1 + rng.usize_below(50);
    let ops = gen_env_ops(rng, is32, F::CHANNELS, len, &mut used_a, &mut used_r);
    for op in &ops { match op { EOp::Attack(x) | EOp::Release(x) => st.count(&format!("set {}", time_class(*x))), _ => {} } }
    for w in [&used_a, &used_r] { if w.len() >= 3 && w[1..w.len() - 1].iter().any(|x| x.to_bits() != w[0].to_bits()) && w[2..].iter().any(|x| x.to_bits() == w[0].to_bits()) { st.count("setter sequence returns to the constructor's value"); } }
    for w in [&used_a, &used_r] { if w.windows(2).any(|p| p[0].to_bits() == p[1].to_bits()) { st.count("setter repeats the current value"); } }
    let extra = if sig { rng.usize_below(4) } else { 0 };
    let mut req = format!("{} {} {} {} {} {}", if sig { "envsig" } else { "env" }, <F::Sample as Flt>::NAME, det.name(), F::CHANNELS, a.to_bits(), r.to_bits());
    for op in &ops {
        match op {
            EOp::Next(raw) => { req.push_str(" n:"); req.push_str(&raw.iter().map(|b| tok(<F::Sample as Flt>::from_b(*b))).collect::<Vec<_>>().join(",")); }
            EOp::Attack(x) => req.push_str(&format!(" a:{}", x.to_bits())),
            EOp::Release(x) => req.push_str(&format!(" r:{}", x.to_bits())),
        }
    }
    for _ in 0..extra { req.push_str(" x"); }
    mark(0, &req);
    let res = with_det::<F>(det, a, r, &ops, if sig { Some(extra) } else { None });
    let nexts = ops.iter().filter(|o| matches!(o, EOp::Next(_))).count();
    let changes = ops.len() - nexts;
    st.count(&format!("det:{}", det.name())); st.count(&format!("fmt:{}", <F::Sample as Flt>::NAME)); st.count(&format!("ch:{}", F::CHANNELS));
    st.count(&format!("new attack {}", time_class(a))); st.count(&format!("new release {}", time_class(r)));
    match res {
        None => { st.case(&req, "panic", true, ops.len() as u64); st.oracle_fail("Detector panicked", &req, "no panic", "panic"); }
        Some(outs) => {
            st.case(&req, &outs.iter().map(|t| t.0.clone()).collect::<Vec<_>>().join(" "), nexts >= 2, ((nexts + extra) * F::CHANNELS) as u64);
            env_oracles::<F>(st, tally, det, a, r, &ops, &outs, &req);
            // the detector fed directly must agree with the adaptor, one source pull per output
            if sig {
                let direct = with_det::<F>(det, a, r, &ops, None).unwrap_or_default();
                let same = direct.iter().zip(outs.iter()).all(|(x, y)| x.0 == y.0);
                if same { st.oracle_ok(direct.len() as u64); } else { st.oracle_fail("detect_envelope output differs from the detector fed the same frames", &req, &direct.iter().map(|t| t.0.clone()).collect::<Vec<_>>().join(" "), &outs.iter().map(|t| t.0.clone()).collect::<Vec<_>>().join(" ")); }
                let p = outs.last().map(|t| t.0.clone()).unwrap_or_default();
                if p == format!("p{}", nexts + extra) { st.oracle_ok(1); } else { st.oracle_fail("detect_envelope did not pull exactly one source frame per output", &req, &format!("p{}", nexts + extra), &p); }
                // hand-over at every kind of point (right after a setter, before the first frame, at the end), over a source
                // that reports exhaustion while it still yields frames: into_parts() and on with the bare detector
                let h = (nexts * 5 + changes * 3 + extra) % (ops.len() + 1);
                let rep = (nexts * 3 + extra) % (nexts + 2);
                st.count(if h > 0 && !matches!(ops[h - 1], EOp::Next(_)) { "hand-over right after a setter" } else if h == 0 { "hand-over before the first frame" } else { "hand-over after a frame" });
                match with_wrap_warm::<F>(det, a, r, &ops, h) {
                    None => st.oracle_fail("detector / detect_envelope panicked", &req, "no panic", "panic"),
                    Some(v) => {
                        let same = v.len() == ops.len() && v.iter().zip(direct.iter()).all(|(x, y)| *x == y.0);
                        if same { st.oracle_ok(v.len() as u64); st.count("used detector wrapped mid-history"); } else { st.oracle_fail(&format!("the bare detector for the first {} operations, then wrapped by detect_envelope in its used state: outputs differ from the detector fed the same frames throughout", h), &req, &direct.iter().map(|t| t.0.clone()).collect::<Vec<_>>().join(" "), &v.join(" ")); }
                    }
                }
                match with_handover::<F>(det, a, r, &ops, h, rep) {
                    None => st.oracle_fail("adaptor / into_parts panicked", &req, "no panic", "panic"),
                    Some((v, pos_ok)) => {
                        let same = v.len() == ops.len() && v.iter().zip(direct.iter()).all(|(x, y)| *x == y.0);
                        if same && pos_ok { st.oracle_ok(v.len() as u64 + 1); } else { st.oracle_fail(&format!("detect_envelope over a source reporting exhaustion from frame {} on, into_parts() after {} operations, then the bare detector: outputs / source position differ from the detector fed the same frames", rep, h), &req, &direct.iter().map(|t| t.0.clone()).collect::<Vec<_>>().join(" "), &format!("{} (source position ok: {})", v.join(" "), pos_ok)); }
                    }
                }
            }
            // changing attack/release affects only subsequent frames: the outputs before the first change equal a run without it
            if !sig && changes > 0 {
                let p = ops.iter().position(|o| !matches!(o, EOp::Next(_))).unwrap();
                let pre = with_det::<F>(det, a, r, &ops[..p], None).unwrap_or_default();
                if pre.iter().zip(outs.iter()).all(|(x, y)| x.0 == y.0) && pre.len() == p { st.oracle_ok(p as u64 + 1); st.count("mid-stream change: prefix unaffected"); } else {
                    st.oracle_fail("a later set_attack/set_release changed earlier outputs", &req, &pre.iter().map(|t| t.0.clone()).collect::<Vec<_>>().join(" "), &outs[..p.min(outs.len())].iter().map(|t| t.0.clone()).collect::<Vec<_>>().join(" "));
                }
            }
        }
    }
}

// ---------------------------------------------------------------------------------------------
// integer frames through the peak detectors ("for every sample format"): exact oracles in i128, no float model

/// the f32 gain a detector uses for a time constant, read off the float detector: with attack 0, after 1.0 then
/// 0.0 the second output is exactly `0 + (1 - 0) * release_gain`
fn gain_of(frames: f32) -> f64 {
    let mut d = Detector::<f32, _>::peak(0.0, frames);
    d.next(1.0);
    d.next(0.0) as f64
}

fn int_amp(rng: &mut Rng, bits: u32, lim: i128) -> i128 {
    let v = match rng.below(6) {
        0 => *rng.pick(&[0i128, 1, -1, lim, -lim, lim - 1, 2, -2]),
        1 | 2 => { let k = rng.below(bits as u64 - 1) as u32; let b = 1i128 << k; b + rng.range_i128(-1, 1) * if rng.chance(1, 2) { 1 } else { -1 } * 1 }
        3 => -((1i128 << rng.below(bits as u64 - 1) as u32) + rng.range_i128(-1, 1)),
        _ => rng.range_i128(-lim, lim),
    };
    v.max(-lim).min(lim)
}

/// `exact`: every value of the format is exactly representable in the format's float type (then `l - d` and the
/// product's rounding cannot leave the interval); `fl_u`: unit round-off of that float type
fn env_int_case<F>(st: &mut Stream, rng: &mut Rng, exact: bool, fl_u: f64)
where F: Frame + 'static, F::Sample: ISmp, <F::Sample as Sample>::Signed: Copy,
      F::Signed: Frame<Sample = <F::Sample as Sample>::Signed> {
    let bits = <F::Sample as ISmp>::BITS; let eq = <F::Sample as ISmp>::EQ;
    let half: i128 = 1 << (bits - 1);
    // -amp representable; for the formats wider than their float's mantissa stay a factor 2 inside the range (the
    // rounded difference may exceed the exact one by a few hundred LSB: no integer overflow in the final addition)
    let lim = if exact { half - 1 } else { (half >> 1) - 1 };
    let times = [0.0f32, 0.0, 1.0, 3.5, 1000.0, 1e30, -0.0, 0.25];
    let (a, r) = (*rng.pick(&times), *rng.pick(&times));
    let kind = *rng.pick(&[Kind::Fw, Kind::Ph, Kind::Nh]);
    let len = 4 + rng.below(12) as usize;
    let mut frames: Vec<Vec<i128>> = Vec::new();
    for i in 0..len {
        if i > 0 && rng.chance(1, 3) { let prev = frames[i - 1].clone(); frames.push(prev); continue; }
        frames.push((0..F::CHANNELS).map(|_| int_amp(rng, bits, lim)).collect());
    }
    env_int_eval::<F>(st, kind, a, r, &frames, exact, fl_u);
}

/// listed in /verif/known_findings.json: for an integer format wider than its float type's mantissa the difference
/// (previous - detected) is rounded to the float type before it is scaled, so with a gain that rounds to (nearly) 1 the
/// output overshoots the previous envelope by up to |previous - detected| * 2.5u
const KNOWN_WIDE: &str = "C19-wide-int-difference-rounding";

fn env_int_eval<F>(st: &mut Stream, kind: Kind, a: f32, r: f32, frames: &[Vec<i128>], exact: bool, fl_u: f64)
where F: Frame + 'static, F::Sample: ISmp, <F::Sample as Sample>::Signed: Copy,
      F::Signed: Frame<Sample = <F::Sample as Sample>::Signed> {
    let eq = <F::Sample as ISmp>::EQ;
    let (ga, gr) = (gain_of(a), gain_of(r));
    let req = format!("envelope over {} frames x{} ({}), attack {} release {} frames, signed amplitudes {:?}", <F::Sample as ISmp>::NAME, F::CHANNELS, kind.name(), a, r, frames);
    mark(0, &req);
    let mk = |fr: &Vec<i128>| F::from_fn(|c| <F::Sample as ISmp>::of(fr[c] + eq));
    let outs: Option<Vec<Vec<i128>>> = guarded(|| match kind {
        Kind::Fw => { let mut det = Detector::<F, _>::peak(a, r); frames.iter().map(|fr| det.next(mk(fr)).channels().map(|x| <F::Sample as ISmp>::sval(x)).collect()).collect() }
        Kind::Ph => { let mut det = Detector::<F, _>::peak_positive_half_wave(a, r); frames.iter().map(|fr| det.next(mk(fr)).channels().map(|x| x.val() - eq).collect()).collect() }
        Kind::Nh => { let mut det = Detector::<F, _>::peak_negative_half_wave(a, r); frames.iter().map(|fr| det.next(mk(fr)).channels().map(|x| x.val() - eq).collect()).collect() }
    });
    let outs = match outs { Some(o) => o, None => { st.oracle_fail("the envelope detector panicked on in-range integer frames (negated amplitudes representable)", &req, "no panic", "panic"); return; } };
    let mut l: Vec<i128> = vec![0; F::CHANNELS];
    for (i, fr) in frames.iter().enumerate() {
        for c in 0..F::CHANNELS {
            let d = match kind { Kind::Fw => fr[c].abs(), Kind::Ph => fr[c].max(0), Kind::Nh => fr[c].min(0) };
            let (lo, o) = (l[c], outs[i][c]);
            let (g, t) = if lo < d { (ga, a) } else { (gr, r) };
            let at = format!("frame {} channel {}: previous envelope {}, detected {}, gain {:e}", i, c, lo, d, g);
            if t == 0.0 {
                if o == d { st.oracle_ok(1); } else { st.oracle_fail("time constant 0: the envelope output is not the detected value", &format!("{} / {}", req, at), &d.to_string(), &o.to_string()); return; }
            }
            if lo == d {
                if o == d { st.oracle_ok(1); st.count("integer envelope: previous == detected"); } else { st.oracle_fail("previous envelope equals the detected value, the output differs from both", &format!("{} / {}", req, at), &d.to_string(), &o.to_string()); return; }
            }
            if o >= lo.min(d) && o <= lo.max(d) { st.oracle_ok(1); } else {
                let beyond_prev = (lo > d && o > lo) || (lo < d && o < lo);
                let excess = if o > lo.max(d) { o - lo.max(d) } else { lo.min(d) - o };
                if !exact && beyond_prev && excess as f64 <= (lo - d).abs() as f64 * 2.5 * fl_u + 1.0 {
                    st.known_hit(KNOWN_WIDE, &format!("{} / {}", req, at), &format!("output {} is {} beyond the previous envelope", o, excess));
                } else { st.oracle_fail("integer envelope output outside [previous envelope, detected value]", &format!("{} / {}", req, at), &format!("within [{}, {}]", lo.min(d), lo.max(d)), &o.to_string()); return; }
            }
            let e = d as f64 + g * (lo - d) as f64;
            let tol = 2.0 + ((lo - d).abs() as f64 + d.abs() as f64 + lo.abs() as f64) * 4.0 * fl_u;
            if (o as f64 - e).abs() <= tol { st.oracle_ok(1); } else { st.oracle_fail("integer envelope output is not detected + gain x (previous - detected) (up to the rounding of one product and 2 LSB)", &format!("{} / {}", req, at), &format!("{} +- {}", e, tol), &o.to_string()); return; }
            l[c] = o;
        }
    }
    st.count(&format!("integer envelope histories: {}", <F::Sample as ISmp>::NAME));
}

fn run_env(a: &Args, sig: bool) {
    let name = if sig { "envsig" } else { "env" };
    let mut st = Stream::new(&a.out, name);
    let mut rng = Rng::new(a.seed, name);
    let mut tally = Tally { max_ratio: 0.0 };
    let n = if a.thorough() { 6000 } else { 500 } / if sig { 2 } else { 1 };
    for _ in 0..n {
        env_case::<f32>(&mut st, &mut tally, &mut rng, sig);
        env_case::<[f32; 1]>(&mut st, &mut tally, &mut rng, sig);
        env_case::<[f32; 2]>(&mut st, &mut tally, &mut rng, sig);
        env_case::<f64>(&mut st, &mut tally, &mut rng, sig);
        env_case::<[f64; 2]>(&mut st, &mut tally, &mut rng, sig);
    }
    if !sig {
        let mut r2 = Rng::new(a.seed, "envint");
        // the probe of the listed finding: i32 through f32, release gain exp(-1e-30) = 1.0f32
        env_int_eval::<i32>(&mut st, Kind::Fw, 0.0, 1e30, &[vec![(1i128 << 30) + 65], vec![0]], false, 2f64.powi(-24));
        for _ in 0..n {
            env_int_case::<[i16; 2]>(&mut st, &mut r2, true, 2f64.powi(-24));
            env_int_case::<u16>(&mut st, &mut r2, true, 2f64.powi(-24));
            env_int_case::<[i8; 3]>(&mut st, &mut r2, true, 2f64.powi(-24));
            env_int_case::<[u8; 1]>(&mut st, &mut r2, true, 2f64.powi(-24));
            env_int_case::<[i32; 2]>(&mut st, &mut r2, false, 2f64.powi(-24));
            env_int_case::<u32>(&mut st, &mut r2, false, 2f64.powi(-24));
            env_int_case::<i64>(&mut st, &mut r2, false, 2f64.powi(-53));
        }
        st.note("integer frames ([i16;2], u16, [i8;3], [u8;1] exactly representable in f32; [i32;2], u32 via f32 and i64 via f64 are not) through the three peak detectors: output = detected at time 0, output = detected when previous = detected, output within [previous, detected] (exact formats), output = detected + gain x (previous - detected) within 2 LSB + 4u(|l-d|+|l|+|d|); the gain is read off the float detector. For the formats wider than their float's mantissa an output beyond the previous envelope by at most |l-d| 2.5u + 1 is the listed finding C19-wide-int-difference-rounding (anything else outside the interval is a violation); amplitudes stay within half the range.");
    }
    st.note(&format!("formula oracle: |out - (d + g (l - d))| <= 4u(|d| + |l - d|) + |l - d| * gtol + 4 * (smallest subnormal), g = exp(-1/frames) in f64, gtol = g (|1/frames| + 2) 2.4e-7 (f32 evaluation of the gain); largest observed deviation / tolerance = {:.4}", tally.max_ratio));
    st.note("betweenness is checked exactly (no tolerance) for every gain < 1 - 2^-20; where the f32 gain rounds to >= 1 - 2^-20 (times >= ~1e6) a tolerance of 4u*max(|l|,|d|) applies, counted in the histogram (between:one-ulp-tolerance)");
    st.finish();
}

fn main() {
    let a = Args::parse();
    match a.stream.as_str() {
        "rect" => run_rect(&a),
        "env" => run_env(&a, false),
        "envsig" => run_env(&a, true),
        s => { eprintln!("unknown stream {}", s); std::process::exit(2); }
    }
}
