//! C17 — oscillators and noise sources keep phase and amplitude in range at any rate.
//! Streams `osc`, `noise`, `simplex`: the real `dasp_signal` generators against the Lean model
//! (`Model/Osc.lean` at native f64), plus oracles written directly from the property text
//! (running phase by `x - floor(x)`, range checks, waveform/phase relations, clone/restart
//! reproduction, pull counters) that never consult the model.
#[path = "../util.rs"]
mod util;
use dasp_signal::{self as signal, Signal};
use std::cell::{Cell, RefCell};
use std::rc::Rc;
use util::*;

const KNOWN_ID: &str = "C17-step-overflow";

fn canon(x: f64) -> u64 { if x.is_nan() { 0x7ff8_0000_0000_0000 } else { x.to_bits() } }
fn hx(x: f64) -> String { format!("{:016x}", canon(x)) }
fn raw(x: f64) -> String { format!("{:016x}", x.to_bits()) }

/// counts how often the oscillator pulls a frame from its frequency signal and records the frames it was
/// handed; transparent otherwise (in particular it reports the inner signal's `is_exhausted()`)
struct Counted<S> { inner: S, n: Rc<Cell<u64>>, log: Rc<RefCell<Vec<f64>>> }
impl<S: Signal<Frame = f64>> Signal for Counted<S> {
    type Frame = f64;
    fn next(&mut self) -> f64 { self.n.set(self.n.get() + 1); let x = self.inner.next(); self.log.borrow_mut().push(x); x }
    fn is_exhausted(&self) -> bool { self.inner.is_exhausted() }
}

// ------------------------------------------------------------------------------------------
// input distribution

const RATES: [f64; 22] = [
    44100.0, 48000.0, 96000.0, 22050.0, 8000.0, 1.0, 2.0, 4.0, 0.5, 3.0, 7.0, 1e-3, 0.1, 1e9, 1e300, 1e-300,
    65536.0, 1048576.0, 4503599627370496.0, 1.7976931348623157e308, 2.2250738585072014e-308, 5e-324,
];

fn rand_rate(r: &mut Rng) -> (f64, &'static str) {
    match r.below(10) {
        0..=4 => (*r.pick(&RATES), "rate:table"),
        5 => ((2.0f64).powi(r.range(-40, 40) as i32), "rate:pow2"),
        6 => (1.0 + r.below(200_000) as f64, "rate:int"),
        7 => (10f64.powf(r.f64_unit() * 20.0 - 6.0), "rate:log-uniform"),
        _ => {
            // random positive finite bit pattern
            let b = r.next_u64() & 0x7fff_ffff_ffff_ffff;
            let x = f64::from_bits(b);
            if x.is_finite() && x > 0.0 { (x, "rate:random-bits") } else { (44100.0, "rate:table") }
        }
    }
}

/// a finite non-negative frequency for the given rate; label = class
fn rand_hz(r: &mut Rng, rate: f64) -> (f64, &'static str) {
    let (x, l) = match r.below(20) {
        0 => (0.0, "hz:0"),
        1 => (rate / 4.0, "hz:rate/4"),
        2 => (rate / 3.0, "hz:rate/3"),
        3 => (rate, "hz:=rate"),
        4 => (rate * 1.5, "hz:1.5rate"),
        5 => (rate * (1.0 + r.below(50) as f64) + rate * r.f64_unit(), "hz:>rate"),
        6 => (rate * 1e-12 * r.f64_unit(), "hz:tiny"),
        7 => (rate * (2.0f64).powi(-(r.range(40, 1070) as i32)), "hz:rate*2^-k"),
        8 => (440.0, "hz:440"),
        9 | 10 | 11 => (rate * r.f64_unit(), "hz:<rate"),
        12 => (rate * r.f64_unit() * 0.01, "hz:<rate/100"),
        13 => (rate * 1e6 * (1.0 + r.f64_unit()), "hz:rate*1e6"),
        14 => (rate * (2.0f64).powi(r.range(50, 70) as i32) * (1.0 + r.f64_unit()), "hz:rate*2^60"),
        15 => (f64::from_bits(r.below(1 << 52)), "hz:subnormal"),
        16 => (rate * (r.below(16) as f64) / 16.0, "hz:dyadic"),
        17 => (rate * 0.5, "hz:rate/2"),
        18 => (rate * (1.0 - (2.0f64).powi(-53)), "hz:rate-ulp"),
        _ => (rate * (r.below(1000) as f64) / 7.0, "hz:k*rate/7"),
    };
    if x.is_finite() && x >= 0.0 { (x, l) } else { (0.0, "hz:0") }
}

// ------------------------------------------------------------------------------------------
// running the real generators

/// phase / sine / saw / square, each on its own oscillator built by `mk(i)`
fn run4<St: signal::Step>(mk: impl Fn(usize) -> St, n: usize) -> Vec<[f64; 4]> {
    let mut ph = signal::phase(mk(0));
    let mut si = signal::phase(mk(1)).sine();
    let mut sa = signal::phase(mk(2)).saw();
    let mut sq = signal::phase(mk(3)).square();
    (0..n).map(|_| [ph.next(), si.next(), sa.next(), sq.next()]).collect()
}

#[derive(Clone, Copy, PartialEq, Debug)]
enum VarSrc {
    /// `signal::gen_mut(closure over the track)`: never reports exhaustion
    GenMut,
    /// `signal::from_iter(track)`: reports exhaustion after its last frame, yields 0.0 from then on
    FromIter,
    /// `signal::from_iter(track).offset_amp(base)`: reports exhaustion, keeps yielding `base`
    OffsetAmp,
    /// `signal::from_iter(track).map(|f| f + base)`
    Map,
    /// `signal::from_iter(track).add_amp(signal::gen_mut(|| base))`
    AddAmp,
    /// `signal::gen_mut(|| base).add_amp(signal::from_iter(track))`
    AddAmpRev,
    /// a user `Signal` over the track (0.0 afterwards) whose `is_exhausted()` is true from the start
    AlwaysExhausted,
}
const ALL_SRC: [VarSrc; 7] = [VarSrc::GenMut, VarSrc::FromIter, VarSrc::OffsetAmp, VarSrc::Map, VarSrc::AddAmp, VarSrc::AddAmpRev, VarSrc::AlwaysExhausted];
impl VarSrc {
    fn label(self) -> &'static str {
        match self { VarSrc::GenMut => "src:gen_mut", VarSrc::FromIter => "src:from_iter", VarSrc::OffsetAmp => "src:from_iter.offset_amp",
            VarSrc::Map => "src:from_iter.map", VarSrc::AddAmp => "src:from_iter.add_amp(gen)", VarSrc::AddAmpRev => "src:gen.add_amp(from_iter)",
            VarSrc::AlwaysExhausted => "src:custom-always-exhausted" }
    }
    fn has_base(self) -> bool { matches!(self, VarSrc::OffsetAmp | VarSrc::Map | VarSrc::AddAmp | VarSrc::AddAmpRev) }
}

/// A frequency signal: a finite `track`, on top of a constant `base` for the adaptor kinds, polled `n` times
/// (`n` may exceed the track length: the run continues past the end of the finite part).
#[derive(Clone)]
struct VarSpec { kind: VarSrc, track: Vec<f64>, base: f64, n: usize }
impl VarSpec {
    fn plain(hz: &[f64], kind: VarSrc) -> VarSpec { VarSpec { kind, track: hz.to_vec(), base: 0.0, n: hz.len() } }
    /// the frames the signal yields, in plain arithmetic: track[i] (+ base), then 0.0 (+ base)
    fn yielded(&self) -> Vec<f64> {
        (0..self.n).map(|i| { let t = if i < self.track.len() { self.track[i] } else { 0.0 }; if self.kind.has_base() { t + self.base } else { t } }).collect()
    }
    /// keep the case inside the stated domain: every yielded frequency finite, >= 0, hz/rate finite
    fn sanitize(&mut self, rate: f64) {
        let ok = |h: f64| h.is_finite() && h >= 0.0 && (h / rate).is_finite();
        if !ok(self.base) { self.base = 0.0; }
        let (b, hb) = (self.base, self.kind.has_base());
        for t in self.track.iter_mut() { if !ok(*t) || (hb && !ok(*t + b)) { *t = 0.0; } }
    }
}

struct AlwaysExhausted { v: Vec<f64>, i: usize }
impl Signal for AlwaysExhausted {
    type Frame = f64;
    fn next(&mut self) -> f64 { let x = if self.i < self.v.len() { self.v[self.i] } else { 0.0 }; self.i += 1; x }
    fn is_exhausted(&self) -> bool { true }
}

type BoxGen = signal::GenMut<Box<dyn FnMut() -> f64>, f64>;
type Track = signal::FromIterator<std::vec::IntoIter<f64>>;
enum HzSig {
    G(BoxGen),
    I(Track),
    Off(signal::OffsetAmp<Track>),
    Map(signal::Map<Track, Box<dyn FnMut(f64) -> f64>, f64>),
    Add(signal::AddAmp<Track, BoxGen>),
    AddR(signal::AddAmp<BoxGen, Track>),
    Custom(AlwaysExhausted),
}
impl Signal for HzSig {
    type Frame = f64;
    fn next(&mut self) -> f64 {
        match self { HzSig::G(s) => s.next(), HzSig::I(s) => s.next(), HzSig::Off(s) => s.next(), HzSig::Map(s) => s.next(),
            HzSig::Add(s) => s.next(), HzSig::AddR(s) => s.next(), HzSig::Custom(s) => s.next() }
    }
    fn is_exhausted(&self) -> bool {
        match self { HzSig::G(s) => s.is_exhausted(), HzSig::I(s) => s.is_exhausted(), HzSig::Off(s) => s.is_exhausted(), HzSig::Map(s) => s.is_exhausted(),
            HzSig::Add(s) => s.is_exhausted(), HzSig::AddR(s) => s.is_exhausted(), HzSig::Custom(s) => s.is_exhausted() }
    }
}
fn const_gen(base: f64) -> BoxGen { let f: Box<dyn FnMut() -> f64> = Box::new(move || base); signal::gen_mut(f) }
fn hz_signal(sp: &VarSpec) -> HzSig {
    let v = sp.track.clone();
    let base = sp.base;
    match sp.kind {
        VarSrc::GenMut => {
            let mut i = 0usize;
            let f: Box<dyn FnMut() -> f64> = Box::new(move || { let x = if i < v.len() { v[i] } else { 0.0 }; i += 1; x });
            HzSig::G(signal::gen_mut(f))
        }
        VarSrc::FromIter => HzSig::I(signal::from_iter(v.into_iter())),
        VarSrc::OffsetAmp => HzSig::Off(signal::from_iter(v.into_iter()).offset_amp(base)),
        VarSrc::Map => { let m: Box<dyn FnMut(f64) -> f64> = Box::new(move |f| f + base); HzSig::Map(signal::from_iter(v.into_iter()).map(m)) }
        VarSrc::AddAmp => HzSig::Add(signal::from_iter(v.into_iter()).add_amp(const_gen(base))),
        VarSrc::AddAmpRev => HzSig::AddR(const_gen(base).add_amp(signal::from_iter(v.into_iter()))),
        VarSrc::AlwaysExhausted => HzSig::Custom(AlwaysExhausted { v, i: 0 }),
    }
}

/// random frequency-signal spec for an `n`-frame run
fn rand_var_spec(r: &mut Rng, rate: f64, n: usize, st: &mut Stream) -> VarSpec {
    let kind = *r.pick(&ALL_SRC);
    st.count(kind.label());
    let mut sp = if kind.has_base() {
        // finite modulation track (possibly empty) on a base frequency; the run continues past its end
        let l = r.usize_below(n);
        let mut track = if l == 0 { vec![] } else { rand_hz_list(r, rate, l, st) };
        track.truncate(l);
        let base = if r.chance(1, 8) { 0.0 } else { rand_hz(r, rate).0 };
        VarSpec { kind, track, base, n }
    } else {
        // plain track; half of the runs stop at its end, the others run past it (the signal yields 0.0 there)
        let extra = if r.chance(1, 2) { 0 } else { 1 + r.usize_below(12.min(n - 1)) };
        let l = n - extra;
        let mut track = rand_hz_list(r, rate, l, st);
        track.truncate(l);
        VarSpec { kind, track, base: 0.0, n }
    };
    if sp.n > sp.track.len() { st.count("var:runs-past-end-of-track"); }
    sp.sanitize(rate);
    sp
}

/// hz_n = the n-th frame the frequency signal actually handed out (recorded), else the plainly computed one
fn yielded_or_expected(log: &[f64], e: &[f64], st: &mut Stream) -> Vec<f64> {
    (0..e.len()).map(|i| if i < log.len() { if log[i].to_bits() != e[i].to_bits() { st.count("note:hz-signal-frame-differs-from-plain-sum"); } log[i] } else { e[i] }).collect()
}

struct OscObs { frames: Vec<[f64; 4]>, pulls: [u64; 4], log: Vec<f64> }

fn osc_const(rate: f64, hz: f64, n: usize) -> Option<OscObs> {
    guarded(|| OscObs { frames: run4(|_| signal::rate(rate).const_hz(hz), n), pulls: [0; 4], log: vec![] })
}
fn osc_var(rate: f64, sp: &VarSpec) -> Option<OscObs> {
    guarded(|| {
        let cs: Vec<Rc<Cell<u64>>> = (0..4).map(|_| Rc::new(Cell::new(0))).collect();
        let logs: Vec<Rc<RefCell<Vec<f64>>>> = (0..4).map(|_| Rc::new(RefCell::new(vec![]))).collect();
        let frames = run4(|i| signal::rate(rate).hz(Counted { inner: hz_signal(sp), n: cs[i].clone(), log: logs[i].clone() }), sp.n);
        let log = logs[0].borrow().clone();
        OscObs { frames, pulls: [cs[0].get(), cs[1].get(), cs[2].get(), cs[3].get()], log }
    })
}

thread_local! { static FEEDZ: RefCell<(Vec<f64>, [usize; 4])> = RefCell::new((Vec::new(), [0; 4])); }
fn feedz(i: usize) -> f64 { FEEDZ.with(|f| { let mut f = f.borrow_mut(); let k = f.1[i]; f.1[i] += 1; f.0.get(k).copied().unwrap_or(0.0) }) }
/// the same oscillators over ZERO-SIZED frequency signals (`signal::gen` over closures that capture nothing and read a
/// thread-local feed): the static type of the frequency signal says nothing about whether its values vary
fn osc_var_zst(rate: f64, hz: &[f64], n: usize) -> Option<(Vec<[f64; 4]>, [usize; 4])> {
    FEEDZ.with(|f| *f.borrow_mut() = (hz.to_vec(), [0; 4]));
    guarded(|| {
        let mut ph = signal::phase(signal::rate(rate).hz(signal::gen(|| feedz(0))));
        let mut si = signal::phase(signal::rate(rate).hz(signal::gen(|| feedz(1)))).sine();
        let mut sa = signal::phase(signal::rate(rate).hz(signal::gen(|| feedz(2)))).saw();
        let mut sq = signal::phase(signal::rate(rate).hz(signal::gen(|| feedz(3)))).square();
        let frames: Vec<[f64; 4]> = (0..n).map(|_| [ph.next(), si.next(), sa.next(), sq.next()]).collect();
        (frames, FEEDZ.with(|f| f.borrow().1))
    })
}

/// run one variable-frequency case on the four oscillators, record it, apply the oracles
fn do_osc_var(st: &mut Stream, pre: &str, rate: f64, sp: &VarSpec, record: bool, label: &str) {
    let e = sp.yielded();
    let mut case = if record { format!("{}osc var {}", pre, raw(rate)) } else { format!("{} osc var {} <{} frames, {:?}, track {}, base {}>", label, raw(rate), sp.n, sp.kind, sp.track.len(), raw(sp.base)) };
    if record { for h in &e { case.push(' '); case.push_str(&raw(*h)); } }
    let obs = osc_var(rate, sp);
    if record { st.case(&case, &osc_obs_line(&obs), e.iter().any(|h| *h != 0.0), (4 * sp.n) as u64); }
    let mut short = if case.len() > 600 { format!("{}…", &case[..600]) } else { case.clone() };
    short.push_str(&format!("   [frequency signal: {:?}, track of {} frames, base {:e}, {} frames pulled]", sp.kind, sp.track.len(), sp.base, sp.n));
    match &obs {
        Some(o) => {
            let hz = yielded_or_expected(&o.log, &e, st); osc_oracle(st, &short, rate, &|i| hz[i], true, o);
            // zero-sized frequency signals fed the very same frequencies: same frames bit for bit, one pull per frame
            if hz.iter().all(|h| h.is_finite()) {
                match osc_var_zst(rate, &hz, sp.n) {
                    Some((fz, pulls)) => {
                        let same = fz.len() == o.frames.len() && fz.iter().zip(o.frames.iter()).all(|(a, b)| (0..4).all(|k| a[k].to_bits() == b[k].to_bits()));
                        if same && pulls == [sp.n; 4] { st.oracle_ok(sp.n as u64); st.count("var:zero-sized-frequency-signal"); }
                        else { let k = fz.iter().zip(o.frames.iter()).position(|(a, b)| (0..4).any(|j| a[j].to_bits() != b[j].to_bits()));
                            st.oracle_fail("oscillators over a ZERO-SIZED frequency signal (signal::gen over a closure capturing nothing, thread-local feed) differ from the same frequencies through an instrumented signal, or did not consume one frequency frame per output frame", &short, &format!("pulls {:?}", [sp.n; 4]), &format!("first differing frame {:?}, pulls {:?}", k, pulls)); }
                    }
                    None => st.oracle_fail("panic with a zero-sized frequency signal", &short, "frames", "panic"),
                }
            }
        }
        None => st.oracle_fail("panic", &short, "frames", "panic"),
    }
}

// ------------------------------------------------------------------------------------------
// oracles for the oscillators — written from the property sentence only

/// Returns false (after reporting) on the first violated statement.
/// `hz(i)` = frequency of frame i.  `known` is set when hz/rate is not finite (known finding).
fn osc_oracle(st: &mut Stream, case: &str, rate: f64, hz: &dyn Fn(usize) -> f64, var: bool, obs: &OscObs) -> bool {
    let n = obs.frames.len();
    let two_pi = 2.0 * std::f64::consts::PI;
    let mut ph = 0.0f64; // "the phase starts at 0"
    let mut overflowed = false;
    for (i, f) in obs.frames.iter().enumerate() {
        let [p, si, sa, sq] = *f;
        if overflowed {
            // known finding: hz/rate = +inf makes the phase NaN from the next frame on
            if p.is_nan() { st.known_hit(KNOWN_ID, case, &format!("frame {}: phase {} sine {} saw {} square {}", i, hx(p), hx(si), hx(sa), hx(sq))); }
            return true;
        }
        // phase: equals the running value, within [0, 1)
        if p.to_bits() != ph.to_bits() {
            st.oracle_fail("phase differs from the running sum of hz/rate wrapped into [0,1)", case, &format!("frame {}: {}", i, raw(ph)), &raw(p));
            return false;
        }
        if !(p >= 0.0 && p < 1.0) {
            st.oracle_fail("phase outside [0,1)", case, "0 <= phase < 1", &format!("frame {}: {}", i, raw(p)));
            return false;
        }
        // sine = sin(2*pi*phase), within [-1,1]
        let es = (two_pi * p).sin();
        if si.to_bits() != es.to_bits() || !(si >= -1.0 && si <= 1.0) {
            st.oracle_fail("sine != sin(2*pi*phase) or outside [-1,1]", case, &format!("frame {}: {}", i, raw(es)), &raw(si));
            return false;
        }
        // saw = 1 - 2*phase, within [-1,1]
        let ew = 1.0 - 2.0 * p;
        if sa.to_bits() != ew.to_bits() || !(sa >= -1.0 && sa <= 1.0) {
            st.oracle_fail("saw != 1 - 2*phase or outside [-1,1]", case, &format!("frame {}: {}", i, raw(ew)), &raw(sa));
            return false;
        }
        // square = +1 on the first half-cycle, -1 on the second
        let eq = if p < 0.5 { 1.0 } else { -1.0 };
        if sq.to_bits() != f64::to_bits(eq) {
            st.oracle_fail("square is not +1 on [0,1/2) / -1 on [1/2,1)", case, &format!("frame {}: {}", i, raw(eq)), &raw(sq));
            return false;
        }
        // advance: phase + hz/rate wrapped into [0,1)  (x - floor(x) is exact for x >= 0)
        let step = hz(i) / rate;
        if !step.is_finite() { overflowed = true; continue; }
        let s = ph + step;
        ph = s - s.floor();
    }
    if var {
        for (k, &c) in obs.pulls.iter().enumerate() {
            if c != n as u64 {
                st.oracle_fail("frequency frames consumed != output frames", case, &format!("{} pulls", n), &format!("oscillator {}: {} pulls", k, c));
                return false;
            }
        }
    }
    st.oracle_ok((5 * n + 4) as u64);
    true
}

fn osc_obs_line(o: &Option<OscObs>) -> String {
    match o {
        None => "panic".into(),
        Some(o) => {
            let mut s = String::with_capacity(o.frames.len() * 68 + 32);
            for f in &o.frames { for x in f { s.push_str(&hx(*x)); s.push(' '); } }
            s.push_str(&format!("pulls {} {} {} {}", o.pulls[0], o.pulls[1], o.pulls[2], o.pulls[3]));
            s
        }
    }
}

/// per-frame frequency list for a `var` case
fn rand_hz_list(r: &mut Rng, rate: f64, n: usize, st: &mut Stream) -> Vec<f64> {
    let shape = r.below(6);
    let mut v = Vec::with_capacity(n);
    match shape {
        0 => { st.count("var:mixed"); for _ in 0..n { let (h, l) = rand_hz(r, rate); st.count(l); v.push(h); } }
        1 => { // linear sweep 0 -> up to 3*rate
            st.count("var:sweep");
            let top = rate * 3.0 * r.f64_unit();
            for i in 0..n { v.push(top * i as f64 / n as f64); }
        }
        2 => { // two alternating frequencies, one above the rate
            st.count("var:alternating");
            let (a, _) = rand_hz(r, rate); let b = rate * (1.0 + r.f64_unit() * 5.0);
            for i in 0..n { v.push(if i % 2 == 0 { a } else { b }); }
        }
        3 => { // mostly silent with bursts
            st.count("var:bursts");
            for _ in 0..n { v.push(if r.chance(1, 4) { rand_hz(r, rate).0 } else { 0.0 }); }
        }
        4 => { // random walk around rate/8
            st.count("var:walk");
            let mut h = rate / 8.0;
            for _ in 0..n { h = (h * (0.9 + 0.2 * r.f64_unit())).abs(); v.push(h); }
        }
        _ => { // jump then half steps (lands on exact half-integers)
            st.count("var:jump+halves");
            v.push(rate * r.below(70000) as f64);
            for _ in 1..n { v.push(rate * 0.5); }
        }
    }
    for h in v.iter_mut() { if !(h.is_finite() && *h >= 0.0) { *h = 0.0; } }
    v
}

fn gen_osc(st: &mut Stream, args: &Args, cf: &Cfg) {
    let pre = cf.prefix;
    let mut r = Rng::new(args.seed, &format!("{}osc", cf.tag));
    // --- documented examples (rate 4, hz 1)
    for &(rate, hz) in &[(4.0, 1.0), (44100.0, 440.0), (1.0, 0.0), (1.0, 1.0), (1.0, 2.5), (3.0, 1.0)] {
        let n = 24;
        let case = format!("{}osc const {} {} {}", pre, raw(rate), raw(hz), n);
        let obs = osc_const(rate, hz, n);
        st.case(&case, &osc_obs_line(&obs), hz != 0.0, (4 * n) as u64);
        st.count("fixed-example");
        match &obs { Some(o) => { osc_oracle(st, &case, rate, &|_| hz, false, o); } None => st.oracle_fail("panic", &case, "frames", "panic") }
    }
    // --- short fixed variable-frequency examples (readable minimal cases)
    for (rate, hz) in [(4.0, vec![1.0, 1.0, 2.0, 0.0, 6.0, 1.0, 3.0, 1.0]), (1.0, vec![0.25, 0.5, 2.5, 0.125, 0.0, 7.0, 0.75, 0.375]), (3.0, vec![1.0, 2.0, 4.0, 0.5, 0.1, 10.0])] {
        for kind in [VarSrc::GenMut, VarSrc::FromIter, VarSrc::AlwaysExhausted] {
            st.count("fixed-example");
            do_osc_var(st, pre, rate, &VarSpec::plain(&hz, kind), true, "");
        }
    }
    // --- frequency signals that report exhaustion while they keep yielding frames: a finite modulation track on a
    //     base frequency, the run continuing past the end of the track (rate 8: track [1, 2] + base 1, 7 frames)
    for kind in ALL_SRC {
        for (rate, track, base, n) in [(8.0, vec![1.0, 2.0], 1.0, 7usize), (8.0, vec![], 3.0, 5), (4.0, vec![0.5, 0.0, 6.0], 0.25, 9)] {
            st.count("fixed-example");
            do_osc_var(st, pre, rate, &VarSpec { kind, track, base, n }, true, "");
        }
    }
    // --- probe of the known finding (every run): rate = 1e-300, hz = 1e300, both finite, hz/rate = +inf
    {
        let (rate, hz, n) = (1e-300f64, 1e300f64, 4usize);
        let case = format!("{}osc const {} {} {}", pre, raw(rate), raw(hz), n);
        let obs = osc_const(rate, hz, n);
        st.case(&case, &osc_obs_line(&obs), true, (4 * n) as u64);
        st.count("probe:step-overflow");
        match &obs { Some(o) => { osc_oracle(st, &case, rate, &|_| hz, false, o); } None => st.oracle_fail("panic", &case, "frames", "panic") }
    }
    let ncases = (if args.thorough() { 12000 } else { 1500 }) / cf.div;
    let mut overflow_cases = 0;
    for _ in 0..ncases {
        let (rate, rl) = rand_rate(&mut r);
        let n = r.range(20, cf.max_n) as usize;
        if r.chance(1, 2) {
            let (mut hz, hl) = rand_hz(&mut r, rate);
            if !(hz / rate).is_finite() {
                // stays in the stated domain (finite hz >= 0, rate > 0) but triggers the known finding; keep a few
                if overflow_cases >= 3 { hz = 0.0; } else { overflow_cases += 1; st.count("step-overflow-case"); }
            }
            st.count("kind:const"); st.count(rl); st.count(hl);
            let case = format!("{}osc const {} {} {}", pre, raw(rate), raw(hz), n);
            let obs = osc_const(rate, hz, n);
            st.case(&case, &osc_obs_line(&obs), hz != 0.0, (4 * n) as u64);
            match &obs { Some(o) => { osc_oracle(st, &case, rate, &|_| hz, false, o); } None => st.oracle_fail("panic", &case, "frames", "panic") }
        } else {
            let sp = rand_var_spec(&mut r, rate, n, st);
            st.count("kind:var"); st.count(rl);
            do_osc_var(st, pre, rate, &sp, true, "");
        }
    }
    // --- long native runs (oracles only, no model): tiny steps, steps >= 1, non-dyadic
    let long_n: usize = if args.thorough() { 100_000 } else { 20_000 };
    let long_cases: usize = if !cf.long { 0 } else if args.thorough() { 60 } else { 6 };
    for k in 0..long_cases {
        let (rate, _) = if k < 3 { (44100.0, "") } else { rand_rate(&mut r) };
        let hz = match k { 0 => 440.0, 1 => 44100.0 * 1e-9, 2 => 44100.0 * 7.3, _ => { let h = rand_hz(&mut r, rate).0; if (h / rate).is_finite() { h } else { 0.0 } } };
        let case = format!("(native long run) osc const {} {} {}", raw(rate), raw(hz), long_n);
        st.count("native-long-run");
        match osc_const(rate, hz, long_n) { Some(o) => { osc_oracle(st, &case, rate, &|_| hz, false, &o); } None => st.oracle_fail("panic", &case, "frames", "panic") }
        // varying frequency
        let sp = rand_var_spec(&mut r, rate, long_n, st);
        do_osc_var(st, pre, rate, &sp, false, &format!("(native long run, seed {}, run {})", args.seed, k));
    }
    st.note("oracles per frame: phase == running x-floor(x) sum, 0<=phase<1, sine == sin(2*pi*phase) in [-1,1], saw == 1-2*phase in [-1,1], square by half-cycle; per var case: hz_n = the n-th frame the frequency signal actually handed out (recorded by the pull counter), pulls == frames for each of the 4 oscillators; frequency signals: gen_mut, from_iter, from_iter.offset_amp(base), from_iter.map(+base), from_iter.add_amp(gen base), gen(base).add_amp(from_iter), a custom always-exhausted Signal; half of the runs continue past the end of the finite track");
}

// ------------------------------------------------------------------------------------------
// noise

fn gen_noise(st: &mut Stream, args: &Args, cf: &Cfg) {
    let pre = cf.prefix;
    let mut r = Rng::new(args.seed, &format!("{}noise", cf.tag));
    let mut seeds: Vec<u64> = vec![0, 1, 2, 1 << 13, 1 << 31, 1 << 32, (1 << 32) + 1, 1 << 51, 1 << 63, (1 << 63) - 1, (1 << 63) + 1,
        u64::MAX, u64::MAX - 1, u64::MAX - 2, u64::MAX - 3, u64::MAX - 19, u64::MAX - 20, u64::MAX - 100, u64::MAX - 199, 0x7fff_ffff, 0x8000_0000, 0xffff_ffff];
    let ncases = (if args.thorough() { 6000 } else { 600 }) / cf.div;
    while seeds.len() < ncases {
        let s = match r.below(5) {
            0 => u64::MAX - r.below(400),
            1 => r.below(1 << 20),
            2 => (1u64 << r.below(64)).wrapping_add(r.below(7)).wrapping_sub(3),
            _ => r.next_u64(),
        };
        seeds.push(s);
    }
    for (ci, &seed) in seeds.iter().enumerate() {
        let n = if ci < 22 { 64 } else { r.range(20, cf.max_n) as usize };
        let case = format!("{}noise {} {}", pre, seed, n);
        let wraps = (seed as u128) + (n as u128) > u64::MAX as u128;
        st.count(if wraps { "seed:wraps-in-run" } else if seed < (1 << 32) { "seed:<2^32" } else { "seed:>=2^32" });
        let obs = guarded(|| { let mut s = signal::noise(seed); (0..n).map(|_| s.next()).collect::<Vec<f64>>() });
        match &obs {
            None => {
                st.case(&case, "panic", true, n as u64);
                st.oracle_fail("noise generator panicked (no output)", &case, &format!("{} frames within [-1,1]", n), "panic");
            }
            Some(v) => {
                st.case(&case, &v.iter().map(|x| hx(*x)).collect::<Vec<_>>().join(" "), true, n as u64);
                // amplitude within [-1, 1]
                if let Some((i, x)) = v.iter().enumerate().find(|(_, x)| !(**x >= -1.0 && **x <= 1.0)) {
                    st.oracle_fail("noise output outside [-1,1]", &case, "-1 <= x <= 1", &format!("frame {}: {}", i, raw(*x)));
                    continue;
                }
                // pure function of (seed, frame index): a restart and a clone taken at any frame reproduce it
                let k = r.usize_below(n);
                let rep = guarded(|| {
                    let mut a = signal::noise(seed);
                    let head: Vec<f64> = (0..k).map(|_| a.next()).collect();
                    let mut b = a.clone();
                    let ta: Vec<f64> = (k..n).map(|_| a.next()).collect();
                    let tb: Vec<f64> = (k..n).map(|_| b.next()).collect();
                    (head, ta, tb)
                });
                match rep {
                    None => st.oracle_fail("noise restart/clone panicked", &case, "frames", "panic"),
                    Some((head, ta, tb)) => {
                        let same = |x: &[f64], y: &[f64]| x.len() == y.len() && x.iter().zip(y).all(|(a, b)| a.to_bits() == b.to_bits());
                        if !same(&head, &v[..k]) || !same(&ta, &v[k..]) {
                            st.oracle_fail("restarting noise(seed) does not reproduce the sequence", &case, "same frames", &format!("clone point {}", k));
                        } else if !same(&tb, &v[k..]) {
                            st.oracle_fail("a clone of the noise generator does not reproduce the sequence", &case, "same frames", &format!("clone point {}", k));
                        } else { st.oracle_ok((2 * n) as u64 + n as u64); }
                    }
                }
            }
        }
    }
    // long native runs: range only
    let long_n: usize = if args.thorough() { 1_000_000 } else { 100_000 };
    for &seed in [0u64, u64::MAX - 50_000, 1 << 40].iter().filter(|_| cf.long) {
        let case = format!("(native long run) noise {} {}", seed, long_n);
        st.count("native-long-run");
        match guarded(|| { let mut s = signal::noise(seed); (0..long_n).map(|_| s.next()).fold((f64::INFINITY, f64::NEG_INFINITY, false), |(lo, hi, bad), x| (lo.min(x), hi.max(x), bad || !(x >= -1.0 && x <= 1.0))) }) {
            None => st.oracle_fail("noise generator panicked (no output)", &case, "frames", "panic"),
            Some((lo, hi, bad)) => {
                if bad { st.oracle_fail("noise output outside [-1,1]", &case, "-1 <= x <= 1", &format!("min {} max {}", lo, hi)); } else { st.oracle_ok(long_n as u64); }
                st.note(&format!("noise seed {} over {} frames: min {:e} max {:e}", seed, long_n, lo, hi));
            }
        }
    }
    st.note(if cfg!(debug_assertions) { "built with overflow checks (dev profile): the seed increment must wrap, not panic" } else { "release profile (wrapping arithmetic)" });
}

// ------------------------------------------------------------------------------------------
// simplex noise

struct SimObs { frames: Vec<f64>, pulls: u64 }
fn sim_line(o: &Option<SimObs>) -> String {
    match o { None => "panic".into(), Some(o) => format!("{} pulls {}", o.frames.iter().map(|x| hx(*x)).collect::<Vec<_>>().join(" "), o.pulls) }
}
fn sim_const(rate: f64, hz: f64, n: usize) -> Option<SimObs> {
    guarded(|| { let mut s = signal::rate(rate).const_hz(hz).noise_simplex(); SimObs { frames: (0..n).map(|_| s.next()).collect(), pulls: 0 } })
}
fn sim_var(rate: f64, sp: &VarSpec) -> Option<SimObs> {
    guarded(|| {
        let c = Rc::new(Cell::new(0));
        let mut s = signal::rate(rate).hz(Counted { inner: hz_signal(sp), n: c.clone(), log: Rc::new(RefCell::new(vec![])) }).noise_simplex();
        let frames = (0..sp.n).map(|_| s.next()).collect();
        SimObs { frames, pulls: c.get() }
    })
}
/// run one variable-frequency simplex case, record it, apply the oracles; returns the largest |output|
fn do_sim_var(st: &mut Stream, pre: &str, rate: f64, sp: &VarSpec) -> f64 {
    let e = sp.yielded();
    let mut case = format!("{}simplex var {}", pre, raw(rate));
    for h in &e { case.push(' '); case.push_str(&raw(*h)); }
    let obs = sim_var(rate, sp);
    st.case(&case, &sim_line(&obs), e.iter().any(|h| *h != 0.0), sp.n as u64);
    let mut short = if case.len() > 600 { format!("{}…", &case[..600]) } else { case.clone() };
    short.push_str(&format!("   [frequency signal: {:?}, track of {} frames, base {:e}, {} frames pulled]", sp.kind, sp.track.len(), sp.base, sp.n));
    match &obs { Some(o) => sim_oracle(st, &short, rate, &|i| e[i], true, o), None => { st.oracle_fail("panic", &short, "frames", "panic"); 0.0 } }
}
/// returns the largest |output| seen
fn sim_oracle(st: &mut Stream, case: &str, rate: f64, hz: &dyn Fn(usize) -> f64, var: bool, o: &SimObs) -> f64 {
    let mut overflowed = false;
    let mut mx = 0.0f64;
    for (i, x) in o.frames.iter().enumerate() {
        if overflowed {
            if x.is_nan() { st.known_hit(KNOWN_ID, case, &format!("frame {}: simplex output {}", i, hx(*x))); }
            return mx;
        }
        if !(*x >= -1.0 && *x <= 1.0) {
            st.oracle_fail("simplex noise output outside [-1,1]", case, "-1 <= x <= 1", &format!("frame {}: {}", i, raw(*x)));
            return mx;
        }
        mx = mx.max(x.abs());
        if !(hz(i) / rate).is_finite() { overflowed = true; }
    }
    if var && o.pulls != o.frames.len() as u64 {
        st.oracle_fail("frequency frames consumed != output frames", case, &format!("{} pulls", o.frames.len()), &format!("{} pulls", o.pulls));
        return mx;
    }
    st.oracle_ok(o.frames.len() as u64 + 1);
    mx
}

fn gen_simplex(st: &mut Stream, args: &Args, cf: &Cfg) {
    let pre = cf.prefix;
    let mut r = Rng::new(args.seed, &format!("{}simplex", cf.tag));
    let mut mx = 0.0f64;
    for (rate, hz) in [(1.0, vec![0.5; 24]), (2.0, vec![313.0, 0.0, 0.5, 1.0, 3.0, 131072.0, 1.0, 0.25]), (4.0, vec![1.0, 1.0, 2.0, 0.0, 6.0, 1.0, 3.0, 1.0]),
        // into the last lattice cell before the 2^16 wrap, through it in quarter steps, across the wrap and on
        (1.0, vec![65535.0, 0.25, 0.25, 0.25, 0.25, 0.25, 0.5, 65535.5, 0.375, 0.25, 65535.0, 0.999, 0.001, 1.0]),
        (44100.0, vec![44100.0 * 65535.125, 11025.0, 11025.0, 11025.0, 11025.0, 22050.0])] {
        for kind in [VarSrc::GenMut, VarSrc::FromIter, VarSrc::AlwaysExhausted] {
            st.count("fixed-example");
            mx = mx.max(do_sim_var(st, pre, rate, &VarSpec::plain(&hz, kind)));
        }
    }
    // constant steps that land in the last cell on the first frames: 65535.5 per frame walks 65535.5, 65535.0, 65534.5, ...
    for &(rate, hz) in &[(1.0, 65535.5), (1.0, 65535.999), (2.0, 131071.5), (1.0, 65536.0), (1.0, 65536.25)] {
        let n = 12;
        let case = format!("{}simplex const {} {} {}", pre, raw(rate), raw(hz), n);
        let obs = sim_const(rate, hz, n);
        st.case(&case, &sim_line(&obs), true, n as u64);
        st.count("fixed-example:last-cell");
        match &obs { Some(o) => { mx = mx.max(sim_oracle(st, &case, rate, &|_| hz, false, o)); } None => st.oracle_fail("panic", &case, "frames", "panic") }
    }
    // frequency signals that report exhaustion while they keep yielding frames (run continues past the track)
    for kind in ALL_SRC {
        for (rate, track, base, n) in [(8.0, vec![1.0, 2.0], 1.0, 7usize), (1.0, vec![65535.25], 0.25, 8)] {
            st.count("fixed-example");
            mx = mx.max(do_sim_var(st, pre, rate, &VarSpec { kind, track, base, n }));
        }
    }
    {
        let (rate, hz, n) = (1e-300f64, 1e300f64, 4usize);
        let case = format!("{}simplex const {} {} {}", pre, raw(rate), raw(hz), n);
        let obs = sim_const(rate, hz, n);
        st.case(&case, &sim_line(&obs), true, n as u64);
        st.count("probe:step-overflow");
        match &obs { Some(o) => { sim_oracle(st, &case, rate, &|_| hz, false, o); } None => st.oracle_fail("panic", &case, "frames", "panic") }
    }
    let ncases = (if args.thorough() { 12000 } else { 1500 }) / cf.div;
    for ci in 0..ncases {
        let (rate, rl) = rand_rate(&mut r);
        let n = r.range(20, cf.max_n) as usize;
        let pick = if ci < 2 { ci as u64 } else { r.below(4) };
        if pick < 2 {
            // constant frequency; for simplex the interesting steps are O(0.01 .. 1000) periods per frame
            let hz = if ci == 0 { rate * 0.5 } else if ci == 1 { rate * 440.0 / 44100.0 } else {
                match r.below(4) {
                    0 => rand_hz(&mut r, rate).0,
                    1 => rate * r.f64_unit() * 1000.0,
                    2 => rate * (r.below(256) as f64 + 0.5),
                    _ => rate * (r.below(64) as f64) / 8.0,
                } };
            let hz = if hz.is_finite() && hz >= 0.0 && (hz / rate).is_finite() { hz } else { 0.0 };
            st.count("kind:const"); st.count(rl);
            let case = format!("{}simplex const {} {} {}", pre, raw(rate), raw(hz), n);
            let obs = sim_const(rate, hz, n);
            st.case(&case, &sim_line(&obs), hz != 0.0, n as u64);
            match &obs { Some(o) => { mx = mx.max(sim_oracle(st, &case, rate, &|_| hz, false, o)); } None => st.oracle_fail("panic", &case, "frames", "panic") }
        } else {
            let mut sp = rand_var_spec(&mut r, rate, n, st);
            match r.below(5) {
                0 | 1 => { for h in sp.track.iter_mut() { *h *= 64.0; } sp.base *= 64.0; st.count("var:x64"); }
                2 if !sp.track.is_empty() => {
                    // first step jumps into the last lattice cell before the 2^16 wrap (or just short of it); the
                    // following small steps walk through that cell and across the wrap
                    if sp.kind.has_base() { sp.base = rate * 0.05 * r.f64_unit(); }
                    let b = if sp.kind.has_base() { sp.base } else { 0.0 };
                    sp.track[0] = (rate * (65534.5 + 1.5 * r.f64_unit()) - b).max(0.0);
                    for h in sp.track.iter_mut().skip(1) { *h = rate * 0.3 * r.f64_unit(); }
                    st.count("var:last-cell-and-wrap");
                }
                _ => {}
            }
            sp.sanitize(rate);
            st.count("kind:var"); st.count(rl);
            mx = mx.max(do_sim_var(st, pre, rate, &sp));
        }
    }
    // long native runs: dense sweeps through all 65536 lattice cells (range oracle only)
    let long_n: usize = if args.thorough() { 1_000_000 } else { 140_000 };
    let steps: Vec<f64> = if args.thorough() { vec![0.5, 0.25, 1.0 / 3.0, 0.01, 440.0 / 44100.0, 0.4999, 17.37, 0.0625, 1e-4, 123.456] } else { vec![0.5, 440.0 / 44100.0, 17.37] };
    for step in steps.into_iter().filter(|_| cf.long) {
        let rate = 44100.0; let hz = rate * step;
        let case = format!("(native long run) simplex const {} {} {}", raw(rate), raw(hz), long_n);
        st.count("native-long-run");
        match sim_const(rate, hz, long_n) { Some(o) => { mx = mx.max(sim_oracle(st, &case, rate, &|_| hz, false, &o)); } None => st.oracle_fail("panic", &case, "frames", "panic") }
    }
    st.note(&format!("largest |simplex output| observed on this run: {:.17} (exact-arithmetic bound proved: 0.99984375)", mx));
}

struct Cfg { prefix: &'static str, tag: &'static str, div: usize, long: bool, max_n: i64 }
const MAIN: Cfg = Cfg { prefix: "", tag: "", div: 1, long: true, max_n: 200 };
/// the same generators, fewer and shorter cases, addressed to the soft-float instance of the model
const FP: Cfg = Cfg { prefix: "fp ", tag: "fp-", div: 6, long: false, max_n: 80 };

fn main() {
    let args = Args::parse();
    let mut st = Stream::new(&args.out, &args.stream);
    match args.stream.as_str() {
        "osc" => gen_osc(&mut st, &args, &MAIN),
        "noise" => gen_noise(&mut st, &args, &MAIN),
        "simplex" => gen_simplex(&mut st, &args, &MAIN),
        "fp" => {
            gen_osc(&mut st, &args, &FP);
            gen_simplex(&mut st, &args, &FP);
            gen_noise(&mut st, &args, &FP);
            st.note("same requests as osc/simplex/noise, executed by the driver at the soft-float (exact-rational IEEE) instance fpArith of the model - validates the instance the fp_ theorems are about");
        }
        s => { eprintln!("unknown stream {}", s); std::process::exit(2); }
    }
    st.finish();
}
