//! C16 — built-in graph nodes (Sum, SumBuffers, Pass, Delay, dyn Signal, GraphNode) and the
//! forwarding wrappers.  Correspondence stream `node` + independent oracles written from the
//! property text (plain f32 loops in input order, VecDeque delay line, frame table, a second copy
//! of the inner graph processed directly) — the model is not involved.
//!
//! `Input` cannot be constructed outside dasp_graph, so every node under test sits in a real outer
//! `Graph` behind `k` source nodes whose buffers the harness fills before each `Processor::process`.
#[path = "../util.rs"]
mod util;
use dasp_graph::node::{Delay, GraphNode, Pass, Sum, SumBuffers};
use dasp_graph::{Buffer, BoxedNode, BoxedNodeSend, Input, Node, NodeData, Processor};
use dasp_ring_buffer_reg as ring_buffer;
use dasp_signal_reg as signal;
use petgraph::graph::{Graph, NodeIndex};
use petgraph::Incoming;
use std::collections::VecDeque;
use util::*;

const LEN: usize = 64;
type B = [f32; LEN];

fn main() {
    let a = Args::parse();
    match a.stream.as_str() {
        "node" => run(&a),
        s => { eprintln!("unknown stream {}", s); std::process::exit(2); }
    }
}

/// outer-graph node: a source (never touches its buffers) or the node under test
enum Slot<W> { Src, Test(W) }
impl<W: Node> Node for Slot<W> {
    fn process(&mut self, inputs: &[Input], output: &mut [Buffer]) {
        match self { Slot::Src => {}, Slot::Test(w) => w.process(inputs, output) }
    }
}

#[derive(Clone)]
struct Case {
    out0: Vec<B>,                 // initial output buffers of the node under test
    srcs: Vec<usize>,             // buffers per source node
    edges: Vec<usize>,            // source ids, one per edge into the node under test, insertion order
    data: Vec<Vec<Vec<B>>>,       // [call][source][buffer]
}

struct Obs {
    order: Vec<usize>,                    // sources in the order the inputs are presented
    outs: Vec<Option<Vec<B>>>,            // output buffers after each call (None = panic)
}

fn to_buffer(b: &B) -> Buffer { Buffer::from(*b) }
fn from_buffer(b: &Buffer) -> B { let mut x = [0f32; LEN]; x.copy_from_slice(&b[..]); x }

fn run_node<W: Node>(w: W, c: &Case) -> Obs {
    let mut g: Graph<NodeData<Slot<W>>, ()> = Graph::new();
    let mut src_ix = Vec::new();
    for &nb in &c.srcs { src_ix.push(g.add_node(NodeData::new(Slot::Src, vec![Buffer::SILENT; nb]))); }
    let test = g.add_node(NodeData::new(Slot::Test(w), c.out0.iter().map(to_buffer).collect()));
    for &s in &c.edges { g.add_edge(src_ix[s], test, ()); }
    let order: Vec<usize> = g.neighbors_directed(test, Incoming).map(|n| n.index()).collect();
    let mut p: Processor<Graph<NodeData<Slot<W>>, ()>> = Processor::with_capacity(c.srcs.len() + 1);
    let mut outs = Vec::new();
    for call in &c.data {
        for (s, bufs) in call.iter().enumerate() {
            let w = &mut g.node_weight_mut(src_ix[s]).unwrap().buffers;
            for (k, b) in bufs.iter().enumerate() { w[k] = to_buffer(b); }
        }
        let ok = guarded(|| p.process(&mut g, test)).is_some();
        if !ok { outs.push(None); break; }
        outs.push(Some(g.node_weight(test).unwrap().buffers.iter().map(from_buffer).collect()));
    }
    Obs { order, outs }
}

/// bit pattern; every NaN (only ever produced by inf + -inf here; inputs contain none) prints as the canonical quiet NaN
fn bits(x: f32) -> u32 { if x.is_nan() { 0x7fc0_0000 } else { x.to_bits() } }
fn hex(b: &B) -> String { let mut s = String::with_capacity(8 * LEN); for x in b.iter() { s.push_str(&format!("{:08x}", bits(*x))); } s }
fn show_bufs(bs: &[B]) -> String { if bs.is_empty() { "-".into() } else { bs.iter().map(hex).collect::<Vec<_>>().join(",") } }
fn show_inputs(ins: &[&Vec<B>]) -> String {
    if ins.is_empty() { "I:none".into() } else { format!("I:{}", ins.iter().map(|b| show_bufs(b)).collect::<Vec<_>>().join(";")) }
}
fn same(a: &B, b: &B) -> bool { a.iter().zip(b.iter()).all(|(x, y)| bits(*x) == bits(*y)) }
fn same_bufs(a: &[B], b: &[B]) -> bool { a.len() == b.len() && a.iter().zip(b.iter()).all(|(x, y)| same(x, y)) }

// ---------------------------------------------------------------- random contents
fn rand_sample(rng: &mut Rng) -> f32 {
    match rng.below(100) {
        0..=49 => rng.range(-64, 64) as f32 / 8.0,
        50..=79 => (rng.f64_unit() * 2.0 - 1.0) as f32,
        80..=89 => { let mut b = rng.next_u64() as u32; if (b >> 23) & 0xff == 0xff { b &= !(1 << 30); } f32::from_bits(b) } // any finite
        90..=91 => if rng.chance(1, 2) { 0.0 } else { -0.0 },
        // subnormals and the smallest normals, either sign (flush-to-zero / denormal handling must not differ)
        92..=94 => { let m = match rng.below(3) { 0 => 1 + rng.below(0x007f_ffff) as u32, 1 => 0x0080_0000 + rng.below(16) as u32, _ => 1 + rng.below(8) as u32 }; f32::from_bits(m | if rng.chance(1, 2) { 0x8000_0000 } else { 0 }) }
        95..=97 => if rng.chance(1, 2) { 3.0e38 } else { -3.0e38 },
        _ => if rng.chance(1, 2) { f32::INFINITY } else { f32::NEG_INFINITY },
    }
}
fn rand_buf(rng: &mut Rng) -> B {
    let mut b = [0f32; LEN];
    match rng.below(4) {
        0 => { let v = rand_sample(rng); for x in b.iter_mut() { *x = v; } }
        1 => { let s = rng.range(-8, 8) as f32; for (i, x) in b.iter_mut().enumerate() { *x = s + i as f32 * 0.25; } }
        _ => { for x in b.iter_mut() { *x = rand_sample(rng); } }
    }
    b
}
fn rand_bufs(rng: &mut Rng, n: usize) -> Vec<B> { (0..n).map(|_| rand_buf(rng)).collect() }

fn make_case(rng: &mut Rng, in_bufs: &[usize], n_out: usize, ncalls: usize) -> Case {
    // inputs are realised as edges from source nodes; now and then two inputs share one source (parallel edges)
    let mut srcs: Vec<usize> = Vec::new();
    let mut edges = Vec::new();
    for &nb in in_bufs {
        if let Some(s) = srcs.iter().position(|&x| x == nb).filter(|_| rng.chance(1, 6)) { edges.push(s); }
        else { srcs.push(nb); edges.push(srcs.len() - 1); }
    }
    // insertion order of the edges is shuffled; the presented order is read back from petgraph
    for i in (1..edges.len()).rev() { let j = rng.usize_below(i + 1); edges.swap(i, j); }
    let data = (0..ncalls).map(|_| srcs.iter().map(|&nb| rand_bufs(rng, nb)).collect()).collect();
    Case { out0: rand_bufs(rng, n_out), srcs, edges, data }
}

// ---------------------------------------------------------------- wrappers
fn sum_fn(i: &[Input], o: &mut [Buffer]) { Sum.process(i, o) }
fn sumbuffers_fn(i: &[Input], o: &mut [Buffer]) { SumBuffers.process(i, o) }
fn pass_fn(i: &[Input], o: &mut [Buffer]) { Pass.process(i, o) }

const STATELESS_WRAPPERS: [&str; 8] = ["plain", "mutref", "box", "boxednode", "boxednodesend", "dynfn", "dynfnmut", "fnptr"];

macro_rules! run_stateless {
    ($node:expr, $f:ident, $wrapper:expr, $c:expr) => {{
        match $wrapper {
            "plain" => run_node($node, $c),
            "mutref" => { let mut n = $node; run_node(&mut n, $c) }
            "box" => run_node(Box::new($node), $c),
            "boxednode" => run_node(BoxedNode::new($node), $c),
            "boxednodesend" => run_node(BoxedNodeSend::new($node), $c),
            "dynfn" => { let f: Box<dyn Fn(&[Input], &mut [Buffer])> = Box::new(|i: &[Input], o: &mut [Buffer]| { let mut n = $node; n.process(i, o) }); run_node(f, $c) }
            "dynfnmut" => { let mut n = $node; let f: Box<dyn FnMut(&[Input], &mut [Buffer])> = Box::new(move |i: &[Input], o: &mut [Buffer]| n.process(i, o)); run_node(f, $c) }
            "fnptr" => run_node($f as fn(&[Input], &mut [Buffer]), $c),
            w => panic!("wrapper {}", w),
        }
    }};
}

fn inputs_bucket(n: usize) -> String { if n <= 4 { format!("inputs_{}", n) } else if n <= 16 { "inputs_05_16".into() } else if n <= 32 { "inputs_17_32".into() } else if n <= 64 { "inputs_33_64".into() } else { "inputs_65_plus".into() } }

fn inputs_of<'a>(c: &'a Case, order: &[usize], call: usize) -> Vec<&'a Vec<B>> { order.iter().map(|&s| &c.data[call][s]).collect() }

// ---------------------------------------------------------------- oracles (plain readings of the property text)
fn oracle_sum(ins: &[&Vec<B>], n_out: usize) -> Vec<B> {
    (0..n_out).map(|ch| { let mut o = [0f32; LEN]; for i in 0..LEN { let mut acc = 0.0f32; for inp in ins { if let Some(b) = inp.get(ch) { acc += b[i]; } } o[i] = acc; } o }).collect()
}
fn oracle_sumbuffers(ins: &[&Vec<B>], n_out: usize) -> Vec<B> {
    let mut o = [0f32; LEN];
    for i in 0..LEN { let mut acc = 0.0f32; for inp in ins { for b in inp.iter() { acc += b[i]; } } o[i] = acc; }
    vec![o; n_out]
}
fn oracle_pass(ins: &[&Vec<B>], prev: &[B]) -> Vec<B> {
    let mut o = prev.to_vec();
    if let Some(first) = ins.first() { for ch in 0..o.len().min(first.len()) { o[ch] = first[ch]; } }
    o
}

fn stateless_case(st: &mut Stream, rng: &mut Rng, kind: &str, wrapper: &str, in_bufs: &[usize], n_out: usize, ncalls: usize) {
    let c = make_case(rng, in_bufs, n_out, ncalls);
    let obs = match kind {
        "sum" => run_stateless!(Sum, sum_fn, wrapper, &c),
        "sumbuffers" => run_stateless!(SumBuffers, sumbuffers_fn, wrapper, &c),
        _ => run_stateless!(Pass, pass_fn, wrapper, &c),
    };
    let mut op = format!("node {} {} {}", kind, wrapper, show_bufs(&c.out0));
    let mut out = Vec::new();
    let mut prev = c.out0.clone();
    for (j, o) in obs.outs.iter().enumerate() {
        let ins = inputs_of(&c, &obs.order, j);
        op.push(' '); op.push_str(&show_inputs(&ins));
        match o {
            None => { out.push("panic".to_string()); st.oracle_fail("node panicked", &format!("{} {} inputs {:?} outputs {}", kind, wrapper, in_bufs, n_out), "no panic", "panic"); break; }
            Some(o) => {
                out.push(show_bufs(o));
                let want = match kind { "sum" => oracle_sum(&ins, n_out), "sumbuffers" => oracle_sumbuffers(&ins, n_out), _ => oracle_pass(&ins, &prev) };
                if !same_bufs(&want, o) {
                    st.oracle_fail(&format!("{} node ({}) output differs from its documented function", kind, wrapper),
                        &format!("{} call {} inputs(buffers per input, presented order)={:?} outputs={}", op.split(' ').take(3).collect::<Vec<_>>().join(" "), j, ins.iter().map(|b| b.len()).collect::<Vec<_>>(), n_out),
                        &show_bufs(&want), &show_bufs(o));
                } else { st.oracle_ok((n_out * LEN) as u64); }
                prev = o.clone();
            }
        }
    }
    let mismatch = in_bufs.iter().any(|&b| b != n_out) || in_bufs.is_empty();
    st.count(&format!("kind_{}", kind)); st.count(&format!("wrapper_{}", wrapper)); st.count(&inputs_bucket(in_bufs.len()));
    if mismatch { st.count("channel_counts_mismatch_or_no_input"); }
    st.case(&op, &out.join(" "), kind != "sum" || mismatch, ncalls as u64);
}

// ---------------------------------------------------------------- delay
fn delay_case(st: &mut Stream, rng: &mut Rng, wrapper: &str, in_bufs: &[usize], n_out: usize, n_rings: usize, ncalls: usize, long_rings: bool) {
    let c = make_case(rng, in_bufs, n_out, ncalls);
    let rings: Vec<(usize, Vec<f32>)> = (0..n_rings).map(|_| {
        let rl = 1 + rng.usize_below(300);
        // long rings: thousands of samples, but short enough that the input fed in the first calls comes out again
        let ll = 1000 + rng.usize_below((ncalls * LEN).saturating_sub(1000).max(1));
        let len = if long_rings { ll } else { *rng.pick(&[1usize, 2, 3, 7, 63, 64, 65, 100, 128, 129, 200, rl]) };
        let data: Vec<f32> = (0..len).map(|_| rand_sample(rng)).collect();
        (rng.usize_below(len), data)
    }).collect();
    let mk = || Delay(rings.iter().map(|(f, d)| ring_buffer::Fixed::from_raw_parts(*f, d.clone())).collect::<Vec<_>>());
    let obs = match wrapper {
        "plain" => run_node(mk(), &c),
        "mutref" => { let mut n = mk(); run_node(&mut n, &c) }
        "box" => run_node(Box::new(mk()), &c),
        "boxednode" => run_node(BoxedNode::new(mk()), &c),
        "boxednodesend" => run_node(BoxedNodeSend::new(mk()), &c),
        "dynfnmut" => { let mut n = mk(); let f: Box<dyn FnMut(&[Input], &mut [Buffer])> = Box::new(move |i: &[Input], o: &mut [Buffer]| n.process(i, o)); run_node(f, &c) }
        w => panic!("wrapper {}", w),
    };
    let rings_txt = if rings.is_empty() { "-".to_string() } else {
        rings.iter().map(|(f, d)| format!("{}:{}", f, d.iter().map(|x| format!("{:08x}", x.to_bits())).collect::<String>())).collect::<Vec<_>>().join(";") };
    let mut op = format!("node delay {} {} {}", wrapper, rings_txt, show_bufs(&c.out0));
    // oracle: an ideal delay line per channel — a queue holding the ring's content oldest-first
    let mut lines: Vec<VecDeque<f32>> = rings.iter().map(|(f, d)| d[*f..].iter().chain(d[..*f].iter()).cloned().collect()).collect();
    let mut out = Vec::new();
    let mut prev = c.out0.clone();
    for (j, o) in obs.outs.iter().enumerate() {
        let ins = inputs_of(&c, &obs.order, j);
        op.push(' '); op.push_str(&show_inputs(&ins));
        match o {
            None => { out.push("panic".to_string()); st.oracle_fail("delay node panicked", &op[..op.len().min(200)], "no panic", "panic"); break; }
            Some(o) => {
                out.push(show_bufs(o));
                let mut want = prev.clone();
                if let Some(first) = ins.first() {
                    for ch in 0..n_rings.min(first.len()).min(n_out) {
                        for i in 0..LEN { lines[ch].push_back(first[ch][i]); want[ch][i] = lines[ch].pop_front().unwrap(); }
                    }
                }
                if !same_bufs(&want, o) {
                    st.oracle_fail(&format!("delay node ({}) output is not the input delayed by exactly the ring length, continuous across calls", wrapper),
                        &format!("rings(first,len)={:?} inputs={:?} outputs={} call {}", rings.iter().map(|r| (r.0, r.1.len())).collect::<Vec<_>>(), ins.iter().map(|b| b.len()).collect::<Vec<_>>(), n_out, j),
                        &show_bufs(&want), &show_bufs(o));
                } else { st.oracle_ok((n_out * LEN) as u64); }
                prev = o.clone();
            }
        }
    }
    st.count("kind_delay"); st.count(&format!("wrapper_{}", wrapper)); st.count(&format!("rings_{}", n_rings)); st.count(&format!("delay_{}", inputs_bucket(in_bufs.len())));
    if long_rings { st.count("delay_long_rings_many_calls"); }
    for r in &rings { st.count(if r.1.len() < LEN { "ring_shorter_than_buffer" } else if r.1.len() == LEN { "ring_equal_buffer" } else { "ring_longer_than_buffer" }); }
    st.case(&op, &out.join(" "), true, ncalls as u64);
}

// ---------------------------------------------------------------- signal
/// a source whose `is_exhausted()` report is independent of what it yields: it reports exhaustion from frame
/// `report_from` on while `next()` keeps yielding the given frames (what `finite.add_amp(infinite)`,
/// `finite.offset_amp(dc)`, `finite.map(f)` do: "contagious" exhaustion with a non-equilibrium tail)
struct Reporting<F> { frames: Vec<F>, pos: usize, report_from: usize, eq: F }
macro_rules! impl_reporting { ($($t:ty),*) => { $(
impl signal::Signal for Reporting<$t> {
    type Frame = $t;
    fn next(&mut self) -> $t { let f = if self.pos < self.frames.len() { self.frames[self.pos] } else { self.eq }; self.pos += 1; f }
    fn is_exhausted(&self) -> bool { self.pos >= self.report_from }
} )* } }
impl_reporting!(f32, [f32; 1], [f32; 2], [f32; 3], [f32; 4]);
fn signal_case<const CH: usize>(st: &mut Stream, rng: &mut Rng, wrapper: &str, n_out: usize) where [f32; CH]: FrameArr {
    let ncalls = 5;
    let frames: Vec<[f32; CH]> = (0..ncalls * LEN).map(|_| { let mut f = [0f32; CH]; for x in f.iter_mut() { *x = rand_sample(rng); } f }).collect();
    let c = Case { out0: rand_bufs(rng, n_out), srcs: vec![], edges: vec![], data: vec![vec![]; ncalls] };
    // from which frame on the source reports `is_exhausted()` (never, from the start, at a call boundary, mid-call)
    let report_from = match rng.below(4) { 0 => usize::MAX, 1 => 0, 2 => LEN * rng.usize_below(ncalls), _ => rng.usize_below(ncalls * LEN) };
    st.count(if report_from == usize::MAX { "signal_source_never_reports_exhausted" } else { "signal_source_reports_exhausted_with_frames_left" });
    let obs = if CH == 1 {
        let mono: Vec<f32> = frames.iter().map(|f| f[0]).collect();
        let s: Box<dyn signal::Signal<Frame = f32>> = if report_from == usize::MAX { Box::new(signal::from_iter(mono.into_iter())) } else { Box::new(Reporting { frames: mono, pos: 0, report_from, eq: 0.0 }) };
        match wrapper { "boxdynsignal" => run_node(s, &c), _ => run_node(BoxedNode::new(s), &c) }
    } else {
        sig_run::<CH>(frames.clone(), wrapper, &c, report_from)
    };
    let op = format!("node signal {} {} {} {} {}", wrapper, CH, frames.iter().flat_map(|f| f.iter()).map(|x| format!("{:08x}", x.to_bits())).collect::<String>(), show_bufs(&c.out0), ncalls);
    let mut out = Vec::new();
    let mut prev = c.out0.clone();
    for (j, o) in obs.outs.iter().enumerate() {
        match o {
            None => { out.push("panic".to_string()); st.oracle_fail("signal node panicked", &format!("channels {} outputs {}", CH, n_out), "no panic", "panic"); break; }
            Some(o) => {
                out.push(show_bufs(o));
                let mut want = prev.clone();
                for ch in 0..CH.min(n_out) { for ix in 0..LEN { want[ch][ix] = frames[j * LEN + ix][ch]; } }
                if !same_bufs(&want, o) {
                    st.oracle_fail("signal node did not write frames 64j..64j+63 de-interleaved", &format!("channels {} outputs {} call {} ({})", CH, n_out, j, wrapper), &show_bufs(&want), &show_bufs(o));
                } else { st.oracle_ok((n_out * LEN) as u64); }
                prev = o.clone();
            }
        }
    }
    st.count("kind_signal"); st.count(&format!("wrapper_{}", wrapper)); st.count(&format!("signal_channels_{}", CH));
    st.case(&op, &out.join(" "), true, ncalls as u64);
}

trait FrameArr: Sized { fn run(frames: Vec<Self>, wrapper: &str, c: &Case, report_from: usize) -> Obs; }
macro_rules! impl_frame_arr { ($($n:expr),*) => { $(
    impl FrameArr for [f32; $n] {
        fn run(frames: Vec<Self>, wrapper: &str, c: &Case, report_from: usize) -> Obs {
            let s: Box<dyn signal::Signal<Frame = [f32; $n]>> = if report_from == usize::MAX { Box::new(signal::from_iter(frames.into_iter())) } else { Box::new(Reporting { frames, pos: 0, report_from, eq: [0.0; $n] }) };
            match wrapper { "boxdynsignal" => run_node(s, c), _ => run_node(BoxedNode::new(s), c) }
        }
    } )* } }
impl_frame_arr!(1, 2, 3, 4);
fn sig_run<const CH: usize>(frames: Vec<[f32; CH]>, wrapper: &str, c: &Case, report_from: usize) -> Obs where [f32; CH]: FrameArr { <[f32; CH]>::run(frames, wrapper, c, report_from) }

// ---------------------------------------------------------------- nested graph
#[derive(Clone)]
struct Inner { kinds: Vec<char>, chans: Vec<usize>, edges: Vec<(usize, usize)>, input_nodes: Vec<usize>, output_node: usize }

fn build_inner(sp: &Inner) -> Graph<NodeData<BoxedNode>, ()> {
    let mut g = Graph::new();
    for (k, &ch) in sp.kinds.iter().zip(sp.chans.iter()) {
        let bufs = vec![Buffer::SILENT; ch];
        match k { 'p' => g.add_node(NodeData::boxed(Pass, bufs)), 's' => g.add_node(NodeData::boxed(Sum, bufs)), _ => g.add_node(NodeData::boxed(SumBuffers, bufs)) };
    }
    for &(a, b) in &sp.edges { g.add_edge(NodeIndex::new(a), NodeIndex::new(b), ()); }
    g
}

fn graph_case(st: &mut Stream, rng: &mut Rng, wrapper: &str, in_bufs: &[usize], n_out: usize) {
    let n = 1 + rng.usize_below(6);
    let kinds: Vec<char> = (0..n).map(|_| *rng.pick(&['p', 'p', 's', 's', 'b'])).collect();
    let chans: Vec<usize> = (0..n).map(|_| rng.usize_below(4)).collect();
    let mut edges = Vec::new();
    let cyclic = rng.chance(1, 4);
    for _ in 0..rng.usize_below(2 * n + 1) {
        let (mut a, mut b) = (rng.usize_below(n), rng.usize_below(n));
        if !cyclic { if a == b { continue; } if a > b { std::mem::swap(&mut a, &mut b); } }
        edges.push((a, b));
    }
    let input_nodes: Vec<usize> = (0..rng.usize_below(4)).map(|_| rng.usize_below(n)).collect();
    let sp = Inner { kinds, chans, edges, input_nodes, output_node: if cyclic { rng.usize_below(n) } else { n - 1 - rng.usize_below(n.min(2)) } };
    let c = make_case(rng, in_bufs, n_out, 5);
    let mk = || GraphNode::<Graph<NodeData<BoxedNode>, ()>, BoxedNode> {
        processor: Processor::with_capacity(n), graph: build_inner(&sp),
        input_nodes: sp.input_nodes.iter().map(|&i| NodeIndex::new(i)).collect(), output_node: NodeIndex::new(sp.output_node), node_type: std::marker::PhantomData };
    let obs = match wrapper {
        "plain" => run_node(mk(), &c),
        "mutref" => { let mut g = mk(); run_node(&mut g, &c) }
        "box" => run_node(Box::new(mk()), &c),
        _ => run_node(BoxedNode::new(mk()), &c),
    };
    let inner_ref = build_inner(&sp);
    let inc: Vec<Vec<usize>> = (0..n).map(|i| inner_ref.neighbors_directed(NodeIndex::new(i), Incoming).map(|x| x.index()).collect()).collect();
    let lst = |l: &[usize]| if l.is_empty() { "-".to_string() } else { l.iter().map(|x| x.to_string()).collect::<Vec<_>>().join(",") };
    let mut op = format!("node graph {} {} {}", wrapper, n, sp.kinds.iter().collect::<String>());
    for l in &inc { op.push(' '); op.push_str(&lst(l)); }
    op.push_str(&format!(" {} {} {} {}", lst(&sp.chans), lst(&sp.input_nodes), sp.output_node, show_bufs(&c.out0)));
    // oracle: "nested-graph nodes behave exactly like the … graph they wrap": a second copy of the inner graph,
    // fed and processed directly
    let mut gref = inner_ref;
    let mut pref: Processor<Graph<NodeData<BoxedNode>, ()>> = Processor::with_capacity(n);
    let mut out = Vec::new();
    let mut prev = c.out0.clone();
    for (j, o) in obs.outs.iter().enumerate() {
        let ins = inputs_of(&c, &obs.order, j);
        op.push(' '); op.push_str(&show_inputs(&ins));
        match o {
            None => { out.push("panic".to_string()); st.oracle_fail("graph node panicked", &op[..op.len().min(300)], "no panic", "panic"); break; }
            Some(o) => {
                out.push(show_bufs(o));
                for (inp, &in_n) in ins.iter().zip(sp.input_nodes.iter()) {
                    let nb = &mut gref.node_weight_mut(NodeIndex::new(in_n)).unwrap().buffers;
                    for (k, b) in inp.iter().enumerate() { if k < nb.len() { nb[k] = to_buffer(b); } }
                }
                pref.process(&mut gref, NodeIndex::new(sp.output_node));
                let inner_out: Vec<B> = gref.node_weight(NodeIndex::new(sp.output_node)).unwrap().buffers.iter().map(from_buffer).collect();
                let mut want = prev.clone();
                for ch in 0..want.len().min(inner_out.len()) { want[ch] = inner_out[ch]; }
                if !same_bufs(&want, o) {
                    st.oracle_fail(&format!("graph node ({}) differs from feeding and processing the wrapped graph directly", wrapper), &op[..op.len().min(300)], &show_bufs(&want), &show_bufs(o));
                } else { st.oracle_ok((n_out * LEN) as u64); }
                prev = o.clone();
            }
        }
    }
    st.count("kind_graph"); st.count(&format!("wrapper_{}", wrapper)); st.count(if cyclic { "inner_graph_may_be_cyclic" } else { "inner_graph_acyclic" });
    st.case(&op, &out.join(" "), true, 5);
}

// ---------------------------------------------------------------- enumeration
/// every tuple of buffers-per-input (each 0..=3) for 0..=max_inputs inputs
fn combos(max_inputs: usize) -> Vec<Vec<usize>> {
    let mut all = vec![vec![]];
    let mut level: Vec<Vec<usize>> = vec![vec![]];
    for _ in 0..max_inputs {
        let mut next = Vec::new();
        for c in &level { for b in 0..=3 { let mut d = c.clone(); d.push(b); next.push(d); } }
        all.extend(next.iter().cloned());
        level = next;
    }
    all
}

fn run(a: &Args) {
    let mut st = Stream::new(&a.out, "node");
    let mut rng = Rng::new(a.seed, "node");
    let full = combos(if a.thorough() { 4 } else { 3 });
    let mut extra: Vec<Vec<usize>> = Vec::new();
    if !a.thorough() { for _ in 0..60 { extra.push((0..4).map(|_| rng.usize_below(4)).collect()); } }
    let mut k = 0usize;
    let mut ks = 0usize;
    for in_bufs in full.iter().chain(extra.iter()) {
        for n_out in 0..=3 {
            for kind in ["sum", "sumbuffers", "pass"] {
                let w = STATELESS_WRAPPERS[ks % STATELESS_WRAPPERS.len()]; ks += 1;
                stateless_case(&mut st, &mut rng, kind, w, in_bufs, n_out, 5);
            }
            let w = ["plain", "mutref", "box", "boxednode", "boxednodesend", "dynfnmut"][k % 6]; k += 1;
            let n_rings = if in_bufs.len() <= 2 { k % 4 } else { rng.usize_below(4) };
            delay_case(&mut st, &mut rng, w, in_bufs, n_out, n_rings, 5, false);
        }
    }
    // every wrapper x every stateless kind at least on one fixed shape, all rings counts x delay wrappers
    for kind in ["sum", "sumbuffers", "pass"] { for w in STATELESS_WRAPPERS { stateless_case(&mut st, &mut rng, kind, w, &[2, 1, 3], 2, 5); } }
    for w in ["plain", "mutref", "box", "boxednode", "boxednodesend", "dynfnmut"] { for r in 0..=3 { delay_case(&mut st, &mut rng, w, &[2, 3], 3, r, 5, false); } }
    // MANY INPUTS (fan-in far beyond the 0..4 of the enumeration; mixed channel counts) and LONG delay lines
    let mut counts: Vec<usize> = vec![16, 17, 33, 64, 100];
    if a.thorough() { counts.extend([5, 8, 15, 18, 31, 32, 34, 48, 63, 65, 96, 128, 150, 200]); for _ in 0..20 { counts.push(5 + rng.usize_below(196)); } }
    for (i, &cnt) in counts.iter().enumerate() {
        for kind in ["sum", "sumbuffers", "pass"] {
            // mostly 1..3 buffers per input, now and then none
            let in_bufs: Vec<usize> = (0..cnt).map(|_| if rng.chance(1, 8) { 0 } else { 1 + rng.usize_below(3) }).collect();
            let w = STATELESS_WRAPPERS[ks % STATELESS_WRAPPERS.len()]; ks += 1;
            stateless_case(&mut st, &mut rng, kind, w, &in_bufs, 1 + (i + ks) % 3, 2);
        }
        let in_bufs: Vec<usize> = (0..cnt).map(|_| 1 + rng.usize_below(3)).collect();
        let w = ["plain", "mutref", "box", "boxednode", "boxednodesend", "dynfnmut"][k % 6]; k += 1;
        delay_case(&mut st, &mut rng, w, &in_bufs, 1 + i % 3, 1 + i % 3, 2, false);
    }
    for i in 0..(if a.thorough() { 16 } else { 2 }) {
        let w = ["plain", "mutref", "box", "boxednode", "boxednodesend", "dynfnmut"][i % 6];
        let ncalls = if i % 2 == 0 { 40 } else { 90 };
        delay_case(&mut st, &mut rng, w, &[2, 1], 2, 2, ncalls, true);
    }
    let reps = if a.thorough() { 40 } else { 6 };
    for _ in 0..reps {
        for n_out in 0..=3 {
            for w in ["boxdynsignal", "boxednode"] {
                signal_case::<1>(&mut st, &mut rng, w, n_out);
                signal_case::<2>(&mut st, &mut rng, w, n_out);
                signal_case::<3>(&mut st, &mut rng, w, n_out);
                signal_case::<4>(&mut st, &mut rng, w, n_out);
            }
        }
    }
    let n_graph = if a.thorough() { 3000 } else { 400 };
    for i in 0..n_graph {
        let in_bufs: Vec<usize> = (0..rng.usize_below(5)).map(|_| rng.usize_below(4)).collect();
        let n_out = rng.usize_below(4);
        graph_case(&mut st, &mut rng, ["plain", "mutref", "box", "boxednode"][i % 4], &in_bufs, n_out);
    }
    st.note(if a.thorough() { "every (buffers per input in 0..3) tuple for 0..4 inputs x 0..3 output buffers, for sum/sumbuffers/pass/delay; plus fan-in 5..200 and delay rings of 1000..5700 samples over 40/90 calls; contents random" } else { "every (buffers per input in 0..3) tuple for 0..3 inputs x 0..3 output buffers plus 60 random 4-input tuples, for sum/sumbuffers/pass/delay; plus fan-in 16/17/33/64/100 and two delay lines of 1000+ samples over 40/90 calls; contents random" });
    st.exhaustive = false;
    st.finish();
}
