//! A frame type of the USER's own: three `f32` channels kept in reverse order behind one lane of padding (16 bytes
//! per frame, channel c lives at lane 3 - c). Everything generic over `F: Frame` must go through the trait, never
//! through the memory layout of the array frames that dasp_frame ships.
//!
//! `ChannelsRef` / `ChannelsMut` have no public constructor; they are newtypes over `slice::Iter(Mut)<F::Sample>`
//! whatever `F` is, so the ones of a scratch array are re-labelled (same representation, only the phantom frame
//! type differs). Only the harness ever calls them.
use dasp_frame::{Channels, ChannelsMut, ChannelsRef, Frame, NChannels};

#[repr(C, align(16))]
#[derive(Copy, Clone, Debug, PartialEq)]
pub struct Odd3 { pad: f32, rev: [f32; 3] }

impl Odd3 {
    pub fn new(c: [f32; 3]) -> Odd3 { Odd3 { pad: 777.0, rev: [c[2], c[1], c[0]] } }
    pub fn get(&self) -> [f32; 3] { [self.rev[2], self.rev[1], self.rev[0]] }
    pub fn pad_intact(&self) -> bool { self.pad == 777.0 }
}

impl Frame for Odd3 {
    type Sample = f32;
    type NumChannels = NChannels<3>;
    type Channels = Channels<[f32; 3]>;
    type Signed = Odd3;
    type Float = Odd3;
    const EQUILIBRIUM: Self = Odd3 { pad: 777.0, rev: [0.0; 3] };
    const CHANNELS: usize = 3;
    fn from_fn<F>(mut from: F) -> Self where F: FnMut(usize) -> f32 { let (a, b, c) = (from(0), from(1), from(2)); Odd3::new([a, b, c]) }
    fn from_samples<I>(samples: &mut I) -> Option<Self> where I: Iterator<Item = f32> { <[f32; 3]>::from_samples(samples).map(Odd3::new) }
    fn channels(self) -> Self::Channels { self.get().channels() }
    fn channels_ref(&self) -> ChannelsRef<'_, Self> { unimplemented!("channel order is reversed in memory: no slice iterator in channel order exists") }
    fn channels_mut(&mut self) -> ChannelsMut<'_, Self> { unimplemented!("channel order is reversed in memory") }
    fn channel(&self, idx: usize) -> Option<&f32> { if idx < 3 { Some(&self.rev[2 - idx]) } else { None } }
    fn channel_mut(&mut self, idx: usize) -> Option<&mut f32> { if idx < 3 { Some(&mut self.rev[2 - idx]) } else { None } }
    unsafe fn channel_unchecked(&self, idx: usize) -> &f32 { &self.rev[2 - idx] }
    unsafe fn channel_unchecked_mut(&mut self, idx: usize) -> &mut f32 { &mut self.rev[2 - idx] }
    fn map<F, M>(self, mut map: M) -> F where F: Frame<NumChannels = Self::NumChannels>, M: FnMut(f32) -> F::Sample { let c = self.get(); F::from_fn(|i| map(c[i])) }
    fn zip_map<O, F, M>(self, other: O, mut zip_map: M) -> F
    where O: Frame<NumChannels = Self::NumChannels>, F: Frame<NumChannels = Self::NumChannels>, M: FnMut(f32, O::Sample) -> F::Sample {
        let c = self.get(); F::from_fn(|i| zip_map(c[i], *other.channel(i).unwrap()))
    }
    fn to_signed_frame(self) -> Self::Signed { self }
    fn to_float_frame(self) -> Self::Float { self }
}
