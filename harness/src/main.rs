//! dasp verification harness: runs the real code in-process, one correspondence stream per
//! invocation.  `harness <stream> [--tier quick|thorough] [--seed N] [--out DIR]`
mod util;
mod conv_table;
mod c01;

use util::Args;

fn main() {
    let argv: Vec<String> = std::env::args().collect();
    if argv.len() < 2 { eprintln!("usage: harness <stream> [--tier T] [--seed N] [--out DIR]"); std::process::exit(2); }
    let mut a = Args { stream: argv[1].clone(), tier: "quick".into(), seed: 1, out: ".".into(), replay: None };
    let mut i = 2;
    while i < argv.len() {
        match argv[i].as_str() {
            "--tier" => { a.tier = argv[i + 1].clone(); i += 2; }
            "--seed" => { a.seed = argv[i + 1].parse().unwrap_or(1); i += 2; }
            "--out" => { a.out = argv[i + 1].clone(); i += 2; }
            "--replay" => { a.replay = Some(argv[i + 1].clone()); i += 2; }
            _ => { eprintln!("unknown argument {}", argv[i]); std::process::exit(2); }
        }
    }
    util::silence_panics();
    match a.stream.as_str() {
        "conv" => c01::run(&a),
        s => { eprintln!("unknown stream {}", s); std::process::exit(2); }
    }
}
