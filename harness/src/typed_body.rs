// included twice by typed.rs (once per frame type); see there
use super::super::{Dyn, util::{guarded, Stream}};
use dasp_signal::{self as signal, Signal};
use std::cell::Cell;
use std::rc::Rc;

/// the arguments of one stage
#[derive(Clone)]
pub struct A { sc: Fl, of: Sg, scp: FF, ofp: FS, cl: Sg, dl: usize, other: Vec<FS>, otherf: Vec<FF>, otherz: Vec<F>, cnt: Rc<Cell<u64>> }
impl A {
    fn gen(rng: &mut Rng, n: usize) -> A {
        let lo = rng.usize_below(n + 2);
        A { sc: gen_fl(rng), of: gen_sg(rng), scp: gen_ff(rng), ofp: gen_fs(rng), cl: gen_sg(rng), dl: rng.usize_below(4),
            other: (0..lo).map(|_| gen_fs(rng)).collect(), otherf: (0..lo).map(|_| gen_ff(rng)).collect(), otherz: (0..lo).map(|_| gen_f(rng)).collect(),
            cnt: Rc::new(Cell::new(0)) }
    }
    fn fresh(&self) -> A { let mut a = self.clone(); a.cnt = Rc::new(Cell::new(0)); a }
}
macro_rules! ap {
    (sc, $s:expr, $a:expr) => { $s.scale_amp($a.sc) };
    (of, $s:expr, $a:expr) => { $s.offset_amp($a.of) };
    (scp, $s:expr, $a:expr) => { $s.scale_amp_per_channel($a.scp) };
    (ofp, $s:expr, $a:expr) => { $s.offset_amp_per_channel($a.ofp) };
    (cl, $s:expr, $a:expr) => { $s.clip_amp($a.cl) };
    (dl, $s:expr, $a:expr) => { $s.delay($a.dl) };
    (mp, $s:expr, $a:expr) => { $s.map({ let k = $a.dl; move |f: F| tweak(f, k) }) };
    (ins, $s:expr, $a:expr) => { $s.inspect({ let c = $a.cnt.clone(); move |f: &F| c.set(c.get().wrapping_mul(31).wrapping_add(hash(*f))) }) };
    (ad, $s:expr, $a:expr) => { $s.add_amp(signal::from_iter($a.other.clone())) };
    (mu, $s:expr, $a:expr) => { $s.mul_amp(signal::from_iter($a.otherf.clone())) };
    (zm, $s:expr, $a:expr) => { $s.zip_map(signal::from_iter($a.otherz.clone()), |x: F, y: F| comb(x, y)) };
}
/// `None`: the real code panicked (integer overflow in a build with overflow checks) — then both builds must
fn run<S: Signal<Frame = F>>(mut s: S, n: usize) -> Option<Vec<(bool, F)>> { guarded(move || (0..n).map(|_| { let e = s.is_exhausted(); (e, s.next()) }).collect()) }
fn judge(st: &mut Stream, inner: &str, outer: &str, frames: &[F], typed: &Option<Vec<(bool, F)>>, boxed: &Option<Vec<(bool, F)>>, ct: u64, cb: u64, args: String) {
    st.count(&format!("typed_nesting_{}", NAME));
    if typed == boxed && (ct == cb || typed.is_none()) { st.oracle_ok(typed.as_ref().map_or(1, |t| t.len() as u64)); if typed.is_none() { st.count("typed_nesting_both_panicked_overflow"); } return; }
    let k = match (typed, boxed) { (Some(t), Some(b)) => t.iter().zip(b.iter()).position(|(x, y)| x != y), _ => None };
    st.oracle_fail(&format!("{}: `source.{}(..).{}(..)` called on the concrete adaptor type differs from the same stack with the inner stage behind Box<dyn Signal> (is_exhausted before / frame, first difference at output {:?}; inspect digests {} / {})", NAME, inner, outer, k, ct, cb),
        &format!("typed {} source {:?} stages {} then {} args {}", NAME, frames, inner, outer, args),
        &format!("{:?}", boxed), &format!("{:?}", typed));
}
macro_rules! outers {
    ($st:expr, $frames:expr, $ai:expr, $ao:expr, $n:expr, $i:ident; $($o:ident),*) => { $( {
        let (i1, o1, i2, o2) = ($ai.fresh(), $ao.fresh(), $ai.fresh(), $ao.fresh());
        let typed = run(ap!($o, ap!($i, signal::from_iter($frames.clone()), &i1), &o1), $n);
        let boxed = run(ap!($o, Dyn(Box::new(ap!($i, signal::from_iter($frames.clone()), &i2))), &o2), $n);
        let digest = |a: &A, b: &A| a.cnt.get().wrapping_mul(1_000_003).wrapping_add(b.cnt.get());
        judge($st, stringify!($i), stringify!($o), &$frames, &typed, &boxed, digest(&i1, &o1), digest(&i2, &o2),
            format!("inner(sc {:?} of {:?} scp {:?} ofp {:?} cl {:?} dl {}) outer(sc {:?} of {:?} scp {:?} ofp {:?} cl {:?} dl {})", i1.sc, i1.of, i1.scp, i1.ofp, i1.cl, i1.dl, o1.sc, o1.of, o1.scp, o1.ofp, o1.cl, o1.dl));
    } )* };
}
macro_rules! all_pairs {
    ($st:expr, $frames:expr, $ai:expr, $ao:expr, $n:expr; $($i:ident),*) => { $( outers!($st, $frames, $ai, $ao, $n, $i; sc, of, scp, ofp, cl, dl, mp, ins, ad, mu, zm); )* };
}
/// three stages of the same adaptor (the fused forms a fast path would take)
macro_rules! triples {
    ($st:expr, $frames:expr, $ai:expr, $ao:expr, $n:expr; $($i:ident),*) => { $( {
        let (i1, o1, i2, o2) = ($ai.fresh(), $ao.fresh(), $ai.fresh(), $ao.fresh());
        let typed = run(ap!($i, ap!($i, ap!($i, signal::from_iter($frames.clone()), &i1), &o1), &i1), $n);
        let boxed = run(ap!($i, Dyn(Box::new(ap!($i, Dyn(Box::new(ap!($i, signal::from_iter($frames.clone()), &i2))), &o2))), &i2), $n);
        judge($st, stringify!($i), concat!(stringify!($i), " twice more"), &$frames, &typed, &boxed, i1.cnt.get() ^ o1.cnt.get(), i2.cnt.get() ^ o2.cnt.get(),
            format!("first and third stage (sc {:?} of {:?} scp {:?} ofp {:?} cl {:?} dl {}) second stage (sc {:?} of {:?} scp {:?} ofp {:?} cl {:?} dl {})", i1.sc, i1.of, i1.scp, i1.ofp, i1.cl, i1.dl, o1.sc, o1.of, o1.scp, o1.ofp, o1.cl, o1.dl));
    } )* };
}
pub fn run_all(st: &mut Stream, rng: &mut Rng, rounds: usize) {
    for _ in 0..rounds {
        let len = rng.usize_below(7);
        let frames: Vec<F> = (0..len).map(|_| gen_f(rng)).collect();
        let n = len + 2 + rng.usize_below(4);
        let (ai, ao) = (A::gen(rng, n), A::gen(rng, n));
        all_pairs!(st, frames, ai, ao, n; sc, of, scp, ofp, cl, dl, mp, ins, ad, mu, zm);
        triples!(st, frames, ai, ao, n; sc, of, scp, ofp, cl, dl, mp, ins);
    }
}
