// included twice by typed.rs (once per frame type); see there
use super::super::{Dyn, util::{guarded, Stream}};
use dasp_signal::{self as signal, Signal};
use std::cell::Cell;
use std::rc::Rc;

/// the arguments of one stage
#[derive(Clone)]
pub struct A { sc: Fl, of: Sg, scp: FF, ofp: FS, cl: Sg, dl: usize, other: Vec<FS>, otherf: Vec<FF>, otherz: Vec<F>, cnt: Rc<Cell<u64>> }
impl A {
    fn gen(rng: &mut Rng, n: usize) -> A {
        let lo = rng.usize_below(n + 2);
        A { sc: gen_fl(rng), of: gen_sg(rng), scp: gen_ff(rng), ofp: gen_fs(rng), cl: gen_sg(rng), dl: rng.usize_below(4),
            other: (0..lo).map(|_| gen_fs(rng)).collect(), otherf: (0..lo).map(|_| gen_ff(rng)).collect(), otherz: (0..lo).map(|_| gen_f(rng)).collect(),
            cnt: Rc::new(Cell::new(0)) }
    }
    fn fresh(&self) -> A { let mut a = self.clone(); a.cnt = Rc::new(Cell::new(0)); a }
}
macro_rules! ap {
    (sc, $s:expr, $a:expr) => { $s.scale_amp($a.sc) };
    (of, $s:expr, $a:expr) => { $s.offset_amp($a.of) };
    (scp, $s:expr, $a:expr) => { $s.scale_amp_per_channel($a.scp) };
    (ofp, $s:expr, $a:expr) => { $s.offset_amp_per_channel($a.ofp) };
    (cl, $s:expr, $a:expr) => { $s.clip_amp($a.cl) };
    (dl, $s:expr, $a:expr) => { $s.delay($a.dl) };
    (mp, $s:expr, $a:expr) => { $s.map({ let k = $a.dl; move |f: F| tweak(f, k) }) };
    (ins, $s:expr, $a:expr) => { $s.inspect({ let c = $a.cnt.clone(); move |f: &F| c.set(c.get().wrapping_mul(31).wrapping_add(hash(*f))) }) };
    (ad, $s:expr, $a:expr) => { $s.add_amp(signal::from_iter($a.other.clone())) };
    (mu, $s:expr, $a:expr) => { $s.mul_amp(signal::from_iter($a.otherf.clone())) };
    (zm, $s:expr, $a:expr) => { $s.zip_map(signal::from_iter($a.otherz.clone()), |x: F, y: F| comb(x, y)) };
}
/// `None`: the real code panicked (integer overflow in a build with overflow checks) — then both builds must
fn run<S: Signal<Frame = F>>(mut s: S, n: usize) -> Option<Vec<(bool, F)>> { guarded(move || (0..n).map(|_| { let e = s.is_exhausted(); (e, s.next()) }).collect()) }
fn judge(st: &mut Stream, inner: &str, outer: &str, frames: &[F], typed: &Option<Vec<(bool, F)>>, boxed: &Option<Vec<(bool, F)>>, ct: u64, cb: u64, args: String) {
    st.count(&format!("typed_nesting_{}", NAME));
    if typed == boxed && (ct == cb || typed.is_none()) { st.oracle_ok(typed.as_ref().map_or(1, |t| t.len() as u64)); if typed.is_none() { st.count("typed_nesting_both_panicked_overflow"); } return; }
    let k = match (typed, boxed) { (Some(t), Some(b)) => t.iter().zip(b.iter()).position(|(x, y)| x != y), _ => None };
    st.oracle_fail(&format!("{}: `source.{}(..).{}(..)` called on the concrete adaptor type differs from the same stack with the inner stage behind Box<dyn Signal> (is_exhausted before / frame, first difference at output {:?}; inspect digests {} / {})", NAME, inner, outer, k, ct, cb),
        &format!("typed {} source {:?} stages {} then {} args {}", NAME, frames, inner, outer, args),
        &format!("{:?}", boxed), &format!("{:?}", typed));
}
macro_rules! outers {
    ($st:expr, $frames:expr, $ai:expr, $ao:expr, $n:expr, $i:ident; $($o:ident),*) => { $( {
        let (i1, o1, i2, o2) = ($ai.fresh(), $ao.fresh(), $ai.fresh(), $ao.fresh());
        let typed = run(ap!($o, ap!($i, signal::from_iter($frames.clone()), &i1), &o1), $n);
        let boxed = run(ap!($o, Dyn(Box::new(ap!($i, signal::from_iter($frames.clone()), &i2))), &o2), $n);
        let digest = |a: &A, b: &A| a.cnt.get().wrapping_mul(1_000_003).wrapping_add(b.cnt.get());
        judge($st, stringify!($i), stringify!($o), &$frames, &typed, &boxed, digest(&i1, &o1), digest(&i2, &o2),
            format!("inner(sc {:?} of {:?} scp {:?} ofp {:?} cl {:?} dl {}) outer(sc {:?} of {:?} scp {:?} ofp {:?} cl {:?} dl {})", i1.sc, i1.of, i1.scp, i1.ofp, i1.cl, i1.dl, o1.sc, o1.of, o1.scp, o1.ofp, o1.cl, o1.dl));
    } )* };
}
macro_rules! all_pairs {
    ($st:expr, $frames:expr, $ai:expr, $ao:expr, $n:expr; $($i:ident),*) => { $( outers!($st, $frames, $ai, $ao, $n, $i; sc, of, scp, ofp, cl, dl, mp, ins, ad, mu, zm); )* };
}
/// three stages of the same adaptor (the fused forms a fast path would take)
macro_rules! triples {
    ($st:expr, $frames:expr, $ai:expr, $ao:expr, $n:expr; $($i:ident),*) => { $( {
        let (i1, o1, i2, o2) = ($ai.fresh(), $ao.fresh(), $ai.fresh(), $ao.fresh());
        let typed = run(ap!($i, ap!($i, ap!($i, signal::from_iter($frames.clone()), &i1), &o1), &i1), $n);
        let boxed = run(ap!($i, Dyn(Box::new(ap!($i, Dyn(Box::new(ap!($i, signal::from_iter($frames.clone()), &i2))), &o2))), &i2), $n);
        judge($st, stringify!($i), concat!(stringify!($i), " twice more"), &$frames, &typed, &boxed, i1.cnt.get() ^ o1.cnt.get(), i2.cnt.get() ^ o2.cnt.get(),
            format!("first and third stage (sc {:?} of {:?} scp {:?} ofp {:?} cl {:?} dl {}) second stage (sc {:?} of {:?} scp {:?} ofp {:?} cl {:?} dl {})", i1.sc, i1.of, i1.scp, i1.ofp, i1.cl, i1.dl, o1.sc, o1.of, o1.scp, o1.ofp, o1.cl, o1.dl));
    } )* };
}
thread_local! { static FEED: std::cell::RefCell<(Vec<F>, usize)> = std::cell::RefCell::new((Vec::new(), 0)); }
fn feed_next() -> F { FEED.with(|f| { let mut f = f.borrow_mut(); let i = f.1; f.1 += 1; if i < f.0.len() { f.0[i] } else { gen_const() } }) }
fn feed_reset(v: Vec<F>) { FEED.with(|f| *f.borrow_mut() = (v, 0)); }
fn feed_pos() -> usize { FEED.with(|f| f.borrow().1) }

/// ZERO-SIZED but varying operands: `signal::gen(f)` over a plain function (or a closure that captures nothing) which
/// reads a thread-local feed. The adaptor's static type says nothing about whether the operand has state: the n-th
/// output must use the operand's n-th frame and every `next` must pull it exactly once, whatever `size_of` the operand has.
fn zst_operands(st: &mut Stream, rng: &mut Rng) {
    let n = 3 + rng.usize_below(6);
    let feed: Vec<F> = (0..n + 2).map(|_| gen_f(rng)).collect();
    let left: Vec<F> = (0..n).map(|_| gen_f(rng)).collect();
    let a = A::gen(rng, n);
    let case = format!("typed {} zero-sized operand signal::gen(fn) fed {:?}; left operand {:?}", NAME, feed, left);
    macro_rules! zst_case { ($what:expr, $build:expr, $refb:expr) => { {
        feed_reset(feed.clone());
        let got = run($build, n);
        let pulled = feed_pos();
        feed_reset(feed.clone());
        let want = run($refb, n);
        let pulled_ref = feed_pos();
        st.count(&format!("typed_zero_sized_operand_{}", NAME));
        if got == want && (got.is_none() || pulled == pulled_ref) { st.oracle_ok(n as u64); }
        else { st.oracle_fail(&format!("{}: {} with a ZERO-SIZED right-hand operand (signal::gen over a plain fn reading a thread-local feed) differs from the same stack with the operand boxed, or the operand was pulled a different number of times (pulled {} times, boxed build {} times, {} outputs)", NAME, $what, pulled, pulled_ref, n), &case, &format!("{:?}", want), &format!("{:?}", got)); }
    } } }
    zst_case!("add_amp", signal::from_iter(left.clone()).add_amp(signal::gen(sg_feed)), signal::from_iter(left.clone()).add_amp(Dyn(Box::new(signal::gen(sg_feed)))));
    zst_case!("mul_amp", signal::from_iter(left.clone()).mul_amp(signal::gen(fl_feed)), signal::from_iter(left.clone()).mul_amp(Dyn(Box::new(signal::gen(fl_feed)))));
    zst_case!("zip_map", signal::from_iter(left.clone()).zip_map(signal::gen(feed_next), |x: F, y: F| comb(x, y)), signal::from_iter(left.clone()).zip_map(Dyn(Box::new(signal::gen(feed_next))), |x: F, y: F| comb(x, y)));
    zst_case!("scale_amp over gen", signal::gen(feed_next).scale_amp(a.sc), Dyn(Box::new(signal::gen(feed_next))).scale_amp(a.sc));
    zst_case!("delay over gen", signal::gen(feed_next).delay(a.dl), Dyn(Box::new(signal::gen(feed_next))).delay(a.dl));
    zst_case!("map over gen", signal::gen(feed_next).map(|f: F| tweak(f, 1)), Dyn(Box::new(signal::gen(feed_next))).map(|f: F| tweak(f, 1)));
}

/// STATEFUL closures over sources with RUNS of identical frames (silence, DC, a stepped control; `delay(k)` makes such
/// runs inside the library): `map` / `zip_map` / `inspect` call the user's closure exactly once per frame, in order,
/// whether or not the frame equals the one before it
fn stateful_over_repeats(st: &mut Stream, rng: &mut Rng) {
    let n = 6 + rng.usize_below(10);
    let mut frames: Vec<F> = Vec::new();
    while frames.len() < n { let f = gen_f(rng); for _ in 0..(1 + rng.usize_below(4)) { frames.push(f); } }
    frames.truncate(n);
    let dl = 2 + rng.usize_below(3);
    let case = format!("typed {} stateful closures over the source {:?} (runs of identical frames), also behind delay({})", NAME, frames, dl);
    let r = guarded(|| {
        let mut k1 = 0usize;
        let a: Vec<F> = signal::from_iter(frames.clone()).map(|f: F| { k1 += 1; tweak(f, k1) }).take(n).collect();
        let mut k2 = 0usize;
        let b: Vec<F> = signal::from_iter(frames.clone()).delay(dl).map(|f: F| { k2 += 1; tweak(f, k2) }).take(n + dl).collect();
        let mut k3 = 0usize;
        let c: Vec<F> = signal::from_iter(frames.clone()).zip_map(signal::from_iter(frames.clone()), |x: F, y: F| { k3 += 1; tweak(comb(x, y), k3) }).take(n).collect();
        let mut k4 = 0usize;
        let d: Vec<F> = signal::from_iter(frames.clone()).inspect(|_f: &F| { k4 += 1; }).take(n).collect();
        (a, b, c, d, k1, k2, k3, k4)
    });
    st.count(&format!("typed_stateful_closures_over_repeated_frames_{}", NAME));
    match r {
        None => st.oracle_fail("panic", &case, "no panic", "panic"),
        Some((a, b, c, d, k1, k2, k3, k4)) => {
            let eqf = gen_const_eq();
            let wa: Vec<F> = frames.iter().enumerate().map(|(i, f)| tweak(*f, i + 1)).collect();
            let wb: Vec<F> = (0..n + dl).map(|i| tweak(if i < dl { eqf } else { frames[i - dl] }, i + 1)).collect();
            let wc: Vec<F> = frames.iter().enumerate().map(|(i, f)| tweak(comb(*f, *f), i + 1)).collect();
            if a == wa && b == wb && c == wc && d == frames && (k1, k2, k3, k4) == (n, n + dl, n, n) { st.oracle_ok(4 * n as u64); }
            else { st.oracle_fail(&format!("{}: a stateful closure given to map / zip_map / inspect was not called exactly once per frame in order (calls {} {} {} {} for {} / {} / {} / {} frames), or the outputs differ", NAME, k1, k2, k3, k4, n, n + dl, n, n), &case, &format!("{:?} | {:?} | {:?}", wa, wb, wc), &format!("{:?} | {:?} | {:?}", a, b, c)); }
        }
    }
}

pub fn run_all(st: &mut Stream, rng: &mut Rng, rounds: usize) {
    for _ in 0..rounds { zst_operands(st, rng); stateful_over_repeats(st, rng); }
    for _ in 0..rounds {
        let len = rng.usize_below(7);
        let frames: Vec<F> = (0..len).map(|_| gen_f(rng)).collect();
        let n = len + 2 + rng.usize_below(4);
        let (ai, ao) = (A::gen(rng, n), A::gen(rng, n));
        all_pairs!(st, frames, ai, ao, n; sc, of, scp, ofp, cl, dl, mp, ins, ad, mu, zm);
        triples!(st, frames, ai, ao, n; sc, of, scp, ofp, cl, dl, mp, ins);
    }
}
