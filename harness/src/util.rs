//! Shared harness utilities: PRNG (one splitmix64 stream per run), case writer, report.
#![allow(dead_code)]
use std::collections::{BTreeMap, HashSet};
use std::fs::File;
use std::io::{BufWriter, Write};
use std::panic::{catch_unwind, AssertUnwindSafe};

#[derive(Clone)]
pub struct Rng(pub u64);
impl Rng {
    pub fn new(seed: u64, tag: &str) -> Rng {
        let mut h = seed ^ 0x9E37_79B9_7F4A_7C15;
        for b in tag.bytes() {
            h = (h ^ b as u64).wrapping_mul(0x100_0000_01B3);
        }
        let mut r = Rng(h);
        r.next_u64();
        r
    }
    pub fn next_u64(&mut self) -> u64 {
        self.0 = self.0.wrapping_add(0x9E37_79B9_7F4A_7C15);
        let mut z = self.0;
        z = (z ^ (z >> 30)).wrapping_mul(0xBF58_476D_1CE4_E5B9);
        z = (z ^ (z >> 27)).wrapping_mul(0x94D0_49BB_1331_11EB);
        z ^ (z >> 31)
    }
    pub fn below(&mut self, n: u64) -> u64 {
        if n == 0 { 0 } else { self.next_u64() % n }
    }
    pub fn usize_below(&mut self, n: usize) -> usize { self.below(n as u64) as usize }
    /// inclusive range over i128 (span must fit in u128)
    pub fn range_i128(&mut self, lo: i128, hi: i128) -> i128 {
        let span = (hi - lo) as u128 + 1;
        let r = ((self.next_u64() as u128) << 64 | self.next_u64() as u128) % span;
        lo + r as i128
    }
    pub fn range(&mut self, lo: i64, hi: i64) -> i64 { self.range_i128(lo as i128, hi as i128) as i64 }
    pub fn chance(&mut self, num: u64, den: u64) -> bool { self.below(den) < num }
    pub fn f64_unit(&mut self) -> f64 { (self.next_u64() >> 11) as f64 / (1u64 << 53) as f64 }
    pub fn pick<'a, T>(&mut self, xs: &'a [T]) -> &'a T { &xs[self.usize_below(xs.len())] }
}

/// run `f`, mapping a panic to `None`
pub fn guarded<T>(f: impl FnOnce() -> T) -> Option<T> {
    catch_unwind(AssertUnwindSafe(f)).ok()
}

pub fn silence_panics() {
    if std::env::var("VERIF_PANIC_VERBOSE").is_ok() { return; }
    std::panic::set_hook(Box::new(|_| {}));
}

pub fn json_str(s: &str) -> String {
    let mut o = String::with_capacity(s.len() + 2);
    o.push('"');
    for c in s.chars() {
        match c {
            '"' => o.push_str("\\\""),
            '\\' => o.push_str("\\\\"),
            '\n' => o.push_str("\\n"),
            '\t' => o.push_str("\\t"),
            c if (c as u32) < 0x20 => o.push_str(&format!("\\u{:04x}", c as u32)),
            c => o.push(c),
        }
    }
    o.push('"');
    o
}

fn fnv(s: &str) -> u64 {
    let mut h = 0xcbf29ce484222325u64;
    for b in s.bytes() { h = (h ^ b as u64).wrapping_mul(0x100000001b3); }
    h
}

// ---- "what is running right now": two lines in <out>/<stream>.current, rewritten before the real code is entered,
// so that when the process running it does not come back (endless loop, runaway allocation, abort) the check can
// name the concrete case instead of only "the harness died"
thread_local! { static MARK: std::cell::RefCell<(Option<File>, [String; 2])> = std::cell::RefCell::new((None, [String::new(), String::new()])); }
/// slot 0: the case, slot 1: the step inside it (cleared by a new slot-0 mark)
pub fn mark(slot: usize, text: &str) {
    use std::io::{Seek, SeekFrom};
    MARK.with(|m| {
        let mut m = m.borrow_mut();
        m.1[slot] = text.chars().take(3000).collect();
        if slot == 0 { m.1[1].clear(); }
        let body = format!("{}\n{}\n", m.1[0], m.1[1]);
        if let Some(f) = m.0.as_mut() {
            let _ = f.seek(SeekFrom::Start(0));
            let _ = f.write_all(body.as_bytes());
            let _ = f.set_len(body.len() as u64);
        }
    });
}

/// One correspondence stream: `<name>.ops` (requests for the Lean driver), `<name>.impl`
/// (what the real code did, one line per request), `<name>.json` (report).
pub struct Stream {
    pub name: String,
    ops: BufWriter<File>,
    imp: BufWriter<File>,
    dir: String,
    pub cases: u64,
    pub evaluations: u64,
    distinct: HashSet<u64>,
    pub hist: BTreeMap<String, u64>,
    pub samples: Vec<String>,
    pub oracle_checks: u64,
    pub oracle_failures: Vec<String>, // JSON objects
    pub known_hits: Vec<String>,      // JSON objects: failing cases matching a known-finding trigger
    pub notes: Vec<String>,
    pub exhaustive: bool,
    max_samples: usize,
}

impl Stream {
    pub fn new(dir: &str, name: &str) -> Stream {
        std::fs::create_dir_all(dir).unwrap();
        MARK.with(|m| m.borrow_mut().0 = File::create(format!("{}/{}.current", dir, name)).ok());
        Stream {
            name: name.to_string(),
            ops: BufWriter::with_capacity(1 << 20, File::create(format!("{}/{}.ops", dir, name)).unwrap()),
            imp: BufWriter::with_capacity(1 << 20, File::create(format!("{}/{}.impl", dir, name)).unwrap()),
            dir: dir.to_string(),
            cases: 0,
            evaluations: 0,
            distinct: HashSet::new(),
            hist: BTreeMap::new(),
            samples: Vec::new(),
            oracle_checks: 0,
            oracle_failures: Vec::new(),
            known_hits: Vec::new(),
            notes: Vec::new(),
            exhaustive: false,
            max_samples: 6,
        }
    }
    /// record one correspondence case; `nontrivial` by the stream's stated rule
    pub fn case(&mut self, op: &str, observed: &str, nontrivial: bool, evals: u64) {
        debug_assert!(!op.contains('\n') && !observed.contains('\n'));
        writeln!(self.ops, "{}", op).unwrap();
        writeln!(self.imp, "{}", observed).unwrap();
        self.cases += 1;
        self.evaluations += evals;
        if nontrivial { self.distinct.insert(fnv(op)); }
        if self.samples.len() < self.max_samples && (nontrivial || self.cases < 3) {
            let mut o = op.to_string(); if o.len() > 300 { o.truncate(300); o.push_str("…"); }
            let mut i = observed.to_string(); if i.len() > 300 { i.truncate(300); i.push_str("…"); }
            self.samples.push(format!("{{\"op\":{},\"impl\":{}}}", json_str(&o), json_str(&i)));
        }
    }
    pub fn count(&mut self, key: &str) { *self.hist.entry(key.to_string()).or_insert(0) += 1; }
    pub fn count_n(&mut self, key: &str, n: u64) { *self.hist.entry(key.to_string()).or_insert(0) += n; }
    /// native evaluations checked by an independent oracle without the model
    pub fn oracle_ok(&mut self, n: u64) { self.oracle_checks += n; }
    pub fn oracle_fail(&mut self, what: &str, case: &str, expected: &str, observed: &str) {
        self.oracle_checks += 1;
        if self.oracle_failures.len() < 20 {
            self.oracle_failures.push(format!(
                "{{\"what\":{},\"case\":{},\"expected\":{},\"observed\":{}}}",
                json_str(what), json_str(case), json_str(expected), json_str(observed)));
        } else {
            self.count("oracle_failures_beyond_20");
        }
    }
    pub fn known_hit(&mut self, id: &str, case: &str, observed: &str) {
        if self.known_hits.len() < 5 {
            self.known_hits.push(format!("{{\"id\":{},\"case\":{},\"observed\":{}}}", json_str(id), json_str(case), json_str(observed)));
        }
    }
    pub fn note(&mut self, s: &str) { self.notes.push(s.to_string()); }
    pub fn finish(mut self) {
        self.ops.flush().unwrap();
        self.imp.flush().unwrap();
        mark(0, "");
        let mut f = File::create(format!("{}/{}.json", self.dir, self.name)).unwrap();
        let hist: Vec<String> = self.hist.iter().map(|(k, v)| format!("{}:{}", json_str(k), v)).collect();
        let notes: Vec<String> = self.notes.iter().map(|s| json_str(s)).collect();
        write!(f, "{{\"stream\":{},\"cases\":{},\"evaluations\":{},\"distinct_nontrivial\":{},\"oracle_checks\":{},\"exhaustive\":{},\"debug_assertions\":{},\"hist\":{{{}}},\"samples\":[{}],\"oracle_failures\":[{}],\"known_hits\":[{}],\"notes\":[{}]}}\n",
            json_str(&self.name), self.cases, self.evaluations, self.distinct.len(), self.oracle_checks, self.exhaustive,
            cfg!(debug_assertions),
            hist.join(","), self.samples.join(","), self.oracle_failures.join(","), self.known_hits.join(","), notes.join(",")).unwrap();
    }
}

pub struct Args {
    pub stream: String,
    pub tier: String,
    pub seed: u64,
    pub out: String,
    pub replay: Option<String>,
}
impl Args {
    pub fn thorough(&self) -> bool { self.tier == "thorough" }
    /// `<bin> <stream> [--tier quick|thorough] [--seed N] [--out DIR]`; also silences the panic hook
    pub fn parse() -> Args {
        let argv: Vec<String> = std::env::args().collect();
        if argv.len() < 2 { eprintln!("usage: {} <stream> [--tier T] [--seed N] [--out DIR]", argv[0]); std::process::exit(2); }
        let mut a = Args { stream: argv[1].clone(), tier: "quick".into(), seed: 1, out: ".".into(), replay: None };
        let mut i = 2;
        while i < argv.len() {
            match argv[i].as_str() {
                "--tier" => { a.tier = argv[i + 1].clone(); i += 2; }
                "--seed" => { a.seed = argv[i + 1].parse().unwrap_or(1); i += 2; }
                "--out" => { a.out = argv[i + 1].clone(); i += 2; }
                "--replay" => { a.replay = Some(argv[i + 1].clone()); i += 2; }
                _ => { eprintln!("unknown argument {}", argv[i]); std::process::exit(2); }
            }
        }
        silence_panics();
        a
    }
}

/// run this stream in the no_std twin of the harness (crate /verif/harness_nostd: the same source file linked against
/// the dasp crates built WITHOUT their default `std` feature; a separate crate because cargo unifies features over one
/// build). Built on demand; the process is replaced by the twin's exit status.
pub fn delegate_nostd(bin: &str) -> ! {
    use std::path::{Path, PathBuf};
    use std::process::Command;
    let manifest = Path::new(env!("CARGO_MANIFEST_DIR")).to_path_buf();   // /verif/harness or /verif/.build/alt/<tag>/harness
    let local = manifest.parent().unwrap().join("harness_nostd");
    let fail = |msg: String| -> ! { eprintln!("cannot run the no_std harness: {}", msg); std::process::exit(3) };
    // `local` is either /verif/harness_nostd itself or, in mutation mode (VERIF_REPO), a private copy next to the
    // private harness copy: that copy is REWRITTEN on every run from the real crate (path deps re-pointed like check
    // does), so that it never lags behind the real Cargo.toml
    let is_real = local.parent().map_or(false, |r| r.join("check").exists() && r.join("MANIFEST.json").exists());
    if !is_real {
        let mut root: Option<PathBuf> = None;
        let mut p = manifest.clone();
        while let Some(q) = p.parent().map(|x| x.to_path_buf()) {
            if q.join("harness_nostd").join("Cargo.toml").exists() && q.join("check").exists() { root = Some(q); break; }
            p = q;
        }
        let root = root.unwrap_or_else(|| fail("harness_nostd not found".into()));
        let main_toml = std::fs::read_to_string(manifest.join("Cargo.toml")).unwrap_or_default();
        let repo = main_toml.lines().find(|l| l.starts_with("dasp_sample")).and_then(|l| l.split('"').nth(1)).map(|s| s.trim_end_matches("/dasp_sample").to_string())
            .unwrap_or_else(|| fail("dasp_sample path not found in the harness Cargo.toml".into()));
        std::fs::create_dir_all(local.join(".cargo")).unwrap_or_else(|e| fail(e.to_string()));
        let src = root.join("harness_nostd");
        let toml = std::fs::read_to_string(src.join("Cargo.toml")).unwrap().replace("\"/repo/", &format!("\"{}/", repo));
        std::fs::write(local.join("Cargo.toml"), toml).unwrap();
        let _ = std::fs::copy(src.join("Cargo.lock"), local.join("Cargo.lock"));
        let target = manifest.parent().unwrap().join("cargo-nostd");
        let cfg = std::fs::read_to_string(src.join(".cargo/config.toml")).unwrap().replace("/verif/.build/cargo-nostd", target.to_str().unwrap());
        std::fs::write(local.join(".cargo/config.toml"), cfg).unwrap();
    }
    // the target directory is passed explicitly so that a copy of /verif living elsewhere builds into ITS OWN .build
    let target: String = if local.parent().map_or(false, |r| r.join("check").exists()) {
        local.parent().unwrap().join(".build").join("cargo-nostd").to_string_lossy().into_owned()
    } else {
        let cfg = std::fs::read_to_string(local.join(".cargo/config.toml")).unwrap_or_default();
        cfg.lines().find(|l| l.trim_start().starts_with("target-dir")).and_then(|l| l.split('"').nth(1)).unwrap_or("target").to_string()
    };
    let out = Command::new("cargo").args(["build", "--offline", "--release", "--bin", bin]).current_dir(&local).env("CARGO_NET_OFFLINE", "true").env("CARGO_TARGET_DIR", &target).output()
        .unwrap_or_else(|e| fail(e.to_string()));
    if !out.status.success() { fail(format!("cargo build failed:\n{}", String::from_utf8_lossy(&out.stderr))); }
    let bin = Path::new(&target).join("release").join(bin);
    let status = Command::new(&bin).args(std::env::args().skip(1)).status().unwrap_or_else(|e| fail(format!("{}: {}", bin.display(), e)));
    std::process::exit(status.code().unwrap_or(3));
}
