//! Iterator-protocol oracle (shared by the harness binaries).
//!
//! The properties speak of what an iterator "yields"; std lets a client consume an iterator in many
//! ways besides repeated `next()` — `nth`, `skip`, `step_by`, `last`, `count`, `fold`, `size_hint`, and for
//! double-ended / exact-size iterators `next_back`, `nth_back`, `rev`, `len` — and an implementation may
//! override any of them.  Whatever the route, the items must be the ones repeated `next()` yields: the
//! reference sequence, which the caller computes from the property text (never from the iterator under
//! test).  A script is a short random sequence of such calls; `expect` replays it on the reference slice.
#![allow(dead_code)]
use crate::util::Rng;
use std::fmt::Debug;

#[derive(Clone, Debug, PartialEq)]
pub enum ItOp {
    Next, Nth(usize), Hint, Len, NextBack, NthBack(usize),
    // terminal (consume the iterator)
    Count, Last, Rest, RevRest, SkipRest(usize), StepByRest(usize), FoldRest, TakeRest(usize),
}

#[derive(Clone, Debug, PartialEq)]
pub enum ItRes<T> { Item(Option<T>), Hint(usize, Option<usize>), Len(usize), Count(usize), Seq(Vec<T>) }

/// what kind of iterator the script is for
#[derive(Clone, Copy)]
pub struct Caps { pub double_ended: bool, pub exact: bool, pub finite: bool }

pub fn gen_script(rng: &mut Rng, n: usize, caps: Caps) -> Vec<ItOp> {
    let mut s = Vec::new();
    let steps = 1 + rng.usize_below(6);
    let k_max = n + 2;
    for _ in 0..steps {
        let op = match rng.below(if caps.double_ended { 8 } else { 6 }) {
            0 | 1 => ItOp::Next,
            2 | 3 => ItOp::Nth(match rng.below(4) { 0 => 0, 1 => 1, 2 => rng.usize_below(k_max), _ => rng.usize_below(4) }),
            4 => ItOp::Hint,
            5 => if caps.exact { ItOp::Len } else { ItOp::Hint },
            6 => ItOp::NextBack,
            _ => ItOp::NthBack(rng.usize_below(3.min(k_max))),
        };
        s.push(op);
    }
    // a terminal op most of the time (never an unbounded one on an infinite iterator)
    if caps.finite {
        match rng.below(if caps.double_ended { 9 } else { 8 }) {
            0 => s.push(ItOp::Count),
            1 => s.push(ItOp::Last),
            2 => s.push(ItOp::Rest),
            3 => s.push(ItOp::SkipRest(rng.usize_below(k_max))),
            4 => s.push(ItOp::StepByRest(1 + rng.usize_below(4))),
            5 => s.push(ItOp::FoldRest),
            6 => s.push(ItOp::TakeRest(rng.usize_below(k_max))),
            7 => {}
            _ => s.push(ItOp::RevRest),
        }
    } else if rng.chance(1, 2) {
        s.push(ItOp::TakeRest(rng.usize_below(k_max + 3)));
    }
    s
}

fn run_with<I: Iterator, T>(
    it: I, script: &[ItOp], f: &mut dyn FnMut(I::Item) -> T,
    back: Option<&dyn Fn(&mut I, Option<usize>) -> Option<I::Item>>,
    rev_rest: Option<&dyn Fn(I) -> Vec<I::Item>>,
    len: Option<&dyn Fn(&I) -> usize>,
) -> Vec<ItRes<T>> {
    // NOTE: the script runs on the iterator under test ITSELF (never behind `Iterator::map`, which falls
    // back to repeated `next()` for `nth`); items are converted by `f` only after they were handed out.
    let mut it = Some(it);
    let mut out = Vec::new();
    for (step, op) in script.iter().enumerate() {
        if it.is_none() { break; }
        crate::util::mark(1, &format!("iterator {}: script {:?}, entering step {} ({:?})", std::any::type_name::<I>(), script, step, op));
        match op {
            ItOp::Next => out.push(ItRes::Item(it.as_mut().unwrap().next().map(&mut *f))),
            ItOp::Nth(k) => out.push(ItRes::Item(it.as_mut().unwrap().nth(*k).map(&mut *f))),
            ItOp::Hint => { let (l, u) = it.as_ref().unwrap().size_hint(); out.push(ItRes::Hint(l, u)); }
            ItOp::Len => out.push(ItRes::Len((len.expect("Len on a non-exact iterator"))(it.as_ref().unwrap()))),
            ItOp::NextBack => out.push(ItRes::Item((back.expect("NextBack on a forward iterator"))(it.as_mut().unwrap(), None).map(&mut *f))),
            ItOp::NthBack(k) => out.push(ItRes::Item((back.expect("NthBack on a forward iterator"))(it.as_mut().unwrap(), Some(*k)).map(&mut *f))),
            ItOp::Count => out.push(ItRes::Count(it.take().unwrap().count())),
            ItOp::Last => out.push(ItRes::Item(it.take().unwrap().last().map(&mut *f))),
            ItOp::Rest => out.push(ItRes::Seq(it.take().unwrap().collect::<Vec<_>>().into_iter().map(&mut *f).collect())),
            ItOp::RevRest => out.push(ItRes::Seq((rev_rest.expect("RevRest on a forward iterator"))(it.take().unwrap()).into_iter().map(&mut *f).collect())),
            ItOp::SkipRest(k) => out.push(ItRes::Seq(it.take().unwrap().skip(*k).collect::<Vec<_>>().into_iter().map(&mut *f).collect())),
            ItOp::StepByRest(k) => out.push(ItRes::Seq(it.take().unwrap().step_by(*k).collect::<Vec<_>>().into_iter().map(&mut *f).collect())),
            ItOp::TakeRest(k) => out.push(ItRes::Seq(it.take().unwrap().take(*k).collect::<Vec<_>>().into_iter().map(&mut *f).collect())),
            ItOp::FoldRest => out.push(ItRes::Seq(it.take().unwrap().fold(Vec::new(), |mut v, x| { v.push(x); v }).into_iter().map(&mut *f).collect())),
        }
    }
    out
}

pub fn run_fwd<I: Iterator>(it: I, script: &[ItOp]) -> Vec<ItRes<I::Item>> { run_with(it, script, &mut |x| x, None, None, None) }
pub fn run_fwd_map<I: Iterator, T>(it: I, script: &[ItOp], mut f: impl FnMut(I::Item) -> T) -> Vec<ItRes<T>> { run_with(it, script, &mut f, None, None, None) }
pub fn run_exact<I: ExactSizeIterator>(it: I, script: &[ItOp]) -> Vec<ItRes<I::Item>> {
    run_with(it, script, &mut |x| x, None, None, Some(&|i: &I| i.len()))
}
pub fn run_exact_map<I: ExactSizeIterator, T>(it: I, script: &[ItOp], mut f: impl FnMut(I::Item) -> T) -> Vec<ItRes<T>> {
    run_with(it, script, &mut f, None, None, Some(&|i: &I| i.len()))
}
pub fn run_de<I: DoubleEndedIterator>(it: I, script: &[ItOp]) -> Vec<ItRes<I::Item>> { run_de_map(it, script, |x| x) }
pub fn run_de_map<I: DoubleEndedIterator, T>(it: I, script: &[ItOp], mut f: impl FnMut(I::Item) -> T) -> Vec<ItRes<T>> {
    run_with(it, script, &mut f, Some(&|i: &mut I, k| match k { None => i.next_back(), Some(k) => i.nth_back(k) }), Some(&|i: I| i.rev().collect()), None)
}
pub fn run_de_exact<I: DoubleEndedIterator + ExactSizeIterator>(it: I, script: &[ItOp]) -> Vec<ItRes<I::Item>> { run_de_exact_map(it, script, |x| x) }
pub fn run_de_exact_map<I: DoubleEndedIterator + ExactSizeIterator, T>(it: I, script: &[ItOp], mut f: impl FnMut(I::Item) -> T) -> Vec<ItRes<T>> {
    run_with(it, script, &mut f, Some(&|i: &mut I, k| match k { None => i.next_back(), Some(k) => i.nth_back(k) }), Some(&|i: I| i.rev().collect()), Some(&|i: &I| i.len()))
}

/// Replays `script` on the reference sequence and compares with what the iterator under test returned.
/// `exact_hint`: the iterator promises an exact `size_hint` (ExactSizeIterator, or the property says so);
/// otherwise only `lower <= remaining <= upper` is demanded (the `Iterator` contract).
/// For an infinite iterator pass a long enough prefix as `reference` and `finite = false`.
/// Returns (what, expected, observed) for the first mismatch, and the number of items left unconsumed
/// at the front (`lo`) so that the caller can check what a partly consumed draining iterator left behind.
pub fn check<T: Clone + PartialEq + Debug>(reference: &[T], script: &[ItOp], got: &[ItRes<T>], exact_hint: bool, finite: bool)
    -> (Option<(String, String, String)>, usize, bool)
{
    let (mut lo, mut hi) = (0usize, reference.len());
    let mut consumed_all = false;
    let mut gi = 0;
    macro_rules! bad { ($w:expr, $e:expr, $o:expr) => { return (Some((format!("iterator protocol: {} (script {:?}, step {})", $w, script, gi), $e, $o)), lo, consumed_all) } }
    for op in script {
        if gi >= got.len() { bad!("the run stopped early", format!("{} results", script.len()), format!("{}", got.len())); }
        let g = &got[gi];
        let rem = hi - lo;
        match op {
            ItOp::Next => {
                let want = if lo < hi { lo += 1; Some(reference[lo - 1].clone()) } else { None };
                if *g != ItRes::Item(want.clone()) { bad!("next() differs from the reference sequence", format!("{:?}", want), format!("{:?}", g)); }
            }
            ItOp::Nth(k) => {
                let want = if *k < rem { lo += k + 1; Some(reference[lo - 1].clone()) } else { lo = hi; None };
                if *g != ItRes::Item(want.clone()) { bad!(format!("nth({}) differs from what {} calls of next() yield", k, k + 1), format!("{:?}", want), format!("{:?}", g)); }
            }
            ItOp::NextBack => {
                let want = if lo < hi { hi -= 1; Some(reference[hi].clone()) } else { None };
                if *g != ItRes::Item(want.clone()) { bad!("next_back() differs from the last remaining item", format!("{:?}", want), format!("{:?}", g)); }
            }
            ItOp::NthBack(k) => {
                let want = if *k < rem { hi -= k + 1; Some(reference[hi].clone()) } else { hi = lo; None };
                if *g != ItRes::Item(want.clone()) { bad!(format!("nth_back({})", k), format!("{:?}", want), format!("{:?}", g)); }
            }
            ItOp::Hint => {
                if let ItRes::Hint(l, u) = g {
                    if finite {
                        let ok = if exact_hint { *l == rem && *u == Some(rem) } else { *l <= rem && u.map_or(true, |u| rem <= u) };
                        if !ok { bad!("size_hint() is inconsistent with the number of items still to come", format!("{}", rem), format!("({}, {:?})", l, u)); }
                    } else if u.is_some() { bad!("size_hint() of an unending iterator gives an upper bound", "None".to_string(), format!("{:?}", u)); }
                } else { bad!("result kind", "Hint".to_string(), format!("{:?}", g)); }
            }
            ItOp::Len => { if *g != ItRes::Len(rem) { bad!("len() differs from the number of items still to come", format!("{}", rem), format!("{:?}", g)); } }
            ItOp::Count => { consumed_all = true; if *g != ItRes::Count(rem) { bad!("count()", format!("{}", rem), format!("{:?}", g)); } lo = hi; }
            ItOp::Last => {
                consumed_all = true;
                let want = if lo < hi { Some(reference[hi - 1].clone()) } else { None };
                if *g != ItRes::Item(want.clone()) { bad!("last()", format!("{:?}", want), format!("{:?}", g)); }
                lo = hi;
            }
            ItOp::Rest | ItOp::FoldRest => {
                consumed_all = true;
                let want: Vec<T> = reference[lo..hi].to_vec();
                if *g != ItRes::Seq(want.clone()) { bad!("collect()/fold() of the remaining items", format!("{:?}", want), format!("{:?}", g)); }
                lo = hi;
            }
            ItOp::RevRest => {
                consumed_all = true;
                let mut want: Vec<T> = reference[lo..hi].to_vec(); want.reverse();
                if *g != ItRes::Seq(want.clone()) { bad!("rev().collect() of the remaining items", format!("{:?}", want), format!("{:?}", g)); }
                lo = hi;
            }
            ItOp::SkipRest(k) => {
                consumed_all = true;
                let want: Vec<T> = reference[(lo + k).min(hi)..hi].to_vec();
                if *g != ItRes::Seq(want.clone()) { bad!(format!("skip({}).collect()", k), format!("{:?}", want), format!("{:?}", g)); }
                lo = hi;
            }
            ItOp::StepByRest(k) => {
                consumed_all = true;
                let want: Vec<T> = reference[lo..hi].iter().step_by(*k).cloned().collect();
                if *g != ItRes::Seq(want.clone()) { bad!(format!("step_by({}).collect()", k), format!("{:?}", want), format!("{:?}", g)); }
                lo = hi;
            }
            ItOp::TakeRest(k) => {
                let e = (lo + k).min(hi);
                let want: Vec<T> = reference[lo..e].to_vec();
                if *g != ItRes::Seq(want.clone()) { bad!(format!("take({}).collect()", k), format!("{:?}", want), format!("{:?}", g)); }
                lo = e;
            }
        }
        gi += 1;
    }
    (None, lo, consumed_all)
}
