//! Statically typed nestings (C04): every adaptor method called with method-call syntax on the CONCRETE type of
//! every other adaptor (`from_iter(v).scale_amp(a).scale_amp(b)` is `ScaleAmp<ScaleAmp<FromIterator<..>>>`), compared
//! frame by frame, exhaustion report by exhaustion report, with the same stack whose inner stage is hidden behind
//! a `Box<dyn Signal>` wrapper of the harness (which is how all the model-compared cases are built).  The boxed build
//! can only reach the `Signal` trait methods; the typed build is what a caller's own code resolves to — inherent
//! methods, specialised impls and anything else selected by the static type.  "Any nesting of these adaptors equals
//! the composition of their pointwise functions" is about the latter.
//!
//! No model involved: an oracle between two ways of calling the real code; the boxed way is what the Lean model is
//! compared with in streams `adapt` / `exhaust`.


use super::util::Rng;
fn i16s(rng: &mut Rng) -> i16 {
    // mostly small (no overflow in builds with overflow checks, where dasp's integer offset/add panic), sometimes wide
    match rng.below(8) { 0 => *rng.pick(&[3i16, -3, 1, 20000, -20000, 32767, -32768, 16384, 7]), 1 => rng.range(-32768, 32767) as i16, 2 | 3 => rng.range(-9, 9) as i16, _ => rng.range(-2000, 2000) as i16 }
}
fn gains32(rng: &mut Rng) -> f32 { *rng.pick(&[0.5f32, 2.0, 1.5, -1.0, 0.3, 0.75, 3.0, 1.0, 0.0, -0.5, 1e-3, 100.0]) }
fn f64s(rng: &mut Rng) -> f64 {
    match rng.below(3) { 0 => *rng.pick(&[0.1f64, -0.7, 1.0, 1e-300, 3.0e10, 0.3]), 1 => rng.range(-16, 16) as f64 / 16.0, _ => rng.f64_unit() * 2.0 - 1.0 }
}
fn gains64(rng: &mut Rng) -> f64 { *rng.pick(&[0.5f64, 2.0, 0.1, 0.3, -1.0, 1.0 / 3.0, 1e-30, 1e30, 0.7, 3.0]) }

pub mod stereo_i16 {
    use super::super::util::Rng;
    type F = [i16; 2]; type Fl = f32; type Sg = i16; type FF = [f32; 2]; type FS = [i16; 2];
    const NAME: &str = "[i16; 2]";
    fn tweak(f: F, k: usize) -> F { [f[0].wrapping_add(k as i16), f[1] ^ 1] }
    fn comb(x: F, y: F) -> F { [x[0].wrapping_sub(y[0]), y[1]] }
    fn hash(f: F) -> u64 { (f[0] as u16 as u64) << 16 | f[1] as u16 as u64 }
    fn gen_f(r: &mut Rng) -> F { [super::i16s(r), super::i16s(r)] }
    fn gen_fl(r: &mut Rng) -> Fl { super::gains32(r) }
    fn gen_sg(r: &mut Rng) -> Sg { super::i16s(r) }
    fn gen_ff(r: &mut Rng) -> FF { [super::gains32(r), super::gains32(r)] }
    fn gen_fs(r: &mut Rng) -> FS { [super::i16s(r), super::i16s(r)] }
    fn gen_const() -> F { [1, -1] }
    fn gen_const_eq() -> F { [0, 0] }
    fn sg_feed() -> FS { feed_next() }
    fn fl_feed() -> FF { let f = feed_next(); [(f[0] % 5) as f32 * 0.5, (f[1] % 3) as f32 * 0.25] }
    include!("typed_body.rs");
}

pub mod mono_f64 {
    use super::super::util::Rng;
    type F = f64; type Fl = f64; type Sg = f64; type FF = f64; type FS = f64;
    const NAME: &str = "f64";
    fn tweak(f: F, k: usize) -> F { f + k as f64 }
    fn comb(x: F, y: F) -> F { x - y }
    fn hash(f: F) -> u64 { f.to_bits() }
    fn gen_f(r: &mut Rng) -> F { super::f64s(r) }
    fn gen_fl(r: &mut Rng) -> Fl { super::gains64(r) }
    fn gen_sg(r: &mut Rng) -> Sg { super::f64s(r) }
    fn gen_ff(r: &mut Rng) -> FF { super::gains64(r) }
    fn gen_fs(r: &mut Rng) -> FS { super::f64s(r) }
    fn gen_const() -> F { 0.125 }
    fn gen_const_eq() -> F { 0.0 }
    fn sg_feed() -> FS { feed_next() }
    fn fl_feed() -> FF { feed_next() }
    include!("typed_body.rs");
}
