import Dasp.Driver.Conv
/-! Line-protocol driver: one request per line on stdin, one reply per line on stdout. -/
open Dasp.Driver

def dispatch (line : String) : String :=
  match (line.trimAscii.toString.splitOn " ").filter (· ≠ "") with
  | "conv" :: rest => convLine rest
  | [] => ""
  | _ => "bad-op"

partial def loop (inp out : IO.FS.Stream) : IO Unit := do
  let line ← inp.getLine
  if line.isEmpty then return ()
  out.putStrLn (dispatch line)
  loop inp out

def main : IO Unit := do
  let inp ← IO.getStdin
  let out ← IO.getStdout
  loop inp out
