import Dasp.Machine.Int
/-!
# Semantics of the `new_sample_type!` macro of `dasp_sample/src/types.rs`

`translator/gen_types.py` parses the macro body and the eight instantiations on every run
and emits `Dasp/Gen/Types.lean`: one `TypeSpec` per custom type (constants) and one
`MacroDef` holding the operator bodies as terms of the small statement/expression language
defined here.  The *meaning* of those terms lives in this file:

* every arithmetic node is evaluated at the backing type `$Rep`: its value is the exact
  result wrapped two's-complement into `$Rep` (what a build without overflow checks
  computes), and it carries the side condition "the exact result is inside `$Rep`"
  (`okE`; a build with overflow checks panics otherwise);
* `dbg : Bool` is the build configuration: `cfg!(debug_assertions)`.  **Assumption
  (stated in props/C15.json):** `overflow-checks` follows `debug_assertions` (cargo
  default), so the `okE` side conditions are enforced exactly when `dbg = true`;
* the two `while` loops of `wrap_overflow` run on explicit fuel (`fuel`); `loopDone` says
  that the loop condition is false at exit, i.e. the fuel was enough (termination).

Everything is Bool/Int valued and core Lean only: the driver executes these very
definitions, the theorems of `Props/C15.lean` are about them.
-/
namespace Dasp.Types
open Dasp

/-- one `new_sample_type!(T: Rep, eq:, min:, max:, total:, from: ...)` instantiation -/
structure TypeSpec where
  name : String
  rep : ITy
  eq : Int
  min : Int
  max : Int
  total : Int
  /-- `impl_neg!(T)` present in the module -/
  hasNeg : Bool
  /-- primitive entries of the `from:` list -/
  fromPrims : List ITy
  /-- `{U:URep}` entries of the `from:` list: index of `U` in the generated `all` list, and `URep` -/
  fromCustom : List (Nat × ITy)
  /-- `#[derive(.. PartialEq, Eq, PartialOrd, Ord ..)] pub struct $T($Rep);` (single field) -/
  ordDerived : Bool

def TypeSpec.inRange (t : TypeSpec) (v : Int) : Prop := t.min ≤ v ∧ v ≤ t.max
instance (t : TypeSpec) (v : Int) : Decidable (t.inRange v) := by unfold TypeSpec.inRange; infer_instance

/-- the exact result wrapped modulo TOTAL into [MIN, MAX] (the specification, not the code) -/
def wrapT (t : TypeSpec) (v : Int) : Int := (v - t.min) % t.total + t.min

/-- variables visible in a macro function body -/
structure Env where
  self0 : Int     -- `self.0`
  other0 : Int    -- `other.0` / `other.inner()` / `other` (impl_from!)
  val : Int       -- the `$Rep` parameter of `new` / `from`

/-- `$Rep`-typed expressions -/
inductive TExpr
  | self0 | other0 | val | maxRep | minRep | total | lit (v : Int)
  | add (a b : TExpr) | sub (a b : TExpr) | mul (a b : TExpr) | neg (a : TExpr)
  | asRep (a : TExpr)          -- `a as $Rep`

def inR (t : ITy) (v : Int) : Bool := decide (t.lo ≤ v) && decide (v ≤ t.hi)

/-- value under wrapping semantics -/
def valE (ts : TypeSpec) (env : Env) : TExpr → Int
  | .self0 => env.self0 | .other0 => env.other0 | .val => env.val
  | .maxRep => ts.max | .minRep => ts.min | .total => ts.total | .lit v => v
  | .add a b => ts.rep.wrap (valE ts env a + valE ts env b)
  | .sub a b => ts.rep.wrap (valE ts env a - valE ts env b)
  | .mul a b => ts.rep.wrap (valE ts env a * valE ts env b)
  | .neg a => ts.rep.wrap (- valE ts env a)
  | .asRep a => ts.rep.wrap (valE ts env a)

/-- no arithmetic overflow at `$Rep` (what overflow checks require) -/
def okE (ts : TypeSpec) (env : Env) : TExpr → Bool
  | .add a b => okE ts env a && okE ts env b && inR ts.rep (valE ts env a + valE ts env b)
  | .sub a b => okE ts env a && okE ts env b && inR ts.rep (valE ts env a - valE ts env b)
  | .mul a b => okE ts env a && okE ts env b && inR ts.rep (valE ts env a * valE ts env b)
  | .neg a => okE ts env a && inR ts.rep (- valE ts env a)
  | .asRep a => okE ts env a
  | _ => true

/-- conditions: comparisons combined with short-circuit `||` / `&&` -/
inductive Cond
  | cmp (c : Cmp) (a b : TExpr) | or (c d : Cond) | and (c d : Cond)

def Cond.val (ts : TypeSpec) (env : Env) : Cond → Bool
  | .cmp c a b => decide (c.holds (valE ts env a) (valE ts env b))
  | .or c d => c.val ts env || d.val ts env
  | .and c d => c.val ts env && d.val ts env

def Cond.ok (ts : TypeSpec) (env : Env) : Cond → Bool
  | .cmp _ a b => okE ts env a && okE ts env b
  | .or c d => c.ok ts env && (c.val ts env || d.ok ts env)
  | .and c d => c.ok ts env && (!c.val ts env || d.ok ts env)

/-- bodies without calls (`wrap_overflow_once`, the `Some(..)` payload of `new`) -/
inductive Body0
  | mk (e : TExpr)             -- `$T(e)`
  | self_                      -- `self`
  | ite (c : Cond) (t e : Body0)

def val0 (ts : TypeSpec) (env : Env) : Body0 → Int
  | .mk e => valE ts env e
  | .self_ => env.self0
  | .ite c t e => if c.val ts env then val0 ts env t else val0 ts env e

def ok0 (ts : TypeSpec) (env : Env) : Body0 → Bool
  | .mk e => okE ts env e
  | .self_ => true
  | .ite c t e => c.ok ts env && (if c.val ts env then ok0 ts env t else ok0 ts env e)

/-- `Option<$T>`-valued bodies (`new`) -/
inductive OBody
  | none | some (b : Body0) | ite (c : Cond) (t e : OBody)

def valO (ts : TypeSpec) (env : Env) : OBody → Option Int
  | .none => Option.none
  | .some b => Option.some (val0 ts env b)
  | .ite c t e => if c.val ts env then valO ts env t else valO ts env e

def okO (ts : TypeSpec) (env : Env) : OBody → Bool
  | .none => true
  | .some b => ok0 ts env b
  | .ite c t e => c.ok ts env && (if c.val ts env then okO ts env t else okO ts env e)

/-- `while c { self.0 -= e; }` / `while c { self.0 += e; }` -/
inductive Stmt
  | whileSub (c : Cond) (e : TExpr) | whileAdd (c : Cond) (e : TExpr)

def Stmt.cond : Stmt → Cond
  | .whileSub c _ => c | .whileAdd c _ => c
/-- the new value of `self.0` after one iteration -/
def Stmt.upd : Stmt → TExpr
  | .whileSub _ e => .sub .self0 e | .whileAdd _ e => .add .self0 e

def envS (v : Int) : Env := ⟨v, 0, 0⟩

/-- a `while` loop on `self.0` with explicit fuel -/
def loopVal (ts : TypeSpec) (c : Cond) (upd : TExpr) : Nat → Int → Int
  | 0, v => v
  | n + 1, v => if c.val ts (envS v) then loopVal ts c upd n (valE ts (envS v) upd) else v

/-- no arithmetic overflow while the loop runs -/
def loopOk (ts : TypeSpec) (c : Cond) (upd : TExpr) : Nat → Int → Bool
  | 0, _ => true
  | n + 1, v => c.ok ts (envS v) &&
      (if c.val ts (envS v) then okE ts (envS v) upd && loopOk ts c upd n (valE ts (envS v) upd) else true)

/-- the loop condition is false at exit: the fuel was sufficient -/
def loopDone (ts : TypeSpec) (c : Cond) (upd : TExpr) (n : Nat) (v : Int) : Bool :=
  !(c.val ts (envS (loopVal ts c upd n v)))

/-- fuel given to every loop started at `v` (TOTAL ≥ 1 makes this more than enough) -/
def fuel (ts : TypeSpec) (v : Int) : Nat := v.natAbs + ts.min.natAbs + ts.max.natAbs + 1

/-- a sequence of loops followed by `self` (`wrap_overflow`) -/
def stmtsVal (ts : TypeSpec) : List Stmt → Int → Int
  | [], v => v
  | s :: r, v => stmtsVal ts r (loopVal ts s.cond s.upd (fuel ts v) v)

/-- every loop terminates within its fuel and (when `dbg`) never overflows -/
def stmtsOk (ts : TypeSpec) (dbg : Bool) : List Stmt → Int → Bool
  | [], _ => true
  | s :: r, v =>
    loopDone ts s.cond s.upd (fuel ts v) v && (!dbg || loopOk ts s.cond s.upd (fuel ts v) v) &&
      stmtsOk ts dbg r (loopVal ts s.cond s.upd (fuel ts v) v)

/-- `$T`-valued bodies with calls to the macro's own functions -/
inductive Body
  | mk (e : TExpr)             -- `$T(e)`
  | newExpect (e : TExpr)      -- `$T::new(e).expect("..")`
  | fromRep (e : TExpr)        -- `$T::from(e)`
  | wrapOnce (b : Body)        -- `b.wrap_overflow_once()`
  | wrapFull (b : Body)        -- `b.wrap_overflow()`
  | ifDebug (t e : Body)       -- `if cfg!(debug_assertions) { t } else { e }`

/-- the function bodies of `new_sample_type!`, `impl_neg!` and `impl_from!` -/
structure MacroDef where
  newBody : OBody              -- `fn new(val: $Rep) -> Option<Self>`
  wrapOnce : Body0             -- `fn wrap_overflow_once(self) -> Self`
  wrapFull : List Stmt         -- `fn wrap_overflow(mut self) -> Self`: loops, then `self`
  fromRep : Body               -- `impl From<$Rep> for $T { fn from(val: $Rep) }`
  add : Body
  sub : Body
  mul : Body
  neg : Body                   -- `impl_neg!`
  fromPrim : Body              -- `impl_from!`, arm `$U:ident`
  fromCustom : Body            -- `impl_from!`, arm `{$U:ident : $URep:ty}`

/-- value of a body; `fr` is the value of a nested `$T::from(..)` call -/
def valB (ts : TypeSpec) (md : MacroDef) (fr : Int → Int) (dbg : Bool) (env : Env) : Body → Int
  | .mk e => valE ts env e
  | .newExpect e => (valO ts ⟨0, 0, valE ts env e⟩ md.newBody).getD 0
  | .fromRep e => fr (valE ts env e)
  | .wrapOnce b => val0 ts (envS (valB ts md fr dbg env b)) md.wrapOnce
  | .wrapFull b => stmtsVal ts md.wrapFull (valB ts md fr dbg env b)
  | .ifDebug t e => if dbg then valB ts md fr dbg env t else valB ts md fr dbg env e

/-- the body returns (no `expect` on `None`, loops terminate, and — when `dbg` — no
    arithmetic overflow at `$Rep`) -/
def okB (ts : TypeSpec) (md : MacroDef) (fr : Int → Int) (frOk : Int → Bool) (dbg : Bool) (env : Env) : Body → Bool
  | .mk e => !dbg || okE ts env e
  | .newExpect e => (!dbg || okE ts env e) && (!dbg || okO ts ⟨0, 0, valE ts env e⟩ md.newBody) &&
      (valO ts ⟨0, 0, valE ts env e⟩ md.newBody).isSome
  | .fromRep e => (!dbg || okE ts env e) && frOk (valE ts env e)
  | .wrapOnce b => okB ts md fr frOk dbg env b && (!dbg || ok0 ts (envS (valB ts md fr dbg env b)) md.wrapOnce)
  | .wrapFull b => okB ts md fr frOk dbg env b && stmtsOk ts dbg md.wrapFull (valB ts md fr dbg env b)
  | .ifDebug t e => if dbg then okB ts md fr frOk dbg env t else okB ts md fr frOk dbg env e

/-- `<$T as From<$Rep>>::from(v)`; a `$T::from` call inside its own body is not supported
    (its `ok` is false: a broken obligation) -/
def fromRepVal (ts : TypeSpec) (md : MacroDef) (dbg : Bool) (v : Int) : Int :=
  valB ts md (fun _ => 0) dbg ⟨0, 0, v⟩ md.fromRep
def fromRepOk (ts : TypeSpec) (md : MacroDef) (dbg : Bool) (v : Int) : Bool :=
  okB ts md (fun _ => 0) (fun _ => false) dbg ⟨0, 0, v⟩ md.fromRep

/-- value / success of an operator body -/
def opVal (ts : TypeSpec) (md : MacroDef) (dbg : Bool) (env : Env) (b : Body) : Int :=
  valB ts md (fromRepVal ts md dbg) dbg env b
def opOk (ts : TypeSpec) (md : MacroDef) (dbg : Bool) (env : Env) (b : Body) : Bool :=
  okB ts md (fromRepVal ts md dbg) (fromRepOk ts md dbg) dbg env b

/-- what a caller observes: `none` = panic -/
def opRun (ts : TypeSpec) (md : MacroDef) (dbg : Bool) (env : Env) (b : Body) : Option Int :=
  if opOk ts md dbg env b then some (opVal ts md dbg env b) else none

/-- `T::new(v)` -/
def newRun (ts : TypeSpec) (md : MacroDef) (v : Int) : Option Int := valO ts ⟨0, 0, v⟩ md.newBody

/-- `From<$Rep>` as observed -/
def fromRun (ts : TypeSpec) (md : MacroDef) (dbg : Bool) (v : Int) : Option Int :=
  if fromRepOk ts md dbg v then some (fromRepVal ts md dbg v) else none

/-- derived `Ord`/`PartialEq` on the single field: the comparison of the field values -/
def cmpT (a b : Int) : Ordering := compare a b
def eqT (a b : Int) : Bool := a == b

end Dasp.Types
