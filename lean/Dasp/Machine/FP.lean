namespace Dasp

structure Fmt2 where
  prec : Nat
  emin : Int      -- exponent of the least significant bit of subnormals (f32: -149)
  emax : Int      -- max unbiased exponent (f32: 127)

def f32 : Fmt2 := ⟨24, -149, 127⟩
def f64 : Fmt2 := ⟨53, -1074, 1023⟩

inductive FP | nan | inf (neg : Bool) | fin (neg : Bool) (q : Rat)   -- q ≥ 0
deriving Repr

def pow2 (e : Int) : Rat := if e ≥ 0 then (2 ^ e.toNat : Nat) else 1 / ((2 ^ (-e).toNat : Nat) : Rat)

/-- floor(log2 q) for q > 0 -/
def ilog2 (q : Rat) : Int :=
  let n := q.num.toNat; let d := q.den
  let l : Int := (Nat.log2 n : Int) - (Nat.log2 d : Int)
  if pow2 l ≤ q then (if pow2 (l+1) ≤ q then l + 1 else l) else l - 1

def rne (x : Rat) : Int :=
  let f := x.floor
  let r := x - f
  if r < 1/2 then f else if 1/2 < r then f + 1 else if f % 2 = 0 then f else f + 1

/-- round a non-negative rational to the format; returns none on overflow -/
def roundPos (F : Fmt2) (q : Rat) : Option Rat :=
  if q = 0 then some 0 else
  let e := max F.emin (ilog2 q - (F.prec : Int) + 1)
  let m := rne (q / pow2 e)
  let r := (m : Rat) * pow2 e
  if r ≥ pow2 (F.emax + 1) then none else some r

def round (F : Fmt2) (neg : Bool) (q : Rat) : FP :=
  -- q may be negative; neg is the sign to use for an exact zero result
  if q < 0 then (match roundPos F (-q) with | some r => .fin true r | none => .inf true)
  else (match roundPos F q with | some r => .fin (if q = 0 then neg else false) r | none => .inf false)

def FP.toRat? : FP → Option Rat
  | .fin n q => some (if n then -q else q) | _ => none

def add (F : Fmt2) : FP → FP → FP
  | .nan, _ | _, .nan => .nan
  | .inf a, .inf b => if a = b then .inf a else .nan
  | .inf a, _ => .inf a | _, .inf b => .inf b
  | .fin na a, .fin nb b =>
    let x := (if na then -a else a) + (if nb then -b else b)
    round F (na && nb) x     -- exact zero sum: -0 only if both -0 (RNE mode); x = -x cancel gives +0
def mul (F : Fmt2) : FP → FP → FP
  | .nan, _ | _, .nan => .nan
  | .inf a, .inf b => .inf (a != b)
  | .inf a, .fin nb b => if b = 0 then .nan else .inf (a != nb)
  | .fin na a, .inf b => if a = 0 then .nan else .inf (na != b)
  | .fin na a, .fin nb b => let r := a * b; if na != nb then round F true (-r) else round F false r
def div (F : Fmt2) : FP → FP → FP
  | .nan, _ | _, .nan => .nan
  | .inf _, .inf _ => .nan
  | .inf a, .fin nb _ => .inf (a != nb)
  | .fin na _, .inf b => .fin (na != b) 0
  | .fin na a, .fin nb b => if b = 0 then (if a = 0 then .nan else .inf (na != nb)) else
      let r := a / b; if na != nb then round F true (-r) else round F false r

-- bits
def toBits64 : FP → UInt64
  | .nan => 0x7ff8000000000000
  | .inf n => (if n then 0xfff0000000000000 else 0x7ff0000000000000)
  | .fin n q =>
    let s : UInt64 := if n then 0x8000000000000000 else 0
    if q = 0 then s else
    let e := ilog2 q
    if e < -1022 then -- subnormal: q = m * 2^-1074
      s ||| ((q / pow2 (-1074)).floor.toNat.toUInt64)
    else
      let m := (q / pow2 (e - 52)).floor.toNat - 2^52
      s ||| (((e + 1023).toNat.toUInt64) <<< 52) ||| m.toUInt64
def ofBits64 (b : UInt64) : FP :=
  let n := (b >>> 63) == 1
  let e := ((b >>> 52) &&& 0x7ff).toNat
  let m := (b &&& 0xfffffffffffff).toNat
  if e == 2047 then (if m == 0 then .inf n else .nan)
  else if e == 0 then .fin n ((m : Rat) * pow2 (-1074))
  else .fin n (((m + 2^52 : Nat) : Rat) * pow2 ((e : Int) - 1075))

end Dasp
