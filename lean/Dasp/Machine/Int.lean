/-!
# Machine integers and the expression language of `dasp_sample/src/conv.rs`

Values are unbounded `Int`; a machine type is a width + signedness with `lo/hi/modulus`
given as *literals* so that `omega` sees numerals.  `val` is the value under wrapping
semantics (what a build without overflow checks computes), `ok` is "no arithmetic-overflow
panic and no shift ≥ width" (what a build with overflow checks additionally requires),
`valid` is "every `new_unchecked(x)` received an in-range `x`".

No imports: this file is part of the natively compiled driver.
-/
namespace Dasp

/-- Rust primitive integer types used as sample formats or as backing types. -/
inductive ITy | i8 | i16 | i32 | i64 | u8 | u16 | u32 | u64
deriving DecidableEq, Repr

@[simp] def ITy.bits : ITy → Nat
  | .i8 | .u8 => 8 | .i16 | .u16 => 16 | .i32 | .u32 => 32 | .i64 | .u64 => 64
@[simp] def ITy.lo : ITy → Int
  | .i8 => -128 | .i16 => -32768 | .i32 => -2147483648 | .i64 => -9223372036854775808
  | _ => 0
@[simp] def ITy.hi : ITy → Int
  | .i8 => 127 | .i16 => 32767 | .i32 => 2147483647 | .i64 => 9223372036854775807
  | .u8 => 255 | .u16 => 65535 | .u32 => 4294967295 | .u64 => 18446744073709551615
@[simp] def ITy.modulus : ITy → Int
  | .i8 | .u8 => 256 | .i16 | .u16 => 65536 | .i32 | .u32 => 4294967296 | .i64 | .u64 => 18446744073709551616
/-- the weight of the top (sign) bit: half the modulus -/
@[simp] def ITy.half : ITy → Int
  | .i8 | .u8 => 128 | .i16 | .u16 => 32768 | .i32 | .u32 => 2147483648 | .i64 | .u64 => 9223372036854775808
def ITy.inRange (t : ITy) (v : Int) : Prop := t.lo ≤ v ∧ v ≤ t.hi
instance (t : ITy) (v : Int) : Decidable (t.inRange v) := by unfold ITy.inRange; infer_instance
/-- two's-complement wrap-around into the range of `t` -/
def ITy.wrap (t : ITy) (v : Int) : Int := (v - t.lo) % t.modulus + t.lo

/-- the twelve integer sample formats -/
inductive Fmt | i8 | i16 | i24 | i32 | i48 | i64 | u8 | u16 | u24 | u32 | u48 | u64
deriving DecidableEq, Repr

@[simp] def Fmt.lo : Fmt → Int
  | .i8 => -128 | .i16 => -32768 | .i24 => -8388608 | .i32 => -2147483648 | .i48 => -140737488355328 | .i64 => -9223372036854775808
  | _ => 0
@[simp] def Fmt.hi : Fmt → Int
  | .i8 => 127 | .i16 => 32767 | .i24 => 8388607 | .i32 => 2147483647 | .i48 => 140737488355327 | .i64 => 9223372036854775807
  | .u8 => 255 | .u16 => 65535 | .u24 => 16777215 | .u32 => 4294967295 | .u48 => 281474976710655 | .u64 => 18446744073709551615
/-- half-range offset = the equilibrium value of the format -/
@[simp] def Fmt.off : Fmt → Int
  | .u8 => 128 | .u16 => 32768 | .u24 => 8388608 | .u32 => 2147483648 | .u48 => 140737488355328 | .u64 => 9223372036854775808
  | _ => 0
@[simp] def Fmt.bits : Fmt → Nat
  | .i8 | .u8 => 8 | .i16 | .u16 => 16 | .i24 | .u24 => 24 | .i32 | .u32 => 32 | .i48 | .u48 => 48 | .i64 | .u64 => 64
def Fmt.inRange (t : Fmt) (v : Int) : Prop := t.lo ≤ v ∧ v ≤ t.hi
instance (t : Fmt) (v : Int) : Decidable (t.inRange v) := by unfold Fmt.inRange; infer_instance

def Fmt.all : List Fmt := [.i8, .i16, .i24, .i32, .i48, .i64, .u8, .u16, .u24, .u32, .u48, .u64]

def Fmt.ofString? : String → Option Fmt
  | "i8" => some .i8 | "i16" => some .i16 | "i24" => some .i24 | "i32" => some .i32
  | "i48" => some .i48 | "i64" => some .i64 | "u8" => some .u8 | "u16" => some .u16
  | "u24" => some .u24 | "u32" => some .u32 | "u48" => some .u48 | "u64" => some .u64
  | _ => none

/-- comparison operators of the expression language -/
inductive Cmp | lt | le | gt | ge | eq | ne
deriving DecidableEq, Repr

def Cmp.holds : Cmp → Int → Int → Prop
  | .lt, a, b => a < b | .le, a, b => a ≤ b
  | .gt, a, b => a > b | .ge, a, b => a ≥ b
  | .eq, a, b => a = b | .ne, a, b => a ≠ b
instance (c : Cmp) (a b : Int) : Decidable (c.holds a b) := by
  cases c <;> simp only [Cmp.holds] <;> infer_instance

/-- The integer expression subset of Rust that the conversion functions are written in.
    Every arithmetic node carries the machine type it is evaluated at (the translator does
    the local type inference). -/
inductive Expr
  | var
  | lit (v : Int)
  | cast (t : ITy) (e : Expr)                 -- `e as t`
  | add (t : ITy) (a b : Expr) | sub (t : ITy) (a b : Expr) | mul (t : ITy) (a b : Expr)
  | neg (t : ITy) (a : Expr)
  | wadd (t : ITy) (a b : Expr) | wsub (t : ITy) (a b : Expr) | wmul (t : ITy) (a b : Expr)  -- wrapping_*
  | shl (t : ITy) (a : Expr) (k : Nat) | shr (t : ITy) (a : Expr) (k : Nat)
  | xorTop (t : ITy) (a : Expr)               -- `a ^ (1 << (bits-1))` (or `^ MIN` for signed `t`): the sign-bit flip
  | andLow (t : ITy) (a : Expr) (k : Nat)     -- `a & (2^k - 1)` for an unsigned `a`
  | ite (c : Cmp) (a b : Expr) (t e : Expr)   -- `if a <c> b { t } else { e }`
  | newUnchecked (f : Fmt) (e : Expr)         -- `I24::new_unchecked(e)`: value unchanged, range obligation
  | call (f : Expr) (arg : Expr)              -- call of a sibling conversion function

/-- value under wrapping semantics -/
def val (s : Int) : Expr → Int
  | .var => s
  | .lit v => v
  | .cast t e => t.wrap (val s e)
  | .add t a b => t.wrap (val s a + val s b)
  | .sub t a b => t.wrap (val s a - val s b)
  | .mul t a b => t.wrap (val s a * val s b)
  | .neg t a => t.wrap (- val s a)
  | .wadd t a b => t.wrap (val s a + val s b)
  | .wsub t a b => t.wrap (val s a - val s b)
  | .wmul t a b => t.wrap (val s a * val s b)
  | .shl t a k => t.wrap (val s a * 2 ^ k)
  | .shr _ a k => val s a / 2 ^ k
  | .xorTop t a => t.wrap (val s a + t.half)      -- flipping the top bit = adding 2^(bits-1) modulo 2^bits
  | .andLow _ a k => val s a % 2 ^ k              -- (the translator emits it for unsigned operands only)
  | .ite c a b t e => if c.holds (val s a) (val s b) then val s t else val s e
  | .newUnchecked _ e => val s e
  | .call f a => val (val s a) f

/-- no arithmetic-overflow panic, no over-long shift (builds with overflow checks) -/
def ok (s : Int) : Expr → Prop
  | .var => True
  | .lit _ => True
  | .cast _ e => ok s e
  | .add t a b => ok s a ∧ ok s b ∧ t.inRange (val s a + val s b)
  | .sub t a b => ok s a ∧ ok s b ∧ t.inRange (val s a - val s b)
  | .mul t a b => ok s a ∧ ok s b ∧ t.inRange (val s a * val s b)
  | .neg t a => ok s a ∧ t.inRange (- val s a)
  | .wadd _ a b => ok s a ∧ ok s b
  | .wsub _ a b => ok s a ∧ ok s b
  | .wmul _ a b => ok s a ∧ ok s b
  | .shl t a k => ok s a ∧ k < t.bits
  | .shr t a k => ok s a ∧ k < t.bits
  | .xorTop _ a => ok s a
  | .andLow t a k => ok s a ∧ k ≤ t.bits ∧ 0 ≤ val s a
  | .ite c a b t e => ok s a ∧ ok s b ∧ (c.holds (val s a) (val s b) → ok s t) ∧ (¬ c.holds (val s a) (val s b) → ok s e)
  | .newUnchecked _ e => ok s e
  | .call f a => ok s a ∧ ok (val s a) f

/-- every `new_unchecked` receives an in-range value -/
def valid (s : Int) : Expr → Prop
  | .var => True
  | .lit _ => True
  | .cast _ e => valid s e
  | .add _ a b | .sub _ a b | .mul _ a b | .wadd _ a b | .wsub _ a b | .wmul _ a b => valid s a ∧ valid s b
  | .neg _ a => valid s a
  | .shl _ a _ | .shr _ a _ => valid s a
  | .xorTop _ a | .andLow _ a _ => valid s a
  | .ite c a b t e => valid s a ∧ valid s b ∧ (c.holds (val s a) (val s b) → valid s t) ∧ (¬ c.holds (val s a) (val s b) → valid s e)
  | .newUnchecked f e => valid s e ∧ f.inRange (val s e)
  | .call f a => valid s a ∧ valid (val s a) f

/-- executable twin of `ok`, used by the driver (see `okb_iff`) -/
def okb (s : Int) : Expr → Bool
  | .var => true
  | .lit _ => true
  | .cast _ e => okb s e
  | .add t a b => okb s a && okb s b && decide (t.inRange (val s a + val s b))
  | .sub t a b => okb s a && okb s b && decide (t.inRange (val s a - val s b))
  | .mul t a b => okb s a && okb s b && decide (t.inRange (val s a * val s b))
  | .neg t a => okb s a && decide (t.inRange (- val s a))
  | .wadd _ a b => okb s a && okb s b
  | .wsub _ a b => okb s a && okb s b
  | .wmul _ a b => okb s a && okb s b
  | .shl t a k => okb s a && decide (k < t.bits)
  | .shr t a k => okb s a && decide (k < t.bits)
  | .xorTop _ a => okb s a
  | .andLow t a k => okb s a && decide (k ≤ t.bits) && decide (0 ≤ val s a)
  | .ite c a b t e => okb s a && okb s b && (if c.holds (val s a) (val s b) then okb s t else okb s e)
  | .newUnchecked _ e => okb s e
  | .call f a => okb s a && okb (val s a) f

theorem okb_iff (s : Int) (e : Expr) : okb s e = true ↔ ok s e := by
  induction e generalizing s with
  | ite c a b t e iha ihb iht ihe =>
    simp only [okb, ok, Bool.and_eq_true, iha, ihb]
    by_cases h : c.holds (val s a) (val s b) <;> simp [h, iht, ihe, and_assoc]
  | shl t a k ih => simp only [okb, ok, Bool.and_eq_true, ih, decide_eq_true_eq]
  | shr t a k ih => simp only [okb, ok, Bool.and_eq_true, ih, decide_eq_true_eq]
  | andLow t a k ih => simp only [okb, ok, Bool.and_eq_true, ih, decide_eq_true_eq, and_assoc]
  | _ => simp_all [okb, ok, and_assoc]

/-- executable twin of `valid` -/
def validb (s : Int) : Expr → Bool
  | .var => true
  | .lit _ => true
  | .cast _ e => validb s e
  | .add _ a b | .sub _ a b | .mul _ a b | .wadd _ a b | .wsub _ a b | .wmul _ a b => validb s a && validb s b
  | .neg _ a => validb s a
  | .shl _ a _ | .shr _ a _ => validb s a
  | .xorTop _ a | .andLow _ a _ => validb s a
  | .ite c a b t e => validb s a && validb s b && (if c.holds (val s a) (val s b) then validb s t else validb s e)
  | .newUnchecked f e => validb s e && decide (f.inRange (val s e))
  | .call f a => validb s a && validb (val s a) f

/-- Specification: signed amplitude times `2^(target bits − source bits)`, floor when narrowing. -/
def specConv (s d : Fmt) (v : Int) : Int :=
  if s.bits ≤ d.bits then (v - s.off) * 2 ^ (d.bits - s.bits) + d.off
  else (v - s.off) / 2 ^ (s.bits - d.bits) + d.off

end Dasp
