namespace Dasp

inductive ITy | i8 | i16 | i32 | i64 | u8 | u16 | u32 | u64
deriving DecidableEq, Repr

@[simp] def ITy.bits : ITy → Nat
  | .i8 | .u8 => 8 | .i16 | .u16 => 16 | .i32 | .u32 => 32 | .i64 | .u64 => 64
@[simp] def ITy.lo : ITy → Int
  | .i8 => -128 | .i16 => -32768 | .i32 => -2147483648 | .i64 => -9223372036854775808
  | _ => 0
@[simp] def ITy.hi : ITy → Int
  | .i8 => 127 | .i16 => 32767 | .i32 => 2147483647 | .i64 => 9223372036854775807
  | .u8 => 255 | .u16 => 65535 | .u32 => 4294967295 | .u64 => 18446744073709551615
@[simp] def ITy.modulus : ITy → Int
  | .i8 | .u8 => 256 | .i16 | .u16 => 65536 | .i32 | .u32 => 4294967296 | .i64 | .u64 => 18446744073709551616
def ITy.inRange (t : ITy) (v : Int) : Prop := t.lo ≤ v ∧ v ≤ t.hi
def ITy.wrap (t : ITy) (v : Int) : Int := (v - t.lo) % t.modulus + t.lo

/-- the twelve integer sample formats -/
inductive Fmt | i8 | i16 | i24 | i32 | i48 | i64 | u8 | u16 | u24 | u32 | u48 | u64
deriving DecidableEq, Repr

@[simp] def Fmt.lo : Fmt → Int
  | .i8 => -128 | .i16 => -32768 | .i24 => -8388608 | .i32 => -2147483648 | .i48 => -140737488355328 | .i64 => -9223372036854775808
  | _ => 0
@[simp] def Fmt.hi : Fmt → Int
  | .i8 => 127 | .i16 => 32767 | .i24 => 8388607 | .i32 => 2147483647 | .i48 => 140737488355327 | .i64 => 9223372036854775807
  | .u8 => 255 | .u16 => 65535 | .u24 => 16777215 | .u32 => 4294967295 | .u48 => 281474976710655 | .u64 => 18446744073709551615
@[simp] def Fmt.off : Fmt → Int
  | .u8 => 128 | .u16 => 32768 | .u24 => 8388608 | .u32 => 2147483648 | .u48 => 140737488355328 | .u64 => 9223372036854775808
  | _ => 0
@[simp] def Fmt.bits : Fmt → Nat
  | .i8 | .u8 => 8 | .i16 | .u16 => 16 | .i24 | .u24 => 24 | .i32 | .u32 => 32 | .i48 | .u48 => 48 | .i64 | .u64 => 64
def Fmt.inRange (t : Fmt) (v : Int) : Prop := t.lo ≤ v ∧ v ≤ t.hi

inductive Expr
  | var
  | lit (v : Int)
  | cast (t : ITy) (e : Expr)
  | add (t : ITy) (a b : Expr) | sub (t : ITy) (a b : Expr)
  | shl (t : ITy) (a : Expr) (k : Nat) | shr (t : ITy) (a : Expr) (k : Nat)
  | ifLt (a b : Expr) (t e : Expr)
  | newUnchecked (f : Fmt) (e : Expr)     -- I24::new_unchecked(e): value unchanged, range obligation
  | call (f : Expr) (arg : Expr)

def val (s : Int) : Expr → Int
  | .var => s
  | .lit v => v
  | .cast t e => t.wrap (val s e)
  | .add t a b => t.wrap (val s a + val s b)
  | .sub t a b => t.wrap (val s a - val s b)
  | .shl t a k => t.wrap (val s a * 2 ^ k)
  | .shr _ a k => val s a / 2 ^ k
  | .ifLt a b t e => if val s a < val s b then val s t else val s e
  | .newUnchecked _ e => val s e
  | .call f a => val (val s a) f

def ok (s : Int) : Expr → Prop
  | .var => True
  | .lit _ => True
  | .cast _ e => ok s e
  | .add t a b => ok s a ∧ ok s b ∧ t.inRange (val s a + val s b)
  | .sub t a b => ok s a ∧ ok s b ∧ t.inRange (val s a - val s b)
  | .shl t a k => ok s a ∧ k < t.bits
  | .shr t a k => ok s a ∧ k < t.bits
  | .ifLt a b t e => ok s a ∧ ok s b ∧ (val s a < val s b → ok s t) ∧ (¬ val s a < val s b → ok s e)
  | .newUnchecked f e => ok s e ∧ f.inRange (val s e)
  | .call f a => ok s a ∧ ok (val s a) f

def specConv (s d : Fmt) (v : Int) : Int :=
  if s.bits ≤ d.bits then (v - s.off) * 2 ^ (d.bits - s.bits) + d.off
  else (v - s.off) / 2 ^ (s.bits - d.bits) + d.off

end Dasp
