import Dasp.Machine.Int
import Dasp.Machine.FP
/-!
# Float <-> integer conversion shapes of `conv.rs`

The float-involving bodies of `conv.rs` come in five shapes; the translator recognises
exactly these and reports anything else as a broken obligation.  Their meaning is given
here over the soft-float of `Machine/FP.lean` (exact `Rat` arithmetic + one rounding per
IEEE operation).  Core Lean only.
-/
namespace Dasp

inductive FFmt | f32 | f64
deriving DecidableEq, Repr

@[simp] def FFmt.fmt : FFmt → Fmt2
  | .f32 => Dasp.f32 | .f64 => Dasp.f64
def FFmt.width : FFmt → Nat
  | .f32 => 32 | .f64 => 64

/-- `n as fN`: round-to-nearest-even of an integer -/
def ofInt (F : Fmt2) (n : Int) : FP := round F false (n : Rat)

/-- truncation toward zero of a rational -/
def truncQ (q : Rat) : Int := if q ≥ 0 then q.floor else -((-q).floor)

/-- `x as t` for float `x`: truncates toward zero, saturates, NaN ↦ 0 (Rust ≥ 1.45) -/
def toInt (t : ITy) : FP → Int
  | .nan => 0
  | .inf n => if n then t.lo else t.hi
  | .fin n q =>
    let v := truncQ (if n then -q else q)
    if v < t.lo then t.lo else if v > t.hi then t.hi else v

/-- f64 → f32 is one rounding; f32 → f64 is exact -/
def cvt (dst : FFmt) : FP → FP
  | .nan => .nan
  | .inf n => .inf n
  | .fin n q => if q = 0 then .fin n 0 else round dst.fmt n (if n then -q else q)

inductive FConv
  | i2f (pre : Expr) (t : ITy) (p : FFmt) (k : Nat)      -- `(pre(s) as fP) / 2^k.0`, `pre(s)` of machine type `t`
  | i2fm (pre : Expr) (t : ITy) (p : FFmt) (k : Nat)     -- `(pre(s) as fP) * 2^-k` (multiplication by the exact reciprocal)
  | viaInt (pre : Expr) (f : FConv)                      -- `iX::to_fP(pre(s))`
  | f2i (p : FFmt) (k : Nat) (t : ITy) (post : Expr)     -- `post((s * 2^k.0) as t)`
  | thenInt (f : FConv) (g : Expr)                       -- `g(f(s))`
  | f2f (a b : FFmt)                                     -- `s as fB`
  | bad

/-- value of an integer→float conversion on integer input `s` -/
def FConv.i2fVal (s : Int) : FConv → FP
  | .i2f pre _ p k => div p.fmt (ofInt p.fmt (val s pre)) (.fin false ((2 : Rat) ^ k))
  | .i2fm pre _ p k => mul p.fmt (ofInt p.fmt (val s pre)) (.fin false (((2 : Rat) ^ k)⁻¹))
  | .viaInt pre f => f.i2fVal (val s pre)
  | _ => .nan

/-- value of a float→integer conversion on float input `x` -/
def FConv.f2iVal (x : FP) : FConv → Int
  | .f2i p k t post => val (toInt t (mul p.fmt x (.fin false ((2 : Rat) ^ k)))) post
  | .thenInt f g => val (f.f2iVal x) g
  | _ => 0

/-- value of a float→float conversion -/
def FConv.f2fVal (x : FP) : FConv → FP
  | .f2f _ b => cvt b x
  | _ => .nan

/-! ## bit patterns (used by the driver only) -/

def ofBits (F : Fmt2) (w : Nat) (b : Nat) : FP :=
  let mant := F.prec - 1
  let ew := w - 1 - mant
  let n := decide (b / 2 ^ (w - 1) % 2 = 1)
  let e := b / 2 ^ mant % 2 ^ ew
  let m := b % 2 ^ mant
  if e = 2 ^ ew - 1 then (if m = 0 then .inf n else .nan)
  else if e = 0 then .fin n ((m : Rat) * pow2 F.emin)
  else .fin n (((m + 2 ^ mant : Nat) : Rat) * pow2 ((e : Int) - F.emax - mant))

def toBits (F : Fmt2) (w : Nat) : FP → Nat
  | .nan => (2 ^ (w - F.prec) - 1) * 2 ^ (F.prec - 1) + 2 ^ (F.prec - 2)
  | .inf n => (if n then 2 ^ (w - 1) else 0) + (2 ^ (w - F.prec) - 1) * 2 ^ (F.prec - 1)
  | .fin n q =>
    let s : Nat := if n then 2 ^ (w - 1) else 0
    if q = 0 then s else
    let mant := F.prec - 1
    let e := ilog2 q
    if e < F.emin + mant then s + (q / pow2 F.emin).floor.toNat
    else s + (e + F.emax).toNat * 2 ^ mant + ((q / pow2 (e - mant)).floor.toNat - 2 ^ mant)

def FFmt.ofBits (p : FFmt) (b : Nat) : FP := Dasp.ofBits p.fmt p.width b
def FFmt.toBits (p : FFmt) (x : FP) : Nat := Dasp.toBits p.fmt p.width x

end Dasp
