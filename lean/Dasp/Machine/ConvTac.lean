import Dasp.Machine.Int
/-! The uniform tactic closing every generated int→int conversion obligation. -/
namespace Dasp

macro "conv_tac" : tactic => `(tactic|
  (simp only [Fmt.inRange, Fmt.lo, Fmt.hi] at *
   simp [val, ok, valid, specConv, ITy.inRange, Fmt.inRange, ITy.wrap, Cmp.holds]
   (try (repeat' constructor)) <;> (intros; (try split) <;> omega)))

end Dasp
