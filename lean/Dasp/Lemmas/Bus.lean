import Dasp.Model.Bus
/-! Helper lemmas for C13 (bus): association-list facts, the backlog invariant `Inv`, and the
    per-operation refinement lemmas `send_spec`, `nextFrame_spec`, `dropOutput_spec`
    (adapted from the round-0 prototype `Proto/Bus.lean`, now over an arbitrary source
    `src : Nat → α`). Core Lean only. -/
namespace Dasp.Bus

variable {α : Type}

/-- The backlog invariant. `buf_eq`: the backlog is the run of consecutive source frames ending at
    `pos`; `fr_le`: no output has consumed more than the backlog holds; `nodup`: keys are distinct;
    `minimal`: the backlog is empty or some live output still needs its front frame. -/
structure Inv (src : Nat → α) (s : St α) : Prop where
  len_le : s.buf.length ≤ s.pos
  buf_eq : s.buf = (List.range' (s.pos - s.buf.length) s.buf.length).map src
  fr_le : ∀ p ∈ s.reads, p.2 ≤ s.buf.length
  nodup : (s.reads.map (·.1)).Nodup
  minimal : s.buf = [] ∨ ∃ p ∈ s.reads, p.2 = 0

/-- every registered key is below `next_key` (so `send` hands out a key that is not in use) -/
def Fresh (s : St α) : Prop := ∀ p ∈ s.reads, p.1 < s.nextKey

theorem lookup_mem {k v : Nat} {l : List (Nat × Nat)} (h : lookup k l = some v) : (k, v) ∈ l := by
  induction l with
  | nil => simp [lookup] at h
  | cons p r ih =>
    obtain ⟨k', v'⟩ := p
    simp only [lookup] at h
    split at h
    · rename_i e; simp at h; subst e; subst h; simp
    · exact List.mem_cons_of_mem _ (ih h)

theorem lookup_none_not_mem {k : Nat} {l : List (Nat × Nat)} (h : lookup k l = none) : k ∉ l.map (·.1) := by
  induction l with
  | nil => simp
  | cons p r ih =>
    obtain ⟨a, b⟩ := p
    simp only [lookup] at h
    split at h
    · simp at h
    · rename_i hne
      simp only [List.map_cons, List.mem_cons, not_or]
      exact ⟨fun e => hne e.symm, ih h⟩

theorem lookup_none_of_not_mem {k : Nat} {l : List (Nat × Nat)} (h : k ∉ l.map (·.1)) : lookup k l = none := by
  induction l with
  | nil => rfl
  | cons p r ih =>
    obtain ⟨a, b⟩ := p
    simp only [List.map_cons, List.mem_cons, not_or] at h
    simp only [lookup]
    rw [if_neg (fun e => h.1 e.symm)]
    exact ih h.2

theorem others_of_lookup_none {k : Nat} {l : List (Nat × Nat)} (h : lookup k l = none) : others k l = l := by
  induction l with
  | nil => rfl
  | cons p r ih =>
    obtain ⟨a, b⟩ := p
    simp only [lookup] at h
    split at h
    · simp at h
    · rename_i hne
      have hb : (a != k) = true := by simp [hne]
      simp only [others, List.filter, hb]
      congr 1
      exact ih h

theorem lookup_others_ne {k k' : Nat} (l : List (Nat × Nat)) (h : k' ≠ k) : lookup k' (others k l) = lookup k' l := by
  induction l with
  | nil => rfl
  | cons p r ih =>
    obtain ⟨a, b⟩ := p
    by_cases ha : a = k
    · subst ha
      have : others a ((a, b) :: r) = others a r := by simp [others, List.filter]
      rw [this, ih]; simp [lookup, Ne.symm h]
    · have hb : (a != k) = true := by simp [ha]
      have : others k ((a, b) :: r) = (a, b) :: others k r := by simp [others, List.filter, hb]
      rw [this]; simp only [lookup]; rw [ih]

theorem lookup_append_single {k k' v : Nat} (l : List (Nat × Nat)) :
    lookup k' (l ++ [(k, v)]) = match lookup k' l with | some x => some x | none => if k = k' then some v else none := by
  induction l with
  | nil => simp [lookup]
  | cons p r ih =>
    obtain ⟨a, b⟩ := p
    simp only [List.cons_append, lookup]
    split
    · rfl
    · exact ih

theorem lookup_map_sub {k' d : Nat} (l : List (Nat × Nat)) :
    lookup k' (l.map (fun p => (p.1, p.2 - d))) = (lookup k' l).map (· - d) := by
  induction l with
  | nil => rfl
  | cons p r ih =>
    obtain ⟨a, b⟩ := p
    simp only [List.map, lookup]
    split
    · rfl
    · exact ih

theorem lookup_others_self (k : Nat) (l : List (Nat × Nat)) : lookup k (others k l) = none := by
  induction l with
  | nil => rfl
  | cons p r ih =>
    obtain ⟨a, b⟩ := p
    by_cases ha : a = k
    · subst ha; have : others a ((a, b) :: r) = others a r := by simp [others, List.filter]
      rw [this]; exact ih
    · have hb : (a != k) = true := by simp [ha]
      have : others k ((a, b) :: r) = (a, b) :: others k r := by simp [others, List.filter, hb]
      rw [this]; simp [lookup, ha, ih]

theorem mem_others {k : Nat} {l : List (Nat × Nat)} {p : Nat × Nat} : p ∈ others k l ↔ p ∈ l ∧ p.1 ≠ k := by
  simp [others, List.mem_filter]

theorem keys_others_sub {k : Nat} {l : List (Nat × Nat)} : ∀ x ∈ (others k l).map (·.1), x ∈ l.map (·.1) ∧ x ≠ k := by
  intro x hx
  obtain ⟨p, hp, rfl⟩ := List.mem_map.mp hx
  obtain ⟨h1, h2⟩ := mem_others.mp hp
  exact ⟨List.mem_map.mpr ⟨p, h1, rfl⟩, h2⟩

theorem nodup_others {k : Nat} {l : List (Nat × Nat)} (h : (l.map (·.1)).Nodup) : ((others k l).map (·.1)).Nodup := by
  unfold others
  induction l with
  | nil => simp
  | cons p r ih =>
    simp only [List.map_cons, List.nodup_cons] at h
    by_cases hb : (p.1 != k) = true
    · simp only [List.filter, hb, List.map_cons, List.nodup_cons]
      refine ⟨?_, ih h.2⟩
      intro hm
      obtain ⟨q, hq, e⟩ := List.mem_map.mp hm
      exact h.1 (List.mem_map.mpr ⟨q, (List.mem_filter.mp hq).1, e⟩)
    · simp only [List.filter, hb]; exact ih h.2

theorem lookup_of_mem_nodup {k v : Nat} {l : List (Nat × Nat)} (hn : (l.map (·.1)).Nodup) (hm : (k, v) ∈ l) : lookup k l = some v := by
  induction l with
  | nil => simp at hm
  | cons p r ih =>
    obtain ⟨a, b⟩ := p
    simp only [List.map_cons, List.nodup_cons] at hn
    rcases List.mem_cons.mp hm with e | hm'
    · cases e; simp [lookup]
    · have hne : a ≠ k := by
        intro e; subst e
        exact hn.1 (List.mem_map.mpr ⟨(a, v), hm', rfl⟩)
      simp [lookup, hne, ih hn.2 hm']

theorem keys_map_sub (d : Nat) (l : List (Nat × Nat)) :
    (l.map (fun p => (p.1, p.2 - d))).map (·.1) = l.map (·.1) := by
  rw [List.map_map]; rfl

/-! ### consecutive runs of source frames -/

theorem run_getD (src : Nat → α) (b n i : Nat) (d : α) (h : i < n) :
    ((List.range' b n).map src).getD i d = src (b + i) := by
  simp [List.getD, List.getElem?_range' h]

theorem run_tail (src : Nat → α) (b n : Nat) :
    ((List.range' b n).map src).tail = (List.range' (b + 1) (n - 1)).map src := by
  cases n with
  | zero => simp
  | succ n => simp [List.range'_succ]

theorem run_snoc (src : Nat → α) (lo n : Nat) :
    (List.range' lo n).map src ++ [src (lo + n)] = (List.range' lo (n + 1)).map src := by
  have : List.range' lo (n + 1) = List.range' lo n ++ [lo + n] := by
    simpa using (List.range'_concat (s := lo) (n := n) (step := 1))
  rw [this, List.map_append]; rfl

theorem run_drop (src : Nat → α) (b n k : Nat) :
    ((List.range' b n).map src).drop k = (List.range' (b + k) (n - k)).map src := by
  induction k generalizing b n with
  | zero => simp
  | succ k ih =>
    cases n with
    | zero => simp
    | succ n =>
      simp only [List.range'_succ, List.map_cons, List.drop_succ_cons]
      rw [ih]
      have h1 : b + 1 + k = b + (k + 1) := by omega
      have h2 : n + 1 - (k + 1) = n - k := by omega
      rw [h1, h2]

/-! ### `leastRead` = min of the backlog length and all read offsets -/

theorem leastRead_foldl_le (l : List (Nat × Nat)) (a : Nat) :
    l.foldl (fun a p => min a p.2) a ≤ a ∧ (∀ p ∈ l, l.foldl (fun a p => min a p.2) a ≤ p.2) ∧
    (l.foldl (fun a p => min a p.2) a = a ∨ ∃ p ∈ l, p.2 = l.foldl (fun a p => min a p.2) a) := by
  induction l generalizing a with
  | nil => simp
  | cons q r ih =>
    simp only [List.foldl_cons]
    obtain ⟨h1, h2, h3⟩ := ih (min a q.2)
    refine ⟨by omega, ?_, ?_⟩
    · intro p hp
      rcases List.mem_cons.mp hp with e | hp'
      · subst e; omega
      · exact h2 p hp'
    · rcases h3 with h | ⟨p, hp, e⟩
      · by_cases hq : a ≤ q.2
        · left; rw [h]; omega
        · right; exact ⟨q, by simp, by rw [h]; omega⟩
      · right; exact ⟨p, List.mem_cons_of_mem _ hp, e⟩

theorem leastRead_le_len (n : Nat) (l : List (Nat × Nat)) : leastRead n l ≤ n := (leastRead_foldl_le l n).1
theorem leastRead_le_mem (n : Nat) {l : List (Nat × Nat)} {p : Nat × Nat} (h : p ∈ l) : leastRead n l ≤ p.2 :=
  (leastRead_foldl_le l n).2.1 p h
theorem leastRead_attained (n : Nat) (l : List (Nat × Nat)) : leastRead n l = n ∨ ∃ p ∈ l, p.2 = leastRead n l :=
  (leastRead_foldl_le l n).2.2

/-! ### the three operations re-establish the invariant and act on absolute cursors as the spec says -/

theorem inv_init (src : Nat → α) : Inv src (init : St α) :=
  ⟨by simp [init], by simp [init], by simp [init], by simp [init], Or.inl rfl⟩

theorem fresh_init : Fresh (init : St α) := by intro p hp; simp [init] at hp

/-- `send` from any state satisfying the invariant, when the handed-out key is not in use -/
theorem send_spec (src : Nat → α) (s : St α) (hi : Inv src s) (hk : lookup s.nextKey s.reads = none) :
    (send s).1 = s.nextKey ∧
    cursor (send s).2 s.nextKey = some s.pos ∧
    (∀ k', k' ≠ s.nextKey → cursor (send s).2 k' = cursor s k') ∧
    (send s).2.pos = s.pos ∧ (send s).2.buf = s.buf ∧
    (send s).2.nextKey = (s.nextKey + 1) % usizeMod ∧
    (send s).2.handle = s.handle ∧
    Inv src (send s).2 := by
  obtain ⟨hlen, hbuf, hfr, hnd, hmin⟩ := hi
  have hoth : others s.nextKey s.reads = s.reads := others_of_lookup_none hk
  refine ⟨rfl, ?_, ?_, rfl, rfl, rfl, rfl, ?_⟩
  · simp only [cursor, send, base, hoth]
    rw [lookup_append_single, hk]; simp; omega
  · intro k' hne
    simp only [cursor, send, base, hoth]
    rw [lookup_append_single]
    cases lookup k' s.reads <;> simp [Ne.symm hne]
  · refine ⟨hlen, hbuf, ?_, ?_, ?_⟩
    · intro p hp
      simp only [send, hoth] at hp
      rcases List.mem_append.mp hp with h | h
      · exact hfr p h
      · simp at h; subst h; simp [send]
    · simp only [send, hoth, List.map_append, List.map_cons, List.map_nil]
      exact List.nodup_append.mpr ⟨hnd, by simp, by
        intro a ha b hb; simp at hb; subst hb; intro e; subst e; exact lookup_none_not_mem hk ha⟩
    · rcases hmin with h | ⟨p, hp, hp0⟩
      · exact Or.inl h
      · right; exact ⟨p, by simp only [send, hoth]; exact List.mem_append_left _ hp, hp0⟩

/-- what one `next()` on output `key` does, in terms of absolute cursors -/
theorem nextFrame_spec (src : Nat → α) (s : St α) (key fr : Nat) (hi : Inv src s) (hk : lookup key s.reads = some fr) :
    ∃ frame s', nextFrame src s key = some (frame, s') ∧
      frame = src (base s + fr) ∧
      cursor s' key = some (base s + fr + 1) ∧
      (∀ k', k' ≠ key → cursor s' k' = cursor s k') ∧
      s'.pos = max s.pos (base s + fr + 1) ∧
      s'.nextKey = s.nextKey ∧ s'.handle = s.handle ∧
      (∀ x ∈ s'.reads.map (·.1), x ∈ s.reads.map (·.1)) ∧
      Inv src s' := by
  obtain ⟨hlen, hbuf, hfr, hnd, hmin⟩ := hi
  have hkm : (key, fr) ∈ s.reads := lookup_mem hk
  have hfrle : fr ≤ s.buf.length := hfr _ hkm
  have hbase : base s + s.buf.length = s.pos := by unfold base; omega
  have hkey_in : key ∈ s.reads.map (·.1) := List.mem_map.mpr ⟨_, hkm, rfl⟩
  -- facts about the other outputs
  have hoth_le : ∀ p ∈ others key s.reads, p.2 ≤ s.buf.length := fun p hp => hfr p (mem_others.mp hp).1
  have hoth_lookup : ∀ k', k' ≠ key → lookup k' (others key s.reads) = lookup k' s.reads :=
    fun k' h => lookup_others_ne s.reads h
  have hnd_oth := nodup_others (k := key) hnd
  have hkey_notin : key ∉ (others key s.reads).map (·.1) := fun h => (keys_others_sub _ h).2 rfl
  have hkeys1 : ∀ (v : Nat), ∀ x ∈ (others key s.reads ++ [(key, v)]).map (·.1), x ∈ s.reads.map (·.1) := by
    intro v x hx
    rw [List.map_append] at hx
    rcases List.mem_append.mp hx with h | h
    · exact (keys_others_sub _ h).1
    · simp at h; subst h; exact hkey_in
  have hkeys2 : ∀ (v : Nat), ∀ x ∈ ((others key s.reads).map (fun p : Nat × Nat => (p.1, p.2 - 1)) ++ [(key, v)]).map (·.1), x ∈ s.reads.map (·.1) := by
    intro v x hx
    rw [List.map_append, keys_map_sub] at hx
    rcases List.mem_append.mp hx with h | h
    · exact (keys_others_sub _ h).1
    · simp at h; subst h; exact hkey_in
  -- a zero reader: either key itself (fr = 0) or one of the others
  have hzero : s.buf = [] ∨ fr = 0 ∨ ∃ p ∈ others key s.reads, p.2 = 0 := by
    rcases hmin with h | ⟨p, hp, hp0⟩
    · exact Or.inl h
    · by_cases hpk : p.1 = key
      · right; left
        have : lookup key s.reads = some p.2 := lookup_of_mem_nodup hnd (by rw [← hpk]; exact hp)
        rw [hk] at this; simp at this; omega
      · exact Or.inr (Or.inr ⟨p, mem_others.mpr ⟨hp, hpk⟩, hp0⟩)
  unfold nextFrame
  rw [hk]
  simp only
  by_cases hlt : fr < s.buf.length
  · -- the frame is already in the backlog
    have hframe : s.buf.getD fr (src s.pos) = src (base s + fr) := by
      rw [hbuf, run_getD src _ _ _ _ (by simpa using hlt)]; simp [base]
    simp only [hlt, if_true]
    by_cases hleast : (others key s.reads).any (fun p => decide (p.2 ≤ fr)) = true
    · -- someone else still needs the front frame
      simp only [hleast, Bool.not_true, Bool.false_eq_true, if_false]
      refine ⟨_, _, rfl, hframe, ?_, ?_, ?_, rfl, rfl, hkeys1 _, ?_⟩
      · simp [cursor, base, lookup_append_single, lookup_others_self]; omega
      · intro k' hne
        simp only [cursor, base]
        rw [lookup_append_single, hoth_lookup k' hne]
        cases lookup k' s.reads <;> simp [Ne.symm hne]
      · simp only; unfold base; omega
      · obtain ⟨q, hq, hq2⟩ := List.any_eq_true.mp hleast
        have hq2' : q.2 ≤ fr := by simpa using hq2
        refine ⟨hlen, hbuf, ?_, ?_, ?_⟩
        · intro p hp
          rcases List.mem_append.mp hp with h | h
          · exact hoth_le p h
          · simp at h; subst h; simp; omega
        · rw [List.map_append]; simp only [List.map_cons, List.map_nil]
          exact List.nodup_append.mpr ⟨hnd_oth, by simp, by
            intro a ha b hb; simp at hb; subst hb; intro e; subst e; exact hkey_notin ha⟩
        · right
          rcases hzero with h | h | ⟨p, hp, hp0⟩
          · rw [h] at hlt; simp at hlt
          · exact ⟨q, List.mem_append_left _ hq, by omega⟩
          · exact ⟨p, List.mem_append_left _ hp, hp0⟩
    · -- this output was the only one still needing the front frame: pop it
      have hleast' : ∀ p ∈ others key s.reads, fr < p.2 := by
        intro p hp
        apply Classical.byContradiction; intro hc
        exact hleast (List.any_eq_true.mpr ⟨p, hp, by simpa using Nat.le_of_not_lt hc⟩)
      have hfr0 : fr = 0 := by
        rcases hzero with h | h | ⟨p, hp, hp0⟩
        · rw [h] at hlt; simp at hlt
        · exact h
        · have := hleast' p hp; omega
      simp only [hleast, Bool.not_false, if_true]
      have hlen1 : 1 ≤ s.buf.length := by omega
      have hbase' : s.pos - s.buf.tail.length = base s + 1 := by simp [List.length_tail]; unfold base; omega
      refine ⟨_, _, rfl, hframe, ?_, ?_, ?_, rfl, rfl, hkeys2 _, ?_⟩
      · simp only [cursor, base]; rw [hbase', lookup_append_single, lookup_map_sub, lookup_others_self]; simp [base]; omega
      · intro k' hne
        simp only [cursor, base]; rw [hbase', lookup_append_single, lookup_map_sub, hoth_lookup k' hne]
        cases hl : lookup k' s.reads with
        | none => simp [Ne.symm hne]
        | some v =>
          have hv : fr < v := hleast' (k', v) (mem_others.mpr ⟨lookup_mem hl, hne⟩)
          simp; unfold base; omega
      · simp only; unfold base; omega
      · refine ⟨by simp [List.length_tail]; omega, ?_, ?_, ?_, ?_⟩
        · simp only [List.length_tail]
          have : s.pos - (s.buf.length - 1) = (s.pos - s.buf.length) + 1 := by omega
          rw [this]; conv => lhs; rw [hbuf]
          rw [run_tail]
        · intro p hp
          rcases List.mem_append.mp hp with h | h
          · obtain ⟨q, hq, rfl⟩ := List.mem_map.mp h
            have := hoth_le q hq; simp [List.length_tail]; omega
          · simp at h; subst h; simp [List.length_tail]; omega
        · rw [List.map_append, keys_map_sub]; simp only [List.map_cons, List.map_nil]
          exact List.nodup_append.mpr ⟨hnd_oth, by simp, by
            intro a ha b hb; simp at hb; subst hb; intro e; subst e; exact hkey_notin ha⟩
        · right; exact ⟨(key, fr), by simp, hfr0⟩
  · -- caught up with the source: pull a fresh frame and append it
    have hfeq : fr = s.buf.length := by omega
    simp only [hlt, if_false]
    have hbuf1 : s.buf ++ [src s.pos] = (List.range' (base s) (s.buf.length + 1)).map src := by
      conv => lhs; rw [hbuf]
      have : s.pos = (s.pos - s.buf.length) + s.buf.length := by omega
      conv => lhs; rhs; rw [this]
      rw [run_snoc]; rfl
    by_cases hleast : (others key s.reads).any (fun p => decide (p.2 ≤ fr)) = true
    · simp only [hleast, Bool.not_true, Bool.false_eq_true, if_false]
      refine ⟨_, _, rfl, by congr 1; unfold base; omega, ?_, ?_, ?_, rfl, rfl, hkeys1 _, ?_⟩
      · simp only [cursor, base, List.length_append, List.length_singleton]
        rw [lookup_append_single, lookup_others_self]; simp; omega
      · intro k' hne
        simp only [cursor, base, List.length_append, List.length_singleton]
        rw [lookup_append_single, hoth_lookup k' hne]
        cases lookup k' s.reads <;> simp [Ne.symm hne]
      · simp only; unfold base; omega
      · obtain ⟨q, hq, hq2⟩ := List.any_eq_true.mp hleast
        have hq2' : q.2 ≤ fr := by simpa using hq2
        refine ⟨by simp; omega, ?_, ?_, ?_, ?_⟩
        · simp only [List.length_append, List.length_singleton]
          have : s.pos + 1 - (s.buf.length + 1) = base s := by unfold base; omega
          rw [this]; exact hbuf1
        · intro p hp
          rcases List.mem_append.mp hp with h | h
          · have := hoth_le p h; simp; omega
          · simp at h; subst h; simp; omega
        · rw [List.map_append]; simp only [List.map_cons, List.map_nil]
          exact List.nodup_append.mpr ⟨hnd_oth, by simp, by
            intro a ha b hb; simp at hb; subst hb; intro e; subst e; exact hkey_notin ha⟩
        · right
          rcases hzero with h | h | ⟨p, hp, hp0⟩
          · have : s.buf.length = 0 := by rw [h]; rfl
            exact ⟨q, List.mem_append_left _ hq, by omega⟩
          · exact ⟨q, List.mem_append_left _ hq, by omega⟩
          · exact ⟨p, List.mem_append_left _ hp, hp0⟩
    · -- nobody else is attached behind us: the fresh frame is popped at once
      have hleast' : ∀ p ∈ others key s.reads, fr < p.2 := by
        intro p hp
        apply Classical.byContradiction; intro hc
        exact hleast (List.any_eq_true.mpr ⟨p, hp, by simpa using Nat.le_of_not_lt hc⟩)
      have hnone : others key s.reads = [] := by
        cases h : others key s.reads with
        | nil => rfl
        | cons p r =>
          have hp : p ∈ others key s.reads := by rw [h]; simp
          have h1 := hleast' p hp; have h2 := hoth_le p hp; omega
      have hlen0 : s.buf.length = 0 := by
        rcases hzero with h | h | ⟨p, hp, _⟩
        · rw [h]; rfl
        · omega
        · rw [hnone] at hp; simp at hp
      have hbnil : s.buf = [] := List.eq_nil_of_length_eq_zero hlen0
      simp only [hnone, List.map_nil, List.nil_append]
      refine ⟨_, _, rfl, by congr 1; unfold base; omega, ?_, ?_, ?_, rfl, rfl, ?_, ?_⟩
      · simp [cursor, base, lookup, hbnil]; omega
      · intro k' hne
        have : lookup k' s.reads = none := by
          rw [← hoth_lookup k' hne, hnone]; rfl
        simp [cursor, lookup, this, Ne.symm hne]
      · simp only; unfold base; omega
      · intro x hx; simp at hx; subst hx; exact hkey_in
      · refine ⟨by simp [hbnil], by simp [hbnil], ?_, by simp, Or.inl (by simp [hbnil])⟩
        intro p hp; simp at hp; subst hp; simp [hbnil]; omega

/-- `drop_output` of a registered key: the other cursors are untouched, nothing is pulled, and the
    backlog is trimmed to what the remaining outputs still need -/
theorem dropOutput_spec (src : Nat → α) (s : St α) (key fr : Nat) (hi : Inv src s) (hk : lookup key s.reads = some fr) :
    ∃ s', dropOutput s key = some s' ∧
      cursor s' key = none ∧
      (∀ k', k' ≠ key → cursor s' k' = cursor s k') ∧
      s'.pos = s.pos ∧ s'.nextKey = s.nextKey ∧ s'.handle = s.handle ∧
      (∀ x ∈ s'.reads.map (·.1), x ∈ s.reads.map (·.1)) ∧
      Inv src s' := by
  obtain ⟨hlen, hbuf, hfr, hnd, hmin⟩ := hi
  have hoth_le : ∀ p ∈ others key s.reads, p.2 ≤ s.buf.length := fun p hp => hfr p (mem_others.mp hp).1
  have hnd_oth := nodup_others (k := key) hnd
  obtain ⟨L, hLdef⟩ : ∃ L, L = leastRead s.buf.length (others key s.reads) := ⟨_, rfl⟩
  have hL : L ≤ s.buf.length := hLdef ▸ leastRead_le_len _ _
  have hLmem : ∀ p ∈ others key s.reads, L ≤ p.2 := fun p hp => hLdef ▸ leastRead_le_mem _ hp
  have hLatt : L = s.buf.length ∨ ∃ p ∈ others key s.reads, p.2 = L := hLdef ▸ leastRead_attained _ _
  -- both branches of bus.rs:230 are the `least`-shift (a shift by 0 is the identity)
  have hform : dropOutput s key = some { s with
      reads := (others key s.reads).map (fun p => (p.1, p.2 - L)), buf := s.buf.drop L } := by
    unfold dropOutput; rw [hk]; simp only; rw [← hLdef]
    by_cases h0 : L > 0
    · simp [h0]
    · have h0' : L = 0 := by omega
      simp [h0']
  refine ⟨_, hform, ?_, ?_, rfl, rfl, rfl, ?_, ?_⟩
  · simp only [cursor]; rw [lookup_map_sub, lookup_others_self]; rfl
  · intro k' hne
    simp only [cursor, base, List.length_drop]
    rw [lookup_map_sub, lookup_others_ne s.reads hne]
    cases hl : lookup k' s.reads with
    | none => rfl
    | some v =>
      have hv : L ≤ v := hLmem (k', v) (mem_others.mpr ⟨lookup_mem hl, hne⟩)
      have hv2 : v ≤ s.buf.length := hfr _ (lookup_mem hl)
      simp; omega
  · intro x hx
    simp only [] at hx
    rw [keys_map_sub] at hx
    exact (keys_others_sub _ hx).1
  · refine ⟨by simp only [List.length_drop]; omega, ?_, ?_, ?_, ?_⟩
    · simp only [List.length_drop]
      have e : s.buf.drop L = (List.range' (s.pos - s.buf.length + L) (s.buf.length - L)).map src := by
        conv => lhs; rw [hbuf]
        rw [run_drop]
      rw [e]; congr 2; omega
    · intro p hp
      obtain ⟨q, hq, rfl⟩ := List.mem_map.mp hp
      have := hoth_le q hq
      simp only [List.length_drop]; omega
    · simp only []; rw [keys_map_sub]; exact hnd_oth
    · rcases hLatt with h | ⟨p, hp, e⟩
      · left; simp only; rw [h]; simp
      · right; exact ⟨(p.1, p.2 - L), List.mem_map.mpr ⟨p, hp, rfl⟩, by simp only; omega⟩

/-! ### what the invariant says in terms of absolute cursors -/

theorem cursor_bounds {src : Nat → α} {s : St α} (hi : Inv src s) {k c : Nat} (h : cursor s k = some c) :
    base s ≤ c ∧ c ≤ s.pos := by
  simp only [cursor] at h
  cases hl : lookup k s.reads with
  | none => rw [hl] at h; simp at h
  | some fr =>
    rw [hl] at h; simp at h
    have := hi.fr_le _ (lookup_mem hl); have := hi.len_le
    unfold base at *; omega

theorem base_attained {src : Nat → α} {s : St α} (hi : Inv src s) (hne : s.reads ≠ []) :
    ∃ k, cursor s k = some (base s) := by
  have : ∃ p ∈ s.reads, p.2 = 0 := by
    rcases hi.minimal with h | h
    · cases hr : s.reads with
      | nil => exact absurd hr hne
      | cons p r =>
        have hp : p ∈ s.reads := by rw [hr]; simp
        have := hi.fr_le p hp
        rw [h] at this
        exact ⟨p, by simp, by simpa using this⟩
    · exact h
  obtain ⟨p, hp, hp0⟩ := this
  refine ⟨p.1, ?_⟩
  have : lookup p.1 s.reads = some p.2 := lookup_of_mem_nodup hi.nodup hp
  simp [cursor, this, hp0]

theorem reads_nil_of_no_cursor {s : St α} (h : ∀ k, cursor s k = none) : s.reads = [] := by
  cases hr : s.reads with
  | nil => rfl
  | cons p r =>
    have := h p.1
    simp [cursor, hr, lookup] at this

theorem absent_of_fresh {s : St α} (hf : Fresh s) : lookup s.nextKey s.reads = none := by
  apply lookup_none_of_not_mem
  intro hm
  obtain ⟨p, hp, e⟩ := List.mem_map.mp hm
  have := hf p hp
  omega

theorem runX_ops {α : Type} (src : Nat → α) (srcDone : Nat → Bool) (fuel : Nat) (ops : List Op) (s : St α) :
    (runX src srcDone fuel s (ops.map .op)).map (List.map fun r => r.2) = (run src s ops).map (List.map fun r => r.2) := by
  induction ops generalizing s with
  | nil => rfl
  | cons o ops ih =>
    simp only [List.map_cons, runX, stepX, run]
    cases hst : step src s o with
    | none => simp
    | some rs =>
      obtain ⟨r, s'⟩ := rs
      simp only [Option.map]
      have := ih s'
      cases h1 : runX src srcDone fuel s' (ops.map .op) <;> cases h2 : run src s' ops <;> simp_all

/-! ### refinement of the cursor specification `Abs` -/

/-- the abstract state a concrete state stands for -/
def absOf (s : St α) : Abs := ⟨s.pos, cursor s, s.nextKey, s.handle⟩

theorem Abs.eq_of {a b : Abs} (h1 : a.P = b.P) (h2 : ∀ k, a.cur k = b.cur k) (h3 : a.nextKey = b.nextKey)
    (h4 : a.handle = b.handle) : a = b := by
  cases a; cases b
  simp only at h1 h2 h3 h4
  have h2' := funext h2
  subst h1; subst h3; subst h2'; subst h4
  rfl

theorem fresh_of_keys_sub {s s' : St α} (hf : Fresh s) (hn : s.nextKey ≤ s'.nextKey)
    (hsub : ∀ x ∈ s'.reads.map (·.1), x ∈ s.reads.map (·.1)) : Fresh s' := by
  intro p hp
  obtain ⟨q, hq, e⟩ := List.mem_map.mp (hsub p.1 (List.mem_map.mpr ⟨p, hp, rfl⟩))
  have := hf q hq
  omega

/-- one operation: the model and the cursor specification agree on success/failure, on the value
    returned and on the abstract successor state; the invariant is re-established -/
theorem step_refines (src : Nat → α) (s : St α) (op : Op) (hi : Inv src s) (hf : Fresh s)
    (hn : s.nextKey + 1 < usizeMod) :
    (step src s op).map (fun r => (r.1, absOf r.2)) = Abs.step src (absOf s) op ∧
    ∀ r s', step src s op = some (r, s') → Inv src s' ∧ Fresh s' ∧ s'.nextKey ≤ s.nextKey + 1 := by
  cases op with
  | send =>
    obtain ⟨_, h2, h3, h4, _, h6, h8, h7⟩ := send_spec src s hi (absent_of_fresh hf)
    have hmod : (s.nextKey + 1) % usizeMod = s.nextKey + 1 := Nat.mod_eq_of_lt hn
    by_cases hh : s.handle = true
    · constructor
      · simp only [step, hh, if_true, Option.map, Abs.step, absOf]
        congr 2
        apply Abs.eq_of
        · exact h4
        · intro k
          by_cases hk : k = s.nextKey
          · subst hk; simp [h2]
          · simp [hk, h3 k hk]
        · exact h6
        · simp only [h8, hh]
      · intro r s' hst
        simp only [step, hh, if_true, Option.some.injEq, Prod.mk.injEq] at hst
        obtain ⟨_, rfl⟩ := hst
        refine ⟨h7, ?_, by rw [h6, hmod]; exact Nat.le_refl _⟩
        intro p hp
        rw [h6, hmod]
        have hoth : others s.nextKey s.reads = s.reads := others_of_lookup_none (absent_of_fresh hf)
        simp only [send, hoth] at hp
        rcases List.mem_append.mp hp with h | h
        · have := hf p h; omega
        · simp at h; subst h; simp
    · have hh' : s.handle = false := by simpa using hh
      constructor
      · simp [step, hh', Abs.step, absOf]
      · intro r s' hst; simp [step, hh'] at hst
  | dropBus =>
    by_cases hh : s.handle = true
    · constructor
      · simp only [step, hh, if_true, Option.map, Abs.step, absOf, dropBus]
        congr 2
      · intro r s' hst
        simp only [step, hh, if_true, Option.some.injEq, Prod.mk.injEq] at hst
        obtain ⟨_, rfl⟩ := hst
        exact ⟨⟨hi.len_le, hi.buf_eq, hi.fr_le, hi.nodup, hi.minimal⟩, hf, by simp [dropBus]⟩
    · have hh' : s.handle = false := by simpa using hh
      constructor
      · simp [step, hh', Abs.step, absOf]
      · intro r s' hst; simp [step, hh'] at hst
  | next k =>
    cases hl : lookup k s.reads with
    | none =>
      have h1 : nextFrame src s k = none := by unfold nextFrame; rw [hl]
      have h2 : cursor s k = none := by simp [cursor, hl]
      constructor
      · simp [step, h1, Abs.step, absOf, h2]
      · intro r s' hst; simp [step, h1] at hst
    | some fr =>
      obtain ⟨frame, s1, e, hframe, hc, hoth, hpos, hnk, hhd, hsub, hinv⟩ := nextFrame_spec src s k fr hi hl
      have h2 : cursor s k = some (base s + fr) := by simp [cursor, hl]
      constructor
      · simp only [step, e, Option.map, Abs.step, absOf, h2, hframe]
        congr 2
        apply Abs.eq_of
        · exact hpos
        · intro k'
          by_cases hk : k' = k
          · subst hk; simp [hc]
          · simp [hk, hoth k' hk]
        · exact hnk
        · exact hhd
      · intro r s' hst
        simp only [step, e, Option.map, Option.some.injEq, Prod.mk.injEq] at hst
        obtain ⟨_, rfl⟩ := hst
        exact ⟨hinv, fresh_of_keys_sub hf (by omega) hsub, by omega⟩
  | drop k =>
    cases hl : lookup k s.reads with
    | none =>
      have h1 : dropOutput s k = none := by unfold dropOutput; rw [hl]
      have h2 : cursor s k = none := by simp [cursor, hl]
      constructor
      · simp [step, h1, Abs.step, absOf, h2]
      · intro r s' hst; simp [step, h1] at hst
    | some fr =>
      obtain ⟨s1, e, hc, hoth, hpos, hnk, hhd, hsub, hinv⟩ := dropOutput_spec src s k fr hi hl
      have h2 : cursor s k = some (base s + fr) := by simp [cursor, hl]
      constructor
      · simp only [step, e, Option.map, Abs.step, absOf, h2]
        congr 2
        apply Abs.eq_of
        · exact hpos
        · intro k'
          by_cases hk : k' = k
          · subst hk; simp [hc]
          · simp [hk, hoth k' hk]
        · exact hnk
        · exact hhd
      · intro r s' hst
        simp only [step, e, Option.map, Option.some.injEq, Prod.mk.injEq] at hst
        obtain ⟨_, rfl⟩ := hst
        exact ⟨hinv, fresh_of_keys_sub hf (by omega) hsub, by omega⟩

/-- any finite operation sequence from any state satisfying the invariant -/
theorem run_refines (src : Nat → α) (ops : List Op) : ∀ (s : St α), Inv src s → Fresh s →
    s.nextKey + ops.length < usizeMod →
    (run src s ops).map (List.map fun r => (r.1, absOf r.2)) = Abs.run src (absOf s) ops ∧
    ∀ tr, run src s ops = some tr → ∀ r ∈ tr, Inv src r.2 := by
  induction ops with
  | nil => intro s _ _ _; simp [run, Abs.run]
  | cons op ops ih =>
    intro s hi hf hn
    simp only [List.length_cons] at hn
    obtain ⟨h1, h2⟩ := step_refines src s op hi hf (by omega)
    cases hst : step src s op with
    | none =>
      rw [hst] at h1
      simp only [Option.map] at h1
      simp [run, Abs.run, hst, ← h1]
    | some rs =>
      obtain ⟨r, s'⟩ := rs
      rw [hst] at h1
      simp only [Option.map] at h1
      obtain ⟨hi', hf', hn'⟩ := h2 r s' hst
      obtain ⟨ih1, ih2⟩ := ih s' hi' hf' (by omega)
      simp only [run, Abs.run, hst, ← h1, ← ih1]
      cases hr : run src s' ops with
      | none => simp
      | some rest =>
        refine ⟨by simp, ?_⟩
        intro tr htr q hq
        simp only [Option.some.injEq] at htr
        subst htr
        rcases List.mem_cons.mp hq with e | hq'
        · subst e; exact hi'
        · exact ih2 rest hr q hq'

/-! ### what one output receives along a run -/

/-- the frames returned by the `next k` operations of a run (`tr` = the run's result list) -/
def received {β : Type} (k : Nat) : List Op → List (Ret α × β) → List α
  | [], _ => []
  | _ :: _, [] => []
  | op :: ops, (r, _) :: tr =>
    match op, r with
    | .next k', .frame f => if k' = k then f :: received k ops tr else received k ops tr
    | _, _ => received k ops tr

theorem received_map {β γ : Type} (g : β → γ) (k : Nat) (ops : List Op) (tr : List (Ret α × β)) :
    received k ops (tr.map fun r => (r.1, g r.2)) = received k ops tr := by
  induction ops generalizing tr with
  | nil => simp [received]
  | cons op ops ih =>
    cases tr with
    | nil => simp [received]
    | cons r tr =>
      obtain ⟨r1, r2⟩ := r
      simp only [List.map_cons, received]
      cases op <;> cases r1 <;> simp [ih]

/-- in the cursor specification: an output with cursor `c` receives `src c, src (c+1), …`, one per
    `next`; an output that is not live (and whose key cannot be issued again) receives nothing -/
theorem Abs.received_run (src : Nat → α) (k : Nat) (ops : List Op) :
    ∀ (a : Abs) (tr : List (Ret α × Abs)), Abs.run src a ops = some tr → k < a.nextKey →
      a.nextKey + ops.length < usizeMod →
      (∀ c, a.cur k = some c → received k ops tr = (List.range' c (ops.count (.next k))).map src) ∧
      (a.cur k = none → received k ops tr = [] ∧ ops.count (.next k) = 0) := by
  induction ops with
  | nil => intro a tr h _ _; simp [Abs.run] at h; subst h; simp [received]
  | cons op ops ih =>
    intro a tr h hk hn
    simp only [List.length_cons] at hn
    simp only [Abs.run] at h
    cases hst : Abs.step src a op with
    | none => simp [hst] at h
    | some ra =>
      obtain ⟨r, a'⟩ := ra
      simp only [hst] at h
      cases hr : Abs.run src a' ops with
      | none => simp [hr] at h
      | some rest =>
        simp only [hr, Option.some.injEq] at h
        subst h
        cases op with
        | send =>
          simp only [Abs.step] at hst
          by_cases hh : a.handle = true
          · simp only [hh, if_true, Option.some.injEq, Prod.mk.injEq] at hst
            obtain ⟨rfl, rfl⟩ := hst
            have hmod : (a.nextKey + 1) % usizeMod = a.nextKey + 1 := Nat.mod_eq_of_lt (by omega)
            have hne : k ≠ a.nextKey := by omega
            obtain ⟨i1, i2⟩ := ih _ rest hr (by simp only [hmod]; omega) (by simp only [hmod]; omega)
            simp only [hne, if_false] at i1 i2
            simp only [received, List.count_cons]
            constructor
            · intro c hc; simpa using i1 c hc
            · intro hc; simpa using i2 hc
          · simp [hh] at hst
        | dropBus =>
          simp only [Abs.step] at hst
          by_cases hh : a.handle = true
          · simp only [hh, if_true, Option.some.injEq, Prod.mk.injEq] at hst
            obtain ⟨rfl, rfl⟩ := hst
            obtain ⟨i1, i2⟩ := ih _ rest hr hk (by simp only; omega)
            have hb : (Op.dropBus == Op.next k) = false := by simp
            simp only [received, List.count_cons, hb]
            exact ⟨fun c hc => by simpa using i1 c hc, fun hc => by simpa using i2 hc⟩
          · simp [hh] at hst
        | next k' =>
          simp only [Abs.step] at hst
          cases hc' : a.cur k' with
          | none => simp [hc'] at hst
          | some c' =>
            simp only [hc', Option.some.injEq, Prod.mk.injEq] at hst
            obtain ⟨rfl, rfl⟩ := hst
            obtain ⟨i1, i2⟩ := ih _ rest hr hk (by simp only; omega)
            by_cases hkk : k' = k
            · subst hkk
              simp only [if_true] at i1 i2
              simp only [received, if_true, List.count_cons, beq_self_eq_true]
              constructor
              · intro c hc
                rw [hc'] at hc; simp only [Option.some.injEq] at hc; subst hc
                rw [i1 (c' + 1) rfl, List.range'_succ]; simp
              · intro hc; rw [hc'] at hc; simp at hc
            · have hkk' : k ≠ k' := fun e => hkk e.symm
              simp only [hkk', if_false] at i1 i2
              have hb : (Op.next k' == Op.next k) = false := by simp [hkk]
              simp only [received, hkk, if_false, List.count_cons, hb]
              exact ⟨fun c hc => by simpa using i1 c hc, fun hc => by simpa using i2 hc⟩
        | drop k' =>
          simp only [Abs.step] at hst
          cases hc' : a.cur k' with
          | none => simp [hc'] at hst
          | some c' =>
            simp only [hc', Option.some.injEq, Prod.mk.injEq] at hst
            obtain ⟨rfl, rfl⟩ := hst
            obtain ⟨i1, i2⟩ := ih _ rest hr hk (by simp only; omega)
            have hb : (Op.drop k' == Op.next k) = false := by simp
            simp only [received, List.count_cons, hb]
            by_cases hkk : k' = k
            · subst hkk
              simp only [if_true] at i2
              obtain ⟨j1, j2⟩ := i2 trivial
              constructor
              · intro c _; simp [j1, j2]
              · intro hc; rw [hc'] at hc; simp at hc
            · have hkk' : k ≠ k' := fun e => hkk e.symm
              simp only [hkk', if_false] at i1 i2
              exact ⟨fun c hc => by simpa using i1 c hc, fun hc => by simpa using i2 hc⟩

end Dasp.Bus
