import Dasp.Lemmas.Rne
import Mathlib.Algebra.Order.Field.Power
import Mathlib.Tactic.FieldSimp
import Mathlib.Tactic.NormNum
import Mathlib.Data.Nat.Log

namespace Dasp

theorem pow2_eq (e : Int) : pow2 e = (2 : ℚ) ^ e := by
  unfold pow2
  split_ifs with h
  · obtain ⟨n, rfl⟩ := Int.eq_ofNat_of_zero_le h
    simp
  · have h' : e < 0 := by omega
    obtain ⟨n, hn⟩ := Int.exists_eq_neg_ofNat (le_of_lt h')
    subst hn
    simp [zpow_neg]

theorem pow2_pos (e : Int) : 0 < pow2 e := by rw [pow2_eq]; positivity
theorem pow2_add (a b : Int) : pow2 (a + b) = pow2 a * pow2 b := by
  simp only [pow2_eq]; exact zpow_add₀ (by norm_num) a b
theorem pow2_mono {a b : Int} (h : a ≤ b) : pow2 a ≤ pow2 b := by
  simp only [pow2_eq]; exact zpow_le_zpow_right₀ (by norm_num) h
theorem pow2_lt {a b : Int} (h : a < b) : pow2 a < pow2 b := by
  simp only [pow2_eq]; exact zpow_lt_zpow_right₀ (by norm_num) h
theorem pow2_succ (a : Int) : pow2 (a + 1) = 2 * pow2 a := by
  rw [pow2_add]; simp [pow2_eq]; ring

/-- q lies in the binade of exponent e -/
def inBinade (q : Rat) (e : Int) : Prop := pow2 e ≤ q ∧ q < pow2 (e + 1)

theorem binade_unique {q : Rat} {a b : Int} (ha : inBinade q a) (hb : inBinade q b) : a = b := by
  by_contra hne
  rcases Int.lt_or_gt_of_ne hne with h | h
  · have : pow2 (a + 1) ≤ pow2 b := pow2_mono (by omega)
    linarith [ha.2, hb.1]
  · have : pow2 (b + 1) ≤ pow2 a := pow2_mono (by omega)
    linarith [ha.1, hb.2]

theorem binade_mono {x y : Rat} {a b : Int} (ha : inBinade x a) (hb : inBinade y b) (h : x ≤ y) : a ≤ b := by
  by_contra hlt
  have : pow2 (b + 1) ≤ pow2 a := pow2_mono (by omega)
  linarith [ha.1, hb.2]


theorem pow2_natCast (n : Nat) : pow2 (n : Int) = ((2 ^ n : Nat) : ℚ) := by
  rw [pow2_eq]; push_cast; simp

theorem nat_log2_bracket (n : Nat) (hn : n ≠ 0) : pow2 (Nat.log2 n : Int) ≤ (n : ℚ) ∧ (n : ℚ) < pow2 ((Nat.log2 n : Int) + 1) := by
  constructor
  · rw [pow2_natCast]; exact_mod_cast Nat.log2_self_le hn
  · have : ((Nat.log2 n : Int) + 1) = ((Nat.log2 n + 1 : Nat) : Int) := by push_cast; rfl
    rw [this, pow2_natCast]; exact_mod_cast Nat.lt_log2_self

theorem ilog2_spec (q : Rat) (hq : 0 < q) : inBinade q (ilog2 q) := by
  have hnum : 0 < q.num := Rat.num_pos.mpr hq
  have hn0 : q.num.toNat ≠ 0 := by omega
  have hd0 : q.den ≠ 0 := q.den_nz
  obtain ⟨na, nb⟩ := nat_log2_bracket q.num.toNat hn0
  obtain ⟨da, db⟩ := nat_log2_bracket q.den hd0
  have hnq : ((q.num.toNat : Nat) : ℚ) = (q.num : ℚ) := by
    have : ((q.num.toNat : Nat) : Int) = q.num := Int.toNat_of_nonneg (le_of_lt hnum)
    exact_mod_cast this
  have hq' : q = (q.num : ℚ) / (q.den : ℚ) := (Rat.num_div_den q).symm
  have hdpos : (0 : ℚ) < q.den := by exact_mod_cast Nat.pos_of_ne_zero hd0
  set a : Int := ((Nat.log2 q.num.toNat : Nat) : Int) with ha
  set b : Int := ((Nat.log2 q.den : Nat) : Int) with hb
  -- 2^(a-b-1) < q < 2^(a-b+1)
  have lower : pow2 (a - b - 1) < q := by
    rw [hq', lt_div_iff₀ hdpos]
    have h1 : pow2 (a - b - 1) * pow2 (b + 1) = pow2 a := by rw [← pow2_add]; congr 1; ring
    calc pow2 (a - b - 1) * (q.den : ℚ) < pow2 (a - b - 1) * pow2 (b + 1) := by
            exact mul_lt_mul_of_pos_left db (pow2_pos _)
      _ = pow2 a := h1
      _ ≤ (q.num : ℚ) := by rw [← hnq]; exact na
  have upper : q < pow2 (a - b + 1) := by
    rw [hq', div_lt_iff₀ hdpos]
    have h1 : pow2 (a - b + 1) * pow2 b = pow2 (a + 1) := by rw [← pow2_add]; congr 1; ring
    calc (q.num : ℚ) < pow2 (a + 1) := by rw [← hnq]; exact nb
      _ = pow2 (a - b + 1) * pow2 b := h1.symm
      _ ≤ pow2 (a - b + 1) * (q.den : ℚ) := by
            exact mul_le_mul_of_nonneg_left da (le_of_lt (pow2_pos _))
  unfold ilog2
  simp only
  show inBinade q (if pow2 (a - b) ≤ q then (if pow2 (a - b + 1) ≤ q then a - b + 1 else a - b) else a - b - 1)
  split_ifs with h1 h2
  · exfalso; linarith
  · exact ⟨h1, upper⟩
  · refine ⟨le_of_lt lower, ?_⟩
    have : a - b - 1 + 1 = a - b := by ring
    rw [this]; exact not_le.mp h1


/-- grid exponent used for rounding q -/
def gridExp (F : Fmt2) (q : Rat) : Int := max F.emin (ilog2 q - (F.prec : Int) + 1)
/-- rounded value, ignoring overflow -/
def rv (F : Fmt2) (q : Rat) : Rat := (rne (q / pow2 (gridExp F q)) : Rat) * pow2 (gridExp F q)

theorem roundPos_eq (F : Fmt2) (q : Rat) (hq : q ≠ 0) :
    roundPos F q = if rv F q ≥ pow2 (F.emax + 1) then none else some (rv F q) := by
  unfold roundPos rv gridExp; simp [hq]

theorem pow2_int_of_nonneg {n : Int} (h : 0 ≤ n) : ∃ m : Int, pow2 n = (m : ℚ) := by
  obtain ⟨k, rfl⟩ := Int.eq_ofNat_of_zero_le h
  exact ⟨(2 ^ k : Nat), by rw [pow2_natCast]; push_cast; rfl⟩

/-- a power of two on the grid of x that is ≥ x is ≥ the rounded x -/
theorem rv_le_pow2 (F : Fmt2) {x : Rat} {k : Int} (hk : gridExp F x ≤ k) (hx : x ≤ pow2 k) : rv F x ≤ pow2 k := by
  unfold rv
  set e := gridExp F x
  obtain ⟨m, hm⟩ := pow2_int_of_nonneg (show 0 ≤ k - e by omega)
  have hz : pow2 k / pow2 e = (m : ℚ) := by
    rw [← hm, div_eq_iff (ne_of_gt (pow2_pos e)), ← pow2_add]; congr 1; ring
  have h1 : x / pow2 e ≤ pow2 k / pow2 e := div_le_div_of_nonneg_right hx (le_of_lt (pow2_pos e))
  have h2 : rne (x / pow2 e) ≤ m := by
    have := rne_mono h1; rw [hz, rne_int] at this; exact this
  have h3 : (rne (x / pow2 e) : ℚ) ≤ m := by exact_mod_cast h2
  calc (rne (x / pow2 e) : ℚ) * pow2 e ≤ m * pow2 e := mul_le_mul_of_nonneg_right h3 (le_of_lt (pow2_pos e))
    _ = pow2 k := by rw [← hz]; exact div_mul_cancel₀ _ (ne_of_gt (pow2_pos e))

theorem pow2_le_rv (F : Fmt2) {y : Rat} {k : Int} (hk : gridExp F y ≤ k) (hy : pow2 k ≤ y) : pow2 k ≤ rv F y := by
  unfold rv
  set e := gridExp F y
  obtain ⟨m, hm⟩ := pow2_int_of_nonneg (show 0 ≤ k - e by omega)
  have hz : pow2 k / pow2 e = (m : ℚ) := by
    rw [← hm, div_eq_iff (ne_of_gt (pow2_pos e)), ← pow2_add]; congr 1; ring
  have h1 : pow2 k / pow2 e ≤ y / pow2 e := div_le_div_of_nonneg_right hy (le_of_lt (pow2_pos e))
  have h2 : m ≤ rne (y / pow2 e) := by
    have := rne_mono h1; rw [hz, rne_int] at this; exact this
  have h3 : (m : ℚ) ≤ rne (y / pow2 e) := by exact_mod_cast h2
  calc pow2 k = m * pow2 e := by rw [← hz]; exact (div_mul_cancel₀ _ (ne_of_gt (pow2_pos e))).symm
    _ ≤ (rne (y / pow2 e) : ℚ) * pow2 e := mul_le_mul_of_nonneg_right h3 (le_of_lt (pow2_pos e))

theorem gridExp_mono (F : Fmt2) {x y : Rat} (hx : 0 < x) (h : x ≤ y) : gridExp F x ≤ gridExp F y := by
  have := binade_mono (ilog2_spec x hx) (ilog2_spec y (lt_of_lt_of_le hx h)) h
  unfold gridExp; omega

/-- L1 on positive rationals: rounding is monotone -/
theorem rv_mono (F : Fmt2) (hp : 1 ≤ F.prec) {x y : Rat} (hx : 0 < x) (h : x ≤ y) : rv F x ≤ rv F y := by
  have hy : 0 < y := lt_of_lt_of_le hx h
  have hexy := gridExp_mono F hx h
  rcases Int.lt_or_eq_of_le hexy with hlt | heq
  · -- different grids: separate by the power of two at the bottom of y's binade
    have bx := ilog2_spec x hx; have by' := ilog2_spec y hy
    have hey : gridExp F y = ilog2 y - (F.prec : Int) + 1 := by
      unfold gridExp at hlt ⊢; omega
    have hlog : ilog2 x < ilog2 y := by unfold gridExp at hlt; omega
    have hk1 : gridExp F y ≤ ilog2 y := by rw [hey]; omega
    have hxz : x ≤ pow2 (ilog2 y) := le_trans (le_of_lt bx.2) (pow2_mono (by omega))
    exact le_trans (rv_le_pow2 F (by omega) hxz) (pow2_le_rv F hk1 by'.1)
  · unfold rv; rw [heq]
    have h1 : x / pow2 (gridExp F y) ≤ y / pow2 (gridExp F y) := div_le_div_of_nonneg_right h (le_of_lt (pow2_pos _))
    have h2 : (rne (x / pow2 (gridExp F y)) : ℚ) ≤ rne (y / pow2 (gridExp F y)) := by exact_mod_cast rne_mono h1
    exact mul_le_mul_of_nonneg_right h2 (le_of_lt (pow2_pos _))

/-- representable: on its own grid -/
def onGrid (F : Fmt2) (q : Rat) : Prop := ∃ m : Int, q = (m : ℚ) * pow2 (gridExp F q)

/-- L2: representable values are fixed by rounding -/
theorem rv_id (F : Fmt2) {q : Rat} (h : onGrid F q) : rv F q = q := by
  obtain ⟨m, hm⟩ := h
  unfold rv
  have : q / pow2 (gridExp F q) = (m : ℚ) := by
    rw [div_eq_iff (ne_of_gt (pow2_pos _))]; exact hm
  rw [this, rne_int]; exact hm.symm

/-- L3: scaling by a power of two commutes with rounding when neither grid is clamped at emin -/
theorem rv_scale (F : Fmt2) {x : Rat} (hx : 0 < x) (k : Int)
    (h1 : F.emin ≤ ilog2 x - (F.prec : Int) + 1) (h2 : F.emin ≤ ilog2 x + k - (F.prec : Int) + 1) :
    rv F (x * pow2 k) = rv F x * pow2 k := by
  have hxk : 0 < x * pow2 k := mul_pos hx (pow2_pos k)
  have hlog : ilog2 (x * pow2 k) = ilog2 x + k := by
    apply binade_unique (ilog2_spec _ hxk)
    obtain ⟨a, b⟩ := ilog2_spec x hx
    constructor
    · rw [pow2_add]; exact mul_le_mul_of_nonneg_right a (le_of_lt (pow2_pos k))
    · have : ilog2 x + k + 1 = (ilog2 x + 1) + k := by ring
      rw [this, pow2_add]; exact mul_lt_mul_of_pos_right b (pow2_pos k)
  have he : gridExp F (x * pow2 k) = gridExp F x + k := by unfold gridExp; rw [hlog]; omega
  unfold rv; rw [he, pow2_add]
  have : x * pow2 k / (pow2 (gridExp F x) * pow2 k) = x / pow2 (gridExp F x) := by
    field_simp [ne_of_gt (pow2_pos k), ne_of_gt (pow2_pos (gridExp F x))]
  rw [this]; ring

#print axioms rv_mono
#print axioms rv_scale
end Dasp
