import Dasp.Machine.FP
import Mathlib.Algebra.Order.Floor.Ring
import Mathlib.Data.Rat.Floor
import Mathlib.Tactic.Linarith
import Mathlib.Tactic.Ring
import Mathlib.Tactic.Positivity

namespace Dasp

theorem rat_floor_eq (x : Rat) : x.floor = ⌊x⌋ := rfl

theorem rne_cases (x : Rat) :
    (x - x.floor < 1/2 ∧ rne x = x.floor) ∨ (1/2 < x - x.floor ∧ rne x = x.floor + 1) ∨
    (x - x.floor = 1/2 ∧ x.floor % 2 = 0 ∧ rne x = x.floor) ∨ (x - x.floor = 1/2 ∧ x.floor % 2 = 1 ∧ rne x = x.floor + 1) := by
  unfold rne
  simp only
  split_ifs with a b c
  · exact Or.inl ⟨a, rfl⟩
  · exact Or.inr (Or.inl ⟨b, rfl⟩)
  · exact Or.inr (Or.inr (Or.inl ⟨le_antisymm (not_lt.mp b) (not_lt.mp a), c, rfl⟩))
  · exact Or.inr (Or.inr (Or.inr ⟨le_antisymm (not_lt.mp b) (not_lt.mp a), by omega, rfl⟩))

/-- characterisation of round-half-even without `if` -/
theorem rne_spec (x : Rat) :
    (x - 1/2 ≤ rne x ∧ (rne x : Rat) ≤ x + 1/2) ∧ (((rne x : Rat) = x - 1/2 ∨ (rne x : Rat) = x + 1/2) → rne x % 2 = 0) := by
  have h1 : (x.floor : Rat) ≤ x := Int.floor_le x
  have h2 : x < x.floor + 1 := Int.lt_floor_add_one x
  rcases rne_cases x with ⟨a, e⟩ | ⟨a, e⟩ | ⟨a, c, e⟩ | ⟨a, c, e⟩ <;> rw [e]
  · refine ⟨⟨by linarith, by linarith⟩, ?_⟩
    rintro (h | h) <;> (exfalso; linarith)
  · refine ⟨⟨by push_cast; linarith, by push_cast; linarith⟩, ?_⟩
    rintro (h | h) <;> (exfalso; push_cast at h; linarith)
  · exact ⟨⟨by linarith, by linarith⟩, fun _ => c⟩
  · exact ⟨⟨by push_cast; linarith, by push_cast; linarith⟩, fun _ => by omega⟩

theorem rne_mono {x y : Rat} (h : x ≤ y) : rne x ≤ rne y := by
  obtain ⟨⟨x1, x2⟩, xe⟩ := rne_spec x
  obtain ⟨⟨y1, y2⟩, ye⟩ := rne_spec y
  by_contra hlt
  have hlt' : rne y + 1 ≤ rne x := by omega
  have hq : (rne y : Rat) + 1 ≤ rne x := by exact_mod_cast hlt'
  -- x ≥ rne x - 1/2 ≥ rne y + 1/2 ≥ y ≥ x : all equalities
  have e1 : (rne x : Rat) = x + 1/2 := by linarith
  have e2 : (rne y : Rat) = y - 1/2 := by linarith
  have e3 : (rne x : Rat) = rne y + 1 := by linarith
  have p1 := xe (Or.inr e1)
  have p2 := ye (Or.inl e2)
  have e4 : rne x = rne y + 1 := by exact_mod_cast e3
  omega

theorem rne_int (n : Int) : rne (n : Rat) = n := by
  obtain ⟨⟨h1, h2⟩, _⟩ := rne_spec (n : Rat)
  have a : ((n:Rat)) - 1/2 ≤ rne n := h1
  have : (n : Rat) - 1 < rne (n:Rat) := by linarith
  have : (rne (n:Rat) : Rat) < n + 1 := by linarith
  have l : n - 1 < rne (n : Rat) := by exact_mod_cast ‹(n : Rat) - 1 < rne (n:Rat)›
  have u : rne (n : Rat) < n + 1 := by exact_mod_cast this
  omega

theorem rne_neg (x : Rat) : rne (-x) = - rne x := by
  -- uniqueness of the nearest-even integer
  obtain ⟨⟨a1, a2⟩, ae⟩ := rne_spec x
  obtain ⟨⟨b1, b2⟩, be⟩ := rne_spec (-x)
  by_contra hne
  rcases Int.lt_or_gt_of_ne hne with hlt | hgt
  · have : rne (-x) + 1 ≤ - rne x := by omega
    have hq : (rne (-x) : Rat) + 1 ≤ - (rne x : Rat) := by exact_mod_cast this
    have e1 : (rne (-x) : Rat) = -x - 1/2 := by linarith
    have e2 : (rne x : Rat) = x - 1/2 := by linarith
    have p1 := be (Or.inl e1); have p2 := ae (Or.inl e2)
    have e3 : (rne (-x) : Rat) + 1 = - (rne x : Rat) := by linarith
    have : rne (-x) + 1 = - rne x := by exact_mod_cast e3
    omega
  · have : - rne x + 1 ≤ rne (-x) := by omega
    have hq : - (rne x : Rat) + 1 ≤ (rne (-x) : Rat) := by exact_mod_cast this
    have e1 : (rne (-x) : Rat) = -x + 1/2 := by linarith
    have e2 : (rne x : Rat) = x + 1/2 := by linarith
    have p1 := be (Or.inr e1); have p2 := ae (Or.inr e2)
    have e3 : - (rne x : Rat) + 1 = (rne (-x) : Rat) := by linarith
    have : - rne x + 1 = rne (-x) := by exact_mod_cast e3
    omega

end Dasp
