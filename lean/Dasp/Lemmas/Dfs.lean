import Dasp.Model.Graph
/-!
# DFS post-order lemmas for `Dasp.Graph.run` (petgraph 0.5.1 `DfsPostOrder` as driven by `dasp_graph::process`)

Core Lean only.  `run_emits_reachable` = T1 (emitted set = nodes reachable from the root) ∧ T2 (each once);
`run_postorder` = T3 (post-order whenever nothing reachable from the root lies on a cycle).
Invariants: K0 "every neighbour of a discovered node is discovered or on the stack"; "discovered ∧
unfinished ⇒ on the stack, every neighbour finished or above its topmost occurrence"; "entries above a
discovered-unfinished node are reachable from it".  `bound` below is the length of the visit maps
(≥ the graph's node bound: `reset_map` never shrinks a map).
-/
namespace Dasp.Graph

theorem vis_mark (m : VMap) (i j : Nat) : vis (mark m i) j = true ↔ (vis m j = true ∨ (i = j ∧ i < m.length)) := by
  unfold mark vis
  by_cases hij : i = j
  · subst hij
    by_cases hl : i < m.length <;> simp [List.getD, hl]
  · simp [List.getD, List.getElem?_set_ne hij, hij]

theorem vis_mark_self (m : VMap) (i : Nat) (h : vis m i = false) : vis (mark m i) i = true := by
  have hl : i < m.length := by
    apply Classical.byContradiction; intro hc
    simp [vis, List.getD, List.getElem?_eq_none (Nat.le_of_not_lt hc)] at h
  exact (vis_mark m i i).mpr (Or.inr ⟨rfl, hl⟩)

theorem vis_mark_of_vis (m : VMap) (i j : Nat) (h : vis m j = true) : vis (mark m i) j = true :=
  (vis_mark m i j).mpr (Or.inl h)

theorem run_induct (g : G) (P : St → Prop) (hstep : ∀ s s', P s → step g s = some s' → P s') :
    ∀ s, P s → P (run g s) := by
  intro s
  fun_induction run g s with
  | case1 s h => intro hp; exact hp
  | case2 s s' h ih => intro hp; exact ih (hstep s s' hp h)

theorem run_stack_nil (g : G) (s : St) : (run g s).stack = [] := by
  fun_induction run g s with
  | case1 s h =>
    unfold step at h
    split at h
    · assumption
    · split at h <;> (try split at h) <;> simp at h
  | case2 s s' h ih => exact ih

theorem step_cases (g : G) (s s' : St) (h : step g s = some s') :
    ∃ nx rest, s.stack = nx :: rest ∧
      ((vis s.disc nx = true ∧ vis s.fin nx = true ∧ s' = { s with stack := rest }) ∨
       (vis s.disc nx = true ∧ vis s.fin nx = false ∧
          s' = { s with stack := rest, fin := mark s.fin nx, out := s.out ++ [nx] }) ∨
       (vis s.disc nx = false ∧
          s' = { s with stack := (pushList (g.adj nx) (mark s.disc nx)).reverse ++ s.stack, disc := mark s.disc nx })) := by
  unfold step at h
  split at h
  · simp at h
  · rename_i nx rest hs
    refine ⟨nx, rest, hs, ?_⟩
    by_cases hd : vis s.disc nx = true
    · by_cases hf : vis s.fin nx = true
      · simp [hd, hf] at h; exact Or.inl ⟨hd, hf, h.symm⟩
      · simp [hd, hf] at h; exact Or.inr (Or.inl ⟨hd, by simpa using hf, h.symm⟩)
    · simp [hd] at h; exact Or.inr (Or.inr ⟨by simpa using hd, h.symm⟩)

inductive ReachPlus (g : G) : Nat → Nat → Prop
  | edge {a b : Nat} : b ∈ g.adj a → ReachPlus g a b
  | trans {a b c : Nat} : ReachPlus g a b → c ∈ g.adj b → ReachPlus g a c

def Reach (g : G) (a b : Nat) : Prop := a = b ∨ ReachPlus g a b

theorem Reach.step {g : G} {a b c : Nat} (h : Reach g a b) (hc : c ∈ g.adj b) : Reach g a c := by
  rcases h with rfl | h
  · exact Or.inr (.edge hc)
  · exact Or.inr (.trans h hc)

theorem mem_pushList {adj : List Nat} {disc : VMap} {w : Nat} : w ∈ pushList adj disc ↔ w ∈ adj ∧ vis disc w = false := by
  simp [pushList, List.mem_filter]

/-- basic invariant: bookkeeping, closure (K0), reachability, emission log -/
structure Inv (g : G) (bound root : Nat) (s : St) : Prop where
  len_d : s.disc.length = bound
  len_f : s.fin.length = bound
  stk_lt : ∀ x ∈ s.stack, x < bound
  fin_disc : ∀ d, vis s.fin d = true → vis s.disc d = true
  on_stack : ∀ d, vis s.disc d = true → vis s.fin d = false → d ∈ s.stack
  k0 : ∀ d, d < bound → vis s.disc d = true → ∀ w ∈ g.adj d, vis s.disc w = true ∨ w ∈ s.stack
  root_seen : vis s.disc root = true ∨ root ∈ s.stack
  reach_stk : ∀ x ∈ s.stack, Reach g root x
  reach_disc : ∀ d, d < bound → vis s.disc d = true → Reach g root d
  out_fin : ∀ n, n ∈ s.out ↔ (n < bound ∧ vis s.fin n = true)
  nodup : s.out.Nodup

theorem vis_false_lt {m : VMap} {i : Nat} (h : vis m i = false) : i < m.length := by
  apply Classical.byContradiction; intro hc
  simp [vis, List.getD, List.getElem?_eq_none (Nat.le_of_not_lt hc)] at h

theorem vis_of_ge {m : VMap} {i : Nat} (h : m.length ≤ i) : vis m i = true := by
  simp [vis, List.getD, List.getElem?_eq_none h]

theorem inv_start (g : G) (bound root : Nat) (hr : root < bound) : Inv g bound root (start bound root) := by
  have hv : ∀ d, d < bound → vis (List.replicate bound false) d = false := by
    intro d hd; simp [vis, List.getD, hd]
  have hv' : ∀ d, vis (List.replicate bound false) d = true → bound ≤ d := by
    intro d h; apply Classical.byContradiction; intro hc
    have := hv d (Nat.lt_of_not_le hc); simp [this] at h
  refine ⟨by simp [start], by simp [start], ?_, ?_, ?_, ?_, ?_, ?_, ?_, ?_, by simp [start]⟩
  · intro x hx; simp [start] at hx; omega
  · intro d h; exact h
  · intro d h1 h2; simp only [start] at h1 h2; simp [h1] at h2
  · intro d hd h; simp only [start] at h; have := hv' d h; omega
  · right; simp [start]
  · intro x hx; simp [start] at hx; subst hx; exact Or.inl rfl
  · intro d hd h; simp only [start] at h; have := hv' d h; omega
  · intro n; simp only [start]; constructor
    · intro h; simp at h
    · rintro ⟨h1, h2⟩; have := hv' n h2; omega

theorem inv_step (g : G) (bound root : Nat) (hwf : ∀ n, ∀ m ∈ g.adj n, m < bound)
    (s s' : St) (hi : Inv g bound root s) (h : step g s = some s') : Inv g bound root s' := by
  obtain ⟨nx, rest, hs, ⟨hd, hf, rfl⟩ | ⟨hd, hf, rfl⟩ | ⟨hd, rfl⟩⟩ := step_cases g s s' h
  · -- pop, already finished
    have hmem : ∀ x, x ∈ s.stack ↔ x = nx ∨ x ∈ rest := by intro x; rw [hs]; simp
    refine ⟨hi.len_d, hi.len_f, ?_, hi.fin_disc, ?_, ?_, ?_, ?_, hi.reach_disc, hi.out_fin, hi.nodup⟩
    · intro x hx; exact hi.stk_lt x ((hmem x).mpr (Or.inr hx))
    · intro d h1 h2
      rcases (hmem d).mp (hi.on_stack d h1 h2) with rfl | h3
      · simp [hf] at h2
      · exact h3
    · intro d hdb h1 w hw
      rcases hi.k0 d hdb h1 w hw with h2 | h2
      · exact Or.inl h2
      · rcases (hmem w).mp h2 with rfl | h3
        · exact Or.inl hd
        · exact Or.inr h3
    · rcases hi.root_seen with h1 | h1
      · exact Or.inl h1
      · rcases (hmem root).mp h1 with rfl | h3
        · exact Or.inl hd
        · exact Or.inr h3
    · intro x hx; exact hi.reach_stk x ((hmem x).mpr (Or.inr hx))
  · -- pop and emit
    have hmem : ∀ x, x ∈ s.stack ↔ x = nx ∨ x ∈ rest := by intro x; rw [hs]; simp
    have hnx : nx < bound := hi.stk_lt nx ((hmem nx).mpr (Or.inl rfl))
    refine ⟨hi.len_d, by simp [mark, hi.len_f], ?_, ?_, ?_, ?_, ?_, ?_, hi.reach_disc, ?_, ?_⟩
    · intro x hx; exact hi.stk_lt x ((hmem x).mpr (Or.inr hx))
    · intro d h1
      rcases (vis_mark s.fin nx d).mp h1 with h2 | ⟨rfl, _⟩
      · exact hi.fin_disc d h2
      · exact hd
    · intro d h1 h2
      simp only at h1 h2
      have h2' : vis s.fin d = false := by
        cases hv : vis s.fin d with
        | false => rfl
        | true => rw [vis_mark_of_vis s.fin nx d hv] at h2; simp at h2
      rcases (hmem d).mp (hi.on_stack d h1 h2') with rfl | h3
      · rw [vis_mark_self s.fin d hf] at h2; simp at h2
      · exact h3
    · intro d hdb h1 w hw
      rcases hi.k0 d hdb h1 w hw with h2 | h2
      · exact Or.inl h2
      · rcases (hmem w).mp h2 with rfl | h3
        · exact Or.inl hd
        · exact Or.inr h3
    · rcases hi.root_seen with h1 | h1
      · exact Or.inl h1
      · rcases (hmem root).mp h1 with rfl | h3
        · exact Or.inl hd
        · exact Or.inr h3
    · intro x hx; exact hi.reach_stk x ((hmem x).mpr (Or.inr hx))
    · intro n
      simp only [List.mem_append, List.mem_singleton]
      constructor
      · rintro (h1 | rfl)
        · have := (hi.out_fin n).mp h1; exact ⟨this.1, vis_mark_of_vis _ _ _ this.2⟩
        · exact ⟨hnx, vis_mark_self s.fin n hf⟩
      · rintro ⟨h1, h2⟩
        rcases (vis_mark s.fin nx n).mp h2 with h3 | ⟨rfl, _⟩
        · exact Or.inl ((hi.out_fin n).mpr ⟨h1, h3⟩)
        · exact Or.inr rfl
    · apply List.nodup_append.mpr
      refine ⟨hi.nodup, by simp, ?_⟩
      intro a ha b hb hab
      simp at hb; subst hb; subst hab
      have := (hi.out_fin a).mp ha
      rw [hf] at this; simp at this
  · -- discover
    have hmem : ∀ x, x ∈ s.stack ↔ x = nx ∨ x ∈ rest := by intro x; rw [hs]; simp
    have hnx : nx < bound := hi.stk_lt nx ((hmem nx).mpr (Or.inl rfl))
    have hnew : ∀ x, x ∈ (pushList (g.adj nx) (mark s.disc nx)).reverse ++ s.stack ↔
        (x ∈ g.adj nx ∧ vis (mark s.disc nx) x = false) ∨ x ∈ s.stack := by
      intro x; simp [mem_pushList]
    refine ⟨by simp [mark, hi.len_d], hi.len_f, ?_, ?_, ?_, ?_, ?_, ?_, ?_, hi.out_fin, hi.nodup⟩
    · intro x hx
      rcases (hnew x).mp hx with ⟨h1, _⟩ | h1
      · exact hwf nx x h1
      · exact hi.stk_lt x h1
    · intro d h1; exact vis_mark_of_vis _ _ _ (hi.fin_disc d h1)
    · intro d h1 h2
      simp only at h1 h2 ⊢
      apply (hnew d).mpr; right
      rcases (vis_mark s.disc nx d).mp h1 with h3 | ⟨rfl, _⟩
      · exact hi.on_stack d h3 h2
      · exact (hmem nx).mpr (Or.inl rfl)
    · intro d hdb h1 w hw
      simp only at h1 ⊢
      cases hv : vis (mark s.disc nx) w with
      | true => exact Or.inl rfl
      | false =>
        right; apply (hnew w).mpr
        rcases (vis_mark s.disc nx d).mp h1 with h3 | ⟨rfl, _⟩
        · rcases hi.k0 d hdb h3 w hw with h4 | h4
          · rw [vis_mark_of_vis _ _ _ h4] at hv; simp at hv
          · exact Or.inr h4
        · exact Or.inl ⟨hw, hv⟩
    · rcases hi.root_seen with h1 | h1
      · exact Or.inl (vis_mark_of_vis _ _ _ h1)
      · exact Or.inr ((hnew root).mpr (Or.inr h1))
    · intro x hx
      rcases (hnew x).mp hx with ⟨h1, _⟩ | h1
      · exact (hi.reach_stk nx ((hmem nx).mpr (Or.inl rfl))).step h1
      · exact hi.reach_stk x h1
    · intro d hdb h1
      rcases (vis_mark s.disc nx d).mp h1 with h3 | ⟨rfl, _⟩
      · exact hi.reach_disc d hdb h3
      · exact hi.reach_stk nx ((hmem nx).mpr (Or.inl rfl))

/-- T1 + T2: from the start state the run emits exactly the nodes reachable from the root, each once -/
theorem run_emits_reachable (g : G) (bound root : Nat) (hr : root < bound)
    (hwf : ∀ n, ∀ m ∈ g.adj n, m < bound) :
    (∀ n, n ∈ (run g (start bound root)).out ↔ Reach g root n) ∧ (run g (start bound root)).out.Nodup := by
  have hinv : Inv g bound root (run g (start bound root)) :=
    run_induct g (Inv g bound root) (fun s s' hp hs => inv_step g bound root hwf s s' hp hs) _ (inv_start g bound root hr)
  have hnil := run_stack_nil g (start bound root)
  refine ⟨?_, hinv.nodup⟩
  intro n
  constructor
  · intro hn
    have := (hinv.out_fin n).mp hn
    exact hinv.reach_disc n this.1 (hinv.fin_disc n this.2)
  · intro hn
    -- every reachable node is discovered at the end (closure under adj with an empty stack)
    have hroot : vis (run g (start bound root)).disc root = true := by
      rcases hinv.root_seen with h | h
      · exact h
      · rw [hnil] at h; simp at h
    have hclosed : ∀ m, Reach g root m → (m < bound ∧ vis (run g (start bound root)).disc m = true) := by
      intro m hm
      rcases hm with rfl | hm
      · exact ⟨hr, hroot⟩
      · induction hm with
        | edge hb =>
          rename_i b
          refine ⟨hwf _ _ hb, ?_⟩
          rcases hinv.k0 root hr hroot b hb with h | h
          · exact h
          · rw [hnil] at h; simp at h
        | trans hab hc ih =>
          rename_i b c
          refine ⟨hwf _ _ hc, ?_⟩
          rcases hinv.k0 b ih.1 ih.2 c hc with h | h
          · exact h
          · rw [hnil] at h; simp at h
    obtain ⟨hlt, hdisc⟩ := hclosed n hn
    apply (hinv.out_fin n).mpr
    refine ⟨hlt, ?_⟩
    cases hf : vis (run g (start bound root)).fin n with
    | true => rfl
    | false =>
      have := hinv.on_stack n hdisc hf
      rw [hnil] at this; simp at this

/-! ### T3: post-order when the upstream subgraph is acyclic -/

/-- stack entries above the topmost occurrence of `d` -/
def above (d : Nat) (stack : List Nat) : List Nat := stack.takeWhile (fun x => x != d)

theorem above_cons_ne {d x : Nat} (rest : List Nat) (h : x ≠ d) : above d (x :: rest) = x :: above d rest := by
  have : (x != d) = true := by simp [h]
  simp [above, List.takeWhile, this]
theorem above_cons_self (d : Nat) (rest : List Nat) : above d (d :: rest) = [] := by
  simp [above, List.takeWhile]
theorem above_append {d : Nat} (l st : List Nat) (h : d ∉ l) : above d (l ++ st) = l ++ above d st := by
  induction l with
  | nil => rfl
  | cons x l ih =>
    have hx : x ≠ d := fun e => h (by simp [e])
    have hl : d ∉ l := fun e => h (by simp [e])
    rw [List.cons_append, above_cons_ne _ hx, ih hl]; rfl

def AcyclicFrom (g : G) (root : Nat) : Prop := ∀ v, Reach g root v → ¬ ReachPlus g v v

def Before (out : List Nat) (w v : Nat) : Prop := ∃ pre post, out = pre ++ v :: post ∧ w ∈ pre
/-- every emitted node comes after all of its neighbours (its inputs, for `process`) -/
def Ordered (g : G) (out : List Nat) : Prop := ∀ v ∈ out, ∀ w ∈ g.adj v, Before out w v

structure InvDag (g : G) (s : St) : Prop where
  kp : ∀ d, vis s.disc d = true → vis s.fin d = false → ∀ w ∈ g.adj d, vis s.fin w = true ∨ w ∈ above d s.stack
  r : ∀ d, vis s.disc d = true → vis s.fin d = false → ∀ x ∈ above d s.stack, ReachPlus g d x
  ord : Ordered g s.out

theorem invDag_start (g : G) (bound root : Nat) : InvDag g (start bound root) := by
  have hv' : ∀ d, vis (List.replicate bound false) d = true → bound ≤ d := by
    intro d h; apply Classical.byContradiction; intro hc
    have : vis (List.replicate bound false) d = false := by simp [vis, List.getD, Nat.lt_of_not_le hc]
    simp [this] at h
  refine ⟨?_, ?_, ?_⟩
  · intro d h1 h2; simp only [start] at h1 h2
    have := hv' d h1; rw [vis_of_ge (by simpa using this)] at h2; simp at h2
  · intro d h1 h2; simp only [start] at h1 h2
    have := hv' d h1; rw [vis_of_ge (by simpa using this)] at h2; simp at h2
  · intro v hv; simp [start] at hv

theorem invDag_step (g : G) (bound root : Nat) (hwf : ∀ n, ∀ m ∈ g.adj n, m < bound)
    (hac : AcyclicFrom g root) (s s' : St) (hi : Inv g bound root s) (hd' : InvDag g s)
    (h : step g s = some s') : InvDag g s' := by
  obtain ⟨nx, rest, hs, ⟨hd, hf, rfl⟩ | ⟨hd, hf, rfl⟩ | ⟨hd, rfl⟩⟩ := step_cases g s s' h
  · -- pop, already finished
    refine ⟨?_, ?_, hd'.ord⟩
    · intro d h1 h2 w hw
      have hne : nx ≠ d := by rintro rfl; rw [hf] at h2; simp at h2
      rcases hd'.kp d h1 h2 w hw with h3 | h3
      · exact Or.inl h3
      · rw [hs, above_cons_ne _ hne] at h3
        rcases List.mem_cons.mp h3 with rfl | h4
        · exact Or.inl hf
        · exact Or.inr h4
    · intro d h1 h2 x hx
      have hne : nx ≠ d := by rintro rfl; rw [hf] at h2; simp at h2
      apply hd'.r d h1 h2 x
      rw [hs, above_cons_ne _ hne]; exact List.mem_cons_of_mem _ hx
  · -- pop and emit nx
    have hfin' : ∀ d, vis (mark s.fin nx) d = false → vis s.fin d = false ∧ d ≠ nx := by
      intro d h2
      constructor
      · cases hv : vis s.fin d with
        | false => rfl
        | true => rw [vis_mark_of_vis s.fin nx d hv] at h2; simp at h2
      · rintro rfl; rw [vis_mark_self s.fin d hf] at h2; simp at h2
    refine ⟨?_, ?_, ?_⟩
    · intro d h1 h2 w hw
      simp only at h1 h2 ⊢
      obtain ⟨h2', hne⟩ := hfin' d h2
      rcases hd'.kp d h1 h2' w hw with h3 | h3
      · exact Or.inl (vis_mark_of_vis _ _ _ h3)
      · rw [hs, above_cons_ne _ (Ne.symm hne)] at h3
        rcases List.mem_cons.mp h3 with rfl | h4
        · exact Or.inl (vis_mark_self s.fin w hf)
        · exact Or.inr h4
    · intro d h1 h2 x hx
      simp only at h1 h2 hx
      obtain ⟨h2', hne⟩ := hfin' d h2
      apply hd'.r d h1 h2' x
      rw [hs, above_cons_ne _ (Ne.symm hne)]; exact List.mem_cons_of_mem _ hx
    · -- all neighbours of nx are already emitted
      have hall : ∀ w ∈ g.adj nx, w ∈ s.out := by
        intro w hw
        rcases hd'.kp nx hd hf w hw with h3 | h3
        · exact (hi.out_fin w).mpr ⟨hwf nx w hw, h3⟩
        · rw [hs, above_cons_self] at h3; simp at h3
      intro v hv w hw
      simp only [List.mem_append, List.mem_singleton] at hv
      rcases hv with hv | rfl
      · obtain ⟨pre, post, e, hp⟩ := hd'.ord v hv w hw
        exact ⟨pre, post ++ [nx], by simp [e], hp⟩
      · exact ⟨s.out, [], by simp, hall w hw⟩
  · -- discover nx
    have hnxstk : nx ∈ s.stack := by rw [hs]; simp
    have hP : ∀ x, x ∈ (pushList (g.adj nx) (mark s.disc nx)).reverse ↔ (x ∈ g.adj nx ∧ vis (mark s.disc nx) x = false) := by
      intro x; simp [mem_pushList]
    have hnotP : ∀ d, vis (mark s.disc nx) d = true → d ∉ (pushList (g.adj nx) (mark s.disc nx)).reverse := by
      intro d h1 h2; have := ((hP d).mp h2).2; rw [h1] at this; simp at this
    have hnxvis : vis (mark s.disc nx) nx = true := vis_mark_self s.disc nx hd
    refine ⟨?_, ?_, hd'.ord⟩
    · intro d h1 h2 w hw
      simp only at h1 h2 ⊢
      rw [above_append _ _ (hnotP d h1)]
      rcases (vis_mark s.disc nx d).mp h1 with h3 | ⟨rfl, _⟩
      · -- d discovered earlier
        rcases hd'.kp d h3 h2 w hw with h4 | h4
        · exact Or.inl h4
        · exact Or.inr (List.mem_append_right _ h4)
      · -- d = nx
        cases hv : vis (mark s.disc nx) w with
        | false => exact Or.inr (List.mem_append_left _ ((hP w).mpr ⟨hw, hv⟩))
        | true =>
          -- w was discovered before (or is nx itself): must be finished, else a cycle
          cases hfw : vis s.fin w with
          | true => exact Or.inl rfl
          | false =>
            exfalso
            have hreach_nx : Reach g root nx := hi.reach_stk nx hnxstk
            rcases (vis_mark s.disc nx w).mp hv with h5 | ⟨rfl, _⟩
            · -- w discovered, unfinished, so on the stack below nx; nx is above w
              have hwstk := hi.on_stack w h5 hfw
              have hne : nx ≠ w := by rintro rfl; rw [h5] at hd; simp at hd
              have hab : nx ∈ above w s.stack := by rw [hs, above_cons_ne _ hne]; simp
              have hwnx : ReachPlus g w nx := hd'.r w h5 hfw nx hab
              have hcyc : ReachPlus g w w := .trans hwnx hw
              have hrw : Reach g root w := hreach_nx.step hw
              exact hac w hrw hcyc
            · exact hac nx hreach_nx (.edge hw)
    · intro d h1 h2 x hx
      simp only at h1 h2 hx
      rw [above_append _ _ (hnotP d h1)] at hx
      rcases (vis_mark s.disc nx d).mp h1 with h3 | ⟨rfl, _⟩
      · have hne : nx ≠ d := by rintro rfl; rw [h3] at hd; simp at hd
        rcases List.mem_append.mp hx with h4 | h4
        · -- x freshly pushed by nx; d reaches nx, nx -> x
          have hab : nx ∈ above d s.stack := by rw [hs, above_cons_ne _ hne]; simp
          exact .trans (hd'.r d h3 h2 nx hab) ((hP x).mp h4).1
        · exact hd'.r d h3 h2 x h4
      · rcases List.mem_append.mp hx with h4 | h4
        · exact .edge ((hP x).mp h4).1
        · rw [hs, above_cons_self] at h4; simp at h4

/-- T3: if nothing reachable from the root lies on a cycle, every node is emitted after all its neighbours -/
theorem run_postorder (g : G) (bound root : Nat) (hr : root < bound)
    (hwf : ∀ n, ∀ m ∈ g.adj n, m < bound) (hac : AcyclicFrom g root) :
    Ordered g (run g (start bound root)).out := by
  have hboth : Inv g bound root (run g (start bound root)) ∧ InvDag g (run g (start bound root)) :=
    run_induct g (fun s => Inv g bound root s ∧ InvDag g s)
      (fun s s' hp hs => ⟨inv_step g bound root hwf s s' hp.1 hs, invDag_step g bound root hwf hac s s' hp.1 hp.2 hs⟩)
      _ ⟨inv_start g bound root hr, invDag_start g bound root⟩
  exact hboth.2.ord

end Dasp.Graph
