import Dasp.Model.Converter
import Mathlib.Algebra.Order.Floor.Ring
import Mathlib.Algebra.Order.Floor.Semiring
import Mathlib.Data.Rat.Floor
import Mathlib.Tactic.Linarith
import Mathlib.Tactic.Ring
import Mathlib.Tactic.Positivity
import Mathlib.Tactic.FieldSimp
/-!
# Rate converter in exact arithmetic (helper lemmas for C08)

`Tracks c P k`: the converter state `c` sits at source position `P` having pulled `k` frames beyond
the interpolator's priming: the source cursor is `p0 + k`, the interpolator has been fed exactly the
source frames `p0 … p0+k-1` in order (`feed … (pulled … p0 k)`), and the accumulator is `P − k ≥ 0`.
One output at ratio `r` from such a state pulls up to `⌊P⌋` frames, evaluates the interpolator at
`P − ⌊P⌋` and re-establishes `Tracks` at `P + r`. `count_bounds` is the round-0 prototype of the
exhaustion count (moved here from `Proto/Converter.lean`).
-/
namespace Dasp.Conv

variable {S I : Type}

/-- the interpolator state after `next_source_frame` has been called with `fs` in turn -/
def feed (ip : Interp Rat S I) (ist : I) (fs : List (List S)) : I := fs.foldl ip.push ist

/-- the `m` source frames at positions `start, start+1, …, start+m-1` (equilibrium past the end) -/
def pulled (eq : List S) (frames : List (List S)) (start : Nat) : Nat → List (List S)
  | 0 => []
  | m + 1 => srcAt eq frames start :: pulled eq frames (start + 1) m

theorem pulled_length (eq : List S) (frames : List (List S)) (start m : Nat) :
    (pulled eq frames start m).length = m := by
  induction m generalizing start with
  | zero => rfl
  | succ m ih => simp [pulled, ih]

/-- in order, each position once -/
theorem pulled_getElem (eq : List S) (frames : List (List S)) (start m j : Nat) (h : j < m) :
    (pulled eq frames start m)[j]'(by rw [pulled_length]; exact h) = srcAt eq frames (start + j) := by
  induction m generalizing start j with
  | zero => omega
  | succ m ih =>
    cases j with
    | zero => simp [pulled]
    | succ j =>
      simp only [pulled, List.getElem_cons_succ]
      rw [ih (start + 1) j (by omega)]; congr 1; omega

theorem pulled_add (eq : List S) (frames : List (List S)) (start a b : Nat) :
    pulled eq frames start (a + b) = pulled eq frames start a ++ pulled eq frames (start + a) b := by
  induction a generalizing start with
  | zero => simp [pulled]
  | succ a ih =>
    have : a + 1 + b = (a + b) + 1 := by omega
    rw [this]; simp only [pulled, List.cons_append]; rw [ih]; congr 3; omega

theorem feed_append (ip : Interp Rat S I) (ist : I) (a b : List (List S)) :
    feed ip ist (a ++ b) = feed ip (feed ip ist a) b := by
  simp [feed, List.foldl_append]

section
variable (sn cs : Rat → Rat) (pi : Rat)

local notation "AR" => ratArith sn cs pi

@[simp] theorem rat_ge (a b : Rat) : (AR).ge a b = decide (b ≤ a) := rfl
@[simp] theorem rat_gt (a b : Rat) : (AR).gt a b = decide (b < a) := rfl
@[simp] theorem rat_one : (AR).one = 1 := rfl
@[simp] theorem rat_zero : (AR).zero = 0 := rfl
@[simp] theorem rat_add (a b : Rat) : (AR).add a b = a + b := rfl
@[simp] theorem rat_sub (a b : Rat) : (AR).sub a b = a - b := rfl
@[simp] theorem rat_mul (a b : Rat) : (AR).mul a b = a * b := rfl
@[simp] theorem rat_div (a b : Rat) : (AR).div a b = a / b := rfl
@[simp] theorem rat_fuel (a : Rat) : (AR).fuel a = ⌊a⌋.toNat := rfl

/-- the loop of `Converter::next` in exact arithmetic: from accumulator `iv ≥ 0` it runs exactly
    `⌊iv⌋` times (any fuel ≥ ⌊iv⌋ suffices), pulling that many consecutive source frames into the
    interpolator, and leaves `iv − ⌊iv⌋` -/
theorem advance_spec (ip : Interp Rat S I) (eq : List S) (k : Nat) (c : St Rat S I)
    (h0 : 0 ≤ c.iv) (hk : ⌊c.iv⌋.toNat ≤ k) :
    advance AR ip eq k c =
      { src := { c.src with pos := c.src.pos + ⌊c.iv⌋.toNat },
        ist := feed ip c.ist (pulled eq c.src.frames c.src.pos ⌊c.iv⌋.toNat),
        iv := c.iv - (⌊c.iv⌋.toNat : Rat),
        ratio := c.ratio } := by
  induction k generalizing c with
  | zero =>
    have hm : ⌊c.iv⌋.toNat = 0 := by omega
    rw [hm]; simp [advance, feed, pulled]
  | succ k ih =>
    by_cases h1 : (1 : Rat) ≤ c.iv
    · have hfl : ⌊c.iv - 1⌋ = ⌊c.iv⌋ - 1 := Int.floor_sub_one _
      have hpos : 1 ≤ ⌊c.iv⌋ := Int.le_floor.mpr (by exact_mod_cast h1)
      have hm : ⌊c.iv⌋.toNat = ⌊c.iv - 1⌋.toNat + 1 := by rw [hfl]; omega
      rw [advance]
      simp only [rat_ge, rat_one, h1, decide_true, if_true, rat_sub]
      rw [ih _ (by simp; linarith) (by simp only; omega)]
      simp only [Src.next]
      rw [hm]
      congr 1
      · congr 1; omega
      · push_cast; ring
    · have hlt : c.iv < 1 := not_le.mp h1
      have hm : ⌊c.iv⌋.toNat = 0 := by
        have : ⌊c.iv⌋ < 1 := Int.floor_lt.mpr (by exact_mod_cast hlt)
        omega
      rw [advance]
      simp only [rat_ge, rat_one, h1, decide_false, hm]
      simp [feed, pulled]


/-- `c` sits at exact source position `P`, having pulled `k` frames beyond the priming: cursor at
    `p0 + k`, interpolator fed exactly frames `p0 … p0+k-1` in order, accumulator `P − k ≥ 0` -/
structure Tracks (ip : Interp Rat S I) (eq : List S) (frames : List (List S)) (p0 : Nat) (ist0 : I)
    (c : St Rat S I) (P : Rat) (k : Nat) : Prop where
  frames_eq : c.src.frames = frames
  pos_eq : c.src.pos = p0 + k
  ist_eq : c.ist = feed ip ist0 (pulled eq frames p0 k)
  iv_eq : c.iv = P - (k : Rat)
  le : (k : Rat) ≤ P

theorem Tracks.init (ip : Interp Rat S I) (eq : List S) (frames : List (List S)) (p0 : Nat) (ist0 : I)
    (ratio : Rat) : Tracks ip eq frames p0 ist0 ⟨⟨frames, p0⟩, ist0, 0, ratio⟩ 0 0 :=
  ⟨rfl, rfl, rfl, by simp, by simp⟩

theorem Tracks.setRatio {ip : Interp Rat S I} {eq : List S} {frames : List (List S)} {p0 : Nat} {ist0 : I}
    {c : St Rat S I} {P : Rat} {k : Nat} (h : Tracks ip eq frames p0 ist0 c P k) (r : Rat) :
    Tracks ip eq frames p0 ist0 (setPlaybackHzScale c r) P k :=
  ⟨h.frames_eq, h.pos_eq, h.ist_eq, h.iv_eq, h.le⟩

theorem floor_sub_natCast_toNat (P : Rat) (k : Nat) (h : (k : Rat) ≤ P) :
    k + ⌊P - (k : Rat)⌋.toNat = ⌊P⌋.toNat := by
  have h1 : ⌊P - (k : Rat)⌋ = ⌊P⌋ - (k : Int) := by
    have := Int.floor_sub_intCast P (k : Int)
    rw [← this]; simp
  have h2 : (k : Int) ≤ ⌊P⌋ := Int.le_floor.mpr (by exact_mod_cast h)
  rw [h1]; omega

theorem floor_toNat_cast (P : Rat) (h : 0 ≤ P) : ((⌊P⌋.toNat : Nat) : Rat) = (⌊P⌋ : Rat) := by
  have : 0 ≤ ⌊P⌋ := Int.floor_nonneg.mpr h
  have h2 : ((⌊P⌋.toNat : Nat) : Int) = ⌊P⌋ := Int.toNat_of_nonneg this
  exact_mod_cast congrArg (fun z : Int => (z : Rat)) h2

/-- ONE OUTPUT from a tracked state, at the converter's current ratio `c.ratio ≥ 0`:
    * `is_exhausted()` before it is `source exhausted ∧ 1 ≤ P − k`;
    * the frame is the interpolator, fed exactly the frames `p0 … p0+⌊P⌋-1`, evaluated at `P − ⌊P⌋`;
    * afterwards the source has been pulled `p0 + ⌊P⌋` times; the loop did not run out of fuel;
    * the new state tracks position `P + ratio` with `⌊P⌋` pulls. -/
theorem stepObs_spec (ip : Interp Rat S I) (eq : List S) (frames : List (List S)) (p0 : Nat) (ist0 : I)
    (c : St Rat S I) (P : Rat) (k : Nat) (h : Tracks ip eq frames p0 ist0 c P k) (hr : 0 ≤ c.ratio) :
    (stepObs AR ip eq c).1 =
        ⟨decide (frames.length ≤ p0 + k) && decide (1 ≤ P - (k : Rat)),
         ip.eval (feed ip ist0 (pulled eq frames p0 ⌊P⌋.toNat)) (P - (⌊P⌋ : Rat)),
         p0 + ⌊P⌋.toNat, false⟩ ∧
      Tracks ip eq frames p0 ist0 (stepObs AR ip eq c).2 (P + c.ratio) ⌊P⌋.toNat ∧
      (stepObs AR ip eq c).2.ratio = c.ratio := by
  have hiv0 : 0 ≤ c.iv := by rw [h.iv_eq]; linarith [h.le]
  have hP0 : 0 ≤ P := le_trans (by positivity) h.le
  have hadv := advance_spec sn cs pi ip eq (⌊c.iv⌋.toNat) c hiv0 (le_refl _)
  have hkm : k + ⌊c.iv⌋.toNat = ⌊P⌋.toNat := by rw [h.iv_eq]; exact floor_sub_natCast_toNat P k h.le
  have hcast := floor_toNat_cast P hP0
  have hivcast : ((⌊c.iv⌋.toNat : Nat) : Rat) = (⌊P⌋ : Rat) - (k : Rat) := by
    have : ((k + ⌊c.iv⌋.toNat : Nat) : Rat) = (⌊P⌋ : Rat) := by rw [hkm]; exact hcast
    push_cast at this; linarith
  have hfeed : feed ip c.ist (pulled eq c.src.frames c.src.pos ⌊c.iv⌋.toNat)
      = feed ip ist0 (pulled eq frames p0 ⌊P⌋.toNat) := by
    rw [h.ist_eq, h.frames_eq, h.pos_eq, ← feed_append, ← pulled_add, hkm]
  have hfrac : c.iv - ((⌊c.iv⌋.toNat : Nat) : Rat) = P - (⌊P⌋ : Rat) := by
    rw [hivcast, h.iv_eq]; ring
  have hlt : P - (⌊P⌋ : Rat) < 1 := by linarith [Int.lt_floor_add_one P]
  have hstep : stepObs AR ip eq c =
      (⟨isExhausted AR c, ip.eval (feed ip ist0 (pulled eq frames p0 ⌊P⌋.toNat)) (P - (⌊P⌋ : Rat)),
        c.src.pos + ⌊c.iv⌋.toNat, decide (1 ≤ P - (⌊P⌋ : Rat))⟩,
       { src := { c.src with pos := c.src.pos + ⌊c.iv⌋.toNat },
         ist := feed ip ist0 (pulled eq frames p0 ⌊P⌋.toNat),
         iv := P - (⌊P⌋ : Rat) + c.ratio, ratio := c.ratio }) := by
    simp only [stepObs, next, rat_fuel, hadv, rat_ge, rat_one, rat_add, hfeed, hfrac]
  rw [hstep]
  refine ⟨?_, ?_, rfl⟩
  · simp only [isExhausted, Src.exhausted, rat_ge, rat_one, h.frames_eq, h.pos_eq, h.iv_eq]
    congr 1
    · have := floor_sub_natCast_toNat P k h.le; omega
    · simp only [decide_eq_false_iff_not, not_le]; exact hlt
  · refine ⟨h.frames_eq, ?_, rfl, ?_, ?_⟩
    · simp only [h.pos_eq]; omega
    · simp only; rw [hcast]; ring
    · rw [hcast]; linarith [Int.floor_le P]

/-- what is observed around the output produced at exact position `P` after `k` earlier pulls -/
def obsAt (ip : Interp Rat S I) (eq : List S) (frames : List (List S)) (p0 : Nat) (ist0 : I)
    (P : Rat) (k : Nat) : Obs S :=
  ⟨decide (frames.length ≤ p0 + k) && decide (1 ≤ P - (k : Rat)),
   ip.eval (feed ip ist0 (pulled eq frames p0 ⌊P⌋.toNat)) (P - (⌊P⌋ : Rat)),
   p0 + ⌊P⌋.toNat, false⟩

/-- the specification of a whole run, position by position -/
def specRun (ip : Interp Rat S I) (eq : List S) (frames : List (List S)) (p0 : Nat) (ist0 : I) :
    Rat → Nat → List Rat → List (Obs S)
  | _, _, [] => []
  | P, k, r :: rs => obsAt ip eq frames p0 ist0 P k :: specRun ip eq frames p0 ist0 (P + r) ⌊P⌋.toNat rs

/-- REFINEMENT: from a tracked state, for every list of ratios `≥ 0` (ratio `rs[j]` set just before
    output `j`), the observations of the model are those of the specification -/
theorem run_spec (ip : Interp Rat S I) (eq : List S) (frames : List (List S)) (p0 : Nat) (ist0 : I)
    (rs : List Rat) (hrs : ∀ r ∈ rs, 0 ≤ r) (c : St Rat S I) (P : Rat) (k : Nat)
    (h : Tracks ip eq frames p0 ist0 c P k) :
    (run AR ip eq rs c).1 = specRun ip eq frames p0 ist0 P k rs := by
  induction rs generalizing c P k with
  | nil => rfl
  | cons r rs ih =>
    have hr : 0 ≤ r := hrs r (by simp)
    obtain ⟨h1, h2, _⟩ := stepObs_spec sn cs pi ip eq frames p0 ist0 (setPlaybackHzScale c r) P k (h.setRatio r) hr
    simp only [run, specRun]
    rw [h1, ih (fun x hx => hrs x (by simp [hx])) _ _ _ h2]
    rfl

/-- `P_n = r_0 + … + r_(n-1)` -/
def posAt (rs : List Rat) (n : Nat) : Rat := (rs.take n).sum

theorem posAt_nonneg (rs : List Rat) (hrs : ∀ r ∈ rs, 0 ≤ r) (n : Nat) : 0 ≤ posAt rs n :=
  List.sum_nonneg fun x hx => hrs x (List.mem_of_mem_take hx)

/-- the state the run leaves behind still tracks the position: after outputs at ratios `rs` the source has
    been pulled `⌊P + r_0 + … + r_(m-2)⌋` times (the pulls are made by the *next* output, not in advance),
    and the frames are untouched — this is what `into_source()` hands back -/
theorem run_final (ip : Interp Rat S I) (eq : List S) (frames : List (List S)) (p0 : Nat) (ist0 : I)
    (rs : List Rat) (hrs : ∀ r ∈ rs, 0 ≤ r) (c : St Rat S I) (P : Rat) (k : Nat)
    (h : Tracks ip eq frames p0 ist0 c P k) :
    Tracks ip eq frames p0 ist0 (run AR ip eq rs c).2 (P + rs.sum)
      (if rs = [] then k else ⌊P + posAt rs (rs.length - 1)⌋.toNat) := by
  induction rs generalizing c P k with
  | nil => simpa [run] using h
  | cons r rs ih =>
    have hr : 0 ≤ r := hrs r (by simp)
    obtain ⟨_, h2, _⟩ := stepObs_spec sn cs pi ip eq frames p0 ist0 (setPlaybackHzScale c r) P k (h.setRatio r) hr
    have h3 := ih (fun x hx => hrs x (by simp [hx])) _ _ _ h2
    simp only [run, List.sum_cons, reduceCtorEq, if_false, List.length_cons, Nat.add_sub_cancel]
    have e : (setPlaybackHzScale c r).ratio = r := rfl
    rw [e] at h3
    have e2 : P + (r + rs.sum) = P + r + rs.sum := by ring
    rw [e2]
    by_cases hn : rs = []
    · subst hn
      simpa [posAt] using h3
    · rw [if_neg hn] at h3
      have hl : rs.length = (rs.length - 1) + 1 := by
        cases rs with
        | nil => exact absurd rfl hn
        | cons _ _ => simp
      have e3 : posAt (r :: rs) rs.length = r + posAt rs (rs.length - 1) := by
        rw [posAt, hl, List.take_succ_cons, List.sum_cons]; rfl
      rw [e3, ← add_assoc]
      exact h3

theorem specRun_getElem? (ip : Interp Rat S I) (eq : List S) (frames : List (List S)) (p0 : Nat) (ist0 : I)
    (rs : List Rat) (P : Rat) (k n : Nat) (hn : n < rs.length) :
    (specRun ip eq frames p0 ist0 P k rs)[n]? =
      some (obsAt ip eq frames p0 ist0 (P + posAt rs n)
        (if n = 0 then k else ⌊P + posAt rs (n - 1)⌋.toNat)) := by
  induction rs generalizing P k n with
  | nil => simp at hn
  | cons r rs ih =>
    cases n with
    | zero => simp [specRun, posAt]
    | succ n =>
      simp only [specRun, List.getElem?_cons_succ]
      rw [ih (P + r) ⌊P⌋.toNat n (by simpa using hn)]
      have e1 : P + r + posAt rs n = P + posAt (r :: rs) (n + 1) := by
        simp [posAt, List.take_succ_cons]; ring
      rw [e1]
      congr 2
      cases n with
      | zero => simp [posAt]
      | succ m =>
        simp only [Nat.add_one_ne_zero, if_false, Nat.add_sub_cancel]
        have : P + r + posAt rs m = P + posAt (r :: rs) (m + 1) := by
          simp [posAt, List.take_succ_cons]; ring
        rw [this]

theorem run_length (A : Arith Rat) (ip : Interp Rat S I) (eq : List S) (rs : List Rat) (c : St Rat S I) :
    (run A ip eq rs c).1.length = rs.length := by
  induction rs generalizing c with
  | nil => rfl
  | cons r rs ih => simp [run, ih]

/-! ### constant ratio: `iter`, exhaustion, `until_exhausted` -/

theorem iter_tracks (ip : Interp Rat S I) (eq : List S) (frames : List (List S)) (p0 : Nat) (ist0 : I)
    (r : Rat) (hr : 0 ≤ r) (n : Nat) (c : St Rat S I) (P : Rat) (k : Nat)
    (h : Tracks ip eq frames p0 ist0 c P k) (hc : c.ratio = r) :
    Tracks ip eq frames p0 ist0 (iter AR ip eq n c) (P + (n : Rat) * r)
      (if n = 0 then k else ⌊P + ((n : Rat) - 1) * r⌋.toNat) := by
  induction n generalizing c P k with
  | zero => simpa [iter] using h
  | succ n ih =>
    obtain ⟨_, h2, h3⟩ := stepObs_spec sn cs pi ip eq frames p0 ist0 c P k h (by rw [hc]; exact hr)
    have hnext : (next AR ip eq c).2 = (stepObs AR ip eq c).2 := rfl
    simp only [iter]
    rw [hnext]
    have := ih (stepObs AR ip eq c).2 (P + c.ratio) ⌊P⌋.toNat h2 (by rw [h3, hc])
    rw [hc] at this
    have e1 : P + r + (n : Rat) * r = P + ((n + 1 : Nat) : Rat) * r := by push_cast; ring
    rw [e1] at this
    simp only [Nat.add_one_ne_zero, if_false]
    cases n with
    | zero => simpa using this
    | succ m =>
      simp only [Nat.add_one_ne_zero, if_false] at this
      have e2 : P + r + (((m + 1 : Nat) : Rat) - 1) * r = P + (((m + 1 + 1 : Nat) : Rat) - 1) * r := by
        push_cast; ring
      rw [e2] at this
      exact this

/-- `is_exhausted()` evaluated just before output number m (m outputs already produced), constant ratio r,
    source holding R frames after priming: source exhausted (R frames pulled) and accumulator ≥ 1. -/
def Exh (r : ℚ) (R : ℕ) (m : ℕ) : Prop :=
  1 ≤ m ∧ (R : ℤ) ≤ ⌊((m : ℚ) - 1) * r⌋ ∧ ⌊((m : ℚ) - 1) * r⌋ < ⌊(m : ℚ) * r⌋

/-- the model's `is_exhausted` after `n` outputs at constant ratio `r ≥ 0` from a freshly constructed
    converter is the arithmetic condition `Exh` with `R = frames.length − p0` -/
theorem isExhausted_iter_iff (ip : Interp Rat S I) (eq : List S) (frames : List (List S)) (p0 : Nat) (ist0 : I)
    (r : Rat) (hr : 0 ≤ r) (n : Nat) :
    isExhausted AR (iter AR ip eq n ⟨⟨frames, p0⟩, ist0, 0, r⟩) = true ↔ Exh r (frames.length - p0) n := by
  have ht := iter_tracks sn cs pi ip eq frames p0 ist0 r hr n _ 0 0 (Tracks.init ip eq frames p0 ist0 r) rfl
  simp only [isExhausted, Src.exhausted, rat_ge, rat_one, ht.frames_eq, ht.pos_eq, ht.iv_eq, Exh,
    Bool.and_eq_true, decide_eq_true_eq]
  cases n with
  | zero => simp
  | succ m =>
    simp only [Nat.add_one_ne_zero, if_false, zero_add]
    have hcast : (((m + 1 : Nat) : Rat) - 1) = (m : Rat) := by push_cast; ring
    rw [hcast]
    have hmr : 0 ≤ (m : Rat) * r := by positivity
    have hfl0 : 0 ≤ ⌊(m : Rat) * r⌋ := Int.floor_nonneg.mpr hmr
    have hc2 := floor_toNat_cast ((m : Rat) * r) hmr
    constructor
    · rintro ⟨h1, h2⟩
      refine ⟨by omega, by omega, ?_⟩
      rw [hc2] at h2
      push_cast at h2
      have : ((⌊(m : Rat) * r⌋ + 1 : Int) : Rat) ≤ ((m + 1 : Nat) : Rat) * r := by push_cast; linarith
      have := Int.le_floor.mpr this
      omega
    · rintro ⟨_, h2, h3⟩
      refine ⟨by omega, ?_⟩
      rw [hc2]
      have : ⌊(m : Rat) * r⌋ + 1 ≤ ⌊((m + 1 : Nat) : Rat) * r⌋ := by omega
      have := Int.le_floor.mp this
      push_cast at this ⊢; linarith

end

/-- `until_exhausted().count()` is the first `m` at which `is_exhausted()` holds (any arithmetic) -/
theorem countUntil_eq {F : Type} (A : Arith F) (ip : Interp F S I) (eq : List S) (fuel : Nat) (m : Nat)
    (c : St F S I) (hm : m ≤ fuel) (hlt : ∀ j, j < m → isExhausted A (iter A ip eq j c) = false)
    (hex : isExhausted A (iter A ip eq m c) = true) : countUntil A ip eq fuel c = m := by
  induction fuel generalizing m c with
  | zero =>
    have : m = 0 := by omega
    subst this; rfl
  | succ fuel ih =>
    cases m with
    | zero => simp only [iter] at hex; simp [countUntil, hex]
    | succ m =>
      have h0 : isExhausted A c = false := hlt 0 (by omega)
      simp only [countUntil, h0]
      rw [ih m (next A ip eq c).2 (by omega) (fun j hj => hlt (j + 1) (by omega)) hex]
      simp; omega

/-- number of outputs `until_exhausted` yields = least m with Exh; it is ⌈(R+1)/r⌉ or one more -/
theorem count_bounds (r : ℚ) (hr : 0 < r) (R : ℕ) :
    let c := ⌈((R : ℚ) + 1) / r⌉₊
    (∀ m, m < c → ¬ Exh r R m) ∧ (Exh r R c ∨ Exh r R (c + 1)) := by
  intro c
  have hc1 : ((R : ℚ) + 1) / r ≤ c := Nat.le_ceil _
  have hc1' : (R : ℚ) + 1 ≤ c * r := by rwa [div_le_iff₀ hr] at hc1
  have hcpos : 1 ≤ c := by
    apply Nat.one_le_iff_ne_zero.mpr; intro h0
    rw [h0] at hc1'; simp at hc1'; have : (0:ℚ) ≤ R := Nat.cast_nonneg R; linarith
  have hc2 : ((c : ℚ) - 1) * r < R + 1 := by
    have : ((c - 1 : ℕ) : ℚ) < ((R : ℚ) + 1) / r := by
      have := Nat.ceil_lt_add_one (show (0:ℚ) ≤ ((R : ℚ) + 1) / r by positivity)
      have h1 : ((c - 1 : ℕ) : ℚ) = (c : ℚ) - 1 := by rw [Nat.cast_sub hcpos]; simp
      rw [h1]; linarith
    rw [lt_div_iff₀ hr] at this
    have h1 : ((c - 1 : ℕ) : ℚ) = (c : ℚ) - 1 := by rw [Nat.cast_sub hcpos]; simp
    rwa [h1] at this
  constructor
  · -- no earlier m can be exhausted: ⌊m r⌋ ≤ R for m < c
    intro m hm ⟨h1, h2, h3⟩
    have hmr : (m : ℚ) * r < R + 1 := by
      have : (m : ℚ) ≤ (c : ℚ) - 1 := by
        have : m + 1 ≤ c := hm
        have : ((m + 1 : ℕ) : ℚ) ≤ c := by exact_mod_cast this
        push_cast at this; linarith
      calc (m : ℚ) * r ≤ ((c : ℚ) - 1) * r := mul_le_mul_of_nonneg_right this (le_of_lt hr)
        _ < R + 1 := hc2
    have : ⌊(m : ℚ) * r⌋ < (R : ℤ) + 1 := by
      apply Int.floor_lt.mpr; push_cast; exact hmr
    omega
  · -- at c the source position has reached R+1
    have hfc : (R : ℤ) + 1 ≤ ⌊(c : ℚ) * r⌋ := by
      apply Int.le_floor.mpr; push_cast; exact hc1'
    have hfc1 : ⌊((c : ℚ) - 1) * r⌋ < (R : ℤ) + 1 := by
      apply Int.floor_lt.mpr; push_cast; exact hc2
    by_cases hge : (R : ℤ) ≤ ⌊((c : ℚ) - 1) * r⌋
    · left; exact ⟨hcpos, hge, by omega⟩
    · right
      refine ⟨by omega, ?_, ?_⟩
      · have : (((c + 1 : ℕ) : ℚ) - 1) = (c : ℚ) := by push_cast; ring
        rw [this]; omega
      · have e1 : (((c + 1 : ℕ) : ℚ) - 1) = (c : ℚ) := by push_cast; ring
        rw [e1]
        -- the last step jumped by at least 2, so r > 1 and the next step advances too
        have hjump : ⌊((c : ℚ) - 1) * r⌋ + 2 ≤ ⌊(c : ℚ) * r⌋ := by omega
        have hr1 : 1 ≤ r := by
          apply Classical.byContradiction; intro hlt
          have hlt' : r < 1 := not_le.mp hlt
          have : (c : ℚ) * r = ((c : ℚ) - 1) * r + r := by ring
          have h1 : ⌊(c : ℚ) * r⌋ ≤ ⌊((c : ℚ) - 1) * r + 1⌋ := by
            apply Int.floor_le_floor; rw [this]; linarith
          rw [Int.floor_add_one] at h1; omega
        have : ⌊(c : ℚ) * r + 1⌋ ≤ ⌊((c + 1 : ℕ) : ℚ) * r⌋ := by
          apply Int.floor_le_floor; push_cast; nlinarith
        rw [Int.floor_add_one] at this; omega

/-- for `r ≤ 1` the first alternative of `count_bounds` always holds: exhaustion is reported exactly
    before output number `⌈(R+1)/r⌉` -/
theorem exh_at_ceil_of_le_one (r : ℚ) (hr : 0 < r) (hr1 : r ≤ 1) (R : ℕ) : Exh r R ⌈((R : ℚ) + 1) / r⌉₊ := by
  have hc1 : ((R : ℚ) + 1) / r ≤ (⌈((R : ℚ) + 1) / r⌉₊ : ℚ) := Nat.le_ceil _
  have hc1' : (R : ℚ) + 1 ≤ (⌈((R : ℚ) + 1) / r⌉₊ : ℚ) * r := by rwa [div_le_iff₀ hr] at hc1
  have hR : (0 : ℚ) ≤ R := Nat.cast_nonneg R
  have hcpos : 1 ≤ ⌈((R : ℚ) + 1) / r⌉₊ := by
    apply Nat.one_le_iff_ne_zero.mpr; intro h0
    rw [h0] at hc1'; simp at hc1'; linarith
  have hlt : (⌈((R : ℚ) + 1) / r⌉₊ : ℚ) < ((R : ℚ) + 1) / r + 1 :=
    Nat.ceil_lt_add_one (show (0:ℚ) ≤ ((R : ℚ) + 1) / r by positivity)
  have hc2 : ((⌈((R : ℚ) + 1) / r⌉₊ : ℚ) - 1) * r < R + 1 := by
    have : (⌈((R : ℚ) + 1) / r⌉₊ : ℚ) - 1 < ((R : ℚ) + 1) / r := by linarith
    rwa [lt_div_iff₀ hr] at this
  refine ⟨hcpos, ?_, ?_⟩
  · apply Int.le_floor.mpr; push_cast; nlinarith
  · have h1 : ⌊((⌈((R : ℚ) + 1) / r⌉₊ : ℚ) - 1) * r⌋ < (R : ℤ) + 1 := by
      apply Int.floor_lt.mpr; push_cast; exact hc2
    have h2 : (R : ℤ) + 1 ≤ ⌊(⌈((R : ℚ) + 1) / r⌉₊ : ℚ) * r⌋ := by
      apply Int.le_floor.mpr; push_cast; exact hc1'
    omega

/-! ### the two interpolators -/

/-- `Floor` primed with source frame `q` and then fed frames `q+1 … q+m` holds frame `q+m` -/
theorem feed_floor (eq : List S) (frames : List (List S)) (q m : Nat) :
    feed (floorInterp Rat S) (srcAt eq frames q) (pulled eq frames (q + 1) m) = srcAt eq frames (q + m) := by
  induction m generalizing q with
  | zero => rfl
  | succ m ih =>
    have := ih (q + 1)
    simp only [feed, pulled, List.foldl_cons, floorInterp] at this ⊢
    rw [this]; congr 1; omega

/-- `Linear` primed with source frames `q, q+1` and then fed frames `q+2 … q+m+1` holds frames
    `q+m, q+m+1` -/
theorem feed_linear (A : Arith Rat) (C : Codec Rat S) (eq : List S) (frames : List (List S)) (q m : Nat) :
    feed (linearInterp A C) (srcAt eq frames q, srcAt eq frames (q + 1)) (pulled eq frames (q + 2) m)
      = (srcAt eq frames (q + m), srcAt eq frames (q + m + 1)) := by
  induction m generalizing q with
  | zero => rfl
  | succ m ih =>
    have := ih (q + 1)
    simp only [feed, pulled, List.foldl_cons, linearInterp] at this ⊢
    rw [this]
    have e1 : q + 1 + m = q + (m + 1) := by omega
    rw [e1]

/-- truncation toward zero is monotone -/
theorem truncRat_mono {a b : Rat} (h : a ≤ b) : truncRat a ≤ truncRat b := by
  unfold truncRat
  by_cases ha : 0 ≤ a
  · have hb : 0 ≤ b := le_trans ha h
    simp only [ha, hb, if_true]
    exact Int.floor_mono h
  · have ha' : a < 0 := not_le.mp ha
    by_cases hb : 0 ≤ b
    · simp only [ha, hb, if_true, if_false]
      have h1 : 0 ≤ ⌊-a⌋ := Int.floor_nonneg.mpr (by linarith)
      have h2 : 0 ≤ ⌊b⌋ := Int.floor_nonneg.mpr hb
      have e1 : (-a).floor = ⌊-a⌋ := rfl
      have e2 : b.floor = ⌊b⌋ := rfl
      rw [e1, e2]; omega
    · simp only [ha, hb, if_false]
      have : ⌊-b⌋ ≤ ⌊-a⌋ := Int.floor_mono (by linarith)
      have e1 : (-a).floor = ⌊-a⌋ := rfl
      have e2 : (-b).floor = ⌊-b⌋ := rfl
      rw [e1, e2]; omega

theorem truncRat_intCast (v : Int) : truncRat (v : Rat) = v := by
  unfold truncRat
  by_cases h : (0 : Rat) ≤ (v : Rat)
  · simp only [h, if_true]; exact Int.floor_intCast (R := Rat) v
  · simp only [h, if_false]
    have : (-(v : Rat)).floor = ⌊((-v : Int) : Rat)⌋ := by push_cast; rfl
    rw [this, Int.floor_intCast]; omega

/-- the `i16` codec is monotone … -/
theorem i16_ofF_mono {a b : Rat} (h : a ≤ b) : i16CodecRat.ofF a ≤ i16CodecRat.ofF b := by
  simp only [i16CodecRat]
  have h' : a * (32768 : Rat) ≤ b * (32768 : Rat) := by linarith
  have := truncRat_mono h'
  omega

/-- … and round-trips every `i16` value -/
theorem i16_roundtrip (v : Int) (h1 : -32768 ≤ v) (h2 : v ≤ 32767) : i16CodecRat.ofF (i16CodecRat.toF v) = v := by
  simp only [i16CodecRat]
  have : (v : Rat) / 32768 * 32768 = (v : Rat) := by field_simp
  rw [this, truncRat_intCast]; omega

end Dasp.Conv
