import Mathlib.Tactic.Linarith
import Mathlib.Tactic.Ring
import Mathlib.Tactic.Positivity
import Mathlib.Tactic.NormNum
import Mathlib.Algebra.Order.Field.Power

/-! no_std `sqrt` bit trick (dasp_sample/src/ops.rs): `from_bits((to_bits(x) + BIAS) >> 1)`.
    For a normal x = 2^e·(1+m), 0 ≤ m < 1, the result is
      even e = 2j   : a = 2^j·(1 + m')        with m' = ⌊M/2⌋/2^p  ∈ [m/2 − δ, m/2]
      odd  e = 2j+1 : a = 2^j·(3/2 + m')
    where δ = 2^−(p+1) is the bit lost by the shift. We bound a² against x without mentioning √. -/
namespace Dasp.SqrtTrick

theorem even_case (m m' δ s : ℚ) (hm0 : 0 ≤ m) (hm1 : m < 1) (hδ0 : 0 ≤ δ) (hδ : δ ≤ 1/1000000)
    (hm'0 : 0 ≤ m') (hl : m / 2 - δ ≤ m') (hu : m' ≤ m / 2) (hs : 0 < s) :
    (1 - 3 * δ) * (s * (1 + m)) ≤ s * (1 + m') ^ 2 ∧ s * (1 + m') ^ 2 ≤ (9/8) * (s * (1 + m)) := by
  constructor
  · have : (1 - 3 * δ) * (1 + m) ≤ (1 + m') ^ 2 := by nlinarith [sq_nonneg (m / 2 - m'), sq_nonneg m]
    nlinarith
  · have : (1 + m') ^ 2 ≤ (9/8) * (1 + m) := by nlinarith [sq_nonneg (m' - m/2), sq_nonneg (1 - m)]
    nlinarith

theorem odd_case (m m' δ s : ℚ) (hm0 : 0 ≤ m) (hm1 : m < 1) (hδ0 : 0 ≤ δ) (hδ : δ ≤ 1/1000000)
    (hm'0 : 0 ≤ m') (hl : m / 2 - δ ≤ m') (hu : m' ≤ m / 2) (hs : 0 < s) :
    (1 - 3 * δ) * (s * (2 * (1 + m))) ≤ s * (3/2 + m') ^ 2 ∧ s * (3/2 + m') ^ 2 ≤ (9/8) * (s * (2 * (1 + m))) := by
  constructor
  · have : (1 - 3 * δ) * (2 * (1 + m)) ≤ (3/2 + m') ^ 2 := by nlinarith [sq_nonneg (1 - m), sq_nonneg m]
    nlinarith
  · have : (3/2 + m') ^ 2 ≤ (9/8) * (2 * (1 + m)) := by nlinarith [sq_nonneg (1 - m), sq_nonneg m]
    nlinarith

/-- from a² ∈ [(1−ε)x, (9/8)x] to the 7 % statement: 0.93²·x ≤ a² ≤ 1.07²·x -/
theorem seven_percent (a2 x ε : ℚ) (hx : 0 ≤ x) (hε : ε ≤ 1/10) (h1 : (1 - ε) * x ≤ a2) (h2 : a2 ≤ (9/8) * x) :
    (93/100)^2 * x ≤ a2 ∧ a2 ≤ (107/100)^2 * x := by
  constructor <;> nlinarith

#print axioms even_case
#print axioms odd_case
end Dasp.SqrtTrick
