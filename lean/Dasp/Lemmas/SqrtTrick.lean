import Mathlib.Tactic.Linarith
import Mathlib.Tactic.Ring
import Mathlib.Tactic.Positivity
import Mathlib.Tactic.NormNum
import Mathlib.Algebra.Order.Field.Power
import Mathlib.Tactic.FieldSimp
import Dasp.Model.SqrtTrick

/-! no_std `sqrt` bit trick (dasp_sample/src/ops.rs): `from_bits((to_bits(x) + BIAS) >> 1)`.
    For a normal x = 2^e·(1+m), 0 ≤ m < 1, the result is
      even e = 2j   : a = 2^j·(1 + m')        with m' = ⌊M/2⌋/2^p  ∈ [m/2 − δ, m/2]
      odd  e = 2j+1 : a = 2^j·(3/2 + m')
    where δ = 2^−(p+1) is the bit lost by the shift. We bound a² against x without mentioning √. -/
namespace Dasp.SqrtTrick

theorem even_case (m m' δ s : ℚ) (hm0 : 0 ≤ m) (hm1 : m < 1) (hδ0 : 0 ≤ δ) (hδ : δ ≤ 1/1000000)
    (hm'0 : 0 ≤ m') (hl : m / 2 - δ ≤ m') (hu : m' ≤ m / 2) (hs : 0 < s) :
    (1 - 3 * δ) * (s * (1 + m)) ≤ s * (1 + m') ^ 2 ∧ s * (1 + m') ^ 2 ≤ (9/8) * (s * (1 + m)) := by
  constructor
  · have : (1 - 3 * δ) * (1 + m) ≤ (1 + m') ^ 2 := by nlinarith [sq_nonneg (m / 2 - m'), sq_nonneg m]
    nlinarith
  · have : (1 + m') ^ 2 ≤ (9/8) * (1 + m) := by nlinarith [sq_nonneg (m' - m/2), sq_nonneg (1 - m)]
    nlinarith

theorem odd_case (m m' δ s : ℚ) (hm0 : 0 ≤ m) (hm1 : m < 1) (hδ0 : 0 ≤ δ) (hδ : δ ≤ 1/1000000)
    (hm'0 : 0 ≤ m') (hl : m / 2 - δ ≤ m') (hu : m' ≤ m / 2) (hs : 0 < s) :
    (1 - 3 * δ) * (s * (2 * (1 + m))) ≤ s * (3/2 + m') ^ 2 ∧ s * (3/2 + m') ^ 2 ≤ (9/8) * (s * (2 * (1 + m))) := by
  constructor
  · have : (1 - 3 * δ) * (2 * (1 + m)) ≤ (3/2 + m') ^ 2 := by nlinarith [sq_nonneg (1 - m), sq_nonneg m]
    nlinarith
  · have : (3/2 + m') ^ 2 ≤ (9/8) * (2 * (1 + m)) := by nlinarith [sq_nonneg (1 - m), sq_nonneg m]
    nlinarith

/-- from a² ∈ [(1−ε)x, (9/8)x] to the 7 % statement: 0.93²·x ≤ a² ≤ 1.07²·x -/
theorem seven_percent (a2 x ε : ℚ) (hx : 0 ≤ x) (hε : ε ≤ 1/10) (h1 : (1 - ε) * x ≤ a2) (h2 : a2 ≤ (9/8) * x) :
    (93/100)^2 * x ≤ a2 ∧ a2 ≤ (107/100)^2 * x := by
  constructor <;> nlinarith


/-! ## from the rational core to the bit pattern -/

theorem zpow_two_mul (j : ℤ) : (2:ℚ) ^ (2 * j) = ((2:ℚ) ^ j) ^ 2 := by
  rw [two_mul, zpow_add₀ (by norm_num : (2:ℚ) ≠ 0), sq]

theorem zpow_two_mul_add_one (j : ℤ) : (2:ℚ) ^ (2 * j + 1) = ((2:ℚ) ^ j) ^ 2 * 2 := by
  rw [zpow_add_one₀ (by norm_num : (2:ℚ) ≠ 0), zpow_two_mul]

/-- value of the positive normal binary float with biased exponent field `E` and mantissa field `M`
    (`p` mantissa bits, exponent bias `bias`): `2^(E − bias) · (1 + M / 2^p)` (IEEE 754) -/
def normVal (p : ℕ) (bias : ℤ) (E M : ℕ) : ℚ := (2:ℚ) ^ ((E:ℤ) - bias) * (1 + (M:ℚ) / 2 ^ p)

theorem normVal_pos (p : ℕ) (bias : ℤ) (E M : ℕ) : 0 < normVal p bias E M := by
  unfold normVal; positivity

private theorem delta_small (p : ℕ) (hp : 19 ≤ p) : (1:ℚ) / 2 ^ (p + 1) ≤ 1 / 1000000 := by
  have h : (2:ℚ) ^ 20 ≤ 2 ^ (p + 1) := pow_le_pow_right₀ (by norm_num) (by omega)
  have h20 : (1000000:ℚ) ≤ 2 ^ 20 := by norm_num
  exact one_div_le_one_div_of_le (by norm_num) (le_trans h20 h)

private theorem half_bounds (p M M' : ℕ) (h1 : 2 * M' ≤ M) (h2 : M ≤ 2 * M' + 1) :
    ((M:ℚ) / 2 ^ p) / 2 - 1 / 2 ^ (p + 1) ≤ (M':ℚ) / 2 ^ p ∧ (M':ℚ) / 2 ^ p ≤ ((M:ℚ) / 2 ^ p) / 2 := by
  have hP : (0:ℚ) < 2 ^ p := by positivity
  have e1 : (2:ℚ) * M' ≤ M := by exact_mod_cast h1
  have e2 : (M:ℚ) ≤ 2 * M' + 1 := by exact_mod_cast h2
  rw [pow_succ]
  constructor
  · rw [div_div, ← sub_div, div_le_div_iff₀ (by positivity) hP]
    nlinarith
  · rw [div_div, div_le_div_iff₀ hP (by positivity)]
    nlinarith

/-- even unbiased exponent `2j`: the halved pattern is `2^j · (1 + ⌊M/2⌋/2^p)` -/
theorem bound_even (p : ℕ) (hp : 19 ≤ p) (j : ℤ) (M M' : ℕ) (hM : M < 2 ^ p) (h1 : 2 * M' ≤ M) (h2 : M ≤ 2 * M' + 1) :
    (1 - 3 / 2 ^ (p + 1)) * ((2:ℚ) ^ (2 * j) * (1 + (M:ℚ) / 2 ^ p)) ≤ ((2:ℚ) ^ j * (1 + (M':ℚ) / 2 ^ p)) ^ 2 ∧
    ((2:ℚ) ^ j * (1 + (M':ℚ) / 2 ^ p)) ^ 2 ≤ (9/8) * ((2:ℚ) ^ (2 * j) * (1 + (M:ℚ) / 2 ^ p)) := by
  have hP : (0:ℚ) < 2 ^ p := by positivity
  have hm0 : (0:ℚ) ≤ (M:ℚ) / 2 ^ p := by positivity
  have hm1 : (M:ℚ) / 2 ^ p < 1 := by rw [div_lt_one hP]; exact_mod_cast hM
  obtain ⟨hl, hu⟩ := half_bounds p M M' h1 h2
  have := even_case ((M:ℚ) / 2 ^ p) ((M':ℚ) / 2 ^ p) (1 / 2 ^ (p + 1)) (((2:ℚ) ^ j) ^ 2) hm0 hm1 (by positivity)
    (delta_small p hp) (by positivity) hl hu (by positivity)
  rw [zpow_two_mul, mul_pow]
  have e : (3:ℚ) / 2 ^ (p + 1) = 3 * (1 / 2 ^ (p + 1)) := by ring
  rw [e]; exact this

/-- odd unbiased exponent `2j+1`: the halved pattern is `2^j · (1 + (2^(p-1) + ⌊M/2⌋)/2^p)` -/
theorem bound_odd (p : ℕ) (hp : 19 ≤ p) (j : ℤ) (M M' : ℕ) (hM : M < 2 ^ p) (h1 : 2 * M' ≤ M) (h2 : M ≤ 2 * M' + 1) :
    (1 - 3 / 2 ^ (p + 1)) * ((2:ℚ) ^ (2 * j + 1) * (1 + (M:ℚ) / 2 ^ p)) ≤ ((2:ℚ) ^ j * (1 + ((2 ^ (p - 1) + M' : ℕ):ℚ) / 2 ^ p)) ^ 2 ∧
    ((2:ℚ) ^ j * (1 + ((2 ^ (p - 1) + M' : ℕ):ℚ) / 2 ^ p)) ^ 2 ≤ (9/8) * ((2:ℚ) ^ (2 * j + 1) * (1 + (M:ℚ) / 2 ^ p)) := by
  have hP : (0:ℚ) < 2 ^ p := by positivity
  have hm0 : (0:ℚ) ≤ (M:ℚ) / 2 ^ p := by positivity
  have hm1 : (M:ℚ) / 2 ^ p < 1 := by rw [div_lt_one hP]; exact_mod_cast hM
  obtain ⟨hl, hu⟩ := half_bounds p M M' h1 h2
  have := odd_case ((M:ℚ) / 2 ^ p) ((M':ℚ) / 2 ^ p) (1 / 2 ^ (p + 1)) (((2:ℚ) ^ j) ^ 2) hm0 hm1 (by positivity)
    (delta_small p hp) (by positivity) hl hu (by positivity)
  have hpp : (2:ℚ) ^ p = 2 * 2 ^ (p - 1) := by
    rw [← pow_succ']; congr 1; omega
  have ea : (1:ℚ) + ((2 ^ (p - 1) + M' : ℕ):ℚ) / 2 ^ p = 3/2 + (M':ℚ) / 2 ^ p := by
    push_cast
    rw [add_div, hpp]
    have : (0:ℚ) < 2 ^ (p - 1) := by positivity
    field_simp
    ring
  rw [ea, zpow_two_mul_add_one, mul_pow]
  have e : (3:ℚ) / 2 ^ (p + 1) = 3 * (1 / 2 ^ (p + 1)) := by ring
  rw [e, mul_assoc (((2:ℚ) ^ j) ^ 2) 2]
  exact this

open Dasp.Gen.Sqrt in
/-- **f32, bit level.**  For every positive normal binary32 pattern (exponent field `1 ≤ E ≤ 254`,
    mantissa field `M < 2^23`) the pattern `(bits + BIAS) >> SHIFT` computed by the no_std
    `ops::f32::sqrt` — with `BIAS`, `SHIFT` as read from ops.rs on this run — is again a positive
    normal pattern (the `u32` addition does not wrap), and its value `a` satisfies
    `(1 − 3·2^−24)·x ≤ a² ≤ (9/8)·x`. -/
theorem approx32_bound (E M : ℕ) (hE1 : 1 ≤ E) (hE2 : E ≤ 254) (hM : M < 2 ^ 23) :
    let r := approx32 (E * 2 ^ 23 + M)
    E * 2 ^ 23 + M + bias32 < 2 ^ 32 ∧ 1 ≤ r / 2 ^ 23 ∧ r / 2 ^ 23 ≤ 254 ∧
    (1 - 3 / 2 ^ 24) * normVal 23 127 E M ≤ (normVal 23 127 (r / 2 ^ 23) (r % 2 ^ 23)) ^ 2 ∧
    (normVal 23 127 (r / 2 ^ 23) (r % 2 ^ 23)) ^ 2 ≤ (9/8) * normVal 23 127 E M := by
  intro r
  have hr : r = ((E * 8388608 + M + 1065353216) % 4294967296) / 2 := by
    simp only [r, approx32, approxBits, bias32, shift32, Nat.shiftRight_eq_div_pow]; norm_num
  norm_num at hM
  rcases Nat.even_or_odd' E with ⟨a, rfl | rfl⟩
  · -- even exponent field = odd unbiased exponent 2(a-64)+1
    have hq : r / 2 ^ 23 = a + 63 := by norm_num; omega
    have hm : r % 2 ^ 23 = 2 ^ (23 - 1) + M / 2 := by norm_num; omega
    refine ⟨by simp only [bias32]; omega, by omega, by omega, ?_⟩
    rw [hq, hm]
    have := bound_odd 23 (by norm_num) ((a:ℤ) - 64) M (M / 2) (by norm_num; exact hM) (by omega) (by omega)
    unfold normVal
    rw [show ((2 * a : ℕ):ℤ) - 127 = 2 * ((a:ℤ) - 64) + 1 by push_cast; ring,
        show ((a + 63 : ℕ):ℤ) - 127 = (a:ℤ) - 64 by push_cast; ring]
    exact this
  · -- odd exponent field = even unbiased exponent 2(a-63)
    have hq : r / 2 ^ 23 = a + 64 := by norm_num; omega
    have hm : r % 2 ^ 23 = M / 2 := by norm_num; omega
    refine ⟨by simp only [bias32]; omega, by omega, by omega, ?_⟩
    rw [hq, hm]
    have := bound_even 23 (by norm_num) ((a:ℤ) - 63) M (M / 2) (by norm_num; exact hM) (by omega) (by omega)
    unfold normVal
    rw [show ((2 * a + 1 : ℕ):ℤ) - 127 = 2 * ((a:ℤ) - 63) by push_cast; ring,
        show ((a + 64 : ℕ):ℤ) - 127 = (a:ℤ) - 63 by push_cast; ring]
    exact this

open Dasp.Gen.Sqrt in
/-- **f64, bit level** (exponent field `1 ≤ E ≤ 2046`, mantissa field `M < 2^52`, bias 1023):
    `(1 − 3·2^−53)·x ≤ a² ≤ (9/8)·x`.  This is the theorem that fails to check when ops.rs carries the
    f32 bias in the f64 function (the defect fixed in 5eee3f8). -/
theorem approx64_bound (E M : ℕ) (hE1 : 1 ≤ E) (hE2 : E ≤ 2046) (hM : M < 2 ^ 52) :
    let r := approx64 (E * 2 ^ 52 + M)
    E * 2 ^ 52 + M + bias64 < 2 ^ 64 ∧ 1 ≤ r / 2 ^ 52 ∧ r / 2 ^ 52 ≤ 2046 ∧
    (1 - 3 / 2 ^ 53) * normVal 52 1023 E M ≤ (normVal 52 1023 (r / 2 ^ 52) (r % 2 ^ 52)) ^ 2 ∧
    (normVal 52 1023 (r / 2 ^ 52) (r % 2 ^ 52)) ^ 2 ≤ (9/8) * normVal 52 1023 E M := by
  intro r
  have hr : r = ((E * 4503599627370496 + M + 4607182418800017408) % 18446744073709551616) / 2 := by
    simp only [r, approx64, approxBits, bias64, shift64, Nat.shiftRight_eq_div_pow]; norm_num
  norm_num at hM
  rcases Nat.even_or_odd' E with ⟨a, rfl | rfl⟩
  · have hq : r / 2 ^ 52 = a + 511 := by norm_num; omega
    have hm : r % 2 ^ 52 = 2 ^ (52 - 1) + M / 2 := by norm_num; omega
    refine ⟨by simp only [bias64]; omega, by omega, by omega, ?_⟩
    rw [hq, hm]
    have := bound_odd 52 (by norm_num) ((a:ℤ) - 512) M (M / 2) (by norm_num; exact hM) (by omega) (by omega)
    unfold normVal
    rw [show ((2 * a : ℕ):ℤ) - 1023 = 2 * ((a:ℤ) - 512) + 1 by push_cast; ring,
        show ((a + 511 : ℕ):ℤ) - 1023 = (a:ℤ) - 512 by push_cast; ring]
    exact this
  · have hq : r / 2 ^ 52 = a + 512 := by norm_num; omega
    have hm : r % 2 ^ 52 = M / 2 := by norm_num; omega
    refine ⟨by simp only [bias64]; omega, by omega, by omega, ?_⟩
    rw [hq, hm]
    have := bound_even 52 (by norm_num) ((a:ℤ) - 511) M (M / 2) (by norm_num; exact hM) (by omega) (by omega)
    unfold normVal
    rw [show ((2 * a + 1 : ℕ):ℤ) - 1023 = 2 * ((a:ℤ) - 511) by push_cast; ring,
        show ((a + 512 : ℕ):ℤ) - 1023 = (a:ℤ) - 511 by push_cast; ring]
    exact this

end Dasp.SqrtTrick
