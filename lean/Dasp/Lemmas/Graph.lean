import Dasp.Lemmas.Dfs
/-!
# The layer `dasp_graph::process` adds on top of the DFS: reset, inputs, invocation order, buffers

Core Lean only.
-/
namespace Dasp.Graph

/-- adjacency stays below the node bound (true of every petgraph container: edges join existing nodes) -/
def PG.WF (g : PG) : Prop := ∀ n, ∀ m ∈ g.inc n, m < g.bound

/-- the two visit maps of a `DfsPostOrder` always have the same length (both come from `visit_map`/`reset_map`) -/
def Proc.Ok (p : Proc) : Prop := p.disc.length = p.fin.length

/-- `n` has a directed path (possibly empty) to `root`; edge `a → b` iff `a ∈ g.inc b` -/
inductive PathTo (g : PG) (root : Nat) : Nat → Prop
  | refl : PathTo g root root
  | cons {a b : Nat} : a ∈ g.inc b → PathTo g root b → PathTo g root a

theorem pathTo_iff_reach (g : PG) (root n : Nat) : PathTo g root n ↔ Reach ⟨g.inc⟩ root n := by
  constructor
  · intro h
    induction h with
    | refl => exact Or.inl rfl
    | cons hab _ ih => exact ih.step hab
  · rintro (rfl | h)
    · exact .refl
    · induction h with
      | edge hb => exact .cons hb .refl
      | trans _ hc ih => exact .cons hc ih

/-! ### run equation, independence of the map lengths -/

theorem run_eq (g : G) (s : St) : run g s = match step g s with | none => s | some s' => run g s' := by
  rw [run]
  split <;> simp_all

/-- two traversal states that differ only in the (unused) tail of their visit maps -/
structure Sim (bound : Nat) (s t : St) : Prop where
  stack : s.stack = t.stack
  out : s.out = t.out
  lt : ∀ x ∈ s.stack, x < bound
  ld : bound ≤ s.disc.length
  lf : bound ≤ s.fin.length
  ld' : bound ≤ t.disc.length
  lf' : bound ≤ t.fin.length
  disc : ∀ i, i < bound → vis s.disc i = vis t.disc i
  fin : ∀ i, i < bound → vis s.fin i = vis t.fin i

theorem vis_mark_eq (m : VMap) (i j : Nat) (hi : i < m.length) :
    vis (mark m i) j = (vis m j || decide (i = j)) := by
  have := vis_mark m i j
  cases h1 : vis (mark m i) j <;> cases h2 : vis m j <;> by_cases h3 : i = j <;> simp_all

theorem pushList_congr (adj : List Nat) (d d' : VMap) (bound : Nat) (hadj : ∀ m ∈ adj, m < bound)
    (h : ∀ i, i < bound → vis d i = vis d' i) : pushList adj d = pushList adj d' := by
  unfold pushList
  apply List.filter_congr
  intro m hm; rw [h m (hadj m hm)]

theorem sim_step (g : G) (bound : Nat) (hwf : ∀ n, ∀ m ∈ g.adj n, m < bound) (s t : St) (h : Sim bound s t) :
    (step g s = none ∧ step g t = none) ∨ ∃ s' t', step g s = some s' ∧ step g t = some t' ∧ Sim bound s' t' := by
  cases hs : s.stack with
  | nil =>
    left
    have ht : t.stack = [] := by rw [← h.stack, hs]
    simp [step, hs, ht]
  | cons nx rest =>
    right
    have ht : t.stack = nx :: rest := by rw [← h.stack, hs]
    have hnx : nx < bound := h.lt nx (by rw [hs]; simp)
    have hrest : ∀ x ∈ rest, x < bound := fun x hx => h.lt x (by rw [hs]; simp [hx])
    have hd := h.disc nx hnx
    have hf := h.fin nx hnx
    cases hvd : vis s.disc nx with
    | true =>
      cases hvf : vis s.fin nx with
      | true =>
        refine ⟨{ s with stack := rest }, { t with stack := rest }, ?_, ?_, ?_⟩
        · simp [step, hs, hvd, hvf]
        · simp [step, ht, ← hd, ← hf, hvd, hvf]
        · exact ⟨rfl, h.out, hrest, h.ld, h.lf, h.ld', h.lf', h.disc, h.fin⟩
      | false =>
        refine ⟨{ s with stack := rest, fin := mark s.fin nx, out := s.out ++ [nx] },
                { t with stack := rest, fin := mark t.fin nx, out := t.out ++ [nx] }, ?_, ?_, ?_⟩
        · simp [step, hs, hvd, hvf]
        · simp [step, ht, ← hd, ← hf, hvd, hvf]
        · refine ⟨rfl, by simp [h.out], hrest, h.ld, by simpa [mark] using h.lf, h.ld', by simpa [mark] using h.lf', h.disc, ?_⟩
          intro i hi
          rw [vis_mark_eq _ _ _ (Nat.lt_of_lt_of_le hnx h.lf), vis_mark_eq _ _ _ (Nat.lt_of_lt_of_le hnx h.lf'), h.fin i hi]
    | false =>
      have hmd : ∀ i, i < bound → vis (mark s.disc nx) i = vis (mark t.disc nx) i := by
        intro i hi
        rw [vis_mark_eq _ _ _ (Nat.lt_of_lt_of_le hnx h.ld), vis_mark_eq _ _ _ (Nat.lt_of_lt_of_le hnx h.ld'), h.disc i hi]
      have hpl := pushList_congr (g.adj nx) _ _ bound (hwf nx) hmd
      refine ⟨{ s with stack := (pushList (g.adj nx) (mark s.disc nx)).reverse ++ s.stack, disc := mark s.disc nx },
              { t with stack := (pushList (g.adj nx) (mark t.disc nx)).reverse ++ t.stack, disc := mark t.disc nx }, ?_, ?_, ?_⟩
      · simp [step, hs, hvd]
      · simp [step, ht, ← hd, hvd]
      · refine ⟨by simp [hpl, h.stack], h.out, ?_, by simpa [mark] using h.ld, h.lf, by simpa [mark] using h.ld', h.lf', hmd, h.fin⟩
        intro x hx
        simp only [List.mem_append, List.mem_reverse] at hx
        rcases hx with hx | hx
        · exact hwf nx x (mem_pushList.mp hx).1
        · exact h.lt x hx

theorem sim_run (g : G) (bound : Nat) (hwf : ∀ n, ∀ m ∈ g.adj n, m < bound) (s : St) :
    ∀ t, Sim bound s t → (run g s).out = (run g t).out := by
  fun_induction run g s with
  | case1 s h =>
    intro t hsim
    rcases sim_step g bound hwf s t hsim with ⟨_, ht⟩ | ⟨s', t', hs', _, _⟩
    · rw [run_eq g t, ht]; exact hsim.out
    · rw [h] at hs'; simp at hs'
  | case2 s s' h ih =>
    intro t hsim
    rcases sim_step g bound hwf s t hsim with ⟨hs0, _⟩ | ⟨s'', t', hs', ht', hsim'⟩
    · rw [h] at hs0; simp at hs0
    · rw [h] at hs'; cases hs'
      rw [run_eq g t, ht']; exact ih t' hsim'

theorem run_start_len_indep (g : G) (bound root L L' : Nat) (hwf : ∀ n, ∀ m ∈ g.adj n, m < bound)
    (hr : root < bound) (hL : bound ≤ L) (hL' : bound ≤ L') :
    (run g (start L root)).out = (run g (start L' root)).out := by
  apply sim_run g bound hwf
  refine ⟨rfl, rfl, ?_, by simpa [start] using hL, by simpa [start] using hL, by simpa [start] using hL',
    by simpa [start] using hL', ?_, ?_⟩
  · intro x hx; simp [start] at hx; omega
  · intro i hi; simp [start, vis, List.getD, Nat.lt_of_lt_of_le hi hL, Nat.lt_of_lt_of_le hi hL']
  · intro i hi; simp [start, vis, List.getD, Nat.lt_of_lt_of_le hi hL, Nat.lt_of_lt_of_le hi hL']

/-! ### `process`: order -/

theorem resetMoveTo_eq (g : PG) (p : Proc) (hp : p.Ok) (root : Nat) :
    resetMoveTo g p root = start (max p.disc.length g.bound) root := by
  have hp' : p.disc.length = p.fin.length := hp
  unfold resetMoveTo start resetMap
  rw [hp']

theorem order_eq_canonical (g : PG) (hwf : g.WF) (p : Proc) (hp : p.Ok) (root : Nat) (hr : root < g.bound) :
    order g p root = (run ⟨g.inc⟩ (start g.bound root)).out := by
  unfold order
  rw [resetMoveTo_eq g p hp root]
  exact run_start_len_indep ⟨g.inc⟩ g.bound root _ _ hwf hr (Nat.le_max_right _ _) (Nat.le_refl _)

theorem order_mem (g : PG) (hwf : g.WF) (p : Proc) (hp : p.Ok) (root : Nat) (hr : root < g.bound) (n : Nat) :
    n ∈ order g p root ↔ PathTo g root n := by
  rw [order_eq_canonical g hwf p hp root hr, pathTo_iff_reach]
  exact (run_emits_reachable ⟨g.inc⟩ g.bound root hr hwf).1 n

theorem order_nodup (g : PG) (hwf : g.WF) (p : Proc) (hp : p.Ok) (root : Nat) (hr : root < g.bound) :
    (order g p root).Nodup := by
  rw [order_eq_canonical g hwf p hp root hr]
  exact (run_emits_reachable ⟨g.inc⟩ g.bound root hr hwf).2

/-- the processor state left behind by a traversal is again well-formed -/
theorem run_proc_ok (g : PG) (hwf : g.WF) (p : Proc) (hp : p.Ok) (root : Nat) (hr : root < g.bound) :
    (run ⟨g.inc⟩ (resetMoveTo g p root)).disc.length = (run ⟨g.inc⟩ (resetMoveTo g p root)).fin.length := by
  rw [resetMoveTo_eq g p hp root]
  have hL : g.bound ≤ max p.disc.length g.bound := Nat.le_max_right _ _
  have hinv : Inv ⟨g.inc⟩ (max p.disc.length g.bound) root (run ⟨g.inc⟩ (start _ root)) :=
    run_induct ⟨g.inc⟩ (Inv ⟨g.inc⟩ _ root)
      (fun s s' hi hs => inv_step ⟨g.inc⟩ _ root (fun n m hm => Nat.lt_of_lt_of_le (hwf n m hm) hL) s s' hi hs)
      _ (inv_start ⟨g.inc⟩ _ root (Nat.lt_of_lt_of_le hr hL))
  rw [hinv.len_d, hinv.len_f]

/-! ### uniqueness of the split of a duplicate-free list -/

theorem split_unique {l : List Nat} (hn : l.Nodup) {p1 q1 p2 q2 : List Nat} {v : Nat}
    (h1 : l = p1 ++ v :: q1) (h2 : l = p2 ++ v :: q2) : p1 = p2 := by
  induction p1 generalizing l p2 with
  | nil =>
    cases p2 with
    | nil => rfl
    | cons a p2 =>
      exfalso
      rw [h1] at h2; simp at h2
      obtain ⟨rfl, hq⟩ := h2
      rw [h1, hq] at hn; simp at hn
  | cons a p1 ih =>
    cases p2 with
    | nil =>
      exfalso
      rw [h2] at h1; simp at h1
      obtain ⟨rfl, hq⟩ := h1
      rw [h2, hq] at hn; simp at hn
    | cons b p2 =>
      rw [h1] at h2; simp at h2
      obtain ⟨rfl, hq⟩ := h2
      have hn' : (p1 ++ v :: q1).Nodup := by rw [h1] at hn; exact (List.nodup_cons.mp hn).2
      rw [ih hn' rfl hq]

/-- `Ordered` (every emitted node comes after all of its neighbours) in prefix form -/
theorem ordered_prefix {g : G} {out : List Nat} (ho : Ordered g out) (hn : out.Nodup)
    {pre post : List Nat} {v : Nat} (h : out = pre ++ v :: post) : ∀ w ∈ g.adj v, w ∈ pre := by
  intro w hw
  obtain ⟨pre', post', e, hp⟩ := ho v (by rw [h]; simp) w hw
  rw [split_unique hn h e]; exact hp

/-! ### inputs -/

theorem inputsOf_not_self (g : PG) (n : Nat) : n ∉ inputsOf g n := by
  simp [inputsOf]

theorem inputsOf_count (g : PG) (n m : Nat) (h : m ≠ n) : (inputsOf g n).count m = (g.inc n).count m := by
  unfold inputsOf
  rw [List.count_filter]; simp [h]

theorem inputsOf_sublist (g : PG) (n : Nat) : (inputsOf g n).Sublist (g.inc n) := by
  unfold inputsOf; exact List.filter_sublist

theorem mem_inputsOf {g : PG} {n m : Nat} : m ∈ inputsOf g n ↔ m ∈ g.inc n ∧ m ≠ n := by
  simp [inputsOf]

/-! ### buffers -/

theorem foldl_invoke_not_mem {β : Type} (F : Nat → List β → β) (g : PG) (l : List Nat) (buf : Nat → β) (v : Nat)
    (h : v ∉ l) : l.foldl (invoke F g) buf v = buf v := by
  induction l generalizing buf with
  | nil => rfl
  | cons x t ih =>
    simp only [List.foldl_cons]
    rw [ih _ (fun e => h (List.mem_cons_of_mem _ e))]
    have : v ≠ x := fun e => h (by simp [e])
    simp [invoke, this]

/-- the executable fold over `Mem` is the fold over plain functions -/
theorem foldl_invokeM {β : Type} (F : Nat → List β → β) (g : PG) (l : List Nat) (buf : Nat → β) :
    (l.foldl (invokeM F g) ⟨buf⟩).get = l.foldl (invoke F g) buf := by
  induction l generalizing buf with
  | nil => rfl
  | cons x t ih =>
    simp only [List.foldl_cons]
    exact ih (invoke F g buf x)

/-- invoking the nodes of a duplicate-free list in which every node comes after all of its inputs leaves
    every node with the functional value of its inputs' final buffers -/
theorem foldl_invoke_functional {β : Type} (F : Nat → List β → β) (g : PG) :
    ∀ (l done : List Nat) (buf : Nat → β),
      (done ++ l).Nodup →
      (∀ pre v post, done ++ l = pre ++ v :: post → ∀ w ∈ inputsOf g v, w ∈ pre) →
      (∀ v ∈ done, buf v = F v ((inputsOf g v).map buf)) →
      ∀ v ∈ done ++ l, l.foldl (invoke F g) buf v = F v ((inputsOf g v).map (l.foldl (invoke F g) buf)) := by
  intro l
  induction l with
  | nil => intro done buf _ _ hb v hv; simpa using hb v (by simpa using hv)
  | cons x t ih =>
    intro done buf hn hpre hb v hv
    simp only [List.foldl_cons]
    have e : done ++ x :: t = (done ++ [x]) ++ t := by simp
    have hx_done : x ∉ done := by
      intro hx
      have := (List.nodup_append.mp hn).2.2 x hx x (by simp)
      exact this rfl
    -- inputs of a node of `done` lie in `done`, inputs of `x` lie in `done`
    have hin_done : ∀ u ∈ done, ∀ w ∈ inputsOf g u, w ∈ done := by
      intro u hu w hw
      obtain ⟨a, b, rfl⟩ := List.append_of_mem hu
      have := hpre a u (b ++ x :: t) (by simp) w hw
      simp [this]
    have hin_x : ∀ w ∈ inputsOf g x, w ∈ done := hpre done x t rfl
    have hsame : ∀ w ∈ done, invoke F g buf x w = buf w := by
      intro w hw
      have : w ≠ x := fun e => hx_done (e ▸ hw)
      simp [invoke, this]
    apply ih (done ++ [x]) (invoke F g buf x) (e ▸ hn) (fun pre v post h => hpre pre v post (e.trans h)) ?_ v (e ▸ hv)
    intro u hu
    rcases List.mem_append.mp hu with hu | hu
    · rw [hsame u hu, hb u hu]
      congr 1
      apply List.map_congr_left
      intro w hw; exact (hsame w (hin_done u hu w hw)).symm
    · simp at hu; subst hu
      have : invoke F g buf u u = F u ((inputsOf g u).map buf) := by simp [invoke]
      rw [this]
      congr 1
      apply List.map_congr_left
      intro w hw; exact (hsame w (hin_x w hw)).symm

/-- re-invoking nodes whose buffers already hold the functional value changes nothing -/
theorem foldl_invoke_fixed {β : Type} (F : Nat → List β → β) (g : PG) (l : List Nat) (buf : Nat → β)
    (h : ∀ v ∈ l, buf v = F v ((inputsOf g v).map buf)) : l.foldl (invoke F g) buf = buf := by
  induction l with
  | nil => rfl
  | cons x t ih =>
    simp only [List.foldl_cons]
    have hx : invoke F g buf x = buf := by
      funext m
      by_cases hm : m = x
      · subst hm; simp [invoke]; exact (h m (by simp)).symm
      · simp [invoke, hm]
    rw [hx]; exact ih (fun v hv => h v (List.mem_cons_of_mem _ hv))

/-! ### sources / sinks -/

theorem mem_nodeIdentifiers (g : PG) (n : Nat) : n ∈ nodeIdentifiers g ↔ n < g.bound ∧ g.live n = true := by
  simp [nodeIdentifiers]

theorem nodup_nodeIdentifiers (g : PG) : (nodeIdentifiers g).Nodup :=
  List.Nodup.sublist List.filter_sublist List.nodup_range

end Dasp.Graph
