import Dasp.Model.OscFP
import Dasp.Lemmas.Osc
import Dasp.Lemmas.FloatConv

/-! Float-level lemmas about the oscillator model at its soft-float instance `fpArith sinO`
    (what the f64 code computes, one IEEE rounding per operation).  Used by `Props/C17.lean`. -/
namespace Dasp.Osc
open Dasp Dasp.Gen

/-- `round` of a non-negative rational: `±0` for 0, else a non-negative finite value `rv q`, or `+inf` (overflow) -/
theorem round_nonneg_cases (neg : Bool) {q : Rat} (hq : 0 ≤ q) :
    (q = 0 ∧ round f64 neg q = .fin neg 0) ∨
    (0 < q ∧ round f64 neg q = .fin false (rv f64 q) ∧ 0 ≤ rv f64 q ∧ rv f64 q < pow2 (f64.emax + 1)) ∨
    (0 < q ∧ round f64 neg q = .inf false ∧ pow2 (f64.emax + 1) ≤ rv f64 q) := by
  rcases eq_or_lt_of_le hq with h | h
  · subst h; left; exact ⟨rfl, round_zero _ _⟩
  · by_cases hno : rv f64 q < pow2 (f64.emax + 1)
    · right; left
      exact ⟨h, round_of_pos f64 neg h hno, rv_nonneg f64 hq, hno⟩
    · right; right
      have h1 : ¬ q < 0 := not_lt.mpr hq
      have h2 : q ≠ 0 := ne_of_gt h
      refine ⟨h, ?_, not_lt.mp hno⟩
      simp only [round, h1, if_false, roundPos_eq f64 q h2, ge_iff_le, not_lt.mp hno, if_true]

/-- rounding a positive value that is at most `2^k` (k within the exponent range) gives at most `2^k`, no overflow -/
theorem rv_le_of_le_pow2 {q : Rat} (hq : 0 < q) {k : Int} (hk1 : f64.emin ≤ k) (hk2 : k ≤ f64.emax) (h : q ≤ pow2 k) :
    rv f64 q ≤ pow2 k ∧ rv f64 q < pow2 (f64.emax + 1) := by
  have hp : 1 ≤ f64.prec := by decide
  have h1 := rv_le_pow2 f64 (gridExp_le f64 hq hk1 hp h) h
  exact ⟨h1, lt_of_le_of_lt h1 (pow2_lt (by omega))⟩

/-- small positive integers are f64 values: `n.0` / `n as f64` is exact for 0 < n ≤ 2^52 -/
theorem round_nat (neg : Bool) (n : Nat) (hn : 0 < n) (hb : n ≤ 2 ^ 52) : round f64 neg (n : Rat) = .fin false (n : Rat) := by
  have hg : onGrid f64 (n : Rat) := by
    have := onGrid_int_scaled f64 (by decide) (m := (n : Int)) (by exact_mod_cast hn)
      (by show (n : Int) ≤ 2 ^ (53 - 1); exact_mod_cast hb) 0 (by decide)
    simpa [pow2_zero] using this
  have hpos : (0 : Rat) < n := by exact_mod_cast hn
  have hlt : rv f64 (n : Rat) < pow2 (f64.emax + 1) := by
    rw [rv_id f64 hg]
    have h1 : (n : Rat) ≤ pow2 ((52 : Nat) : Int) := by rw [pow2_nat]; exact_mod_cast hb
    exact lt_of_le_of_lt h1 (pow2_lt (by decide))
  rw [round_of_pos f64 neg hpos hlt, rv_id f64 hg]

variable (sinO : FP → FP)

theorem fp_ofNat (n : Nat) (hn : 0 < n) (hb : n ≤ 2 ^ 52) : (fpArith sinO).ofNat n = .fin false (n : Rat) :=
  round_nat false n hn hb

/-! ## the wrap `(phase + step) % w` -/

/-- **float wrap**: for a finite non-negative phase `a` and a finite non-negative step `b`, `(a + b) % w` in f64 is a
    finite value in [0, w) — unless the rounded sum overflowed to +inf, in which case it is NaN -/
theorem fp_wrap_range (a b : Rat) (na nb : Bool) (ha : 0 ≤ a) (hb : 0 ≤ b) (hna : a = 0 ∨ na = false) (hnb : b = 0 ∨ nb = false)
    (w : Nat) (hw : 0 < w) (hw2 : w ≤ 2 ^ 52) :
    (∃ n q, (fpArith sinO).rem ((fpArith sinO).add (.fin na a) (.fin nb b)) ((fpArith sinO).ofNat w) = .fin n q ∧
        0 ≤ q ∧ q < w ∧ (q = 0 ∨ n = false)) ∨
    ((fpArith sinO).add (.fin na a) (.fin nb b) = .inf false ∧
      (fpArith sinO).rem ((fpArith sinO).add (.fin na a) (.fin nb b)) ((fpArith sinO).ofNat w) = .nan) := by
  rw [fp_ofNat sinO w hw hw2]
  have hwq : (0 : Rat) < w := by exact_mod_cast hw
  have hsum : (fpArith sinO).add (.fin na a) (.fin nb b) = round f64 (na && nb) (a + b) := by
    show round f64 (na && nb) ((if na then -a else a) + (if nb then -b else b)) = _
    have e1 : (if na then -a else a) = a := by rcases hna with h | h <;> simp [h]
    have e2 : (if nb then -b else b) = b := by rcases hnb with h | h <;> simp [h]
    rw [e1, e2]
  rw [hsum]
  rcases round_nonneg_cases (na && nb) (add_nonneg ha hb) with ⟨h0, hr⟩ | ⟨hp, hr, hnn, _⟩ | ⟨hp, hr, _⟩
  · left
    refine ⟨na && nb, ratRem 0 w, ?_, ?_⟩
    · rw [hr]; show (if (w : Rat) = 0 then FP.nan else .fin (na && nb) (ratRem 0 w)) = _
      rw [if_neg (ne_of_gt hwq)]
    · have := ratRem_range (le_refl (0 : Rat)) hwq
      refine ⟨this.1, this.2, Or.inl ?_⟩
      unfold ratRem; rw [zero_div, ratTrunc_of_nonneg (le_refl _), Int.floor_zero]; simp
  · left
    refine ⟨false, ratRem (rv f64 (a + b)) w, ?_, ?_⟩
    · rw [hr]; show (if (w : Rat) = 0 then FP.nan else .fin false (ratRem (rv f64 (a + b)) w)) = _
      rw [if_neg (ne_of_gt hwq)]
    · have := ratRem_range hnn hwq
      exact ⟨this.1, this.2, Or.inr rfl⟩
  · right
    exact ⟨hr, by rw [hr]; rfl⟩

/-- the rounded sum cannot overflow when the phase is below `w ≤ 2^52` and the step is at most `2^1023 − 2^52` -/
theorem fp_sum_no_overflow (a b : Rat) (na nb : Bool) (ha : 0 ≤ a) (hb : 0 ≤ b) (hna : a = 0 ∨ na = false) (hnb : b = 0 ∨ nb = false)
    (haw : a < pow2 52) (hbb : b ≤ pow2 1023 - pow2 52) :
    (fpArith sinO).add (.fin na a) (.fin nb b) ≠ .inf false := by
  have hsum : (fpArith sinO).add (.fin na a) (.fin nb b) = round f64 (na && nb) (a + b) := by
    show round f64 (na && nb) ((if na then -a else a) + (if nb then -b else b)) = _
    have e1 : (if na then -a else a) = a := by rcases hna with h | h <;> simp [h]
    have e2 : (if nb then -b else b) = b := by rcases hnb with h | h <;> simp [h]
    rw [e1, e2]
  rw [hsum]
  rcases round_nonneg_cases (na && nb) (add_nonneg ha hb) with ⟨_, hr⟩ | ⟨_, hr, _, _⟩ | ⟨hp, _, hov⟩
  · rw [hr]; exact fun h => FP.noConfusion h
  · rw [hr]; exact fun h => FP.noConfusion h
  · exfalso
    have := (rv_le_of_le_pow2 hp (k := 1023) (by decide) (by decide) (by linarith)).2
    linarith

/-! ## the float phase invariant over runs -/

/-- a phase step the f64 code can digest: finite, non-negative, not in the top binade (≤ 2^1023 − 2^52) -/
def GoodStep (s : FP) : Prop := ∃ n b, s = .fin n b ∧ 0 ≤ b ∧ (b = 0 ∨ n = false) ∧ b ≤ pow2 1023 - pow2 52

/-- every `hz / rate` the source will compute is finite and non-negative — *"the quotient is finite"*, the
    hypothesis whose failure is the known finding C17-step-overflow -/
def FpSrcOK (A : Arith FP) : StepSrc FP → Prop
  | .const s => GoodStep s
  | .hz rate fs _ => GoodStep (A.div (A.ofNat 0) rate) ∧ ∀ f ∈ fs, GoodStep (A.div f rate)

theorem fp_step_ok (A : Arith FP) {s : StepSrc FP} (h : FpSrcOK A s) : GoodStep (s.step A).1 ∧ FpSrcOK A (s.step A).2 := by
  cases s with
  | const s => exact ⟨h, h⟩
  | hz rate fs n =>
    cases fs with
    | nil => exact ⟨h.1, h.1, h.2⟩
    | cons f fs => exact ⟨h.2 f (List.mem_cons_self ..), h.1, fun g hg => h.2 g (List.mem_cons_of_mem _ hg)⟩

/-- finite, in [0, w), and `-0.0` only as a zero -/
def FpInv (A : Arith FP) (w : Nat) (p : Phase FP) : Prop :=
  (∃ n a, p.next = .fin n a ∧ 0 ≤ a ∧ a < w ∧ (a = 0 ∨ n = false)) ∧ FpSrcOK A p.src

theorem fp_nextPhaseWrappedTo_inv (w : Nat) (hw : 0 < w) (hw2 : w ≤ 2 ^ 52) {p : Phase FP}
    (h : FpInv (fpArith sinO) w p) :
    FpInv (fpArith sinO) w (nextPhaseWrappedTo (fpArith sinO) p ((fpArith sinO).ofNat w)).2 := by
  obtain ⟨⟨n, a, hp, h0, h1, hz⟩, hs⟩ := h
  obtain ⟨⟨m, b, hb, hb0, hbz, hbb⟩, hs2⟩ := fp_step_ok (fpArith sinO) hs
  refine ⟨?_, hs2⟩
  show ∃ n' a', (fpArith sinO).rem ((fpArith sinO).add p.next (p.src.step (fpArith sinO)).1) ((fpArith sinO).ofNat w) = .fin n' a' ∧ _
  rw [hp, hb]
  have hw52 : ((w : Nat) : Rat) ≤ pow2 52 := by
    have : pow2 52 = pow2 ((52 : Nat) : Int) := rfl
    rw [this, pow2_nat]; exact_mod_cast hw2
  rcases fp_wrap_range sinO a b n m h0 hb0 hz hbz w hw hw2 with ⟨n', q, e, q0, q1, qz⟩ | ⟨hinf, _⟩
  · exact ⟨n', q, e, q0, q1, qz⟩
  · exact absurd hinf (fp_sum_no_overflow sinO a b n m h0 hb0 hz hbz (lt_of_lt_of_le h1 hw52) hbb)

theorem fp_phase_inv (w : Nat) (hw : 0 < w) {src : StepSrc FP} (h : FpSrcOK (fpArith sinO) src) :
    FpInv (fpArith sinO) w (phase (fpArith sinO) src) := by
  refine ⟨⟨false, 0, ?_, le_refl _, by exact_mod_cast hw, Or.inl rfl⟩, h⟩
  show round f64 false ((0 : Nat) : Rat) = _
  rw [Nat.cast_zero, round_zero]

/-- every frame of a float run of any length is `wave` of a finite phase in [0, w) -/
theorem fp_run_oscStep (w : Nat) (hw : 0 < w) (hw2 : w ≤ 2 ^ 52) (wave : FP → FP) :
    ∀ (k : Nat) (p : Phase FP), FpInv (fpArith sinO) w p →
      (∀ y ∈ (run (oscStep (fpArith sinO) wave ((fpArith sinO).ofNat w)) k p).1,
          ∃ (n : Bool) (a : Rat), 0 ≤ a ∧ a < w ∧ (a = 0 ∨ n = false) ∧ y = wave (.fin n a)) ∧
      FpInv (fpArith sinO) w (run (oscStep (fpArith sinO) wave ((fpArith sinO).ofNat w)) k p).2 := by
  intro k
  induction k with
  | zero => intro p h; exact ⟨by simp [run], h⟩
  | succ k ih =>
    intro p h
    have h' := fp_nextPhaseWrappedTo_inv sinO w hw hw2 h
    obtain ⟨i1, i2⟩ := ih _ h'
    refine ⟨?_, i2⟩
    intro y hy
    simp only [run, List.mem_cons] at hy
    rcases hy with rfl | hy
    · obtain ⟨⟨n, a, hp, h0, h1, hz⟩, _⟩ := h
      exact ⟨n, a, h0, h1, hz, by show wave p.next = _; rw [hp]⟩
    · exact i1 y hy

/-! ## float waveforms -/

/-- rounding keeps a value inside a power-of-two bound and on its side of zero -/
theorem round_signed_bounds (neg : Bool) (x : Rat) {k : Int} (hk1 : f64.emin ≤ k) (hk2 : k ≤ f64.emax) (h : |x| ≤ pow2 k) :
    ∃ n q, round f64 neg x = .fin n q ∧ 0 ≤ q ∧ |fpSigned n q| ≤ pow2 k ∧ (x ≤ 0 → fpSigned n q ≤ 0) ∧ (0 ≤ x → 0 ≤ fpSigned n q) := by
  have hk0 : (0 : Rat) ≤ pow2 k := (pow2_pos k).le
  rcases lt_trichotomy x 0 with hx | hx | hx
  · have hx' : 0 < -x := by linarith
    have hb : -x ≤ pow2 k := by rw [abs_of_neg hx] at h; exact h
    obtain ⟨b1, b2⟩ := rv_le_of_le_pow2 hx' hk1 hk2 hb
    have nn := rv_nonneg f64 hx'.le
    refine ⟨true, rv f64 (-x), round_of_neg f64 neg hx b2, nn, ?_, ?_, ?_⟩
    · show |-(rv f64 (-x))| ≤ _; rw [abs_neg, abs_of_nonneg nn]; exact b1
    · intro _; show -(rv f64 (-x)) ≤ 0; linarith
    · intro h0; exact absurd hx (not_lt.mpr h0)
  · subst hx
    refine ⟨neg, 0, round_zero _ _, le_refl _, ?_, ?_, ?_⟩ <;> (cases neg <;> simp [fpSigned, hk0])
  · have hb : x ≤ pow2 k := by rw [abs_of_pos hx] at h; exact h
    obtain ⟨b1, b2⟩ := rv_le_of_le_pow2 hx hk1 hk2 hb
    have nn := rv_nonneg f64 hx.le
    refine ⟨false, rv f64 x, round_of_pos f64 neg hx b2, nn, ?_, ?_, ?_⟩
    · show |rv f64 x| ≤ _; rw [abs_of_nonneg nn]; exact b1
    · intro h0; exact absurd hx (not_lt.mpr h0)
    · intro _; exact nn

/-- **f64 saw**: for every finite phase in [0, 1), `phase * -2.0 + 1.0` evaluated in f64 is finite and within [−1, 1] -/
theorem fp_saw_range (n : Bool) (a : Rat) (h0 : 0 ≤ a) (h1 : a < 1) (hz : a = 0 ∨ n = false) :
    ∃ m q, sawWave (fpArith sinO) (.fin n a) = .fin m q ∧ 0 ≤ q ∧ q ≤ 1 := by
  have e2 : (fpArith sinO).ofNat Osc.sawMul = .fin false 2 := by
    rw [fp_ofNat sinO _ (by decide) (by decide)]; simp [Osc.sawMul]
  have e1 : (fpArith sinO).ofNat Osc.sawAdd = .fin false 1 := by
    rw [fp_ofNat sinO _ (by decide) (by decide)]; simp [Osc.sawAdd]
  unfold sawWave
  rw [e2, e1]
  show ∃ m q, add f64 (mul f64 (.fin n a) (.fin true 2)) (.fin false 1) = .fin m q ∧ _
  -- the product: a rounded value in [-2, 0]
  have hmul : ∃ m r, mul f64 (.fin n a) (.fin true 2) = .fin m r ∧ 0 ≤ r ∧ |fpSigned m r| ≤ pow2 1 ∧ fpSigned m r ≤ 0 := by
    have p21 : pow2 1 = 2 := by rw [pow2_eq]; norm_num
    cases n with
    | true =>
      have ha : a = 0 := by rcases hz with h | h; exact h; exact absurd h (by decide)
      subst ha
      refine ⟨false, 0, ?_, le_refl _, by simp [fpSigned, p21], by simp [fpSigned]⟩
      show round f64 false (0 * 2) = _
      rw [zero_mul, round_zero]
    | false =>
      obtain ⟨m, r, e, r0, rb, rneg, _⟩ := round_signed_bounds true (-(a * 2)) (k := 1) (by decide) (by decide)
        (by rw [abs_neg, abs_of_nonneg (by linarith), p21]; linarith)
      exact ⟨m, r, e, r0, rb, rneg (by linarith)⟩
  obtain ⟨m, r, em, r0, rb, rneg⟩ := hmul
  rw [em]
  have p20 : pow2 0 = 1 := pow2_zero
  have p21 : pow2 1 = 2 := by rw [pow2_eq]; norm_num
  have hx : |fpSigned m r + 1| ≤ pow2 0 := by
    rw [p20, abs_le]; rw [p21, abs_le] at rb; constructor <;> linarith [rb.1, rb.2]
  obtain ⟨m', q, e, q0, qb, _, _⟩ := round_signed_bounds (m && false) (fpSigned m r + 1) (k := 0) (by decide) (by decide) hx
  refine ⟨m', q, e, q0, ?_⟩
  rw [p20] at qb
  have : |q| ≤ 1 := by cases m' <;> simpa [fpSigned] using qb
  exact (abs_le.mp this).2

/-- **f64 square**: exactly `1.0` or `-1.0`, whatever the phase -/
theorem fp_square_values (ph : FP) :
    squareWave (fpArith sinO) ph = .fin false 1 ∨ squareWave (fpArith sinO) ph = .fin true 1 := by
  have e1 : (fpArith sinO).ofNat 1 = .fin false 1 := by
    rw [fp_ofNat sinO _ (by decide) (by decide)]; simp
  unfold squareWave
  split
  · left; exact e1
  · right; rw [e1]; rfl

end Dasp.Osc
