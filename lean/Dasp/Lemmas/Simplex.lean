import Mathlib.Tactic.Linarith
import Mathlib.Tactic.Ring
import Mathlib.Tactic.Positivity
import Mathlib.Tactic.NormNum
import Mathlib.Tactic.GCongr
import Mathlib.Algebra.Order.AbsoluteValue.Basic

/-! Exact-arithmetic amplitude bound for `simplex_noise_1d` (dasp_signal/src/lib.rs:2023-2082);
    moved from the round-0 prototype `Proto/Simplex.lean`.  Used by `Props/C17.lean`. -/
namespace Dasp.Simplex

/-- contribution profile of one corner at distance x: (1 - x²)⁴ · x -/
def f (x : ℚ) : ℚ := x * (1 - x ^ 2) ^ 4

theorem f_sum_identity (t : ℚ) :
    f (1/2 + t) + f (1/2 - t) = 81/256 - t^2 * (27/16 - (23/8) * t^2 + 7 * t^4 - 9 * t^6) := by
  unfold f; ring

/-- the two corner profiles never add up to more than 81/256 on [0,1] -/
theorem f_sum_le (x : ℚ) (h0 : 0 ≤ x) (h1 : x ≤ 1) : f x + f (1 - x) ≤ 81/256 := by
  obtain ⟨t, rfl⟩ : ∃ t, x = 1/2 + t := ⟨x - 1/2, by ring⟩
  have hx' : 1 - (1/2 + t) = 1/2 - t := by ring
  rw [hx', f_sum_identity]
  have hu0 : 0 ≤ t^2 := by positivity
  have hu1 : t^2 ≤ 1/4 := by nlinarith
  -- h(u) = 27/16 - 23/8 u + 7 u² - 9 u³ ≥ 27/16 - 23/32 - 9/64 > 0 on [0, 1/4]
  have hu3 : t^6 ≤ 1/64 := by
    have : t^6 = (t^2)^3 := by ring
    rw [this]
    calc (t^2)^3 ≤ (1/4)^3 := by gcongr
      _ = 1/64 := by norm_num
  have hu2 : 0 ≤ t^4 := by positivity
  have hpos : 0 ≤ 27/16 - (23/8) * t^2 + 7 * t^4 - 9 * t^6 := by nlinarith
  nlinarith [mul_nonneg hu0 hpos]

/-- |g0·f-part + g1·f-part| with |g| ≤ 8: the noise before scaling is at most 2.53125, so 0.395× it is < 1 -/
theorem simplex_bound (x0 g0 g1 : ℚ) (h0 : 0 ≤ x0) (h1 : x0 < 1) (hg0 : |g0| ≤ 8) (hg1 : |g1| ≤ 8) :
    |(395/1000) * ((1 - x0^2)^4 * (g0 * x0) + (1 - (x0 - 1)^2)^4 * (g1 * (x0 - 1)))| ≤ 99984375/100000000 := by
  have hf := f_sum_le x0 h0 (le_of_lt h1)
  have e0 : (1 - x0^2)^4 * (g0 * x0) = g0 * f x0 := by unfold f; ring
  have e1 : (1 - (x0 - 1)^2)^4 * (g1 * (x0 - 1)) = -(g1 * f (1 - x0)) := by unfold f; ring
  rw [e0, e1]
  have hfx : 0 ≤ f x0 := by unfold f; have : 0 ≤ (1 - x0^2)^4 := by positivity
                            exact mul_nonneg h0 this
  have hfy : 0 ≤ f (1 - x0) := by unfold f; have : 0 ≤ (1 - (1 - x0)^2)^4 := by positivity
                                  exact mul_nonneg (by linarith) this
  have b0 : |g0 * f x0| ≤ 8 * f x0 := by rw [abs_mul, abs_of_nonneg hfx]; exact mul_le_mul_of_nonneg_right hg0 hfx
  have b1 : |g1 * f (1 - x0)| ≤ 8 * f (1 - x0) := by rw [abs_mul, abs_of_nonneg hfy]; exact mul_le_mul_of_nonneg_right hg1 hfy
  have tri : |g0 * f x0 + -(g1 * f (1 - x0))| ≤ |g0 * f x0| + |g1 * f (1 - x0)| := by
    have := abs_add_le (g0 * f x0) (-(g1 * f (1 - x0))); rwa [abs_neg] at this
  rw [abs_mul, abs_of_nonneg (by norm_num : (0:ℚ) ≤ 395/1000)]
  nlinarith


end Dasp.Simplex
