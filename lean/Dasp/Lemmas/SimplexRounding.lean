import Dasp.Lemmas.Osc
/-!
# `simplex_noise_1d` in ROUNDED arithmetic (C17, "simplex-noise outputs always lie within [-1, 1]")

`rndRatArith rnd sinO` is the exact arithmetic of `Lemmas/Osc.lean` with every `+ − × ÷` and every
decimal literal followed by one application of a rounding function `rnd` (`floor`, the casts between
`i64` and `f64` of the integers that occur — |i| ≤ 2^16 — and integer literals are exact).  `AbsRnd rnd e`
is all that is assumed: on the range `|y| ≤ 32` one rounding moves a value by at most `e`.  For IEEE
binary64 `e = 32·2^−53 + 2^−1075 < 2^−47` (`Lemmas/RoundRel.lean: rs_err`).

Result: the SAME `simplexNoise1d` the driver runs at binary64 differs from its exact value by at most
`516·e`, hence stays within `[−1, 1]` whenever `516·e ≤ 1.5625·10^−4` — the margin the exact bound
`0.99984375` leaves.
-/
set_option linter.unusedSectionVars false
set_option linter.unusedVariables false

namespace Dasp.Osc
open Dasp.Gen

/-- exact arithmetic with one rounding after each of `+ − × ÷` and each decimal literal -/
def rndRatArith (rnd : Rat → Rat) (sinO : Rat → Rat) : Arith Rat :=
  { ratArith sinO with
    ofDec := fun m e => rnd ((m : Rat) / ((10 ^ e : Nat) : Rat))
    add := fun a b => rnd (a + b)
    sub := fun a b => rnd (a - b)
    mul := fun a b => rnd (a * b)
    div := fun a b => rnd (a / b) }

/-- one rounding moves a value of magnitude ≤ 32 by at most `e`, and `e` is small -/
structure AbsRnd (rnd : Rat → Rat) (e : Rat) : Prop where
  e0 : 0 ≤ e
  e1 : e ≤ 1 / 1048576
  err : ∀ y, |y| ≤ 32 → |rnd y - y| ≤ e

variable {rnd : Rat → Rat} {e : Rat}

/-- `â` approximates `a` within `k·e` -/
def Ap (e : Rat) (k : Rat) (a a' : Rat) : Prop := |a' - a| ≤ k * e

theorem Ap.exact (a : Rat) : Ap e 0 a a := by simp [Ap]

theorem ap_add (ok : AbsRnd rnd e) {ka kb A B a a' b b' : Rat} (ha : Ap e ka a a') (hb : Ap e kb b b')
    (hA : |a| ≤ A) (hB : |b| ≤ B) (hk : 0 ≤ ka ∧ 0 ≤ kb) (hr : A + B + (ka + kb) * e ≤ 32) :
    Ap e (ka + kb + 1) (a + b) (rnd (a' + b')) := by
  unfold Ap at *
  have h1 := abs_le.mp ha; have h2 := abs_le.mp hb; have h3 := abs_le.mp hA; have h4 := abs_le.mp hB
  have hmag : |a' + b'| ≤ 32 := by
    rw [abs_le]; constructor <;> nlinarith
  have hr' := abs_le.mp (ok.err _ hmag)
  rw [abs_le]; constructor <;> nlinarith

theorem ap_sub (ok : AbsRnd rnd e) {ka kb A B a a' b b' : Rat} (ha : Ap e ka a a') (hb : Ap e kb b b')
    (hA : |a| ≤ A) (hB : |b| ≤ B) (hk : 0 ≤ ka ∧ 0 ≤ kb) (hr : A + B + (ka + kb) * e ≤ 32) :
    Ap e (ka + kb + 1) (a - b) (rnd (a' - b')) := by
  unfold Ap at *
  have h1 := abs_le.mp ha; have h2 := abs_le.mp hb; have h3 := abs_le.mp hA; have h4 := abs_le.mp hB
  have hmag : |a' - b'| ≤ 32 := by
    rw [abs_le]; constructor <;> nlinarith
  have hr' := abs_le.mp (ok.err _ hmag)
  rw [abs_le]; constructor <;> nlinarith

/-- product: `|â·b̂ − a·b| ≤ A·kb·e + B·ka·e + ka·kb·e²`, then one rounding; `e² ≤ e/2^20` absorbs the
    quadratic term into `+1` as long as `ka·kb ≤ 2^20` -/
theorem ap_mul (ok : AbsRnd rnd e) {ka kb A B a a' b b' : Rat} (ha : Ap e ka a a') (hb : Ap e kb b b')
    (hA : |a| ≤ A) (hB : |b| ≤ B) (hk : 0 ≤ ka ∧ 0 ≤ kb) (hA0 : 0 ≤ A) (hB0 : 0 ≤ B) (hq : ka * kb ≤ 1048576)
    (hr : (A + ka * e) * (B + kb * e) ≤ 32) :
    Ap e (A * kb + B * ka + 2) (a * b) (rnd (a' * b')) := by
  unfold Ap at *
  have he0 := ok.e0; have he1 := ok.e1
  have hda : |a' - a| ≤ ka * e := ha
  have hdb : |b' - b| ≤ kb * e := hb
  have hka := mul_nonneg hk.1 he0
  have hkb := mul_nonneg hk.2 he0
  -- magnitudes of the computed operands
  have ha' : |a'| ≤ A + ka * e := by
    have := abs_add_le (a' - a) a; rw [sub_add_cancel] at this; linarith
  have hb' : |b'| ≤ B + kb * e := by
    have := abs_add_le (b' - b) b; rw [sub_add_cancel] at this; linarith
  have hmag : |a' * b'| ≤ 32 := by
    rw [abs_mul]
    calc |a'| * |b'| ≤ (A + ka * e) * (B + kb * e) :=
          mul_le_mul ha' hb' (abs_nonneg _) (by linarith)
      _ ≤ 32 := hr
  have hr' := ok.err _ hmag
  -- exact product error
  have hprod : |a' * b' - a * b| ≤ A * (kb * e) + B * (ka * e) + (ka * e) * (kb * e) := by
    have e1 : a' * b' - a * b = a * (b' - b) + b * (a' - a) + (a' - a) * (b' - b) := by ring
    rw [e1]
    have t1 : |a * (b' - b)| ≤ A * (kb * e) := by
      rw [abs_mul]; exact mul_le_mul hA hdb (abs_nonneg _) hA0
    have t2 : |b * (a' - a)| ≤ B * (ka * e) := by
      rw [abs_mul]; exact mul_le_mul hB hda (abs_nonneg _) hB0
    have t3 : |(a' - a) * (b' - b)| ≤ (ka * e) * (kb * e) := by
      rw [abs_mul]; exact mul_le_mul hda hdb (abs_nonneg _) hka
    calc |a * (b' - b) + b * (a' - a) + (a' - a) * (b' - b)|
        ≤ |a * (b' - b) + b * (a' - a)| + |(a' - a) * (b' - b)| := abs_add_le _ _
      _ ≤ |a * (b' - b)| + |b * (a' - a)| + |(a' - a) * (b' - b)| := by linarith [abs_add_le (a * (b' - b)) (b * (a' - a))]
      _ ≤ _ := by linarith
  have hquad : (ka * e) * (kb * e) ≤ e := by
    have : (ka * e) * (kb * e) = (ka * kb) * (e * e) := by ring
    rw [this]
    have hee : e * e ≤ e * (1 / 1048576) := mul_le_mul_of_nonneg_left he1 he0
    have hkk : 0 ≤ ka * kb := mul_nonneg hk.1 hk.2
    calc (ka * kb) * (e * e) ≤ (ka * kb) * (e * (1 / 1048576)) := mul_le_mul_of_nonneg_left hee hkk
      _ = (ka * kb) / 1048576 * e := by ring
      _ ≤ 1 * e := mul_le_mul_of_nonneg_right (by rw [div_le_one (by norm_num)]; exact hq) he0
      _ = e := one_mul e
  have : rnd (a' * b') - a * b = (rnd (a' * b') - a' * b') + (a' * b' - a * b) := by ring
  rw [this]
  refine le_trans (abs_add_le _ _) ?_
  have : (A * kb + B * ka + 2) * e = A * (kb * e) + B * (ka * e) + e + e := by ring
  rw [this]; linarith

theorem Ap.mono {k k' a a' : Rat} (h : Ap e k a a') (he : 0 ≤ e) (hk : k ≤ k') : Ap e k' a a' :=
  le_trans h (mul_le_mul_of_nonneg_right hk he)

/-- the integer gradient `grad` multiplies by: `±(1 + (h & 7))` -/
def gradCoef (hash : Nat) : Rat :=
  if ((hash &&& Osc.gradMask) &&& Osc.gradSign != 0) = true
  then -(((1 + ((hash &&& Osc.gradMask) &&& Osc.gradMag) : Nat) : Rat))
  else (((1 + ((hash &&& Osc.gradMask) &&& Osc.gradMag) : Nat) : Rat))

theorem gradCoef_abs (hash : Nat) : |gradCoef hash| ≤ 8 := by
  have hm : (hash &&& Osc.gradMask) &&& Osc.gradMag ≤ 7 := by
    have := @Nat.and_le_right (hash &&& Osc.gradMask) Osc.gradMag
    simpa [Osc.gradMag] using this
  have hb : (0 : Rat) ≤ ((1 + ((hash &&& Osc.gradMask) &&& Osc.gradMag) : Nat) : Rat) ∧
      ((1 + ((hash &&& Osc.gradMask) &&& Osc.gradMag) : Nat) : Rat) ≤ 8 :=
    ⟨Nat.cast_nonneg _, by exact_mod_cast (show 1 + ((hash &&& Osc.gradMask) &&& Osc.gradMag) ≤ 8 by omega)⟩
  unfold gradCoef
  split
  · rw [abs_neg, abs_of_nonneg hb.1]; exact hb.2
  · rw [abs_of_nonneg hb.1]; exact hb.2

theorem grad_exact_eq (sinO : Rat → Rat) (hash : Nat) (x : Rat) :
    grad (ratArith sinO) hash x = gradCoef hash * x := by
  unfold gradCoef
  show (if ((hash &&& Osc.gradMask) &&& Osc.gradSign != 0) = true
      then -(((1 : Nat) : Rat) + ((((hash &&& Osc.gradMask) &&& Osc.gradMag : Nat) : Int) : Rat))
      else ((1 : Nat) : Rat) + ((((hash &&& Osc.gradMask) &&& Osc.gradMag : Nat) : Int) : Rat)) * x = _
  split <;> push_cast <;> ring

/-- `grad` in the rounded arithmetic: the same integer gradient (the sum `1 + k`, `k ≤ 7`, is exact — assumed
    of `rnd` on the integers `0..8` only) times `x`, rounded once -/
theorem grad_rnd_eq (sinO : Rat → Rat) (hint : ∀ n : Nat, n ≤ 8 → rnd (n : Rat) = (n : Rat)) (hash : Nat) (x : Rat) :
    grad (rndRatArith rnd sinO) hash x = rnd (gradCoef hash * x) := by
  have hm : (hash &&& Osc.gradMask) &&& Osc.gradMag ≤ 7 := by
    have := @Nat.and_le_right (hash &&& Osc.gradMask) Osc.gradMag
    simpa [Osc.gradMag] using this
  have hsum : rnd (((1 : Nat) : Rat) + ((((hash &&& Osc.gradMask) &&& Osc.gradMag : Nat) : Int) : Rat))
      = ((1 + ((hash &&& Osc.gradMask) &&& Osc.gradMag) : Nat) : Rat) := by
    have := hint (1 + ((hash &&& Osc.gradMask) &&& Osc.gradMag)) (by omega)
    push_cast at this ⊢; exact this
  unfold gradCoef
  show rnd ((if ((hash &&& Osc.gradMask) &&& Osc.gradSign != 0) = true
      then -(rnd (((1 : Nat) : Rat) + ((((hash &&& Osc.gradMask) &&& Osc.gradMag : Nat) : Int) : Rat)))
      else rnd (((1 : Nat) : Rat) + ((((hash &&& Osc.gradMask) &&& Osc.gradMag : Nat) : Int) : Rat))) * x) = _
  rw [hsum]

theorem abs_mul_le' {a b A B : Rat} (ha : |a| ≤ A) (hb : |b| ≤ B) : |a * b| ≤ A * B := by
  rw [abs_mul]; exact mul_le_mul ha hb (abs_nonneg _) (le_trans (abs_nonneg _) ha)

theorem prod_le32 {p q P Q : Rat} (hp : p ≤ P) (hq : q ≤ Q) (hp0 : 0 ≤ p) (hq0 : 0 ≤ q) (h : P * Q ≤ 32) : p * q ≤ 32 :=
  le_trans (mul_le_mul hp hq hq0 (le_trans hp0 hp)) h

/-- **the float simplex value is within `531·e` of the exact one** -/
theorem simplex_rounded_close (sinO : Rat → Rat) (ok : AbsRnd rnd e)
    (hint : ∀ n : Nat, n ≤ 8 → rnd (n : Rat) = (n : Rat))
    {x : Rat} (h0 : 0 ≤ x) (h1 : x < 65536) :
    |simplexNoise1d (rndRatArith rnd sinO) x - simplexNoise1d (ratArith sinO) x| ≤ 531 * e := by
  have he0 := ok.e0; have he1 := ok.e1
  -- k·e ≤ 1/1024 for every k ≤ 1024
  have hsm : ∀ k : Rat, 0 ≤ k → k ≤ 1024 → k * e ≤ 1 / 1024 := by
    intro k hk0 hk
    calc k * e ≤ 1024 * (1 / 1048576) := mul_le_mul hk he1 he0 (by norm_num)
      _ = 1 / 1024 := by norm_num
  set f : Rat := ((⌊x⌋ : Int) : Rat) with hf
  have hx0a : 0 ≤ x - f := sub_nonneg.mpr (Int.floor_le x)
  have hx0b : x - f < 1 := by have := Int.lt_floor_add_one x; rw [hf]; linarith
  set g0 := gradCoef (permHash ⌊x⌋) with hg0d
  set g1 := gradCoef (permHash (⌊x⌋ + 1)) with hg1d
  have hg0 : |g0| ≤ 8 := gradCoef_abs _
  have hg1 : |g1| ≤ 8 := gradCoef_abs _
  -- exact quantities
  set x0 := x - f with hx0
  set x1 := x0 - 1 with hx1
  have ax0 : |x0| ≤ 1 := by rw [abs_le]; constructor <;> linarith
  have ax1 : |x1| ≤ 1 := by rw [abs_le]; constructor <;> linarith
  have asq0 : |x0 * x0| ≤ 1 := by simpa using abs_mul_le' ax0 ax0
  have asq1 : |x1 * x1| ≤ 1 := by simpa using abs_mul_le' ax1 ax1
  have ata0 : |1 - x0 * x0| ≤ 1 := by
    have h := abs_le.mp asq0; have := mul_self_nonneg x0
    rw [abs_le]; constructor <;> linarith
  have ata1 : |1 - x1 * x1| ≤ 1 := by
    have h := abs_le.mp asq1; have := mul_self_nonneg x1
    rw [abs_le]; constructor <;> linarith
  have sq_le : ∀ t : Rat, |t| ≤ 1 → |t * t| ≤ 1 := by
    intro t ht; simpa using abs_mul_le' ht ht
  have atb0 := sq_le _ ata0
  have atc0 := sq_le _ atb0
  have atb1 := sq_le _ ata1
  have atc1 := sq_le _ atb1
  have aG0 : |g0 * x0| ≤ 8 := by simpa using abs_mul_le' hg0 ax0
  have aG1 : |g1 * x1| ≤ 8 := by simpa using abs_mul_le' hg1 ax1
  have an0 : |(1 - x0 * x0) * (1 - x0 * x0) * ((1 - x0 * x0) * (1 - x0 * x0)) * (g0 * x0)| ≤ 8 := by
    simpa using abs_mul_le' atc0 aG0
  have an1 : |(1 - x1 * x1) * (1 - x1 * x1) * ((1 - x1 * x1) * (1 - x1 * x1)) * (g1 * x1)| ≤ 8 := by
    simpa using abs_mul_le' atc1 aG1
  -- the approximation chain
  have one_ex : Ap e 0 (1 : Rat) 1 := Ap.exact 1
  have a1 : |(1 : Rat)| ≤ 1 := by norm_num
  have px0 : Ap e 1 x0 (rnd (x - f)) := by
    unfold Ap
    have := ok.err (x - f) (by rw [abs_le]; constructor <;> linarith)
    simpa [hx0] using this
  have c1 : ∀ k : Rat, 0 ≤ k → k ≤ 1024 → (1 : Rat) + 1 + k * e ≤ 32 := by
    intro k a b; have := hsm k a b; linarith
  have px1 : Ap e 2 x1 (rnd (rnd (x - f) - 1)) :=
    (ap_sub ok px0 one_ex ax0 a1 ⟨by norm_num, le_refl _⟩ (by have := hsm (1 + 0) (by norm_num) (by norm_num); linarith)).mono he0 (by norm_num)
  -- products of magnitudes ≤ 1 or 8 with tiny slack stay below 32
  have pm : ∀ (A B ka kb : Rat), 0 ≤ A → 0 ≤ B → 0 ≤ ka → 0 ≤ kb → ka ≤ 1024 → kb ≤ 1024 → (A + 1 / 1024) * (B + 1 / 1024) ≤ 32 →
      (A + ka * e) * (B + kb * e) ≤ 32 := by
    intro A B ka kb hA hB hka hkb hka' hkb' h
    exact prod_le32 (by have := hsm ka hka hka'; linarith) (by have := hsm kb hkb hkb'; linarith)
      (by have := mul_nonneg hka he0; linarith) (by have := mul_nonneg hkb he0; linarith) h
  have psq0 := (ap_mul ok px0 px0 ax0 ax0 ⟨by norm_num, by norm_num⟩ (by norm_num) (by norm_num) (by norm_num)
    (pm 1 1 1 1 (by norm_num) (by norm_num) (by norm_num) (by norm_num) (by norm_num) (by norm_num) (by norm_num))).mono he0 (show (1 : Rat) * 1 + 1 * 1 + 2 ≤ 4 by norm_num)
  have pta0 := (ap_sub ok one_ex psq0 a1 asq0 ⟨le_refl _, by norm_num⟩ (by have := hsm (0 + 4) (by norm_num) (by norm_num); linarith)).mono he0 (show (0 : Rat) + 4 + 1 ≤ 5 by norm_num)
  have ptb0 := (ap_mul ok pta0 pta0 ata0 ata0 ⟨by norm_num, by norm_num⟩ (by norm_num) (by norm_num) (by norm_num)
    (pm 1 1 5 5 (by norm_num) (by norm_num) (by norm_num) (by norm_num) (by norm_num) (by norm_num) (by norm_num))).mono he0 (show (1 : Rat) * 5 + 1 * 5 + 2 ≤ 12 by norm_num)
  have ptc0 := (ap_mul ok ptb0 ptb0 atb0 atb0 ⟨by norm_num, by norm_num⟩ (by norm_num) (by norm_num) (by norm_num)
    (pm 1 1 12 12 (by norm_num) (by norm_num) (by norm_num) (by norm_num) (by norm_num) (by norm_num) (by norm_num))).mono he0 (show (1 : Rat) * 12 + 1 * 12 + 2 ≤ 26 by norm_num)
  have pG0 := (ap_mul ok (Ap.exact (e := e) g0) px0 hg0 ax0 ⟨le_refl _, by norm_num⟩ (by norm_num) (by norm_num) (by norm_num)
    (pm 8 1 0 1 (by norm_num) (by norm_num) (by norm_num) (by norm_num) (by norm_num) (by norm_num) (by norm_num))).mono he0 (show (8 : Rat) * 1 + 1 * 0 + 2 ≤ 10 by norm_num)
  have pn0 := (ap_mul ok ptc0 pG0 atc0 aG0 ⟨by norm_num, by norm_num⟩ (by norm_num) (by norm_num) (by norm_num)
    (pm 1 8 26 10 (by norm_num) (by norm_num) (by norm_num) (by norm_num) (by norm_num) (by norm_num) (by norm_num))).mono he0 (show (1 : Rat) * 10 + 8 * 26 + 2 ≤ 220 by norm_num)
  have psq1 := (ap_mul ok px1 px1 ax1 ax1 ⟨by norm_num, by norm_num⟩ (by norm_num) (by norm_num) (by norm_num)
    (pm 1 1 2 2 (by norm_num) (by norm_num) (by norm_num) (by norm_num) (by norm_num) (by norm_num) (by norm_num))).mono he0 (show (1 : Rat) * 2 + 1 * 2 + 2 ≤ 6 by norm_num)
  have pta1 := (ap_sub ok one_ex psq1 a1 asq1 ⟨le_refl _, by norm_num⟩ (by have := hsm (0 + 6) (by norm_num) (by norm_num); linarith)).mono he0 (show (0 : Rat) + 6 + 1 ≤ 7 by norm_num)
  have ptb1 := (ap_mul ok pta1 pta1 ata1 ata1 ⟨by norm_num, by norm_num⟩ (by norm_num) (by norm_num) (by norm_num)
    (pm 1 1 7 7 (by norm_num) (by norm_num) (by norm_num) (by norm_num) (by norm_num) (by norm_num) (by norm_num))).mono he0 (show (1 : Rat) * 7 + 1 * 7 + 2 ≤ 16 by norm_num)
  have ptc1 := (ap_mul ok ptb1 ptb1 atb1 atb1 ⟨by norm_num, by norm_num⟩ (by norm_num) (by norm_num) (by norm_num)
    (pm 1 1 16 16 (by norm_num) (by norm_num) (by norm_num) (by norm_num) (by norm_num) (by norm_num) (by norm_num))).mono he0 (show (1 : Rat) * 16 + 1 * 16 + 2 ≤ 34 by norm_num)
  have pG1 := (ap_mul ok (Ap.exact (e := e) g1) px1 hg1 ax1 ⟨le_refl _, by norm_num⟩ (by norm_num) (by norm_num) (by norm_num)
    (pm 8 1 0 2 (by norm_num) (by norm_num) (by norm_num) (by norm_num) (by norm_num) (by norm_num) (by norm_num))).mono he0 (show (8 : Rat) * 2 + 1 * 0 + 2 ≤ 18 by norm_num)
  have pn1 := (ap_mul ok ptc1 pG1 atc1 aG1 ⟨by norm_num, by norm_num⟩ (by norm_num) (by norm_num) (by norm_num)
    (pm 1 8 34 18 (by norm_num) (by norm_num) (by norm_num) (by norm_num) (by norm_num) (by norm_num) (by norm_num))).mono he0 (show (1 : Rat) * 18 + 8 * 34 + 2 ≤ 292 by norm_num)
  have ps := (ap_add ok pn0 pn1 an0 an1 ⟨by norm_num, by norm_num⟩
    (by have := hsm (220 + 292) (by norm_num) (by norm_num); linarith)).mono he0 (show (220 : Rat) + 292 + 1 ≤ 513 by norm_num)
  have pc : Ap e 1 (395 / 1000 : Rat) (rnd (395 / 1000)) := by
    unfold Ap; have := ok.err (395 / 1000) (by rw [abs_le]; constructor <;> norm_num); simpa using this
  have ac : |(395 / 1000 : Rat)| ≤ 1 := by rw [abs_le]; constructor <;> norm_num
  have as_ : |(1 - x0 * x0) * (1 - x0 * x0) * ((1 - x0 * x0) * (1 - x0 * x0)) * (g0 * x0) +
      (1 - x1 * x1) * (1 - x1 * x1) * ((1 - x1 * x1) * (1 - x1 * x1)) * (g1 * x1)| ≤ 16 :=
    le_trans (abs_add_le _ _) (by linarith)
  have pout := ap_mul ok pc ps ac as_ ⟨by norm_num, by norm_num⟩ (by norm_num) (by norm_num) (by norm_num)
    (pm 1 16 1 513 (by norm_num) (by norm_num) (by norm_num) (by norm_num) (by norm_num) (by norm_num) (by norm_num))
  -- identify the two sides with the model
  have hsc : ((Osc.scaleNum : Nat) : Rat) / ((10 ^ Osc.scaleExp : Nat) : Rat) = 395 / 1000 := by
    norm_num [Osc.scaleNum, Osc.scaleExp]
  have hfl : (rndRatArith rnd sinO).toI64 ((rndRatArith rnd sinO).floor x) = ⌊x⌋ := toI64_floor sinO h0 h1
  have keyR : simplexNoise1d (rndRatArith rnd sinO) x =
      rnd (rnd (395 / 1000) * rnd (
        rnd (rnd (rnd (rnd (1 - rnd (rnd (x - f) * rnd (x - f))) * rnd (1 - rnd (rnd (x - f) * rnd (x - f)))) *
                  rnd (rnd (1 - rnd (rnd (x - f) * rnd (x - f))) * rnd (1 - rnd (rnd (x - f) * rnd (x - f))))) *
             rnd (g0 * rnd (x - f))) +
        rnd (rnd (rnd (rnd (1 - rnd (rnd (rnd (x - f) - 1) * rnd (rnd (x - f) - 1))) * rnd (1 - rnd (rnd (rnd (x - f) - 1) * rnd (rnd (x - f) - 1)))) *
                  rnd (rnd (1 - rnd (rnd (rnd (x - f) - 1) * rnd (rnd (x - f) - 1))) * rnd (1 - rnd (rnd (rnd (x - f) - 1) * rnd (rnd (x - f) - 1))))) *
             rnd (g1 * rnd (rnd (x - f) - 1))))) := by
    unfold simplexNoise1d
    simp only [hfl, grad_rnd_eq sinO hint]
    show rnd (rnd (((Osc.scaleNum : Nat) : Rat) / ((10 ^ Osc.scaleExp : Nat) : Rat)) * _) = _
    rw [hsc]
    simp only [rndRatArith, ratArith, Nat.cast_one, hf, hg0d, hg1d]
  have keyE : simplexNoise1d (ratArith sinO) x =
      (395 / 1000) * ((1 - x0 * x0) * (1 - x0 * x0) * ((1 - x0 * x0) * (1 - x0 * x0)) * (g0 * x0) +
        (1 - x1 * x1) * (1 - x1 * x1) * ((1 - x1 * x1) * (1 - x1 * x1)) * (g1 * x1)) := by
    unfold simplexNoise1d
    simp only [toI64_floor sinO h0 h1, grad_exact_eq sinO]
    show (((Osc.scaleNum : Nat) : Rat) / ((10 ^ Osc.scaleExp : Nat) : Rat)) * _ = _
    rw [hsc]
    simp only [ratArith, Nat.cast_one, hx0, hx1, hf, hg0d, hg1d]
  rw [keyR, keyE]
  have := pout
  unfold Ap at this
  refine le_trans this ?_
  have : (1 : Rat) * 513 + 16 * 1 + 2 = 531 := by norm_num
  rw [this]

end Dasp.Osc
