import Dasp.Gen.Types
import Mathlib.Tactic.Linarith
import Mathlib.Tactic.Ring
import Mathlib.Tactic.Push
/-!
# Helper lemmas for C15 (custom-width sample types)

Generic over a `TypeSpec` satisfying the side conditions `WF` (TOTAL = MAX − MIN + 1,
TOTAL ∣ 2^repbits, 0 in range (so that one wrap suffices after `+ − neg`), the range and the intermediate results of `+ − neg` on in-range operands
fit the backing type).  `Props/C15.lean` instantiates them for the eight generated records by
`decide`.  The statements are about `Dasp.Gen.Types.macroDef`, the macro bodies regenerated
from `types.rs` on every run.
-/
namespace Dasp.Types
open Dasp Dasp.Gen.Types

/-- side conditions on the generated constants of one type -/
def WF (ts : TypeSpec) : Prop :=
  ts.total = ts.max - ts.min + 1 ∧ 0 < ts.total ∧
  ts.rep.lo ≤ ts.min ∧ ts.max ≤ ts.rep.hi ∧
  ts.rep.lo ≤ ts.min + ts.min ∧ ts.max + ts.max ≤ ts.rep.hi ∧
  ts.rep.lo ≤ ts.min - ts.max ∧ ts.max - ts.min ≤ ts.rep.hi ∧
  ts.rep.lo ≤ - ts.max ∧ - ts.min ≤ ts.rep.hi ∧
  ts.rep.modulus % ts.total = 0 ∧
  ts.min ≤ ts.eq ∧ ts.eq ≤ ts.max ∧
  ts.min ≤ 0 ∧ 0 ≤ ts.max
instance (ts : TypeSpec) : Decidable (WF ts) := by unfold WF; infer_instance

/-- the widening `From` lists only name sources whose whole range fits (Bool-valued so that it
    is decided by evaluation) -/
def wfFromB (all : List TypeSpec) (ts : TypeSpec) : Bool :=
  ts.fromPrims.all (fun p => decide (ts.min ≤ p.lo) && decide (p.hi ≤ ts.max)) &&
  ts.fromCustom.all (fun ic => match all[ic.1]? with
    | some s => decide (s.rep = ic.2) && decide (ts.min ≤ s.min) && decide (s.max ≤ ts.max)
    | none => false)

theorem wrap_id (t : ITy) (v : Int) (h1 : t.lo ≤ v) (h2 : v ≤ t.hi) : t.wrap v = v := by
  cases t <;> simp [ITy.wrap] at * <;> omega

theorem wrap_range (t : ITy) (v : Int) : t.lo ≤ t.wrap v ∧ t.wrap v ≤ t.hi := by
  cases t <;> simp [ITy.wrap] <;> omega

theorem wrap_eq_sub (t : ITy) (v : Int) : ∃ k : Int, t.wrap v = v - t.modulus * k := by
  refine ⟨(v - t.lo) / t.modulus, ?_⟩
  unfold ITy.wrap; rw [Int.emod_def]; ring

theorem inR_iff (t : ITy) (v : Int) : inR t v = true ↔ t.lo ≤ v ∧ v ≤ t.hi := by
  simp only [inR, Bool.and_eq_true, decide_eq_true_eq]

/-! ### the specification function `wrapT` -/

theorem wrapT_inRange (ts : TypeSpec) (wf : WF ts) (v : Int) : ts.inRange (wrapT ts v) := by
  obtain ⟨htot, hpos, _⟩ := wf
  have h1 := Int.emod_nonneg (v - ts.min) (ne_of_gt hpos)
  have h2 := Int.emod_lt_of_pos (v - ts.min) hpos
  unfold TypeSpec.inRange wrapT; omega

theorem wrapT_id (ts : TypeSpec) (wf : WF ts) (v : Int) (h : ts.inRange v) : wrapT ts v = v := by
  obtain ⟨htot, hpos, _⟩ := wf
  unfold TypeSpec.inRange at h; unfold wrapT
  rw [Int.emod_eq_of_lt (by omega) (by omega)]; omega

theorem wrapT_add_mul (ts : TypeSpec) (v k : Int) : wrapT ts (v + k * ts.total) = wrapT ts v := by
  unfold wrapT
  have : v + k * ts.total - ts.min = (v - ts.min) + k * ts.total := by ring
  rw [this, Int.add_mul_emod_self_right]

/-- `wrapT v` is the unique in-range value congruent to `v` modulo TOTAL -/
theorem wrapT_unique (ts : TypeSpec) (wf : WF ts) (v r k : Int) (hr : ts.inRange r) (hk : r = v + k * ts.total) :
    r = wrapT ts v := by
  rw [← wrapT_add_mul ts v k, ← hk, wrapT_id ts wf r hr]

theorem wrapT_congr (ts : TypeSpec) (v : Int) : ∃ k : Int, wrapT ts v = v + k * ts.total := by
  refine ⟨- ((v - ts.min) / ts.total), ?_⟩
  unfold wrapT; rw [Int.emod_def]; ring

/-- the backing-type wrap-around is invisible modulo TOTAL because TOTAL ∣ 2^repbits -/
theorem wrapT_repwrap (ts : TypeSpec) (wf : WF ts) (v : Int) : wrapT ts (ts.rep.wrap v) = wrapT ts v := by
  obtain ⟨k, hk⟩ := wrap_eq_sub ts.rep v
  have hd : ts.rep.modulus % ts.total = 0 := wf.2.2.2.2.2.2.2.2.2.2.1
  obtain ⟨q, hq⟩ := Int.dvd_of_emod_eq_zero hd
  rw [hk, hq]
  have : v - ts.total * q * k = v + (-(q * k)) * ts.total := by ring
  rw [this, wrapT_add_mul]

/-! ### the two `while` loops of `wrap_overflow`, as generated -/

abbrev cDown : Cond := .cmp .gt .self0 .maxRep
abbrev uDown : TExpr := .sub .self0 .total
abbrev cUp : Cond := .cmp .lt .self0 .minRep
abbrev uUp : TExpr := .add .self0 .total

theorem loopDown_spec (ts : TypeSpec) (wf : WF ts) (n : Nat) (v : Int)
    (hv1 : ts.rep.lo ≤ v) (hv2 : v ≤ ts.rep.hi) (hf : v - ts.max ≤ n * ts.total) :
    loopVal ts cDown uDown n v ≤ ts.max ∧ ts.rep.lo ≤ loopVal ts cDown uDown n v ∧
    (∃ k : Nat, loopVal ts cDown uDown n v = v - k * ts.total) ∧
    (v ≤ ts.max → loopVal ts cDown uDown n v = v) ∧
    (ts.max < v → ts.max - ts.total < loopVal ts cDown uDown n v) ∧
    loopOk ts cDown uDown n v = true := by
  obtain ⟨htot, hpos, hlo, hhi, _⟩ := wf
  induction n generalizing v with
  | zero =>
    have : v ≤ ts.max := by simp at hf; omega
    simp only [loopVal, loopOk]
    exact ⟨this, hv1, ⟨0, by simp⟩, fun _ => trivial, fun h => by omega, trivial⟩
  | succ n ih =>
    by_cases hgt : v > ts.max
    · have hw : ts.rep.wrap (v - ts.total) = v - ts.total := wrap_id _ _ (by omega) (by omega)
      have hf' : v - ts.total - ts.max ≤ n * ts.total := by
        have : ((n + 1 : Nat) : Int) * ts.total = n * ts.total + ts.total := by push_cast; ring
        rw [this] at hf; omega
      obtain ⟨a, b, ⟨k, hk⟩, c, d, e⟩ := ih (v - ts.total) (by omega) (by omega) hf'
      simp only [loopVal, loopOk, Cond.val, Cond.ok, valE, okE, envS, Cmp.holds, hgt, decide_true, if_true, hw,
        Bool.and_true, Bool.true_and]
      refine ⟨a, b, ⟨k + 1, by rw [hk]; push_cast; ring⟩, fun h => by omega, fun _ => ?_, ?_⟩
      · by_cases h2 : ts.max < v - ts.total
        · exact d h2
        · rw [c (by omega)]; omega
      · simp only [inR, e, Bool.and_true, Bool.and_eq_true, decide_eq_true_eq]; omega
    · simp only [loopVal, loopOk, Cond.val, Cond.ok, valE, okE, envS, Cmp.holds, hgt, decide_false, Bool.false_eq_true, if_false,
        Bool.and_true, Bool.true_and]
      exact ⟨by omega, hv1, ⟨0, by simp⟩, fun _ => trivial, fun h => h.elim, by simp⟩

theorem loopUp_spec (ts : TypeSpec) (wf : WF ts) (n : Nat) (v : Int)
    (hv1 : ts.rep.lo ≤ v) (hv2 : v ≤ ts.rep.hi) (hf : ts.min - v ≤ n * ts.total) :
    ts.min ≤ loopVal ts cUp uUp n v ∧ loopVal ts cUp uUp n v ≤ ts.rep.hi ∧
    (∃ k : Nat, loopVal ts cUp uUp n v = v + k * ts.total) ∧
    (ts.min ≤ v → loopVal ts cUp uUp n v = v) ∧
    (v < ts.min → loopVal ts cUp uUp n v < ts.min + ts.total) ∧
    loopOk ts cUp uUp n v = true := by
  obtain ⟨htot, hpos, hlo, hhi, _⟩ := wf
  induction n generalizing v with
  | zero =>
    have : ts.min ≤ v := by simp at hf; omega
    simp only [loopVal, loopOk]
    exact ⟨this, hv2, ⟨0, by simp⟩, fun _ => trivial, fun h => by omega, trivial⟩
  | succ n ih =>
    by_cases hlt : v < ts.min
    · have hw : ts.rep.wrap (v + ts.total) = v + ts.total := wrap_id _ _ (by omega) (by omega)
      have hf' : ts.min - (v + ts.total) ≤ n * ts.total := by
        have : ((n + 1 : Nat) : Int) * ts.total = n * ts.total + ts.total := by push_cast; ring
        rw [this] at hf; omega
      obtain ⟨a, b, ⟨k, hk⟩, c, d, e⟩ := ih (v + ts.total) (by omega) (by omega) hf'
      simp only [loopVal, loopOk, Cond.val, Cond.ok, valE, okE, envS, Cmp.holds, hlt, decide_true, if_true, hw,
        Bool.and_true, Bool.true_and]
      refine ⟨a, b, ⟨k + 1, by rw [hk]; push_cast; ring⟩, fun h => by omega, fun _ => ?_, ?_⟩
      · by_cases h2 : v + ts.total < ts.min
        · exact d h2
        · rw [c (by omega)]; omega
      · simp only [inR, e, Bool.and_true, Bool.and_eq_true, decide_eq_true_eq]; omega
    · simp only [loopVal, loopOk, Cond.val, Cond.ok, valE, okE, envS, Cmp.holds, hlt, decide_false, Bool.false_eq_true, if_false,
        Bool.and_true, Bool.true_and]
      exact ⟨by omega, hv2, ⟨0, by simp⟩, fun _ => trivial, fun h => h.elim, by simp⟩


theorem fuel_enough (ts : TypeSpec) (wf : WF ts) (v : Int) :
    v - ts.max ≤ (fuel ts v : Nat) * ts.total ∧ ts.min - v ≤ (fuel ts v : Nat) * ts.total := by
  obtain ⟨_, hpos, _⟩ := wf
  have h1 : ((fuel ts v : Nat) : Int) ≤ (fuel ts v : Nat) * ts.total :=
    le_mul_of_one_le_right (by positivity) (by omega)
  have h2 : v - ts.max ≤ (fuel ts v : Nat) ∧ ts.min - v ≤ (fuel ts v : Nat) := by
    unfold fuel; omega
  omega

/-- `wrap_overflow` (both loops, as generated) on any backing-type value: the result is the
    value wrapped modulo TOTAL into range; both loops terminate within their fuel; no
    backing-type overflow occurs on the way (so the overflow-checked build does not panic). -/
theorem wrapFull_spec (ts : TypeSpec) (wf : WF ts) (dbg : Bool) (v : Int)
    (hv1 : ts.rep.lo ≤ v) (hv2 : v ≤ ts.rep.hi) :
    stmtsVal ts macroDef.wrapFull v = wrapT ts v ∧ stmtsOk ts dbg macroDef.wrapFull v = true := by
  have hwf := wf
  obtain ⟨htot, hpos, hlo, hhi, _⟩ := wf
  have hm : macroDef.wrapFull = [.whileSub cDown .total, .whileAdd cUp .total] := rfl
  obtain ⟨d1, d2, ⟨kd, hkd⟩, d4, d5, d6⟩ := loopDown_spec ts hwf (fuel ts v) v hv1 hv2 (fuel_enough ts hwf v).1
  generalize hx : loopVal ts cDown uDown (fuel ts v) v = x at *
  obtain ⟨u1, u2, ⟨ku, hku⟩, u4, u5, u6⟩ := loopUp_spec ts hwf (fuel ts x) x d2 (by omega) (fuel_enough ts hwf x).2
  generalize hr : loopVal ts cUp uUp (fuel ts x) x = r at *
  have hrmax : r ≤ ts.max := by
    by_cases h : ts.min ≤ x
    · rw [u4 h]; exact d1
    · have := u5 (by omega); omega
  have hspec : r = wrapT ts v :=
    wrapT_unique ts hwf v r ((ku : Int) - kd) ⟨u1, hrmax⟩ (by rw [hku, hkd]; ring)
  simp only [hm, stmtsVal, stmtsOk, Stmt.cond, Stmt.upd, hx, hr, loopDone, d6, u6, Cond.val, valE, envS, Cmp.holds,
    Bool.and_true, Bool.or_true, Bool.not_eq_true', Bool.and_eq_true]
  refine ⟨hspec, ?_, ?_⟩
  · exact decide_eq_false (by omega)
  · exact decide_eq_false (by omega)

/-- `wrap_overflow_once` as generated, on a backing-type value -/
theorem wrapOnce_spec (ts : TypeSpec) (wf : WF ts) (x : Int) (hx1 : ts.rep.lo ≤ x) (hx2 : x ≤ ts.rep.hi) :
    val0 ts (envS x) macroDef.wrapOnce = (if x > ts.max then x - ts.total else if x < ts.min then x + ts.total else x) ∧
    ok0 ts (envS x) macroDef.wrapOnce = true := by
  obtain ⟨htot, hpos, hlo, hhi, _⟩ := wf
  have hm : macroDef.wrapOnce = .ite cDown (.mk uDown) (.ite cUp (.mk uUp) .self_) := rfl
  simp only [hm, val0, ok0, Cond.val, Cond.ok, valE, okE, envS, Cmp.holds, Bool.and_true, Bool.true_and, decide_eq_true_eq]
  by_cases h1 : x > ts.max
  · have hw := wrap_id ts.rep (x - ts.total) (by omega) (by omega)
    have hi : inR ts.rep (x - ts.total) = true := (inR_iff _ _).2 ⟨by omega, by omega⟩
    simp [h1, hw, hi]
  · by_cases h2 : x < ts.min
    · have hw := wrap_id ts.rep (x + ts.total) (by omega) (by omega)
      have hi : inR ts.rep (x + ts.total) = true := (inR_iff _ _).2 ⟨by omega, by omega⟩
      simp [h1, h2, hw, hi]
    · simp [h1, h2]

/-- `new` as generated -/
theorem new_spec (ts : TypeSpec) (v : Int) :
    newRun ts macroDef v = (if ts.inRange v then some v else none) ∧ okO ts ⟨0, 0, v⟩ macroDef.newBody = true := by
  have hm : macroDef.newBody = .ite (.or (.cmp .gt .val .maxRep) (.cmp .lt .val .minRep)) .none (.some (.mk .val)) := rfl
  simp only [newRun, hm, valO, okO, val0, ok0, Cond.val, Cond.ok, valE, okE, Cmp.holds, TypeSpec.inRange]
  by_cases h1 : v > ts.max
  · have : ¬ (ts.min ≤ v ∧ v ≤ ts.max) := by omega
    simp [h1, this]
  · by_cases h2 : v < ts.min
    · have : ¬ (ts.min ≤ v ∧ v ≤ ts.max) := by omega
      simp [h2, this]
    · have : ts.min ≤ v ∧ v ≤ ts.max := by omega
      simp [h1, h2, this]

theorem opRun_ifDebug (ts : TypeSpec) (md : MacroDef) (dbg : Bool) (env : Env) (t e : Body) :
    opRun ts md dbg env (.ifDebug t e) = if dbg then opRun ts md dbg env t else opRun ts md dbg env e := by
  cases dbg <;> rfl

/-- `$T::new(x).expect(..)` in the debug-assertions build, where `x` computes the exact value
    `e` at the backing type: the exact value if it is in range, otherwise a panic (either the
    backing-type overflow check or the `expect`). -/
theorem newExpect_debug (ts : TypeSpec) (wf : WF ts) (env : Env) (x : TExpr) (e : Int)
    (hval : valE ts env x = ts.rep.wrap e) (hok : okE ts env x = inR ts.rep e) :
    opRun ts macroDef true env (.newExpect x) = if ts.inRange e then some e else none := by
  obtain ⟨htot, hpos, hlo, hhi, _⟩ := wf
  have hn := new_spec ts (ts.rep.wrap e)
  unfold newRun at hn
  simp only [opRun, opOk, opVal, okB, valB, hval, hok, hn.1, hn.2, Bool.not_true, Bool.false_or, Bool.and_true]
  by_cases hr : ts.rep.lo ≤ e ∧ e ≤ ts.rep.hi
  · have hw : ts.rep.wrap e = e := wrap_id _ _ hr.1 hr.2
    have hi : inR ts.rep e = true := (inR_iff _ _).2 hr
    rw [hw, hi]
    by_cases h : ts.inRange e <;> simp [h]
  · have hi : inR ts.rep e = false := by
      rw [Bool.eq_false_iff]; intro h; exact hr ((inR_iff _ _).1 h)
    have : ¬ ts.inRange e := by unfold TypeSpec.inRange; omega
    simp [hi, this]

/-- `$T(x).wrap_overflow_once()` in the release build, where the exact value `e` of `x` fits
    the backing type and is at most one TOTAL away from the range -/
theorem wrapOnce_release (ts : TypeSpec) (wf : WF ts) (env : Env) (x : TExpr) (e : Int)
    (hval : valE ts env x = ts.rep.wrap e) (h1 : ts.rep.lo ≤ e) (h2 : e ≤ ts.rep.hi)
    (h3 : ts.min - ts.total ≤ e) (h4 : e ≤ ts.max + ts.total) :
    opRun ts macroDef false env (.wrapOnce (.mk x)) = some (wrapT ts e) := by
  have hwf := wf
  obtain ⟨htot, hpos, hlo, hhi, _⟩ := wf
  have hw : ts.rep.wrap e = e := wrap_id _ _ h1 h2
  have ho := (wrapOnce_spec ts hwf e h1 h2).1
  simp only [opRun, opOk, opVal, okB, valB, hval, hw, ho, Bool.not_false, Bool.true_or, Bool.and_true, if_true]
  congr 1
  by_cases c1 : e > ts.max
  · rw [if_pos c1]
    exact wrapT_unique ts hwf e _ (-1) (by unfold TypeSpec.inRange; omega) (by ring)
  · rw [if_neg c1]
    by_cases c2 : e < ts.min
    · rw [if_pos c2]
      exact wrapT_unique ts hwf e _ 1 (by unfold TypeSpec.inRange; omega) (by ring)
    · rw [if_neg c2]
      exact (wrapT_id ts hwf e (by unfold TypeSpec.inRange; omega)).symm

/-- `From<$Rep>` as generated, in either build: wraps modulo TOTAL into range, terminates, never panics -/
theorem fromRun_spec (ts : TypeSpec) (wf : WF ts) (dbg : Bool) (v : Int) (hv1 : ts.rep.lo ≤ v) (hv2 : v ≤ ts.rep.hi) :
    fromRun ts macroDef dbg v = some (wrapT ts v) := by
  have hm : macroDef.fromRep = .wrapFull (.mk .val) := rfl
  have h := wrapFull_spec ts wf dbg v hv1 hv2
  simp only [fromRun, fromRepOk, fromRepVal, hm, okB, valB, valE, okE, h.1, h.2, Bool.or_true, Bool.and_true, if_true]

/-- `$T::from(x)` in the release build, `x` computing `e` at the backing type (with wrap-around) -/
theorem fromRep_release (ts : TypeSpec) (wf : WF ts) (env : Env) (x : TExpr) (e : Int)
    (hval : valE ts env x = ts.rep.wrap e) :
    opRun ts macroDef false env (.fromRep x) = some (wrapT ts e) := by
  have hr := wrap_range ts.rep e
  have h := fromRun_spec ts wf false (ts.rep.wrap e) hr.1 hr.2
  unfold fromRun at h
  have hok : fromRepOk ts macroDef false (ts.rep.wrap e) = true := by
    by_contra hc; simp [hc] at h
  simp only [hok, if_true, Option.some.injEq] at h
  simp only [opRun, opOk, opVal, okB, valB, hval, hok, h, Bool.not_false, Bool.true_or, Bool.true_and, if_true,
    wrapT_repwrap ts wf e]

end Dasp.Types
