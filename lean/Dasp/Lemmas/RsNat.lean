import Dasp.Lemmas.RoundRel
import Dasp.Lemmas.FloatConv
/-! small positive integers are fixed by the binary64 rounding (`n.0` / `n as f64` is exact for `0 < n ≤ 2^52`) -/
namespace Dasp

theorem rs_f64_nat (n : Nat) (hn : 0 < n) (hb : n ≤ 2 ^ 52) : rs f64 (n : Rat) = (n : Rat) := by
  have hg : onGrid f64 (n : Rat) := by
    have := onGrid_int_scaled f64 (by decide) (m := (n : Int)) (by exact_mod_cast hn)
      (by show (n : Int) ≤ 2 ^ (53 - 1); exact_mod_cast hb) 0 (by decide)
    simpa [pow2] using this
  have hpos : (0 : Rat) < n := by exact_mod_cast hn
  have : rs f64 (n : Rat) = rv f64 (n : Rat) := by simp [rs, not_lt.mpr (le_of_lt hpos), ne_of_gt hpos]
  rw [this, rv_id f64 hg]

end Dasp
