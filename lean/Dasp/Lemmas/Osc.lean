import Dasp.Model.Osc
import Dasp.Lemmas.Simplex
import Mathlib.Algebra.Order.Floor.Ring
import Mathlib.Data.Rat.Floor
import Mathlib.Tactic.Linarith
import Mathlib.Tactic.Ring
import Mathlib.Tactic.Positivity
import Mathlib.Tactic.NormNum
import Mathlib.Tactic.FieldSimp

/-! Lemmas about the oscillator model `Model/Osc.lean` at its exact-arithmetic instance
    `ratArith sinO` (and a few that hold for every arithmetic).  Used by `Props/C17.lean`. -/
namespace Dasp.Osc
open Dasp.Gen

/-! ## exact `fmod` -/

theorem ratTrunc_of_nonneg {q : Rat} (h : 0 ≤ q) : ratTrunc q = ⌊q⌋ := by
  unfold ratTrunc; rw [if_pos h]; rfl

/-- for x ≥ 0 and r > 0 the remainder lies in [0, r) -/
theorem ratRem_range {x r : Rat} (hx : 0 ≤ x) (hr : 0 < r) : 0 ≤ ratRem x r ∧ ratRem x r < r := by
  unfold ratRem
  have hq : 0 ≤ x / r := div_nonneg hx hr.le
  rw [ratTrunc_of_nonneg hq]
  have h1 : ((⌊x / r⌋ : Int) : Rat) ≤ x / r := Int.floor_le _
  have h2 : x / r < (⌊x / r⌋ : Int) + 1 := Int.lt_floor_add_one _
  have e : x = r * (x / r) := by field_simp
  constructor
  · have := mul_le_mul_of_nonneg_left h1 hr.le
    linarith
  · have := mul_lt_mul_of_pos_left h2 hr
    linarith

/-- `x % 1.0` in exact arithmetic is the fractional part -/
theorem ratRem_one {x : Rat} (hx : 0 ≤ x) : ratRem x 1 = Int.fract x := by
  unfold ratRem
  rw [div_one, ratTrunc_of_nonneg hx, one_mul]; rfl

/-! ## step sources -/

/-- the stated domain: rate > 0, every frequency finite (a rational) and ≥ 0 -/
def SrcOK : StepSrc Rat → Prop
  | .const s => 0 ≤ s
  | .hz rate frames _ => 0 < rate ∧ ∀ f ∈ frames, 0 ≤ f

variable (sinO : Rat → Rat)

theorem constHz_ok {rate hz : Rat} (hr : 0 < rate) (hh : 0 ≤ hz) : SrcOK (constHz (ratArith sinO) rate hz) := by
  show 0 ≤ hz / rate
  exact div_nonneg hh hr.le

theorem varHz_ok {rate : Rat} {fs : List Rat} (hr : 0 < rate) (hh : ∀ f ∈ fs, 0 ≤ f) : SrcOK (varHz rate fs) := ⟨hr, hh⟩

theorem step_ok {s : StepSrc Rat} (h : SrcOK s) : 0 ≤ (s.step (ratArith sinO)).1 ∧ SrcOK (s.step (ratArith sinO)).2 := by
  cases s with
  | const s => exact ⟨h, h⟩
  | hz rate fs n =>
    cases fs with
    | nil =>
      refine ⟨?_, h.1, h.2⟩
      show 0 ≤ ((0 : Nat) : Rat) / rate
      simp
    | cons f fs =>
      refine ⟨?_, h.1, fun g hg => h.2 g (List.mem_cons_of_mem _ hg)⟩
      show 0 ≤ f / rate
      exact div_nonneg (h.2 f (List.mem_cons_self ..)) h.1.le

/-! ## the phase invariant -/

/-- 0 ≤ phase < w, and the step source stays in the stated domain -/
def PhInv (w : Rat) (p : Phase Rat) : Prop := 0 ≤ p.next ∧ p.next < w ∧ SrcOK p.src

theorem phase_inv {w : Rat} (hw : 0 < w) {src : StepSrc Rat} (h : SrcOK src) : PhInv w (phase (ratArith sinO) src) := by
  refine ⟨?_, ?_, h⟩
  · show (0 : Rat) ≤ ((0 : Nat) : Rat); simp
  · show ((0 : Nat) : Rat) < w; simpa using hw

theorem nextPhaseWrappedTo_fst (A : Arith α) (p : Phase α) (w : α) : (nextPhaseWrappedTo A p w).1 = p.next := rfl

theorem nextPhaseWrappedTo_next (p : Phase Rat) (w : Rat) :
    (nextPhaseWrappedTo (ratArith sinO) p w).2.next = ratRem (p.next + (p.src.step (ratArith sinO)).1) w := rfl

theorem nextPhaseWrappedTo_inv {w : Rat} (hw : 0 < w) {p : Phase Rat} (h : PhInv w p) :
    PhInv w (nextPhaseWrappedTo (ratArith sinO) p w).2 := by
  obtain ⟨h0, _, hs⟩ := h
  obtain ⟨hs1, hs2⟩ := step_ok sinO hs
  have := ratRem_range (add_nonneg h0 hs1) hw
  exact ⟨this.1, this.2, hs2⟩

/-- one oscillator frame: advance the phase wrapped at `w`, map the yielded phase through `wave` -/
def oscStep (A : Arith α) (wave : α → α) (w : α) (p : Phase α) : α × Phase α :=
  let r := nextPhaseWrappedTo A p w; (wave r.1, r.2)

/-- every frame of a run of any length is `wave` of a phase in [0, w), and the invariant survives -/
theorem run_oscStep {w : Rat} (hw : 0 < w) (wave : Rat → Rat) :
    ∀ (n : Nat) (p : Phase Rat), PhInv w p →
      (∀ y ∈ (run (oscStep (ratArith sinO) wave w) n p).1, ∃ ph, 0 ≤ ph ∧ ph < w ∧ y = wave ph) ∧
      PhInv w (run (oscStep (ratArith sinO) wave w) n p).2 := by
  intro n
  induction n with
  | zero => intro p h; exact ⟨by simp [run], h⟩
  | succ n ih =>
    intro p h
    have h' := nextPhaseWrappedTo_inv sinO hw h
    obtain ⟨i1, i2⟩ := ih _ h'
    refine ⟨?_, i2⟩
    intro y hy
    simp only [run, List.mem_cons] at hy
    rcases hy with rfl | hy
    · exact ⟨p.next, h.1, h.2.1, rfl⟩
    · exact i1 y hy

theorem one_eq : (ratArith sinO).ofNat Osc.phaseWrap = 1 := by
  show ((Osc.phaseWrap : Nat) : Rat) = 1
  simp [Osc.phaseWrap]

theorem nextPhase_eq : nextPhase (ratArith sinO) = oscStep (ratArith sinO) id 1 := by
  funext p; simp only [nextPhase, oscStep, one_eq, id]
theorem sineNext_eq : sineNext (ratArith sinO) = oscStep (ratArith sinO) (sineWave (ratArith sinO)) 1 := by
  funext p; simp only [sineNext, nextPhase, oscStep, one_eq]
theorem sawNext_eq : sawNext (ratArith sinO) = oscStep (ratArith sinO) (sawWave (ratArith sinO)) 1 := by
  funext p; simp only [sawNext, nextPhase, oscStep, one_eq]
theorem squareNext_eq : squareNext (ratArith sinO) = oscStep (ratArith sinO) (squareWave (ratArith sinO)) 1 := by
  funext p; simp only [squareNext, nextPhase, oscStep, one_eq]
theorem simplexNext_eq : simplexNext (ratArith sinO) = oscStep (ratArith sinO) (simplexNoise1d (ratArith sinO)) 65536 := by
  funext p
  have : (ratArith sinO).ofNat Osc.simplexWrap = 65536 := by
    show ((Osc.simplexWrap : Nat) : Rat) = 65536
    simp [Osc.simplexWrap]
  simp only [simplexNext, oscStep, this]

/-! ## waveforms -/

theorem sawWave_eq (ph : Rat) : sawWave (ratArith sinO) ph = 1 - 2 * ph := by
  show ph * -((Osc.sawMul : Nat) : Rat) + ((Osc.sawAdd : Nat) : Rat) = 1 - 2 * ph
  simp [Osc.sawMul, Osc.sawAdd]; ring

set_option linter.unusedSimpArgs false in
theorem squareWave_eq (ph : Rat) : squareWave (ratArith sinO) ph = if ph < 1 / 2 then 1 else -1 := by
  have e : (ratArith sinO).ofDec Osc.squareThrNum Osc.squareThrExp = 1 / 2 := by
    show ((Osc.squareThrNum : Nat) : Rat) / ((10 ^ Osc.squareThrExp : Nat) : Rat) = 1 / 2
    norm_num [Osc.squareThrNum, Osc.squareThrExp]
  unfold squareWave
  rw [e]
  show (if decide (ph < 1 / 2) = true then ((1 : Nat) : Rat) else -((1 : Nat) : Rat)) = _
  by_cases h : ph < 1 / 2 <;> simp [h]

theorem sineWave_eq (ph : Rat) : sineWave (ratArith sinO) ph = sinO ((ratArith sinO).twoPi * ph) := rfl

/-! ## closed form of the phase sequence -/

/-- sum of the first `k` phase steps a source will hand out: `k·step` for `ConstHz`,
    `Σ_{i<k} hz_i / rate` for `Hz` (frames beyond the end of the list count as 0) -/
def stepSum : StepSrc Rat → Nat → Rat
  | .const s, k => (k : Rat) * s
  | .hz rate fs _, k => ((fs.take k).map (· / rate)).sum

theorem stepSum_zero (s : StepSrc Rat) : stepSum s 0 = 0 := by
  cases s <;> simp [stepSum]

theorem stepSum_succ (s : StepSrc Rat) (k : Nat) :
    stepSum s (k + 1) = (s.step (ratArith sinO)).1 + stepSum (s.step (ratArith sinO)).2 k := by
  cases s with
  | const s => simp only [stepSum, StepSrc.step]; push_cast; ring
  | hz rate fs n =>
    cases fs with
    | nil =>
      show stepSum (.hz rate [] n) (k + 1) = ((0 : Nat) : Rat) / rate + stepSum (.hz rate [] (n + 1)) k
      simp [stepSum]
    | cons f fs =>
      show stepSum (.hz rate (f :: fs) n) (k + 1) = f / rate + stepSum (.hz rate fs (n + 1)) k
      simp [stepSum]

theorem fract_fract_add (a b : Rat) : Int.fract (Int.fract a + b) = Int.fract (a + b) := by
  have : Int.fract a + b = a + b - ((⌊a⌋ : Int) : Rat) := by unfold Int.fract; ring
  rw [this, Int.fract_sub_intCast]

/-- **closed form**: frame `k` of any oscillator run is `wave (frac (phase₀ + Σ_{i<k} step_i))` -/
theorem run_oscStep_closed (wave : Rat → Rat) :
    ∀ (n : Nat) (p : Phase Rat), 0 ≤ p.next → p.next < 1 → SrcOK p.src →
      (run (oscStep (ratArith sinO) wave 1) n p).1 =
        (List.range n).map (fun k => wave (Int.fract (p.next + stepSum p.src k))) := by
  intro n
  induction n with
  | zero => intro p _ _ _; rfl
  | succ n ih =>
    intro p h0 h1 hs
    obtain ⟨hs1, hs2⟩ := step_ok sinO hs
    have hn : (nextPhaseWrappedTo (ratArith sinO) p 1).2.next = Int.fract (p.next + (p.src.step (ratArith sinO)).1) := by
      rw [nextPhaseWrappedTo_next, ratRem_one (add_nonneg h0 hs1)]
    have ih' := ih (nextPhaseWrappedTo (ratArith sinO) p 1).2 (by rw [hn]; exact Int.fract_nonneg _)
      (by rw [hn]; exact Int.fract_lt_one _) hs2
    show wave p.next :: (run (oscStep (ratArith sinO) wave 1) n (nextPhaseWrappedTo (ratArith sinO) p 1).2).1 = _
    rw [ih', List.range_succ_eq_map, List.map_cons, List.map_map, stepSum_zero, add_zero,
      Int.fract_eq_self.mpr ⟨h0, h1⟩]
    congr 1
    apply List.map_congr_left
    intro k _
    simp only [Function.comp, Nat.succ_eq_add_one]
    rw [hn, fract_fract_add, stepSum_succ sinO p.src k, add_assoc]
    rfl

/-! ## one frequency frame per output frame (any arithmetic, native f64 included) -/

/-- frequency frames not yet consumed -/
def StepSrc.remaining : StepSrc α → List α
  | .const _ => []
  | .hz _ fs _ => fs

def StepSrc.isHz : StepSrc α → Prop
  | .const _ => False
  | .hz _ _ _ => True

theorem step_pulls (A : Arith α) (s : StepSrc α) (h : s.isHz) :
    (s.step A).2.isHz ∧ (s.step A).2.pulled = s.pulled + 1 ∧ (s.step A).2.remaining = s.remaining.drop 1 := by
  cases s with
  | const s => exact h.elim
  | hz rate fs n => cases fs <;> exact ⟨trivial, rfl, rfl⟩

/-- `f` advances its phase by exactly one `Step::step` call per frame -/
def OneStep (A : Arith α) (f : Phase α → α × Phase α) : Prop := ∀ p, (f p).2.src = (p.src.step A).2

theorem oneStep_phase (A : Arith α) : OneStep A (nextPhase A) := fun _ => rfl
theorem oneStep_sine (A : Arith α) : OneStep A (sineNext A) := fun _ => rfl
theorem oneStep_saw (A : Arith α) : OneStep A (sawNext A) := fun _ => rfl
theorem oneStep_square (A : Arith α) : OneStep A (squareNext A) := fun _ => rfl
theorem oneStep_simplex (A : Arith α) : OneStep A (simplexNext A) := fun _ => rfl

theorem run_pulls (A : Arith α) (f : Phase α → α × Phase α) (hf : OneStep A f) :
    ∀ (n : Nat) (p : Phase α), p.src.isHz →
      (run f n p).1.length = n ∧ (run f n p).2.src.isHz ∧
      (run f n p).2.src.pulled = p.src.pulled + n ∧ (run f n p).2.src.remaining = p.src.remaining.drop n := by
  intro n
  induction n with
  | zero => intro p h; exact ⟨rfl, h, rfl, by simp [run]⟩
  | succ n ih =>
    intro p h
    obtain ⟨a, b, c⟩ := step_pulls A p.src h
    rw [← hf p] at a b c
    obtain ⟨i0, i1, i2, i3⟩ := ih (f p).2 a
    refine ⟨by simp [run, i0], i1, ?_, ?_⟩
    · show (run f n (f p).2).2.src.pulled = _
      rw [i2, b]; omega
    · show (run f n (f p).2).2.src.remaining = _
      rw [i3, c, List.drop_drop]; congr 1; omega

/-! ## noise -/

theorem noiseHash_lt (seed : Nat) : noiseHash seed < 2147483648 := by
  unfold noiseHash
  have := @Nat.and_le_right
    ((((seed <<< Osc.seedShift) % M64 ^^^ seed) * ((((seed <<< Osc.seedShift) % M64 ^^^ seed) * ((seed <<< Osc.seedShift) % M64 ^^^ seed) % M64 * Osc.prime1 % M64 + Osc.prime2) % M64) % M64 + Osc.prime3) % M64)
    Osc.noiseMask
  simp only [Osc.noiseMask] at this ⊢
  omega

theorem noise1_eq (seed : Nat) : noise1 (ratArith sinO) seed = 1 - (noiseHash seed : Rat) / 1073741824 := by
  show ((1 : Nat) : Rat) - ((noiseHash seed : Nat) : Rat) / ((Osc.noiseDiv : Nat) : Rat) = _
  simp [Osc.noiseDiv]

theorem noise1_range (seed : Nat) : -1 < noise1 (ratArith sinO) seed ∧ noise1 (ratArith sinO) seed ≤ 1 := by
  rw [noise1_eq]
  have h := noiseHash_lt seed
  have h1 : ((noiseHash seed : Nat) : Rat) < 2147483648 := by exact_mod_cast h
  have h0 : (0 : Rat) ≤ (noiseHash seed : Nat) := Nat.cast_nonneg _
  constructor
  · have : ((noiseHash seed : Nat) : Rat) / 1073741824 < 2 := by
      rw [div_lt_iff₀ (by norm_num)]; linarith
    linarith
  · have : (0 : Rat) ≤ ((noiseHash seed : Nat) : Rat) / 1073741824 := div_nonneg h0 (by norm_num)
    linarith

/-- frame `i` of a noise generator whose seed field is `s` is `noise_1((s + i) mod 2^64)`, for any arithmetic -/
theorem run_noise (A : Arith α) : ∀ (n s : Nat), s < M64 →
    (run (noiseNext A) n ⟨s⟩).1 = (List.range n).map (fun i => noise1 A ((s + i) % M64)) ∧
    (run (noiseNext A) n ⟨s⟩).2 = ⟨(s + n) % M64⟩ := by
  intro n
  induction n with
  | zero => intro s hs; exact ⟨rfl, by simp [run, Nat.mod_eq_of_lt hs]⟩
  | succ n ih =>
    intro s hs
    have hlt : (s + Osc.seedInc) % M64 < M64 := Nat.mod_lt _ (by unfold M64; omega)
    obtain ⟨i1, i2⟩ := ih _ hlt
    have key : ∀ i, ((s + Osc.seedInc) % M64 + i) % M64 = (s + (i + 1)) % M64 := by
      intro i; simp only [Osc.seedInc, M64]; omega
    have hhead : noise1 A ((s + 0) % M64) = noise1 A s := by rw [Nat.add_zero, Nat.mod_eq_of_lt hs]
    have htail : List.map (fun i => noise1 A (((s + Osc.seedInc) % M64 + i) % M64)) (List.range n) =
        List.map ((fun i => noise1 A ((s + i) % M64)) ∘ Nat.succ) (List.range n) := by
      apply List.map_congr_left; intro i _; simp only [Function.comp, key, Nat.succ_eq_add_one]
    constructor
    · show noise1 A s :: (run (noiseNext A) n ⟨(s + Osc.seedInc) % M64⟩).1 = _
      rw [i1, List.range_succ_eq_map, List.map_cons, List.map_map, hhead, htail]
    · show (run (noiseNext A) n ⟨(s + Osc.seedInc) % M64⟩).2 = _
      rw [i2, key, Nat.add_comm n 1]

/-! ## simplex noise -/

theorem perm_length : Osc.perm.length = 256 := by
  set_option maxRecDepth 100000 in decide
theorem perm_lt : ∀ v ∈ Osc.perm, v < 256 := by
  set_option maxRecDepth 100000 in decide

/-- the `u8` hash really is a byte (every PERM entry regenerated from the source is < 256) -/
theorem permHash_lt (i : Int) : permHash i < 256 := by
  unfold permHash
  rw [List.getD_eq_getElem?_getD]
  cases h : Osc.perm[(i % 256).toNat]? with
  | none => simp
  | some v => exact perm_lt v (List.mem_of_getElem? h)

/-- `grad(hash, x) = g·x` with a gradient g ∈ {±1, …, ±8} -/
theorem grad_eq (hash : Nat) : ∃ g : Rat, |g| ≤ 8 ∧ ∀ x, grad (ratArith sinO) hash x = g * x := by
  have hm : (hash &&& Osc.gradMask) &&& Osc.gradMag ≤ 7 := by
    have := @Nat.and_le_right (hash &&& Osc.gradMask) Osc.gradMag
    simpa [Osc.gradMag] using this
  have hb : (0 : Rat) ≤ (((hash &&& Osc.gradMask) &&& Osc.gradMag : Nat) : Rat) ∧
      (((hash &&& Osc.gradMask) &&& Osc.gradMag : Nat) : Rat) ≤ 7 := ⟨Nat.cast_nonneg _, by exact_mod_cast hm⟩
  by_cases hs : ((hash &&& Osc.gradMask) &&& Osc.gradSign != 0) = true
  · refine ⟨-(1 + (((hash &&& Osc.gradMask) &&& Osc.gradMag : Nat) : Rat)), ?_, fun x => ?_⟩
    · rw [abs_neg, abs_of_nonneg (by linarith)]; linarith
    · show (if ((hash &&& Osc.gradMask) &&& Osc.gradSign != 0) = true
          then -(((1 : Nat) : Rat) + ((((hash &&& Osc.gradMask) &&& Osc.gradMag : Nat) : Int) : Rat))
          else ((1 : Nat) : Rat) + ((((hash &&& Osc.gradMask) &&& Osc.gradMag : Nat) : Int) : Rat)) * x = _
      rw [if_pos hs]; simp
  · refine ⟨1 + (((hash &&& Osc.gradMask) &&& Osc.gradMag : Nat) : Rat), ?_, fun x => ?_⟩
    · rw [abs_of_nonneg (by linarith)]; linarith
    · show (if ((hash &&& Osc.gradMask) &&& Osc.gradSign != 0) = true
          then -(((1 : Nat) : Rat) + ((((hash &&& Osc.gradMask) &&& Osc.gradMag : Nat) : Int) : Rat))
          else ((1 : Nat) : Rat) + ((((hash &&& Osc.gradMask) &&& Osc.gradMag : Nat) : Int) : Rat)) * x = _
      rw [if_neg hs]; simp

theorem toI64_floor {x : Rat} (h0 : 0 ≤ x) (h1 : x < 65536) :
    (ratArith sinO).toI64 ((ratArith sinO).floor x) = ⌊x⌋ := by
  show clampI64 (ratTrunc ((x.floor : Int) : Rat)) = ⌊x⌋
  have hf0 : 0 ≤ ⌊x⌋ := Int.floor_nonneg.mpr h0
  have hf1 : ⌊x⌋ < 65536 := by
    have : ((⌊x⌋ : Int) : Rat) < 65536 := lt_of_le_of_lt (Int.floor_le x) h1
    exact_mod_cast this
  have e : ratTrunc ((x.floor : Int) : Rat) = ⌊x⌋ := by
    rw [ratTrunc_of_nonneg (by exact_mod_cast hf0)]
    exact Int.floor_intCast _
  rw [e]; unfold clampI64
  rw [if_neg (by omega), if_neg (by omega)]

/-- |simplex_noise_1d(x)| ≤ 0.99984375 for every phase the oscillator can hand it (exact arithmetic) -/
theorem simplexNoise1d_bound {x : Rat} (h0 : 0 ≤ x) (h1 : x < 65536) :
    |simplexNoise1d (ratArith sinO) x| ≤ 99984375 / 100000000 := by
  obtain ⟨g0, hg0, e0⟩ := grad_eq sinO (permHash ⌊x⌋)
  obtain ⟨g1, hg1, e1⟩ := grad_eq sinO (permHash (⌊x⌋ + 1))
  have hx0 : 0 ≤ x - ((⌊x⌋ : Int) : Rat) := sub_nonneg.mpr (Int.floor_le x)
  have hx1 : x - ((⌊x⌋ : Int) : Rat) < 1 := by have := Int.lt_floor_add_one x; linarith
  have hsc : (ratArith sinO).ofDec Osc.scaleNum Osc.scaleExp = 395 / 1000 := by
    show ((Osc.scaleNum : Nat) : Rat) / ((10 ^ Osc.scaleExp : Nat) : Rat) = _
    norm_num [Osc.scaleNum, Osc.scaleExp]
  have key : simplexNoise1d (ratArith sinO) x =
      (395 / 1000) * ((1 - (x - ((⌊x⌋ : Int) : Rat)) ^ 2) ^ 4 * (g0 * (x - ((⌊x⌋ : Int) : Rat))) +
        (1 - ((x - ((⌊x⌋ : Int) : Rat)) - 1) ^ 2) ^ 4 * (g1 * ((x - ((⌊x⌋ : Int) : Rat)) - 1))) := by
    unfold simplexNoise1d
    simp only [toI64_floor sinO h0 h1, e0, e1, hsc]
    show (395 / 1000 : Rat) * (_ + _) = _
    simp only [ratArith, Nat.cast_one]
    ring
  rw [key]
  exact Dasp.Simplex.simplex_bound _ g0 g1 hx0 hx1 hg0 hg1

end Dasp.Osc
