import Dasp.Model.Ring
/-!
# Helper lemmas for C06: arithmetic of the live window of a ring buffer

`window d s n` (Model/Ring.lean) lists `d[(s+0) % c], …, d[(s+n-1) % c]`, `c = d.length`.
Everything the property theorems need about wrap-around is proved here once:
slot injectivity, advancing the start (`window_succ`), writing inside / behind / outside
the window, the split into the code's two slices, and writes through `&mut` positions.
Core Lean only (no Mathlib needed).
-/
set_option linter.unusedSectionVars false
set_option linter.unusedSimpArgs false

namespace Dasp.Ring
variable {α : Type} [Inhabited α]

theorem add_mod_wrap {s i c : Nat} (hs : s < c) (hi : i ≤ c) :
    (s + i) % c = if s + i < c then s + i else s + i - c := by
  split
  · exact Nat.mod_eq_of_lt ‹_›
  · rw [Nat.mod_eq_sub_mod (by omega)]; exact Nat.mod_eq_of_lt (by omega)

theorem getBang_set (d : List α) (p k : Nat) (x : α) :
    (d.set p x)[k]! = if p = k ∧ k < d.length then x else d[k]! := by
  by_cases h : p = k
  · subst h
    by_cases h2 : p < d.length
    · simp [h2]
    · simp [h2]
  · simp [h]

@[simp] theorem window_length (d : List α) (s n : Nat) : (window d s n).length = n := by
  simp [window]

theorem window_getElem? (d : List α) (s n i : Nat) :
    (window d s n)[i]? = if i < n then some d[(s + i) % d.length]! else none := by
  unfold window
  by_cases h : i < n <;> simp [h]

theorem window_getElem (d : List α) (s n i : Nat) (h : i < (window d s n).length) :
    (window d s n)[i] = d[(s + i) % d.length]! := by
  simp [window]

/-- the slot of live element `i` is in range -/
theorem slot_lt {s i c : Nat} (hs : s < c) : (s + i) % c < c := Nat.mod_lt _ (by omega)

/-- distinct live positions occupy distinct slots -/
theorem slot_inj {s i j c : Nat} (hs : s < c) (hi : i < c) (hj : j < c)
    (h : (s + i) % c = (s + j) % c) : i = j := by
  rw [add_mod_wrap hs (by omega), add_mod_wrap hs (by omega)] at h
  split at h <;> split at h <;> omega

/-- advancing the start by one slot (with wrap) drops the oldest element -/
theorem window_succ (d : List α) (s n : Nat) (hs : s < d.length) :
    window d s (n + 1) = d[s]! :: window d (if s + 1 ≥ d.length then 0 else s + 1) n := by
  apply List.ext_getElem
  · simp
  · intro i h1 h2
    rw [window_getElem]
    cases i with
    | zero => simp [Nat.mod_eq_of_lt hs]
    | succ i =>
      simp only [List.getElem_cons_succ]
      rw [window_getElem]
      congr 1
      split
      · have e : s + (i + 1) = d.length + i := by omega
        rw [e, Nat.add_mod_left, Nat.zero_add]
      · congr 1; omega

/-- a write to a slot outside the window does not change it -/
theorem window_set_notin (d : List α) (s n p : Nat) (x : α)
    (h : ∀ i, i < n → (s + i) % d.length ≠ p) : window (d.set p x) s n = window d s n := by
  apply List.ext_getElem
  · simp
  · intro i h1 h2
    simp only [window_length] at h1
    rw [window_getElem, window_getElem, List.length_set, getBang_set]
    have := h i h1
    simp [Ne.symm this]

/-- a write to the slot of live element `i` is a write at position `i` of the window -/
theorem window_set_at (d : List α) (s n i : Nat) (x : α) (hs : s < d.length) (hn : n ≤ d.length)
    (hi : i < n) : window (d.set ((s + i) % d.length) x) s n = (window d s n).set i x := by
  apply List.ext_getElem
  · simp
  · intro j h1 h2
    simp only [window_length] at h1
    rw [window_getElem, List.length_set, getBang_set, List.getElem_set, window_getElem]
    by_cases hij : i = j
    · subst hij; simp [slot_lt hs]
    · have : (s + i) % d.length ≠ (s + j) % d.length := fun e => hij (slot_inj hs (by omega) (by omega) e)
      simp [this, hij]

/-- writing the slot just behind the window appends -/
theorem window_push (d : List α) (s n : Nat) (x : α) (hs : s < d.length) (hn : n < d.length) :
    window (d.set ((s + n) % d.length) x) s (n + 1) = window d s n ++ [x] := by
  apply List.ext_getElem
  · simp
  · intro j h1 h2
    simp only [window_length] at h1
    rw [window_getElem, List.length_set, getBang_set]
    by_cases hj : j = n
    · subst hj; simp [slot_lt hs]
    · have hjn : j < n := by omega
      have : (s + n) % d.length ≠ (s + j) % d.length := fun e => hj (slot_inj hs (by omega) (by omega) e).symm
      rw [List.getElem_append_left (by simpa using hjn), window_getElem]
      simp [this]


theorem getBang_some (d : List α) (k : Nat) (h : k < d.length) : some d[k]! = d[k]? := by
  simp [h]

/-- next start slot, written once -/
def nextSlot (c s : Nat) : Nat := if s + 1 ≥ c then 0 else s + 1

/-- overwriting the oldest slot of a full ring and advancing the start = drop oldest, append -/
theorem window_rotate_push (d : List α) (s : Nat) (x : α) (hs : s < d.length) :
    window (d.set s x) (nextSlot d.length s) d.length = (window d s d.length).tail ++ [x] := by
  obtain ⟨m, hm⟩ : ∃ m, d.length = m + 1 := ⟨d.length - 1, by omega⟩
  have hslot : (nextSlot d.length s + m) % d.length = s := by
    unfold nextSlot
    split
    · rw [Nat.zero_add]; rw [Nat.mod_eq_of_lt (by omega)]; omega
    · have e : s + 1 + m = d.length + s := by omega
      rw [e, Nat.add_mod_left, Nat.mod_eq_of_lt hs]
  have hns : nextSlot d.length s < d.length := by unfold nextSlot; split <;> omega
  have h1 := window_push d (nextSlot d.length s) m x hns (by omega)
  rw [hslot] at h1
  have h2 := window_succ d s m hs
  conv => lhs; rw [show window (d.set s x) (nextSlot d.length s) d.length
      = window (d.set s x) (nextSlot d.length s) (m + 1) by rw [hm]]
  rw [h1]
  conv => rhs; rw [show window d s d.length = window d s (m + 1) by rw [hm]]
  rw [h2]
  simp [nextSlot]

theorem window_head? (d : List α) (s n : Nat) (hs : s < d.length) (hn : 0 < n) :
    (window d s n).head? = some d[s]! := by
  obtain ⟨m, rfl⟩ : ∃ m, n = m + 1 := ⟨n - 1, by omega⟩
  rw [window_succ d s m hs]; rfl

/-- the window as the code's two slices: wrapped case -/
theorem window_split_wrap (d : List α) (s n : Nat) (hs : s < d.length) (hn : n ≤ d.length)
    (h : d.length - s ≤ n) :
    window d s n = d.drop s ++ (d.take s).take (n - (d.length - s)) := by
  apply List.ext_getElem?
  intro i
  rw [window_getElem?, List.getElem?_append, List.getElem?_drop, List.getElem?_take, List.getElem?_take]
  simp only [List.length_drop]
  by_cases h1 : i < d.length - s
  · have : i < n := by omega
    simp only [this, h1, if_true]
    rw [Nat.mod_eq_of_lt (by omega)]
    exact getBang_some d _ (by omega)
  · simp only [h1, if_false]
    by_cases h2 : i < n
    · have e : (s + i) % d.length = i - (d.length - s) := by
        rw [add_mod_wrap hs (by omega)]; split <;> omega
      have h3 : i - (d.length - s) < n - (d.length - s) := by omega
      have h4 : i - (d.length - s) < s := by omega
      simp only [h2, h3, h4, if_true, e]
      exact getBang_some d _ (by omega)
    · have h3 : ¬ (i - (d.length - s) < n - (d.length - s)) := by omega
      simp [h2, h3]

/-- the window as the code's two slices: contiguous case -/
theorem window_split_contig (d : List α) (s n : Nat) (h : n < d.length - s) :
    window d s n = (d.drop s).take n := by
  apply List.ext_getElem?
  intro i
  rw [window_getElem?, List.getElem?_take, List.getElem?_drop]
  by_cases h2 : i < n
  · simp only [h2, if_true]
    rw [Nat.mod_eq_of_lt (by omega)]
    exact getBang_some d _ (by omega)
  · simp [h2]

/-- abstract counterpart of `writeAt`: overwrite positions k, k+1, … of a list -/
def overwrite (l : List α) : Nat → List α → List α
  | _, [] => l
  | k, x :: xs => overwrite (l.set k x) (k + 1) xs

omit [Inhabited α] in
@[simp] theorem overwrite_length (l : List α) (k : Nat) (xs : List α) :
    (overwrite l k xs).length = l.length := by
  induction xs generalizing l k with
  | nil => rfl
  | cons x xs ih => simp [overwrite, ih]

omit [Inhabited α] in
theorem overwrite_oob (l : List α) (k : Nat) (xs : List α) (h : l.length ≤ k) : overwrite l k xs = l := by
  induction xs generalizing l k with
  | nil => rfl
  | cons x xs ih =>
    simp only [overwrite]
    rw [ih _ _ (by simp; omega)]
    exact List.set_eq_of_length_le h

omit [Inhabited α] in
theorem overwrite_getElem? (l : List α) (k : Nat) (xs : List α) (j : Nat) :
    (overwrite l k xs)[j]? = if k ≤ j ∧ j < k + xs.length ∧ j < l.length then xs[j - k]? else l[j]? := by
  induction xs generalizing l k with
  | nil => simp [overwrite]; intros; omega
  | cons x xs ih =>
    simp only [overwrite, ih, List.length_set, List.length_cons, List.getElem?_set]
    by_cases h1 : k = j
    · subst h1
      by_cases h2 : k < l.length <;> simp [h2] <;> (intros; omega)
    · by_cases h2 : k + 1 ≤ j ∧ j < k + 1 + xs.length ∧ j < l.length
      · have h3 : k ≤ j ∧ j < k + (xs.length + 1) ∧ j < l.length := by omega
        have e : j - k = (j - (k + 1)) + 1 := by omega
        simp only [h2, h3, and_self, if_true, h1, if_false, e, List.getElem?_cons_succ]
      · have h3 : ¬ (k ≤ j ∧ j < k + (xs.length + 1) ∧ j < l.length) := by omega
        simp only [h2, h3, if_false, h1]

/-- overwriting from position 0: the prefix is replaced by `xs`, the rest is kept -/
theorem overwrite_zero (l xs : List α) : overwrite l 0 xs = xs.take l.length ++ l.drop xs.length := by
  apply List.ext_getElem?
  intro j
  rw [overwrite_getElem?, List.getElem?_append, List.getElem?_take, List.getElem?_drop]
  simp only [List.length_take, Nat.zero_le, true_and, Nat.zero_add, Nat.sub_zero]
  by_cases h1 : j < xs.length <;> by_cases h2 : j < l.length
  · have : j < min l.length xs.length := by omega
    simp [h1, h2, this]
  · have : ¬ j < min l.length xs.length := by omega
    have h3 : l.length ≤ xs.length + (j - min l.length xs.length) := by omega
    simp [h1, h2, this, List.getElem?_eq_none h3]
  · have : ¬ j < min l.length xs.length := by omega
    have e : xs.length + (j - min l.length xs.length) = j := by omega
    simp [h1, this, e]
  · have : ¬ j < min l.length xs.length := by omega
    have h3 : l.length ≤ xs.length + (j - min l.length xs.length) := by omega
    simp [h1, this, List.getElem?_eq_none h3, List.getElem?_eq_none (Nat.le_of_not_lt h2)]

/-- writes through the `&mut` references of live positions k, …, n-1 = overwrite of the window -/
theorem window_writeAt (d : List α) (s n m k : Nat) (xs : List α) (hs : s < d.length)
    (hn : n ≤ d.length) (hk : k + m = n) :
    window (writeAt d ((List.range' k m).map fun i => (s + i) % d.length) xs) s n
      = overwrite (window d s n) k xs := by
  induction m generalizing d k xs with
  | zero =>
    simp only [List.range'_zero, List.map_nil]
    rw [overwrite_oob _ _ _ (by simp; omega)]
    cases xs <;> rfl
  | succ m ih =>
    cases xs with
    | nil => simp [writeAt, overwrite]
    | cons x xs =>
      simp only [List.range'_succ, List.map_cons, writeAt, overwrite]
      have hl : (d.set ((s + k) % d.length) x).length = d.length := by simp
      have := ih (d.set ((s + k) % d.length) x) (k + 1) xs (by simpa using hs) (by simpa using hn) (by omega)
      rw [hl] at this
      rw [this, window_set_at d s n k x hs hn (by omega)]

end Dasp.Ring
