import Dasp.Model.Ring
/-! Helper lemmas for C06 (ring-buffer window arithmetic). -/
namespace Dasp.Ring
end Dasp.Ring
