import Dasp.Model.Fork
/-!
# Fork: one branch step refines the two-cursor specification (helper lemmas for C12)

`InvMe f cap s me x y` is the invariant seen from branch `me`: `x` is the cursor of `me`
(number of frames it has received), `y` the cursor of the other branch, `f` the source
stream.  The step lemma is proved once for the macro parameter `me`; branch A / branch B
are its two instances and `invMe_swap` converts between the two views.
-/
namespace Dasp.Fork
open Dasp.SrcQueue

variable {α : Type}

structure InvMe (f : Nat → α) (cap : Nat) (s : St α) (me : Bool) (x y : Nat) : Prop where
  src_eq : ∀ i, s.src.at i = f i
  cap_eq : s.cap = cap
  pos_eq : s.src.pos = max x y
  q_eq : s.q = (List.range' (min x y) (max x y - min x y)).map f
  pend : (y < x → s.pending = !me) ∧ (x < y → s.pending = me)

theorem range'_snoc (lo n : Nat) : List.range' lo (n + 1) = List.range' lo n ++ [lo + n] := by
  simpa using (List.range'_concat (s := lo) (n := n) (step := 1))

theorem invMe_swap (f : Nat → α) (cap : Nat) (s : St α) (me : Bool) (x y : Nat) :
    InvMe f cap s (!me) y x ↔ InvMe f cap s me x y := by
  constructor
  · rintro ⟨h1, h2, h3, h4, h5, h6⟩
    refine ⟨h1, h2, by rw [h3, Nat.max_comm], by rw [h4, Nat.max_comm, Nat.min_comm], ?_, ?_⟩
    · intro h; exact h6 h
    · intro h; have := h5 h; simpa using this
  · rintro ⟨h1, h2, h3, h4, h5, h6⟩
    refine ⟨h1, h2, by rw [h3, Nat.max_comm], by rw [h4, Nat.max_comm, Nat.min_comm], ?_, ?_⟩
    · intro h; have := h6 h; simpa using this
    · intro h; exact h5 h

/-- one `next` on branch `me` under the schedule side condition (its lead stays ≤ cap):
    it receives the frame at its cursor and the invariant holds for the advanced cursor -/
theorem next_me (f : Nat → α) (cap : Nat) (s : St α) (me : Bool) (x y : Nat)
    (hi : InvMe f cap s me x y) (hlead : x + 1 - y ≤ cap) :
    (next s me).1 = f x ∧ InvMe f cap (next s me).2 me (x + 1) y := by
  obtain ⟨hsrc, hcap, hpos, hq, hp1, hp2⟩ := hi
  by_cases hxy : x < y
  · -- `me` lags: the queue is for `me`, non-empty, its head is frame `x`
    have hpend := hp2 hxy
    have hmin : min x y = x := by omega
    have hmax : max x y = y := by omega
    rw [hmin, hmax] at hq
    obtain ⟨k, hk⟩ : ∃ k, y - x = k + 1 := ⟨y - x - 1, by omega⟩
    rw [hk, List.range'_succ, List.map_cons] at hq
    have key : next s me = (f x, { s with q := (List.range' (x + 1) k).map f }) := by
      unfold next; rw [if_pos hpend, hq]
    rw [key]
    have hmin' : min (x + 1) y = x + 1 := by omega
    have hmax' : max (x + 1) y = y := by omega
    refine ⟨rfl, ⟨hsrc, hcap, ?_, ?_, ?_⟩⟩
    · show s.src.pos = max (x + 1) y; rw [hmax', hpos, hmax]
    · show (List.range' (x + 1) k).map f = (List.range' (min (x + 1) y) (max (x + 1) y - min (x + 1) y)).map f
      rw [hmin', hmax']; congr 2; omega
    · show (y < x + 1 → s.pending = !me) ∧ (x + 1 < y → s.pending = me)
      exact ⟨fun h => by omega, fun _ => hpend⟩
  · -- `me` is level or ahead: it pulls a fresh frame and queues it for the other branch
    have hge : y ≤ x := by omega
    have hmin : min x y = y := by omega
    have hmax : max x y = x := by omega
    rw [hmin, hmax] at hq
    rw [hmax] at hpos
    have hlen : s.q.length = x - y := by rw [hq]; simp
    have key : next s me = pull { s with pending := !me } := by
      unfold next
      by_cases hpd : s.pending = me
      · have hxy' : x = y := by
          apply Classical.byContradiction; intro hne
          have := hp1 (by omega); rw [this] at hpd; simp at hpd
        have hqnil : s.q = [] := by rw [hq, hxy']; simp
        rw [if_pos hpd, hqnil]
      · have hpd' : s.pending = !me := by
          cases hs : s.pending <;> cases me <;> simp_all
        rw [if_neg hpd]
        congr 1; cases s; simp_all
    rw [key]
    have hfx : s.src.at s.src.pos = f x := by rw [hpos]; exact hsrc x
    have hpush : push s.q s.cap (f x) = (List.range' y (x + 1 - y)).map f := by
      unfold push
      rw [if_neg (by omega), hq]
      have : x + 1 - y = (x - y) + 1 := by omega
      rw [this, range'_snoc, List.map_append]; simp; congr 1; omega
    have hmin' : min (x + 1) y = y := by omega
    have hmax' : max (x + 1) y = x + 1 := by omega
    refine ⟨hfx, ⟨?_, hcap, ?_, ?_, ?_⟩⟩
    · intro i; exact hsrc i
    · show s.src.pos + 1 = max (x + 1) y; rw [hmax', hpos]
    · show push s.q s.cap (s.src.at s.src.pos) = (List.range' (min (x + 1) y) (max (x + 1) y - min (x + 1) y)).map f
      rw [hmin', hmax', hfx]; exact hpush
    · show (y < x + 1 → (!me) = !me) ∧ (x + 1 < y → (!me) = me)
      exact ⟨fun _ => rfl, fun h => by omega⟩

/-- `pending_frames()` of branch `me` is the number of frames it lags behind -/
theorem pending_me (f : Nat → α) (cap : Nat) (s : St α) (me : Bool) (x y : Nat)
    (hi : InvMe f cap s me x y) : pendingFrames s me = y - x := by
  obtain ⟨_, _, hpos, hq, hp1, hp2⟩ := hi
  unfold pendingFrames
  by_cases hxy : x < y
  · rw [if_pos (hp2 hxy), hq]; simp; omega
  · by_cases hyx : y < x
    · rw [if_neg (by rw [hp1 hyx]; cases me <;> simp)]; omega
    · have : x = y := by omega
      subst this; split <;> simp [hq]


/-! ## A branch pulled alone (the other idle or dropped) needs no lead bound -/

/-- invariant of a branch that is level with or ahead of the other one, without any bound on
    its lead: the source stands at its cursor and nothing in the queue is waiting for it -/
structure SoloInv (f : Nat → α) (s : St α) (me : Bool) (x : Nat) : Prop where
  src_eq : ∀ i, s.src.at i = f i
  pos_eq : s.src.pos = x
  mine_empty : s.pending = me → s.q = []

theorem soloInv_of_invMe (f : Nat → α) (cap : Nat) (s : St α) (me : Bool) (x y : Nat)
    (hi : InvMe f cap s me x y) (hyx : y ≤ x) : SoloInv f s me x := by
  obtain ⟨hsrc, _, hpos, hq, hp1, _⟩ := hi
  refine ⟨hsrc, by rw [hpos]; omega, ?_⟩
  intro hp
  have hxy : x = y := by
    apply Classical.byContradiction; intro hne
    have := hp1 (by omega); rw [this] at hp; cases me <;> simp at hp
  rw [hq, hxy]; simp

theorem next_solo (f : Nat → α) (s : St α) (me : Bool) (x : Nat) (hi : SoloInv f s me x) :
    (next s me).1 = f x ∧ SoloInv f (next s me).2 me (x + 1) := by
  obtain ⟨hsrc, hpos, hm⟩ := hi
  have hfx : s.src.at s.src.pos = f x := by rw [hpos]; exact hsrc x
  by_cases hp : s.pending = me
  · have key : next s me = pull { s with pending := !me } := by
      unfold next; rw [if_pos hp, hm hp]
    rw [key]
    refine ⟨hfx, ⟨fun i => hsrc i, by show s.src.pos + 1 = x + 1; rw [hpos], ?_⟩⟩
    intro h; exfalso; revert h; show (!me) = me → False; cases me <;> simp
  · have key : next s me = pull s := by unfold next; rw [if_neg hp]
    rw [key]
    refine ⟨hfx, ⟨fun i => hsrc i, by show s.src.pos + 1 = x + 1; rw [hpos], ?_⟩⟩
    intro h; exact absurd h hp

theorem solo_of_soloInv (f : Nat → α) (me : Bool) (n : Nat) : ∀ (s : St α) (x : Nat),
    SoloInv f s me x → (solo s me n).1 = (List.range' x n).map f := by
  induction n with
  | zero => intro s x _; rfl
  | succ n ih =>
    intro s x hi
    obtain ⟨h1, h2⟩ := next_solo f s me x hi
    show (next s me).1 :: (solo (next s me).2 me n).1 = _
    rw [h1, ih _ _ h2, List.range'_succ, List.map_cons]

/-- from any invariant state, however far apart the branches are, `n` pulls on branch `me`
    alone yield the `n` consecutive source frames starting at its cursor: first whatever is
    queued for it, then fresh frames — the lead bound does not constrain a lone branch -/
theorem solo_of_invMe (f : Nat → α) (cap : Nat) (me : Bool) (n : Nat) : ∀ (s : St α) (x y : Nat),
    InvMe f cap s me x y → (solo s me n).1 = (List.range' x n).map f := by
  induction n with
  | zero => intro s x y _; rfl
  | succ n ih =>
    intro s x y hi
    by_cases hxy : x < y
    · obtain ⟨h1, h2⟩ := next_me f cap s me x y hi (by omega)
      show (next s me).1 :: (solo (next s me).2 me n).1 = _
      rw [h1, ih _ _ _ h2, List.range'_succ, List.map_cons]
    · exact solo_of_soloInv f me (n + 1) s x (soloInv_of_invMe f cap s me x y hi (by omega))

/-! ## The two-cursor specification and the lift to whole schedules -/

/-- abstract state: how many frames branch A resp. B has received -/
structure Cur where
  a : Nat
  b : Nat
  deriving DecidableEq

def Cur.step (c : Cur) : Op → Cur
  | .pull true => { c with a := c.a + 1 }
  | .pull false => { c with b := c.b + 1 }
  | _ => c

def Cur.run (c : Cur) (ops : List Op) : Cur := ops.foldl Cur.step c

/-- how far the leading branch is ahead -/
def Cur.lead (c : Cur) : Nat := max c.a c.b - min c.a c.b

/-- the schedule never lets either branch get ahead of the other by more than `cap` -/
def Admissible (cap : Nat) (c : Cur) : List Op → Prop
  | [] => True
  | o :: r => (c.step o).lead ≤ cap ∧ Admissible cap (c.step o) r

/-- what the property promises to be observable after `o`: the frame at the pulling branch's
    cursor, each branch's lag, one source pull per distinct frame handed out -/
def specObs (f : Nat → α) (c : Cur) (o : Op) : Obs α :=
  { frame := match o with
      | .pull true => some (f c.a)
      | .pull false => some (f c.b)
      | _ => none
    pendA := (c.step o).b - (c.step o).a
    pendB := (c.step o).a - (c.step o).b
    pulls := max (c.step o).a (c.step o).b }

def specTrace (f : Nat → α) (c : Cur) : List Op → List (Obs α)
  | [] => []
  | o :: r => specObs f c o :: specTrace f (c.step o) r

/-- the invariant in the A/B view -/
def Inv (f : Nat → α) (cap : Nat) (s : St α) (c : Cur) : Prop := InvMe f cap s true c.a c.b

theorem inv_init (src : Src α) (cap : Nat) (h0 : src.pos = 0) :
    Inv src.at cap (init src cap) ⟨0, 0⟩ :=
  ⟨fun _ => rfl, rfl, by simp [init, h0], by simp [init], by simp⟩

theorem look_spec (f : Nat → α) (cap : Nat) (s : St α) (c : Cur) (hi : Inv f cap s c) (fr : Option α) :
    look s fr = { frame := fr, pendA := c.b - c.a, pendB := c.a - c.b, pulls := max c.a c.b } := by
  have hA := pending_me f cap s true c.a c.b hi
  have hB := pending_me f cap s false c.b c.a ((invMe_swap f cap s true c.a c.b).2 hi)
  simp only [look, hA, hB, hi.pos_eq]

/-- one schedule entry: the observation is the specified one and the invariant is kept -/
theorem step_spec (f : Nat → α) (cap : Nat) (s : St α) (c : Cur) (o : Op)
    (hi : Inv f cap s c) (hl : (c.step o).lead ≤ cap) :
    (step s o).1 = specObs f c o ∧ Inv f cap (step s o).2 (c.step o) := by
  cases o with
  | pull me =>
    cases me with
    | true =>
      have h := next_me f cap s true c.a c.b hi (by simp [Cur.step, Cur.lead] at hl; omega)
      have hi' : Inv f cap (next s true).2 (c.step (.pull true)) := h.2
      refine ⟨?_, hi'⟩
      show look (next s true).2 (some (next s true).1) = _
      rw [look_spec f cap _ _ hi', h.1]; rfl
    | false =>
      have hsw := (invMe_swap f cap s true c.a c.b).2 hi
      have h := next_me f cap s false c.b c.a hsw (by simp [Cur.step, Cur.lead] at hl; omega)
      have hi' : Inv f cap (next s false).2 (c.step (.pull false)) :=
        (invMe_swap f cap _ true c.a (c.b + 1)).1 h.2
      refine ⟨?_, hi'⟩
      show look (next s false).2 (some (next s false).1) = _
      rw [look_spec f cap _ _ hi', h.1]; rfl
  | resplitRef => exact ⟨look_spec f cap s c hi none, hi⟩
  | resplitRc => exact ⟨look_spec f cap s c hi none, hi⟩
  | drop me => exact ⟨look_spec f cap s c hi none, hi⟩

/-- refinement for whole schedules: the observable trace is the specified one and the
    state left behind satisfies the invariant for the advanced cursors -/
theorem trace_spec (f : Nat → α) (cap : Nat) (ops : List Op) :
    ∀ (s : St α) (c : Cur), Inv f cap s c → Admissible cap c ops →
      trace s ops = specTrace f c ops ∧ Inv f cap (run s ops) (c.run ops) := by
  induction ops with
  | nil => intro s c hi _; exact ⟨rfl, hi⟩
  | cons o r ih =>
    intro s c hi hadm
    obtain ⟨hl, hr⟩ := hadm
    obtain ⟨h1, h2⟩ := step_spec f cap s c o hi hl
    obtain ⟨h3, h4⟩ := ih (step s o).2 (c.step o) h2 hr
    refine ⟨?_, h4⟩
    show (step s o).1 :: trace (step s o).2 r = specObs f c o :: specTrace f (c.step o) r
    rw [h1, h3]

/-! ### what each branch sees, read off the specified trace -/

/-- the frames handed to branch `me`, in order, given the schedule and the observed trace -/
def logOf (me : Bool) : List Op → List (Obs α) → List α
  | .pull m :: r, o :: t => if m = me then o.frame.toList ++ logOf me r t else logOf me r t
  | _ :: r, _ :: t => logOf me r t
  | _, _ => []

def pullsOf (me : Bool) (ops : List Op) : Nat := ops.countP (· = .pull me)

def Cur.of (c : Cur) (me : Bool) : Nat := if me then c.a else c.b

theorem logOf_spec (f : Nat → α) (me : Bool) (ops : List Op) : ∀ c : Cur,
    logOf me ops (specTrace f c ops) = (List.range' (c.of me) (pullsOf me ops)).map f := by
  induction ops with
  | nil => intro c; simp [logOf, pullsOf]
  | cons o r ih =>
    intro c
    cases o with
    | pull m =>
      by_cases hm : m = me
      · subst hm
        have hc : (c.step (.pull m)).of m = c.of m + 1 := by cases m <;> simp [Cur.step, Cur.of]
        have hfr : (specObs f c (.pull m)).frame = some (f (c.of m)) := by cases m <;> simp [specObs, Cur.of]
        simp only [specTrace, logOf, if_true, ih, hc, hfr, pullsOf, List.countP_cons_of_pos, decide_true]
        simp [Option.toList, List.range'_succ]
      · have hc : (c.step (.pull m)).of me = c.of me := by
          cases m <;> cases me <;> simp_all [Cur.step, Cur.of]
        have hne : ¬ (Op.pull m = Op.pull me) := by intro h; injection h with h; exact hm h
        simp only [specTrace, logOf, if_neg hm, ih, hc, pullsOf]
        rw [List.countP_cons_of_neg (by simpa using hne)]
    | resplitRef =>
      have hc : (c.step .resplitRef).of me = c.of me := rfl
      simp only [specTrace, logOf, ih, hc, pullsOf]
      rw [List.countP_cons_of_neg (by simp)]
    | resplitRc =>
      have hc : (c.step .resplitRc).of me = c.of me := rfl
      simp only [specTrace, logOf, ih, hc, pullsOf]
      rw [List.countP_cons_of_neg (by simp)]
    | drop m =>
      have hc : (c.step (.drop m)).of me = c.of me := rfl
      simp only [specTrace, logOf, ih, hc, pullsOf]
      rw [List.countP_cons_of_neg (by simp)]

theorem cur_run_of (me : Bool) (ops : List Op) : ∀ c : Cur, (c.run ops).of me = c.of me + pullsOf me ops := by
  induction ops with
  | nil => intro c; simp [Cur.run, pullsOf]
  | cons o r ih =>
    intro c
    show ((c.step o).run r).of me = _
    rw [ih]
    cases o with
    | pull m =>
      by_cases hm : m = me
      · subst hm
        have hc : (c.step (.pull m)).of m = c.of m + 1 := by cases m <;> simp [Cur.step, Cur.of]
        rw [hc]; simp only [pullsOf, List.countP_cons_of_pos, decide_true]; omega
      · have hc : (c.step (.pull m)).of me = c.of me := by
          cases m <;> cases me <;> simp_all [Cur.step, Cur.of]
        have hne : ¬ (Op.pull m = Op.pull me) := by intro h; injection h with h; exact hm h
        rw [hc]; simp only [pullsOf]; rw [List.countP_cons_of_neg (by simpa using hne)]
    | resplitRef => simp only [pullsOf]; rw [List.countP_cons_of_neg (by simp)]; rfl
    | resplitRc => simp only [pullsOf]; rw [List.countP_cons_of_neg (by simp)]; rfl
    | drop m => simp only [pullsOf]; rw [List.countP_cons_of_neg (by simp)]; rfl

/-! ### re-splitting is the identity on the shared state -/

def Op.isPull : Op → Bool
  | .pull _ => true
  | _ => false

theorem run_erase_resplit (ops : List Op) : ∀ s : St α, run s ops = run s (ops.filter Op.isPull) := by
  induction ops with
  | nil => intro s; rfl
  | cons o r ih =>
    intro s
    cases o with
    | pull m => simp only [List.filter, Op.isPull]; exact ih _
    | resplitRef => simp only [List.filter, Op.isPull]; exact ih _
    | resplitRc => simp only [List.filter, Op.isPull]; exact ih _
    | drop m => simp only [List.filter, Op.isPull]; exact ih _

theorem trace_erase_resplit (ops : List Op) : ∀ s : St α,
    (trace s ops).filter (fun o => o.frame.isSome) = trace s (ops.filter Op.isPull) := by
  induction ops with
  | nil => intro s; rfl
  | cons o r ih =>
    intro s
    cases o with
    | pull m =>
      show ((step s (.pull m)).1 :: trace (step s (.pull m)).2 r).filter _ =
        (step s (.pull m)).1 :: trace (step s (.pull m)).2 (r.filter Op.isPull)
      rw [List.filter_cons_of_pos (by simp [step, look]), ih]
    | resplitRef =>
      show ((step s .resplitRef).1 :: trace s r).filter _ = trace s (r.filter Op.isPull)
      rw [List.filter_cons_of_neg (by simp [step, look]), ih]
    | resplitRc =>
      show ((step s .resplitRc).1 :: trace s r).filter _ = trace s (r.filter Op.isPull)
      rw [List.filter_cons_of_neg (by simp [step, look]), ih]
    | drop m =>
      show ((step s (.drop m)).1 :: trace s r).filter _ = trace s (r.filter Op.isPull)
      rw [List.filter_cons_of_neg (by simp [step, look]), ih]

end Dasp.Fork
