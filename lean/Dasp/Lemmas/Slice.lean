import Dasp.Model.Slice
import Mathlib.Tactic.Linarith
/-! Helper lemmas for C10: index arithmetic of the frame view and the unchecked zip loop. -/
namespace Dasp.Slice

/-- `i < L/N`, `ch < N`, `N ∣ L`  ⟹  `i*N + ch < L`: every channel of every frame of the view lies
    inside the sample slice -/
theorem idx_lt {n len i ch : Nat} (hd : n ∣ len) (hi : i < len / n) (hc : ch < n) : i * n + ch < len := by
  have h1 : (len / n) * n = len := Nat.div_mul_cancel hd
  have h2 : (i + 1) * n ≤ (len / n) * n := Nat.mul_le_mul_right n hi
  have h3 : (i + 1) * n = i * n + n := Nat.succ_mul i n
  omega

theorem div_mod_idx (n j : Nat) : (j / n) * n + j % n = j := by
  have := Nat.div_add_mod j n
  rw [Nat.mul_comm] at this; exact this

/-- the unchecked loop, started at index `p.length` with the first `p.length` frames already
    processed, on slices of equal remaining length, never leaves the slices and computes `zipWith` -/
theorem zipLoop_spec {FA FB} (f : FA → FB → FA) :
    ∀ (a : List FA) (b : List FB) (p : List FA) (q : List FB), a.length = b.length → p.length = q.length →
      zipLoop f (q ++ b) a.length p.length (p ++ a) = some (p ++ List.zipWith f a b)
  | [], [], p, q, _, _ => by simp [zipLoop]
  | x :: xs, y :: ys, p, q, hab, hpq => by
    have h1 : (p ++ x :: xs)[p.length]? = some x := by simp
    have h2 : (q ++ y :: ys)[p.length]? = some y := by rw [hpq]; simp
    have h3 : (p ++ x :: xs).set p.length (f x y) = (p ++ [f x y]) ++ xs := by simp
    have h4 : q ++ y :: ys = (q ++ [y]) ++ ys := by simp
    have ih := zipLoop_spec f xs ys (p ++ [f x y]) (q ++ [y]) (by simpa using hab) (by simp [hpq])
    simp only [List.length_cons, zipLoop, h1, h2, h3]
    rw [h4]
    simpa using ih
  | [], _ :: _, _, _, hab, _ => by simp at hab
  | _ :: _, [], _, _, hab, _ => by simp at hab

theorem zipWith_snd {F} : ∀ (a b : List F), a.length = b.length → List.zipWith (fun _ y => y) a b = b
  | [], [], _ => rfl
  | _ :: xs, y :: ys, h => by simp [zipWith_snd xs ys (by simpa using h)]
  | [], _ :: _, h => by simp at h
  | _ :: _, [], h => by simp at h

end Dasp.Slice
