import Dasp.Lemmas.Rms
import Mathlib.Data.List.Forall2
import Mathlib.Tactic.Linarith
import Mathlib.Tactic.Ring
import Mathlib.Tactic.Positivity
/-!
# Forward error analysis of the RMS detector in ROUNDED arithmetic (C11, "to within a rigorous
floating-point error bound")

`rndArith rnd` instantiates the arithmetic class of `Model/Rms.lean` at a linearly ordered field in
which every operation is the exact one followed by one application of a rounding function `rnd`
(the standard model of IEEE arithmetic: `fl(a ∘ b) = rnd (a ∘ b)`).  `RndOK rnd u η` is all that is
assumed of `rnd`: `|rnd x − x| ≤ u·|x| + η` (relative error `u` in the normal range, absolute error `η`
in the subnormal range) and `rnd` keeps non-negative numbers non-negative.  `Lemmas/RoundRel.lean`
proves exactly these facts of the rounding of the executable soft-float (`u = 2^−prec`,
`η = 2^(emin−1)`), whose agreement with the hardware is validated on every run.

The SAME `Chan.nextSquared` that the driver runs at binary32/binary64 is analysed here: the running
sum drifts from the sum of the window by at most `E_k` after `k` frames, `E_{k+1} = (1+3u)·E_k + C`,
`C = u·(3N+4)·B + 3η`, where `B` bounds the computed squares.
-/
set_option linter.unusedSectionVars false
set_option linter.dupNamespace false

namespace Dasp.Rms.Rounding
open Dasp Dasp.Rms

variable {K : Type} [Field K] [LinearOrder K] [IsStrictOrderedRing K]

/-- every operation = the exact field operation followed by `rnd`; `usize as f32` is exact
    (`N ≤ 2^24`), comparisons are exact -/
@[reducible] def rndArith (rnd : K → K) : Dasp.Arith K where
  zero := 0
  one := 1
  add a b := rnd (a + b)
  sub a b := rnd (a - b)
  mul a b := rnd (a * b)
  div a b := rnd (a / b)
  neg a := -a
  lt a b := decide (a < b)
  beq a b := decide (a = b)
  ofLen n := (n : K)

/-- what is assumed of the rounding function -/
structure RndOK (rnd : K → K) (u η : K) : Prop where
  u0 : 0 ≤ u
  u1 : u ≤ 1
  η0 : 0 ≤ η
  err : ∀ x, |rnd x - x| ≤ u * |x| + η
  nonneg : ∀ x, 0 ≤ x → 0 ≤ rnd x

/-- `next_squared` of the model in the rounded arithmetic -/
def nextSqR (rnd : K → K) (c : Chan K) (x : K) : Chan K × K :=
  @Chan.nextSquared K (rndArith rnd) c x

/-- the running sum the code computes (lib.rs:148-157), spelled out -/
def newSum (rnd : K → K) (c : Chan K) (x : K) : K :=
  if rnd (rnd (c.sum + rnd (x * x)) - c.window.headD 0) < 0 then 0
  else rnd (rnd (c.sum + rnd (x * x)) - c.window.headD 0)

theorem nextSqR_eq (rnd : K → K) (c : Chan K) (x : K) :
    nextSqR rnd c x =
      (⟨c.window.drop 1 ++ [rnd (x * x)], newSum rnd c x⟩,
       rnd (newSum rnd c x / ((c.window.drop 1 ++ [rnd (x * x)]).length : K))) := by
  simp [nextSqR, Chan.nextSquared, Chan.calcSquared, newSum, Arith.mul, Arith.add, Arith.sub, Arith.div,
    Arith.lt, Arith.zero, Arith.ofLen]

/-! ## list facts -/

theorem sum_le_length_mul (l : List K) (B : K) (h : ∀ y ∈ l, y ≤ B) : l.sum ≤ l.length * B := by
  induction l with
  | nil => simp
  | cons a t ih =>
    have h1 := h a (by simp)
    have h2 := ih (fun y hy => h y (by simp [hy]))
    simp only [List.sum_cons, List.length_cons, Nat.cast_add, Nat.cast_one]
    linarith

theorem forall2_sum_close {δ : K} {l1 l2 : List K}
    (h : List.Forall₂ (fun a b => |a - b| ≤ δ) l1 l2) : |l1.sum - l2.sum| ≤ l1.length * δ := by
  induction h with
  | nil => simp
  | cons hab _ ih =>
    simp only [List.sum_cons, List.length_cons, Nat.cast_add, Nat.cast_one]
    rw [abs_le] at *
    constructor <;> linarith [hab.1, hab.2, ih.1, ih.2]

/-! ## the error recurrence -/

/-- one frame: the drift is multiplied by `1 + 3u` and grows by `C` -/
def errStep (u C E : K) : K := (1 + 3 * u) * E + C

/-- the drift bound after `k` frames from a clean state -/
def errBound (u C : K) : Nat → K
  | 0 => 0
  | k + 1 => errStep u C (errBound u C k)

/-- per-frame increment: `u·(3N+4)·B + 3η` -/
def stepC (n : Nat) (u η B : K) : K := u * ((3 * (n : K) + 4) * B) + 3 * η

theorem errBound_nonneg {u C : K} (hu : 0 ≤ u) (hC : 0 ≤ C) : ∀ k, 0 ≤ errBound u C k
  | 0 => le_refl _
  | k + 1 => by
    have := errBound_nonneg hu hC k
    simp only [errBound, errStep]; positivity

theorem errBound_mono {u C : K} (hu : 0 ≤ u) (hC : 0 ≤ C) (k : Nat) : errBound u C k ≤ errBound u C (k + 1) := by
  have := errBound_nonneg hu hC k
  simp only [errBound, errStep]
  nlinarith

/-- closed form: `E_k ≤ k·C·(1+3u)^k` -/
theorem errBound_le_pow {u C : K} (hu : 0 ≤ u) (hC : 0 ≤ C) : ∀ k : Nat, errBound u C k ≤ k * C * (1 + 3 * u) ^ k
  | 0 => by simp [errBound]
  | k + 1 => by
    have ih := errBound_le_pow hu hC k
    have hp : (1 : K) ≤ (1 + 3 * u) ^ k := one_le_pow₀ (by linarith)
    have hp1 : (1 : K) ≤ 1 + 3 * u := by linarith
    simp only [errBound, errStep, pow_succ, Nat.cast_add, Nat.cast_one]
    have h1 : (1 + 3 * u) * errBound u C k ≤ (1 + 3 * u) * (k * C * (1 + 3 * u) ^ k) :=
      mul_le_mul_of_nonneg_left ih (by linarith)
    have h2 : C ≤ C * ((1 + 3 * u) ^ k * (1 + 3 * u)) := by
      have : (1 : K) ≤ (1 + 3 * u) ^ k * (1 + 3 * u) := by nlinarith
      nlinarith
    nlinarith

/-- `(1+a)^k·(1 − k·a) ≤ 1`: the growth factor stays below `1/(1 − k·a)` -/
theorem pow_mul_le_one {a : K} (ha : 0 ≤ a) : ∀ k : Nat, (1 + a) ^ k * (1 - k * a) ≤ 1
  | 0 => by simp
  | k + 1 => by
    have ih := pow_mul_le_one ha k
    have hp : (0 : K) ≤ (1 + a) ^ k := by positivity
    have hk : (0 : K) ≤ (k : K) := Nat.cast_nonneg k
    have : (1 + a) ^ (k + 1) * (1 - ((k + 1 : Nat) : K) * a) ≤ (1 + a) ^ k * (1 - k * a) := by
      rw [pow_succ, Nat.cast_add, Nat.cast_one]
      have e : (1 + a) ^ k * (1 + a) * (1 - ((k : K) + 1) * a)
          = (1 + a) ^ k * (1 - k * a) - (1 + a) ^ k * ((k + 1) * a * a) := by ring
      rw [e]
      have : 0 ≤ (1 + a) ^ k * ((k + 1) * a * a) := by positivity
      linarith
    linarith

/-- for histories with `6·u·k ≤ 1` the drift is at most `2·k·C` — linear in the number of frames -/
theorem errBound_linear {u C : K} (hu : 0 ≤ u) (hC : 0 ≤ C) (k : Nat) (hk : 6 * u * k ≤ 1) :
    errBound u C k ≤ 2 * k * C := by
  have h1 := errBound_le_pow hu hC k
  have h2 := pow_mul_le_one (a := 3 * u) (by linarith) k
  have hp : (0 : K) ≤ (1 + 3 * u) ^ k := by positivity
  have hhalf : (1 : K) / 2 ≤ 1 - k * (3 * u) := by linarith
  have h3 : (1 + 3 * u) ^ k ≤ 2 := by nlinarith
  have hkC : (0 : K) ≤ k * C := mul_nonneg (Nat.cast_nonneg k) hC
  nlinarith

/-! ## the invariant -/

/-- what holds of one channel in every state reached in rounded arithmetic: the window has its
    length, holds the computed squares (each within `δ` of the true square, in `[0, B]`), and the
    running sum is within `E` of the sum of the window -/
structure RInv (n : Nat) (B δ E : K) (c : Chan K) (live : List K) : Prop where
  len : c.window.length = n
  rng : ∀ y ∈ c.window, 0 ≤ y ∧ y ≤ B
  sum : |c.sum - c.window.sum| ≤ E
  close : List.Forall₂ (fun a b => |a - b| ≤ δ) c.window (specWindow n live)

theorem RInv.init (n : Nat) {B δ : K} (hB : 0 ≤ B) (hδ : 0 ≤ δ) :
    RInv n B δ 0 (@Chan.init K (rndArith (fun x => x)) n) [] := by
  refine ⟨by simp [Chan.init, Chan.new], ?_, by simp [Chan.init, Chan.new, Arith.zero], ?_⟩
  · intro y hy
    simp only [Chan.init, Chan.new, Arith.zero] at hy
    rw [List.eq_of_mem_replicate hy]; exact ⟨le_refl _, hB⟩
  · rw [specWindow_nil]
    simp only [Chan.init, Chan.new, Arith.zero]
    exact List.forall₂_same.mpr (fun x _ => by simpa using hδ)

/-- `Chan.init` does not depend on the rounding function -/
theorem init_eq (rnd : K → K) (n : Nat) :
    @Chan.init K (rndArith rnd) n = @Chan.init K (rndArith (fun x => x)) n := rfl

theorem RInv.mono {n : Nat} {B δ E E' : K} {c : Chan K} {live : List K} (h : RInv n B δ E c live) (hE : E ≤ E') :
    RInv n B δ E' c live := ⟨h.len, h.rng, le_trans h.sum hE, h.close⟩

/-- **one frame**: the invariant is preserved with the drift bound advanced by one step -/
theorem RInv.step {n : Nat} (hn : 1 ≤ n) {rnd : K → K} {u η B δ E : K} (ok : RndOK rnd u η)
    (hB : 0 ≤ B) (hE : 0 ≤ E) {c : Chan K} {live : List K} (h : RInv n B δ E c live)
    (x : K) (hxB : rnd (x * x) ≤ B) (hxc : |rnd (x * x) - x * x| ≤ δ) :
    RInv n B δ (errStep u (stepC n u η B) E) (nextSqR rnd c x).1 (live ++ [x]) := by
  rw [nextSqR_eq]
  set sq := rnd (x * x) with hsq
  have hsq0 : 0 ≤ sq := ok.nonneg _ (mul_self_nonneg x)
  have hlen1 : 1 ≤ c.window.length := by rw [h.len]; exact hn
  set r := c.window.headD 0 with hr
  have hr_mem : r ∈ c.window := by
    rw [hr]; cases hw : c.window with
    | nil => rw [hw] at hlen1; simp at hlen1
    | cons a t => simp
  obtain ⟨hr0, hrB⟩ := h.rng r hr_mem
  set W := c.window.sum with hW
  have hsplit : r + (c.window.drop 1).sum = W := headD_add_sum_drop c.window hlen1
  have hW0 : 0 ≤ W := List.sum_nonneg (fun y hy => (h.rng y hy).1)
  have hWB : W ≤ n * B := by
    have := sum_le_length_mul c.window B (fun y hy => (h.rng y hy).2)
    rwa [h.len] at this
  have hdrop_mem : ∀ y ∈ c.window.drop 1, y ∈ c.window := fun y hy => List.mem_of_mem_drop hy
  -- the new window
  have hWnew : (c.window.drop 1 ++ [sq]).sum = W - r + sq := by
    rw [List.sum_append, List.sum_singleton]; linarith
  have hWnew0 : 0 ≤ W - r + sq := by
    have : 0 ≤ (c.window.drop 1).sum := List.sum_nonneg (fun y hy => (h.rng y (hdrop_mem y hy)).1)
    linarith
  refine ⟨?_, ?_, ?_, ?_⟩
  · simp [h.len]; omega
  · intro y hy
    rcases List.mem_append.mp hy with hy | hy
    · exact h.rng y (hdrop_mem y hy)
    · simp at hy; subst hy; exact ⟨hsq0, hxB⟩
  · -- the drift
    show |newSum rnd c x - (c.window.drop 1 ++ [sq]).sum| ≤ _
    rw [hWnew]
    set s := c.sum with hs
    set a := s + sq with ha
    set t := rnd a with ht
    set b := t - r with hb
    set d := rnd b with hd
    have hsE : |s - W| ≤ E := h.sum
    have h1 : |t - a| ≤ u * |a| + η := ok.err a
    have h2 : |d - b| ≤ u * |b| + η := ok.err b
    have hu0 := ok.u0; have hu1 := ok.u1; have hη := ok.η0
    have hnK : (0 : K) ≤ n := Nat.cast_nonneg n
    -- |a| ≤ A
    set A := n * B + E + B with hA
    have hA0 : 0 ≤ A := by positivity
    have habs_s : |s| ≤ W + E := by
      have := abs_le.mp hsE
      rw [abs_le]; constructor <;> linarith
    have ha_le : |a| ≤ A := by
      have := abs_le.mp habs_s
      rw [abs_le]; constructor <;> linarith
    have hua : u * |a| ≤ u * A := mul_le_mul_of_nonneg_left ha_le hu0
    have ht_le : |t| ≤ 2 * A + η := by
      have h1' := abs_le.mp h1
      have ha' := abs_le.mp ha_le
      have : u * A ≤ A := by nlinarith
      rw [abs_le]; constructor <;> linarith
    have hb_le : |b| ≤ 2 * A + η + B := by
      have ht' := abs_le.mp ht_le
      rw [abs_le]; constructor <;> linarith
    have hub : u * |b| ≤ u * (2 * A + η + B) := mul_le_mul_of_nonneg_left hb_le hu0
    have huη : u * η ≤ η := by nlinarith
    -- d - W' = (d - b) + (t - a) + (s - W)
    have hdW : |d - (W - r + sq)| ≤ errStep u (stepC n u η B) E := by
      have e : d - (W - r + sq) = (d - b) + (t - a) + (s - W) := by simp only [hb, ha]; ring
      rw [e]
      have h1' := abs_le.mp h1; have h2' := abs_le.mp h2; have h3' := abs_le.mp hsE
      have hbound : u * (2 * A + η + B) + η + (u * A + η) + E ≤ errStep u (stepC n u η B) E := by
        have e2 : errStep u (stepC n u η B) E
            = u * (2 * A + η + B) + η + (u * A + η) + E + (η - u * η) := by
          simp only [errStep, stepC, hA]; ring
        rw [e2]; linarith
      rw [abs_le]; constructor <;> linarith
    -- the clamp only helps
    simp only [newSum]
    split_ifs with hneg
    · have := abs_le.mp hdW
      rw [abs_le]; constructor <;> linarith
    · exact hdW
  · rw [specWindow_snoc hn]
    exact List.rel_append (List.forall₂_drop 1 h.close) (List.Forall₂.cons hxc List.Forall₂.nil)

/-- the state after feeding the inputs `xs` one by one -/
def feedR (rnd : K → K) (c : Chan K) (xs : List K) : Chan K := xs.foldl (fun c x => (nextSqR rnd c x).1) c

theorem feedR_snoc (rnd : K → K) (c : Chan K) (xs : List K) (x : K) :
    feedR rnd c (xs ++ [x]) = (nextSqR rnd (feedR rnd c xs) x).1 := by
  simp [feedR, List.foldl_append]

/-- **any number of frames**: after `k` inputs whose computed squares stay within `[0, B]` and
    within `δ` of the true squares, the invariant holds with drift bound `E_k` -/
theorem RInv.feed {n : Nat} (hn : 1 ≤ n) {rnd : K → K} {u η B δ : K} (ok : RndOK rnd u η)
    (hB : 0 ≤ B) (hδ : 0 ≤ δ) (xs : List K)
    (hx : ∀ x ∈ xs, rnd (x * x) ≤ B ∧ |rnd (x * x) - x * x| ≤ δ) :
    RInv n B δ (errBound u (stepC n u η B) xs.length) (feedR rnd (@Chan.init K (rndArith rnd) n) xs) xs := by
  have hC : 0 ≤ stepC n u η B := by
    have := ok.u0; have := ok.η0; unfold stepC; positivity
  induction xs using List.reverseRecOn with
  | nil => simpa [feedR, errBound, init_eq] using RInv.init n hB hδ
  | append_singleton xs x ih =>
    have ih' := ih (fun y hy => hx y (by simp [hy]))
    obtain ⟨h1, h2⟩ := hx x (by simp)
    rw [feedR_snoc]
    have := RInv.step hn ok hB (errBound_nonneg ok.u0 hC xs.length) ih' x h1 h2
    simpa [errBound] using this

/-- **the output**: in any state satisfying the invariant, the value `next_squared` returns is
    within `δ + u·B + η + (1+u)·E'/N` of the exact mean of the squares of the last `N` inputs, where
    `E'` is the advanced drift bound -/
theorem out_close {n : Nat} (hn : 1 ≤ n) {rnd : K → K} {u η B δ E : K} (ok : RndOK rnd u η)
    (hB : 0 ≤ B) (hE : 0 ≤ E) (hδ : 0 ≤ δ) {c : Chan K} {live : List K} (h : RInv n B δ E c live)
    (x : K) (hxB : rnd (x * x) ≤ B) (hxc : |rnd (x * x) - x * x| ≤ δ) :
    |(nextSqR rnd c x).2 - meanSq n (live ++ [x])|
      ≤ δ + u * B + η + (1 + u) * errStep u (stepC n u η B) E / n := by
  have hstep := RInv.step hn ok hB hE h x hxB hxc
  set E' := errStep u (stepC n u η B) E with hE'
  rw [nextSqR_eq] at hstep ⊢
  set w' := c.window.drop 1 ++ [rnd (x * x)] with hw'
  set s' := newSum rnd c x with hs'
  have hlen : w'.length = n := hstep.len
  have hnK : (0 : K) < n := by exact_mod_cast (show 0 < n by omega)
  simp only [hlen]
  have hsum : |s' - w'.sum| ≤ E' := hstep.sum
  have hW0 : 0 ≤ w'.sum := List.sum_nonneg (fun y hy => (hstep.rng y hy).1)
  have hWB : w'.sum ≤ n * B := by
    have := sum_le_length_mul w' B (fun y hy => (hstep.rng y hy).2)
    rwa [hlen] at this
  have hcl : |w'.sum - (specWindow n (live ++ [x])).sum| ≤ n * δ := by
    have := forall2_sum_close hstep.close
    rwa [hlen] at this
  have hu0 := ok.u0; have hη := ok.η0
  have hE'0 : 0 ≤ E' := le_trans (abs_nonneg _) hsum
  -- |s'| ≤ nB + E'
  have hs_abs : |s'| ≤ n * B + E' := by
    have := abs_le.mp hsum
    rw [abs_le]; constructor <;> linarith
  have hq : |s' / n| ≤ B + E' / n := by
    rw [abs_div, abs_of_pos hnK, div_le_iff₀ hnK]
    have : (B + E' / n) * n = n * B + E' := by field_simp
    rw [this]; exact hs_abs
  have hr := ok.err (s' / n)
  have huq : u * |s' / n| ≤ u * (B + E' / n) := mul_le_mul_of_nonneg_left hq hu0
  -- s'/n vs mean
  have hm : |s' / n - meanSq n (live ++ [x])| ≤ E' / n + δ := by
    unfold meanSq
    rw [← sub_div, abs_div, abs_of_pos hnK, div_le_iff₀ hnK]
    have e : (E' / n + δ) * n = E' + n * δ := by field_simp
    rw [e]
    have h1 := abs_le.mp hsum; have h2 := abs_le.mp hcl
    rw [abs_le]; constructor <;> linarith
  have e : (1 + u) * E' / n = E' / n + u * (E' / n) := by ring
  rw [e]
  have h1 := abs_le.mp hr; have h2 := abs_le.mp hm
  have : u * (B + E' / n) = u * B + u * (E' / n) := by ring
  rw [abs_le]; constructor <;> linarith

/-- `reset` in rounded arithmetic restores the initial state (no arithmetic is involved) -/
theorem reset_eq_init (rnd : K → K) {n : Nat} (c : Chan K) (h : c.window.length = n) :
    @Chan.reset K (rndArith rnd) c = @Chan.init K (rndArith rnd) n := by
  simp [Chan.reset, Chan.init, Chan.new, List.map_const', h]

end Dasp.Rms.Rounding
